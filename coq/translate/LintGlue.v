(** Hand-written glue of the translation tie for the lint analyzers (C18; DESIGN.md 9.6 "Translation tie for
    the lint analyzers"). TRUSTED, definitions only: it states how the output of harness/linttrans
    (LintTranslated.v) reads Go values and operations in terms of Dbc/Ast.v and Dbc/Lint.v.

    1. Go struct field <-> Ast.v field ([XxxDef_Field]) and the type assertion [d.( *dbc.XxxDef)] ([as_XxxDef]).
       Kinds without a record in Ast.v (VersionDef, NewSymbolsDef, NodesDef, MessageTransmittersDef) are the
       tuples of their constructor arguments.
    2. Loops: [lint_for body l s] = left-to-right fold; the body returns [Next s'] (fall off the end or
       `continue`) or [Break s'] (`break`).
    3. Maps: a map is the list of its insertions, newest first; [set_mem_*] / [map_get_*] = first match.
    4. Reportf: [lint_msg format args] = the message constructor of Lint.v for that format literal.
       TABLE format literal (Go source) -> constructor: [fmt_table] below, one row per Reportf format of the
       20 analyzers; a literal or argument list that is not in the table makes the generated lemma
       [fmt_known_k] of LintTranslated.v fail (reported as a violation), so the default of [lint_msg] is
       never used by a translated analyzer that compiles. The hand model compares message KINDS (and the
       arguments that identify the violation), not the rendered text: fmt.Sprintf is not modelled. *)
From Coq Require Import ZArith List Bool String.
From CanVerif Require Import Dbc.Ast Dbc.Lint.
Import ListNotations.
Open Scope Z_scope.

(* ---- 1. fields ------------------------------------------------------------------------------ *)
Definition as_MessageDef (d : def) : option message_def := match d with DMessage m => Some m | _ => None end.
Definition MessageDef_Pos := m_pos.
Definition MessageDef_MessageID := m_id.
Definition MessageDef_Name := m_name.
Definition MessageDef_Size := m_size.
Definition MessageDef_Transmitter := m_transmitter.
Definition MessageDef_Signals := m_signals.

Definition SignalDef_Pos := sg_pos.
Definition SignalDef_Name := sg_name.
Definition SignalDef_StartBit := sg_start.
Definition SignalDef_Size := sg_size.
Definition SignalDef_IsBigEndian := sg_big_endian.
Definition SignalDef_IsSigned := sg_signed.
Definition SignalDef_IsMultiplexerSwitch := sg_mux_switch.
Definition SignalDef_IsMultiplexed := sg_multiplexed.
Definition SignalDef_MultiplexerSwitch := sg_mux_value.
Definition SignalDef_Offset := sg_offset.
Definition SignalDef_Factor := sg_factor.
Definition SignalDef_Minimum := sg_min.
Definition SignalDef_Maximum := sg_max.
Definition SignalDef_Unit := sg_unit.
Definition SignalDef_Receivers := sg_receivers.

Definition as_VersionDef (d : def) : option (position * bytes) := match d with DVersion p v => Some (p, v) | _ => None end.
Definition VersionDef_Pos (x : position * bytes) := fst x.
Definition VersionDef_Version (x : position * bytes) := snd x.

Definition as_NewSymbolsDef (d : def) : option (position * list bytes) := match d with DNewSymbols p s => Some (p, s) | _ => None end.
Definition NewSymbolsDef_Pos (x : position * list bytes) := fst x.
Definition NewSymbolsDef_Symbols (x : position * list bytes) := snd x.

Definition as_NodesDef (d : def) : option (position * list bytes) := match d with DNodes p s => Some (p, s) | _ => None end.
Definition NodesDef_Pos (x : position * list bytes) := fst x.
Definition NodesDef_NodeNames (x : position * list bytes) := snd x.

Definition as_MessageTransmittersDef (d : def) : option (position * Z * list bytes) :=
  match d with DMessageTransmitters p i t => Some (p, i, t) | _ => None end.
Definition MessageTransmittersDef_Pos (x : position * Z * list bytes) := fst (fst x).
Definition MessageTransmittersDef_MessageID (x : position * Z * list bytes) := snd (fst x).
Definition MessageTransmittersDef_Transmitters (x : position * Z * list bytes) := snd x.

Definition as_EnvironmentVariableDef (d : def) : option envvar_def := match d with DEnvVar e => Some e | _ => None end.
Definition EnvironmentVariableDef_Pos := ev_pos.
Definition EnvironmentVariableDef_Name := ev_name.
Definition EnvironmentVariableDef_Minimum := ev_min.
Definition EnvironmentVariableDef_Maximum := ev_max.
Definition EnvironmentVariableDef_Unit := ev_unit.
Definition EnvironmentVariableDef_AccessNodes := ev_access_nodes.

Definition as_AttributeDef (d : def) : option attribute_def := match d with DAttribute a => Some a | _ => None end.
Definition AttributeDef_Pos := ad_pos.
Definition AttributeDef_Name := ad_name.
Definition AttributeDef_MinimumInt := ad_min_int.
Definition AttributeDef_MaximumInt := ad_max_int.
Definition AttributeDef_MinimumFloat := ad_min_float.
Definition AttributeDef_MaximumFloat := ad_max_float.

Definition as_ValueDescriptionsDef (d : def) : option value_descriptions_def := match d with DValueDescriptions v => Some v | _ => None end.
Definition ValueDescriptionsDef_Pos := vs_pos.
Definition ValueDescriptionsDef_MessageID := vs_message_id.
Definition ValueDescriptionsDef_SignalName := vs_signal.
Definition ValueDescriptionsDef_ValueDescriptions := vs_values.

(* ---- 2. loops, lengths, uint64 --------------------------------------------------------------- *)
Inductive ctl (S : Type) := Next (s : S) | Break (s : S).
Arguments Next {S} s.
Arguments Break {S} s.

Fixpoint lint_for {A S : Type} (body : A -> S -> ctl S) (l : list A) (s : S) : S :=
  match l with
  | [] => s
  | x :: tl => match body x s with Next s' => lint_for body tl s' | Break s' => s' end
  end.

Definition go_len {A : Type} (l : list A) : Z := Z.of_nat (List.length l).
Definition go_u64 (x : Z) : Z := x mod 2 ^ 64.

(* ---- 3. maps --------------------------------------------------------------------------------- *)
Definition set_mem_bytes (k : bytes) (s : list bytes) : bool := mem_bytes k s.
Definition set_mem_Z (k : Z) (s : list Z) : bool := mem_Z k s.
Definition map_get_bytes (k : bytes) (m : list (bytes * bytes)) : option bytes := lookup k m.

(* kind-keyed integer maps (map[reflect.Type]int): absent = 0 *)
Fixpoint map_getd_kind (k : def_kind) (m : list (def_kind * Z)) : Z :=
  match m with
  | [] => 0
  | (k', v) :: tl => if kind_eqb k k' then v else map_getd_kind k tl
  end.
Definition map_inc_kind (k : def_kind) (m : list (def_kind * Z)) : list (def_kind * Z) := (k, map_getd_kind k m + 1) :: m.

(* scanner.Position{Line: l, Column: c} (no file name in the model; Offset 0) *)
Definition go_position (l c : Z) : position := {| p_line := l; p_column := c; p_offset := 0 |}.

(* &dbc.XxxDef{}: zero values, only ever observed through reflect.TypeOf (= kind_of) *)
Definition zero_pos : position := go_position 0 0.
Definition zero_VersionDef : def := DVersion zero_pos [].
Definition zero_NewSymbolsDef : def := DNewSymbols zero_pos [].
Definition zero_BitTimingDef : def := DBitTiming zero_pos 0 0 0.
Definition zero_NodesDef : def := DNodes zero_pos [].

Definition zero_ValueTableDef : def := DValueTable zero_pos [] [].
Definition zero_signal : signal_def := {| sg_pos := zero_pos; sg_name := []; sg_start := 0; sg_size := 0; sg_big_endian := false;
  sg_signed := false; sg_mux_switch := false; sg_multiplexed := false; sg_mux_value := 0; sg_offset := 0; sg_factor := 0;
  sg_min := 0; sg_max := 0; sg_unit := []; sg_receivers := [] |}.
Definition zero_MessageDef : def := DMessage {| m_pos := zero_pos; m_id := 0; m_name := []; m_size := 0; m_transmitter := []; m_signals := [] |}.
Definition zero_SignalDef : def := DSignal zero_signal.
Definition zero_MessageTransmittersDef : def := DMessageTransmitters zero_pos 0 [].
Definition zero_EnvironmentVariableDef : def := DEnvVar {| ev_pos := zero_pos; ev_name := []; ev_type := 0; ev_min := 0; ev_max := 0;
  ev_unit := []; ev_initial := 0; ev_id := 0; ev_access := AccUnrestricted; ev_access_nodes := [] |}.
Definition zero_EnvironmentVariableDataDef : def := DEnvVarData zero_pos [] 0.
Definition zero_CommentDef : def := DComment {| cm_pos := zero_pos; cm_object := OtUnspecified; cm_node := []; cm_message_id := 0;
  cm_signal := []; cm_envvar := []; cm_comment := [] |}.
Definition zero_AttributeDef : def := DAttribute {| ad_pos := zero_pos; ad_object := OtUnspecified; ad_name := []; ad_type := AtInt;
  ad_min_int := 0; ad_max_int := 0; ad_min_float := 0; ad_max_float := 0; ad_enum_values := [] |}.
Definition zero_AttributeDefaultValueDef : def := DAttributeDefault {| dd_pos := zero_pos; dd_name := []; dd_int := 0; dd_float := 0; dd_string := [] |}.
Definition zero_AttributeValueForObjectDef : def := DAttributeValue {| av_pos := zero_pos; av_name := []; av_object := OtUnspecified;
  av_message_id := 0; av_signal := []; av_node := []; av_envvar := []; av_int := 0; av_float := 0; av_string := [] |}.
Definition zero_ValueDescriptionsDef : def := DValueDescriptions {| vs_pos := zero_pos; vs_object := OtUnspecified; vs_message_id := 0;
  vs_signal := []; vs_envvar := []; vs_values := [] |}.

(* `for i, x := range l { if p x { return uint64(i) } }; return dflt` *)
Fixpoint first_index_from {A : Type} (i : Z) (p : A -> bool) (l : list A) (dflt : Z) : Z :=
  match l with
  | [] => dflt
  | x :: tl => if p x then i else first_index_from (i + 1) p tl dflt
  end.
Definition lint_first_index {A : Type} (p : A -> bool) (l : list A) (dflt : Z) : Z := first_index_from 0 p l dflt.

(* ---- 4. Reportf formats ---------------------------------------------------------------------- *)
Inductive farg := FStr (b : bytes) | FInt (z : Z) | FFloat (bits : Z).

Definition a0 (m : msg) (a : list farg) : option msg := match a with [] => Some m | _ => None end.
Definition aS (m : bytes -> msg) (a : list farg) : option msg := match a with [FStr x] => Some (m x) | _ => None end.
Definition aSS (m : bytes -> bytes -> msg) (a : list farg) : option msg :=
  match a with [FStr x; FStr y] => Some (m x y) | _ => None end.
Definition aI (m : Z -> msg) (a : list farg) : option msg := match a with [FInt x] => Some (m x) | _ => None end.
Definition aII (m : Z -> Z -> msg) (a : list farg) : option msg :=
  match a with [FInt x; FInt y] => Some (m x y) | _ => None end.
Definition aFF (m : Z -> Z -> msg) (a : list farg) : option msg :=
  match a with [FFloat x; FFloat y] => Some (m x y) | _ => None end.

(** THE TABLE: Go format literal -> message constructor of Dbc/Lint.v *)
Definition fmt_table : list (bytes * (list farg -> option msg)) :=
  [ (bytes_of_string "definition out of order", a0 MOutOfOrder);
    (bytes_of_string "invalid interval: [%f, %f]", aFF MIntervalFloat);
    (bytes_of_string "invalid interval: [%d, %d]", aII MIntervalInt);
    (bytes_of_string "message names must be CamelCase", a0 MMessageName);
    (bytes_of_string "more than one multiplexer switch", a0 MMuxMany);
    (bytes_of_string "signed multiplexer switch", a0 MMuxSigned);
    (bytes_of_string "can't be multiplexer and multiplexed", a0 MMuxBoth);
    (bytes_of_string "no multiplexer switch for multiplexed signal", a0 MMuxNoSwitch);
    (bytes_of_string "multiplexer switch exceeds max value: %v", aI MMuxExceeds);
    (bytes_of_string "new symbols should be empty", a0 MNewSymbols);
    (bytes_of_string "undeclared transmitter node: %v", aS MUndeclTransmitter);
    (bytes_of_string "undeclared receiver node: %v", aS MUndeclReceiver);
    (bytes_of_string "undeclared access node: %v", aS MUndeclAccess);
    (bytes_of_string "remove reserved signals", a0 MReserved);
    (bytes_of_string "missing required definition(s)", a0 MMissingRequired);
    (bytes_of_string "start bit out of bounds", a0 MStartBit);
    (bytes_of_string "signal names must be CamelCase", a0 MSignalName);
    (bytes_of_string "more than one definition not allowed", a0 MSingleton);
    (bytes_of_string "signal with unit %s should have SI unit %s", aSS MSiUnit);
    (bytes_of_string "non-unique message ID", a0 MDupMessageID);
    (bytes_of_string "non-unique node name", a0 MDupNodeName);
    (bytes_of_string "non-unique signal name", a0 MDupSignalName);
    (bytes_of_string "signal with unit %s must have suffix %s", aSS MUnitSuffix);
    (bytes_of_string "value description must be CamelCase (numbers ignored)", a0 MValueDescription);
    (bytes_of_string "version should be empty", a0 MVersion) ].

Fixpoint fmt_find (f : bytes) (t : list (bytes * (list farg -> option msg))) (a : list farg) : option msg :=
  match t with
  | [] => None
  | (k, mk) :: tl => if bytes_eqb f k then mk a else fmt_find f tl a
  end.
Definition lint_msg_opt (f : bytes) (a : list farg) : option msg := fmt_find f fmt_table a.
Definition fmt_is_known (f : bytes) (a : list farg) : bool := match lint_msg_opt f a with Some _ => true | None => false end.
Definition lint_msg (f : bytes) (a : list farg) : msg := match lint_msg_opt f a with Some m => m | None => MVersion end.
