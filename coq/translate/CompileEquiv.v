(** Translation tie for the DBC compiler (checked on EVERY run of C05, checks/compile_tie.py):
    the passes of internal/generate/compile.go, regenerated as Gallina by harness/compiletrans
    (CompileTranslated.v, names of coq/translate/CompileGlue.v), equal the hand-written model
    Dbc/Compile.v for ALL definition lists, databases and warning lists - no precondition.

      TC_collectDescriptors_eq : collectDescriptors defs (db, ws) = (fold_left collect_step defs db, ws)
      TC_addMetadata_eq        : addMetadata defs st = fold_left meta_step defs st
      TC_less_*_eq             : the four comparators handed to sort.Slice = node_less / msg_less /
                                 sig_less / vd_less, the ones Compile.sort_db hands to Base.Sort.sort_slice
      TC_passes_eq             : addMetadata defs (collectDescriptors defs (empty_db src, [])) =
                                 add_metadata defs (collect src defs)   (the value Compile.compile sorts)

    Proof method: one loop iteration at a time, case analysis on the kind of definition and on the
    lookups; "write through the pointer the lookup returned" (the Database_store functions) against the model's
    update_first by the lemmas of section 2. *)
From Coq Require Import ZArith List Bool Lia.
From CanVerif Require Import Base.Sort Dbc.Ast Descriptor.Types Descriptor.Lookup Gen.Message Dbc.Compile.
From CanTranslated Require Import CompileGlue CompileTranslated.
Import ListNotations.
Open Scope Z_scope.

(** * 1. collectDescriptors *)
Lemma fold_receivers : forall l s,
  fold_left (fun v r => Signal_set_ReceiverNodes v (Signal_ReceiverNodes v ++ [r])) l s
  = Signal_set_ReceiverNodes s (s_receivers s ++ l).
Proof.
  induction l as [|r l IH]; intros s.
  - cbn. rewrite app_nil_r. destruct s; reflexivity.
  - cbn [fold_left]. rewrite IH. destruct s. cbn. rewrite <- app_assoc. reflexivity.
Qed.

Lemma fold_signals : forall (g : signal_def -> signal) l m,
  fold_left (fun v sd => Message_set_Signals v (Message_Signals v ++ [g sd])) l m
  = Message_set_Signals m (msg_signals m ++ map g l).
Proof.
  induction l as [|r l IH]; intros m.
  - cbn. rewrite app_nil_r. destruct m; reflexivity.
  - cbn [fold_left]. rewrite IH. destruct m. cbn. rewrite <- app_assoc. reflexivity.
Qed.

Lemma fold_nodes : forall (g : bytes -> node) l db,
  fold_left (fun v n => Database_set_Nodes v (Database_Nodes v ++ [g n])) l db
  = Database_set_Nodes db (db_nodes db ++ map g l).
Proof.
  induction l as [|r l IH]; intros db.
  - cbn. rewrite app_nil_r. destruct db; reflexivity.
  - cbn [fold_left]. rewrite IH. destruct db. cbn. rewrite <- app_assoc. reflexivity.
Qed.

Lemma TC_collectDescriptors_step_eq : forall db ws d,
  collectDescriptors_step (db, ws) d = (collect_step db d, ws).
Proof.
  intros db ws d. destruct d; try reflexivity.
  - (* NS_.. BU_: the nodes *)
    unfold collectDescriptors_step. cbn [as_VersionDef as_MessageDef as_NodesDef NodesDef_NodeNames].
    rewrite (fold_nodes (fun n => Node_set_Name Node_zero n)). reflexivity.
  - (* BO_ *)
    unfold collectDescriptors_step. cbn [as_VersionDef as_MessageDef collect_step].
    change 3221225472 with msgid_independent. unfold MessageDef_MessageID.
    destruct (m_id m =? msgid_independent); [reflexivity|].
    match goal with |- context [fold_left ?f (MessageDef_Signals m) ?m0] =>
      assert (E : forall l v, fold_left f l v = Message_set_Signals v (msg_signals v ++ map collect_signal l)) end.
    { induction l as [|sd l IH]; intros v.
      - cbn. rewrite app_nil_r. destruct v; reflexivity.
      - cbn [fold_left]. rewrite IH. rewrite fold_receivers. destruct v, sd. cbn. rewrite <- app_assoc. reflexivity. }
    rewrite E. reflexivity.
Qed.

Lemma TC_collectDescriptors_eq : forall defs db ws,
  collectDescriptors defs (db, ws) = (fold_left collect_step defs db, ws).
Proof.
  unfold collectDescriptors. induction defs as [|d defs IH]; intros db ws; [reflexivity|].
  cbn [fold_left]. rewrite TC_collectDescriptors_step_eq. apply IH.
Qed.

(** * 2. addMetadata: pointer writes against update_first *)
Lemma name_eqb_bytes_eqb : forall a b, name_eqb a b = bytes_eqb a b.
Proof. induction a as [|x a IH]; destruct b; cbn; try reflexivity; rewrite IH; reflexivity. Qed.

Lemma upd_nodes : forall (f : node -> node) name ns,
  update_first (fun n => bytes_eqb (node_name n) name) (fun n => Some (f n, @nil warn_kind)) ns =
  match find_node ns name with
  | Some n => Some (replace_first (fun x => name_eqb (node_name x) name) (f n) ns, [])
  | None => None
  end.
Proof.
  induction ns as [|n ns IH]; [reflexivity|]. cbn. change name_eqb with bytes_eqb.
  destruct (bytes_eqb (node_name n) name); [reflexivity|]. rewrite IH. destruct (find_node ns name); reflexivity.
Qed.

Lemma upd_messages : forall (g : message -> option (message * list warn_kind)) id ms,
  update_message id g ms =
  match find_message ms id with
  | Some m => match g m with
              | Some (m', w) => Some (replace_first (fun x => msg_id x =? id) m' ms, w)
              | None => None
              end
  | None => None
  end.
Proof.
  unfold update_message. induction ms as [|m ms IH]; [reflexivity|]. cbn.
  destruct (msg_id m =? id). { destruct (g m) as [[m' w]|]; reflexivity. }
  rewrite IH. destruct (find_message ms id) as [m0|]; [|reflexivity]. destruct (g m0) as [[m' w]|]; reflexivity.
Qed.

Lemma upd_signals : forall (f : signal -> signal * list warn_kind) name ss,
  update_first (fun s => bytes_eqb (s_name s) name) (fun s => Some (f s)) ss =
  match find_signal ss name with
  | Some s => Some (replace_first (fun x => name_eqb (s_name x) name) (fst (f s)) ss, snd (f s))
  | None => None
  end.
Proof.
  induction ss as [|s ss IH]; [reflexivity|]. cbn. change name_eqb with bytes_eqb.
  destruct (bytes_eqb (s_name s) name). { destruct (f s); reflexivity. }
  rewrite IH. destruct (find_signal ss name); reflexivity.
Qed.

Lemma replace_first_same : forall {A} (p : A -> bool) (find : list A -> option A) l a,
  (forall l, find l = match l with [] => None | x :: t => if p x then Some x else find t end) ->
  find l = Some a -> replace_first p a l = l.
Proof.
  intros A p find l a H. induction l as [|x l IH]; intros E; [reflexivity|]. cbn.
  rewrite H in E. destruct (p x). { inversion E; reflexivity. } rewrite IH by exact E. reflexivity.
Qed.

Lemma find_message_same : forall ms id m, find_message ms id = Some m -> replace_first (fun x => msg_id x =? id) m ms = ms.
Proof. intros ms id m. apply (replace_first_same _ (fun l => find_message l id)). intros [|x t]; reflexivity. Qed.
Lemma find_signal_same : forall ss name s, find_signal ss name = Some s -> replace_first (fun x => name_eqb (s_name x) name) s ss = ss.
Proof. intros ss name s. apply (replace_first_same _ (fun l => find_signal l name)). intros [|x t]; reflexivity. Qed.

(** one iteration of the model = look up, change the local, store *)
Lemma act_node : forall db name f,
  apply_action (ANode name f) db =
  match Database_Node db name with
  | Some n => (Database_store_Node db name (f n), [])
  | None => (db, [WNoNode])
  end.
Proof.
  intros. unfold apply_action, Database_Node. rewrite upd_nodes. destruct (find_node (db_nodes db) name); reflexivity.
Qed.

Lemma act_message : forall db id f,
  apply_action (AMessage id f) db =
  match Database_Message db id with
  | Some m => (Database_store_Message db id (f m), [])
  | None => (db, [WNoMessage])
  end.
Proof.
  intros. unfold apply_action, Database_Message. rewrite upd_messages. destruct (find_message (db_messages db) id); reflexivity.
Qed.

Lemma act_signal : forall db id name f,
  apply_action (ASignal id name f) db =
  match Database_Signal db id name with
  | Some s => (Database_store_Signal db id name (fst (f s)), snd (f s))
  | None => (db, [WNoSignal])
  end.
Proof.
  intros. unfold apply_action, update_signal, Database_Signal, Database_store_Signal, db_signal. rewrite upd_messages.
  destruct (find_message (db_messages db) id) as [m|]; [|reflexivity].
  rewrite upd_signals. destruct (find_signal (msg_signals m) name); reflexivity.
Qed.

Lemma store_message_same : forall db id m, Database_Message db id = Some m -> Database_store_Message db id m = db.
Proof.
  unfold Database_Message, Database_store_Message. intros db id m E. rewrite (find_message_same _ _ _ E). destruct db; reflexivity.
Qed.
Lemma store_signal_same : forall db id name s, Database_Signal db id name = Some s -> Database_store_Signal db id name s = db.
Proof.
  unfold Database_Signal, Database_store_Signal, db_signal. intros db id name s E.
  destruct (find_message (db_messages db) id) as [m|] eqn:Em; [|reflexivity].
  rewrite (find_signal_same _ _ _ E).
  replace (Message_set_Signals m (msg_signals m)) with m by (destruct m; reflexivity).
  apply store_message_same. exact Em.
Qed.

Lemma fold_value_descriptions : forall (g : value_description_def -> value_description) l s,
  fold_left (fun v x => Signal_set_ValueDescriptions v (Signal_ValueDescriptions v ++ [g x])) l s
  = set_s_value_descriptions s (s_value_descriptions s ++ map g l).
Proof.
  induction l as [|r l IH]; intros s.
  - cbn. rewrite app_nil_r. destruct s; reflexivity.
  - cbn [fold_left]. rewrite IH. destruct s. cbn. rewrite <- app_assoc. reflexivity.
Qed.

Ltac meta_unfold :=
  unfold addMetadata_step, meta_step;
  cbn [fst snd as_SignalValueTypeDef as_CommentDef as_ValueDescriptionsDef as_AttributeValueForObjectDef meta_action];
  unfold MessageID_ToCAN, go_string_eqb, Def_Position; change 3221225472 with msgid_independent.
Ltac fin := try reflexivity; cbn [fst snd map app apply_action]; rewrite ?app_nil_r; reflexivity.

(** SIG_VALTYPE_ *)
Lemma TC_addMetadata_step_SignalValueType_eq : forall st pos id name vt,
  addMetadata_step st (DSignalValueType pos id name vt) = meta_step st (DSignalValueType pos id name vt).
Proof.
  intros [db ws] pos id name vt. meta_unfold. rewrite act_signal.
  cbn [SignalValueTypeDef_MessageID SignalValueTypeDef_SignalName SignalValueTypeDef_SignalValueType].
  destruct (Database_Signal db (msgid_to_can id) name) as [s|] eqn:E; [|fin].
  destruct (vt =? 0); [fin|].
  destruct (vt =? 1); [|cbn [fst snd map app]; rewrite (store_signal_same _ _ _ _ E); reflexivity].
  unfold Signal_Length. destruct (s_length s =? 32); [fin|].
  cbn [fst snd map app]; rewrite (store_signal_same _ _ _ _ E); reflexivity.
Qed.

(** CM_ *)
Lemma TC_addMetadata_step_Comment_eq : forall st c, addMetadata_step st (DComment c) = meta_step st (DComment c).
Proof.
  intros [db ws] c. meta_unfold. unfold CommentDef_ObjectType, CommentDef_MessageID, CommentDef_NodeName, CommentDef_SignalName.
  destruct (cm_object c); cbv beta iota; try fin.
  - rewrite act_node. destruct (Database_Node db (cm_node c)); fin.
  - destruct (cm_message_id c =? msgid_independent); [fin|]. rewrite act_message.
    destruct (Database_Message db (msgid_to_can (cm_message_id c))); fin.
  - destruct (cm_message_id c =? msgid_independent); [fin|]. rewrite act_signal.
    destruct (Database_Signal db (msgid_to_can (cm_message_id c)) (cm_signal c)); fin.
Qed.

(** VAL_ *)
Lemma TC_addMetadata_step_ValueDescriptions_eq : forall st v,
  addMetadata_step st (DValueDescriptions v) = meta_step st (DValueDescriptions v).
Proof.
  intros [db ws] v. meta_unfold.
  unfold ValueDescriptionsDef_ObjectType, ValueDescriptionsDef_MessageID, ValueDescriptionsDef_SignalName, ValueDescriptionsDef_ValueDescriptions.
  destruct (vs_message_id v =? msgid_independent); [fin|].
  destruct (vs_object v); cbv beta iota; try fin. cbn [ObjectType_eqb negb]. rewrite act_signal.
  destruct (Database_Signal db (msgid_to_can (vs_message_id v)) (vs_signal v)) as [s|]; [|fin].
  rewrite (fold_value_descriptions vdesc_of_def). fin.
Qed.

(** BA_ *)
Lemma TC_addMetadata_step_AttributeValue_eq : forall st a,
  addMetadata_step st (DAttributeValue a) = meta_step st (DAttributeValue a).
Proof.
  intros [db ws] a. meta_unfold.
  unfold AttributeValueForObjectDef_ObjectType, AttributeValueForObjectDef_MessageID, AttributeValueForObjectDef_SignalName,
    AttributeValueForObjectDef_AttributeName.
  destruct (av_object a); cbv beta iota; try fin.
  - rewrite act_message. destruct (Database_Message db (msgid_to_can (av_message_id a))) as [m|] eqn:E; [|fin].
    change [71; 101; 110; 77; 115; 103; 83; 101; 110; 100; 84; 121; 112; 101] with attr_send_type.
    change [71; 101; 110; 77; 115; 103; 67; 121; 99; 108; 101; 84; 105; 109; 101] with attr_cycle_time.
    change [71; 101; 110; 77; 115; 103; 68; 101; 108; 97; 121; 84; 105; 109; 101] with attr_delay_time.
    destruct (bytes_eqb (av_name a) attr_send_type); [fin|].
    destruct (bytes_eqb (av_name a) attr_cycle_time); [fin|].
    destruct (bytes_eqb (av_name a) attr_delay_time); [fin|].
    rewrite (store_message_same _ _ _ E). fin.
  - rewrite act_signal. destruct (Database_Signal db (msgid_to_can (av_message_id a)) (av_signal a)) as [s|] eqn:E; [|fin].
    change [71; 101; 110; 83; 105; 103; 83; 116; 97; 114; 116; 86; 97; 108; 117; 101] with attr_start_value.
    destruct (bytes_eqb (av_name a) attr_start_value); [fin|].
    cbn [fst snd]. rewrite (store_signal_same _ _ _ _ E). fin.
Qed.

Lemma TC_addMetadata_step_eq : forall st d, addMetadata_step st d = meta_step st d.
Proof.
  intros st d. destruct d;
    try apply TC_addMetadata_step_SignalValueType_eq; try apply TC_addMetadata_step_Comment_eq;
    try apply TC_addMetadata_step_ValueDescriptions_eq; try apply TC_addMetadata_step_AttributeValue_eq;
    destruct st as [db ws]; unfold meta_step; cbn; rewrite app_nil_r; reflexivity.
Qed.

Lemma TC_addMetadata_eq : forall defs st, addMetadata defs st = fold_left meta_step defs st.
Proof.
  unfold addMetadata. induction defs as [|d defs IH]; intros st; [reflexivity|].
  cbn [fold_left]. rewrite TC_addMetadata_step_eq. apply IH.
Qed.

(** the two passes in the order of Compile(), from the database Compile() starts with *)
Lemma TC_passes_eq : forall src defs,
  addMetadata defs (collectDescriptors defs (empty_db src, [])) = add_metadata defs (collect src defs).
Proof. intros. rewrite TC_collectDescriptors_eq, TC_addMetadata_eq. reflexivity. Qed.

(** * 3. the comparators handed to sort.Slice by sortDescriptors *)
Lemma TC_less_Nodes_eq : forall a b, sortDescriptors_less_Nodes a b = node_less a b.
Proof. reflexivity. Qed.
Lemma TC_less_Messages_eq : forall a b, sortDescriptors_less_Messages a b = msg_less a b.
Proof. reflexivity. Qed.
Lemma TC_less_Messages_Signals_eq : forall a b, sortDescriptors_less_Messages_Signals a b = sig_less a b.
Proof. reflexivity. Qed.
Lemma TC_less_Messages_Signals_ValueDescriptions_eq : forall a b,
  sortDescriptors_less_Messages_Signals_ValueDescriptions a b = vd_less a b.
Proof. reflexivity. Qed.
(** so the model's sortDescriptors is the sort with the source's comparators *)
Lemma TC_sort_db_eq : forall db,
  sort_db db =
  {| db_source_file := db_source_file db; db_version := db_version db;
     db_messages := map (fun m => set_msg_signals m
                       (map (fun s => set_s_value_descriptions s
                                        (sort_slice sortDescriptors_less_Messages_Signals_ValueDescriptions (s_value_descriptions s)))
                            (sort_slice sortDescriptors_less_Messages_Signals (msg_signals m))))
                     (sort_slice sortDescriptors_less_Messages (db_messages db));
     db_nodes := sort_slice sortDescriptors_less_Nodes (db_nodes db) |}.
Proof. reflexivity. Qed.
