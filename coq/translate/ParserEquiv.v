(** Translation tie for the DBC parser (checked on EVERY run of C04 / C12, checks/parser_tie.py):
    the parseFrom methods of pkg/dbc/def.go, regenerated as Gallina by harness/parsetrans
    (ParserTypes.v, ParserTranslated.v), equal the hand-written model Dbc/Parser.v for ALL parser states,
    all classifications of non-ASCII characters and every fuel.

    Shape of every lemma (the glue is explicit): Parse() calls parseFrom on a fresh zero value &T{};
    the translated method maps the receiver value to its final value; [T_to_def] (ParserGlue.v) reads the
    Go struct as the definition of Dbc/Ast.v:

      TP_T_parseFrom_eq : forall ilh idh F st,
        run_as T_to_def (T_parseFrom ilh idh F T_zero) st = Parser.parse_t ilh idh F st.

    Proof method: symbolic execution of both sides, one parser primitive at a time ([step] destructs the
    innermost scrutinee; the primitives themselves stay opaque), loops by induction on the fuel. *)
From Coq Require Import ZArith List Bool Lia.
From CanVerif Require Import Dbc.Ast Dbc.Scanner Dbc.DecFloat Dbc.Parser Dbc.Totality.
From CanTranslated Require Import ParserTypes ParserGlue ParserTranslated.
Import ListNotations.
Open Scope Z_scope.


(** hand-model loops and translated loops are never destructed by [step]: they are rewritten with
    their loop lemma first *)
Ltac not_loop x :=
  lazymatch x with
  | context [NodesDef_parseFrom_loop1] => fail
  | context [NewSymbolsDef_parseFrom_loop1] => fail
  | context [ValueTableDef_parseFrom_loop1] => fail
  | context [ValueDescriptionsDef_parseFrom_loop1] => fail
  | context [MessageDef_parseFrom_loop1] => fail
  | context [SignalDef_parseFrom_loop1] => fail
  | context [MessageTransmittersDef_parseFrom_loop1] => fail
  | context [EnvironmentVariableDef_parseFrom_loop1] => fail
  | context [AttributeDef_parseFrom_loop1] => fail
  | context [AttributeDefaultValueDef_parseFrom_range1] => fail
  | context [AttributeValueForObjectDef_parseFrom_range1] => fail
  | context [ValueDescriptionDef_parseFrom] => fail
  | context [SignalDef_parseFrom] => fail
  | context [ident_list_loop] => fail
  | context [new_symbols_loop] => fail
  | context [value_descriptions_loop] => fail
  | context [comma_idents_loop] => fail
  | context [signals_loop] => fail
  | context [transmitters_loop] => fail
  | context [comma_strings_loop] => fail
  | context [attribute_value] => fail
  | context [str_index] => fail
  | context [str_from] => fail
  | _ => idtac
  end.

Ltac norm :=
  cbv beta iota zeta delta [bind ret fail panic run_as lift_opt negb andb orb
    kw_version kw_bit_timing kw_new_symbols kw_nodes kw_message kw_signal kw_envvar kw_comment kw_attribute
    kw_attribute_default kw_attribute_value kw_value_descriptions kw_value_table kw_signal_value_type
    kw_message_transmitters kw_envvar_data
    c_nl c_tab c_quote c_lpar c_rpar c_plus c_comma c_minus c_colon c_semi c_at c_lbrack c_bslash c_rbrack c_bar
    TIdent TInt TFloat EOF ws_default ws_sig_newline ws_sig_tab].

Ltac step_with chk :=
  match goal with
  | |- context [match ?x with _ => _ end] =>
    lazymatch x with
    | context [match _ with _ => _ end] => fail
    | _ => chk x; destruct x eqn:?; cbv beta iota zeta; pt_records;
             cbn [str_index str_from Z.ltb Z.compare];
             try change (Z.to_nat 1) with 1%nat; try change (Z.to_nat 0) with 0%nat; cbn [drop nth_error]
    end
  end.
Ltac step := step_with not_loop.
Ltac fstep := step_with ltac:(fun _ => idtac).
Ltac steps := repeat (first [reflexivity | step]).
Ltac fsteps := repeat (first [reflexivity | fstep]).

(** uint64(i) of a non-negative strconv.Atoi result is i *)
Lemma atoi_u64 : forall s i, atoi s = Some i -> (i <? 0) = false -> to_uint64 i = i.
Proof.
  intros s i H Hn. apply Z.ltb_ge in Hn. unfold atoi in H.
  match type of H with context [match ?m with pair _ _ => _ end] => destruct m as [neg ds] end.
  destruct (parse_uint ds) eqn:E; [|discriminate]. pose proof (parse_uint_nonneg O _ _ E).
  unfold to_uint64. destruct neg.
  - destruct (z <=? two63); inversion H; subst. apply Z.mod_small. lia.
  - destruct (z <? two63) eqn:E2; inversion H; subst. apply Z.ltb_lt in E2. unfold two63 in E2. apply Z.mod_small. lia.
Qed.

Section Equiv.
  Variable ilh idh : Z -> bool.
  Variable F : nat.

  (** ---------------------------------------------------------------- definitions without loops *)

  Lemma TP_VersionDef_parseFrom_eq : forall st,
    run_as VersionDef_to_def (VersionDef_parseFrom ilh idh F VersionDef_zero) st = parse_version ilh idh F st.
  Proof. intros. unfold VersionDef_parseFrom, parse_version. norm. pt_records. steps. Qed.

  Lemma TP_ValueDescriptionDef_parseFrom_eq : forall st,
    bind (ValueDescriptionDef_parseFrom ilh idh F ValueDescriptionDef_zero) (fun d => ret (ValueDescriptionDef_to d)) st
    = parse_value_description ilh idh F st.
  Proof. intros. unfold ValueDescriptionDef_parseFrom, parse_value_description. norm. pt_records. steps. Qed.

  Lemma TP_BitTimingDef_parseFrom_eq : forall st,
    run_as BitTimingDef_to_def (BitTimingDef_parseFrom ilh idh F BitTimingDef_zero) st = parse_bit_timing ilh idh F st.
  Proof. intros. unfold BitTimingDef_parseFrom, parse_bit_timing. norm. pt_records. steps. Qed.

  Lemma TP_SignalValueTypeDef_parseFrom_eq : forall st,
    run_as SignalValueTypeDef_to_def (SignalValueTypeDef_parseFrom ilh idh F SignalValueTypeDef_zero) st
    = parse_signal_value_type ilh idh F st.
  Proof. intros. unfold SignalValueTypeDef_parseFrom, parse_signal_value_type. norm. pt_records. steps. Qed.

  Lemma TP_EnvironmentVariableDataDef_parseFrom_eq : forall st,
    run_as EnvironmentVariableDataDef_to_def (EnvironmentVariableDataDef_parseFrom ilh idh F EnvironmentVariableDataDef_zero) st
    = parse_envvar_data ilh idh F st.
  Proof. intros. unfold EnvironmentVariableDataDef_parseFrom, parse_envvar_data. norm. pt_records. steps. Qed.

  Lemma TP_CommentDef_parseFrom_eq : forall st,
    run_as CommentDef_to_def (CommentDef_parseFrom ilh idh F CommentDef_zero) st = parse_comment ilh idh F st.
  Proof. intros. unfold CommentDef_parseFrom, parse_comment, object_ref. norm. pt_records. steps. Qed.

  Lemma TP_UnknownDef_parseFrom_eq : forall st,
    run_as UnknownDef_to_def (UnknownDef_parseFrom ilh idh F UnknownDef_zero) st = parse_unknown ilh idh F st.
  Proof. intros. unfold UnknownDef_parseFrom, parse_unknown, parse_unknown_with. norm. pt_records. steps. Qed.

  (** ---------------------------------------------------------------- loops that append to a list field
      translated: the receiver with the field grown by [++ [x]]; hand model: a reversed accumulator *)

  Ltac use_ih IH H :=
    match goal with
    | |- _ = match _ ?r ?s with _ => _ end =>
      rewrite IH with (racc := r); [norm; pt_records; fsteps | pt_records; simpl; rewrite ?map_app, H; reflexivity]
    end.
  Ltac loop_proof d IH H :=
    norm; pt_records; steps;
    try (destruct d; simpl in *; subst; reflexivity);
    try (use_ih IH H).
  Ltac main_loop L :=
    norm; pt_records; steps;
    try (match goal with |- _ = match _ ?r ?s with _ => _ end => rewrite L with (racc := r) by reflexivity end;
         norm; pt_records; fsteps).

  Lemma NodesDef_loop_eq : forall f d racc st, NodesDef_NodeNames d = rev racc ->
    NodesDef_parseFrom_loop1 ilh idh F f d st
    = bind (ident_list_loop ilh idh F f racc) (fun l => ret (NodesDef_set_NodeNames d l)) st.
  Proof.
    induction f; intros d racc st H; [reflexivity|].
    cbn [NodesDef_parseFrom_loop1 ident_list_loop]. loop_proof d IHf H.
  Qed.

  Lemma TP_NodesDef_parseFrom_eq : forall st,
    run_as NodesDef_to_def (NodesDef_parseFrom ilh idh F NodesDef_zero) st = parse_nodes ilh idh F st.
  Proof. intros. unfold NodesDef_parseFrom, parse_nodes. main_loop NodesDef_loop_eq. Qed.

  Lemma NewSymbolsDef_loop_eq : forall f d racc st, NewSymbolsDef_Symbols d = rev racc ->
    NewSymbolsDef_parseFrom_loop1 ilh idh F f d st
    = bind (new_symbols_loop ilh idh F f racc) (fun l => ret (NewSymbolsDef_set_Symbols d l)) st.
  Proof.
    induction f; intros d racc st H; [reflexivity|].
    cbn [NewSymbolsDef_parseFrom_loop1 new_symbols_loop]. loop_proof d IHf H.
  Qed.

  Lemma TP_NewSymbolsDef_parseFrom_eq : forall st,
    run_as NewSymbolsDef_to_def (NewSymbolsDef_parseFrom ilh idh F NewSymbolsDef_zero) st = parse_new_symbols ilh idh F st.
  Proof. intros. unfold NewSymbolsDef_parseFrom, parse_new_symbols. main_loop NewSymbolsDef_loop_eq. Qed.

  Lemma MessageTransmittersDef_loop_eq : forall f d racc st, MessageTransmittersDef_Transmitters d = rev racc ->
    MessageTransmittersDef_parseFrom_loop1 ilh idh F f d st
    = bind (transmitters_loop ilh idh F f racc) (fun l => ret (MessageTransmittersDef_set_Transmitters d l)) st.
  Proof.
    induction f; intros d racc st H; [reflexivity|].
    cbn [MessageTransmittersDef_parseFrom_loop1 transmitters_loop]. loop_proof d IHf H.
  Qed.

  Lemma TP_MessageTransmittersDef_parseFrom_eq : forall st,
    run_as MessageTransmittersDef_to_def (MessageTransmittersDef_parseFrom ilh idh F MessageTransmittersDef_zero) st
    = parse_message_transmitters ilh idh F st.
  Proof. intros. unfold MessageTransmittersDef_parseFrom, parse_message_transmitters. main_loop MessageTransmittersDef_loop_eq. Qed.

  Lemma EnvironmentVariableDef_loop_eq : forall f d racc st, EnvironmentVariableDef_AccessNodes d = rev racc ->
    EnvironmentVariableDef_parseFrom_loop1 ilh idh F f d st
    = bind (comma_idents_loop ilh idh F f racc) (fun l => ret (EnvironmentVariableDef_set_AccessNodes d l)) st.
  Proof.
    induction f; intros d racc st H; [reflexivity|].
    cbn [EnvironmentVariableDef_parseFrom_loop1 comma_idents_loop]. loop_proof d IHf H.
  Qed.

  Lemma TP_EnvironmentVariableDef_parseFrom_eq : forall st,
    run_as EnvironmentVariableDef_to_def (EnvironmentVariableDef_parseFrom ilh idh F EnvironmentVariableDef_zero) st
    = parse_envvar ilh idh F st.
  Proof. intros. unfold EnvironmentVariableDef_parseFrom, parse_envvar, comma_idents. main_loop EnvironmentVariableDef_loop_eq. Qed.

  Lemma AttributeDef_loop_eq : forall f d racc st, AttributeDef_EnumValues d = rev racc ->
    AttributeDef_parseFrom_loop1 ilh idh F f d st
    = bind (comma_strings_loop ilh idh F f racc) (fun l => ret (AttributeDef_set_EnumValues d l)) st.
  Proof.
    induction f; intros d racc st H; [reflexivity|].
    cbn [AttributeDef_parseFrom_loop1 comma_strings_loop]. loop_proof d IHf H.
  Qed.

  Lemma TP_AttributeDef_parseFrom_eq : forall st,
    run_as AttributeDef_to_def (AttributeDef_parseFrom ilh idh F AttributeDef_zero) st = parse_attribute ilh idh F st.
  Proof. intros. unfold AttributeDef_parseFrom, parse_attribute. norm. pt_records. steps.
    all: match goal with |- context [comma_strings_loop _ _ _ _ ?r _] =>
           rewrite AttributeDef_loop_eq with (racc := r) by reflexivity end; norm; pt_records; fsteps.
  Qed.

  Lemma SignalDef_loop_eq : forall f d racc st, SignalDef_Receivers d = rev racc ->
    SignalDef_parseFrom_loop1 ilh idh F f d st
    = bind (comma_idents_loop ilh idh F f racc) (fun l => ret (SignalDef_set_Receivers d l)) st.
  Proof.
    induction f; intros d racc st H; [reflexivity|].
    cbn [SignalDef_parseFrom_loop1 comma_idents_loop]. loop_proof d IHf H.
  Qed.

  (** the SG_ line: multiplexer indicator (tok.txt[0], tok.txt[1:], strconv.Atoi, uint64(i)) included *)
  Lemma SignalDef_parseFrom_core_eq : forall st,
    bind (SignalDef_parseFrom ilh idh F SignalDef_zero) (fun d => ret (SignalDef_to d)) st = parse_signal ilh idh F st.
  Proof.
    intros. unfold SignalDef_parseFrom, parse_signal, comma_idents. norm. pt_records. steps.
    all: try (match goal with |- context [comma_idents_loop _ _ _ _ ?r _] =>
           rewrite SignalDef_loop_eq with (racc := r) by reflexivity end; norm; pt_records; fsteps).
    all: match goal with H1 : atoi _ = Some ?i, H2 : (?i <? 0) = false |- _ => rewrite (atoi_u64 _ _ H1 H2) end; reflexivity.
  Qed.

  Lemma TP_SignalDef_parseFrom_eq : forall st,
    run_as SignalDef_to_def (SignalDef_parseFrom ilh idh F SignalDef_zero) st
    = bind (parse_signal ilh idh F) (fun s => ret (DSignal s)) st.   (* the SG_ arm of Parser.parse_def_with *)
  Proof.
    intros. unfold run_as, bind. rewrite <- SignalDef_parseFrom_core_eq. unfold bind.
    destruct (SignalDef_parseFrom ilh idh F SignalDef_zero st); reflexivity.
  Qed.

  (** ---------------------------------------------------------------- value descriptions (nested parseFrom)
      [VD_of] is the inverse of ParserGlue.ValueDescriptionDef_to (proof-side only) *)
  Definition VD_of (v : value_description_def) : ValueDescriptionDef :=
    {| ValueDescriptionDef_Pos := vd_pos v; ValueDescriptionDef_Value := vd_value v;
       ValueDescriptionDef_Description := vd_description v |}.
  Lemma VD_map_to_of : forall l, map ValueDescriptionDef_to (map VD_of l) = l.
  Proof. induction l as [|v l IH]; simpl; [reflexivity|]. rewrite IH. destruct v; reflexivity. Qed.

  Lemma ValueDescriptionDef_parseFrom_core_eq : forall st,
    ValueDescriptionDef_parseFrom ilh idh F ValueDescriptionDef_zero st
    = bind (parse_value_description ilh idh F) (fun v => ret (VD_of v)) st.
  Proof. intros. unfold ValueDescriptionDef_parseFrom, parse_value_description, VD_of. norm. pt_records. fsteps. Qed.

  Ltac nested_vd :=
    rewrite ValueDescriptionDef_parseFrom_core_eq; norm;
    match goal with H : parse_value_description _ _ _ ?s = _ |- context [parse_value_description _ _ _ ?s] => rewrite H end;
    cbv beta iota zeta; pt_records.

  Lemma ValueTableDef_loop_eq : forall f d racc st, ValueTableDef_ValueDescriptions d = map VD_of (rev racc) ->
    ValueTableDef_parseFrom_loop1 ilh idh F f d st
    = bind (value_descriptions_loop ilh idh F f racc)
           (fun l => ret (ValueTableDef_set_ValueDescriptions d (map VD_of l))) st.
  Proof.
    induction f; intros d racc st H; [reflexivity|].
    cbn [ValueTableDef_parseFrom_loop1 value_descriptions_loop]. norm. pt_records. steps.
    all: try (destruct d; simpl in *; subst; reflexivity).
    all: nested_vd; try reflexivity; use_ih IHf H.
  Qed.

  Lemma TP_ValueTableDef_parseFrom_eq : forall st,
    run_as ValueTableDef_to_def (ValueTableDef_parseFrom ilh idh F ValueTableDef_zero) st = parse_value_table ilh idh F st.
  Proof.
    intros. unfold ValueTableDef_parseFrom, parse_value_table. norm. pt_records. steps.
    all: rewrite ValueTableDef_loop_eq with (racc := []) by reflexivity; norm; pt_records; fsteps.
    all: unfold ValueTableDef_to_def; pt_records; rewrite VD_map_to_of; reflexivity.
  Qed.

  Lemma ValueDescriptionsDef_loop_eq : forall f d racc st, ValueDescriptionsDef_ValueDescriptions d = map VD_of (rev racc) ->
    ValueDescriptionsDef_parseFrom_loop1 ilh idh F f d st
    = bind (value_descriptions_loop ilh idh F f racc)
           (fun l => ret (ValueDescriptionsDef_set_ValueDescriptions d (map VD_of l))) st.
  Proof.
    induction f; intros d racc st H; [reflexivity|].
    cbn [ValueDescriptionsDef_parseFrom_loop1 value_descriptions_loop]. norm. pt_records. steps.
    all: try (destruct d; simpl in *; subst; reflexivity).
    all: nested_vd; try reflexivity; use_ih IHf H.
  Qed.

  Lemma TP_ValueDescriptionsDef_parseFrom_eq : forall st,
    run_as ValueDescriptionsDef_to_def (ValueDescriptionsDef_parseFrom ilh idh F ValueDescriptionsDef_zero) st
    = parse_value_descriptions ilh idh F st.
  Proof.
    intros. unfold ValueDescriptionsDef_parseFrom, parse_value_descriptions. norm. pt_records. steps.
    all: rewrite ValueDescriptionsDef_loop_eq with (racc := []) by reflexivity; norm; pt_records; fsteps.
    all: unfold ValueDescriptionsDef_to_def; pt_records; rewrite VD_map_to_of; reflexivity.
  Qed.

  (** ---------------------------------------------------------------- BO_ (nested SignalDef.parseFrom) *)
  Definition SD_of (s : signal_def) : SignalDef :=
    {| SignalDef_Pos := sg_pos s; SignalDef_Name := sg_name s; SignalDef_StartBit := sg_start s; SignalDef_Size := sg_size s;
       SignalDef_IsBigEndian := sg_big_endian s; SignalDef_IsSigned := sg_signed s;
       SignalDef_IsMultiplexerSwitch := sg_mux_switch s; SignalDef_IsMultiplexed := sg_multiplexed s;
       SignalDef_MultiplexerSwitch := sg_mux_value s; SignalDef_Offset := sg_offset s; SignalDef_Factor := sg_factor s;
       SignalDef_Minimum := sg_min s; SignalDef_Maximum := sg_max s; SignalDef_Unit := sg_unit s;
       SignalDef_Receivers := sg_receivers s |}.
  Lemma SD_map_to_of : forall l, map SignalDef_to (map SD_of l) = l.
  Proof. induction l as [|v l IH]; simpl; [reflexivity|]. rewrite IH. destruct v; reflexivity. Qed.

  Lemma SignalDef_parseFrom_of_eq : forall st,
    SignalDef_parseFrom ilh idh F SignalDef_zero st = bind (parse_signal ilh idh F) (fun s => ret (SD_of s)) st.
  Proof.
    intros. unfold bind. rewrite <- SignalDef_parseFrom_core_eq. unfold bind, ret.
    destruct (SignalDef_parseFrom ilh idh F SignalDef_zero st); try reflexivity. f_equal. destruct a; reflexivity.
  Qed.

  Ltac nested_sd :=
    rewrite SignalDef_parseFrom_of_eq; norm;
    match goal with H : parse_signal _ _ _ ?s = _ |- context [parse_signal _ _ _ ?s] => rewrite H end;
    cbv beta iota zeta; pt_records.

  Lemma MessageDef_loop_eq : forall f d racc st, MessageDef_Signals d = map SD_of (rev racc) ->
    MessageDef_parseFrom_loop1 ilh idh F f d st
    = bind (signals_loop ilh idh F f racc) (fun l => ret (MessageDef_set_Signals d (map SD_of l))) st.
  Proof.
    induction f; intros d racc st H; [reflexivity|].
    cbn [MessageDef_parseFrom_loop1 signals_loop]. norm. pt_records. steps.
    all: try (destruct d; simpl in *; subst; reflexivity).
    all: nested_sd; try reflexivity; use_ih IHf H.
  Qed.

  Lemma TP_MessageDef_parseFrom_eq : forall st,
    run_as MessageDef_to_def (MessageDef_parseFrom ilh idh F MessageDef_zero) st = parse_message ilh idh F st.
  Proof.
    intros. unfold MessageDef_parseFrom, parse_message, parse_message_with. norm. pt_records. steps.
    all: rewrite MessageDef_loop_eq with (racc := []) by reflexivity; norm; pt_records; fsteps.
    all: unfold MessageDef_to_def; pt_records; rewrite SD_map_to_of; reflexivity.
  Qed.

  (** ---------------------------------------------------------------- BA_DEF_DEF_ / BA_: `for _, prevDef := range p.defs` with type assertion and break
      = Parser.find_attribute (the first earlier AttributeDef with this name); p.defs = the definitions parsed so far *)
  Lemma AttributeDefaultValueDef_range_eq : forall l d st,
    AttributeDefaultValueDef_DefaultIntValue d = 0 -> AttributeDefaultValueDef_DefaultFloatValue d = 0 -> AttributeDefaultValueDef_DefaultStringValue d = [] ->
    AttributeDefaultValueDef_parseFrom_range1 ilh idh F l d st
    = bind (attribute_value ilh idh F l (AttributeDefaultValueDef_AttributeName d))
        (fun v => let '(i, f, s) := v in
                  ret (AttributeDefaultValueDef_set_DefaultStringValue (AttributeDefaultValueDef_set_DefaultFloatValue (AttributeDefaultValueDef_set_DefaultIntValue d i) f) s)) st.
  Proof.
    induction l as [|x l IH]; intros d st Hi Hf Hs.
    - destruct d; simpl in *; subst; reflexivity.
    - cbn [AttributeDefaultValueDef_parseFrom_range1]. unfold attribute_value. cbn [find_attribute].
      destruct x; cbn [as_AttributeDef]; try (apply IH; assumption).
      unfold AttributeDef_of; pt_records.
      destruct (bytes_eqb (ad_name a) (AttributeDefaultValueDef_AttributeName d)) eqn:E; [|apply IH; assumption].
      norm. pt_records. fsteps. all: destruct d; simpl in *; subst; reflexivity.
  Qed.

  Lemma TP_AttributeDefaultValueDef_parseFrom_eq : forall defs st,
    run_as AttributeDefaultValueDef_to_def (AttributeDefaultValueDef_parseFrom ilh idh F defs AttributeDefaultValueDef_zero) st = parse_attribute_default ilh idh F defs st.
  Proof.
    intros. unfold AttributeDefaultValueDef_parseFrom, parse_attribute_default, object_ref. norm. pt_records. steps.
    all: rewrite AttributeDefaultValueDef_range_eq by reflexivity; norm; pt_records; fsteps.
  Qed.

  Lemma AttributeValueForObjectDef_range_eq : forall l d st,
    AttributeValueForObjectDef_IntValue d = 0 -> AttributeValueForObjectDef_FloatValue d = 0 -> AttributeValueForObjectDef_StringValue d = [] ->
    AttributeValueForObjectDef_parseFrom_range1 ilh idh F l d st
    = bind (attribute_value ilh idh F l (AttributeValueForObjectDef_AttributeName d))
        (fun v => let '(i, f, s) := v in
                  ret (AttributeValueForObjectDef_set_StringValue (AttributeValueForObjectDef_set_FloatValue (AttributeValueForObjectDef_set_IntValue d i) f) s)) st.
  Proof.
    induction l as [|x l IH]; intros d st Hi Hf Hs.
    - destruct d; simpl in *; subst; reflexivity.
    - cbn [AttributeValueForObjectDef_parseFrom_range1]. unfold attribute_value. cbn [find_attribute].
      destruct x; cbn [as_AttributeDef]; try (apply IH; assumption).
      unfold AttributeDef_of; pt_records.
      destruct (bytes_eqb (ad_name a) (AttributeValueForObjectDef_AttributeName d)) eqn:E; [|apply IH; assumption].
      norm. pt_records. fsteps. all: destruct d; simpl in *; subst; reflexivity.
  Qed.

  Lemma TP_AttributeValueForObjectDef_parseFrom_eq : forall defs st,
    run_as AttributeValueForObjectDef_to_def (AttributeValueForObjectDef_parseFrom ilh idh F defs AttributeValueForObjectDef_zero) st = parse_attribute_value ilh idh F defs st.
  Proof.
    intros. unfold AttributeValueForObjectDef_parseFrom, parse_attribute_value, object_ref. norm. pt_records. steps.
    all: rewrite AttributeValueForObjectDef_range_eq by reflexivity; norm; pt_records; fsteps.
  Qed.

  (** ================================================================ Parser helper methods (parser.go)
      Each translated helper calls the MODEL's operations (table prims of the translator); the lemma says it IS the
      model's operation of the same name. Together with the parseFrom lemmas above (which also go through the
      model's operations) the trusted hand-modelled operations shrink to the ones listed in DESIGN 9.6. *)
  Ltac units := repeat match goal with u : unit |- _ => destruct u end.
  Ltac hsteps := norm; pt_records; repeat (first [reflexivity | progress units | fstep]).

  (** peekToken is idempotent (Parser.peekKeyword and Parser.token peek again for the error position) *)
  Lemma peek_peek : forall st t st', peek_token ilh idh F st = POk t st' -> peek_token ilh idh F st' = POk t st'.
  Proof.
    intros st t st'. unfold peek_token. destruct (p_look st) eqn:E.
    - intros H; inversion H; subst. rewrite E. reflexivity.
    - destruct (scan ilh idh F (p_sc st)) as [[t0 s0]| |]; intros H; inversion H; subst. reflexivity.
  Qed.

  Lemma TP_Parser_keyword_eq : forall kw st, Parser_keyword ilh idh F kw st = p_keyword ilh idh F kw st.
  Proof. intros. unfold Parser_keyword, p_keyword. hsteps. Qed.

  Lemma TP_Parser_peekKeyword_eq : forall st, Parser_peekKeyword ilh idh F st = peek_keyword ilh idh F st.
  Proof.
    intros. unfold Parser_peekKeyword, peek_keyword. norm.
    destruct (peek_token ilh idh F st) eqn:E; try reflexivity. cbv beta iota.
    destruct (t_typ a =? -2); cbv beta iota; try reflexivity. rewrite (peek_peek _ _ _ E). reflexivity.
  Qed.

  Lemma TP_Parser_token_eq : forall typ st, Parser_token ilh idh F typ st = p_token ilh idh F typ st.
  Proof. intros. unfold Parser_token, p_token. hsteps. Qed.

  Lemma TP_Parser_optionalToken_eq : forall typ st, Parser_optionalToken ilh idh F typ st = optional_token ilh idh F typ st.
  Proof. intros. unfold Parser_optionalToken, optional_token. hsteps. Qed.

  Lemma TP_Parser_identifier_eq : forall st, Parser_identifier ilh idh F st = p_identifier ilh idh F st.
  Proof. intros. unfold Parser_identifier, p_identifier. hsteps. Qed.

  Lemma TP_Parser_stringIdentifier_eq : forall st, Parser_stringIdentifier ilh idh F st = p_string_identifier ilh idh F st.
  Proof. intros. unfold Parser_stringIdentifier, p_string_identifier. hsteps. Qed.

  Lemma TP_Parser_uint_eq : forall st, Parser_uint ilh idh F st = p_uint ilh idh F st.
  Proof. intros. unfold Parser_uint, p_uint. hsteps. Qed.

  Lemma TP_Parser_optionalUint_eq : forall st, Parser_optionalUint ilh idh F st = optional_uint ilh idh F st.
  Proof. intros. unfold Parser_optionalUint, optional_uint. hsteps. Qed.

  Lemma TP_Parser_float_eq : forall st, Parser_float ilh idh F st = p_float ilh idh F st.
  Proof. intros. unfold Parser_float, p_float, optional_minus. hsteps. Qed.

  Lemma TP_Parser_intInRange_eq : forall lo hi st, Parser_intInRange ilh idh F lo hi st = int_in_range ilh idh F lo hi st.
  Proof. intros. unfold Parser_intInRange, int_in_range, optional_minus. hsteps. Qed.

  Lemma TP_Parser_enumValue_eq : forall values st, Parser_enumValue ilh idh F values st = enum_value ilh idh F values st.
  Proof. intros. unfold Parser_enumValue, enum_value. hsteps. Qed.

  Lemma TP_Parser_optionalObjectType_eq : forall st,
    Parser_optionalObjectType ilh idh F st = optional_object_type ilh idh F st.
  Proof. intros. unfold Parser_optionalObjectType, optional_object_type. hsteps. Qed.

  Lemma TP_Parser_messageID_eq : forall st, Parser_messageID ilh idh F st = p_message_id ilh idh F st.
  Proof. intros. unfold Parser_messageID, p_message_id. hsteps. Qed.

  Lemma TP_Parser_signalValueType_eq : forall st, Parser_signalValueType ilh idh F st = p_small_enum ilh idh F 2 st.
  Proof. intros. unfold Parser_signalValueType, p_small_enum. hsteps. Qed.

  Lemma TP_Parser_environmentVariableType_eq : forall st,
    Parser_environmentVariableType ilh idh F st = p_small_enum ilh idh F 2 st.
  Proof. intros. unfold Parser_environmentVariableType, p_small_enum. hsteps. Qed.

  Lemma TP_Parser_attributeValueType_eq : forall st,
    Parser_attributeValueType ilh idh F st = p_attribute_value_type ilh idh F st.
  Proof. intros. unfold Parser_attributeValueType, p_attribute_value_type. hsteps. Qed.

  Lemma TP_Parser_accessType_eq : forall st, Parser_accessType ilh idh F st = p_access_type ilh idh F st.
  Proof. intros. unfold Parser_accessType, p_access_type. hsteps. Qed.

  Lemma Parser_discardLine_loop_eq : forall f st, Parser_discardLine_loop1 ilh idh F f st = discard_loop ilh idh F f st.
  Proof.
    induction f; intros; [reflexivity|]. cbn [Parser_discardLine_loop1 discard_loop]. norm.
    destruct (next_token ilh idh F st); try reflexivity.
    all: cbv beta iota; destruct (t_typ a =? 10); cbv beta iota; try reflexivity;
         destruct (t_typ a =? -1); cbv beta iota; [reflexivity|apply IHf].
  Qed.

  Lemma TP_Parser_discardLine_eq : forall st, Parser_discardLine ilh idh F st = discard_line ilh idh F st.
  Proof.
    intros. unfold Parser_discardLine, discard_line. norm. unfold use_whitespace. cbv beta iota.
    rewrite Parser_discardLine_loop_eq. destruct (discard_loop ilh idh F F _); reflexivity.
  Qed.

  (** Parser.string: the labelled rune loop; strings.Builder = the bytes written so far (translated: appended at the end;
      hand model: reversed accumulator) *)
  Lemma Parser_string_loop_eq : forall f tok b racc st, b = rev racc ->
    Parser_string_loop1 f tok b st = string_loop f (t_pos tok) racc st.
  Proof.
    induction f; intros tok b racc st H; [reflexivity|].
    cbn [Parser_string_loop1 string_loop]. norm.
    destruct (next_rune st); try reflexivity. cbv beta iota.
    destruct (a =? -1); cbv beta iota; [reflexivity|].
    destruct (a =? 34); cbv beta iota; [subst; reflexivity|].
    destruct (a =? 10); cbv beta iota; [apply IHf; subst; reflexivity|].
    assert (Hd : b ++ utf8_encode a = rev (rev_append (utf8_encode a) racc)).
    { rewrite rev_append_rev, rev_app_distr, rev_involutive. subst; reflexivity. }
    destruct (a =? 92); cbv beta iota; [|apply IHf; exact Hd].
    destruct (peek_rune st0); try reflexivity. cbv beta iota.
    destruct (a0 =? 34); cbv beta iota; [|apply IHf; exact Hd].
    destruct (next_rune st1); try reflexivity. cbv beta iota.
    apply IHf. subst. simpl. rewrite <- app_assoc. reflexivity.
  Qed.

  Lemma TP_Parser_string_eq : forall st, Parser_string ilh idh F st = p_string ilh idh F st.
  Proof.
    intros. unfold Parser_string, p_string. norm.
    destruct (next_token ilh idh F st); try reflexivity. cbv beta iota.
    destruct (t_typ a =? 34); cbv beta iota; [|reflexivity].
    rewrite Parser_string_loop_eq with (racc := []) by reflexivity.
    destruct (string_loop _ _ _ _); reflexivity.
  Qed.

  (** Parser.int. PREMISE (carried, not proved here): the float value of the number token int() converts is
      non-negative - text/scanner delivers a sign as a separate token, so a number token's text is unsigned; the model's
      [int64_of_b64] is the conversion of a non-negative float only. *)
  Lemma uint_loop_r_nonneg : forall s acc u, 0 <= acc -> uint_loop_r s acc = UOk u -> 0 <= u.
  Proof.
    induction s as [|c t IH]; intros acc u Ha H; cbn [uint_loop_r] in H.
    - inversion H; subst; exact Ha.
    - destruct (dig c) eqn:Ed; [|discriminate]. destruct (two64 <=? acc * 10 + (c - 48)); [discriminate|].
      apply IH in H; [exact H|]. unfold dig in Ed. lia.
  Qed.
  Lemma parse_uint_r_nonneg : forall s u, parse_uint_r s = UOk u -> 0 <= u.
  Proof. intros s u H. destruct s as [|z s]; [discriminate|]. apply (uint_loop_r_nonneg (z :: s) 0 u); [lia|exact H]. Qed.

  Definition int_token (st : pstate) : option token :=
    match optional_minus ilh idh F st with
    | POk _ st1 => match next_token ilh idh F st1 with POk tok _ => Some tok | _ => None end
    | _ => None
    end.

  Ltac zhyps :=
    repeat match goal with
    | H : (_ <=? _) = true |- _ => apply Z.leb_le in H | H : (_ <=? _) = false |- _ => apply Z.leb_gt in H
    | H : (_ <? _) = true |- _ => apply Z.ltb_lt in H | H : (_ <? _) = false |- _ => apply Z.ltb_ge in H
    | H : (_ =? _) = true |- _ => apply Z.eqb_eq in H | H : (_ =? _) = false |- _ => apply Z.eqb_neq in H
    end.

  Lemma TP_Parser_int_eq : forall st,
    (forall tok b, int_token st = Some tok -> parse_float (t_txt tok) = Some b -> 0 <= b < two63) ->
    Parser_int ilh idh F st = p_int ilh idh F st.
  Proof.
    intros st. unfold int_token, Parser_int, p_int, optional_minus, int_of_token, int_of_uint, int_of_float_text,
      int64_of_b64, neg64, to_int64, b64_to_int64, b64_le, b64_lt, b64_key, bits_two63, two63, two64. norm.
    repeat (first [ (intros _; reflexivity) | fstep ]).
    all: intros Hp.
    all: try (match goal with H : parse_uint_r _ = UOk _ |- _ => apply parse_uint_r_nonneg in H end).
    all: try (match goal with H : parse_float _ = Some ?b |- _ => specialize (Hp _ b eq_refl H) end).
    all: zhyps; try reflexivity; try (exfalso; lia); try (f_equal; lia).
  Qed.

  (** ================================================================ Parse(): keyword switch and loop *)
  Ltac disp :=
    first [ apply TP_VersionDef_parseFrom_eq | apply TP_BitTimingDef_parseFrom_eq | apply TP_NewSymbolsDef_parseFrom_eq
          | apply TP_NodesDef_parseFrom_eq | apply TP_MessageDef_parseFrom_eq | apply TP_SignalDef_parseFrom_eq
          | apply TP_EnvironmentVariableDef_parseFrom_eq | apply TP_CommentDef_parseFrom_eq
          | apply TP_AttributeDef_parseFrom_eq | apply TP_AttributeDefaultValueDef_parseFrom_eq
          | apply TP_AttributeValueForObjectDef_parseFrom_eq | apply TP_ValueDescriptionsDef_parseFrom_eq
          | apply TP_ValueTableDef_parseFrom_eq | apply TP_SignalValueTypeDef_parseFrom_eq
          | apply TP_MessageTransmittersDef_parseFrom_eq | apply TP_EnvironmentVariableDataDef_parseFrom_eq
          | apply TP_UnknownDef_parseFrom_eq ].

  Lemma Parser_Parse_dispatch_eq : forall defs kw st,
    Parser_Parse_dispatch ilh idh F defs kw st
    = parse_def_with ilh idh F (parse_bit_timing ilh idh F) (parse_unknown ilh idh F) (parse_message ilh idh F) defs kw st.
  Proof.
    intros. unfold Parser_Parse_dispatch, parse_def_with.
    cbv delta [kw_version kw_bit_timing kw_new_symbols kw_nodes kw_message kw_signal kw_envvar kw_comment kw_attribute
               kw_attribute_default kw_attribute_value kw_value_descriptions kw_value_table kw_signal_value_type
               kw_message_transmitters kw_envvar_data].
    repeat (match goal with |- (if bytes_eqb ?a ?k then _ else _) _ = _ => destruct (bytes_eqb a k); cbv beta iota; [disp|] end).
    disp.
  Qed.

  (** NewParser(data).Parse() with Defs() = Parser.parse: [TP_Parser_Parse_eq] with f = F, defs = [], st = p_init src *)
  Lemma TP_Parser_Parse_eq : forall f defs st,
    Parser_Parse_loop ilh idh F f defs st
    = parse_loop_with ilh idh F (parse_bit_timing ilh idh F) (parse_unknown ilh idh F) (parse_message ilh idh F) f defs st.
  Proof.
    induction f; intros; [reflexivity|]. cbn [Parser_Parse_loop parse_loop_with]. norm.
    destruct (peek_token ilh idh F st); try reflexivity. cbv beta iota.
    destruct (t_typ a =? -1); cbv beta iota; [reflexivity|].
    destruct (peek_keyword ilh idh F st0); try reflexivity. cbv beta iota. rewrite Parser_Parse_dispatch_eq.
    destruct (parse_def_with _ _ _ _ _ _ _ _ _); try reflexivity. apply IHf.
  Qed.

End Equiv.
