(** Translation tie for the DBC parser (checked on EVERY run of C04 / C12, checks/parser_tie.py):
    the parseFrom methods of pkg/dbc/def.go, regenerated as Gallina by harness/parsetrans
    (ParserTypes.v, ParserTranslated.v), equal the hand-written model Dbc/Parser.v for ALL parser states,
    all classifications of non-ASCII characters and every fuel.

    Shape of every lemma (the glue is explicit): Parse() calls parseFrom on a fresh zero value &T{};
    the translated method maps the receiver value to its final value; [T_to_def] (ParserGlue.v) reads the
    Go struct as the definition of Dbc/Ast.v:

      TP_T_parseFrom_eq : forall ilh idh F st,
        run_as T_to_def (T_parseFrom ilh idh F T_zero) st = Parser.parse_t ilh idh F st.

    Proof method: symbolic execution of both sides, one parser primitive at a time ([step] destructs the
    innermost scrutinee; the primitives themselves stay opaque), loops by induction on the fuel. *)
From Coq Require Import ZArith List Bool Lia.
From CanVerif Require Import Dbc.Ast Dbc.Scanner Dbc.DecFloat Dbc.Parser.
From CanTranslated Require Import ParserTypes ParserGlue ParserTranslated.
Import ListNotations.
Open Scope Z_scope.

Definition run_as {T} (to_def : T -> def) (m : M T) : M def := bind m (fun d => ret (to_def d)).

(** hand-model loops and translated loops are never destructed by [step]: they are rewritten with
    their loop lemma first *)
Ltac not_loop x :=
  lazymatch x with
  | context [NodesDef_parseFrom_loop1] => fail
  | context [NewSymbolsDef_parseFrom_loop1] => fail
  | context [ValueTableDef_parseFrom_loop1] => fail
  | context [ValueDescriptionsDef_parseFrom_loop1] => fail
  | context [MessageDef_parseFrom_loop1] => fail
  | context [SignalDef_parseFrom_loop1] => fail
  | context [MessageTransmittersDef_parseFrom_loop1] => fail
  | context [EnvironmentVariableDef_parseFrom_loop1] => fail
  | context [AttributeDef_parseFrom_loop1] => fail
  | context [AttributeDefaultValueDef_parseFrom_range1] => fail
  | context [AttributeValueForObjectDef_parseFrom_range1] => fail
  | _ => idtac
  end.

Ltac norm :=
  cbv beta iota zeta delta [bind ret fail panic run_as lift_opt negb andb orb
    kw_version kw_bit_timing kw_new_symbols kw_nodes kw_message kw_signal kw_envvar kw_comment kw_attribute
    kw_attribute_default kw_attribute_value kw_value_descriptions kw_value_table kw_signal_value_type
    kw_message_transmitters kw_envvar_data
    c_nl c_tab c_quote c_lpar c_rpar c_plus c_comma c_minus c_colon c_semi c_at c_lbrack c_bslash c_rbrack c_bar
    TIdent TInt TFloat EOF ws_default ws_sig_newline ws_sig_tab].

Ltac step_with chk :=
  match goal with
  | |- context [match ?x with _ => _ end] =>
    lazymatch x with
    | context [match _ with _ => _ end] => fail
    | _ => chk x; destruct x eqn:?; cbv beta iota zeta; pt_records
    end
  end.
Ltac step := step_with not_loop.
Ltac fstep := step_with ltac:(fun _ => idtac).
Ltac steps := repeat (first [reflexivity | step]).
Ltac fsteps := repeat (first [reflexivity | fstep]).

Section Equiv.
  Variable ilh idh : Z -> bool.
  Variable F : nat.

  (** ---------------------------------------------------------------- definitions without loops *)

  Lemma TP_VersionDef_parseFrom_eq : forall st,
    run_as VersionDef_to_def (VersionDef_parseFrom ilh idh F VersionDef_zero) st = parse_version ilh idh F st.
  Proof. intros. unfold VersionDef_parseFrom, parse_version. norm. pt_records. steps. Qed.

  Lemma TP_ValueDescriptionDef_parseFrom_eq : forall st,
    bind (ValueDescriptionDef_parseFrom ilh idh F ValueDescriptionDef_zero) (fun d => ret (ValueDescriptionDef_to d)) st
    = parse_value_description ilh idh F st.
  Proof. intros. unfold ValueDescriptionDef_parseFrom, parse_value_description. norm. pt_records. steps. Qed.

  Lemma TP_BitTimingDef_parseFrom_eq : forall st,
    run_as BitTimingDef_to_def (BitTimingDef_parseFrom ilh idh F BitTimingDef_zero) st = parse_bit_timing ilh idh F st.
  Proof. intros. unfold BitTimingDef_parseFrom, parse_bit_timing. norm. pt_records. steps. Qed.

  Lemma TP_SignalValueTypeDef_parseFrom_eq : forall st,
    run_as SignalValueTypeDef_to_def (SignalValueTypeDef_parseFrom ilh idh F SignalValueTypeDef_zero) st
    = parse_signal_value_type ilh idh F st.
  Proof. intros. unfold SignalValueTypeDef_parseFrom, parse_signal_value_type. norm. pt_records. steps. Qed.

  Lemma TP_EnvironmentVariableDataDef_parseFrom_eq : forall st,
    run_as EnvironmentVariableDataDef_to_def (EnvironmentVariableDataDef_parseFrom ilh idh F EnvironmentVariableDataDef_zero) st
    = parse_envvar_data ilh idh F st.
  Proof. intros. unfold EnvironmentVariableDataDef_parseFrom, parse_envvar_data. norm. pt_records. steps. Qed.

  Lemma TP_CommentDef_parseFrom_eq : forall st,
    run_as CommentDef_to_def (CommentDef_parseFrom ilh idh F CommentDef_zero) st = parse_comment ilh idh F st.
  Proof. intros. unfold CommentDef_parseFrom, parse_comment, object_ref. norm. pt_records. steps. Qed.

  Lemma TP_UnknownDef_parseFrom_eq : forall st,
    run_as UnknownDef_to_def (UnknownDef_parseFrom ilh idh F UnknownDef_zero) st = parse_unknown ilh idh F st.
  Proof. intros. unfold UnknownDef_parseFrom, parse_unknown, parse_unknown_with. norm. pt_records. steps. Qed.

End Equiv.
