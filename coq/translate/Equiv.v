(** Equiv: the per-run proof obligations of the translation tie.

    [Translated.v] (logical path CanTranslated.Translated) is REGENERATED from /repo's current Go
    source by harness/translate on every run of a check; this file is then re-checked against it.
    For every translated function there is one lemma

        T_<name>_eq : forall <arguments in the range of their Go types>,
                        Translated.<name> args = <hand-written model> args

    so a semantic change of a translated Go function breaks the lemma of that function (or of a
    caller) on that run, for ALL inputs, independently of what the sampled correspondence run
    happens to hit. Nothing admitted; no axioms in the integer/bit/byte groups (can, descriptor,
    wire, netlink, scan, dbcid, dbcvalidate, lookup, lintnames, frametext); the floating-point groups (physical, apidecide, render) are on Flocq and depend
    on the standard-library axioms its lemmas use, and on nothing else (checked by
    checks/translate_tie.py against vlib.AXIOM_WHITELIST).

    Layout: the text up to the first group marker is the common header; each group
    (marker line: open-comment, "@group <name> [requires <names>]", close-comment) is
    self-contained given the groups it requires. checks/translate_tie.py selects groups, asks the
    translator for exactly the functions named by the T_ lemmas of the selected groups, and compiles
    header + selected groups. This file lives outside coq/theories because it imports a generated
    file; it is compiled in a scratch directory with
        coqc -Q <scratch> CanTranslated -Q coq/theories CanVerif Equiv.v *)
From Coq Require Import ZArith List Bool Lia.
From CanVerif Require Import Translate.GoSem Translate.GoSemProofs.
From CanVerif Require Import Can.Data Can.DataProofs.
From CanTranslated Require Translated.
Import ListNotations.
Open Scope Z_scope.

(** a lemma that no longer holds must FAIL, not make the unifier search for minutes: every sentence
    of this file normally takes well under a second *)
Set Default Timeout 20.

(** * Common: ranges, and the tactic that removes wraps which cannot wrap *)
Lemma data_get_byte_at d i : data_get d i = byte_at d i.
Proof. reflexivity. Qed.

Lemma byte_at_in_u8 d i : valid_data d -> in_u 8 (byte_at d i).
Proof.
  intros [_ Hf]. unfold byte_at. generalize (Z.to_nat i) as k.
  induction Hf as [| h t Hh Ht IH]; intros [| k]; cbn; auto; try (unfold in_u; cbn; lia).
Qed.

Lemma list_set_set_nth n v d : list_set n v d = set_nth n v d.
Proof. revert n; induction d as [| h t IH]; intros [| n]; cbn; auto; now rewrite IH. Qed.

Lemma in_u_lit w x : (0 <=? x) && (x <? 2 ^ w) = true -> in_u w x.
Proof. unfold in_u. intros H. apply andb_true_iff in H. destruct H as [A B]. apply Z.leb_le in A. apply Z.ltb_lt in B. lia. Qed.

(** [range]: proves [in_u w e] / [in_s w e] for [e] built from the GoSem operators, payload bytes,
    variables with a range hypothesis, and literals *)
Ltac range :=
  lazymatch goal with
  | |- in_u _ (wrap_u _ _) => first [ apply wrap_u_range; lia | widen ]
  | |- in_s _ (wrap_s _ _) => first [ apply wrap_s_range; lia | widen ]
  | |- in_u _ (go_shl_u _ _ _) => first [ apply go_shl_u_range; lia | widen ]
  | |- in_s _ (go_shl_s _ _ _) => first [ apply go_shl_s_range; lia | widen ]
  | |- in_u _ (byte_at _ _) => first [ apply byte_at_in_u8; assumption | widen ]
  | |- in_u _ (data_get _ _) => rewrite data_get_byte_at; range
  | |- in_u _ (go_and _ _) => apply go_and_range_u; [lia | range | range]
  | |- in_u _ (go_or _ _) => apply go_or_range_u; [lia | range | range]
  | |- in_u _ (go_xor _ _) => apply go_xor_range_u; [lia | range | range]
  | |- in_u _ (go_andnot _ _) => apply go_andnot_range_u; [lia | range | range]
  | |- in_u _ (go_not_u _ _) => apply go_not_u_range; range
  | |- in_u _ (go_shr_u _ _ _) => apply go_shr_u_range; [lia | nonneg | range]
  | |- in_u _ (go_div_u _ _) => apply go_div_u_range; [lia | range]
  | |- in_u _ (go_rem_u _ _) => apply go_rem_u_range; [lia | range]
  | |- _ => first [ assumption | widen | apply in_u_lit; reflexivity ]
  end
with widen :=
  first [ eapply in_u_mono; [| eassumption]; lia
        | eapply in_u_mono; [| apply wrap_u_range; lia]; lia
        | eapply in_u_mono; [| apply byte_at_in_u8; assumption]; lia
        | eapply in_s_mono; [| eassumption]; lia
        | eapply in_s_mono; [| apply wrap_s_range; lia]; lia
        | eapply in_u_in_s; [| eassumption]; lia
        | eapply in_u_in_s; [| apply wrap_u_range; lia]; lia ]
with nonneg :=
  match goal with
  | |- 0 <= ?x => first [ lia | assert (in_u 8 x) by range; unfold in_u in *; lia
                        | assert (in_u 64 x) by range; unfold in_u in *; lia ]
  end.

(** [unwrap]: rewrite [wrap_u w e] / [wrap_s w e] to [e] wherever [e] is provably in range *)
Ltac unwrap :=
  repeat match goal with
  | |- context [wrap_u ?w ?e] => rewrite (wrap_u_small w e) by range
  | |- context [wrap_s ?w ?e] => rewrite (wrap_s_small w e) by (try lia; range)
  end.

(** [norm]: expose the GoSem operators and the machine arithmetic of Can/Data.v down to the same
    [Z] operations, so that the final [reflexivity] compares (nearly) syntactically equal terms *)
Ltac norm :=
  change data_get with byte_at in *;
  cbv beta zeta delta [go_or go_and go_xor go_andnot go_shl_u go_shl_s go_shr_u go_shr_s
                       go_not_u go_not_s go_div_u go_rem_u go_div_s go_rem_s wrap_u
                       shl64 shr64 sub64 add64 not64 mask64 u8 u16 u64 u64_of_i64 err_nil err_nonnil].

(* @group can *)
(** ** data.go, internal/reinterpret/reinterpret.go  (models: Can/Data.v) *)

Lemma T_Data_PackLittleEndian_eq d :
  valid_data d -> Translated.Data_PackLittleEndian d = pack_le d.
Proof.
  intros Hd. unfold Translated.Data_PackLittleEndian, pack_le. cbv zeta. unwrap. norm. reflexivity.
Qed.

Lemma T_Data_PackBigEndian_eq d :
  valid_data d -> Translated.Data_PackBigEndian d = pack_be d.
Proof.
  intros Hd. unfold Translated.Data_PackBigEndian, pack_be. cbv zeta. unwrap. norm. reflexivity.
Qed.

Lemma T_invertEndian_eq i : Translated.invertEndian i = invert_endian i.
Proof. unfold Translated.invertEndian, invert_endian. norm. reflexivity. Qed.

Lemma T_Data_UnsignedBitsLittleEndian_eq d start length :
  valid_data d ->
  Translated.Data_UnsignedBitsLittleEndian d start length = ubits_le d start length.
Proof.
  intros Hd. unfold Translated.Data_UnsignedBitsLittleEndian, ubits_le. cbv zeta.
  rewrite T_Data_PackLittleEndian_eq by assumption. reflexivity.
Qed.

Lemma T_Data_UnsignedBitsBigEndian_eq d start length :
  valid_data d ->
  Translated.Data_UnsignedBitsBigEndian d start length = ubits_be d start length.
Proof.
  intros Hd. unfold Translated.Data_UnsignedBitsBigEndian, ubits_be. cbv zeta.
  rewrite T_Data_PackBigEndian_eq by assumption. rewrite T_invertEndian_eq. reflexivity.
Qed.

Lemma wrap_s64_u x : in_u 64 x -> wrap_s 64 x = i64_of_u64 x.
Proof. intros H. unfold wrap_s, i64_of_u64. cbv zeta. rewrite Z.mod_small by exact H. reflexivity. Qed.

(** [unwrap] + reinterpretation of in-range uint64 words as int64 *)
Ltac unwrap64 :=
  unwrap;
  repeat match goal with
  | |- context [wrap_s 64 ?e] => rewrite (wrap_s64_u e) by range
  end.

Lemma T_AsSigned_eq unsigned bits :
  in_u 64 unsigned -> Translated.AsSigned unsigned bits = as_signed unsigned bits.
Proof.
  intros Hu. unfold Translated.AsSigned, as_signed. cbv zeta.
  destruct (bits =? 8); [| destruct (bits =? 16); [| destruct (bits =? 32); [| destruct (bits =? 64)]]].
  - rewrite wrap_s_wrap_u. unwrap. reflexivity.
  - rewrite wrap_s_wrap_u. unwrap. reflexivity.
  - rewrite wrap_s_wrap_u. unwrap. reflexivity.
  - unwrap64. reflexivity.
  - unwrap64.
    match goal with |- context [(-1) * ?x] => replace ((-1) * x) with (- x) by lia end.
    norm. reflexivity.
Qed.

Lemma T_AsUnsigned_eq signed bits : Translated.AsUnsigned signed bits = as_unsigned signed bits.
Proof.
  unfold Translated.AsUnsigned, as_unsigned. cbv zeta.
  destruct (bits =? 8); [| destruct (bits =? 16); [| destruct (bits =? 32); [| destruct (bits =? 64)]]].
  - rewrite wrap_u_wrap_s by lia. unwrap. reflexivity.
  - rewrite wrap_u_wrap_s by lia. unwrap. reflexivity.
  - rewrite wrap_u_wrap_s by lia. unwrap. reflexivity.
  - reflexivity.
  - unwrap. norm. reflexivity.
Qed.

Lemma ubits_le_in_u64 d s l : 0 <= s -> in_u 64 (ubits_le d s l).
Proof.
  intros Hs. unfold ubits_le. cbv zeta.
  change (in_u 64 (go_and (go_shr_u 64 (pack_le d) s) (wrap_u 64 (shl64 1 l - 1)))).
  apply go_and_range_u; [lia | | apply wrap_u_range; lia].
  apply go_shr_u_range; [lia | lia | exact (pack_le_range d)].
Qed.

Lemma ubits_be_in_u64 d s l : in_u 64 (ubits_be d s l).
Proof.
  unfold ubits_be. cbv zeta.
  set (lsb := u8 (u8 (invert_endian s - l) + 1)).
  change (in_u 64 (go_and (go_shr_u 64 (pack_be d) lsb) (wrap_u 64 (shl64 1 l - 1)))).
  apply go_and_range_u; [lia | | apply wrap_u_range; lia].
  apply go_shr_u_range; [lia | | exact (pack_be_range d)].
  unfold lsb, u8. apply Z.mod_pos_bound. lia.
Qed.

Lemma T_Data_SignedBitsLittleEndian_eq d start length :
  valid_data d -> in_u 8 start ->
  Translated.Data_SignedBitsLittleEndian d start length = sbits_le d start length.
Proof.
  intros Hd Hs. unfold Translated.Data_SignedBitsLittleEndian, sbits_le. cbv zeta.
  rewrite T_Data_UnsignedBitsLittleEndian_eq by assumption.
  apply T_AsSigned_eq. apply ubits_le_in_u64. unfold in_u in Hs. lia.
Qed.

Lemma T_Data_SignedBitsBigEndian_eq d start length :
  valid_data d ->
  Translated.Data_SignedBitsBigEndian d start length = sbits_be d start length.
Proof.
  intros Hd. unfold Translated.Data_SignedBitsBigEndian, sbits_be. cbv zeta.
  rewrite T_Data_UnsignedBitsBigEndian_eq by assumption.
  apply T_AsSigned_eq. apply ubits_be_in_u64.
Qed.

Lemma T_Data_UnpackLittleEndian_eq d packed :
  valid_data d -> Translated.Data_UnpackLittleEndian d packed = unpack_le packed.
Proof.
  intros Hd. destruct (valid_data_inv d Hd) as (b0 & b1 & b2 & b3 & b4 & b5 & b6 & b7 & -> & _).
  unfold Translated.Data_UnpackLittleEndian, unpack_le. cbv zeta.
  unfold data_set. simpl (Z.to_nat _). cbn [list_set map]. norm. reflexivity.
Qed.

Lemma T_Data_UnpackBigEndian_eq d packed :
  valid_data d -> Translated.Data_UnpackBigEndian d packed = unpack_be packed.
Proof.
  intros Hd. destruct (valid_data_inv d Hd) as (b0 & b1 & b2 & b3 & b4 & b5 & b6 & b7 & -> & _).
  unfold Translated.Data_UnpackBigEndian, unpack_be. cbv zeta.
  unfold data_set. simpl (Z.to_nat _). cbn [list_set map]. norm. reflexivity.
Qed.

Lemma T_Data_SetUnsignedBitsLittleEndian_eq d start length value :
  valid_data d ->
  Translated.Data_SetUnsignedBitsLittleEndian d start length value = set_ubits_le d start length value.
Proof.
  intros Hd. unfold Translated.Data_SetUnsignedBitsLittleEndian, set_ubits_le. cbv zeta.
  rewrite T_Data_UnpackLittleEndian_eq, T_Data_PackLittleEndian_eq by assumption.
  unwrap. norm. reflexivity.
Qed.

Lemma T_Data_SetUnsignedBitsBigEndian_eq d start length value :
  valid_data d ->
  Translated.Data_SetUnsignedBitsBigEndian d start length value = set_ubits_be d start length value.
Proof.
  intros Hd. unfold Translated.Data_SetUnsignedBitsBigEndian, set_ubits_be. cbv zeta.
  rewrite T_Data_UnpackBigEndian_eq, T_Data_PackBigEndian_eq, T_invertEndian_eq by assumption.
  unwrap. norm. reflexivity.
Qed.

Lemma T_Data_SetSignedBitsLittleEndian_eq d start length value :
  valid_data d ->
  Translated.Data_SetSignedBitsLittleEndian d start length value = set_sbits_le d start length value.
Proof.
  intros Hd. unfold Translated.Data_SetSignedBitsLittleEndian, set_sbits_le. cbv zeta.
  rewrite T_AsUnsigned_eq. rewrite T_Data_SetUnsignedBitsLittleEndian_eq by assumption. reflexivity.
Qed.

Lemma T_Data_SetSignedBitsBigEndian_eq d start length value :
  valid_data d ->
  Translated.Data_SetSignedBitsBigEndian d start length value = set_sbits_be d start length value.
Proof.
  intros Hd. unfold Translated.Data_SetSignedBitsBigEndian, set_sbits_be. cbv zeta.
  rewrite T_AsUnsigned_eq. rewrite T_Data_SetUnsignedBitsBigEndian_eq by assumption. reflexivity.
Qed.

(** [1 << (i % 8)] evaluated in uint8: the count is below the width, the result is wrapped once *)
Lemma shl8_bit i : wrap_u 8 (go_shl_u 8 1 (i mod 8)) = u8 (Z.shiftl 1 (i mod 8)).
Proof.
  unfold go_shl_u. pose proof (Z.mod_pos_bound i 8 ltac:(lia)) as H.
  destruct (Z.ltb_spec (i mod 8) 8); [| lia]. rewrite wrap_u_idem. reflexivity.
Qed.

Lemma T_Data_Bit_eq d i : Translated.Data_Bit d i = bit d i.
Proof.
  unfold Translated.Data_Bit, bit. cbv zeta. unfold go_rem_u. rewrite shl8_bit. reflexivity.
Qed.

Lemma T_Data_SetBit_eq d i value : Translated.Data_SetBit d i value = set_bit d i value.
Proof.
  unfold Translated.Data_SetBit, set_bit. cbv zeta. unfold go_rem_u. rewrite !shl8_bit.
  unfold data_set. rewrite !list_set_set_nth. norm. reflexivity.
Qed.

Lemma T_CheckBitRangeLittleEndian_eq frameLength rangeStart rangeLength :
  in_u 8 frameLength -> in_u 8 rangeStart -> in_u 8 rangeLength ->
  Translated.CheckBitRangeLittleEndian frameLength rangeStart rangeLength
  = check_le frameLength rangeStart rangeLength.
Proof.
  intros Hf Hs Hl. unfold Translated.CheckBitRangeLittleEndian, check_le. cbv zeta.
  rewrite (wrap_u_small 16 frameLength), (wrap_u_small 16 rangeStart), (wrap_u_small 16 rangeLength) by range.
  norm. destruct (_ <=? _); reflexivity.
Qed.

Lemma T_CheckBitRangeBigEndian_eq frameLength rangeStart rangeLength :
  Translated.CheckBitRangeBigEndian frameLength rangeStart rangeLength
  = check_be frameLength rangeStart rangeLength.
Proof.
  unfold Translated.CheckBitRangeBigEndian, check_be. cbv zeta. rewrite !T_invertEndian_eq.
  norm. repeat (destruct (_ <=? _) || destruct (_ <? _)); reflexivity.
Qed.

Lemma T_CheckValue_eq value bits :
  Translated.CheckValue value bits = check_value value bits.
Proof.
  unfold Translated.CheckValue, check_value. cbv zeta. unwrap. norm.
  destruct (Z.leb_spec 64 bits), (Z.ltb_spec bits 64); try lia; reflexivity.
Qed.

(* @group descriptor requires can *)
(** ** pkg/descriptor/signal.go, integer part  (models: Descriptor/Signal.v) *)
From CanVerif Require Import Descriptor.Signal.

(** the Go struct as the translator sees it.  The generated record has exactly the fields that the
    translated functions of the SELECTED groups use, so it is built with the generated setters from
    the generated zero value: this definition type-checks whatever other fields there are (they
    stay zero here; the groups that read them set them on top of [sig_of]). *)
Definition sig_of (s : signal) : Translated.Signal :=
  Translated.set_Signal_IsBigEndian
    (Translated.set_Signal_Length
       (Translated.set_Signal_Start Translated.zero_Signal (s_start s)) (s_length s))
    (s_big_endian s).

Lemma sig_of_start s : Translated.Signal_Start (sig_of s) = s_start s. Proof. reflexivity. Qed.
Lemma sig_of_length s : Translated.Signal_Length (sig_of s) = s_length s. Proof. reflexivity. Qed.
Lemma sig_of_be s : Translated.Signal_IsBigEndian (sig_of s) = s_big_endian s. Proof. reflexivity. Qed.
Ltac sigproj := rewrite ?sig_of_start, ?sig_of_length, ?sig_of_be.

Lemma T_Signal_MaxUnsigned_eq s : Translated.Signal_MaxUnsigned (sig_of s) = max_unsigned s.
Proof. reflexivity. Qed.

Lemma T_Signal_MinSigned_eq s : Translated.Signal_MinSigned (sig_of s) = min_signed s.
Proof. reflexivity. Qed.

Lemma T_Signal_MaxSigned_eq s : Translated.Signal_MaxSigned (sig_of s) = max_signed s.
Proof. reflexivity. Qed.

Lemma T_Signal_SaturatedCastSigned_eq s value :
  Translated.Signal_SaturatedCastSigned (sig_of s) value = saturated_cast_signed s value.
Proof.
  unfold Translated.Signal_SaturatedCastSigned, saturated_cast_signed, saturated_cast_signed_l. cbv zeta.
  rewrite T_Signal_MinSigned_eq, T_Signal_MaxSigned_eq. reflexivity.
Qed.

Lemma T_Signal_SaturatedCastUnsigned_eq s value :
  Translated.Signal_SaturatedCastUnsigned (sig_of s) value = saturated_cast_unsigned s value.
Proof.
  unfold Translated.Signal_SaturatedCastUnsigned, saturated_cast_unsigned, saturated_cast_unsigned_l. cbv zeta.
  rewrite T_Signal_MaxUnsigned_eq. reflexivity.
Qed.

Lemma T_Signal_UnmarshalUnsigned_eq s d :
  valid_data d -> Translated.Signal_UnmarshalUnsigned (sig_of s) d = unmarshal_unsigned s d.
Proof.
  intros Hd. unfold Translated.Signal_UnmarshalUnsigned, unmarshal_unsigned. sigproj.
  destruct (s_big_endian s).
  - rewrite T_Data_UnsignedBitsBigEndian_eq by assumption. reflexivity.
  - rewrite T_Data_UnsignedBitsLittleEndian_eq by assumption. reflexivity.
Qed.

Lemma T_Signal_UnmarshalSigned_eq s d :
  valid_data d -> in_u 8 (s_start s) ->
  Translated.Signal_UnmarshalSigned (sig_of s) d = unmarshal_signed s d.
Proof.
  intros Hd Hs. unfold Translated.Signal_UnmarshalSigned, unmarshal_signed. sigproj.
  destruct (s_big_endian s).
  - rewrite T_Data_SignedBitsBigEndian_eq by assumption. reflexivity.
  - rewrite T_Data_SignedBitsLittleEndian_eq by assumption. reflexivity.
Qed.

Lemma T_Signal_UnmarshalBool_eq s d : Translated.Signal_UnmarshalBool (sig_of s) d = unmarshal_bool s d.
Proof. unfold Translated.Signal_UnmarshalBool, unmarshal_bool. rewrite T_Data_Bit_eq. reflexivity. Qed.

Lemma T_Signal_MarshalUnsigned_eq s d value :
  valid_data d -> Translated.Signal_MarshalUnsigned (sig_of s) d value = marshal_unsigned s d value.
Proof.
  intros Hd. unfold Translated.Signal_MarshalUnsigned, marshal_unsigned. cbv zeta. sigproj.
  destruct (s_big_endian s).
  - rewrite T_Data_SetUnsignedBitsBigEndian_eq by assumption. reflexivity.
  - rewrite T_Data_SetUnsignedBitsLittleEndian_eq by assumption. reflexivity.
Qed.

Lemma T_Signal_MarshalSigned_eq s d value :
  valid_data d -> Translated.Signal_MarshalSigned (sig_of s) d value = marshal_signed s d value.
Proof.
  intros Hd. unfold Translated.Signal_MarshalSigned, marshal_signed. cbv zeta. sigproj.
  destruct (s_big_endian s).
  - rewrite T_Data_SetSignedBitsBigEndian_eq by assumption. reflexivity.
  - rewrite T_Data_SetSignedBitsLittleEndian_eq by assumption. reflexivity.
Qed.

Lemma T_Signal_MarshalBool_eq s d value :
  Translated.Signal_MarshalBool (sig_of s) d value = marshal_bool s d value.
Proof. unfold Translated.Signal_MarshalBool, marshal_bool. cbv zeta. rewrite T_Data_SetBit_eq. reflexivity. Qed.

(* @group wire *)
(** ** frame.go Validate, pkg/socketcan/frame.go  (models: Socketcan/Wire.v, Can/Frame.v) *)
From CanVerif Require Socketcan.Wire Can.Frame.

Definition fr_of (f : Wire.frame) : Translated.Frame :=
  {| Translated.Frame_ID := Wire.fid f; Translated.Frame_Length := Wire.flen f;
     Translated.Frame_Data := Wire.fdata f; Translated.Frame_IsRemote := Wire.fremote f;
     Translated.Frame_IsExtended := Wire.fext f |}.
Definition fr_of' (f : Frame.frame) : Translated.Frame :=
  {| Translated.Frame_ID := Frame.f_id f; Translated.Frame_Length := Frame.f_len f;
     Translated.Frame_Data := Frame.f_data f; Translated.Frame_IsRemote := Frame.f_remote f;
     Translated.Frame_IsExtended := Frame.f_ext f |}.
Definition sc_of (f : Wire.scframe) : Translated.frame :=
  {| Translated.frame_idAndFlags := Wire.idflags f; Translated.frame_dataLengthCode := Wire.dlc f;
     Translated.frame_data := Wire.scdata f |}.

Lemma T_Frame_Validate_eq f : Translated.Frame_Validate (fr_of f) = Wire.validate f.
Proof. reflexivity. Qed.

(** the same Go function against the second hand model of it (Can/Frame.v, used by C15/C16) *)
Lemma T_Frame_Validate_eq' f : Translated.Frame_Validate (fr_of' f) = Frame.validate f.
Proof. reflexivity. Qed.

Lemma T_frame_isExtended_eq f : Translated.frame_isExtended (sc_of f) = Wire.is_extended f.
Proof. reflexivity. Qed.

Lemma T_frame_isRemote_eq f : Translated.frame_isRemote (sc_of f) = Wire.is_remote f.
Proof. reflexivity. Qed.

Lemma T_frame_isError_eq f : Translated.frame_isError (sc_of f) = Wire.is_error f.
Proof. reflexivity. Qed.

Lemma T_frame_id_eq f : Translated.frame_id (sc_of f) = Wire.sc_id f.
Proof. reflexivity. Qed.

(** encodeFrame overwrites every field of the receiver, whatever it held before ([f0]) *)
Lemma T_frame_encodeFrame_eq f0 cf :
  Translated.frame_encodeFrame (sc_of f0) (fr_of cf) = sc_of (Wire.encode_frame cf).
Proof.
  unfold Translated.frame_encodeFrame, Wire.encode_frame. cbv zeta.
  destruct cf as [id len dat rem ext]. destruct rem, ext; reflexivity.
Qed.

Lemma T_frame_decodeFrame_eq f : Translated.frame_decodeFrame (sc_of f) = fr_of (Wire.decode_frame f).
Proof. reflexivity. Qed.

(** *** fourth round: unmarshalBinary / marshalBinary and the error-frame accessors.
    The translated codecs are functions into [option] ([None] = the explicit bounds check
    [_ = b[15]] panics), exactly as the hand models [unmarshal16] / [marshal16].
    Preconditions = the Go types: the elements of a []byte are bytes, [frame.data] is a [8]byte. *)
From CanVerif Require Socketcan.WireSpec Socketcan.WireProofs.

Definition ef_of (e : Wire.errframe) : Translated.ErrorFrame :=
  {| Translated.ErrorFrame_ErrorClass := Wire.eclass e; Translated.ErrorFrame_LostArbitrationBit := Wire.elostarb e;
     Translated.ErrorFrame_ControllerError := Wire.ectrl e; Translated.ErrorFrame_ProtocolError := Wire.eprot e;
     Translated.ErrorFrame_ProtocolViolationErrorLocation := Wire.eprotloc e;
     Translated.ErrorFrame_TransceiverError := Wire.etrx e;
     Translated.ErrorFrame_ControllerSpecificInformation := Wire.ecsi e |}.

(** type ranges of socketcan.frame *)
Definition wf_sc (f : Wire.scframe) : Prop :=
  in_u 32 (Wire.idflags f) /\ in_u 8 (Wire.dlc f) /\ length (Wire.scdata f) = 8%nat /\ Wire.bytes (Wire.scdata f).

Lemma len16_cases (b : list Z) :
  (Z.of_nat (length b) <? 16) = false ->
  exists b0 b1 b2 b3 b4 b5 b6 b7 b8 b9 b10 b11 b12 b13 b14 b15 tl,
    b = b0 :: b1 :: b2 :: b3 :: b4 :: b5 :: b6 :: b7 :: b8 :: b9 :: b10 :: b11 :: b12 :: b13 :: b14 :: b15 :: tl.
Proof.
  intros H. apply Z.ltb_ge in H.
  do 16 (destruct b as [| ? b]; [cbn [length] in H; lia |]).
  repeat eexists.
Qed.

Lemma len8_cases (d : list Z) : length d = 8%nat ->
  exists d0 d1 d2 d3 d4 d5 d6 d7, d = [d0; d1; d2; d3; d4; d5; d6; d7].
Proof.
  intros H. do 8 (destruct d as [| ? d]; [discriminate |]). destruct d; [| discriminate]. repeat eexists.
Qed.

Lemma bytes_len_le15 (b : go_bytes) : (bytes_len b <=? 15) = (Z.of_nat (length b) <? Wire.lengthOfFrame).
Proof.
  unfold bytes_len, Wire.lengthOfFrame.
  destruct (Z.leb_spec (Z.of_nat (length b)) 15), (Z.ltb_spec (Z.of_nat (length b)) 16); auto; lia.
Qed.

(** unmarshalBinary overwrites every field of the receiver, whatever it held before ([f0]) *)
Lemma T_frame_unmarshalBinary_eq f0 b :
  length (Translated.frame_data f0) = 8%nat -> Wire.bytes b ->
  Translated.frame_unmarshalBinary f0 b = option_map sc_of (Wire.unmarshal16 b).
Proof.
  intros Hd Hb. unfold Translated.frame_unmarshalBinary, Wire.unmarshal16.
  rewrite bytes_len_le15.
  destruct (Z.of_nat (length b) <? Wire.lengthOfFrame) eqn:E; [reflexivity |].
  rewrite (WireProofs.get_u32_word b Hb).
  destruct (len16_cases b E) as (b0 & b1 & b2 & b3 & b4 & b5 & b6 & b7 & b8 & b9 & b10 & b11 & b12 & b13 & b14 & b15 & tl & ->).
  destruct f0 as [w0 l0 d0]. cbn [Translated.frame_data] in Hd.
  destruct (len8_cases d0 Hd) as (? & ? & ? & ? & ? & ? & ? & ? & ->).
  reflexivity.
Qed.

(** marshalBinary returns the final contents of the slice it writes through *)
Lemma T_frame_marshalBinary_eq f b :
  length (Wire.scdata f) = 8%nat ->
  Translated.frame_marshalBinary (sc_of f) b = Wire.marshal16 b f.
Proof.
  intros Hd. unfold Translated.frame_marshalBinary, Wire.marshal16.
  rewrite bytes_len_le15.
  destruct (Z.of_nat (length b) <? Wire.lengthOfFrame) eqn:E; [reflexivity |].
  destruct (len16_cases b E) as (b0 & b1 & b2 & b3 & b4 & b5 & b6 & b7 & b8 & b9 & b10 & b11 & b12 & b13 & b14 & b15 & tl & ->).
  destruct f as [w l d]. cbn [Wire.scdata] in Hd.
  destruct (len8_cases d Hd) as (? & ? & ? & ? & ? & ? & ? & ? & ->).
  cbn [sc_of Wire.idflags Wire.dlc Wire.scdata Translated.frame_idAndFlags Translated.frame_dataLengthCode Translated.frame_data].
  rewrite bytes_set_len, binary_le_PutUint32_len.
  unfold binary_le_PutUint32, le_bytes4, Wire.put_u32. rewrite !le_byte_mod by lia.
  change (8 * 0) with 0. change (8 * 1) with 8. change (8 * 2) with 16. change (8 * 3) with 24. rewrite Z.shiftr_0_r.
  unfold bytes_copy_at, bytes_splice, bytes_set, bytes_slice, bytes_len, Wire.lengthOfPadding, Wire.indexOfPadding.
  rewrite Nat2Z.id.
  change (Z.to_nat 0) with 0%nat. change (Z.to_nat 4) with 4%nat. change (Z.to_nat 8) with 8%nat.
  cbn [length Nat.sub firstn skipn list_splice list_set app].
  rewrite firstn_nil, list_splice_nil. reflexivity.
Qed.

Lemma T_frame_errorClass_eq f : in_u 32 (Wire.idflags f) ->
  Translated.frame_errorClass (sc_of f) = Wire.eclass (Wire.decode_error_frame f).
Proof.
  intros H. unfold Translated.frame_errorClass. cbn [sc_of Translated.frame_idAndFlags].
  rewrite wrap_u_small; [reflexivity |]. apply go_andnot_range_u; [lia | exact H | apply in_u_lit; reflexivity].
Qed.

Lemma bytes_nth_in_u8 d i : Wire.bytes d -> in_u 8 (nth i d 0).
Proof.
  intros H. revert i. induction H as [| h t Hh Ht IH]; intros [| i]; cbn [nth]; auto;
    try (unfold in_u; change (2 ^ 8) with 256; unfold Wire.is_byte in *; lia).
Qed.

Lemma T_frame_lostArbitrationBit_eq f :
  Translated.frame_lostArbitrationBit (sc_of f) = Wire.elostarb (Wire.decode_error_frame f).
Proof. reflexivity. Qed.

Lemma T_frame_controllerError_eq f : Wire.bytes (Wire.scdata f) ->
  Translated.frame_controllerError (sc_of f) = Wire.ectrl (Wire.decode_error_frame f).
Proof. intros H. unfold Translated.frame_controllerError. rewrite wrap_u_small; [reflexivity | apply bytes_nth_in_u8, H]. Qed.

Lemma T_frame_protocolError_eq f : Wire.bytes (Wire.scdata f) ->
  Translated.frame_protocolError (sc_of f) = Wire.eprot (Wire.decode_error_frame f).
Proof. intros H. unfold Translated.frame_protocolError. rewrite wrap_u_small; [reflexivity | apply bytes_nth_in_u8, H]. Qed.

Lemma T_frame_protocolErrorLocation_eq f : Wire.bytes (Wire.scdata f) ->
  Translated.frame_protocolErrorLocation (sc_of f) = Wire.eprotloc (Wire.decode_error_frame f).
Proof. intros H. unfold Translated.frame_protocolErrorLocation. rewrite wrap_u_small; [reflexivity | apply bytes_nth_in_u8, H]. Qed.

Lemma T_frame_transceiverError_eq f : Wire.bytes (Wire.scdata f) ->
  Translated.frame_transceiverError (sc_of f) = Wire.etrx (Wire.decode_error_frame f).
Proof. intros H. unfold Translated.frame_transceiverError. rewrite wrap_u_small; [reflexivity | apply bytes_nth_in_u8, H]. Qed.

Lemma T_frame_controllerSpecificInformation_eq f : length (Wire.scdata f) = 8%nat ->
  Translated.frame_controllerSpecificInformation (sc_of f) = Wire.ecsi (Wire.decode_error_frame f).
Proof.
  intros Hd. destruct f as [w l d]. cbn [Wire.scdata] in Hd.
  destruct (len8_cases d Hd) as (? & ? & ? & ? & ? & ? & ? & ? & ->). reflexivity.
Qed.

Lemma T_frame_decodeErrorFrame_eq f : wf_sc f ->
  Translated.frame_decodeErrorFrame (sc_of f) = ef_of (Wire.decode_error_frame f).
Proof.
  intros (Hw & _ & Hl & Hb). unfold Translated.frame_decodeErrorFrame, ef_of.
  rewrite T_frame_errorClass_eq, T_frame_lostArbitrationBit_eq, T_frame_controllerError_eq, T_frame_protocolError_eq,
    T_frame_protocolErrorLocation_eq, T_frame_transceiverError_eq, T_frame_controllerSpecificInformation_eq by assumption.
  reflexivity.
Qed.

(* @group physical requires can descriptor *)
(** ** pkg/descriptor/signal.go, floating-point part  (models: Descriptor/Physical.v; semantics of
       the float operators: Translate/GoSemFloat.v).  The T_ lemmas of this group depend on the
       standard-library axioms that Flocq's lemmas use (real numbers, classic, functional
       extensionality); checks/translate_tie.py accepts exactly vlib.AXIOM_WHITELIST. *)
From Flocq Require Import Core BinarySingleNaN.
From CanVerif Require Import Translate.GoSemFloat Translate.GoSemFloatProofs Descriptor.Physical.

(** [sig_of] plus the fields the float part reads; the float64 fields of the hand model's record
    are bit patterns, decoded by [sc]/[off]/[smin]/[smax] *)
Definition sig_of_p (s : signal) : Translated.Signal :=
  Translated.set_Signal_Max
    (Translated.set_Signal_Min
       (Translated.set_Signal_Scale
          (Translated.set_Signal_Offset
             (Translated.set_Signal_IsSigned (sig_of s) (s_signed s)) (off s)) (sc s)) (smin s)) (smax s).

Lemma sig_of_p_start s : Translated.Signal_Start (sig_of_p s) = s_start s. Proof. reflexivity. Qed.
Lemma sig_of_p_length s : Translated.Signal_Length (sig_of_p s) = s_length s. Proof. reflexivity. Qed.
Lemma sig_of_p_be s : Translated.Signal_IsBigEndian (sig_of_p s) = s_big_endian s. Proof. reflexivity. Qed.
Lemma sig_of_p_signed s : Translated.Signal_IsSigned (sig_of_p s) = s_signed s. Proof. reflexivity. Qed.
Lemma sig_of_p_offset s : Translated.Signal_Offset (sig_of_p s) = off s. Proof. reflexivity. Qed.
Lemma sig_of_p_scale s : Translated.Signal_Scale (sig_of_p s) = sc s. Proof. reflexivity. Qed.
Lemma sig_of_p_min s : Translated.Signal_Min (sig_of_p s) = smin s. Proof. reflexivity. Qed.
Lemma sig_of_p_max s : Translated.Signal_Max (sig_of_p s) = smax s. Proof. reflexivity. Qed.
Ltac sigproj_p := rewrite ?sig_of_p_start, ?sig_of_p_length, ?sig_of_p_be, ?sig_of_p_signed,
                          ?sig_of_p_offset, ?sig_of_p_scale, ?sig_of_p_min, ?sig_of_p_max.

(** the integer methods read only Start/Length/IsBigEndian: on [sig_of_p s] they are what they are
    on [sig_of s] (by computation), so the lemmas of group descriptor apply *)
Lemma T_Signal_MinSigned_eq' s : Translated.Signal_MinSigned (sig_of_p s) = min_signed_l (s_length s).
Proof. exact (T_Signal_MinSigned_eq s). Qed.
Lemma T_Signal_MaxSigned_eq' s : Translated.Signal_MaxSigned (sig_of_p s) = max_signed_l (s_length s).
Proof. exact (T_Signal_MaxSigned_eq s). Qed.
Lemma T_Signal_MaxUnsigned_eq' s : Translated.Signal_MaxUnsigned (sig_of_p s) = max_unsigned_l (s_length s).
Proof. exact (T_Signal_MaxUnsigned_eq s). Qed.

(** the operators of GoSemFloat.v and of Descriptor/Physical.v are the same Flocq terms; they are
    identified by REWRITING with these equations (a [change] would leave a conversion problem on
    Flocq terms to the kernel at [Qed]) *)
Lemma go_fmax_eq : go_math_Max = fmax. Proof. reflexivity. Qed.
Lemma go_fmin_eq : go_math_Min = fmin. Proof. reflexivity. Qed.
Lemma go_fadd_eq : go_fadd64 = fadd. Proof. reflexivity. Qed.
Lemma go_fsub_eq : go_fsub64 = fsub. Proof. reflexivity. Qed.
Lemma go_fmul_eq : go_fmul64 = fmul. Proof. reflexivity. Qed.
Lemma go_fdiv_eq : go_fdiv64 = fdiv. Proof. reflexivity. Qed.
Lemma go_feq_eq : go_feq64 = @Beqb 53 1024. Proof. reflexivity. Qed.
Lemma go_flt_eq : go_flt64 = @Bltb 53 1024. Proof. reflexivity. Qed.
Lemma go_fle_eq : go_fle64 = @Bleb 53 1024. Proof. reflexivity. Qed.
Lemma go_f64_of_int_eq : go_f64_of_int = f64_of_Z. Proof. reflexivity. Qed.
Lemma go_f64_const_eq : go_f64_const = f64_of_bits. Proof. reflexivity. Qed.
Lemma go_f32_of_f64_eq : go_f32_of_f64 = f32_of_f64. Proof. reflexivity. Qed.
Lemma go_f64_of_f32_eq : go_f64_of_f32 = f64_of_f32. Proof. reflexivity. Qed.
Lemma go_f32frombits_eq : go_math_Float32frombits = f32_of_bits. Proof. reflexivity. Qed.
Lemma go_f32bits_eq : go_math_Float32bits = bits_of_f32. Proof. reflexivity. Qed.
Lemma fzero_bits : f64_of_bits 0 = fzero. Proof. reflexivity. Qed.
Lemma fone_bits : f64_of_bits 0x3ff0000000000000 = fone.
Proof. unfold fone. rewrite <- go_f64_const_eq, <- go_f64_of_int_eq. exact go_f64_const_one. Qed.
Ltac fnorm :=
  rewrite ?go_fmax_eq, ?go_fmin_eq, ?go_fadd_eq, ?go_fsub_eq, ?go_fmul_eq, ?go_fdiv_eq, ?go_feq_eq, ?go_flt_eq,
    ?go_fle_eq, ?go_f64_of_int_eq, ?go_f64_const_eq, ?go_f32_of_f64_eq, ?go_f64_of_f32_eq, ?go_f32frombits_eq,
    ?go_f32bits_eq, ?fzero_bits, ?fone_bits.

Lemma T_Signal_MinFloat_eq s : Translated.Signal_MinFloat (sig_of_p s) = min_float.
Proof. unfold Translated.Signal_MinFloat, min_float. fnorm. reflexivity. Qed.

Lemma T_Signal_MaxFloat_eq s : Translated.Signal_MaxFloat (sig_of_p s) = max_float.
Proof. unfold Translated.Signal_MaxFloat, max_float. fnorm. reflexivity. Qed.

Lemma T_Signal_SaturatedCastFloat_eq s value :
  Translated.Signal_SaturatedCastFloat (sig_of_p s) value = saturated_cast_float value.
Proof.
  unfold Translated.Signal_SaturatedCastFloat, saturated_cast_float. cbv zeta.
  rewrite T_Signal_MinFloat_eq, T_Signal_MaxFloat_eq. fnorm. reflexivity.
Qed.

Lemma T_Signal_ToPhysical_eq s value :
  Translated.Signal_ToPhysical (sig_of_p s) value = to_physical s value.
Proof.
  unfold Translated.Signal_ToPhysical, to_physical, to_physical_f, clamp_opt_f, declared_f, clamp_f, fne0.
  cbv zeta. sigproj_p. fnorm. reflexivity.
Qed.

Lemma T_Signal_FromPhysical_eq s physical :
  Translated.Signal_FromPhysical (sig_of_p s) physical = from_physical s physical.
Proof.
  unfold Translated.Signal_FromPhysical, from_physical, from_physical_f, clamp_opt_f, declared_f, clamp_f,
    raw_lo_f, raw_hi_f, fne0.
  cbv zeta. sigproj_p. rewrite T_Signal_MinSigned_eq', T_Signal_MaxSigned_eq', T_Signal_MaxUnsigned_eq'.
  fnorm. destruct (_ || _), (s_signed s); reflexivity.
Qed.

Lemma T_Signal_UnmarshalPhysical_eq s d :
  valid_data d -> in_u 8 (s_start s) ->
  Translated.Signal_UnmarshalPhysical (sig_of_p s) d = unmarshal_physical s d.
Proof.
  intros Hd Hs. unfold Translated.Signal_UnmarshalPhysical, unmarshal_physical, unmarshal_signed, unmarshal_unsigned.
  cbv zeta. sigproj_p. rewrite T_Data_Bit_eq.
  rewrite !T_Data_SignedBitsBigEndian_eq, !T_Data_SignedBitsLittleEndian_eq,
    !T_Data_UnsignedBitsBigEndian_eq, !T_Data_UnsignedBitsLittleEndian_eq by assumption.
  rewrite !T_Signal_ToPhysical_eq. fnorm.
  destruct (s_length s =? 1); [destruct (bit d (s_start s)); reflexivity |].
  destruct (s_signed s), (s_big_endian s); reflexivity.
Qed.

Lemma T_Signal_UnmarshalFloat_eq s d :
  valid_data d -> Translated.Signal_UnmarshalFloat (sig_of_p s) d = unmarshal_float s d.
Proof.
  intros Hd. unfold Translated.Signal_UnmarshalFloat, unmarshal_float, unmarshal_unsigned, go_unsafe_low.
  cbv zeta. sigproj_p.
  rewrite !T_Data_UnsignedBitsBigEndian_eq, !T_Data_UnsignedBitsLittleEndian_eq by assumption.
  fnorm. destruct (s_big_endian s); reflexivity.
Qed.

(** MarshalUnsigned reads Start/Length/IsBigEndian only *)
Lemma T_Signal_MarshalUnsigned_eq' s d value :
  valid_data d -> Translated.Signal_MarshalUnsigned (sig_of_p s) d value = marshal_unsigned s d value.
Proof. exact (T_Signal_MarshalUnsigned_eq s d value). Qed.

Lemma T_Signal_MarshalFloat_eq s d value :
  valid_data d -> Translated.Signal_MarshalFloat (sig_of_p s) d value = marshal_float s d value.
Proof.
  intros Hd. unfold Translated.Signal_MarshalFloat, marshal_float. cbv zeta.
  rewrite T_Signal_MarshalUnsigned_eq' by assumption.
  rewrite (wrap_u_small 64) by (eapply in_u_mono; [| apply go_math_Float32bits_range]; lia).
  fnorm. reflexivity.
Qed.

(* @group apidecide requires can descriptor physical *)
(** ** internal/generate/file.go: the decisions of the generator  (models: Gen/Api.v, Gen/Message.v).
       Gen/Api.v is Flocq-free: it compares float64 BIT PATTERNS ([f64_eqb], [f64_ltb]) and converts
       integers with its own [f64_of_int]; Translate/FloatBits.v proves the pattern comparisons equal
       to Flocq's on the decoded floats, and the conversions are checked here for the 256 possible
       values of the uint8 shift count [Length - 1]. *)
From CanVerif Require Import Translate.FloatBits Gen.Message Gen.Api.

Definition sig_of_a (s : signal) : Translated.Signal :=
  Translated.set_Signal_ValueDescriptions
    (Translated.set_Signal_IsFloat (sig_of_p s) (s_float s))
    (map (fun _ => Translated.zero_ValueDescription) (s_value_descriptions s)).

Lemma sig_of_a_length s : Translated.Signal_Length (sig_of_a s) = s_length s. Proof. reflexivity. Qed.
Lemma sig_of_a_signed s : Translated.Signal_IsSigned (sig_of_a s) = s_signed s. Proof. reflexivity. Qed.
Lemma sig_of_a_float s : Translated.Signal_IsFloat (sig_of_a s) = s_float s. Proof. reflexivity. Qed.
(** (only [len(s.ValueDescriptions)] is used by this group: the elements are placeholders) *)
Lemma sig_of_a_vds s :
  list_len (Translated.Signal_ValueDescriptions (sig_of_a s)) = Z.of_nat (length (s_value_descriptions s)).
Proof. unfold list_len. cbn. now rewrite map_length. Qed.
Lemma sig_of_a_offset s : Translated.Signal_Offset (sig_of_a s) = go_math_Float64frombits (s_offset s). Proof. reflexivity. Qed.
Lemma sig_of_a_scale s : Translated.Signal_Scale (sig_of_a s) = go_math_Float64frombits (s_scale s). Proof. reflexivity. Qed.
Lemma sig_of_a_min s : Translated.Signal_Min (sig_of_a s) = go_math_Float64frombits (s_min s). Proof. reflexivity. Qed.
Lemma sig_of_a_max s : Translated.Signal_Max (sig_of_a s) = go_math_Float64frombits (s_max s). Proof. reflexivity. Qed.
Ltac sigproj_a := rewrite ?sig_of_a_length, ?sig_of_a_signed, ?sig_of_a_float, ?sig_of_a_vds,
                          ?sig_of_a_offset, ?sig_of_a_scale, ?sig_of_a_min, ?sig_of_a_max.

(** callees, on [sig_of_a] (they read only fields that [sig_of_p]/[sig_of] set) *)
Lemma T_Signal_MinSigned_eq'' s : Translated.Signal_MinSigned (sig_of_a s) = min_signed s.
Proof. exact (T_Signal_MinSigned_eq s). Qed.
Lemma T_Signal_MaxSigned_eq'' s : Translated.Signal_MaxSigned (sig_of_a s) = max_signed s.
Proof. exact (T_Signal_MaxSigned_eq s). Qed.
Lemma T_Signal_MaxUnsigned_eq'' s : Translated.Signal_MaxUnsigned (sig_of_a s) = max_unsigned s.
Proof. exact (T_Signal_MaxUnsigned_eq s). Qed.
Lemma T_Signal_MinFloat_eq' s : Translated.Signal_MinFloat (sig_of_a s) = go_math_Float64frombits f64_min_float32.
Proof. reflexivity. Qed.
Lemma T_Signal_MaxFloat_eq' s : Translated.Signal_MaxFloat (sig_of_a s) = go_math_Float64frombits f64_max_float32.
Proof. reflexivity. Qed.

(** float64(MinSigned()), float64(MaxSigned()), float64(MaxUnsigned()): the bit-pattern conversion
    of Gen/Api.v gives the pattern of the correctly rounded Flocq conversion, for every value the
    uint8 shift count can take *)
Definition conv_ok (z : Z) : bool :=
  (go_math_Float64bits (go_f64_of_int z) =? f64_of_int z) && (0 <=? f64_of_int z) && (f64_of_int z <? 2 ^ 64).
Definition conv_ok_k (k : Z) : bool :=
  conv_ok (wrap_i64 (- shl_i64 1 k)) && conv_ok (wrap_i64 (shl_i64 1 k - 1)) && conv_ok (sub64 (shl64 2 k) 1).
Lemma conv_ok_all : forallb conv_ok_k (map Z.of_nat (seq 0 256)) = true.
Proof. vm_compute. reflexivity. Qed.
Lemma conv_ok_len l : conv_ok_k (len_m1 l) = true.
Proof.
  assert (H : 0 <= len_m1 l < 256) by (unfold len_m1, u8; apply Z.mod_pos_bound; lia).
  pose proof conv_ok_all as A. rewrite forallb_forall in A. apply A.
  apply in_map_iff. exists (Z.to_nat (len_m1 l)). split; [lia | apply in_seq; lia].
Qed.
Lemma conv_ok_use z : conv_ok z = true ->
  go_f64_of_int z = go_math_Float64frombits (f64_of_int z) /\ in_u 64 (f64_of_int z).
Proof.
  unfold conv_ok. intros H. apply andb_true_iff in H. destruct H as [H C]. apply andb_true_iff in H.
  destruct H as [A B]. apply Z.eqb_eq in A. apply Z.leb_le in B. apply Z.ltb_lt in C.
  split; [rewrite <- A; symmetry; apply go_frombits_bits64 | unfold in_u; lia].
Qed.
Lemma conv_min_signed s : go_f64_of_int (min_signed s) = go_math_Float64frombits (f64_of_int (min_signed s))
                          /\ in_u 64 (f64_of_int (min_signed s)).
Proof.
  apply conv_ok_use. pose proof (conv_ok_len (s_length s)) as H. unfold conv_ok_k in H.
  apply andb_true_iff in H. destruct H as [H _]. apply andb_true_iff in H. exact (proj1 H).
Qed.
Lemma conv_max_signed s : go_f64_of_int (max_signed s) = go_math_Float64frombits (f64_of_int (max_signed s))
                          /\ in_u 64 (f64_of_int (max_signed s)).
Proof.
  apply conv_ok_use. pose proof (conv_ok_len (s_length s)) as H. unfold conv_ok_k in H.
  apply andb_true_iff in H. destruct H as [H _]. apply andb_true_iff in H. exact (proj2 H).
Qed.
Lemma conv_max_unsigned s : go_f64_of_int (max_unsigned s) = go_math_Float64frombits (f64_of_int (max_unsigned s))
                            /\ in_u 64 (f64_of_int (max_unsigned s)).
Proof.
  apply conv_ok_use. pose proof (conv_ok_len (s_length s)) as H. unfold conv_ok_k in H.
  apply andb_true_iff in H. exact (proj2 H).
Qed.

(** the float64 fields of a descriptor are bit patterns of 64 bits *)
Definition sig_bits_ok (s : signal) : Prop :=
  in_u 64 (s_scale s) /\ in_u 64 (s_offset s) /\ in_u 64 (s_min s) /\ in_u 64 (s_max s).

Lemma feq_bits a b : in_u 64 a -> in_u 64 b ->
  go_feq64 (go_math_Float64frombits a) (go_math_Float64frombits b) = f64_eqb a b.
Proof. intros Ha Hb. exact (bits_eqb_correct a b Ha Hb). Qed.
Lemma flt_bits a b : in_u 64 a -> in_u 64 b ->
  go_flt64 (go_math_Float64frombits a) (go_math_Float64frombits b) = f64_ltb a b.
Proof. intros Ha Hb. exact (bits_ltb_correct a b Ha Hb). Qed.

Lemma T_hasPhysicalRepresentation_eq s :
  sig_bits_ok s -> Translated.hasPhysicalRepresentation (sig_of_a s) = has_physical s.
Proof.
  intros (Hsc & Hof & Hmn & Hmx).
  destruct (conv_min_signed s) as [Emin Rmin]. destruct (conv_max_signed s) as [Emax Rmax].
  destruct (conv_max_unsigned s) as [Eumax Rumax].
  assert (R0 : in_u 64 0) by (unfold in_u; lia).
  assert (R1 : in_u 64 f64_one) by (apply in_u_lit; reflexivity).
  assert (Rmaxf : in_u 64 f64_max_float32) by (apply in_u_lit; reflexivity).
  assert (Rminf : in_u 64 f64_min_float32) by (apply in_u_lit; reflexivity).
  unfold Translated.hasPhysicalRepresentation, has_physical, has_physical_old. cbv zeta.
  rewrite T_Signal_MinSigned_eq'', T_Signal_MaxSigned_eq'', T_Signal_MaxUnsigned_eq'',
    T_Signal_MinFloat_eq', T_Signal_MaxFloat_eq'.
  sigproj_a. rewrite Emin, Emax, Eumax. unfold go_f64_const.
  change 0x3ff0000000000000 with f64_one.
  rewrite !feq_bits, !flt_bits by assumption.
  unfold f64_neb, f64_gtb, f64_zero.
  destruct (s_float s), (s_signed s); reflexivity.
Qed.

Lemma T_hasCustomType_eq s : Translated.hasCustomType (sig_of_a s) = has_custom_type s.
Proof.
  unfold Translated.hasCustomType, has_custom_type. sigproj_a.
  destruct (s_value_descriptions s); reflexivity.
Qed.

(** go/types.BasicKind of the model's type tags (go/types/type.go: Bool = 1, Int8..Int64 = 3..6,
    Uint8..Uint64 = 8..11, Float32 = 13, Float64 = 14; the translator prints each constant with its
    name, see Translated.v) *)
Definition kind_of_int (bits : Z) : Z := if bits =? 8 then 3 else if bits =? 16 then 4 else if bits =? 32 then 5 else 6.
Definition kind_of_uint (bits : Z) : Z := if bits =? 8 then 8 else if bits =? 16 then 9 else if bits =? 32 then 10 else 11.
Definition kind_of_prim (p : prim_type) : Z :=
  match p with PFloat32 => 13 | PBool => 1 | PInt b => kind_of_int b | PUint b => kind_of_uint b end.
Definition kind_of_basic (b : basic) : Z :=
  match b with BBool => 1 | BFloat32 => 13 | BFloat64 => 14 | BInt b => kind_of_int b | BUint b => kind_of_uint b end.

Ltac split_ifs :=
  repeat match goal with |- context [if ?c then _ else _] => destruct c end.

Lemma T_signalPrimitiveType_eq s :
  Translated.signalPrimitiveType (sig_of_a s) = kind_of_prim (signal_prim_type s).
Proof.
  unfold Translated.signalPrimitiveType, signal_prim_type, go_types_Typ. cbv zeta. sigproj_a.
  split_ifs; reflexivity.
Qed.

Lemma T_signalPrimitiveSuperType_eq s :
  Translated.signalPrimitiveSuperType (sig_of_a s) = kind_of_basic (signal_prim_super s).
Proof.
  unfold Translated.signalPrimitiveSuperType, signal_prim_super, go_types_Typ. cbv zeta. sigproj_a.
  split_ifs; reflexivity.
Qed.

(** the suffix of descriptor.Signal's Marshal<S> / Unmarshal<S> / SaturatedCast<S> methods *)
Definition super_name (st : super_type) : list Z :=
  match st with
  | StFloat => [70; 108; 111; 97; 116]                      (* "Float" *)
  | StBool => [66; 111; 111; 108]                           (* "Bool" *)
  | StSigned => [83; 105; 103; 110; 101; 100]               (* "Signed" *)
  | StUnsigned => [85; 110; 115; 105; 103; 110; 101; 100]   (* "Unsigned" *)
  end.

Lemma T_signalSuperType_eq s :
  Translated.signalSuperType (sig_of_a s) = super_name (signal_super_type s).
Proof.
  unfold Translated.signalSuperType, signal_super_type. sigproj_a. split_ifs; reflexivity.
Qed.

(* @group netlink *)
(** ** pkg/candevice/device_linux.go: the fixed-layout codecs  (models: Netlink/Layout.v).
       The hand models are CHECKED ([outcome]: [OutOfBounds] = the Go program would panic, [Error] =
       it returns a non-nil error); the translated functions are total (GoSem.v: panics are not
       modelled).  Each lemma therefore says: the model never answers [OutOfBounds], and the
       translated function returns what the model returns. *)
From CanVerif Require Netlink.Layout.

(** (a module, so that the names of Netlink/Layout.v - [u8], [slice], [byte] ... - do not shadow those of
    Can/Data.v in the groups that follow) *)
Module NL.
Import Netlink.Layout.

Lemma bytes_len_eqb (d : go_bytes) (n : Z) : 0 <= n -> (bytes_len d =? n) = Nat.eqb (length d) (Z.to_nat n).
Proof.
  intros Hn. unfold bytes_len. destruct (Nat.eqb_spec (length d) (Z.to_nat n)) as [E | E].
  - rewrite E, Z2Nat.id by exact Hn. apply Z.eqb_refl.
  - apply Z.eqb_neq. lia.
Qed.

(** the checked readers of the model succeed whenever the slice is in range and has the exact width,
    and then return what the (total) readers of GoSem.v return *)
Lemma slice_tr d lo hi : (lo <= hi)%nat -> (hi <= length d)%nat ->
  slice d lo hi = Ok (bytes_slice d (Z.of_nat lo) (Z.of_nat hi)).
Proof.
  intros H1 H2. unfold slice, bytes_slice. rewrite !Nat2Z.id.
  destruct (Nat.leb_spec lo hi); [| lia]. destruct (Nat.leb_spec hi (length d)); [| lia]. reflexivity.
Qed.
Lemma bytes_slice_length d lo hi : (lo <= hi)%nat -> (hi <= length d)%nat ->
  length (bytes_slice d (Z.of_nat lo) (Z.of_nat hi)) = (hi - lo)%nat.
Proof.
  intros H1 H2. unfold bytes_slice. rewrite !Nat2Z.id, firstn_length, skipn_length. lia.
Qed.
Lemma get_u8_tr d : length d = 1%nat -> get_u8 d = Ok (nlenc_Uint8 d).
Proof. destruct d as [| ? [| ? ?]]; try discriminate. reflexivity. Qed.
Lemma get_u16_tr d : length d = 2%nat -> get_u16 d = Ok (nlenc_Uint16 d).
Proof. destruct d as [| ? [| ? [| ? ?]]]; try discriminate. reflexivity. Qed.
Lemma get_u32_tr d : length d = 4%nat -> get_u32 d = Ok (nlenc_Uint32 d).
Proof. destruct d as [| ? [| ? [| ? [| ? [| ? ?]]]]]; try discriminate. reflexivity. Qed.
Lemma get_i32_tr d : length d = 4%nat -> get_i32 d = Ok (nlenc_Int32 d).
Proof. intros H. unfold get_i32. rewrite get_u32_tr by exact H. reflexivity. Qed.
Lemma rd_u8_tr d lo hi : (hi <= length d)%nat -> (lo + 1 = hi)%nat ->
  rd_u8 d lo hi = Ok (nlenc_Uint8 (bytes_slice d (Z.of_nat lo) (Z.of_nat hi))).
Proof. intros. unfold rd_u8. rewrite slice_tr by lia. cbn [bind]. apply get_u8_tr. rewrite bytes_slice_length; lia. Qed.
Lemma rd_u16_tr d lo hi : (hi <= length d)%nat -> (lo + 2 = hi)%nat ->
  rd_u16 d lo hi = Ok (nlenc_Uint16 (bytes_slice d (Z.of_nat lo) (Z.of_nat hi))).
Proof. intros. unfold rd_u16. rewrite slice_tr by lia. cbn [bind]. apply get_u16_tr. rewrite bytes_slice_length; lia. Qed.
Lemma rd_u32_tr d lo hi : (hi <= length d)%nat -> (lo + 4 = hi)%nat ->
  rd_u32 d lo hi = Ok (nlenc_Uint32 (bytes_slice d (Z.of_nat lo) (Z.of_nat hi))).
Proof. intros. unfold rd_u32. rewrite slice_tr by lia. cbn [bind]. apply get_u32_tr. rewrite bytes_slice_length; lia. Qed.
Lemma rd_i32_tr d lo hi : (hi <= length d)%nat -> (lo + 4 = hi)%nat ->
  rd_i32 d lo hi = Ok (nlenc_Int32 (bytes_slice d (Z.of_nat lo) (Z.of_nat hi))).
Proof. intros. unfold rd_i32. rewrite slice_tr by lia. cbn [bind]. apply get_i32_tr. rewrite bytes_slice_length; lia. Qed.

(** [copy(a[:], src)] with [len src = len a] overwrites all of [a] *)
Lemma list_splice_all src b : length src = length b -> list_splice 0 src b = src.
Proof.
  revert src. induction b as [| h t IH]; intros [| x src] H; cbn in *; try discriminate; [reflexivity |].
  f_equal. apply IH. now injection H.
Qed.
Lemma bytes_copy_all a n src : length a = n -> length src = n -> bytes_copy_at a 0 (Z.of_nat n) src = src.
Proof.
  intros Ha Hs. unfold bytes_copy_at, bytes_splice. rewrite Nat2Z.id. cbn [Z.to_nat]. rewrite Nat.sub_0_r.
  rewrite firstn_all2 by lia. apply list_splice_all. lia.
Qed.

(** result of an unmarshalBinary method on receiver [r0]: (new receiver, error) *)
Definition un_res {A B : Type} (conv : A -> B) (r0 : B) (o : outcome A) : option (B * err) :=
  match o with
  | Ok x => Some (conv x, err_nil)
  | Error => Some (r0, err_nonnil)
  | OutOfBounds => None
  end.

Definition ifi_of (x : ifinfomsg) : Translated.ifInfoMsg :=
  {| Translated.ifInfoMsg_IfInfomsg :=
       {| Translated.IfInfomsg_Family := ifi_family x; Translated.IfInfomsg_Type := ifi_type x;
          Translated.IfInfomsg_Index := ifi_index x; Translated.IfInfomsg_Flags := ifi_flags x;
          Translated.IfInfomsg_Change := ifi_change x |} |}.
Definition bt_of (x : bittiming) : Translated.BitTiming :=
  {| Translated.BitTiming_CANBitTiming :=
       {| Translated.CANBitTiming_Bitrate := bt_bitrate x; Translated.CANBitTiming_Sample_point := bt_sample_point x;
          Translated.CANBitTiming_Tq := bt_tq x; Translated.CANBitTiming_Prop_seg := bt_prop_seg x;
          Translated.CANBitTiming_Phase_seg1 := bt_phase_seg1 x; Translated.CANBitTiming_Phase_seg2 := bt_phase_seg2 x;
          Translated.CANBitTiming_Sjw := bt_sjw x; Translated.CANBitTiming_Brp := bt_brp x |} |}.
Definition btc_of (x : bittiming_const) : Translated.BitTimingConst :=
  {| Translated.BitTimingConst_CANBitTimingConst :=
       {| Translated.CANBitTimingConst_Name := btc_name x;
          Translated.CANBitTimingConst_Tseg1_min := btc_tseg1_min x; Translated.CANBitTimingConst_Tseg1_max := btc_tseg1_max x;
          Translated.CANBitTimingConst_Tseg2_min := btc_tseg2_min x; Translated.CANBitTimingConst_Tseg2_max := btc_tseg2_max x;
          Translated.CANBitTimingConst_Sjw_max := btc_sjw_max x; Translated.CANBitTimingConst_Brp_min := btc_brp_min x;
          Translated.CANBitTimingConst_Brp_max := btc_brp_max x; Translated.CANBitTimingConst_Brp_inc := btc_brp_inc x |} |}.
Definition clk_of (x : clock) : Translated.Clock :=
  {| Translated.Clock_CANClock := {| Translated.CANClock_Freq := clk_freq x |} |}.
Definition cm_of (x : ctrlmode) : Translated.CtrlMode :=
  {| Translated.CtrlMode_CANCtrlMode := {| Translated.CANCtrlMode_Mask := cm_mask x; Translated.CANCtrlMode_Flags := cm_flags x |} |}.
Definition bec_of (x : berr_counters) : Translated.BusErrorCounters :=
  {| Translated.BusErrorCounters_CANBusErrorCounters :=
       {| Translated.CANBusErrorCounters_Txerr := bec_txerr x; Translated.CANBusErrorCounters_Rxerr := bec_rxerr x |} |}.
Definition st_of (x : stats) : Translated.Stats :=
  {| Translated.Stats_CANDeviceStats :=
       {| Translated.CANDeviceStats_Bus_error := st_bus_error x; Translated.CANDeviceStats_Error_warning := st_error_warning x;
          Translated.CANDeviceStats_Error_passive := st_error_passive x; Translated.CANDeviceStats_Bus_off := st_bus_off x;
          Translated.CANDeviceStats_Arbitration_lost := st_arbitration_lost x; Translated.CANDeviceStats_Restarts := st_restarts x |} |}.

(** [unmarshal n]: split on the length test; with [length data = n] every checked read of the model
    succeeds and is the total read of the translation *)
Ltac unmarshal n :=
  rewrite (bytes_len_eqb _ n) by lia;
  let k := eval compute in (Z.to_nat n) in
  change (Z.to_nat n) with k;
  match goal with |- context [Nat.eqb (length ?d) k] =>
    let E := fresh "E" in
    destruct (Nat.eqb (length d) k) eqn:E; [| reflexivity];
    apply Nat.eqb_eq in E; cbn [negb];
    rewrite ?rd_u8_tr, ?rd_u16_tr, ?rd_u32_tr, ?rd_i32_tr, ?slice_tr, ?get_u32_tr by (try rewrite E; lia);
    (* call by value: each [let v := set_f v x in ...] is evaluated before it is substituted *)
    cbv -[Z.add Z.mul Z.sub Z.ltb Z.pow Z.land Z.shiftr Z.modulo
          nlenc_Uint8 nlenc_Uint16 nlenc_Uint32 nlenc_Int32 bytes_slice bytes_copy_at]
  end.

Lemma T_ifInfoMsg_marshalBinary_eq x : Ok (Translated.ifInfoMsg_marshalBinary (ifi_of x)) = marshal_ifinfomsg x.
Proof. reflexivity. Qed.

Lemma T_ifInfoMsg_unmarshalBinary_eq r0 data :
  Some (Translated.ifInfoMsg_unmarshalBinary r0 data) = un_res ifi_of r0 (unmarshal_ifinfomsg data).
Proof.
  destruct r0 as [[? ? ? ? ?]]. unfold Translated.ifInfoMsg_unmarshalBinary, unmarshal_ifinfomsg, sizeof_ifinfomsg.
  unmarshal 16. reflexivity.
Qed.

Lemma T_BitTiming_marshalBinary_eq x : Ok (Translated.BitTiming_marshalBinary (bt_of x)) = marshal_bittiming x.
Proof. reflexivity. Qed.

Lemma T_BitTiming_unmarshalBinary_eq r0 data :
  Some (Translated.BitTiming_unmarshalBinary r0 data) = un_res bt_of r0 (unmarshal_bittiming data).
Proof.
  destruct r0 as [[? ? ? ? ? ? ? ?]]. unfold Translated.BitTiming_unmarshalBinary, unmarshal_bittiming, sizeof_bittiming.
  unmarshal 32. reflexivity.
Qed.

(** Name is a [16]uint8 array: [copy(btc.Name[:], data[0:16])] overwrites all of it *)
Definition btc_name_ok (r0 : Translated.BitTimingConst) : Prop :=
  length (Translated.CANBitTimingConst_Name (Translated.BitTimingConst_CANBitTimingConst r0)) = 16%nat.
Lemma T_BitTimingConst_unmarshalBinary_eq r0 data : btc_name_ok r0 ->
  Some (Translated.BitTimingConst_unmarshalBinary r0 data) = un_res btc_of r0 (unmarshal_bittiming_const data).
Proof.
  destruct r0 as [[nm ? ? ? ? ? ? ? ?]].
  unfold btc_name_ok. cbn [Translated.CANBitTimingConst_Name Translated.BitTimingConst_CANBitTimingConst].
  intros Hn.
  unfold Translated.BitTimingConst_unmarshalBinary, unmarshal_bittiming_const, sizeof_bittiming_const.
  unmarshal 48.
  rewrite (bytes_copy_all nm 16 _ Hn) by (apply (bytes_slice_length data 0 16); lia).
  reflexivity.
Qed.

Lemma T_Clock_unmarshalBinary_eq r0 data :
  Some (Translated.Clock_unmarshalBinary r0 data) = un_res clk_of r0 (unmarshal_clock data).
Proof.
  destruct r0 as [[?]]. unfold Translated.Clock_unmarshalBinary, unmarshal_clock, sizeof_clock.
  unmarshal 4. reflexivity.
Qed.

Lemma T_CtrlMode_marshalBinary_eq x : Ok (Translated.CtrlMode_marshalBinary (cm_of x)) = marshal_ctrlmode x.
Proof. reflexivity. Qed.

Lemma T_CtrlMode_unmarshalBinary_eq r0 data :
  Some (Translated.CtrlMode_unmarshalBinary r0 data) = un_res cm_of r0 (unmarshal_ctrlmode data).
Proof.
  destruct r0 as [[? ?]]. unfold Translated.CtrlMode_unmarshalBinary, unmarshal_ctrlmode, sizeof_ctrlmode.
  unmarshal 8. reflexivity.
Qed.

Lemma T_BusErrorCounters_unmarshalBinary_eq r0 data :
  Some (Translated.BusErrorCounters_unmarshalBinary r0 data) = un_res bec_of r0 (unmarshal_berr_counters data).
Proof.
  destruct r0 as [[? ?]]. unfold Translated.BusErrorCounters_unmarshalBinary, unmarshal_berr_counters, sizeof_berr_counters.
  unmarshal 4. reflexivity.
Qed.

Lemma T_Stats_unmarshalBinary_eq r0 data :
  Some (Translated.Stats_unmarshalBinary r0 data) = un_res st_of r0 (unmarshal_stats data).
Proof.
  destruct r0 as [[? ? ? ? ? ?]]. unfold Translated.Stats_unmarshalBinary, unmarshal_stats, sizeof_stats.
  unmarshal 24. reflexivity.
Qed.
End NL.
(** the lemma names unqualified (the names of Netlink/Layout.v stay local to the module) *)
Import NL.

(* @group scan *)
(** ** pkg/socketcan/receiver.go scanFrames, the bufio.SplitFunc  (model: Socketcan/Receiver.v).
       Three results (advance, token, error) = a triple.  GoSem.v identifies the nil slice with the
       empty one; [scan_frames_token_nonempty] shows that this loses nothing here: a token, when
       there is one, has 16 bytes. *)
From CanVerif Require Socketcan.Wire Socketcan.Receiver.

Definition tok_of (o : option (list Z)) : go_bytes := match o with None => bytes_nil | Some t => t end.
Definition err_of {E : Type} (o : option E) : err := match o with None => err_nil | Some _ => err_nonnil end.

Lemma T_scanFrames_eq data atEOF :
  Translated.scanFrames data atEOF
  = let '(adv, tok, e) := Receiver.scan_frames data atEOF in (adv, tok_of tok, err_of e).
Proof.
  unfold Translated.scanFrames, Receiver.scan_frames, bytes_len.
  change Wire.lengthOfFrame with 16.
  destruct (Z.of_nat (length data) <? 16); reflexivity.
Qed.

Lemma scan_frames_token_nonempty data atEOF t :
  snd (fst (Receiver.scan_frames data atEOF)) = Some t -> length t = 16%nat.
Proof.
  unfold Receiver.scan_frames. change Wire.lengthOfFrame with 16.
  destruct (Z.ltb_spec (Z.of_nat (length data)) 16) as [H | H]; cbn [fst snd]; [discriminate |].
  intros E. assert (Et : t = firstn 16 data) by congruence. rewrite Et, firstn_length. lia.
Qed.

(* @group dbcid *)
(** ** pkg/dbc/messageid.go  (models: Dbc/Ast.v [msgid_is_extended], [msgid_to_can], [msgid_valid];
       used by the parser model Dbc/Parser.v [p_message_id] and by Dbc/Compile*.v).
       Precondition = the Go type: MessageID is a uint32. *)
From CanVerif Require Dbc.Ast.

Lemma T_MessageID_IsExtended_eq m : Translated.MessageID_IsExtended m = Dbc.Ast.msgid_is_extended m.
Proof. reflexivity. Qed.

(** [m &^ 0x80000000] on a uint32 clears bit 31: the low 31 bits *)
Lemma andnot_flag31 m : in_u 32 m -> go_andnot m 2147483648 = Z.land m 2147483647.
Proof.
  intros [H0 H1]. unfold go_andnot. apply Z.bits_inj'. intros i Hi.
  rewrite Z.ldiff_spec, Z.land_spec.
  change 2147483648 with (2 ^ 31). change 2147483647 with (Z.ones 31).
  rewrite Z.pow2_bits_eqb by lia. rewrite Z.testbit_ones_nonneg by lia.
  destruct (Z.eqb_spec 31 i) as [<- | Hne].
  - cbn. now rewrite andb_false_r.
  - destruct (Z.ltb_spec i 31); cbn; [now rewrite andb_true_r |].
    rewrite andb_false_r, andb_true_r.
    assert (Hm : m = 0 \/ 0 < m) by lia. destruct Hm as [-> | Hm]; [apply Z.bits_0 |].
    apply Z.bits_above_log2; [lia |]. apply Z.log2_lt_pow2; [lia |]. eapply Z.lt_le_trans; [exact H1 |].
    apply Z.pow_le_mono_r; lia.
Qed.

Lemma T_MessageID_ToCAN_eq m : in_u 32 m -> Translated.MessageID_ToCAN m = Dbc.Ast.msgid_to_can m.
Proof.
  intros H. unfold Translated.MessageID_ToCAN, Dbc.Ast.msgid_to_can.
  rewrite wrap_u_small; [apply andnot_flag31, H |].
  apply go_andnot_range_u; [lia | exact H | apply in_u_lit; reflexivity].
Qed.

(** Validate: [err_nil] = [true] = the model's "valid" *)
Lemma T_MessageID_Validate_eq m : in_u 32 m -> Translated.MessageID_Validate m = Dbc.Ast.msgid_valid m.
Proof.
  intros H. unfold Translated.MessageID_Validate, Dbc.Ast.msgid_valid.
  rewrite T_MessageID_IsExtended_eq, (T_MessageID_ToCAN_eq m H).
  change Dbc.Ast.msgid_independent with 3221225472.
  destruct (m =? 3221225472); [reflexivity |].
  destruct (Dbc.Ast.msgid_is_extended m); cbn [andb negb].
  - rewrite Z.leb_antisym. destruct (536870911 <? Dbc.Ast.msgid_to_can m); reflexivity.
  - rewrite Z.leb_antisym. destruct (2047 <? Dbc.Ast.msgid_to_can m); reflexivity.
Qed.

(* @group dbcvalidate *)
(** ** internal/identifiers/char.go and the Validate methods of pkg/dbc's small enumeration types
       (models: Dbc/Parser.v [is_alpha], [is_num] - the character classes of Dbc/Validate.v's
       [validate_loop] and of [ident_valid] -, Dbc/Lint.v [is_alpha_char], [is_num_char];
       [p_small_enum], [access_type_of], [attr_type_of], [object_type_of] of the parser model:
       the parser accepts the token iff Validate returns nil).  No preconditions. *)
From CanVerif Require Dbc.Ast Dbc.Parser Dbc.Lint.

Lemma T_IsAlphaChar_eq r : Translated.IsAlphaChar r = Dbc.Parser.is_alpha r.
Proof. reflexivity. Qed.
Lemma T_IsAlphaChar_eq' r : Translated.IsAlphaChar r = Dbc.Lint.is_alpha_char r.
Proof. reflexivity. Qed.
Lemma T_IsNumChar_eq r : Translated.IsNumChar r = Dbc.Parser.is_num r.
Proof. reflexivity. Qed.
Lemma T_IsNumChar_eq' r : Translated.IsNumChar r = Dbc.Lint.is_num_char r.
Proof. reflexivity. Qed.

Definition is_some {A : Type} (o : option A) : bool := match o with Some _ => true | None => false end.

Lemma go_string_eqb_bytes_eqb a b : go_string_eqb a b = Dbc.Ast.bytes_eqb a b.
Proof. revert b; induction a as [| x a IH]; intros [| y b]; cbn; auto. Qed.

(** signalValueType / environmentVariableType: [p_small_enum 2] accepts u iff [u <=? 2] (u a uint64) *)
Lemma small_enum_le2 s : 0 <= s ->
  (if s =? 0 then err_nil else if s =? 1 then err_nil else if s =? 2 then err_nil else err_nonnil) = (s <=? 2).
Proof.
  intros H. destruct (Z.eqb_spec s 0) as [-> | ?]; [reflexivity |]. destruct (Z.eqb_spec s 1) as [-> | ?]; [reflexivity |].
  destruct (Z.eqb_spec s 2) as [-> | ?]; [reflexivity |]. unfold err_nonnil. symmetry. apply Z.leb_gt. lia.
Qed.

Lemma T_SignalValueType_Validate_eq s : in_u 64 s -> Translated.SignalValueType_Validate s = (s <=? 2).
Proof. intros [H _]. unfold Translated.SignalValueType_Validate. cbv zeta. apply small_enum_le2, H. Qed.

Lemma T_EnvironmentVariableType_Validate_eq e : in_u 64 e -> Translated.EnvironmentVariableType_Validate e = (e <=? 2).
Proof. intros [H _]. unfold Translated.EnvironmentVariableType_Validate. cbv zeta. apply small_enum_le2, H. Qed.

Lemma T_AccessType_Validate_eq a : Translated.AccessType_Validate a = is_some (Dbc.Parser.access_type_of a).
Proof.
  unfold Translated.AccessType_Validate, Dbc.Parser.access_type_of. cbv zeta. change go_string_eqb with Dbc.Ast.bytes_eqb.
  change [68; 85; 77; 77; 89; 95; 78; 79; 68; 69; 95; 86; 69; 67; 84; 79; 82; 48] with Dbc.Parser.s_ACC0.
  change [68; 85; 77; 77; 89; 95; 78; 79; 68; 69; 95; 86; 69; 67; 84; 79; 82; 49] with Dbc.Parser.s_ACC1.
  change [68; 85; 77; 77; 89; 95; 78; 79; 68; 69; 95; 86; 69; 67; 84; 79; 82; 50] with Dbc.Parser.s_ACC2.
  change [68; 85; 77; 77; 89; 95; 78; 79; 68; 69; 95; 86; 69; 67; 84; 79; 82; 51] with Dbc.Parser.s_ACC3.
  repeat match goal with |- context [Dbc.Ast.bytes_eqb a ?k] => destruct (Dbc.Ast.bytes_eqb a k); [reflexivity |] end.
  reflexivity.
Qed.

Lemma T_AttributeValueType_Validate_eq a : Translated.AttributeValueType_Validate a = is_some (Dbc.Parser.attr_type_of a).
Proof.
  unfold Translated.AttributeValueType_Validate, Dbc.Parser.attr_type_of. cbv zeta. change go_string_eqb with Dbc.Ast.bytes_eqb.
  change [73; 78; 84] with Dbc.Parser.s_INT. change [72; 69; 88] with Dbc.Parser.s_HEX.
  change [70; 76; 79; 65; 84] with Dbc.Parser.s_FLOAT. change [83; 84; 82; 73; 78; 71] with Dbc.Parser.s_STRING.
  change [69; 78; 85; 77] with Dbc.Parser.s_ENUM.
  repeat match goal with |- context [Dbc.Ast.bytes_eqb a ?k] => destruct (Dbc.Ast.bytes_eqb a k); [reflexivity |] end.
  reflexivity.
Qed.

(** ObjectType: "" (no object type token, [optional_object_type]'s first branch) or one of the four keywords *)
Lemma T_ObjectType_Validate_eq o :
  Translated.ObjectType_Validate o = (Dbc.Ast.bytes_eqb o [] || is_some (Dbc.Parser.object_type_of o)).
Proof.
  unfold Translated.ObjectType_Validate, Dbc.Parser.object_type_of. cbv zeta. change go_string_eqb with Dbc.Ast.bytes_eqb.
  change [66; 85; 95] with Dbc.Parser.kw_nodes. change [66; 79; 95] with Dbc.Parser.kw_message.
  change [83; 71; 95] with Dbc.Parser.kw_signal. change [69; 86; 95] with Dbc.Parser.kw_envvar.
  destruct (Dbc.Ast.bytes_eqb o []); [reflexivity |]. cbn [orb].
  repeat match goal with |- context [Dbc.Ast.bytes_eqb o ?k] => destruct (Dbc.Ast.bytes_eqb o k); [reflexivity |] end.
  reflexivity.
Qed.

(** *** pkg/dbc/identifier.go Identifier.Validate  (model: Dbc/Validate.v [validate], proved there to be
    the byte-wise [Parser.ident_valid]).  The loop `for i, r := range id` is [go_range_string]
    (GoSem.v's own UTF-8 decoding); the model decodes with Scanner.v's [utf8_decode].  The two need
    not be compared beyond: an ASCII byte is its own rune, anything else gives a rune >= 128, which
    both sides reject.  The `defer` that rewraps a non-nil error is a no-op on nil-ness. *)
From CanVerif Require Dbc.Scanner Dbc.Validate.

Lemma ident_loop fuel : forall bs i, 0 <= i ->
  match go_range_string_fuel fuel (fun v_i v_r (_ : unit) =>
      if (v_i =? 0) && negb (v_r =? 95) && negb (Translated.IsAlphaChar v_r) then LoopReturn err_nonnil
      else if (0 <? v_i) && negb (v_r =? 95) && negb (Translated.IsAlphaChar v_r) && negb (Translated.IsNumChar v_r)
           then LoopReturn err_nonnil else LoopNext tt) i bs tt with
  | LoopReturn r => r
  | LoopNext _ => err_nil
  end = Dbc.Validate.validate_loop fuel i bs.
Proof.
  induction fuel as [| fuel IH]; intros bs i Hi; [reflexivity |].
  destruct bs as [| b0 t]; [reflexivity |].
  cbn [go_range_string_fuel Dbc.Validate.validate_loop].
  change Translated.IsAlphaChar with Dbc.Parser.is_alpha. change Translated.IsNumChar with Dbc.Parser.is_num.
  destruct (go_utf8_decode_cases b0 t) as [[Hlo Eg] | [Hhi (rg & wg & Eg & Hrg & Hwg)]];
    destruct (Dbc.Validate.decode_cases b0 t) as [[Hlo' Es] | [Hhi' (rs & ws & Es & Hrs)]]; try lia; rewrite Eg, Es.
  - (* ASCII: the same rune, the same step *)
    destruct ((i =? 0) && negb (b0 =? 95) && negb (Dbc.Parser.is_alpha b0)); [reflexivity |].
    destruct ((0 <? i) && negb (b0 =? 95) && negb (Dbc.Parser.is_alpha b0) && negb (Dbc.Parser.is_num b0)); [reflexivity |].
    apply IH. lia.
  - (* not ASCII: both runes are >= 128 and are rejected, at the first position or later *)
    destruct (Dbc.Validate.hi_not_ident rg Hrg) as (-> & -> & ->).
    destruct (Dbc.Validate.hi_not_ident rs Hrs) as (-> & -> & ->).
    cbn [negb andb]. rewrite !andb_true_r.
    destruct (Z.eqb_spec i 0) as [-> | Hne]; [reflexivity |].
    assert (Hp : (0 <? i) = true) by (apply Z.ltb_lt; lia). rewrite Hp. reflexivity.
Qed.

Lemma T_Identifier_Validate_eq id : Translated.Identifier_Validate id = Dbc.Validate.validate id.
Proof.
  unfold Translated.Identifier_Validate, Dbc.Validate.validate, go_range_string.
  change (bytes_len id) with (Dbc.Scanner.blen id).
  destruct (Dbc.Scanner.blen id =? 0); [reflexivity |].
  destruct (128 <? Dbc.Scanner.blen id); [reflexivity |].
  apply ident_loop. lia.
Qed.

(** ... and therefore the byte-wise check the parser model uses *)
Lemma T_Identifier_Validate_eq' id : Translated.Identifier_Validate id = Dbc.Parser.ident_valid id.
Proof. rewrite T_Identifier_Validate_eq. apply Dbc.Validate.validate_bytewise. Qed.

(* @group lookup requires can descriptor *)
(** ** pkg/descriptor: the lookups with loops (fourth round).  database.go Message / Node / Signal,
       message.go MultiplexerSignal, signal.go ValueDescription / UnmarshalValueDescription
       (models: Gen/Message.v [find_message], Gen/Api.v [find_mux], Descriptor/Signal.v
       [value_description], [unmarshal_value_description], Descriptor/Lookup.v [find_node],
       [find_signal], [db_signal]).  A returned [*S] is [option S]: [Some] of the element value. *)
From CanVerif Require Import Descriptor.Types Gen.Message.
From CanVerif Require Gen.Api Descriptor.Lookup.

Definition vd_of (v : value_description) : Translated.ValueDescription :=
  Translated.set_ValueDescription_Description
    (Translated.set_ValueDescription_Value Translated.zero_ValueDescription (vdesc_value v)) (vdesc_text v).
Definition sig_of_l (s : signal) : Translated.Signal :=
  Translated.set_Signal_ValueDescriptions
    (Translated.set_Signal_IsMultiplexer
       (Translated.set_Signal_Name (Translated.set_Signal_IsSigned (sig_of s) (s_signed s)) (s_name s))
       (s_multiplexer s))
    (map vd_of (s_value_descriptions s)).
Definition msg_of (m : message) : Translated.Message :=
  Translated.set_Message_Signals (Translated.set_Message_ID Translated.zero_Message (msg_id m)) (map sig_of_l (msg_signals m)).
Definition node_of (n : node) : Translated.Node := Translated.set_Node_Name Translated.zero_Node (node_name n).
Definition db_of (db : database) : Translated.Database :=
  Translated.set_Database_Nodes
    (Translated.set_Database_Messages Translated.zero_Database (map msg_of (db_messages db)))
    (map node_of (db_nodes db)).

(** (found element, true) / (nil, false) *)
Definition found {A B : Type} (conv : A -> B) (o : option A) : option B * bool :=
  match o with Some x => (Some (conv x), true) | None => (None, false) end.

Lemma go_string_eqb_name_eqb a b : go_string_eqb a b = Lookup.name_eqb a b.
Proof. revert b; induction a as [| x a IH]; intros [| y b]; cbn; auto. Qed.

Lemma T_Database_Message_eq db id :
  Translated.Database_Message (db_of db) id = found msg_of (find_message (db_messages db) id).
Proof.
  unfold Translated.Database_Message.
  change (Translated.Database_Messages (db_of db)) with (map msg_of (db_messages db)).
  generalize 0 as i. induction (db_messages db) as [| m tl IH]; intros i; [reflexivity |].
  cbn [map go_range find_message go_deref].
  change (Translated.Message_ID (msg_of m)) with (msg_id m).
  destruct (msg_id m =? id); [reflexivity | apply IH].
Qed.

Lemma T_Database_Node_eq db name :
  Translated.Database_Node (db_of db) name = found node_of (Lookup.find_node (db_nodes db) name).
Proof.
  unfold Translated.Database_Node.
  change (Translated.Database_Nodes (db_of db)) with (map node_of (db_nodes db)).
  generalize 0 as i. induction (db_nodes db) as [| n tl IH]; intros i; [reflexivity |].
  cbn [map go_range Lookup.find_node go_deref].
  change (Translated.Node_Name (node_of n)) with (node_name n). rewrite go_string_eqb_name_eqb.
  destruct (Lookup.name_eqb (node_name n) name); [reflexivity | apply IH].
Qed.

Lemma find_signal_loop ss name i :
  match go_range (fun (_ : Z) (v_s__ : Translated.Signal) (_ : unit) =>
      let v_s := Some v_s__ in
      if go_string_eqb (Translated.Signal_Name (go_deref Translated.zero_Signal v_s)) name
      then LoopReturn (v_s, true) else LoopNext tt) i (map sig_of_l ss) tt with
  | LoopReturn r => r
  | LoopNext _ => (None, false)
  end = found sig_of_l (Lookup.find_signal ss name).
Proof.
  revert i. induction ss as [| s tl IH]; intros i; [reflexivity |].
  cbn [map go_range Lookup.find_signal go_deref].
  change (Translated.Signal_Name (sig_of_l s)) with (s_name s). rewrite go_string_eqb_name_eqb.
  destruct (Lookup.name_eqb (s_name s) name); [reflexivity | apply IH].
Qed.

Lemma T_Database_Signal_eq db id name :
  Translated.Database_Signal (db_of db) id name = found sig_of_l (Lookup.db_signal db id name).
Proof.
  unfold Translated.Database_Signal, Lookup.db_signal. rewrite T_Database_Message_eq.
  destruct (find_message (db_messages db) id) as [m |]; cbn [found negb go_deref]; [| reflexivity].
  change (Translated.Message_Signals (msg_of m)) with (map sig_of_l (msg_signals m)).
  apply find_signal_loop.
Qed.

Lemma T_Message_MultiplexerSignal_eq m :
  Translated.Message_MultiplexerSignal (msg_of m) = found sig_of_l (Api.find_mux (msg_signals m)).
Proof.
  unfold Translated.Message_MultiplexerSignal.
  change (Translated.Message_Signals (msg_of m)) with (map sig_of_l (msg_signals m)).
  generalize 0 as i. induction (msg_signals m) as [| s tl IH]; intros i; [reflexivity |].
  cbn [map go_range Api.find_mux go_deref].
  change (Translated.Signal_IsMultiplexer (sig_of_l s)) with (s_multiplexer s).
  destruct (s_multiplexer s); [reflexivity | apply IH].
Qed.

(** (description, true) / ("", false) *)
Definition described (o : option bytes) : go_string * bool :=
  match o with Some t => (t, true) | None => ([], false) end.

Lemma T_Signal_ValueDescription_eq s value :
  Translated.Signal_ValueDescription (sig_of_l s) value = described (Descriptor.Signal.value_description (s_value_descriptions s) value).
Proof.
  unfold Translated.Signal_ValueDescription.
  change (Translated.Signal_ValueDescriptions (sig_of_l s)) with (map vd_of (s_value_descriptions s)).
  generalize 0 as i. induction (s_value_descriptions s) as [| v tl IH]; intros i; [reflexivity |].
  cbn [map go_range Descriptor.Signal.value_description go_deref].
  change (Translated.ValueDescription_Value (vd_of v)) with (vdesc_value v).
  change (Translated.ValueDescription_Description (vd_of v)) with (vdesc_text v).
  destruct (vdesc_value v =? value); [reflexivity | apply IH].
Qed.

(** callees on [sig_of_l] (they read only fields that [sig_of] sets) *)
Lemma T_Signal_UnmarshalUnsigned_eq_l s d :
  valid_data d -> Translated.Signal_UnmarshalUnsigned (sig_of_l s) d = unmarshal_unsigned s d.
Proof. exact (T_Signal_UnmarshalUnsigned_eq s d). Qed.
Lemma T_Signal_UnmarshalSigned_eq_l s d :
  valid_data d -> in_u 8 (s_start s) -> Translated.Signal_UnmarshalSigned (sig_of_l s) d = unmarshal_signed s d.
Proof. exact (T_Signal_UnmarshalSigned_eq s d). Qed.

Lemma T_Signal_UnmarshalValueDescription_eq s d :
  valid_data d -> in_u 8 (s_start s) ->
  Translated.Signal_UnmarshalValueDescription (sig_of_l s) d = described (unmarshal_value_description s d).
Proof.
  intros Hd Hs. unfold Translated.Signal_UnmarshalValueDescription, unmarshal_value_description. cbv zeta.
  change (Translated.Signal_ValueDescriptions (sig_of_l s)) with (map vd_of (s_value_descriptions s)).
  change (Translated.Signal_IsSigned (sig_of_l s)) with (s_signed s).
  destruct (s_value_descriptions s) as [| v tl] eqn:E; [reflexivity |].
  replace (list_len (map vd_of (v :: tl)) =? 0) with false
    by (symmetry; apply Z.eqb_neq; unfold list_len; cbn [map length]; lia).
  rewrite <- E. destruct (s_signed s).
  - rewrite T_Signal_UnmarshalSigned_eq_l by assumption. apply T_Signal_ValueDescription_eq.
  - rewrite T_Signal_UnmarshalUnsigned_eq_l by assumption. rewrite T_Signal_ValueDescription_eq.
    rewrite wrap_s64_u; [reflexivity |]. unfold unmarshal_unsigned.
    destruct (s_big_endian s); [apply ubits_be_in_u64 | apply ubits_le_in_u64; destruct Hs; lia].
Qed.

(* @group lintnames requires dbcvalidate *)
(** ** internal/identifiers/case.go IsCamelCase  (model: Dbc/Lint.v [is_camel_case], used by the
       analyzers messagenames / signalnames).  unicode.IsDigit / unicode.IsUpper have no model: the
       hand model takes them as oracles (Section variables), the translated function as its two
       leading parameters; the lemma holds for EVERY pair of functions.  The runes of the string:
       GoSem.v's [go_utf8_decode] against Lint.v's [decode_first] (equal on every non-empty input).
       Precondition: a Go string has fewer than 2^63 bytes (the counter i++ cannot wrap). *)
From CanVerif Require Dbc.Lint.

Lemma decode_first_go b0 t :
  Dbc.Lint.decode_first (b0 :: t) = (fst (go_utf8_decode (b0 :: t)), Z.to_nat (snd (go_utf8_decode (b0 :: t)))).
Proof.
  unfold Dbc.Lint.decode_first, go_utf8_decode, Dbc.Lint.is_cont, utf8_cont, Dbc.Lint.rune_error. cbv zeta.
  repeat match goal with
         | |- context [if ?c then _ else _] => destruct c
         | |- context [match ?l with [] => _ | _ :: _ => _ end] => destruct l
         end; reflexivity.
Qed.

Lemma camel_loop_eq (ud uu : Z -> bool) fuel : forall bs k i,
  0 <= i -> i + Z.of_nat (length bs) < 2 ^ 63 ->
  match go_range_string_fuel fuel (fun (_ : Z) v_r v_i =>
      if ud v_r then LoopNext v_i
      else if ((v_i =? 0) && negb (uu v_r)) || (negb (Translated.IsAlphaChar v_r) && negb (Translated.IsNumChar v_r))
           then LoopReturn false
           else let v_i0 := wrap_s 64 (v_i + 1) in LoopNext v_i0) k bs i with
  | LoopReturn r => r
  | LoopNext _ => true
  end = Dbc.Lint.camel_loop ud uu i (Dbc.Lint.runes_fuel fuel bs).
Proof.
  induction fuel as [| fuel IH]; intros bs k i Hi Hlen; [reflexivity |].
  destruct bs as [| b0 t]; [reflexivity |].
  cbn [go_range_string_fuel Dbc.Lint.runes_fuel]. rewrite decode_first_go.
  pose proof (go_utf8_decode_width b0 t) as Hw.
  destruct (go_utf8_decode (b0 :: t)) as [r w]. cbn [fst snd] in *. cbn [Dbc.Lint.camel_loop].
  change Translated.IsAlphaChar with Dbc.Lint.is_alpha_char. change Translated.IsNumChar with Dbc.Lint.is_num_char.
  assert (Hsk : Z.of_nat (length (skipn (Z.to_nat w) (b0 :: t))) <= Z.of_nat (length (b0 :: t)) - 1)
    by (rewrite skipn_length; cbn [length]; lia).
  cbn [length] in Hlen, Hsk.
  destruct (ud r); [apply IH; lia |].
  destruct (((i =? 0) && negb (uu r)) || (negb (Dbc.Lint.is_alpha_char r) && negb (Dbc.Lint.is_num_char r))); [reflexivity |].
  cbv zeta. rewrite wrap_s_small by (unfold in_s; lia). apply IH; lia.
Qed.

Lemma T_IsCamelCase_eq ud uu s : bytes_len s < 2 ^ 63 ->
  Translated.IsCamelCase ud uu s = Dbc.Lint.is_camel_case ud uu s.
Proof.
  intros H. unfold Translated.IsCamelCase, Dbc.Lint.is_camel_case, Dbc.Lint.utf8_runes, go_range_string. cbv zeta.
  apply camel_loop_eq; [lia | exact H].
Qed.

(* @group frametext *)
(** /repo/frame.go Frame.String / Frame.UnmarshalString and /repo/frame_json.go Frame.JSON against the
    hand models Can/FrameString.v ([to_string], [unmarshal_string]) and Can/FrameJSON.v ([to_json]).
    The translated functions return [option]: [None] = a run-time panic (slice bounds / index out of
    range), which the hand models write [S_panic] / [Panic].  Library readings: Translate/GoSemText.v. *)
From CanVerif Require Import Base.Dec Base.Hex Can.Frame Can.FrameString Can.FrameJSON Translate.GoSemText.

Definition ft_of (f : Frame.frame) : Translated.Frame :=
  {| Translated.Frame_ID := Frame.f_id f; Translated.Frame_Length := Frame.f_len f;
     Translated.Frame_Data := Frame.f_data f; Translated.Frame_IsRemote := Frame.f_remote f;
     Translated.Frame_IsExtended := Frame.f_ext f |}.

(** hand-model results in the translator's vocabulary *)
Definition ft_sres (r : sres) : option go_string :=
  match r with S_ok s => Some s | S_panic => None end.
Definition ft_ures (r : outcome * Frame.frame) : option (Translated.Frame * err) :=
  match r with
  | (Ok, f) => Some (ft_of f, err_nil)
  | (Error, f) => Some (ft_of f, err_nonnil)
  | (Panic, _) => None
  end.

Lemma ft_slice_ok d n : go_slice_ok 0 n 8 = true -> slice_to d n = Some (bytes_slice d 0 n).
Proof.
  unfold go_slice_ok, slice_to, bytes_slice. change (0 <=? 0) with true. cbn [andb]. intros ->.
  change (Z.to_nat 0) with 0%nat. rewrite Nat.sub_0_r. reflexivity.
Qed.
Lemma ft_slice_bad d n : go_slice_ok 0 n 8 = false -> slice_to d n = None.
Proof. unfold go_slice_ok, slice_to. change (0 <=? 0) with true. cbn [andb]. now intros ->. Qed.

(** side condition of the reading of strings.ToUpper (GoSemText.v): its argument in Frame.String is ASCII *)
Lemma hex_encode_ascii bs : Forall (in_u 8) bs -> Forall (fun c => 0 <= c < 128) (hex_encode bs).
Proof.
  unfold hex_encode, in_u. induction 1 as [| v t Hv _ IH]; cbn [flat_map app]; [constructor |].
  assert (0 <= v / 16 < 16) by (split; [apply Z.div_pos | apply Z.div_lt_upper_bound]; lia).
  assert (0 <= v mod 16 < 16) by (apply Z.mod_pos_bound; lia).
  constructor; [| constructor; [| exact IH]]; unfold hexdig_lower;
    match goal with |- context [?a <? 10] => destruct (a <? 10) end; lia.
Qed.

Ltac ft_proj := cbn [Translated.Frame_ID Translated.Frame_Length Translated.Frame_Data
                     Translated.Frame_IsRemote Translated.Frame_IsExtended].

Lemma T_Frame_String_eq f : in_u 32 (f_id f) -> in_u 8 (f_len f) ->
  Translated.Frame_String (ft_of f) = ft_sres (to_string f).
Proof.
  intros Hid Hlen. unfold Translated.Frame_String, to_string, ft_of. ft_proj. unwrap.
  unfold go_string_cat, go_fmt_hex_upper, go_strconv_Itoa, go_strings_ToUpper, go_hex_EncodeToString, ch_hash, ch_R.
  change (Z.to_nat 8) with 8%nat. change (Z.to_nat 3) with 3%nat.
  destruct (go_slice_ok 0 (f_len f) 8) eqn:G; [rewrite (ft_slice_ok _ _ G) | rewrite (ft_slice_bad _ _ G)];
    destruct (f_ext f), (f_remote f), (f_len f =? 0); cbn [andb negb ft_sres]; rewrite <- ?app_assoc; reflexivity.
Qed.

Lemma T_Frame_JSON_eq f : in_u 32 (f_id f) -> in_u 8 (f_len f) ->
  Translated.Frame_JSON (ft_of f) = ft_sres (to_json f).
Proof.
  intros Hid Hlen. unfold Translated.Frame_JSON, to_json, ft_of. ft_proj. unwrap.
  unfold go_string_cat, go_strconv_Itoa, go_hex_EncodeToString,
    lit_open_id, lit_ext_rem_len, lit_rem_len, lit_close, lit_ext_close, lit_data_open, lit_quote, lit_quote_close.
  destruct (go_slice_ok 0 (f_len f) 8) eqn:G; [rewrite (ft_slice_ok _ _ G) | rewrite (ft_slice_bad _ _ G)];
    destruct (f_ext f), (f_remote f), (f_len f =? 0); cbn [andb negb ft_sres]; rewrite <- ?app_assoc; reflexivity.
Qed.

Lemma ft_split_eq s c : go_strings_Split1 s c = split c s.
Proof. induction s as [| x r IH]; cbn; [reflexivity |]. rewrite IH. reflexivity. Qed.

Lemma ft_copy_data src :
  bytes_copy_at (data_zero 8) 0 8 src = copy_data zero_data src.
Proof.
  destruct src as [| a0 [| a1 [| a2 [| a3 [| a4 [| a5 [| a6 [| a7 [| a8 r]]]]]]]]]; reflexivity.
Qed.

Lemma ft_len_nonneg (l : list Z) : 0 <= Z.of_nat (length l).
Proof. lia. Qed.

Lemma T_Frame_UnmarshalString_eq s dst :
  Translated.Frame_UnmarshalString (ft_of dst) s = ft_ures (unmarshal_string s dst).
Proof.
  unfold Translated.Frame_UnmarshalString, unmarshal_string.
  rewrite ft_split_eq. change 35 with ch_hash.
  generalize (split ch_hash s) as parts. intros parts.
  unfold list_len, go_string, go_bytes. destruct (Z.of_nat (length parts) =? 2) eqn:E2; cbn [negb]; [| reflexivity].
  apply Z.eqb_eq in E2.
  destruct parts as [| p0 [| p1 [| p2 r]]]; try (cbn [length] in E2; lia).
  change (Z.of_nat (length [p0; p1])) with 2.
  change (go_index_ok 0 2) with true. change (go_index_ok 1 2) with true. cbn [andb negb].
  change (go_strlist_get [p0; p1] 0) with p0. change (go_strlist_get [p0; p1] 1) with p1.
  cbn [nth_error]. unfold bytes_len, zlen.
  destruct (negb (Z.of_nat (length p0) =? 3) && negb (Z.of_nat (length p0) =? 8)); [reflexivity |].
  unfold go_strconv_ParseUint. destruct (parse_uint p0 16 32) as [id | |]; cbn [negb err_nil err_nonnil]; try reflexivity.
  destruct p1 as [| c0 p1]; [reflexivity |].
  replace (Z.of_nat (length (c0 :: p1)) =? 0) with false by (symmetry; apply Z.eqb_neq; cbn [length]; lia).
  replace (go_index_ok 0 (Z.of_nat (length (c0 :: p1)))) with true
    by (symmetry; unfold go_index_ok; apply andb_true_iff; split; [reflexivity | apply Z.ltb_lt; cbn [length]; lia]).
  cbn [negb nth_error]. change (bytes_get (c0 :: p1) 0) with c0. change 82 with ch_R.
  destruct (c0 =? ch_R).
  - destruct (2 <? Z.of_nat (length (c0 :: p1))); [reflexivity |].
    destruct (Z.of_nat (length (c0 :: p1)) =? 2) eqn:L2; [| reflexivity].
    apply Z.eqb_eq in L2. destruct p1 as [| c1 [| c2 r]]; try (cbn [length] in L2; lia).
    change (go_slice_ok 1 2 (Z.of_nat (length [c0; c1]))) with true. cbn [negb].
    change (bytes_slice [c0; c1] 1 2) with [c1]. change (str_slice [c0; c1] 1 2) with (Some [c1]).
    unfold go_strconv_Atoi. destruct (atoi [c1]); reflexivity.
  - rewrite Z.rem_mod_nonneg by (try apply ft_len_nonneg; lia).
    destruct (16 <? Z.of_nat (length (c0 :: p1))) eqn:L16; [reflexivity |]. cbn [orb].
    destruct (negb (Z.of_nat (length (c0 :: p1)) mod 2 =? 0)); [reflexivity |].
    apply Z.ltb_ge in L16.
    unfold go_hex_DecodeString. destruct (hex_decode (c0 :: p1)) as [dec |]; cbn [negb err_nil err_nonnil]; [| reflexivity].
    assert (Hq : wrap_u 8 (go_div_s 64 (Z.of_nat (length (c0 :: p1))) 2) = (Z.of_nat (length (c0 :: p1)) / 2) mod 256).
    { unfold go_div_s. rewrite Z.quot_div_nonneg by lia.
      assert (0 <= Z.of_nat (length (c0 :: p1)) / 2 <= 8) by (split; [apply Z.div_pos; lia | apply Z.div_le_upper_bound; lia]).
      unfold wrap_s, wrap_u. rewrite (Z.mod_small _ (2 ^ 64)) by lia.
      replace (Z.of_nat (length (c0 :: p1)) / 2 <? 2 ^ (64 - 1)) with true by (symmetry; apply Z.ltb_lt; lia).
      reflexivity. }
    ft_proj. cbn [Translated.set_Frame_Data Translated.set_Frame_Length Translated.set_Frame_ID Translated.set_Frame_IsExtended ft_ures].
    unfold Translated.set_Frame_Length, Translated.set_Frame_ID, Translated.set_Frame_IsExtended, Translated.set_Frame_Data. ft_proj.
    rewrite Hq, ft_copy_data. reflexivity.
Qed.

(** ** UnmarshalJSON after json.Unmarshal (frame_json.go:62-97).  [json.Unmarshal(jsonData, &jf)] is an ORACLE
    parameter of the translated function; the lemma holds for every oracle that, on the zero jsonFrame,
    returns what the hand model's oracle [read_doc] returns: an error ([None]; the contents of jf are then
    irrelevant, the function returns at once) or nil and the five members. *)
Definition jf_of (j : jframe) : Translated.jsonFrame :=
  {| Translated.jsonFrame_ID := j_id j; Translated.jsonFrame_Data := j_data j;
     Translated.jsonFrame_Length := j_length j; Translated.jsonFrame_Extended := j_extended j;
     Translated.jsonFrame_Remote := j_remote j |}.
Definition ft_eres (r : outcome * Frame.frame) : Translated.Frame * err :=
  match r with
  | (Ok, f) => (ft_of f, err_nil)
  | (Error, f) => (ft_of f, err_nonnil)
  | (Panic, f) => (ft_of f, err_nonnil)   (* does not arise: [of_doc_no_panic] *)
  end.
Definition json_oracle_ok (o : go_bytes -> Translated.jsonFrame -> err * Translated.jsonFrame)
    (doc : list Z) (d : option jframe) : Prop :=
  match d with
  | None => fst (o doc Translated.zero_jsonFrame) = err_nonnil
  | Some jf => o doc Translated.zero_jsonFrame = (err_nil, jf_of jf)
  end.

Lemma of_doc_no_panic d dst : fst (of_doc d dst) <> Panic.
Proof.
  destruct d as [[id data len ext rem] |]; cbn; [| discriminate].
  unfold of_jframe; cbn. destruct data as [str |]; [destruct (hex_decode str) |];
    destruct rem as [[|] |]; destruct len; cbn; discriminate.
Qed.

Ltac ft_red :=
  cbn [Translated.Frame_ID Translated.Frame_Length Translated.Frame_Data Translated.Frame_IsRemote
       Translated.Frame_IsExtended Translated.set_Frame_ID Translated.set_Frame_Length Translated.set_Frame_Data
       Translated.set_Frame_IsRemote Translated.set_Frame_IsExtended
       Translated.jsonFrame_ID Translated.jsonFrame_Data Translated.jsonFrame_Length
       Translated.jsonFrame_Extended Translated.jsonFrame_Remote
       go_notnil go_deref negb fst snd err_nil err_nonnil
       j_id j_data j_length j_extended j_remote
       f_id f_len f_data f_remote f_ext set_id set_len set_data set_remote set_ext].

Lemma T_Frame_UnmarshalJSON_eq o doc dst d : json_oracle_ok o doc d ->
  Translated.Frame_UnmarshalJSON o (ft_of dst) doc = ft_eres (of_doc d dst).
Proof.
  unfold json_oracle_ok, Translated.zero_jsonFrame, Translated.Frame_UnmarshalJSON. intros H.
  destruct d as [[id data len ext rem] |].
  - rewrite H. unfold of_doc, of_jframe, jf_of, ft_of, go_hex_DecodeString. ft_red.
    destruct data as [str |]; ft_red; [destruct (hex_decode str) as [dec |]; ft_red |];
      destruct rem as [[|] |]; ft_red; destruct len; ft_red; destruct ext as [[|] |]; ft_red;
      cbn [ft_eres ft_of]; ft_red; rewrite ?ft_copy_data; try reflexivity.
  - destruct (o doc _) as [e j]. cbn [fst] in H. subst e. reflexivity.
Qed.

(** with the model's own oracle: the whole of [unmarshal_json] *)
Lemma T_Frame_UnmarshalJSON_eq' o doc dst : json_oracle_ok o doc (read_doc doc) ->
  Translated.Frame_UnmarshalJSON o (ft_of dst) doc = ft_eres (unmarshal_json doc dst).
Proof. apply T_Frame_UnmarshalJSON_eq. Qed.

(* @group render requires can descriptor physical lookup *)
(** ** the renderings: pkg/canjson/encode.go and pkg/cantext/encode.go (models: Gen/Render.v, Gen/RenderNum.v,
       bytes of a segment list: Gen/RenderSpec.v [render]) *)
From CanVerif Require Import Translate.GoSemText Gen.RenderNum Gen.Render Gen.RenderSpec.

Lemma T_uintToJSON_eq u : Translated.uintToJSON u = uint_to_json u.
Proof. reflexivity. Qed.
Lemma T_intToJSON_eq i : Translated.intToJSON i = int_to_json i.
Proof. reflexivity. Qed.
Lemma T_floatToJSON_eq rF f : Translated.floatToJSON rF f = render_segment rF rF (fun b => b) rF (FloatF (bits_of_f64 f)).
Proof. reflexivity. Qed.

(** the descriptor as the renderers read it: [sig_of_p] (integer + float fields) plus Name, Unit,
    IsMultiplexer and the value descriptions of [sig_of_l] *)
Definition sig_of_r (s : signal) : Translated.Signal :=
  Translated.set_Signal_Unit
    (Translated.set_Signal_ValueDescriptions
       (Translated.set_Signal_IsMultiplexer
          (Translated.set_Signal_Name (sig_of_p s) (s_name s)) (s_multiplexer s))
       (map vd_of (s_value_descriptions s)))
    (s_unit s).

(** callees on [sig_of_r]: they read only fields that [sig_of_p] / [sig_of_l] set to the same values *)
Lemma T_Signal_UnmarshalUnsigned_eq_r s d :
  valid_data d -> Translated.Signal_UnmarshalUnsigned (sig_of_r s) d = unmarshal_unsigned s d.
Proof. exact (T_Signal_UnmarshalUnsigned_eq s d). Qed.
Lemma T_Signal_UnmarshalSigned_eq_r s d :
  valid_data d -> in_u 8 (s_start s) -> Translated.Signal_UnmarshalSigned (sig_of_r s) d = unmarshal_signed s d.
Proof. exact (T_Signal_UnmarshalSigned_eq s d). Qed.
Lemma T_Signal_UnmarshalBool_eq_r s d : Translated.Signal_UnmarshalBool (sig_of_r s) d = unmarshal_bool s d.
Proof. exact (T_Signal_UnmarshalBool_eq s d). Qed.
Lemma T_Signal_ToPhysical_eq_r s value : Translated.Signal_ToPhysical (sig_of_r s) value = to_physical s value.
Proof. exact (T_Signal_ToPhysical_eq s value). Qed.
Lemma T_Signal_UnmarshalPhysical_eq_r s d :
  valid_data d -> in_u 8 (s_start s) -> Translated.Signal_UnmarshalPhysical (sig_of_r s) d = unmarshal_physical s d.
Proof. exact (T_Signal_UnmarshalPhysical_eq s d). Qed.
Lemma T_Signal_ValueDescription_eq_r s value :
  Translated.Signal_ValueDescription (sig_of_r s) value = described (Descriptor.Signal.value_description (s_value_descriptions s) value).
Proof. exact (T_Signal_ValueDescription_eq s value). Qed.
Lemma T_Signal_UnmarshalValueDescription_eq_r s d :
  valid_data d -> in_u 8 (s_start s) ->
  Translated.Signal_UnmarshalValueDescription (sig_of_r s) d = described (unmarshal_value_description s d).
Proof. exact (T_Signal_UnmarshalValueDescription_eq s d). Qed.

(** *** pkg/canjson: signal.set* = json_signal_value.  [rF] = strconv.FormatFloat(., 'f', -1, 64) as a function of
    the bit pattern: ANY function (oracle).  The struct fields the call does not assign keep the value
    they have in the receiver [s0] (Marshal passes a fresh &signal{}: all empty). *)
Definition jsig (rF : Z -> go_string) (s0 : Translated.signal) (s : signal) (v : bytes * f64 * option bytes) : Translated.signal :=
  let '(raw, phys, desc) := v in
  {| Translated.signal_Raw := raw;
     Translated.signal_Physical := rF (bits_of_f64 phys);
     Translated.signal_Unit := s_unit s;
     Translated.signal_Description := match desc with Some t => t | None => Translated.signal_Description s0 end |}.

Lemma T_signal_setUnsignedValue_eq rF s0 v s : in_u 64 v ->
  Translated.signal_setUnsignedValue rF s0 v (sig_of_r s) =
  jsig rF s0 s (uint_to_json v, to_physical s (f64_of_Z v), Descriptor.Signal.value_description (s_value_descriptions s) (i64_of_u64 v)).
Proof.
  intros Hv. unfold Translated.signal_setUnsignedValue, jsig.
  rewrite T_Signal_ValueDescription_eq_r, T_Signal_ToPhysical_eq_r, wrap_s64_u by exact Hv.
  destruct (Descriptor.Signal.value_description _ _); reflexivity.
Qed.

Lemma T_signal_setSignedValue_eq rF s0 v s :
  Translated.signal_setSignedValue rF s0 v (sig_of_r s) =
  jsig rF s0 s (int_to_json v, to_physical s (f64_of_Z v), Descriptor.Signal.value_description (s_value_descriptions s) v).
Proof.
  unfold Translated.signal_setSignedValue, jsig.
  rewrite T_Signal_ValueDescription_eq_r, T_Signal_ToPhysical_eq_r.
  destruct (Descriptor.Signal.value_description _ _); reflexivity.
Qed.

Lemma f64_of_Z_one : go_f64_const 0x3ff0000000000000 = f64_of_Z 1. Proof. exact go_f64_const_one. Qed.
Lemma f64_of_Z_zero : go_f64_const 0 = f64_of_Z 0. Proof. apply go_f64_eq. vm_compute. reflexivity. Qed.

Lemma T_signal_setBoolValue_eq rF s0 (b : bool) s :
  Translated.signal_setBoolValue rF s0 b (sig_of_r s) =
  jsig rF s0 s ((if b then t_one else t_zero), to_physical s (f64_of_Z (if b then 1 else 0)),
                Descriptor.Signal.value_description (s_value_descriptions s) (if b then 1 else 0)).
Proof.
  unfold Translated.signal_setBoolValue, jsig. destruct b;
    rewrite T_Signal_ValueDescription_eq_r, T_Signal_ToPhysical_eq_r, ?f64_of_Z_one, ?f64_of_Z_zero;
    destruct (Descriptor.Signal.value_description _ _); reflexivity.
Qed.

Lemma unmarshal_unsigned_in_u64 s d : in_u 8 (s_start s) -> in_u 64 (unmarshal_unsigned s d).
Proof.
  intros Hs. unfold unmarshal_unsigned. destruct (s_big_endian s);
    [apply ubits_be_in_u64 | apply ubits_le_in_u64; unfold in_u in Hs; lia].
Qed.

(** signal.set (encode.go:48): the three-way switch; [f.Data] is the payload *)
Lemma T_signal_set_eq rF s0 s f : valid_data (Translated.Frame_Data f) -> in_u 8 (s_start s) ->
  Translated.signal_set rF s0 (sig_of_r s) f = jsig rF s0 s (json_signal_value uint_to_json s (Translated.Frame_Data f)).
Proof.
  intros Hd Hs. unfold Translated.signal_set, json_signal_value. cbv zeta.
  change (Translated.Signal_Length (sig_of_r s)) with (s_length s).
  change (Translated.Signal_IsSigned (sig_of_r s)) with (s_signed s).
  destruct (s_length s =? 1).
  - rewrite T_signal_setBoolValue_eq, T_Signal_UnmarshalBool_eq_r.
    destruct (unmarshal_bool s _); reflexivity.
  - destruct (s_signed s).
    + rewrite T_signal_setSignedValue_eq, T_Signal_UnmarshalSigned_eq_r by assumption. reflexivity.
    + rewrite T_Signal_UnmarshalUnsigned_eq_r by assumption.
      rewrite T_signal_setUnsignedValue_eq; [reflexivity |].
      apply unmarshal_unsigned_in_u64; assumption.
Qed.

(** *** pkg/cantext: Append* = the caller's buffer followed by the bytes of the hand model's segment list
    ([RenderSpec.render]).  [rG] = strconv.AppendFloat(., 'g', -1, 64) as a function of the bit pattern: ANY
    function (oracle), the same one on both sides; [rF], [rJ], [rD] do not occur in these renderings. *)
Section RenderText.
Variables (rG rF : Z -> bytes) (rJ : bytes -> bytes) (rD : Z -> bytes).
Notation rnd := (render rG rF rJ rD).

Lemma T_AppendSignalCompact_eq buf s d : valid_data d -> in_u 8 (s_start s) ->
  Translated.AppendSignalCompact rG buf (sig_of_r s) d = buf ++ rnd (text_compact_signal s d).
Proof.
  intros Hd Hs. unfold Translated.AppendSignalCompact, text_compact_signal, physical_bits, go_append.
  rewrite T_Signal_UnmarshalValueDescription_eq_r, T_Signal_UnmarshalBool_eq_r, T_Signal_UnmarshalPhysical_eq_r by assumption.
  change (Translated.Signal_Length (sig_of_r s)) with (s_length s).
  change (Translated.Signal_IsSigned (sig_of_r s)) with (s_signed s).
  change (Translated.Signal_Name (sig_of_r s)) with (s_name s).
  change (Translated.Signal_Unit (sig_of_r s)) with (s_unit s).
  destruct (unmarshal_value_description s d); cbn [described];
    [| destruct (s_length s =? 1); [| destruct (s_signed s)]];
    cbn [render flat_map render_segment app]; rewrite ?app_nil_r, <- ?app_assoc; reflexivity.
Qed.

Lemma T_AppendSignal_eq buf s d : valid_data d -> in_u 8 (s_start s) ->
  Translated.AppendSignal rG buf (sig_of_r s) d = buf ++ rnd (text_signal s d).
Proof.
  intros Hd Hs. unfold Translated.AppendSignal, text_signal, vd_suffix, physical_bits, go_append.
  rewrite T_Signal_UnmarshalValueDescription_eq_r, T_Signal_UnmarshalBool_eq_r, T_Signal_UnmarshalPhysical_eq_r,
    T_Signal_UnmarshalSigned_eq_r, T_Signal_UnmarshalUnsigned_eq_r by assumption.
  change (Translated.Signal_Length (sig_of_r s)) with (s_length s).
  change (Translated.Signal_IsSigned (sig_of_r s)) with (s_signed s).
  change (Translated.Signal_Name (sig_of_r s)) with (s_name s).
  change (Translated.Signal_Unit (sig_of_r s)) with (s_unit s).
  change (wrap_u 64 (unmarshal_signed s d)) with (u64 (unmarshal_signed s d)).
  destruct (s_length s =? 1); [| destruct (s_signed s)];
    destruct (unmarshal_value_description s d); cbn [described];
    cbn [render flat_map render_segment app]; rewrite ?app_nil_r, <- ?app_assoc; reflexivity.
Qed.

(** the message descriptor as the renderers read it: ID, SenderNode, Name and the signals as [sig_of_r] *)
Definition msg_of_r (m : message) : Translated.Message :=
  Translated.set_Message_DelayTime
    (Translated.set_Message_CycleTime
       (Translated.set_Message_Signals
          (Translated.set_Message_Name (Translated.set_Message_SenderNode (msg_of m) (msg_sender m)) (msg_name m))
          (map sig_of_r (msg_signals m)))
       (msg_cycle_time m))
    (msg_delay_time m).

Lemma T_AppendID_eq buf m : in_u 32 (msg_id m) ->
  Translated.AppendID buf (msg_of_r m) = buf ++ rnd (append_id m).
Proof.
  intros Hid. unfold Translated.AppendID, append_id, go_append.
  change (Translated.Message_ID (msg_of_r m)) with (msg_id m).
  rewrite (wrap_u_small 64) by (eapply in_u_mono; [| exact Hid]; lia).
  cbn [render flat_map render_segment app]. rewrite ?app_nil_r, <- ?app_assoc. reflexivity.
Qed.

Lemma T_appendAttributeString_eq buf name v :
  Translated.appendAttributeString buf name v = buf ++ rnd (append_attr name (Lit v)).
Proof.
  unfold Translated.appendAttributeString, append_attr, go_append.
  cbn [render flat_map render_segment app]. rewrite ?app_nil_r, <- ?app_assoc. reflexivity.
Qed.

Lemma T_AppendSender_eq buf m :
  Translated.AppendSender buf (msg_of_r m) = buf ++ rnd (append_attr t_sender (Lit (msg_sender m))).
Proof. unfold Translated.AppendSender. rewrite T_appendAttributeString_eq. reflexivity. Qed.

(** *** the loops.  A parameter [m generated.Message] is the PAIR (value of m.Frame(), value of m.Descriptor());
    [sigs_ok]: the Go field types (Start is a uint8); [len] is an int. *)
Definition sigs_ok (m : message) : Prop := Forall (fun s => in_u 8 (s_start s)) (msg_signals m).

Lemma rnd_app a b : rnd (a ++ b) = rnd a ++ rnd b.
Proof. unfold render. apply flat_map_app. Qed.

Lemma msg_of_r_signals m : Translated.Message_Signals (msg_of_r m) = map sig_of_r (msg_signals m). Proof. reflexivity. Qed.
Lemma msg_of_r_name m : Translated.Message_Name (msg_of_r m) = msg_name m. Proof. reflexivity. Qed.
Lemma rnd_cons_lit b l : rnd (Lit b :: l) = b ++ rnd l. Proof. reflexivity. Qed.
Lemma go_deref_some {A} (z x : A) : go_deref z (Some x) = x. Proof. reflexivity. Qed.
(** (the loops are unrolled with these two equations, not with cbn: the kernel re-checks a cbn step on [go_range] by
    comparing the arguments of the two [go_range] applications first, which unfolds the translated callee) *)
Lemma go_range_cons {A S R : Type} (body : Z -> A -> S -> go_loop S R) i x tl s :
  go_range body i (x :: tl) s = match body i x s with LoopNext s' => go_range body (i + 1) tl s' | LoopReturn r => LoopReturn r end.
Proof. reflexivity. Qed.
Lemma go_range_nil {A S R : Type} (body : Z -> A -> S -> go_loop S R) i s : go_range body i [] s = LoopNext s.
Proof. reflexivity. Qed.

Lemma marshal_range d : valid_data d -> forall l, Forall (fun s => in_u 8 (s_start s)) l -> forall i buf,
  go_range (fun (_ : Z) (s__ : Translated.Signal) (b : go_bytes) =>
              @LoopNext go_bytes go_bytes (Translated.AppendSignal rG (go_append b [10; 9]) (go_deref Translated.zero_Signal (Some s__)) d))
           i (map sig_of_r l) buf
  = LoopNext (buf ++ rnd (flat_map (fun s => Lit t_nl_tab :: text_signal s d) l)).
Proof.
  intros Hd l Hs. induction Hs as [| s tl Hs1 Hs IH]; intros i buf.
  - cbn [map flat_map render]. rewrite go_range_nil, app_nil_r. reflexivity.
  - cbn [map flat_map]. rewrite go_range_cons. cbv beta. rewrite go_deref_some, T_AppendSignal_eq by assumption. rewrite IH.
    rewrite !rnd_app, rnd_cons_lit. unfold go_append. rewrite <- ?app_assoc. reflexivity.
Qed.

Lemma T_cantext_Marshal_eq f m : valid_data (Translated.Frame_Data f) -> sigs_ok m ->
  Translated.cantext_Marshal rG f (msg_of_r m) = rnd (text_multiline_data m (Translated.Frame_Data f)).
Proof.
  intros Hd Hs. unfold Translated.cantext_Marshal, text_multiline_data. cbv zeta.
  rewrite msg_of_r_signals, msg_of_r_name, rnd_cons_lit.
  rewrite marshal_range by assumption. reflexivity.
Qed.

Lemma compact_range d (N : nat) : valid_data d -> forall l, Forall (fun s => in_u 8 (s_start s)) l -> forall k buf,
  (k + length l = N)%nat ->
  go_range (fun (i : Z) (s__ : Translated.Signal) (b : go_bytes) =>
              if negb (i =? Z.of_nat N - 1)
              then @LoopNext go_bytes go_bytes (go_append (Translated.AppendSignalCompact rG b (go_deref Translated.zero_Signal (Some s__)) d) [44; 32])
              else LoopNext (Translated.AppendSignalCompact rG b (go_deref Translated.zero_Signal (Some s__)) d))
           (Z.of_nat k) (map sig_of_r l) buf
  = LoopNext (buf ++ rnd (loop_sep (fun s => text_compact_signal s d) [Lit t_comma_sp] N k l)).
Proof.
  intros Hd l Hs. induction Hs as [| s tl Hs1 Hs IH]; intros k buf Hk.
  - cbn [map loop_sep render flat_map]. rewrite go_range_nil, app_nil_r. reflexivity.
  - cbn [map loop_sep length] in *. rewrite go_range_cons. cbv beta.
    rewrite go_deref_some, T_AppendSignalCompact_eq by assumption.
    replace (Z.of_nat k + 1) with (Z.of_nat (S k)) by lia.
    rewrite !rnd_app.
    destruct (Nat.eqb_spec k (N - 1)) as [E | E]; destruct (Z.eqb_spec (Z.of_nat k) (Z.of_nat N - 1)) as [E' | E']; try lia;
      cbv beta iota delta [negb]; rewrite IH by lia; unfold go_append;
      cbn [render flat_map render_segment]; rewrite ?app_nil_r, <- ?app_assoc; reflexivity.
Qed.

Lemma T_MarshalCompact_eq f m : valid_data (Translated.Frame_Data f) -> sigs_ok m ->
  list_len (msg_signals m) < 2 ^ 63 ->
  Translated.MarshalCompact rG f (msg_of_r m) = rnd (text_compact_data m (Translated.Frame_Data f)).
Proof.
  intros Hd Hs Hlen. unfold Translated.MarshalCompact, text_compact_data. cbv zeta.
  rewrite msg_of_r_signals. unfold list_len in *. rewrite map_length.
  rewrite (wrap_s_small 64) by (unfold in_s; lia).
  rewrite (compact_range _ (length (msg_signals m)) Hd (msg_signals m) Hs 0%nat) by reflexivity.
  rewrite !rnd_app. unfold go_append. cbn [render flat_map render_segment bytes_make Z.to_nat repeat app].
  rewrite ?app_nil_r, <- ?app_assoc. reflexivity.
Qed.

(** time.Duration.String() is the oracle [rD] (nanoseconds -> text), as in the hand model's [GoDuration] segment *)
Lemma T_AppendCycleTime_eq buf m :
  Translated.AppendCycleTime rD buf (msg_of_r m) = buf ++ rnd (append_attr t_cycle_time (GoDuration (msg_cycle_time m))).
Proof.
  unfold Translated.AppendCycleTime, Translated.appendAttributeString, append_attr, go_append.
  cbn [render flat_map render_segment app]. rewrite ?app_nil_r, <- ?app_assoc. reflexivity.
Qed.
Lemma T_AppendDelayTime_eq buf m :
  Translated.AppendDelayTime rD buf (msg_of_r m) = buf ++ rnd (append_attr t_delay_time (GoDuration (msg_delay_time m))).
Proof.
  unfold Translated.AppendDelayTime, Translated.appendAttributeString, append_attr, go_append.
  cbn [render flat_map render_segment app]. rewrite ?app_nil_r, <- ?app_assoc. reflexivity.
Qed.

Lemma T_MessageString_eq f m : valid_data (Translated.Frame_Data f) -> sigs_ok m ->
  list_len (msg_signals m) < 2 ^ 63 ->
  Translated.MessageString rG f (msg_of_r m) = rnd (text_compact_data m (Translated.Frame_Data f)).
Proof. exact (T_MarshalCompact_eq f m). Qed.
End RenderText.
