(** Equiv: the per-run proof obligations of the translation tie.

    [Translated.v] (logical path CanTranslated.Translated) is REGENERATED from /repo's current Go
    source by harness/translate on every run of a check; this file is then re-checked against it.
    For every translated function there is one lemma

        T_<name>_eq : forall <arguments in the range of their Go types>,
                        Translated.<name> args = <hand-written model> args

    so a semantic change of a translated Go function breaks the lemma of that function (or of a
    caller) on that run, for ALL inputs, independently of what the sampled correspondence run
    happens to hit. No axioms, nothing admitted.

    Layout: the text up to the first group marker is the common header; each group
    (marker line: open-comment, "@group <name> [requires <names>]", close-comment) is
    self-contained given the groups it requires. checks/translate_tie.py selects groups, asks the
    translator for exactly the functions named by the T_ lemmas of the selected groups, and compiles
    header + selected groups. This file lives outside coq/theories because it imports a generated
    file; it is compiled in a scratch directory with
        coqc -Q <scratch> CanTranslated -Q coq/theories CanVerif Equiv.v *)
From Coq Require Import ZArith List Bool Lia.
From CanVerif Require Import Translate.GoSem Translate.GoSemProofs.
From CanVerif Require Import Can.Data Can.DataProofs.
From CanTranslated Require Translated.
Import ListNotations.
Open Scope Z_scope.

(** * Common: ranges, and the tactic that removes wraps which cannot wrap *)
Lemma data_get_byte_at d i : data_get d i = byte_at d i.
Proof. reflexivity. Qed.

Lemma byte_at_in_u8 d i : valid_data d -> in_u 8 (byte_at d i).
Proof.
  intros [_ Hf]. unfold byte_at. generalize (Z.to_nat i) as k.
  induction Hf as [| h t Hh Ht IH]; intros [| k]; cbn; auto; try (unfold in_u; cbn; lia).
Qed.

Lemma list_set_set_nth n v d : list_set n v d = set_nth n v d.
Proof. revert n; induction d as [| h t IH]; intros [| n]; cbn; auto; now rewrite IH. Qed.

Lemma in_u_lit w x : (0 <=? x) && (x <? 2 ^ w) = true -> in_u w x.
Proof. unfold in_u. intros H. apply andb_true_iff in H. destruct H as [A B]. apply Z.leb_le in A. apply Z.ltb_lt in B. lia. Qed.

(** [range]: proves [in_u w e] / [in_s w e] for [e] built from the GoSem operators, payload bytes,
    variables with a range hypothesis, and literals *)
Ltac range :=
  lazymatch goal with
  | |- in_u _ (wrap_u _ _) => first [ apply wrap_u_range; lia | widen ]
  | |- in_s _ (wrap_s _ _) => first [ apply wrap_s_range; lia | widen ]
  | |- in_u _ (go_shl_u _ _ _) => first [ apply go_shl_u_range; lia | widen ]
  | |- in_s _ (go_shl_s _ _ _) => first [ apply go_shl_s_range; lia | widen ]
  | |- in_u _ (byte_at _ _) => first [ apply byte_at_in_u8; assumption | widen ]
  | |- in_u _ (data_get _ _) => rewrite data_get_byte_at; range
  | |- in_u _ (go_and _ _) => apply go_and_range_u; [lia | range | range]
  | |- in_u _ (go_or _ _) => apply go_or_range_u; [lia | range | range]
  | |- in_u _ (go_xor _ _) => apply go_xor_range_u; [lia | range | range]
  | |- in_u _ (go_andnot _ _) => apply go_andnot_range_u; [lia | range | range]
  | |- in_u _ (go_not_u _ _) => apply go_not_u_range; range
  | |- in_u _ (go_shr_u _ _ _) => apply go_shr_u_range; [lia | nonneg | range]
  | |- in_u _ (go_div_u _ _) => apply go_div_u_range; [lia | range]
  | |- in_u _ (go_rem_u _ _) => apply go_rem_u_range; [lia | range]
  | |- _ => first [ assumption | widen | apply in_u_lit; reflexivity ]
  end
with widen :=
  first [ eapply in_u_mono; [| eassumption]; lia
        | eapply in_u_mono; [| apply wrap_u_range; lia]; lia
        | eapply in_u_mono; [| apply byte_at_in_u8; assumption]; lia
        | eapply in_s_mono; [| eassumption]; lia
        | eapply in_s_mono; [| apply wrap_s_range; lia]; lia
        | eapply in_u_in_s; [| eassumption]; lia
        | eapply in_u_in_s; [| apply wrap_u_range; lia]; lia ]
with nonneg :=
  match goal with
  | |- 0 <= ?x => first [ lia | assert (in_u 8 x) by range; unfold in_u in *; lia
                        | assert (in_u 64 x) by range; unfold in_u in *; lia ]
  end.

(** [unwrap]: rewrite [wrap_u w e] / [wrap_s w e] to [e] wherever [e] is provably in range *)
Ltac unwrap :=
  repeat match goal with
  | |- context [wrap_u ?w ?e] => rewrite (wrap_u_small w e) by range
  | |- context [wrap_s ?w ?e] => rewrite (wrap_s_small w e) by (try lia; range)
  end.

(* @group can *)
(** ** data.go, internal/reinterpret/reinterpret.go  (models: Can/Data.v) *)

Lemma T_Data_PackLittleEndian_eq d :
  valid_data d -> Translated.Data_PackLittleEndian d = pack_le d.
Proof.
  intros Hd. unfold Translated.Data_PackLittleEndian. cbv zeta.
  rewrite !data_get_byte_at. unwrap. reflexivity.
Qed.

Lemma T_Data_PackBigEndian_eq d :
  valid_data d -> Translated.Data_PackBigEndian d = pack_be d.
Proof.
  intros Hd. unfold Translated.Data_PackBigEndian. cbv zeta.
  rewrite !data_get_byte_at. unwrap. reflexivity.
Qed.
