(** Equiv: the per-run proof obligations of the translation tie.

    [Translated.v] (logical path CanTranslated.Translated) is REGENERATED from /repo's current Go
    source by harness/translate on every run of a check; this file is then re-checked against it.
    For every translated function there is one lemma

        T_<name>_eq : forall <arguments in the range of their Go types>,
                        Translated.<name> args = <hand-written model> args

    so a semantic change of a translated Go function breaks the lemma of that function (or of a
    caller) on that run, for ALL inputs, independently of what the sampled correspondence run
    happens to hit. No axioms, nothing admitted.

    Layout: the text up to the first group marker is the common header; each group
    (marker line: open-comment, "@group <name> [requires <names>]", close-comment) is
    self-contained given the groups it requires. checks/translate_tie.py selects groups, asks the
    translator for exactly the functions named by the T_ lemmas of the selected groups, and compiles
    header + selected groups. This file lives outside coq/theories because it imports a generated
    file; it is compiled in a scratch directory with
        coqc -Q <scratch> CanTranslated -Q coq/theories CanVerif Equiv.v *)
From Coq Require Import ZArith List Bool Lia.
From CanVerif Require Import Translate.GoSem Translate.GoSemProofs.
From CanVerif Require Import Can.Data Can.DataProofs.
From CanTranslated Require Translated.
Import ListNotations.
Open Scope Z_scope.

(** a lemma that no longer holds must FAIL, not make the unifier search for minutes: every sentence
    of this file normally takes well under a second *)
Set Default Timeout 20.

(** * Common: ranges, and the tactic that removes wraps which cannot wrap *)
Lemma data_get_byte_at d i : data_get d i = byte_at d i.
Proof. reflexivity. Qed.

Lemma byte_at_in_u8 d i : valid_data d -> in_u 8 (byte_at d i).
Proof.
  intros [_ Hf]. unfold byte_at. generalize (Z.to_nat i) as k.
  induction Hf as [| h t Hh Ht IH]; intros [| k]; cbn; auto; try (unfold in_u; cbn; lia).
Qed.

Lemma list_set_set_nth n v d : list_set n v d = set_nth n v d.
Proof. revert n; induction d as [| h t IH]; intros [| n]; cbn; auto; now rewrite IH. Qed.

Lemma in_u_lit w x : (0 <=? x) && (x <? 2 ^ w) = true -> in_u w x.
Proof. unfold in_u. intros H. apply andb_true_iff in H. destruct H as [A B]. apply Z.leb_le in A. apply Z.ltb_lt in B. lia. Qed.

(** [range]: proves [in_u w e] / [in_s w e] for [e] built from the GoSem operators, payload bytes,
    variables with a range hypothesis, and literals *)
Ltac range :=
  lazymatch goal with
  | |- in_u _ (wrap_u _ _) => first [ apply wrap_u_range; lia | widen ]
  | |- in_s _ (wrap_s _ _) => first [ apply wrap_s_range; lia | widen ]
  | |- in_u _ (go_shl_u _ _ _) => first [ apply go_shl_u_range; lia | widen ]
  | |- in_s _ (go_shl_s _ _ _) => first [ apply go_shl_s_range; lia | widen ]
  | |- in_u _ (byte_at _ _) => first [ apply byte_at_in_u8; assumption | widen ]
  | |- in_u _ (data_get _ _) => rewrite data_get_byte_at; range
  | |- in_u _ (go_and _ _) => apply go_and_range_u; [lia | range | range]
  | |- in_u _ (go_or _ _) => apply go_or_range_u; [lia | range | range]
  | |- in_u _ (go_xor _ _) => apply go_xor_range_u; [lia | range | range]
  | |- in_u _ (go_andnot _ _) => apply go_andnot_range_u; [lia | range | range]
  | |- in_u _ (go_not_u _ _) => apply go_not_u_range; range
  | |- in_u _ (go_shr_u _ _ _) => apply go_shr_u_range; [lia | nonneg | range]
  | |- in_u _ (go_div_u _ _) => apply go_div_u_range; [lia | range]
  | |- in_u _ (go_rem_u _ _) => apply go_rem_u_range; [lia | range]
  | |- _ => first [ assumption | widen | apply in_u_lit; reflexivity ]
  end
with widen :=
  first [ eapply in_u_mono; [| eassumption]; lia
        | eapply in_u_mono; [| apply wrap_u_range; lia]; lia
        | eapply in_u_mono; [| apply byte_at_in_u8; assumption]; lia
        | eapply in_s_mono; [| eassumption]; lia
        | eapply in_s_mono; [| apply wrap_s_range; lia]; lia
        | eapply in_u_in_s; [| eassumption]; lia
        | eapply in_u_in_s; [| apply wrap_u_range; lia]; lia ]
with nonneg :=
  match goal with
  | |- 0 <= ?x => first [ lia | assert (in_u 8 x) by range; unfold in_u in *; lia
                        | assert (in_u 64 x) by range; unfold in_u in *; lia ]
  end.

(** [unwrap]: rewrite [wrap_u w e] / [wrap_s w e] to [e] wherever [e] is provably in range *)
Ltac unwrap :=
  repeat match goal with
  | |- context [wrap_u ?w ?e] => rewrite (wrap_u_small w e) by range
  | |- context [wrap_s ?w ?e] => rewrite (wrap_s_small w e) by (try lia; range)
  end.

(** [norm]: expose the GoSem operators and the machine arithmetic of Can/Data.v down to the same
    [Z] operations, so that the final [reflexivity] compares (nearly) syntactically equal terms *)
Ltac norm :=
  change data_get with byte_at in *;
  cbv beta zeta delta [go_or go_and go_xor go_andnot go_shl_u go_shl_s go_shr_u go_shr_s
                       go_not_u go_not_s go_div_u go_rem_u go_div_s go_rem_s wrap_u
                       shl64 shr64 sub64 add64 not64 mask64 u8 u16 u64 u64_of_i64 err_nil err_nonnil].

(* @group can *)
(** ** data.go, internal/reinterpret/reinterpret.go  (models: Can/Data.v) *)

Lemma T_Data_PackLittleEndian_eq d :
  valid_data d -> Translated.Data_PackLittleEndian d = pack_le d.
Proof.
  intros Hd. unfold Translated.Data_PackLittleEndian, pack_le. cbv zeta. unwrap. norm. reflexivity.
Qed.

Lemma T_Data_PackBigEndian_eq d :
  valid_data d -> Translated.Data_PackBigEndian d = pack_be d.
Proof.
  intros Hd. unfold Translated.Data_PackBigEndian, pack_be. cbv zeta. unwrap. norm. reflexivity.
Qed.

Lemma T_invertEndian_eq i : Translated.invertEndian i = invert_endian i.
Proof. unfold Translated.invertEndian, invert_endian. norm. reflexivity. Qed.

Lemma T_Data_UnsignedBitsLittleEndian_eq d start length :
  valid_data d ->
  Translated.Data_UnsignedBitsLittleEndian d start length = ubits_le d start length.
Proof.
  intros Hd. unfold Translated.Data_UnsignedBitsLittleEndian, ubits_le. cbv zeta.
  rewrite T_Data_PackLittleEndian_eq by assumption. reflexivity.
Qed.

Lemma T_Data_UnsignedBitsBigEndian_eq d start length :
  valid_data d ->
  Translated.Data_UnsignedBitsBigEndian d start length = ubits_be d start length.
Proof.
  intros Hd. unfold Translated.Data_UnsignedBitsBigEndian, ubits_be. cbv zeta.
  rewrite T_Data_PackBigEndian_eq by assumption. rewrite T_invertEndian_eq. reflexivity.
Qed.

Lemma wrap_s64_u x : in_u 64 x -> wrap_s 64 x = i64_of_u64 x.
Proof. intros H. unfold wrap_s, i64_of_u64. cbv zeta. rewrite Z.mod_small by exact H. reflexivity. Qed.

(** [unwrap] + reinterpretation of in-range uint64 words as int64 *)
Ltac unwrap64 :=
  unwrap;
  repeat match goal with
  | |- context [wrap_s 64 ?e] => rewrite (wrap_s64_u e) by range
  end.

Lemma T_AsSigned_eq unsigned bits :
  in_u 64 unsigned -> Translated.AsSigned unsigned bits = as_signed unsigned bits.
Proof.
  intros Hu. unfold Translated.AsSigned, as_signed. cbv zeta.
  destruct (bits =? 8); [| destruct (bits =? 16); [| destruct (bits =? 32); [| destruct (bits =? 64)]]].
  - rewrite wrap_s_wrap_u. unwrap. reflexivity.
  - rewrite wrap_s_wrap_u. unwrap. reflexivity.
  - rewrite wrap_s_wrap_u. unwrap. reflexivity.
  - unwrap64. reflexivity.
  - unwrap64.
    match goal with |- context [(-1) * ?x] => replace ((-1) * x) with (- x) by lia end.
    norm. reflexivity.
Qed.

Lemma T_AsUnsigned_eq signed bits : Translated.AsUnsigned signed bits = as_unsigned signed bits.
Proof.
  unfold Translated.AsUnsigned, as_unsigned. cbv zeta.
  destruct (bits =? 8); [| destruct (bits =? 16); [| destruct (bits =? 32); [| destruct (bits =? 64)]]].
  - rewrite wrap_u_wrap_s by lia. unwrap. reflexivity.
  - rewrite wrap_u_wrap_s by lia. unwrap. reflexivity.
  - rewrite wrap_u_wrap_s by lia. unwrap. reflexivity.
  - reflexivity.
  - unwrap. norm. reflexivity.
Qed.

Lemma ubits_le_in_u64 d s l : 0 <= s -> in_u 64 (ubits_le d s l).
Proof.
  intros Hs. unfold ubits_le. cbv zeta.
  change (in_u 64 (go_and (go_shr_u 64 (pack_le d) s) (wrap_u 64 (shl64 1 l - 1)))).
  apply go_and_range_u; [lia | | apply wrap_u_range; lia].
  apply go_shr_u_range; [lia | lia | exact (pack_le_range d)].
Qed.

Lemma ubits_be_in_u64 d s l : in_u 64 (ubits_be d s l).
Proof.
  unfold ubits_be. cbv zeta.
  set (lsb := u8 (u8 (invert_endian s - l) + 1)).
  change (in_u 64 (go_and (go_shr_u 64 (pack_be d) lsb) (wrap_u 64 (shl64 1 l - 1)))).
  apply go_and_range_u; [lia | | apply wrap_u_range; lia].
  apply go_shr_u_range; [lia | | exact (pack_be_range d)].
  unfold lsb, u8. apply Z.mod_pos_bound. lia.
Qed.

Lemma T_Data_SignedBitsLittleEndian_eq d start length :
  valid_data d -> in_u 8 start ->
  Translated.Data_SignedBitsLittleEndian d start length = sbits_le d start length.
Proof.
  intros Hd Hs. unfold Translated.Data_SignedBitsLittleEndian, sbits_le. cbv zeta.
  rewrite T_Data_UnsignedBitsLittleEndian_eq by assumption.
  apply T_AsSigned_eq. apply ubits_le_in_u64. unfold in_u in Hs. lia.
Qed.

Lemma T_Data_SignedBitsBigEndian_eq d start length :
  valid_data d ->
  Translated.Data_SignedBitsBigEndian d start length = sbits_be d start length.
Proof.
  intros Hd. unfold Translated.Data_SignedBitsBigEndian, sbits_be. cbv zeta.
  rewrite T_Data_UnsignedBitsBigEndian_eq by assumption.
  apply T_AsSigned_eq. apply ubits_be_in_u64.
Qed.

Lemma T_Data_UnpackLittleEndian_eq d packed :
  valid_data d -> Translated.Data_UnpackLittleEndian d packed = unpack_le packed.
Proof.
  intros Hd. destruct (valid_data_inv d Hd) as (b0 & b1 & b2 & b3 & b4 & b5 & b6 & b7 & -> & _).
  unfold Translated.Data_UnpackLittleEndian, unpack_le. cbv zeta.
  unfold data_set. simpl (Z.to_nat _). cbn [list_set map]. norm. reflexivity.
Qed.

Lemma T_Data_UnpackBigEndian_eq d packed :
  valid_data d -> Translated.Data_UnpackBigEndian d packed = unpack_be packed.
Proof.
  intros Hd. destruct (valid_data_inv d Hd) as (b0 & b1 & b2 & b3 & b4 & b5 & b6 & b7 & -> & _).
  unfold Translated.Data_UnpackBigEndian, unpack_be. cbv zeta.
  unfold data_set. simpl (Z.to_nat _). cbn [list_set map]. norm. reflexivity.
Qed.

Lemma T_Data_SetUnsignedBitsLittleEndian_eq d start length value :
  valid_data d ->
  Translated.Data_SetUnsignedBitsLittleEndian d start length value = set_ubits_le d start length value.
Proof.
  intros Hd. unfold Translated.Data_SetUnsignedBitsLittleEndian, set_ubits_le. cbv zeta.
  rewrite T_Data_UnpackLittleEndian_eq, T_Data_PackLittleEndian_eq by assumption.
  unwrap. norm. reflexivity.
Qed.

Lemma T_Data_SetUnsignedBitsBigEndian_eq d start length value :
  valid_data d ->
  Translated.Data_SetUnsignedBitsBigEndian d start length value = set_ubits_be d start length value.
Proof.
  intros Hd. unfold Translated.Data_SetUnsignedBitsBigEndian, set_ubits_be. cbv zeta.
  rewrite T_Data_UnpackBigEndian_eq, T_Data_PackBigEndian_eq, T_invertEndian_eq by assumption.
  unwrap. norm. reflexivity.
Qed.

Lemma T_Data_SetSignedBitsLittleEndian_eq d start length value :
  valid_data d ->
  Translated.Data_SetSignedBitsLittleEndian d start length value = set_sbits_le d start length value.
Proof.
  intros Hd. unfold Translated.Data_SetSignedBitsLittleEndian, set_sbits_le. cbv zeta.
  rewrite T_AsUnsigned_eq. rewrite T_Data_SetUnsignedBitsLittleEndian_eq by assumption. reflexivity.
Qed.

Lemma T_Data_SetSignedBitsBigEndian_eq d start length value :
  valid_data d ->
  Translated.Data_SetSignedBitsBigEndian d start length value = set_sbits_be d start length value.
Proof.
  intros Hd. unfold Translated.Data_SetSignedBitsBigEndian, set_sbits_be. cbv zeta.
  rewrite T_AsUnsigned_eq. rewrite T_Data_SetUnsignedBitsBigEndian_eq by assumption. reflexivity.
Qed.

(** [1 << (i % 8)] evaluated in uint8: the count is below the width, the result is wrapped once *)
Lemma shl8_bit i : wrap_u 8 (go_shl_u 8 1 (i mod 8)) = u8 (Z.shiftl 1 (i mod 8)).
Proof.
  unfold go_shl_u. pose proof (Z.mod_pos_bound i 8 ltac:(lia)) as H.
  destruct (Z.ltb_spec (i mod 8) 8); [| lia]. rewrite wrap_u_idem. reflexivity.
Qed.

Lemma T_Data_Bit_eq d i : Translated.Data_Bit d i = bit d i.
Proof.
  unfold Translated.Data_Bit, bit. cbv zeta. unfold go_rem_u. rewrite shl8_bit. reflexivity.
Qed.

Lemma T_Data_SetBit_eq d i value : Translated.Data_SetBit d i value = set_bit d i value.
Proof.
  unfold Translated.Data_SetBit, set_bit. cbv zeta. unfold go_rem_u. rewrite !shl8_bit.
  unfold data_set. rewrite !list_set_set_nth. norm. reflexivity.
Qed.

Lemma T_CheckBitRangeLittleEndian_eq frameLength rangeStart rangeLength :
  in_u 8 frameLength -> in_u 8 rangeStart -> in_u 8 rangeLength ->
  Translated.CheckBitRangeLittleEndian frameLength rangeStart rangeLength
  = check_le frameLength rangeStart rangeLength.
Proof.
  intros Hf Hs Hl. unfold Translated.CheckBitRangeLittleEndian, check_le. cbv zeta.
  rewrite (wrap_u_small 16 frameLength), (wrap_u_small 16 rangeStart), (wrap_u_small 16 rangeLength) by range.
  norm. destruct (_ <=? _); reflexivity.
Qed.

Lemma T_CheckBitRangeBigEndian_eq frameLength rangeStart rangeLength :
  Translated.CheckBitRangeBigEndian frameLength rangeStart rangeLength
  = check_be frameLength rangeStart rangeLength.
Proof.
  unfold Translated.CheckBitRangeBigEndian, check_be. cbv zeta. rewrite !T_invertEndian_eq.
  norm. repeat (destruct (_ <=? _) || destruct (_ <? _)); reflexivity.
Qed.

Lemma T_CheckValue_eq value bits :
  Translated.CheckValue value bits = check_value value bits.
Proof.
  unfold Translated.CheckValue, check_value. cbv zeta. unwrap. norm.
  destruct (Z.leb_spec 64 bits), (Z.ltb_spec bits 64); try lia; reflexivity.
Qed.

(* @group descriptor requires can *)
(** ** pkg/descriptor/signal.go, integer part  (models: Descriptor/Signal.v) *)
From CanVerif Require Import Descriptor.Signal.

(** the Go struct as the translator sees it (only the fields the translated methods read) *)
Definition sig_of (s : signal) : Translated.Signal :=
  {| Translated.Signal_Start := s_start s;
     Translated.Signal_Length := s_length s;
     Translated.Signal_IsBigEndian := s_big_endian s |}.

Lemma T_Signal_MaxUnsigned_eq s : Translated.Signal_MaxUnsigned (sig_of s) = max_unsigned s.
Proof. reflexivity. Qed.

Lemma T_Signal_MinSigned_eq s : Translated.Signal_MinSigned (sig_of s) = min_signed s.
Proof. reflexivity. Qed.

Lemma T_Signal_MaxSigned_eq s : Translated.Signal_MaxSigned (sig_of s) = max_signed s.
Proof. reflexivity. Qed.

Lemma T_Signal_SaturatedCastSigned_eq s value :
  Translated.Signal_SaturatedCastSigned (sig_of s) value = saturated_cast_signed s value.
Proof.
  unfold Translated.Signal_SaturatedCastSigned, saturated_cast_signed, saturated_cast_signed_l. cbv zeta.
  rewrite T_Signal_MinSigned_eq, T_Signal_MaxSigned_eq. reflexivity.
Qed.

Lemma T_Signal_SaturatedCastUnsigned_eq s value :
  Translated.Signal_SaturatedCastUnsigned (sig_of s) value = saturated_cast_unsigned s value.
Proof.
  unfold Translated.Signal_SaturatedCastUnsigned, saturated_cast_unsigned, saturated_cast_unsigned_l. cbv zeta.
  rewrite T_Signal_MaxUnsigned_eq. reflexivity.
Qed.

Lemma T_Signal_UnmarshalUnsigned_eq s d :
  valid_data d -> Translated.Signal_UnmarshalUnsigned (sig_of s) d = unmarshal_unsigned s d.
Proof.
  intros Hd. unfold Translated.Signal_UnmarshalUnsigned, unmarshal_unsigned. cbn [sig_of Translated.Signal_IsBigEndian Translated.Signal_Start Translated.Signal_Length].
  destruct (s_big_endian s).
  - rewrite T_Data_UnsignedBitsBigEndian_eq by assumption. reflexivity.
  - rewrite T_Data_UnsignedBitsLittleEndian_eq by assumption. reflexivity.
Qed.

Lemma T_Signal_UnmarshalSigned_eq s d :
  valid_data d -> in_u 8 (s_start s) ->
  Translated.Signal_UnmarshalSigned (sig_of s) d = unmarshal_signed s d.
Proof.
  intros Hd Hs. unfold Translated.Signal_UnmarshalSigned, unmarshal_signed. cbn [sig_of Translated.Signal_IsBigEndian Translated.Signal_Start Translated.Signal_Length].
  destruct (s_big_endian s).
  - rewrite T_Data_SignedBitsBigEndian_eq by assumption. reflexivity.
  - rewrite T_Data_SignedBitsLittleEndian_eq by assumption. reflexivity.
Qed.

Lemma T_Signal_UnmarshalBool_eq s d : Translated.Signal_UnmarshalBool (sig_of s) d = unmarshal_bool s d.
Proof. unfold Translated.Signal_UnmarshalBool, unmarshal_bool. rewrite T_Data_Bit_eq. reflexivity. Qed.

Lemma T_Signal_MarshalUnsigned_eq s d value :
  valid_data d -> Translated.Signal_MarshalUnsigned (sig_of s) d value = marshal_unsigned s d value.
Proof.
  intros Hd. unfold Translated.Signal_MarshalUnsigned, marshal_unsigned. cbv zeta. cbn [sig_of Translated.Signal_IsBigEndian Translated.Signal_Start Translated.Signal_Length].
  destruct (s_big_endian s).
  - rewrite T_Data_SetUnsignedBitsBigEndian_eq by assumption. reflexivity.
  - rewrite T_Data_SetUnsignedBitsLittleEndian_eq by assumption. reflexivity.
Qed.

Lemma T_Signal_MarshalSigned_eq s d value :
  valid_data d -> Translated.Signal_MarshalSigned (sig_of s) d value = marshal_signed s d value.
Proof.
  intros Hd. unfold Translated.Signal_MarshalSigned, marshal_signed. cbv zeta. cbn [sig_of Translated.Signal_IsBigEndian Translated.Signal_Start Translated.Signal_Length].
  destruct (s_big_endian s).
  - rewrite T_Data_SetSignedBitsBigEndian_eq by assumption. reflexivity.
  - rewrite T_Data_SetSignedBitsLittleEndian_eq by assumption. reflexivity.
Qed.

Lemma T_Signal_MarshalBool_eq s d value :
  Translated.Signal_MarshalBool (sig_of s) d value = marshal_bool s d value.
Proof. unfold Translated.Signal_MarshalBool, marshal_bool. cbv zeta. rewrite T_Data_SetBit_eq. reflexivity. Qed.

(* @group wire *)
(** ** frame.go Validate, pkg/socketcan/frame.go  (models: Socketcan/Wire.v, Can/Frame.v) *)
From CanVerif Require Socketcan.Wire Can.Frame.

Definition fr_of (f : Wire.frame) : Translated.Frame :=
  {| Translated.Frame_ID := Wire.fid f; Translated.Frame_Length := Wire.flen f;
     Translated.Frame_Data := Wire.fdata f; Translated.Frame_IsRemote := Wire.fremote f;
     Translated.Frame_IsExtended := Wire.fext f |}.
Definition fr_of' (f : Frame.frame) : Translated.Frame :=
  {| Translated.Frame_ID := Frame.f_id f; Translated.Frame_Length := Frame.f_len f;
     Translated.Frame_Data := Frame.f_data f; Translated.Frame_IsRemote := Frame.f_remote f;
     Translated.Frame_IsExtended := Frame.f_ext f |}.
Definition sc_of (f : Wire.scframe) : Translated.frame :=
  {| Translated.frame_idAndFlags := Wire.idflags f; Translated.frame_dataLengthCode := Wire.dlc f;
     Translated.frame_data := Wire.scdata f |}.

Lemma T_Frame_Validate_eq f : Translated.Frame_Validate (fr_of f) = Wire.validate f.
Proof. reflexivity. Qed.

(** the same Go function against the second hand model of it (Can/Frame.v, used by C15/C16) *)
Lemma T_Frame_Validate_eq' f : Translated.Frame_Validate (fr_of' f) = Frame.validate f.
Proof. reflexivity. Qed.

Lemma T_frame_isExtended_eq f : Translated.frame_isExtended (sc_of f) = Wire.is_extended f.
Proof. reflexivity. Qed.

Lemma T_frame_isRemote_eq f : Translated.frame_isRemote (sc_of f) = Wire.is_remote f.
Proof. reflexivity. Qed.

Lemma T_frame_isError_eq f : Translated.frame_isError (sc_of f) = Wire.is_error f.
Proof. reflexivity. Qed.

Lemma T_frame_id_eq f : Translated.frame_id (sc_of f) = Wire.sc_id f.
Proof. reflexivity. Qed.

(** encodeFrame overwrites every field of the receiver, whatever it held before ([f0]) *)
Lemma T_frame_encodeFrame_eq f0 cf :
  Translated.frame_encodeFrame (sc_of f0) (fr_of cf) = sc_of (Wire.encode_frame cf).
Proof.
  unfold Translated.frame_encodeFrame, Wire.encode_frame. cbv zeta.
  destruct cf as [id len dat rem ext]. destruct rem, ext; reflexivity.
Qed.

Lemma T_frame_decodeFrame_eq f : Translated.frame_decodeFrame (sc_of f) = fr_of (Wire.decode_frame f).
Proof. reflexivity. Qed.
