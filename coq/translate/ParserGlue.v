(** HAND-WRITTEN glue between the records generated from the Go structs (ParserTypes.v, regenerated on
    every run) and the data of Dbc/Ast.v; the partial string operations the translated code uses.
    Compiled after ParserTypes.v and before ParserTranslated.v on every run of the parser tie. This file
    is where the correspondence "Go field <-> model field" is STATED (the *_to_* functions); it is
    part of the trusted reading, like the dump format of the differential run. *)
From Coq Require Import ZArith List Bool.
From CanVerif Require Import Dbc.Ast Dbc.Scanner Dbc.DecFloat Dbc.Parser.
From CanTranslated Require Import ParserTypes.
Import ListNotations.
Open Scope Z_scope.

(** s[i] / s[i:] on a Go string: run-time panic outside the bounds = None *)
Definition str_index (s : bytes) (i : Z) : option Z :=
  if i <? 0 then None else nth_error s (Z.to_nat i).
Fixpoint drop (n : nat) (s : bytes) : option bytes :=
  match n with O => Some s | S n' => match s with [] => None | _ :: t => drop n' t end end.
Definition str_from (s : bytes) (i : Z) : option bytes :=
  if i <? 0 then None else drop (Z.to_nat i) s.   (* None iff i > len(s) *)
Definition lift_opt {A} (o : option A) : M A :=
  match o with Some a => ret a | None => panic end.
(** uint64(i) for an int i *)
Definition to_uint64 (i : Z) : Z := i mod 2 ^ 64.
(** int64(u) of a uint64 (wrap-around) *)
Definition to_int64 (u : Z) : Z := if u <? two63 then u else u - two64.
(** order of two non-NaN float64 values on their bit patterns: sign-magnitude -> a monotone key (-0 = +0) *)
Definition b64_key (x : Z) : Z := if x <? two63 then x else two63 - x.
Definition b64_le (a b : Z) : bool := b64_key a <=? b64_key b.
Definition b64_lt (a b : Z) : bool := b64_key a <? b64_key b.
(** int64(f): truncation toward zero; outside the int64 range (amd64 CVTTSD2SQ) MinInt64 *)
Definition b64_to_int64 (x : Z) : Z :=
  if x <? two63 then (if bits_two63 <=? x then - two63 else b64_trunc x)
  else (if bits_two63 <? x - two63 then - two63 else - b64_trunc (x - two63)).
Definition zero_token : token := {| t_typ := 0; t_pos := zero_position; t_txt := [] |}.

(** the final receiver value read as a definition: Parse appends the pointer it handed to parseFrom *)
Definition run_as {T} (to_def : T -> def) (m : M T) : M def := bind m (fun d => ret (to_def d)).

(** ------------------------------------------------------------------ Go struct -> Ast *)
Definition ValueDescriptionDef_to (d : ValueDescriptionDef) : value_description_def :=
  {| vd_pos := ValueDescriptionDef_Pos d; vd_value := ValueDescriptionDef_Value d;
     vd_description := ValueDescriptionDef_Description d |}.

Definition SignalDef_to (d : SignalDef) : signal_def :=
  {| sg_pos := SignalDef_Pos d; sg_name := SignalDef_Name d; sg_start := SignalDef_StartBit d;
     sg_size := SignalDef_Size d; sg_big_endian := SignalDef_IsBigEndian d; sg_signed := SignalDef_IsSigned d;
     sg_mux_switch := SignalDef_IsMultiplexerSwitch d; sg_multiplexed := SignalDef_IsMultiplexed d;
     sg_mux_value := SignalDef_MultiplexerSwitch d; sg_offset := SignalDef_Offset d;
     sg_factor := SignalDef_Factor d; sg_min := SignalDef_Minimum d; sg_max := SignalDef_Maximum d;
     sg_unit := SignalDef_Unit d; sg_receivers := SignalDef_Receivers d |}.

Definition AttributeDef_to (d : AttributeDef) : attribute_def :=
  {| ad_pos := AttributeDef_Pos d; ad_object := AttributeDef_ObjectType d; ad_name := AttributeDef_Name d;
     ad_type := AttributeDef_Type d; ad_min_int := AttributeDef_MinimumInt d; ad_max_int := AttributeDef_MaximumInt d;
     ad_min_float := AttributeDef_MinimumFloat d; ad_max_float := AttributeDef_MaximumFloat d;
     ad_enum_values := AttributeDef_EnumValues d |}.

(** the other direction, for the type assertion of prevDef to a pointer to AttributeDef over p.defs (a list of Ast definitions) *)
Definition AttributeDef_of (a : attribute_def) : AttributeDef :=
  {| AttributeDef_Pos := ad_pos a; AttributeDef_ObjectType := ad_object a; AttributeDef_Name := ad_name a;
     AttributeDef_Type := ad_type a; AttributeDef_MinimumInt := ad_min_int a; AttributeDef_MaximumInt := ad_max_int a;
     AttributeDef_MinimumFloat := ad_min_float a; AttributeDef_MaximumFloat := ad_max_float a;
     AttributeDef_EnumValues := ad_enum_values a |}.
Definition as_AttributeDef (x : def) : option AttributeDef :=
  match x with DAttribute a => Some (AttributeDef_of a) | _ => None end.

Definition VersionDef_to_def (d : VersionDef) : def := DVersion (VersionDef_Pos d) (VersionDef_Version d).
Definition NewSymbolsDef_to_def (d : NewSymbolsDef) : def := DNewSymbols (NewSymbolsDef_Pos d) (NewSymbolsDef_Symbols d).
Definition BitTimingDef_to_def (d : BitTimingDef) : def :=
  DBitTiming (BitTimingDef_Pos d) (BitTimingDef_BaudRate d) (BitTimingDef_BTR1 d) (BitTimingDef_BTR2 d).
Definition NodesDef_to_def (d : NodesDef) : def := DNodes (NodesDef_Pos d) (NodesDef_NodeNames d).
Definition ValueTableDef_to_def (d : ValueTableDef) : def :=
  DValueTable (ValueTableDef_Pos d) (ValueTableDef_TableName d) (map ValueDescriptionDef_to (ValueTableDef_ValueDescriptions d)).
Definition MessageDef_to_def (d : MessageDef) : def :=
  DMessage {| m_pos := MessageDef_Pos d; m_id := MessageDef_MessageID d; m_name := MessageDef_Name d;
              m_size := MessageDef_Size d; m_transmitter := MessageDef_Transmitter d;
              m_signals := map SignalDef_to (MessageDef_Signals d) |}.
Definition SignalDef_to_def (d : SignalDef) : def := DSignal (SignalDef_to d).
Definition SignalValueTypeDef_to_def (d : SignalValueTypeDef) : def :=
  DSignalValueType (SignalValueTypeDef_Pos d) (SignalValueTypeDef_MessageID d) (SignalValueTypeDef_SignalName d)
                   (SignalValueTypeDef_SignalValueType d).
Definition MessageTransmittersDef_to_def (d : MessageTransmittersDef) : def :=
  DMessageTransmitters (MessageTransmittersDef_Pos d) (MessageTransmittersDef_MessageID d) (MessageTransmittersDef_Transmitters d).
Definition ValueDescriptionsDef_to_def (d : ValueDescriptionsDef) : def :=
  DValueDescriptions {| vs_pos := ValueDescriptionsDef_Pos d; vs_object := ValueDescriptionsDef_ObjectType d;
                        vs_message_id := ValueDescriptionsDef_MessageID d; vs_signal := ValueDescriptionsDef_SignalName d;
                        vs_envvar := ValueDescriptionsDef_EnvironmentVariableName d;
                        vs_values := map ValueDescriptionDef_to (ValueDescriptionsDef_ValueDescriptions d) |}.
Definition EnvironmentVariableDef_to_def (d : EnvironmentVariableDef) : def :=
  DEnvVar {| ev_pos := EnvironmentVariableDef_Pos d; ev_name := EnvironmentVariableDef_Name d;
             ev_type := EnvironmentVariableDef_Type d; ev_min := EnvironmentVariableDef_Minimum d;
             ev_max := EnvironmentVariableDef_Maximum d; ev_unit := EnvironmentVariableDef_Unit d;
             ev_initial := EnvironmentVariableDef_InitialValue d; ev_id := EnvironmentVariableDef_ID d;
             ev_access := EnvironmentVariableDef_AccessType d; ev_access_nodes := EnvironmentVariableDef_AccessNodes d |}.
Definition EnvironmentVariableDataDef_to_def (d : EnvironmentVariableDataDef) : def :=
  DEnvVarData (EnvironmentVariableDataDef_Pos d) (EnvironmentVariableDataDef_EnvironmentVariableName d)
              (EnvironmentVariableDataDef_DataSize d).
Definition CommentDef_to_def (d : CommentDef) : def :=
  DComment {| cm_pos := CommentDef_Pos d; cm_object := CommentDef_ObjectType d; cm_node := CommentDef_NodeName d;
              cm_message_id := CommentDef_MessageID d; cm_signal := CommentDef_SignalName d;
              cm_envvar := CommentDef_EnvironmentVariableName d; cm_comment := CommentDef_Comment d |}.
Definition AttributeDef_to_def (d : AttributeDef) : def := DAttribute (AttributeDef_to d).
Definition AttributeDefaultValueDef_to_def (d : AttributeDefaultValueDef) : def :=
  DAttributeDefault {| dd_pos := AttributeDefaultValueDef_Pos d; dd_name := AttributeDefaultValueDef_AttributeName d;
                       dd_int := AttributeDefaultValueDef_DefaultIntValue d;
                       dd_float := AttributeDefaultValueDef_DefaultFloatValue d;
                       dd_string := AttributeDefaultValueDef_DefaultStringValue d |}.
Definition AttributeValueForObjectDef_to_def (d : AttributeValueForObjectDef) : def :=
  DAttributeValue {| av_pos := AttributeValueForObjectDef_Pos d; av_name := AttributeValueForObjectDef_AttributeName d;
                     av_object := AttributeValueForObjectDef_ObjectType d;
                     av_message_id := AttributeValueForObjectDef_MessageID d;
                     av_signal := AttributeValueForObjectDef_SignalName d; av_node := AttributeValueForObjectDef_NodeName d;
                     av_envvar := AttributeValueForObjectDef_EnvironmentVariableName d;
                     av_int := AttributeValueForObjectDef_IntValue d; av_float := AttributeValueForObjectDef_FloatValue d;
                     av_string := AttributeValueForObjectDef_StringValue d |}.
Definition UnknownDef_to_def (d : UnknownDef) : def := DUnknown (UnknownDef_Pos d) (UnknownDef_Keyword d).
