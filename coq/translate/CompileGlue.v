(** HAND-WRITTEN glue of the translation tie for the DBC compiler (stage compile_tie of C05; DESIGN 9.6
    "Translation tie for the DBC compiler"). harness/compiletrans prints the code of
    internal/generate/compile.go with the NAMES defined here: [T_F] (read field F of Go struct T),
    [T_set_F] (functional update), [T_zero] (zero value), [as_T] (type switch case *dbc.T over a
    dbc.Def), the lookups [Database_Node/Message/Signal] with their write-backs [Database_store_*],
    conversions [conv_<from>_<to>], callees that are not translated. This file is where
    "Go field <-> model field" and the pointer reading are STATED; it is trusted like ParserGlue.v.
    Compiled before CompileTranslated.v on every run. DEFINITIONS ONLY. *)
From Coq Require Import ZArith List Bool.
From CanVerif Require Import Dbc.Ast Descriptor.Types Descriptor.Lookup Gen.Message Dbc.Compile.
Import ListNotations.
Open Scope Z_scope.

(** the compiler value: c.db and c.warnings (c.defs is the list the loops range over, never written).
    A warning &compileError{def, reason} is kept as (kind of the reason text, position of def). *)
Definition cstate : Type := (database * list warning)%type.
Definition Def_Position (d : def) : position := def_pos d.

(** descriptor.Signal *)
Definition Signal_zero : signal := {| s_name := []; s_start := 0; s_length := 0; s_big_endian := false; s_signed := false; s_float := false; s_multiplexer := false; s_multiplexed := false; s_mux_value := 0; s_offset := 0; s_scale := 0; s_min := 0; s_max := 0; s_unit := []; s_description := []; s_value_descriptions := []; s_receivers := []; s_default := 0 |}.
Definition Signal_Name (x : signal) := s_name x.
Definition Signal_Start (x : signal) := s_start x.
Definition Signal_Length (x : signal) := s_length x.
Definition Signal_IsBigEndian (x : signal) := s_big_endian x.
Definition Signal_IsSigned (x : signal) := s_signed x.
Definition Signal_IsFloat (x : signal) := s_float x.
Definition Signal_IsMultiplexer (x : signal) := s_multiplexer x.
Definition Signal_IsMultiplexed (x : signal) := s_multiplexed x.
Definition Signal_MultiplexerValue (x : signal) := s_mux_value x.
Definition Signal_Offset (x : signal) := s_offset x.
Definition Signal_Scale (x : signal) := s_scale x.
Definition Signal_Min (x : signal) := s_min x.
Definition Signal_Max (x : signal) := s_max x.
Definition Signal_Unit (x : signal) := s_unit x.
Definition Signal_Description (x : signal) := s_description x.
Definition Signal_ValueDescriptions (x : signal) := s_value_descriptions x.
Definition Signal_ReceiverNodes (x : signal) := s_receivers x.
Definition Signal_DefaultValue (x : signal) := s_default x.
Definition Signal_set_Name (x : signal) v : signal := {| s_name := v; s_start := s_start x; s_length := s_length x; s_big_endian := s_big_endian x; s_signed := s_signed x; s_float := s_float x; s_multiplexer := s_multiplexer x; s_multiplexed := s_multiplexed x; s_mux_value := s_mux_value x; s_offset := s_offset x; s_scale := s_scale x; s_min := s_min x; s_max := s_max x; s_unit := s_unit x; s_description := s_description x; s_value_descriptions := s_value_descriptions x; s_receivers := s_receivers x; s_default := s_default x |}.
Definition Signal_set_Start (x : signal) v : signal := {| s_name := s_name x; s_start := v; s_length := s_length x; s_big_endian := s_big_endian x; s_signed := s_signed x; s_float := s_float x; s_multiplexer := s_multiplexer x; s_multiplexed := s_multiplexed x; s_mux_value := s_mux_value x; s_offset := s_offset x; s_scale := s_scale x; s_min := s_min x; s_max := s_max x; s_unit := s_unit x; s_description := s_description x; s_value_descriptions := s_value_descriptions x; s_receivers := s_receivers x; s_default := s_default x |}.
Definition Signal_set_Length (x : signal) v : signal := {| s_name := s_name x; s_start := s_start x; s_length := v; s_big_endian := s_big_endian x; s_signed := s_signed x; s_float := s_float x; s_multiplexer := s_multiplexer x; s_multiplexed := s_multiplexed x; s_mux_value := s_mux_value x; s_offset := s_offset x; s_scale := s_scale x; s_min := s_min x; s_max := s_max x; s_unit := s_unit x; s_description := s_description x; s_value_descriptions := s_value_descriptions x; s_receivers := s_receivers x; s_default := s_default x |}.
Definition Signal_set_IsBigEndian (x : signal) v : signal := {| s_name := s_name x; s_start := s_start x; s_length := s_length x; s_big_endian := v; s_signed := s_signed x; s_float := s_float x; s_multiplexer := s_multiplexer x; s_multiplexed := s_multiplexed x; s_mux_value := s_mux_value x; s_offset := s_offset x; s_scale := s_scale x; s_min := s_min x; s_max := s_max x; s_unit := s_unit x; s_description := s_description x; s_value_descriptions := s_value_descriptions x; s_receivers := s_receivers x; s_default := s_default x |}.
Definition Signal_set_IsSigned (x : signal) v : signal := {| s_name := s_name x; s_start := s_start x; s_length := s_length x; s_big_endian := s_big_endian x; s_signed := v; s_float := s_float x; s_multiplexer := s_multiplexer x; s_multiplexed := s_multiplexed x; s_mux_value := s_mux_value x; s_offset := s_offset x; s_scale := s_scale x; s_min := s_min x; s_max := s_max x; s_unit := s_unit x; s_description := s_description x; s_value_descriptions := s_value_descriptions x; s_receivers := s_receivers x; s_default := s_default x |}.
Definition Signal_set_IsFloat (x : signal) v : signal := {| s_name := s_name x; s_start := s_start x; s_length := s_length x; s_big_endian := s_big_endian x; s_signed := s_signed x; s_float := v; s_multiplexer := s_multiplexer x; s_multiplexed := s_multiplexed x; s_mux_value := s_mux_value x; s_offset := s_offset x; s_scale := s_scale x; s_min := s_min x; s_max := s_max x; s_unit := s_unit x; s_description := s_description x; s_value_descriptions := s_value_descriptions x; s_receivers := s_receivers x; s_default := s_default x |}.
Definition Signal_set_IsMultiplexer (x : signal) v : signal := {| s_name := s_name x; s_start := s_start x; s_length := s_length x; s_big_endian := s_big_endian x; s_signed := s_signed x; s_float := s_float x; s_multiplexer := v; s_multiplexed := s_multiplexed x; s_mux_value := s_mux_value x; s_offset := s_offset x; s_scale := s_scale x; s_min := s_min x; s_max := s_max x; s_unit := s_unit x; s_description := s_description x; s_value_descriptions := s_value_descriptions x; s_receivers := s_receivers x; s_default := s_default x |}.
Definition Signal_set_IsMultiplexed (x : signal) v : signal := {| s_name := s_name x; s_start := s_start x; s_length := s_length x; s_big_endian := s_big_endian x; s_signed := s_signed x; s_float := s_float x; s_multiplexer := s_multiplexer x; s_multiplexed := v; s_mux_value := s_mux_value x; s_offset := s_offset x; s_scale := s_scale x; s_min := s_min x; s_max := s_max x; s_unit := s_unit x; s_description := s_description x; s_value_descriptions := s_value_descriptions x; s_receivers := s_receivers x; s_default := s_default x |}.
Definition Signal_set_MultiplexerValue (x : signal) v : signal := {| s_name := s_name x; s_start := s_start x; s_length := s_length x; s_big_endian := s_big_endian x; s_signed := s_signed x; s_float := s_float x; s_multiplexer := s_multiplexer x; s_multiplexed := s_multiplexed x; s_mux_value := v; s_offset := s_offset x; s_scale := s_scale x; s_min := s_min x; s_max := s_max x; s_unit := s_unit x; s_description := s_description x; s_value_descriptions := s_value_descriptions x; s_receivers := s_receivers x; s_default := s_default x |}.
Definition Signal_set_Offset (x : signal) v : signal := {| s_name := s_name x; s_start := s_start x; s_length := s_length x; s_big_endian := s_big_endian x; s_signed := s_signed x; s_float := s_float x; s_multiplexer := s_multiplexer x; s_multiplexed := s_multiplexed x; s_mux_value := s_mux_value x; s_offset := v; s_scale := s_scale x; s_min := s_min x; s_max := s_max x; s_unit := s_unit x; s_description := s_description x; s_value_descriptions := s_value_descriptions x; s_receivers := s_receivers x; s_default := s_default x |}.
Definition Signal_set_Scale (x : signal) v : signal := {| s_name := s_name x; s_start := s_start x; s_length := s_length x; s_big_endian := s_big_endian x; s_signed := s_signed x; s_float := s_float x; s_multiplexer := s_multiplexer x; s_multiplexed := s_multiplexed x; s_mux_value := s_mux_value x; s_offset := s_offset x; s_scale := v; s_min := s_min x; s_max := s_max x; s_unit := s_unit x; s_description := s_description x; s_value_descriptions := s_value_descriptions x; s_receivers := s_receivers x; s_default := s_default x |}.
Definition Signal_set_Min (x : signal) v : signal := {| s_name := s_name x; s_start := s_start x; s_length := s_length x; s_big_endian := s_big_endian x; s_signed := s_signed x; s_float := s_float x; s_multiplexer := s_multiplexer x; s_multiplexed := s_multiplexed x; s_mux_value := s_mux_value x; s_offset := s_offset x; s_scale := s_scale x; s_min := v; s_max := s_max x; s_unit := s_unit x; s_description := s_description x; s_value_descriptions := s_value_descriptions x; s_receivers := s_receivers x; s_default := s_default x |}.
Definition Signal_set_Max (x : signal) v : signal := {| s_name := s_name x; s_start := s_start x; s_length := s_length x; s_big_endian := s_big_endian x; s_signed := s_signed x; s_float := s_float x; s_multiplexer := s_multiplexer x; s_multiplexed := s_multiplexed x; s_mux_value := s_mux_value x; s_offset := s_offset x; s_scale := s_scale x; s_min := s_min x; s_max := v; s_unit := s_unit x; s_description := s_description x; s_value_descriptions := s_value_descriptions x; s_receivers := s_receivers x; s_default := s_default x |}.
Definition Signal_set_Unit (x : signal) v : signal := {| s_name := s_name x; s_start := s_start x; s_length := s_length x; s_big_endian := s_big_endian x; s_signed := s_signed x; s_float := s_float x; s_multiplexer := s_multiplexer x; s_multiplexed := s_multiplexed x; s_mux_value := s_mux_value x; s_offset := s_offset x; s_scale := s_scale x; s_min := s_min x; s_max := s_max x; s_unit := v; s_description := s_description x; s_value_descriptions := s_value_descriptions x; s_receivers := s_receivers x; s_default := s_default x |}.
Definition Signal_set_Description (x : signal) v : signal := {| s_name := s_name x; s_start := s_start x; s_length := s_length x; s_big_endian := s_big_endian x; s_signed := s_signed x; s_float := s_float x; s_multiplexer := s_multiplexer x; s_multiplexed := s_multiplexed x; s_mux_value := s_mux_value x; s_offset := s_offset x; s_scale := s_scale x; s_min := s_min x; s_max := s_max x; s_unit := s_unit x; s_description := v; s_value_descriptions := s_value_descriptions x; s_receivers := s_receivers x; s_default := s_default x |}.
Definition Signal_set_ValueDescriptions (x : signal) v : signal := {| s_name := s_name x; s_start := s_start x; s_length := s_length x; s_big_endian := s_big_endian x; s_signed := s_signed x; s_float := s_float x; s_multiplexer := s_multiplexer x; s_multiplexed := s_multiplexed x; s_mux_value := s_mux_value x; s_offset := s_offset x; s_scale := s_scale x; s_min := s_min x; s_max := s_max x; s_unit := s_unit x; s_description := s_description x; s_value_descriptions := v; s_receivers := s_receivers x; s_default := s_default x |}.
Definition Signal_set_ReceiverNodes (x : signal) v : signal := {| s_name := s_name x; s_start := s_start x; s_length := s_length x; s_big_endian := s_big_endian x; s_signed := s_signed x; s_float := s_float x; s_multiplexer := s_multiplexer x; s_multiplexed := s_multiplexed x; s_mux_value := s_mux_value x; s_offset := s_offset x; s_scale := s_scale x; s_min := s_min x; s_max := s_max x; s_unit := s_unit x; s_description := s_description x; s_value_descriptions := s_value_descriptions x; s_receivers := v; s_default := s_default x |}.
Definition Signal_set_DefaultValue (x : signal) v : signal := {| s_name := s_name x; s_start := s_start x; s_length := s_length x; s_big_endian := s_big_endian x; s_signed := s_signed x; s_float := s_float x; s_multiplexer := s_multiplexer x; s_multiplexed := s_multiplexed x; s_mux_value := s_mux_value x; s_offset := s_offset x; s_scale := s_scale x; s_min := s_min x; s_max := s_max x; s_unit := s_unit x; s_description := s_description x; s_value_descriptions := s_value_descriptions x; s_receivers := s_receivers x; s_default := v |}.

(** descriptor.Message *)
Definition Message_zero : message := {| msg_name := []; msg_id := 0; msg_extended := false; msg_length := 0; msg_send_type := SendNone; msg_description := []; msg_signals := []; msg_sender := []; msg_cycle_time := 0; msg_delay_time := 0 |}.
Definition Message_Name (x : message) := msg_name x.
Definition Message_ID (x : message) := msg_id x.
Definition Message_IsExtended (x : message) := msg_extended x.
Definition Message_Length (x : message) := msg_length x.
Definition Message_SendType (x : message) := msg_send_type x.
Definition Message_Description (x : message) := msg_description x.
Definition Message_Signals (x : message) := msg_signals x.
Definition Message_SenderNode (x : message) := msg_sender x.
Definition Message_CycleTime (x : message) := msg_cycle_time x.
Definition Message_DelayTime (x : message) := msg_delay_time x.
Definition Message_set_Name (x : message) v : message := {| msg_name := v; msg_id := msg_id x; msg_extended := msg_extended x; msg_length := msg_length x; msg_send_type := msg_send_type x; msg_description := msg_description x; msg_signals := msg_signals x; msg_sender := msg_sender x; msg_cycle_time := msg_cycle_time x; msg_delay_time := msg_delay_time x |}.
Definition Message_set_ID (x : message) v : message := {| msg_name := msg_name x; msg_id := v; msg_extended := msg_extended x; msg_length := msg_length x; msg_send_type := msg_send_type x; msg_description := msg_description x; msg_signals := msg_signals x; msg_sender := msg_sender x; msg_cycle_time := msg_cycle_time x; msg_delay_time := msg_delay_time x |}.
Definition Message_set_IsExtended (x : message) v : message := {| msg_name := msg_name x; msg_id := msg_id x; msg_extended := v; msg_length := msg_length x; msg_send_type := msg_send_type x; msg_description := msg_description x; msg_signals := msg_signals x; msg_sender := msg_sender x; msg_cycle_time := msg_cycle_time x; msg_delay_time := msg_delay_time x |}.
Definition Message_set_Length (x : message) v : message := {| msg_name := msg_name x; msg_id := msg_id x; msg_extended := msg_extended x; msg_length := v; msg_send_type := msg_send_type x; msg_description := msg_description x; msg_signals := msg_signals x; msg_sender := msg_sender x; msg_cycle_time := msg_cycle_time x; msg_delay_time := msg_delay_time x |}.
Definition Message_set_SendType (x : message) v : message := {| msg_name := msg_name x; msg_id := msg_id x; msg_extended := msg_extended x; msg_length := msg_length x; msg_send_type := v; msg_description := msg_description x; msg_signals := msg_signals x; msg_sender := msg_sender x; msg_cycle_time := msg_cycle_time x; msg_delay_time := msg_delay_time x |}.
Definition Message_set_Description (x : message) v : message := {| msg_name := msg_name x; msg_id := msg_id x; msg_extended := msg_extended x; msg_length := msg_length x; msg_send_type := msg_send_type x; msg_description := v; msg_signals := msg_signals x; msg_sender := msg_sender x; msg_cycle_time := msg_cycle_time x; msg_delay_time := msg_delay_time x |}.
Definition Message_set_Signals (x : message) v : message := {| msg_name := msg_name x; msg_id := msg_id x; msg_extended := msg_extended x; msg_length := msg_length x; msg_send_type := msg_send_type x; msg_description := msg_description x; msg_signals := v; msg_sender := msg_sender x; msg_cycle_time := msg_cycle_time x; msg_delay_time := msg_delay_time x |}.
Definition Message_set_SenderNode (x : message) v : message := {| msg_name := msg_name x; msg_id := msg_id x; msg_extended := msg_extended x; msg_length := msg_length x; msg_send_type := msg_send_type x; msg_description := msg_description x; msg_signals := msg_signals x; msg_sender := v; msg_cycle_time := msg_cycle_time x; msg_delay_time := msg_delay_time x |}.
Definition Message_set_CycleTime (x : message) v : message := {| msg_name := msg_name x; msg_id := msg_id x; msg_extended := msg_extended x; msg_length := msg_length x; msg_send_type := msg_send_type x; msg_description := msg_description x; msg_signals := msg_signals x; msg_sender := msg_sender x; msg_cycle_time := v; msg_delay_time := msg_delay_time x |}.
Definition Message_set_DelayTime (x : message) v : message := {| msg_name := msg_name x; msg_id := msg_id x; msg_extended := msg_extended x; msg_length := msg_length x; msg_send_type := msg_send_type x; msg_description := msg_description x; msg_signals := msg_signals x; msg_sender := msg_sender x; msg_cycle_time := msg_cycle_time x; msg_delay_time := v |}.

(** descriptor.Node *)
Definition Node_zero : node := {| node_name := []; node_description := [] |}.
Definition Node_Name (x : node) := node_name x.
Definition Node_Description (x : node) := node_description x.
Definition Node_set_Name (x : node) v : node := {| node_name := v; node_description := node_description x |}.
Definition Node_set_Description (x : node) v : node := {| node_name := node_name x; node_description := v |}.

(** descriptor.ValueDescription *)
Definition ValueDescription_zero : value_description := {| vdesc_value := 0; vdesc_text := [] |}.
Definition ValueDescription_Value (x : value_description) := vdesc_value x.
Definition ValueDescription_Description (x : value_description) := vdesc_text x.
Definition ValueDescription_set_Value (x : value_description) v : value_description := {| vdesc_value := v; vdesc_text := vdesc_text x |}.
Definition ValueDescription_set_Description (x : value_description) v : value_description := {| vdesc_value := vdesc_value x; vdesc_text := v |}.

(** descriptor.Database *)
Definition Database_zero : database := {| db_source_file := []; db_version := []; db_messages := []; db_nodes := [] |}.
Definition Database_SourceFile (x : database) := db_source_file x.
Definition Database_Version (x : database) := db_version x.
Definition Database_Messages (x : database) := db_messages x.
Definition Database_Nodes (x : database) := db_nodes x.
Definition Database_set_SourceFile (x : database) v : database := {| db_source_file := v; db_version := db_version x; db_messages := db_messages x; db_nodes := db_nodes x |}.
Definition Database_set_Version (x : database) v : database := {| db_source_file := db_source_file x; db_version := v; db_messages := db_messages x; db_nodes := db_nodes x |}.
Definition Database_set_Messages (x : database) v : database := {| db_source_file := db_source_file x; db_version := db_version x; db_messages := v; db_nodes := db_nodes x |}.
Definition Database_set_Nodes (x : database) v : database := {| db_source_file := db_source_file x; db_version := db_version x; db_messages := db_messages x; db_nodes := v |}.

(** dbc.MessageDef (read only) *)
Definition MessageDef_MessageID (x : message_def) := m_id x.
Definition MessageDef_Name (x : message_def) := m_name x.
Definition MessageDef_Size (x : message_def) := m_size x.
Definition MessageDef_Transmitter (x : message_def) := m_transmitter x.
Definition MessageDef_Signals (x : message_def) := m_signals x.

(** dbc.SignalDef (read only) *)
Definition SignalDef_Name (x : signal_def) := sg_name x.
Definition SignalDef_StartBit (x : signal_def) := sg_start x.
Definition SignalDef_Size (x : signal_def) := sg_size x.
Definition SignalDef_IsBigEndian (x : signal_def) := sg_big_endian x.
Definition SignalDef_IsSigned (x : signal_def) := sg_signed x.
Definition SignalDef_IsMultiplexerSwitch (x : signal_def) := sg_mux_switch x.
Definition SignalDef_IsMultiplexed (x : signal_def) := sg_multiplexed x.
Definition SignalDef_MultiplexerSwitch (x : signal_def) := sg_mux_value x.
Definition SignalDef_Offset (x : signal_def) := sg_offset x.
Definition SignalDef_Factor (x : signal_def) := sg_factor x.
Definition SignalDef_Minimum (x : signal_def) := sg_min x.
Definition SignalDef_Maximum (x : signal_def) := sg_max x.
Definition SignalDef_Unit (x : signal_def) := sg_unit x.
Definition SignalDef_Receivers (x : signal_def) := sg_receivers x.

(** dbc.CommentDef (read only) *)
Definition CommentDef_ObjectType (x : comment_def) := cm_object x.
Definition CommentDef_NodeName (x : comment_def) := cm_node x.
Definition CommentDef_MessageID (x : comment_def) := cm_message_id x.
Definition CommentDef_SignalName (x : comment_def) := cm_signal x.
Definition CommentDef_EnvironmentVariableName (x : comment_def) := cm_envvar x.
Definition CommentDef_Comment (x : comment_def) := cm_comment x.

(** dbc.ValueDescriptionsDef (read only) *)
Definition ValueDescriptionsDef_ObjectType (x : value_descriptions_def) := vs_object x.
Definition ValueDescriptionsDef_MessageID (x : value_descriptions_def) := vs_message_id x.
Definition ValueDescriptionsDef_SignalName (x : value_descriptions_def) := vs_signal x.
Definition ValueDescriptionsDef_EnvironmentVariableName (x : value_descriptions_def) := vs_envvar x.
Definition ValueDescriptionsDef_ValueDescriptions (x : value_descriptions_def) := vs_values x.

(** dbc.ValueDescriptionDef (read only) *)
Definition ValueDescriptionDef_Value (x : value_description_def) := vd_value x.
Definition ValueDescriptionDef_Description (x : value_description_def) := vd_description x.

(** dbc.AttributeValueForObjectDef (read only) *)
Definition AttributeValueForObjectDef_AttributeName (x : attribute_value_def) := av_name x.
Definition AttributeValueForObjectDef_ObjectType (x : attribute_value_def) := av_object x.
Definition AttributeValueForObjectDef_MessageID (x : attribute_value_def) := av_message_id x.
Definition AttributeValueForObjectDef_SignalName (x : attribute_value_def) := av_signal x.
Definition AttributeValueForObjectDef_NodeName (x : attribute_value_def) := av_node x.
Definition AttributeValueForObjectDef_EnvironmentVariableName (x : attribute_value_def) := av_envvar x.
Definition AttributeValueForObjectDef_IntValue (x : attribute_value_def) := av_int x.
Definition AttributeValueForObjectDef_FloatValue (x : attribute_value_def) := av_float x.
Definition AttributeValueForObjectDef_StringValue (x : attribute_value_def) := av_string x.

(** definitions whose Ast constructor carries its fields inline *)
Record VersionDef := { VersionDef_Pos : position; VersionDef_Version : bytes }.
Record NodesDef := { NodesDef_Pos : position; NodesDef_NodeNames : list bytes }.
Record SignalValueTypeDef := { SignalValueTypeDef_Pos : position; SignalValueTypeDef_MessageID : Z;
                               SignalValueTypeDef_SignalName : bytes; SignalValueTypeDef_SignalValueType : Z }.

(** switch def := def.(type) { case *dbc.T: } *)
Definition as_VersionDef (d : def) := match d with DVersion p v => Some {| VersionDef_Pos := p; VersionDef_Version := v |} | _ => None end.
Definition as_NodesDef (d : def) := match d with DNodes p l => Some {| NodesDef_Pos := p; NodesDef_NodeNames := l |} | _ => None end.
Definition as_SignalValueTypeDef (d : def) :=
  match d with
  | DSignalValueType p id n vt => Some {| SignalValueTypeDef_Pos := p; SignalValueTypeDef_MessageID := id;
                                          SignalValueTypeDef_SignalName := n; SignalValueTypeDef_SignalValueType := vt |}
  | _ => None end.
Definition as_MessageDef (d : def) := match d with DMessage m => Some m | _ => None end.
Definition as_CommentDef (d : def) := match d with DComment c => Some c | _ => None end.
Definition as_ValueDescriptionsDef (d : def) := match d with DValueDescriptions v => Some v | _ => None end.
Definition as_AttributeValueForObjectDef (d : def) := match d with DAttributeValue a => Some a | _ => None end.

(** pkg/dbc/messageid.go (tied to the source by group dbcid of coq/translate/Equiv.v) *)
Definition MessageID_ToCAN (m : Z) : Z := msgid_to_can m.
Definition MessageID_IsExtended (m : Z) : bool := msgid_is_extended m.

(** == on dbc.ObjectType (a Go string type read as the inductive of Ast.v) *)
Definition ObjectType_eqb (a b : object_type) : bool :=
  match a, b with
  | OtUnspecified, OtUnspecified | OtNode, OtNode | OtMessage, OtMessage | OtSignal, OtSignal | OtEnvVar, OtEnvVar => true
  | _, _ => false
  end.

(** Go's == and < on strings: byte-wise equality / byte-wise lexicographic order *)
Definition go_string_eqb (a b : bytes) : bool := bytes_eqb a b.
Definition go_string_ltb (a b : bytes) : bool := bytes_ltb a b.

(** conversions T(x): named conv_<static type of x>_<T> (underlying basic types) *)
Definition conv_uint64_uint8 (z : Z) : Z := z mod 256.
Definition conv_uint64_uint (z : Z) : Z := z mod 2 ^ 64.                       (* uint is 64 bit *)
Definition conv_int64_int (z : Z) : Z := (z + 2 ^ 63) mod 2 ^ 64 - 2 ^ 63.     (* int is 64 bit *)
Definition conv_int64_int64 (z : Z) : Z := z.                                   (* time.Duration(int64) *)
Definition conv_float64_int64 (bits : Z) : Z := int64_of_f64 bits.             (* Compile.v header: spec inside int64, amd64 outside *)
Definition mul_int64 (a b : Z) : Z := (a * b + 2 ^ 63) mod 2 ^ 64 - 2 ^ 63.    (* int64 product wraps *)

(** callee that is not translated: SendType.UnmarshalString (pointer receiver; pkg/descriptor/sendtype.go) returns the
    new *s and the error; an error is [Some k], k the kind of its Error() text; it returns nil on every path *)
Definition SendType_UnmarshalString (s : bytes) : send_type * option warn_kind := (unmarshal_send_type s, None).

(** lookups of pkg/descriptor/database.go = first match (tied to the source by group lookup of Equiv.v) *)
Definition Database_Node (db : database) (name : bytes) : option node := find_node (db_nodes db) name.
Definition Database_Message (db : database) (id : Z) : option message := find_message (db_messages db) id.
Definition Database_Signal (db : database) (id : Z) (name : bytes) : option signal := db_signal db id name.

(** POINTER READING. The lookups return a pointer to an element of the database; compile.go then writes
    fields through it. The translator prints, after every such write (after the loop for writes in a loop),
    [Database_store_X db <the lookup's arguments> x]: the element the lookup selected - the FIRST match -
    is replaced by the local's new value. Sound because (checked by the translator) the key fields Name / ID
    are never written through the pointer, at most one lookup pointer is live at a time, and the []*T
    slices of a database built by collectDescriptors hold pairwise distinct pointers (each element is a
    fresh &T{...} literal), so no other element changes. *)
Fixpoint replace_first {A} (p : A -> bool) (a' : A) (l : list A) : list A :=
  match l with [] => [] | a :: t => if p a then a' :: t else a :: replace_first p a' t end.
Definition Database_store_Node (db : database) (name : bytes) (n : node) : database :=
  Database_set_Nodes db (replace_first (fun x => name_eqb (node_name x) name) n (db_nodes db)).
Definition Database_store_Message (db : database) (id : Z) (m : message) : database :=
  Database_set_Messages db (replace_first (fun x => msg_id x =? id) m (db_messages db)).
Definition Database_store_Signal (db : database) (id : Z) (name : bytes) (s : signal) : database :=
  match find_message (db_messages db) id with
  | None => db
  | Some m => Database_store_Message db id
                (Message_set_Signals m (replace_first (fun x => name_eqb (s_name x) name) s (msg_signals m)))
  end.
