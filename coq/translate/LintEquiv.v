(** Translation tie for the lint analyzers (C18): the functions regenerated from the CURRENT
    pkg/dbc/analysis/passes/*/analyzer.go by harness/linttrans (LintTranslated.v, over LintGlue.v) equal the
    hand model Dbc/Lint.v on EVERY file (no precondition). Re-proved on every run of C18 (checks/lint.py,
    stage lint_tie). A lemma that no longer checks = the source and the model differ. *)
From Coq Require Import ZArith List Bool Lia.
From CanVerif Require Import Dbc.Ast Dbc.Lint.
From CanTranslated Require Import LintGlue LintTranslated.
Import ListNotations.
Open Scope Z_scope.

Lemma lint_for_app : forall (A : Type) (g : A -> list diagnostic) (body : A -> list diagnostic -> ctl (list diagnostic)),
  (forall x ds, body x ds = Next (ds ++ g x)) -> forall l ds, lint_for body l ds = ds ++ flat_map g l.
Proof.
  intros A g body H l; induction l; intros ds; simpl.
  - now rewrite app_nil_r.
  - rewrite H, IHl, app_assoc. reflexivity.
Qed.

Ltac norm_msg := repeat match goal with
  | |- context [lint_msg ?l []] => let v := eval vm_compute in (lint_msg l []) in change (lint_msg l []) with v
  | |- context [lint_msg ?l [?c ?a]] =>
    let v := eval vm_compute in (fun x => lint_msg l [c x]) in change (lint_msg l [c a]) with (v a); cbv beta
  | |- context [lint_msg ?l [?c ?a; ?d ?b]] =>
    let v := eval vm_compute in (fun x y => lint_msg l [c x; d y]) in change (lint_msg l [c a; d b]) with (v a b); cbv beta
  end.

(** rewrite the innermost-visible translated loop into the hand model's flat_map over the same list *)
Ltac loop_flat :=
  match goal with
  | |- context [lint_for ?b ?l ?ds] =>
    match goal with
    | |- context [flat_map ?g l] => rewrite (lint_for_app _ g b); [ | intros ? ? ]
    end
  end.

Ltac split_ifs := repeat match goal with
  | |- context [if ?c then _ else _] => destruct c
  end.

Ltac fin := cbn; norm_msg; rewrite ?app_nil_r; try reflexivity.

Lemma go_len_pos : forall (A : Type) (l : list A), (0 <? go_len l) = (0 <? length l)%nat.
Proof. intros A l; destruct l; reflexivity. Qed.

(* ---- independent_signals.go ------------------------------------------------------------------ *)
Lemma TL_IsIndependentSignalsMessage_eq : forall m, IsIndependentSignalsMessage m = is_independent_signals_message m.
Proof. intros m. reflexivity. Qed.

(* ---- stateless analyzers: a fold that appends = flat_map ---------------------------------------- *)
Lemma TL_version_run_eq : forall f, LintTranslated.version_run f = Lint.version_run f.
Proof.
  intros f. unfold LintTranslated.version_run, Lint.version_run, for_each. cbv zeta. f_equal.
  loop_flat; [reflexivity|].
  destruct x; fin; []. match goal with v : bytes |- _ => destruct v; fin end.
Qed.

Lemma TL_newsymbols_run_eq : forall f, LintTranslated.newsymbols_run f = Lint.newsymbols_run f.
Proof.
  intros f. unfold LintTranslated.newsymbols_run, Lint.newsymbols_run, for_each. cbv zeta. f_equal.
  loop_flat; [reflexivity|].
  destruct x; fin; []. match goal with v : list bytes |- _ => destruct v; fin end.
Qed.

Lemma TL_messagenames_run_eq : forall ud uu f, LintTranslated.messagenames_run ud uu f = Lint.messagenames_run ud uu f.
Proof.
  intros ud uu f. unfold LintTranslated.messagenames_run, Lint.messagenames_run, for_each. cbv zeta. f_equal.
  loop_flat; [reflexivity|].
  destruct x; fin. unfold MessageDef_Name, MessageDef_Pos. split_ifs; fin.
Qed.

Lemma TL_noreservedsignals_run_eq : forall f, LintTranslated.noreservedsignals_run f = Lint.noreservedsignals_run f.
Proof.
  intros f. unfold LintTranslated.noreservedsignals_run, Lint.noreservedsignals_run, for_each. cbv zeta. f_equal.
  loop_flat; [reflexivity|].
  destruct x; fin. unfold MessageDef_Signals. f_equal.
  loop_flat; [reflexivity|].
  unfold SignalDef_Name, SignalDef_Pos. change [82; 101; 115; 101; 114; 118; 101; 100] with prefix_reserved. split_ifs; fin.
Qed.

Lemma TL_signalnames_run_eq : forall ud uu f, LintTranslated.signalnames_run ud uu f = Lint.signalnames_run ud uu f.
Proof.
  intros ud uu f. unfold LintTranslated.signalnames_run, Lint.signalnames_run, for_each. cbv zeta. f_equal.
  loop_flat; [reflexivity|].
  destruct x; fin. unfold MessageDef_Signals. f_equal.
  loop_flat; [reflexivity|].
  unfold SignalDef_Name, SignalDef_Pos. split_ifs; fin.
Qed.

Lemma TL_signalbounds_run_eq : forall f, LintTranslated.signalbounds_run f = Lint.signalbounds_run f.
Proof.
  intros f. unfold LintTranslated.signalbounds_run, Lint.signalbounds_run, for_each. cbv zeta. f_equal.
  loop_flat; [reflexivity|].
  destruct x; fin. rewrite TL_IsIndependentSignalsMessage_eq.
  destruct (is_independent_signals_message m); fin. unfold MessageDef_Signals. f_equal.
  loop_flat; [reflexivity|].
  unfold SignalDef_StartBit, SignalDef_Pos, MessageDef_Size, go_u64. change (2 ^ 64) with 18446744073709551616. split_ifs; fin.
Qed.

Lemma TL_siunits_run_eq : forall f, LintTranslated.siunits_run f = Lint.siunits_run f.
Proof.
  intros f. unfold LintTranslated.siunits_run, Lint.siunits_run, for_each. cbv zeta. f_equal.
  loop_flat; [reflexivity|].
  destruct x; try (fin; fail). cbv beta iota delta [as_MessageDef MessageDef_Signals]. f_equal.
  loop_flat; [reflexivity|].
  unfold SignalDef_Unit, SignalDef_Pos, map_get_bytes. change h_siunits_symbolMap with symbol_map.
  destruct (lookup (sg_unit x) symbol_map); fin.
Qed.

Lemma TL_unitsuffixes_run_eq : forall f, LintTranslated.unitsuffixes_run f = Lint.unitsuffixes_run f.
Proof.
  intros f. unfold LintTranslated.unitsuffixes_run, Lint.unitsuffixes_run, for_each. cbv zeta. f_equal.
  loop_flat; [reflexivity|].
  destruct x; try (fin; fail). cbv beta iota delta [as_MessageDef MessageDef_Signals]. f_equal.
  loop_flat; [reflexivity|].
  unfold SignalDef_Unit, SignalDef_Name, SignalDef_Pos, map_get_bytes. change h_unitsuffixes_unitSuffixes with unit_suffixes.
  destruct (lookup (sg_unit x) unit_suffixes); fin. split_ifs; fin.
Qed.

(* ---- analyzers with a map as loop state: induction with the state generalised ------------------- *)
Lemma TL_uniquemessageids_run_eq : forall f, LintTranslated.uniquemessageids_run f = Lint.uniquemessageids_run f.
Proof.
  intros f. unfold LintTranslated.uniquemessageids_run, Lint.uniquemessageids_run. cbv zeta.
  match goal with |- context [lint_for ?b _ _] => set (body := b) end.
  assert (H : forall l ds seen, fst (lint_for body l (ds, seen)) = ds ++ umi_loop seen l).
  { induction l as [|d l IH]; intros ds seen; cbn [lint_for umi_loop fst].
    - now rewrite app_nil_r.
    - destruct d; try (cbn; apply IH).
      cbn [body as_MessageDef]. rewrite TL_IsIndependentSignalsMessage_eq.
      destruct (is_independent_signals_message m); [apply IH|].
      unfold set_mem_Z, MessageDef_MessageID, MessageDef_Pos.
      destruct (mem_Z (m_id m) seen); norm_msg; rewrite IH; [rewrite <- app_assoc|]; reflexivity. }
  specialize (H (f_defs f) [] []). destruct (lint_for body (f_defs f) ([], [])) as [ds ids]. cbn in H. now subst.
Qed.

Lemma TL_uniquesignalnames_run_eq : forall f, LintTranslated.uniquesignalnames_run f = Lint.uniquesignalnames_run f.
Proof.
  intros f. unfold LintTranslated.uniquesignalnames_run, Lint.uniquesignalnames_run, for_each. cbv zeta. f_equal.
  loop_flat; [reflexivity|].
  destruct x; try (fin; fail). cbv beta iota delta [as_MessageDef MessageDef_Signals].
  rewrite TL_IsIndependentSignalsMessage_eq. destruct (is_independent_signals_message m); [fin|].
  match goal with |- context [lint_for ?b _ _] => set (body := b) end.
  assert (H : forall l ds0 seen, fst (lint_for body l (ds0, seen)) = ds0 ++ usn_loop seen l).
  { induction l as [|s l IH]; intros ds0 seen; cbn [lint_for usn_loop fst].
    - now rewrite app_nil_r.
    - cbn [body]. unfold set_mem_bytes, SignalDef_Name, SignalDef_Pos.
      destruct (mem_bytes (sg_name s) seen); norm_msg; rewrite IH; [rewrite <- app_assoc|]; reflexivity. }
  specialize (H (m_signals m) ds []). destruct (lint_for body (m_signals m) (ds, [])) as [ds1 ns]. cbn in H. now subst.
Qed.
