(** Translation tie for the lint analyzers (C18): the functions regenerated from the CURRENT
    pkg/dbc/analysis/passes/*/analyzer.go by harness/linttrans (LintTranslated.v, over LintGlue.v) equal the
    hand model Dbc/Lint.v on EVERY file (no precondition). Re-proved on every run of C18 (checks/lint.py,
    stage lint_tie). A lemma that no longer checks = the source and the model differ. *)
From Coq Require Import ZArith List Bool Lia.
From CanVerif Require Import Dbc.Ast Dbc.Lint.
From CanTranslated Require Import LintGlue LintTranslated.
Import ListNotations.
Open Scope Z_scope.

Lemma lint_for_app : forall (A : Type) (g : A -> list diagnostic) (body : A -> list diagnostic -> ctl (list diagnostic)),
  (forall x ds, body x ds = Next (ds ++ g x)) -> forall l ds, lint_for body l ds = ds ++ flat_map g l.
Proof.
  intros A g body H l; induction l; intros ds; simpl.
  - now rewrite app_nil_r.
  - rewrite H, IHl, app_assoc. reflexivity.
Qed.

Ltac norm_msg := repeat match goal with
  | |- context [lint_msg ?l []] => let v := eval vm_compute in (lint_msg l []) in change (lint_msg l []) with v
  | |- context [lint_msg ?l [?c ?a]] =>
    let v := eval vm_compute in (fun x => lint_msg l [c x]) in change (lint_msg l [c a]) with (v a); cbv beta
  | |- context [lint_msg ?l [?c ?a; ?d ?b]] =>
    let v := eval vm_compute in (fun x y => lint_msg l [c x; d y]) in change (lint_msg l [c a; d b]) with (v a b); cbv beta
  end.

(** rewrite the innermost-visible translated loop into the hand model's flat_map over the same list *)
Ltac loop_flat :=
  match goal with
  | |- context [lint_for ?b ?l ?ds] =>
    match goal with
    | |- context [flat_map ?g l] => rewrite (lint_for_app _ g b); [ | intros ? ? ]
    end
  end.

Ltac split_ifs := repeat match goal with
  | |- context [if ?c then _ else _] => destruct c
  end.

Ltac fin := cbn; norm_msg; rewrite ?app_nil_r; try reflexivity.

Lemma go_len_pos : forall (A : Type) (l : list A), (0 <? go_len l) = (0 <? length l)%nat.
Proof. intros A l; destruct l; reflexivity. Qed.

(* ---- independent_signals.go ------------------------------------------------------------------ *)
Lemma TL_IsIndependentSignalsMessage_eq : forall m, IsIndependentSignalsMessage m = is_independent_signals_message m.
Proof. intros m. reflexivity. Qed.

(* ---- stateless analyzers: a fold that appends = flat_map ---------------------------------------- *)
Lemma TL_version_run_eq : forall f, LintTranslated.version_run f = Lint.version_run f.
Proof.
  intros f. unfold LintTranslated.version_run, Lint.version_run, for_each. cbv zeta. f_equal.
  loop_flat; [reflexivity|].
  destruct x; fin; []. match goal with v : bytes |- _ => destruct v; fin end.
Qed.

Lemma TL_newsymbols_run_eq : forall f, LintTranslated.newsymbols_run f = Lint.newsymbols_run f.
Proof.
  intros f. unfold LintTranslated.newsymbols_run, Lint.newsymbols_run, for_each. cbv zeta. f_equal.
  loop_flat; [reflexivity|].
  destruct x; fin; []. match goal with v : list bytes |- _ => destruct v; fin end.
Qed.

Lemma TL_messagenames_run_eq : forall ud uu f, LintTranslated.messagenames_run ud uu f = Lint.messagenames_run ud uu f.
Proof.
  intros ud uu f. unfold LintTranslated.messagenames_run, Lint.messagenames_run, for_each. cbv zeta. f_equal.
  loop_flat; [reflexivity|].
  destruct x; fin. unfold MessageDef_Name, MessageDef_Pos. split_ifs; fin.
Qed.

Lemma TL_noreservedsignals_run_eq : forall f, LintTranslated.noreservedsignals_run f = Lint.noreservedsignals_run f.
Proof.
  intros f. unfold LintTranslated.noreservedsignals_run, Lint.noreservedsignals_run, for_each. cbv zeta. f_equal.
  loop_flat; [reflexivity|].
  destruct x; fin. unfold MessageDef_Signals. f_equal.
  loop_flat; [reflexivity|].
  unfold SignalDef_Name, SignalDef_Pos. change [82; 101; 115; 101; 114; 118; 101; 100] with prefix_reserved. split_ifs; fin.
Qed.

Lemma TL_signalnames_run_eq : forall ud uu f, LintTranslated.signalnames_run ud uu f = Lint.signalnames_run ud uu f.
Proof.
  intros ud uu f. unfold LintTranslated.signalnames_run, Lint.signalnames_run, for_each. cbv zeta. f_equal.
  loop_flat; [reflexivity|].
  destruct x; fin. unfold MessageDef_Signals. f_equal.
  loop_flat; [reflexivity|].
  unfold SignalDef_Name, SignalDef_Pos. split_ifs; fin.
Qed.

Lemma TL_signalbounds_run_eq : forall f, LintTranslated.signalbounds_run f = Lint.signalbounds_run f.
Proof.
  intros f. unfold LintTranslated.signalbounds_run, Lint.signalbounds_run, for_each. cbv zeta. f_equal.
  loop_flat; [reflexivity|].
  destruct x; fin. rewrite TL_IsIndependentSignalsMessage_eq.
  destruct (is_independent_signals_message m); fin. unfold MessageDef_Signals. f_equal.
  loop_flat; [reflexivity|].
  unfold SignalDef_StartBit, SignalDef_Pos, MessageDef_Size, go_u64. change (2 ^ 64) with 18446744073709551616. split_ifs; fin.
Qed.

Lemma TL_siunits_run_eq : forall f, LintTranslated.siunits_run f = Lint.siunits_run f.
Proof.
  intros f. unfold LintTranslated.siunits_run, Lint.siunits_run, for_each. cbv zeta. f_equal.
  loop_flat; [reflexivity|].
  destruct x; try (fin; fail). cbv beta iota delta [as_MessageDef MessageDef_Signals]. f_equal.
  loop_flat; [reflexivity|].
  unfold SignalDef_Unit, SignalDef_Pos, map_get_bytes. change h_siunits_symbolMap with symbol_map.
  destruct (lookup (sg_unit x) symbol_map); fin.
Qed.

Lemma TL_unitsuffixes_run_eq : forall f, LintTranslated.unitsuffixes_run f = Lint.unitsuffixes_run f.
Proof.
  intros f. unfold LintTranslated.unitsuffixes_run, Lint.unitsuffixes_run, for_each. cbv zeta. f_equal.
  loop_flat; [reflexivity|].
  destruct x; try (fin; fail). cbv beta iota delta [as_MessageDef MessageDef_Signals]. f_equal.
  loop_flat; [reflexivity|].
  unfold SignalDef_Unit, SignalDef_Name, SignalDef_Pos, map_get_bytes. change h_unitsuffixes_unitSuffixes with unit_suffixes.
  destruct (lookup (sg_unit x) unit_suffixes); fin. split_ifs; fin.
Qed.

(* ---- analyzers with a map as loop state: induction with the state generalised ------------------- *)
Lemma TL_uniquemessageids_run_eq : forall f, LintTranslated.uniquemessageids_run f = Lint.uniquemessageids_run f.
Proof.
  intros f. unfold LintTranslated.uniquemessageids_run, Lint.uniquemessageids_run. cbv zeta.
  match goal with |- context [lint_for ?b _ _] => set (body := b) end.
  assert (H : forall l ds seen, fst (lint_for body l (ds, seen)) = ds ++ umi_loop seen l).
  { induction l as [|d l IH]; intros ds seen; cbn [lint_for umi_loop fst].
    - now rewrite app_nil_r.
    - destruct d; try (cbn; apply IH).
      cbn [body as_MessageDef]. rewrite TL_IsIndependentSignalsMessage_eq.
      destruct (is_independent_signals_message m); [apply IH|].
      unfold set_mem_Z, MessageDef_MessageID, MessageDef_Pos.
      destruct (mem_Z (m_id m) seen); norm_msg; rewrite IH; [rewrite <- app_assoc|]; reflexivity. }
  specialize (H (f_defs f) [] []). destruct (lint_for body (f_defs f) ([], [])) as [ds ids]. cbn in H. now subst.
Qed.

Lemma TL_uniquesignalnames_run_eq : forall f, LintTranslated.uniquesignalnames_run f = Lint.uniquesignalnames_run f.
Proof.
  intros f. unfold LintTranslated.uniquesignalnames_run, Lint.uniquesignalnames_run, for_each. cbv zeta. f_equal.
  loop_flat; [reflexivity|].
  destruct x; try (fin; fail). cbv beta iota delta [as_MessageDef MessageDef_Signals].
  rewrite TL_IsIndependentSignalsMessage_eq. destruct (is_independent_signals_message m); [fin|].
  match goal with |- context [lint_for ?b _ _] => set (body := b) end.
  assert (H : forall l ds0 seen, fst (lint_for body l (ds0, seen)) = ds0 ++ usn_loop seen l).
  { induction l as [|s l IH]; intros ds0 seen; cbn [lint_for usn_loop fst].
    - now rewrite app_nil_r.
    - cbn [body]. unfold set_mem_bytes, SignalDef_Name, SignalDef_Pos.
      destruct (mem_bytes (sg_name s) seen); norm_msg; rewrite IH; [rewrite <- app_assoc|]; reflexivity. }
  specialize (H (m_signals m) ds []). destruct (lint_for body (m_signals m) (ds, [])) as [ds1 ns]. cbn in H. now subst.
Qed.

(* ---- intervals, nodereferences, uniquenodenames ------------------------------------------------- *)
Ltac leaf := norm_msg; cbn [negb app]; rewrite ?app_nil_r, <- ?app_assoc; cbn [app]; try reflexivity.

Lemma TL_intervals_run_eq : forall f, LintTranslated.intervals_run f = Lint.intervals_run f.
Proof.
  intros f. unfold LintTranslated.intervals_run, Lint.intervals_run, intervals_with, for_each. cbv zeta. f_equal.
  loop_flat; [reflexivity|].
  destruct x; try (fin; fail);
    cbv beta iota delta [as_EnvironmentVariableDef as_MessageDef as_AttributeDef MessageDef_Signals intervals_signals
                         intervals_attribute for_each].
  - f_equal. loop_flat; [reflexivity|].
    unfold SignalDef_Minimum, SignalDef_Maximum, MessageDef_Pos. destruct (f64_gt (sg_min x) (sg_max x)); leaf.
  - unfold EnvironmentVariableDef_Minimum, EnvironmentVariableDef_Maximum, EnvironmentVariableDef_Pos.
    destruct (f64_gt (ev_min e) (ev_max e)); leaf.
  - unfold AttributeDef_MinimumInt, AttributeDef_MaximumInt, AttributeDef_MinimumFloat, AttributeDef_MaximumFloat, AttributeDef_Pos.
    destruct (ad_max_int a <? ad_min_int a); destruct (f64_gt (ad_min_float a) (ad_max_float a)); leaf.
Qed.

Lemma add_names_for : forall (body : bytes -> list bytes -> ctl (list bytes)),
  (forall n d, body n d = Next (n :: d)) -> forall names d, lint_for body names d = add_names d names.
Proof. intros body H names; induction names; intros d; cbn [lint_for add_names]; [reflexivity|]. rewrite H. apply IHnames. Qed.

Lemma TL_nodereferences_run_eq : forall f, LintTranslated.nodereferences_run f = Lint.nodereferences_run f.
Proof.
  intros f. unfold LintTranslated.nodereferences_run, Lint.nodereferences_run. cbv zeta.
  match goal with |- context [lint_for ?b (f_defs f) [?ph]] =>
    assert (H : forall l d, lint_for b l d = collect_nodes d l) end.
  { induction l as [|x l IH]; intros d; cbn [lint_for collect_nodes]; [reflexivity|].
    destruct x; try (cbn; apply IH).
    cbv beta iota delta [as_NodesDef NodesDef_NodeNames snd]. rewrite (add_names_for _ (fun n d => eq_refl)). apply IH. }
  rewrite H. change [86; 101; 99; 116; 111; 114; 95; 95; 88; 88; 88] with node_placeholder.
  set (declared := collect_nodes [node_placeholder] (f_defs f)).
  change (collect_nodes [node_placeholder] (f_defs f)) with declared. clearbody declared. clear H.
  unfold for_each, undeclared, for_each. f_equal.
  loop_flat; [reflexivity|].
  destruct x; try (fin; fail);
    cbv beta iota delta [as_EnvironmentVariableDef as_MessageDef as_MessageTransmittersDef MessageDef_Signals set_mem_bytes].
  - unfold MessageDef_Transmitter, MessageDef_Pos. f_equal.
    match goal with |- context [lint_for ?b (m_signals m) ?d0] => match goal with |- context [flat_map ?g (m_signals m)] =>
      rewrite (lint_for_app _ g b) end end.
    + destruct (mem_bytes (m_transmitter m) declared); leaf.
    + intros s ds1. f_equal. unfold SignalDef_Receivers, SignalDef_Pos.
      loop_flat; [reflexivity|]. destruct (mem_bytes x declared); leaf.
  - f_equal. unfold MessageTransmittersDef_Transmitters, MessageTransmittersDef_Pos. cbn [fst snd].
    loop_flat; [reflexivity|]. destruct (mem_bytes x declared); leaf.
  - f_equal. unfold EnvironmentVariableDef_AccessNodes, EnvironmentVariableDef_Pos.
    loop_flat; [reflexivity|]. destruct (mem_bytes x declared); leaf.
Qed.

Lemma unn_inner : forall (body : bytes -> list diagnostic * list bytes -> ctl (list diagnostic * list bytes)) p,
  (forall n ds seen, body n (ds, seen) = Next (if mem_bytes n seen then ds ++ [diag p MDupNodeName] else ds, n :: seen)) ->
  forall names ds seen,
    lint_for body names (ds, seen) = (ds ++ fst (unn_names seen p names), snd (unn_names seen p names)).
Proof.
  intros body p H names; induction names as [|n tl IH]; intros ds seen; cbn [lint_for unn_names fst snd].
  - now rewrite app_nil_r.
  - rewrite H, IH. destruct (unn_names (n :: seen) p tl) as [ds' seen']. destruct (mem_bytes n seen); cbn [fst snd].
    + now rewrite <- app_assoc.
    + reflexivity.
Qed.

Lemma TL_uniquenodenames_run_eq : forall f, LintTranslated.uniquenodenames_run f = Lint.uniquenodenames_run f.
Proof.
  intros f. unfold LintTranslated.uniquenodenames_run, Lint.uniquenodenames_run. cbv zeta.
  match goal with |- context [lint_for ?b _ _] => set (body := b) end.
  assert (H : forall l ds seen, fst (lint_for body l (ds, seen)) = ds ++ unn_loop seen l).
  { induction l as [|d l IH]; intros ds seen; cbn [lint_for unn_loop fst].
    - now rewrite app_nil_r.
    - destruct d; try (cbn; apply IH).
      cbn [body as_NodesDef]. unfold NodesDef_NodeNames, NodesDef_Pos. cbn [fst snd].
      rewrite (unn_inner _ pos); [| intros n ds0 seen0; unfold set_mem_bytes; destruct (mem_bytes n seen0); norm_msg; reflexivity].
      destruct (unn_names seen pos names) as [ds' seen']. cbn [fst snd]. rewrite IH. now rewrite <- app_assoc. }
  specialize (H (f_defs f) [] []). destruct (lint_for body (f_defs f) ([], [])) as [ds ids]. cbn in H. now subst.
Qed.

(* ---- requireddefinitions: counts per dynamic type, first missing required kind reported, then break ---- *)
Lemma kind_eqb_eq : forall a b, kind_eqb a b = true -> a = b.
Proof. destruct a, b; cbn; intros H; try reflexivity; discriminate. Qed.

Lemma count_fold : forall (body : def -> list (def_kind * Z) -> ctl (list (def_kind * Z))),
  (forall d m, body d m = Next (map_inc_kind (kind_of d) m)) ->
  forall k l m, map_getd_kind k (lint_for body l m) = count_kind k l + map_getd_kind k m.
Proof.
  intros body H k l; induction l as [|d l IH]; intros m; cbn [lint_for count_kind]; [reflexivity|].
  rewrite H, IH. unfold map_inc_kind; cbn [map_getd_kind].
  replace (kind_eqb k (kind_of d)) with (kind_eqb (kind_of d) k) by (unfold kind_eqb; apply Z.eqb_sym).
  destruct (kind_eqb (kind_of d) k) eqn:E; [apply kind_eqb_eq in E; subst|]; lia.
Qed.

Lemma TL_requireddefinitions_run_eq : forall f, LintTranslated.requireddefinitions_run f = Lint.requireddefinitions_run f.
Proof.
  intros f. unfold LintTranslated.requireddefinitions_run, Lint.requireddefinitions_run. cbv zeta.
  unfold h_requireddefinitions_requiredDefinitions, required_kinds.
  cbn [lint_for required_loop kind_of zero_BitTimingDef zero_NodesDef].
  rewrite !(count_fold _ (fun d m => eq_refl)). cbn [map_getd_kind]. rewrite !Z.add_0_r.
  destruct (count_kind KBitTiming (f_defs f) =? 0); [destruct (f_defs f); norm_msg; reflexivity|].
  destruct (count_kind KNodes (f_defs f) =? 0); [destruct (f_defs f); norm_msg; reflexivity|].
  reflexivity.
Qed.

(* ---- definitiontypeorder: orderOf = order_of; backwards loop carrying minOrder = dto_loop over the reversed list ---- *)
Lemma orderOf_eq : forall d, h_definitiontypeorder_orderOf d = order_of d.
Proof. destruct d; reflexivity. Qed.

Lemma TL_definitiontypeorder_run_eq : forall f, LintTranslated.definitiontypeorder_run f = Lint.definitiontypeorder_run f.
Proof.
  intros f. unfold LintTranslated.definitiontypeorder_run, Lint.definitiontypeorder_run. cbv zeta.
  match goal with |- context [lint_for ?b _ _] => set (body := b) end.
  assert (H : forall l ds mn, fst (lint_for body l (ds, mn)) = ds ++ dto_loop mn l).
  { induction l as [|d l IH]; intros ds mn; cbn [lint_for dto_loop fst].
    - now rewrite app_nil_r.
    - cbn [body]. rewrite orderOf_eq. destruct (mn <? order_of d); norm_msg; rewrite IH; [rewrite <- app_assoc|]; reflexivity. }
  specialize (H (rev (f_defs f)) [] 18446744073709551615).
  destruct (lint_for body (rev (f_defs f)) ([], 18446744073709551615)) as [ds mn]. cbn [fst app] in H. subst. reflexivity.
Qed.
