From Coq Require Extraction ExtrOcamlBasic.
From Coq Require Import ZArith List.
From CanVerif Require Import Dbc.Ast.
Extraction Language OCaml.
Extraction "model.ml" def_pos is_independent_signals_message msgid_valid file
  Z.add Z.mul Z.sub Z.ltb Z.leb Z.eqb Z.of_nat Z.to_nat Z.pow Z.modulo Z.div.
