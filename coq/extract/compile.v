(** Extraction of the executable model of internal/generate/compile.go (C05) together with the
    class predicate, the property predicates and the specification of the warnings, and of
    generate.Compile as a function of the TEXT (Dbc/CompileText.v: parser model, then compile model).
    Directives: those of ExtrOcamlBasic only; Z / positive stay Coq inductives. *)
From Coq Require Extraction ExtrOcamlBasic.
From Coq Require Import ZArith List.
From CanVerif Require Import Base.Sort Dbc.Ast Descriptor.Types Dbc.Compile Dbc.CompileSpec Dbc.CompileText.
Extraction Language OCaml.
Extraction "model.ml"
  compile compile_old text_defs compile_text in_class canonicalb denotes_check_lhs denotes_check_rhs spec_warnings
  def_pos is_independent_signals_message msgid_valid file
  Z.add Z.mul Z.sub Z.ltb Z.leb Z.eqb Z.of_nat Z.to_nat Z.pow Z.modulo Z.div.
