(** Extraction of the renderer model (C19): Gen/Render.v on top of the descriptor interpreter
    (Gen/Message.v) and the descriptor float model (Descriptor/Physical.v).  ExtrOcamlBasic only;
    Z / positive / binary_float stay Coq inductives. *)
From Coq Require Extraction ExtrOcamlBasic.
From Coq Require Import ZArith List.
From Flocq Require Import BinarySingleNaN.
From CanVerif Require Import Can.Data Descriptor.Types Descriptor.Signal Descriptor.Physical Gen.Message Gen.History Gen.Render.
Extraction Language OCaml.
Extraction "model.ml"
  text_compact text_multiline json_render json_render_old debug_page debug_entry debug_body path_base
  text_compact_data text_multiline_data json_render_data json_render_data_old debug_message
  text_signal text_compact_signal json_member state_data append_to append_text can_frame
  frame_of unmarshal reset_state frame_valid dispatch
  unmarshal_unsigned unmarshal_signed unmarshal_bool unmarshal_value_description
  Z.add Z.mul Z.sub Z.ltb Z.leb Z.eqb Z.of_nat Z.to_nat Z.pow Z.modulo Z.div Z.land Z.lor.
