(** Extraction of the executable model of the 20 lint analyzers (property C18).
    Directives: those of ExtrOcamlBasic only; Z / positive / nat stay Coq inductives.
    [run] is the model (fixed code), [run_old] the analyzers before F5/F6, [spec_diagnostics] the
    declarative specification (evaluated by the driver as a cross-check: run = spec is a theorem).
    [cantool_lint_output] is the model of cmd/cantool's lint command (Dbc/LintCli.v), [file_blocks] /
    [file_reports] its declarative description (cross-check: equality is a theorem), [source_line] /
    [line_around] the source-line function and its specification. *)
From Coq Require Extraction ExtrOcamlBasic.
From Coq Require Import ZArith List.
From CanVerif Require Import Dbc.Ast Dbc.Lint Dbc.LintSpec Dbc.LintCli Dbc.LintCliProofs.
Extraction Language OCaml.
Extraction "model.ml"
  run run_old spec_diagnostics all_analyzers
  cantool_lint_output cantool_analyzers pass_name source_line line_around file_blocks file_reports
  utf8_runes is_camel_case camel_case has_prefix has_suffix f64_gt f64_to_int64 decimal_len
  def_pos is_independent_signals_message msgid_valid file
  Z.add Z.mul Z.sub Z.ltb Z.leb Z.eqb Z.of_nat Z.to_nat Z.pow Z.modulo Z.div.
