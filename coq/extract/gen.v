(** Extraction of the descriptor interpreter (generated-message semantics). ExtrOcamlBasic only. *)
From Coq Require Extraction ExtrOcamlBasic.
From Coq Require Import ZArith List.
From Flocq Require Import BinarySingleNaN.
From CanVerif Require Import Can.Data Descriptor.Types Descriptor.Physical Gen.Message Gen.History Gen.HistoryPhys Gen.ClassCheck Gen.Api Gen.Wiring.
Extraction Language OCaml.
Extraction "model.ml"
  frame_of unmarshal reset_state copy_from dispatch raw_set raw_set_value step frame_valid inv in_range
  signal_super_type signal_prim_type read_field write_field mux_index raw_lo raw_hi
  phys_set phys_set_value phys_okb phys_get getter_physical bits_of_f64 has_physical in_theorem_class
  wiring_ok_c03 decls_ok frame_wiring_ok unmarshal_wiring_ok resolve_stmt resolve_ustmt demanded_body demanded_unmarshal
  wiring_ok_c10 reset_wiring_ok setters_wiring_ok getters_wiring_ok resolve_reset resolve_setter resolve_getter
  demanded_reset demanded_setters demanded_getters rstmt_eqb rsetter_eqb rgetter_eqb setter_side_ok
  nodes_wiring_ok nodegen_ok has_send_type enum_fields_ok
  enums_ok signal_enum_ok has_custom_type enum_type_name
  package_wiring_ok_c03 package_wiring_ok_c10 dispatch_ok find_wiring nodes_ok no_extra_types
  super_conv field_conv mstmt_eqb ustmt_eqb frame_side_ok guard_side_ok fields_ok descs_ok
  Z.add Z.mul Z.sub Z.ltb Z.leb Z.eqb Z.of_nat Z.to_nat Z.pow Z.modulo Z.div Z.land Z.lor.
