(** Extraction of the executable models of the frame text forms (frame.go String /
    UnmarshalString, frame_json.go JSON / UnmarshalJSON) and of the library oracles they use.
    Directives used: those of ExtrOcamlBasic only (bool, option, unit, prod, list, sumbool,
    sumor -> OCaml types; fst/snd/andb/orb/negb inlined). Z / positive / nat stay
    Coq inductives. *)
From Coq Require Extraction ExtrOcamlBasic.
From Coq Require Import ZArith List.
From CanVerif Require Import Base.Dec Base.Hex Can.Data Can.Frame Can.FrameString Can.FrameStringSpec Can.FrameJSON.
Extraction Language OCaml.
Extraction "model.ml"
  to_string unmarshal_string matches_patternb frame_written
  to_json unmarshal_json read_doc of_doc json_valid go_valid lex
  validate frame_wfb canonicalb frame_eqb zero_frame
  parse_uint atoi itoa hex_decode hex_encode ascii_upper fmt_hex_upper split
  Z.add Z.mul Z.sub Z.ltb Z.leb Z.eqb Z.of_nat Z.to_nat Z.pow Z.modulo Z.div.
