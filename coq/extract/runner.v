(** Extraction of the executable runner model (Runner/Lts.v, RunModel.v) and of the trace
    predicates the C13/C14 theorems speak about (LockDiscipline.v: order_ok, discipline_ok;
    Protocol.v: tx_ok, receiver_spec; RunLts.v: the timed layer for send deadlines and the LTS of Run).
    Directives used: those of ExtrOcamlBasic only (bool, option, unit, prod, list, sumbool,
    sumor -> OCaml types; fst/snd/andb/orb/negb inlined). nat / ascii stay Coq inductives;
    Coq's [string] type is deliberately not used by any extracted function. Z and its operations
    are extracted only because ocaml/common.ml (shared glue) refers to them. *)
From Coq Require Extraction ExtrOcamlBasic.
From Coq Require Import Arith ZArith List Ascii.
From CanVerif Require Import Runner.Lts Runner.RunModel Runner.LockDiscipline Runner.Protocol Runner.RunLts Runner.Program.
Extraction Language OCaml.
Extraction "model.ml"
  step_fn init cfg_of_list run accepts first_reject
  holds_lock tx_of tx_balance_ok tx_stale_ok is_sel is_s4 is_done tx_ok
  order_ok discipline_ok raw_discipline
  run_receiver receiver_spec rx_trace
  contains run_result run_spec wrap_receiver wrap_transmitter wrap_run closed_text
  send_timeout tstep tinit trun tfirst_reject cyc_of_list
  qstep qinit qrun q_clean q_is_returned q_is_connected q_is_running
  shape_accepts rframe_of_shape ticker_eligible role_of_descriptor
  kstep kinit krun kfirst_reject
  ref_progs lookup_prog first_diff prog_lock_ok first_lock_violation gen_prog_passive gen_node_passive
  Nat.eqb Nat.add
  Z.add Z.mul Z.sub Z.ltb Z.leb Z.eqb Z.of_nat Z.to_nat Z.pow Z.modulo Z.div.
