(** Extraction of the executable model of the bit core (data.go, reinterpret.go).
    Directives used: those of ExtrOcamlBasic only (bool, option, unit, prod, list, sumbool,
    sumor -> OCaml types; fst/snd/andb/orb/negb inlined). Z / positive stay Coq inductives. *)
From Coq Require Extraction ExtrOcamlBasic.
From Coq Require Import ZArith List.
From CanVerif Require Import Can.Data Can.DataSpec.
Extraction Language OCaml.
Extraction "model.ml"
  check_le check_be check_value
  ubits_le ubits_be sbits_le sbits_be bit
  set_ubits_le set_ubits_be set_sbits_le set_sbits_be set_bit
  pack_le pack_be unpack_le unpack_be invert_endian as_signed as_unsigned
  valid_datab
  Z.add Z.mul Z.sub Z.ltb Z.leb Z.eqb Z.of_nat Z.to_nat Z.pow Z.modulo Z.div.
