(** Extraction of the generator API model (C11). ExtrOcamlBasic only. *)
From Coq Require Extraction ExtrOcamlBasic.
From Coq Require Import ZArith List.
From CanVerif Require Import Base.Dec Descriptor.Types Descriptor.Signal Gen.Message Gen.Api Gen.ApiSpec.
Extraction Language OCaml.
Extraction "model.ml"
  api_of_db api_of_db_old api_decls enum_string db_convs db_convs_old conv_ok db_convs_ok db_convs_ok_old
  has_physical has_physical_old has_physical_spec prim_type_spec in_class43 signal_prim_type signal_super_type
  f64_of_int f64_ltb f64_eqb itoa
  Z.add Z.mul Z.sub Z.ltb Z.leb Z.eqb Z.of_nat Z.to_nat Z.pow Z.modulo Z.div Z.land Z.lor.
