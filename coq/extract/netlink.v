(** Extraction of the executable model of the netlink link-info codec (C20):
    Netlink/Layout.v, Netlink/Attr.v and the independent C layouts of Netlink/LayoutSpec.v.
    Directives used: those of ExtrOcamlBasic only. Z / positive / nat stay Coq inductives. *)
From Coq Require Extraction ExtrOcamlBasic.
From Coq Require Import ZArith List.
From CanVerif Require Import Netlink.Layout Netlink.LayoutSpec Netlink.Attr Netlink.Program.
Extraction Language OCaml.
Extraction "model.ml"
  marshal_ifinfomsg unmarshal_ifinfomsg marshal_bittiming unmarshal_bittiming
  unmarshal_bittiming_const unmarshal_clock marshal_ctrlmode unmarshal_ctrlmode
  unmarshal_berr_counters unmarshal_stats
  sizeof_ifinfomsg sizeof_bittiming sizeof_bittiming_const sizeof_clock sizeof_ctrlmode
  sizeof_berr_counters sizeof_stats
  spec_ifinfomsg spec_bittiming spec_bittiming_const spec_clock spec_ctrlmode
  spec_berr_counters spec_stats c_sizeof
  encode_info encode_linkinfo encode_linkinfo_msg decode_linkinfo_from decode_linkinfo
  linkinfo_zero info_zero device_zero device_unmarshal set_bt set_cm kind_can kind_vcan bytes_eqb
  info_walk linkinfo_walk device_walk info_encode_prog linkinfo_encode_prog
  Z.add Z.mul Z.sub Z.ltb Z.leb Z.eqb Z.of_nat Z.to_nat Z.pow Z.modulo Z.div.
