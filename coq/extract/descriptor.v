(** Extraction of the executable descriptor model (pkg/descriptor/signal.go): integer part
    (Descriptor/Signal.v) and Flocq float part (Descriptor/Physical.v) with the decidable C09
    clause predicates.  Directives: ExtrOcamlBasic only; Z / positive / binary_float stay Coq
    inductives (proof arguments are erased by extraction). *)
From Coq Require Extraction ExtrOcamlBasic.
From Coq Require Import ZArith List.
From Flocq Require Import BinarySingleNaN.
From CanVerif Require Import Can.Data Descriptor.Signal Descriptor.Physical.
Extraction Language OCaml.
Extraction "model.ml"
  mk_signal
  unmarshal_unsigned unmarshal_signed unmarshal_bool
  marshal_unsigned marshal_signed marshal_bool
  max_unsigned_l min_signed_l max_signed_l min_signed_l_old max_signed_l_old
  saturated_cast_signed_l saturated_cast_unsigned_l
  value_description unmarshal_value_description
  f64_of_bits bits_of_f64 f32_of_bits bits_of_f32 f64_of_Z f32_of_f64 f64_of_f32
  unmarshal_float marshal_float saturated_cast_float
  to_physical from_physical setter_raw getter_physical unmarshal_physical
  to_physical_f from_physical_f
  sc off smin smax
  c09_class_f declared_f clamp_ok_f sat_ok_f mono_ok_f
  resolves_f rt_raw_ok_f rt_phys_ok_f in_range_f raw_in_range in_representable_f
  fadd fsub fmul fdiv fmin fmax is_nan is_finite Bleb Bltb Beqb Bsign Btrunc Bopp Babs
  valid_datab
  Z.add Z.mul Z.sub Z.ltb Z.leb Z.eqb Z.of_nat Z.to_nat Z.pow Z.modulo Z.div Z.abs Z.opp.
