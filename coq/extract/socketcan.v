(** Extraction of the executable model of pkg/socketcan (Wire.v, Receiver.v, Transmitter.v, Process.v, Glue.v) and of
    the executable specifications (WireSpec.v, ReceiverSpec.v) for the C06/C07 driver.
    Directives used: those of ExtrOcamlBasic only (bool, option, unit, prod, list, sumbool,
    sumor -> OCaml types; fst/snd/andb/orb/negb inlined). Z / positive / nat stay Coq inductives. *)
From Coq Require Extraction ExtrOcamlBasic.
From Coq Require Import ZArith List.
From CanVerif Require Import Socketcan.Wire Socketcan.WireSpec Socketcan.Receiver Socketcan.ReceiverSpec Socketcan.Transmitter Socketcan.Process Socketcan.ScanBuffer Socketcan.Glue Socketcan.Emulator Socketcan.Program.
Extraction Language OCaml.
Extraction "model.ml"
  validate S_validb wf_frameb block16b transmit_bytes S_layout receive16 S_decode
  receive_calls spec_calls delivered chunks16 frame_event no_stallb
  transmit transmit_all
  receivers_run transmitters_run see see_tx addressed_to
  geom0 prepare offered after_read
  receive_prog transmit_prog first_diff
  emu_run inbox_of spec_frames never bytes_of
  fileconn_run udp_run dial_run dial0 dial_finished dial_returned_conn unwrap_path_error
  Z.add Z.mul Z.sub Z.ltb Z.leb Z.eqb Z.of_nat Z.to_nat Z.pow Z.modulo Z.div.
