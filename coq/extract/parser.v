(** Extraction of the executable model of the DBC parser (text/scanner subset, parser.go, def.go,
    strconv helpers). ExtrOcamlBasic only; Z / positive / nat stay Coq inductives; no Coq [string]
    reaches the extracted code (keywords are byte-list constants computed at definition time). *)
From Coq Require Extraction ExtrOcamlBasic.
From Coq Require Import ZArith List.
From CanVerif Require Import Dbc.Ast Dbc.Scanner Dbc.DecFloat Dbc.Parser.
Extraction Language OCaml.
Extraction "model.ml"
  parse_bytes parse_bytes_old fuel_for
  parse_float parse_uint parse_uint_r atoi
  def_pos is_independent_signals_message msgid_valid file
  Z.add Z.mul Z.sub Z.ltb Z.leb Z.eqb Z.of_nat Z.to_nat Z.pow Z.modulo Z.div.
