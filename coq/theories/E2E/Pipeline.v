(** E2E/Pipeline: composition of the generated-code model (Gen/, properties C03/C10), the SocketCAN
    wire model (Socketcan/Wire.v, C06) and the receiver model (Socketcan/Receiver.v, C07).

    The statement: take ANY list of (message, state) pairs whose states satisfy the range
    invariant of C10. Marshal each with the generated Frame(), hand each frame to a Transmitter
    (one 16-byte Write each), let the connection deliver the concatenated byte stream under ANY
    segmentation into reads, and let a Receiver reassemble it. Then the client sees exactly the
    frames that were sent, in order, none reported as an error frame, each interceptor call made
    once with that frame, and unmarshalling the k-th received frame into a fresh message value of
    the k-th message succeeds and re-marshals to the identical frame.

    DEFINITIONS + PROOFS of the composition only; every ingredient is a theorem of its family. *)
From Coq Require Import ZArith List Bool Lia.
From CanVerif Require Import Can.Data Descriptor.Types.
From CanVerif Require Import Gen.Message Gen.History Gen.Layout Gen.LayoutProofs Gen.RoundTrip Gen.HistoryProofs.
From CanVerif Require Socketcan.Wire Socketcan.WireSpec Socketcan.WireProofs Socketcan.Receiver
  Socketcan.ReceiverSpec Socketcan.ReceiverProofs Socketcan.Transmitter Socketcan.TransmitterProofs.
Import ListNotations.
Open Scope Z_scope.

Module W := Socketcan.Wire.
Module WS := Socketcan.WireSpec.
Module WP := Socketcan.WireProofs.
Module R := Socketcan.Receiver.
Module RS := Socketcan.ReceiverSpec.
Module RP := Socketcan.ReceiverProofs.

(** can.Frame is one Go type; the two families model it with two records of the same fields *)
Definition to_wire (f : frame) : W.frame :=
  W.mkFrame (fr_id f) (fr_length f) (fr_data f) (fr_remote f) (fr_extended f).
Definition of_wire (f : W.frame) : frame :=
  {| fr_id := W.fid f; fr_length := W.flen f; fr_data := W.fdata f;
     fr_remote := W.fremote f; fr_extended := W.fext f |}.

Lemma of_to_wire f : of_wire (to_wire f) = f.
Proof. destruct f; reflexivity. Qed.

(** a sender: a message of the class of C03/C10 with a state satisfying the invariant *)
Definition sender_ok (ms : message * state) : Prop :=
  let (m, st) := ms in
  wf_message m /\ wf_mux m /\ wf_header m /\ inv (msg_signals m) st = true.

Definition sent_frame (ms : message * state) : W.frame := to_wire (frame_of (fst ms) (snd ms)).

(** the frame a generated message produces is a well-formed, valid wire frame *)
Lemma sent_frame_wf ms : sender_ok ms -> W.wf_frame (sent_frame ms) /\ W.validate (sent_frame ms) = true.
Proof.
  destruct ms as [m st]. intros (Hwf & Hmux & Hh & Hinv).
  pose proof (frame_data_valid m st (proj1 Hwf) Hinv) as [Hl Hb].
  destruct Hh as [Hid Hlen].
  unfold sent_frame, to_wire; cbn [fst snd].
  unfold frame_of; cbn [fr_id fr_length fr_data fr_remote fr_extended].
  fold (frame_of m st). split.
  - unfold W.wf_frame; cbn [W.fid W.flen W.fdata].
    split; [destruct (msg_extended m); lia|]. split; [lia|].
    split; [exact Hl|]. exact Hb.
  - unfold W.validate; cbn [W.fid W.flen W.fext].
    unfold W.MaxExtendedID, W.MaxID, W.MaxDataLength.
    destruct (msg_extended m); cbn [andb negb];
      repeat match goal with |- context [?a <? ?b] => destruct (Z.ltb_spec a b); try lia end; reflexivity.
Qed.

(** the byte stream the transmitters write: one 16-byte block per frame (C06/C07 transmit side) *)
Definition wire_stream (sends : list (message * state)) : list Z :=
  concat (map (fun ms => WS.S_layout (sent_frame ms)) sends).

Lemma transmit_is_layout ms : sender_ok ms ->
  W.transmit_bytes (sent_frame ms) = Some (WS.S_layout (sent_frame ms)) /\
  length (WS.S_layout (sent_frame ms)) = 16%nat.
Proof.
  intros H. destruct (sent_frame_wf ms H) as [Hwf Hv]. split.
  - apply WP.transmit_layout; assumption.
  - apply WP.S_layout_length. apply Hwf.
Qed.

Lemma chunks16_blocks (blocks : list (list Z)) :
  Forall (fun b => length b = 16%nat) blocks -> RS.chunks16 (concat blocks) = blocks.
Proof.
  induction 1 as [|b bs Hb _ IH]; [reflexivity|].
  cbn [concat]. rewrite RP.chunks16_cons by (rewrite app_length; lia).
  rewrite firstn_app, Hb, Nat.sub_diag, firstn_O, app_nil_r, firstn_all2 by lia.
  rewrite skipn_app, Hb, Nat.sub_diag, skipn_O, skipn_all2 by lia. cbn [app].
  rewrite IH. reflexivity.
Qed.

(** what the receiver's client sees for one sent frame: Receive() = true, the interceptor called
    once with the frame, Frame() = the frame, HasErrorFrame() = false *)
Lemma frame_event_sent ms : sender_ok ms ->
  exists ef, RS.frame_event (WS.S_layout (sent_frame ms)) =
             R.EvFrame [sent_frame ms] (sent_frame ms) false ef.
Proof.
  intros H. destruct (sent_frame_wf ms H) as [Hwf Hv].
  destruct (WP.roundtrip_explicit _ Hwf Hv) as (b & ef & Ht & _ & Hr).
  rewrite WP.transmit_layout in Ht by assumption. injection Ht as <-.
  exists ef. unfold RS.frame_event. rewrite Hr. reflexivity.
Qed.

(** "Receive() returned true; Frame() = f; HasErrorFrame() = false; the interceptor was called
    exactly once, with f" *)
Inductive delivers : R.event -> W.frame -> Prop :=
| Delivers f ef : delivers (R.EvFrame [f] f false ef) f.

Lemma map_frame_event_sent sends : Forall sender_ok sends ->
  Forall2 delivers (map (fun ms => RS.frame_event (WS.S_layout (sent_frame ms))) sends) (map sent_frame sends).
Proof.
  induction 1 as [|ms l H _ IH]; cbn [map]; constructor; [|exact IH].
  destruct (frame_event_sent ms H) as [ef ->]. constructor.
Qed.

Lemma wire_stream_blocks sends : Forall sender_ok sends ->
  RS.chunks16 (wire_stream sends) = map (fun ms => WS.S_layout (sent_frame ms)) sends /\
  length (wire_stream sends) = (16 * length sends)%nat.
Proof.
  intros H. unfold wire_stream. split.
  - apply chunks16_blocks. apply Forall_map. eapply Forall_impl; [|exact H].
    intros ms Hms. apply (transmit_is_layout ms Hms).
  - induction H as [|ms l Hms _ IH]; [reflexivity|].
    cbn [map concat length]. rewrite app_length, IH, (proj2 (transmit_is_layout ms Hms)). lia.
Qed.

(** THE PIPELINE THEOREM. Any senders, any segmentation of the written byte stream into reads
    (empty reads allowed, never 101 in a row), clean end of stream: the first [length sends]
    calls of Receive() deliver exactly the sent frames in order, and every later call returns
    false with Err() = nil. *)
Theorem pipeline_delivers sends chunks rest extra :
  Forall sender_ok sends -> RS.no_stall 0 chunks -> concat chunks = wire_stream sends ->
  exists evs,
    R.receive_calls (length sends + extra) (map R.RData chunks ++ R.REOF :: rest) =
      evs ++ repeat (RS.stop_event None) extra /\
    Forall2 delivers evs (map sent_frame sends).
Proof.
  intros Hs Hns Hc.
  rewrite RP.receive_clean by exact Hns. cbv zeta. rewrite Hc.
  destruct (wire_stream_blocks sends Hs) as [Hb Hl]. rewrite Hb.
  exists (map RS.frame_event (map (fun ms => WS.S_layout (sent_frame ms)) sends)). split.
  - rewrite firstn_all2 by (rewrite !map_length; lia).
    rewrite !map_length. replace (length sends + extra - length sends)%nat with extra by lia. reflexivity.
  - rewrite map_map. apply map_frame_event_sent. exact Hs.
Qed.

(** ... and each delivered frame decodes, with the generated UnmarshalFrame of its message applied
    to ANY message value satisfying the invariant (in particular a fresh one), to a state that
    marshals to the identical frame: nothing is lost or altered between Frame() at the sender and
    UnmarshalFrame() at the receiver. *)
Theorem pipeline_decodes m st st0 :
  sender_ok (m, st) -> inv (msg_signals m) st0 = true ->
  exists st', unmarshal m (of_wire (sent_frame (m, st))) st0 = inr st' /\
              inv (msg_signals m) st' = true /\ frame_of m st' = frame_of m st.
Proof.
  intros (Hwf & Hmux & _ & Hinv) Hinv0. unfold sent_frame; cbn [fst snd]. rewrite of_to_wire.
  apply reencode; assumption.
Qed.

(** the transmit side: what each TransmitFrame call writes is exactly the block used above *)
Theorem pipeline_transmit sends : Forall sender_ok sends ->
  Forall (fun ms => W.transmit_bytes (sent_frame ms) = Some (WS.S_layout (sent_frame ms))
                    /\ length (WS.S_layout (sent_frame ms)) = 16%nat) sends.
Proof. intros H. eapply Forall_impl; [|exact H]. intros ms Hms. apply transmit_is_layout, Hms. Qed.

(** the zero value of a generated message type (what `var msg T` holds before UnmarshalFrame in the
    dispatcher) satisfies the range invariant *)
Lemma in_range_zero s : wf_signal s -> in_range s 0 = true.
Proof.
  intros [[Hl1 Hl2] _]. unfold in_range, raw_lo, raw_hi.
  assert (0 < 2 ^ (s_length s - 1)) by (apply Z.pow_pos_nonneg; lia).
  assert (0 < 2 ^ s_length s) by (apply Z.pow_pos_nonneg; lia).
  destruct (signal_prim_type s); try reflexivity;
    destruct (s_signed s); apply andb_true_iff; split; apply Z.leb_le; lia.
Qed.

Lemma zero_state_inv ss : Forall wf_signal ss -> inv ss (map (fun _ => 0) ss) = true.
Proof.
  induction 1 as [|s l Hs _ IH]; [reflexivity|]. cbn [map inv].
  rewrite in_range_zero by exact Hs. exact IH.
Qed.

(** receiving side of a node: the database dispatcher applied to a delivered frame finds the
    sender's message (when it is the one registered for that ID) and decodes the frame into a state
    that marshals to the identical frame *)
Theorem pipeline_dispatch db m st :
  sender_ok (m, st) -> find_message (db_messages db) (msg_id m) = Some m ->
  exists st', dispatch db (of_wire (sent_frame (m, st))) = Some (m, inr st') /\
              inv (msg_signals m) st' = true /\ frame_of m st' = frame_of m st.
Proof.
  intros Hok Hf. pose proof Hok as (Hwf & _ & _ & _).
  destruct (pipeline_decodes m st (map (fun _ => 0) (msg_signals m)) Hok
              (zero_state_inv _ (proj1 Hwf))) as (st' & Hu & Hi & Hfr).
  exists st'. split; [|split; assumption].
  unfold dispatch, sent_frame in *; cbn [fst snd] in *. rewrite of_to_wire in *.
  unfold frame_of at 1; cbn [fr_id]. rewrite Hf, Hu. reflexivity.
Qed.
