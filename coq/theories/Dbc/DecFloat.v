(** Numeric helpers of the DBC parser: strconv.ParseFloat(s, 64), strconv.ParseUint(s, 10, 64)
    (also with the kind of its error), strconv.Atoi, int64(float64), and the token -> int64
    conversion of Parser.int ([int_of_token]: after the fix F12 decimal integer tokens are converted
    exactly; [int_of_token_old]: the code as it was, everything through float64, with int64(2^63) as
    executed on amd64).  DEFINITIONS ONLY; proofs about the conversion in Dbc/IntConv.v.

    Strings are byte lists ([list Z], 0..255); float64 results are IEEE-754 bit patterns ([Z]).

    ParseFloat is modelled as: the syntax accepted by strconv.readFloat (decimal and hexadecimal
    mantissa, '_' separators under strconv.underscoreOK, saturating exponent accumulation
    [e < 10000], transcribed), followed by the CORRECTLY ROUNDED (nearest-even) conversion of the
    exact value to binary64, computed with the specification-level operations of Coq's standard
    library [Floats.SpecFloat] ([binary_normalize], [SFdiv_core_binary], [binary_round_aux]; these
    are the same functions Flocq proves correct); a result that rounds to infinity is the
    ErrRange error ([None]).  Go's shortcuts [dp > 310 -> overflow], [dp < -330 -> 0] are kept (they
    agree with correct rounding and bound the size of the powers of ten).
    Modelling boundary: Go's slow path keeps only the first 800 significant digits AND takes the
    decimal point position from that capped count; the model always uses the true count. The two can
    differ only for literals with more than 800 significant digits whose rounding is not decided by
    the Eisel-Lemire fast path; outside the class of DESIGN 4.1 (<= 19 mantissa digits). *)
From Coq Require Import ZArith List Bool Floats.SpecFloat.
From CanVerif Require Import Dbc.Ast.
Import ListNotations.
Open Scope Z_scope.

Definition two63 : Z := Eval compute in 2 ^ 63.
Definition two64 : Z := Eval compute in 2 ^ 64.
Definition two52 : Z := Eval compute in 2 ^ 52.

Definition dig (c : Z) : bool := (48 <=? c) && (c <=? 57).
Definition lower_b (c : Z) : Z := Z.lor 32 c.
Definition hexletter (c : Z) : bool := (97 <=? lower_b c) && (lower_b c <=? 102).

(** ------------------------------------------------------------ binary64 bit patterns *)

(** bits of a (canonical) finite spec_float; None for infinity/NaN *)
Definition b64_bits_of_spec (f : spec_float) : option Z :=
  match f with
  | S754_zero s => Some (if s then two63 else 0)
  | S754_finite s m e =>
    let m := Zpos m in
    let mag := if two52 <=? m then (e + 1075) * two52 + (m - two52) else m in
    Some (mag + (if s then two63 else 0))
  | S754_infinity _ => None
  | S754_nan => None
  end.

(** nearest-even binary64 of m * 10^e, m > 0 *)
Definition dec_to_spec (m : positive) (e : Z) : spec_float :=
  if 0 <=? e then binary_normalize 53 1024 (Zpos m * 10 ^ e) 0 false
  else
    let '(q, e', l) := SFdiv_core_binary 53 1024 (Zpos m) 0 (10 ^ (- e)) 0 in
    binary_round_aux 53 1024 false q e' l.

(** nearest-even binary64 of m * 2^e *)
Definition bin_to_spec (m : positive) (e : Z) : spec_float := binary_normalize 53 1024 (Zpos m) e false.

(** f *= -1 on a non-negative float *)
Definition b64_neg (bits : Z) : Z := if bits <? two63 then bits + two63 else bits - two63.

(** truncation toward zero of a non-negative finite binary64 *)
Definition b64_trunc (bits : Z) : Z :=
  let e := (bits / two52) mod 2048 in
  let f := bits mod two52 in
  if e =? 0 then 0
  else
    let m := f + two52 in
    let sh := e - 1075 in
    if 0 <=? sh then m * 2 ^ sh else m / 2 ^ (- sh).

Definition bits_two63 : Z := 0x43E0000000000000.   (* float64(2^63) = float64(math.MaxInt64) *)

(** int64(f) with the clamps of Parser.int for a non-negative finite f (after the fix F12: the upper
    test is [f >= math.MaxInt64], and float64(math.MaxInt64) = 2^63, so every f >= 2^63 saturates
    before the conversion is looked at) *)
Definition int64_of_b64 (bits : Z) : Z :=
  if bits_two63 <=? bits then two63 - 1 else b64_trunc bits.

(** the code as it was (F12): the test was [f > math.MaxInt64]; [f == 2^63] went on to int64(f),
    which is out of int64's range: amd64's CVTTSD2SQ yields the "integer indefinite" value MinInt64 *)
Definition int64_of_b64_old (bits : Z) : Z :=
  if bits_two63 <? bits then two63 - 1
  else if bits =? bits_two63 then - two63
  else b64_trunc bits.

(** int64 multiplication by -1 with wrap-around *)
Definition neg64 (i : Z) : Z := if i =? - two63 then i else - i.

(** ------------------------------------------------------------ strconv.underscoreOK *)

(* saw: 94 '^', 48 '0', 95 '_', 33 '!' *)
Fixpoint underscore_loop (s : bytes) (saw : Z) (hex : bool) : bool :=
  match s with
  | [] => negb (saw =? 95)
  | c :: t =>
    if dig c || (hex && hexletter c) then underscore_loop t 48 hex
    else if c =? 95 then (if saw =? 48 then underscore_loop t 95 hex else false)
    else if saw =? 95 then false
    else underscore_loop t 33 hex
  end.

Definition underscore_ok (s : bytes) : bool :=
  let s := match s with
           | c :: t => if (c =? 45) || (c =? 43) then t else s
           | [] => s
           end in
  match s with
  | 48 :: c1 :: t =>
    if (lower_b c1 =? 98) || (lower_b c1 =? 111) || (lower_b c1 =? 120)
    then underscore_loop t 48 (lower_b c1 =? 120)
    else underscore_loop s 94 false
  | _ => underscore_loop s 94 false
  end.

(** ------------------------------------------------------------ strconv.readFloat *)

Record mant := {
  mt_sawdot : bool; mt_sawdigits : bool; mt_nd : Z; mt_dp : Z; mt_val : Z; mt_us : bool }.

(** the mantissa loop; returns the state and the unread rest *)
Fixpoint mant_loop (s : bytes) (hex : bool) (m : mant) : mant * bytes :=
  match s with
  | [] => (m, [])
  | c :: t =>
    if c =? 95 then
      mant_loop t hex {| mt_sawdot := mt_sawdot m; mt_sawdigits := mt_sawdigits m; mt_nd := mt_nd m;
                         mt_dp := mt_dp m; mt_val := mt_val m; mt_us := true |}
    else if c =? 46 then
      if mt_sawdot m then (m, s)
      else mant_loop t hex {| mt_sawdot := true; mt_sawdigits := mt_sawdigits m; mt_nd := mt_nd m;
                              mt_dp := mt_nd m; mt_val := mt_val m; mt_us := mt_us m |}
    else if dig c then
      if (c =? 48) && (mt_nd m =? 0) then
        mant_loop t hex {| mt_sawdot := mt_sawdot m; mt_sawdigits := true; mt_nd := 0;
                           mt_dp := mt_dp m - 1; mt_val := mt_val m; mt_us := mt_us m |}
      else
        mant_loop t hex {| mt_sawdot := mt_sawdot m; mt_sawdigits := true; mt_nd := mt_nd m + 1;
                           mt_dp := mt_dp m;
                           mt_val := mt_val m * (if hex then 16 else 10) + (c - 48); mt_us := mt_us m |}
    else if hex && hexletter c then
      mant_loop t hex {| mt_sawdot := mt_sawdot m; mt_sawdigits := true; mt_nd := mt_nd m + 1;
                         mt_dp := mt_dp m; mt_val := mt_val m * 16 + (lower_b c - 97 + 10); mt_us := mt_us m |}
    else (m, s)
  end.

(** exponent digits: e saturates (only accumulated while e < 10000); returns (e, rest) *)
Fixpoint exp_loop (s : bytes) (e : Z) : Z * bytes :=
  match s with
  | [] => (e, [])
  | c :: t =>
    if c =? 95 then exp_loop t e
    else if dig c then exp_loop t (if e <? 10000 then e * 10 + (c - 48) else e)
    else (e, s)
  end.

(** result of readFloat when ok and the whole string was consumed:
    (neg, hex, D, nd, dp) with value = D * base^(-nd) * (10^dp | 2^dp)  *)
Definition read_float (s0 : bytes) : option (bool * bool * Z * Z * Z) :=
  match s0 with
  | [] => None
  | c0 :: t0 =>
    let '(neg, s) := if c0 =? 43 then (false, t0) else if c0 =? 45 then (true, t0) else (false, s0) in
    let '(hex, s) :=
      match s with
      | 48 :: c1 :: c2 :: t => if lower_b c1 =? 120 then (true, c2 :: t) else (false, s)
      | _ => (false, s)
      end in
    let '(m, rest) := mant_loop s hex {| mt_sawdot := false; mt_sawdigits := false; mt_nd := 0; mt_dp := 0;
                                         mt_val := 0; mt_us := false |} in
    if negb (mt_sawdigits m) then None
    else
      let dp := if mt_sawdot m then mt_dp m else mt_nd m in
      let dp := if hex then dp * 4 else dp in
      let exp_char := if hex then 112 else 101 in
      let after_exp : option (Z * bytes) :=
        match rest with
        | c :: t =>
          if lower_b c =? exp_char then
            match t with
            | [] => None
            | c1 :: t1 =>
              let '(esign, t2) := if c1 =? 43 then (1, t1) else if c1 =? 45 then (-1, t1) else (1, t) in
              match t2 with
              | d :: _ =>
                if dig d then let '(e, r) := exp_loop t2 0 in Some (dp + e * esign, r) else None
              | [] => None
              end
            end
          else if hex then None else Some (dp, rest)
        | [] => if hex then None else Some (dp, rest)
        end in
      match after_exp with
      | None => None
      | Some (dp, r) =>
        match r with
        | [] =>
          if underscore_ok s0 then Some (neg, hex, mt_val m, mt_nd m, dp) else None
        | _ => None            (* ParseFloat: n != len(s) is a syntax error *)
        end
      end
  end.

(** strconv.ParseFloat(s, 64) for strings that are not "inf"/"nan" spellings (number tokens begin
    with a digit or '.'); None = any error (syntax or range) *)
Definition parse_float (s : bytes) : option Z :=
  match read_float s with
  | None => None
  | Some (neg, hex, d, nd, dp) =>
    let signed (o : option Z) :=
      match o with Some b => Some (if neg then b + two63 else b) | None => None end in
    match d with
    | Zpos m =>
      if hex then signed (b64_bits_of_spec (bin_to_spec m (dp - 4 * nd)))
      else if 310 <? dp then None
      else if dp <? -330 then signed (Some 0)
      else signed (b64_bits_of_spec (dec_to_spec m (dp - nd)))
    | _ => signed (Some 0)
    end
  end.

(** ------------------------------------------------------------ ParseUint / Atoi *)

(** decimal digits folded with the uint64 overflow check *)
Fixpoint uint_loop (s : bytes) (acc : Z) : option Z :=
  match s with
  | [] => Some acc
  | c :: t =>
    if dig c then
      let acc' := acc * 10 + (c - 48) in
      if two64 <=? acc' then None else uint_loop t acc'
    else None
  end.

(** strconv.ParseUint(s, 10, 64) *)
Definition parse_uint (s : bytes) : option Z :=
  match s with
  | [] => None
  | _ => uint_loop s 0
  end.

(** strconv.ParseUint(s, 10, 64) with the kind of error: the characters are folded left to right;
    the first non-digit is ErrSyntax, the first overflow is ErrRange (whatever follows it), and the
    empty string is ErrSyntax *)
Inductive uint_res := UOk (u : Z) | URange | USyntax.

Fixpoint uint_loop_r (s : bytes) (acc : Z) : uint_res :=
  match s with
  | [] => UOk acc
  | c :: t =>
    if dig c then
      let acc' := acc * 10 + (c - 48) in
      if two64 <=? acc' then URange else uint_loop_r t acc'
    else USyntax
  end.

Definition parse_uint_r (s : bytes) : uint_res :=
  match s with
  | [] => USyntax
  | _ => uint_loop_r s 0
  end.

(** ------------------------------------------------------------ Parser.int: token -> int64 *)

(** an unsigned magnitude with the sign read before it, saturated at the int64 limits
    (the switch of Parser.int after F12) *)
Definition int_of_uint (neg : bool) (u : Z) : Z :=
  if neg then (if two63 <=? u then - two63 else - u)
  else (if two63 <=? u then two63 - 1 else u).

(** the float64 path of Parser.int: ParseFloat, int64 conversion with clamps, then [i *= -1] *)
Definition int_of_float_text (neg : bool) (txt : bytes) : option Z :=
  match parse_float txt with
  | Some b => let i := int64_of_b64 b in Some (if neg then neg64 i else i)
  | None => None
  end.

(** Parser.int's conversion of a number token ([is_int]: scanner.Int, else scanner.Float) that was
    preceded by '-' iff [neg]; None = "invalid int".  A scanner.Int token that ParseUint(txt, 10, 64)
    accepts, or rejects with ErrRange (result math.MaxUint64), is converted exactly and saturated;
    everything else (float spellings; Int tokens with '_', 0x, 0b, 0o) goes through float64 *)
Definition int_of_token (is_int neg : bool) (txt : bytes) : option Z :=
  if is_int then
    match parse_uint_r txt with
    | UOk u => Some (int_of_uint neg u)
    | URange => Some (int_of_uint neg (two64 - 1))
    | USyntax => int_of_float_text neg txt
    end
  else int_of_float_text neg txt.

(** the code as it was (F12): every token through float64, upper clamp with '>' *)
Definition int_of_token_old (neg : bool) (txt : bytes) : option Z :=
  match parse_float txt with
  | Some b => let i := int64_of_b64_old b in Some (if neg then neg64 i else i)
  | None => None
  end.

(** strconv.Atoi (int is 64 bits) *)
Definition atoi (s : bytes) : option Z :=
  let '(neg, ds) :=
    match s with
    | 43 :: t => (false, t)
    | 45 :: t => (true, t)
    | _ => (false, s)
    end in
  match parse_uint ds with
  | None => None
  | Some n =>
    if neg then (if n <=? two63 then Some (- n) else None)
    else (if n <? two63 then Some n else None)
  end.
