(** The parsed DBC definitions of /repo/pkg/dbc/def.go as Coq data (shared by the parser,
    lint and compile models).

    Conventions: a Go [string] is its UTF-8 byte sequence, [list Z] with bytes in 0..255;
    [float64] fields hold the IEEE-754 binary64 BIT PATTERN as a [Z] in 0..2^64-1 (so this file
    needs no floating-point library; Flocq-based files convert with [b64_of_bits]);
    uint64 / int64 fields are mathematical integers in the type's range;
    [MessageID] is the raw 32-bit DBC id (bit 31 = extended flag). DEFINITIONS ONLY. *)
From Coq Require Import ZArith List String Ascii Bool.
Import ListNotations.
Open Scope Z_scope.

Definition bytes := list Z.

Definition bytes_of_string (s : string) : bytes :=
  List.map (fun c => Z.of_nat (nat_of_ascii c)) (list_ascii_of_string s).

Fixpoint bytes_eqb (a b : bytes) : bool :=
  match a, b with
  | [], [] => true
  | x :: a', y :: b' => (x =? y) && bytes_eqb a' b'
  | _, _ => false
  end.

(** text/scanner.Position: 1-based line, 1-based column counted in characters, byte offset *)
Record position := { p_line : Z; p_column : Z; p_offset : Z }.

(** ObjectType (objecttype.go): "", BU_, BO_, SG_, EV_ *)
Inductive object_type := OtUnspecified | OtNode | OtMessage | OtSignal | OtEnvVar.
(** AttributeValueType: INT HEX FLOAT STRING ENUM *)
Inductive attr_type := AtInt | AtHex | AtFloat | AtString | AtEnum.
(** AccessType DUMMY_NODE_VECTOR0..3 *)
Inductive access_type := AccUnrestricted | AccRead | AccWrite | AccReadWrite.

Record value_description_def := {
  vd_pos : position; vd_value : Z (* float64 bits *); vd_description : bytes }.

Record signal_def := {
  sg_pos : position;
  sg_name : bytes;
  sg_start : Z;
  sg_size : Z;
  sg_big_endian : bool;
  sg_signed : bool;
  sg_mux_switch : bool;       (* IsMultiplexerSwitch: 'M' *)
  sg_multiplexed : bool;      (* IsMultiplexed: 'm<k>' *)
  sg_mux_value : Z;           (* MultiplexerSwitch *)
  sg_offset : Z; sg_factor : Z; sg_min : Z; sg_max : Z;  (* float64 bits *)
  sg_unit : bytes;
  sg_receivers : list bytes }.

Record message_def := {
  m_pos : position;
  m_id : Z;                   (* MessageID, raw *)
  m_name : bytes;
  m_size : Z;
  m_transmitter : bytes;
  m_signals : list signal_def }.

Record envvar_def := {
  ev_pos : position; ev_name : bytes; ev_type : Z (* 0 int, 1 float, 2 string *);
  ev_min : Z; ev_max : Z; ev_unit : bytes; ev_initial : Z; ev_id : Z;
  ev_access : access_type; ev_access_nodes : list bytes }.

Record comment_def := {
  cm_pos : position; cm_object : object_type; cm_node : bytes; cm_message_id : Z;
  cm_signal : bytes; cm_envvar : bytes; cm_comment : bytes }.

Record attribute_def := {
  ad_pos : position; ad_object : object_type; ad_name : bytes; ad_type : attr_type;
  ad_min_int : Z; ad_max_int : Z; ad_min_float : Z; ad_max_float : Z; ad_enum_values : list bytes }.

Record attribute_default_def := {
  dd_pos : position; dd_name : bytes; dd_int : Z; dd_float : Z; dd_string : bytes }.

Record attribute_value_def := {
  av_pos : position; av_name : bytes; av_object : object_type; av_message_id : Z;
  av_signal : bytes; av_node : bytes; av_envvar : bytes; av_int : Z; av_float : Z; av_string : bytes }.

Record value_descriptions_def := {
  vs_pos : position; vs_object : object_type (* OtSignal or OtEnvVar *); vs_message_id : Z;
  vs_signal : bytes; vs_envvar : bytes; vs_values : list value_description_def }.

Inductive def :=
| DVersion (pos : position) (version : bytes)
| DNewSymbols (pos : position) (symbols : list bytes)
| DBitTiming (pos : position) (baud btr1 btr2 : Z)
| DNodes (pos : position) (names : list bytes)
| DValueTable (pos : position) (name : bytes) (values : list value_description_def)
| DMessage (m : message_def)
| DSignal (s : signal_def)                       (* a top-level SG_ line *)
| DSignalValueType (pos : position) (message_id : Z) (signal : bytes) (value_type : Z)
| DMessageTransmitters (pos : position) (message_id : Z) (transmitters : list bytes)
| DValueDescriptions (v : value_descriptions_def)
| DEnvVar (e : envvar_def)
| DEnvVarData (pos : position) (name : bytes) (size : Z)
| DComment (c : comment_def)
| DAttribute (a : attribute_def)
| DAttributeDefault (a : attribute_default_def)
| DAttributeValue (a : attribute_value_def)
| DUnknown (pos : position) (keyword : bytes).

Definition def_pos (d : def) : position :=
  match d with
  | DVersion p _ | DNewSymbols p _ | DBitTiming p _ _ _ | DNodes p _ | DValueTable p _ _
  | DSignalValueType p _ _ _ | DMessageTransmitters p _ _ | DEnvVarData p _ _ | DUnknown p _ => p
  | DMessage m => m_pos m
  | DSignal s => sg_pos s
  | DValueDescriptions v => vs_pos v
  | DEnvVar e => ev_pos e
  | DComment c => cm_pos c
  | DAttribute a => ad_pos a
  | DAttributeDefault a => dd_pos a
  | DAttributeValue a => av_pos a
  end.

(** messageid.go *)
Definition msgid_independent : Z := 0xC0000000.
Definition msgid_is_extended (m : Z) : bool := negb (m =? msgid_independent) && (0 <? Z.land m 0x80000000).
Definition msgid_to_can (m : Z) : Z := Z.land m 0x7FFFFFFF.
Definition msgid_valid (m : Z) : bool :=
  if m =? msgid_independent then true
  else if msgid_is_extended m then msgid_to_can m <=? 0x1FFFFFFF
  else msgid_to_can m <=? 0x7FF.

(** independent_signals.go *)
(* string constants are computed at definition time so that extraction never sees Coq's [string] *)
Definition independent_signals_name : bytes := Eval compute in bytes_of_string "VECTOR__INDEPENDENT_SIG_MSG".
Definition is_independent_signals_message (m : message_def) : bool :=
  bytes_eqb (m_name m) independent_signals_name && (m_id m =? msgid_independent) && (m_size m =? 0).

(** a whole parsed file: the raw bytes and the definitions *)
Record file := { f_data : bytes; f_defs : list def }.
