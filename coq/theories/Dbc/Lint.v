(** Executable model of the 20 lint analyzers of /repo/pkg/dbc/analysis/passes/*/analyzer.go
    (property C18).  DEFINITIONS ONLY; the declarative rules are in LintSpec.v, the proofs in
    LintProofs.v.

    Conventions (as in Dbc/Ast.v): a Go [string] is its UTF-8 byte sequence ([bytes] = list Z),
    float64 fields are IEEE-754 bit patterns, uint64/int64 fields are integers in the type's range.
    Every [X_run] takes the whole [file] (raw bytes + definitions) and returns
    [Ok diagnostics | Panic]; a Go loop that only appends diagnostics is [for_each]; a loop that
    carries state (a map, a counter, a pointer) is written as a Fixpoint with that state as an
    argument; Go indexing that can fail ([Defs[0]]) is partial ([nth_error]) and its failure is
    [Panic].

    MAIN definitions model the FIXED code (fixes/F5.patch, fixes/F6.patch):
      F5  requireddefinitions reported at [Defs[0].Position()] and panicked on a file without
          definitions: [requireddefinitions_run_old]; fixed: position 1:1 like lineendings.
      F6  intervals reported a FLOAT attribute with min > max twice: [intervals_run_old].

    Oracles (Go language / standard library behaviour that is modelled here, used by model AND
    specification, and exercised against the real thing by the correspondence run):
      [utf8_runes]        the runes of `for _, r := range s` (invalid bytes give U+FFFD, width 1)
      [uni_digit]         unicode.IsDigit   - Section variable (a function parameter after the Section)
      [uni_upper]         unicode.IsUpper   - Section variable
      [has_prefix]/[has_suffix]  strings.HasPrefix / strings.HasSuffix
      [f64_gt]            `>` on float64 (bit patterns)
      [f64_to_int64]      int64(f) on amd64 (CVTTSD2SQ: NaN/overflow give -2^63)
      [decimal_len]       len(fmt.Sprintf("%d", i)) *)
From Coq Require Import String.
From Coq Require Import ZArith List Bool.
From CanVerif Require Import Dbc.Ast.
Import ListNotations.
Open Scope Z_scope.

(* ------------------------------------------------------------------------------------------ *)
(** * Diagnostics *)

(** the message KIND of a diagnostic (one constructor per Reportf call site), with the arguments
    of the format string where they identify the violation *)
Inductive msg :=
| MBoolPrefix                         (* "bool signals (1-bit) must have prefix Is or Has" *)
| MOutOfOrder                         (* "definition out of order" *)
| MIntervalFloat (mn mx : Z)          (* "invalid interval: [%f, %f]"  (float64 bits) *)
| MIntervalInt (mn mx : Z)            (* "invalid interval: [%d, %d]" *)
| MLineEndings                        (* "file must not contain Windows line-endings (\r\n)" *)
| MMessageName                        (* "message names must be CamelCase" *)
| MMuxMany                            (* "more than one multiplexer switch" *)
| MMuxSigned                          (* "signed multiplexer switch" *)
| MMuxBoth                            (* "can't be multiplexer and multiplexed" *)
| MMuxNoSwitch                        (* "no multiplexer switch for multiplexed signal" *)
| MMuxExceeds (maxv : Z)              (* "multiplexer switch exceeds max value: %v" *)
| MNewSymbols                         (* "new symbols should be empty" *)
| MUndeclTransmitter (n : bytes)      (* "undeclared transmitter node: %v" *)
| MUndeclReceiver (n : bytes)         (* "undeclared receiver node: %v" *)
| MUndeclAccess (n : bytes)           (* "undeclared access node: %v" *)
| MReserved                           (* "remove reserved signals" *)
| MMissingRequired                    (* "missing required definition(s)" *)
| MStartBit                           (* "start bit out of bounds" *)
| MSignalName                         (* "signal names must be CamelCase" *)
| MSingleton                          (* "more than one definition not allowed" *)
| MSiUnit (unit si : bytes)           (* "signal with unit %s should have SI unit %s" *)
| MDupMessageID                       (* "non-unique message ID" *)
| MDupNodeName                        (* "non-unique node name" *)
| MDupSignalName                      (* "non-unique signal name" *)
| MUnitSuffix (unit suffix : bytes)   (* "signal with unit %s must have suffix %s" *)
| MValueDescription                   (* "value description must be CamelCase (numbers ignored)" *)
| MVersion.                           (* "version should be empty" *)

Record diagnostic := { dg_pos : position; dg_msg : msg }.
Definition diag (p : position) (m : msg) : diagnostic := {| dg_pos := p; dg_msg := m |}.

Inductive outcome := Ok (ds : list diagnostic) | Panic.

(** `for _, x := range xs { body }` where the body only appends diagnostics *)
Definition for_each {A : Type} (xs : list A) (body : A -> list diagnostic) : list diagnostic :=
  flat_map body xs.

(** scanner.Position{Line: 1, Column: 1} (Offset 0) *)
Definition pos_1_1 : position := {| p_line := 1; p_column := 1; p_offset := 0 |}.

Definition max_uint64 : Z := 2 ^ 64 - 1.

(* ------------------------------------------------------------------------------------------ *)
(** * Oracles: strings, runes, floats *)

(** strings.HasPrefix(s, p) = len(s) >= len(p) && s[:len(p)] == p *)
Definition has_prefix (p s : bytes) : bool :=
  (length p <=? length s)%nat && bytes_eqb (firstn (length p) s) p.
(** strings.HasSuffix(s, x) = len(s) >= len(x) && s[len(s)-len(x):] == x *)
Definition has_suffix (x s : bytes) : bool :=
  (length x <=? length s)%nat && bytes_eqb (skipn (length s - length x) s) x.

(** map lookup in a map literal with distinct keys *)
Fixpoint lookup (k : bytes) (m : list (bytes * bytes)) : option bytes :=
  match m with
  | [] => None
  | (k', v) :: tl => if bytes_eqb k k' then Some v else lookup k tl
  end.

(** membership in a map[Identifier]struct{} / map[MessageID]struct{} used as a set *)
Definition mem_bytes (n : bytes) (set : list bytes) : bool := existsb (bytes_eqb n) set.
Definition mem_Z (n : Z) (set : list Z) : bool := existsb (Z.eqb n) set.

(** UTF-8 decoding of the first rune of a non-empty string as done by `range` (unicode/utf8
    tables: shortest form only, no surrogates, <= U+10FFFF; anything else is U+FFFD of width 1) *)
Definition rune_error : Z := 65533.
Definition is_cont (b : Z) : bool := (128 <=? b) && (b <=? 191).
Definition decode_first (s : bytes) : Z * nat :=
  let err := (rune_error, 1%nat) in
  match s with
  | [] => err
  | b0 :: t =>
    if b0 <? 128 then (b0, 1%nat)
    else if (194 <=? b0) && (b0 <=? 223) then
      match t with
      | b1 :: _ => if is_cont b1 then ((b0 mod 32) * 64 + b1 mod 64, 2%nat) else err
      | _ => err
      end
    else if (224 <=? b0) && (b0 <=? 239) then
      match t with
      | b1 :: b2 :: _ =>
        let lo := if b0 =? 224 then 160 else 128 in
        let hi := if b0 =? 237 then 159 else 191 in
        if (lo <=? b1) && (b1 <=? hi) && is_cont b2
        then ((b0 mod 16) * 4096 + (b1 mod 64) * 64 + b2 mod 64, 3%nat) else err
      | _ => err
      end
    else if (240 <=? b0) && (b0 <=? 244) then
      match t with
      | b1 :: b2 :: b3 :: _ =>
        let lo := if b0 =? 240 then 144 else 128 in
        let hi := if b0 =? 244 then 143 else 191 in
        if (lo <=? b1) && (b1 <=? hi) && is_cont b2 && is_cont b3
        then ((b0 mod 8) * 262144 + (b1 mod 64) * 4096 + (b2 mod 64) * 64 + b3 mod 64, 4%nat) else err
      | _ => err
      end
    else err
  end.

Fixpoint runes_fuel (fuel : nat) (s : bytes) : list Z :=
  match fuel with
  | O => []
  | S fuel' =>
    match s with
    | [] => []
    | _ => let (r, w) := decode_first s in r :: runes_fuel fuel' (skipn w s)
    end
  end.
Definition utf8_runes (s : bytes) : list Z := runes_fuel (length s) s.

(** float64 `>` on bit patterns: false when either side is NaN; -0 = +0 *)
Definition f64_is_nan (b : Z) : bool := ((b / 2 ^ 52) mod 2 ^ 11 =? 2047) && negb (b mod 2 ^ 52 =? 0).
Definition f64_key (b : Z) : Z :=
  let mag := b mod 2 ^ 63 in if (b / 2 ^ 63) mod 2 =? 1 then - mag else mag.
Definition f64_gt (a b : Z) : bool :=
  negb (f64_is_nan a) && negb (f64_is_nan b) && (f64_key b <? f64_key a).

(** int64(f) for a float64 f, as compiled for amd64: truncation toward zero; NaN, infinities and
    values outside the int64 range give -2^63 *)
Definition int64_min : Z := - 2 ^ 63.
Definition f64_to_int64 (b : Z) : Z :=
  let sign := (b / 2 ^ 63) mod 2 in
  let e := (b / 2 ^ 52) mod 2 ^ 11 in
  let m := b mod 2 ^ 52 in
  if e =? 2047 then int64_min
  else if e =? 0 then 0
  else
    let mant := 2 ^ 52 + m in
    let mag := if 1075 <=? e then mant * 2 ^ (e - 1075) else mant / 2 ^ (1075 - e) in
    if sign =? 0 then (if mag <? 2 ^ 63 then mag else int64_min)
    else (if mag <=? 2 ^ 63 then - mag else int64_min).

(** number of characters of fmt.Sprintf("%d", i) for an int64 i *)
Fixpoint ndigits (fuel : nat) (n : Z) : Z :=
  match fuel with
  | O => 1
  | S fuel' => if n <? 10 then 1 else 1 + ndigits fuel' (n / 10)
  end.
Definition decimal_len (i : Z) : Z := if i <? 0 then 1 + ndigits 20 (- i) else ndigits 20 i.

(* ------------------------------------------------------------------------------------------ *)
(** * internal/identifiers *)

Definition is_alpha_char (r : Z) : bool := ((65 <=? r) && (r <=? 90)) || ((97 <=? r) && (r <=? 122)).
Definition is_num_char (r : Z) : bool := (48 <=? r) && (r <=? 57).

Section Oracles.
  (** unicode.IsDigit and unicode.IsUpper *)
  Variable uni_digit : Z -> bool.
  Variable uni_upper : Z -> bool.

  (** IsCamelCase: [i] counts the runes that were not skipped *)
  Fixpoint camel_loop (i : Z) (rs : list Z) : bool :=
    match rs with
    | [] => true
    | r :: tl =>
      if uni_digit r then camel_loop i tl
      else if ((i =? 0) && negb (uni_upper r)) || (negb (is_alpha_char r) && negb (is_num_char r)) then false
      else camel_loop (i + 1) tl
    end.
  Definition is_camel_case (s : bytes) : bool := camel_loop 0 (utf8_runes s).

  (* ---------------------------------------------------------------------------------------- *)
  (** ** messagenames *)
  Definition messagenames_run (f : file) : outcome :=
    Ok (for_each (f_defs f) (fun d =>
      match d with
      | DMessage m => if negb (is_camel_case (m_name m)) then [diag (m_pos m) MMessageName] else []
      | _ => []
      end)).

  (** ** signalnames *)
  Definition signalnames_run (f : file) : outcome :=
    Ok (for_each (f_defs f) (fun d =>
      match d with
      | DMessage m => for_each (m_signals m) (fun s =>
          if negb (is_camel_case (sg_name s)) then [diag (sg_pos s) MSignalName] else [])
      | _ => []
      end)).

  (** ** valuedescriptions: the reported position is the value's position with
      Column += len(fmt.Sprintf("%d", int64(vd.Value))) + 2 *)
  Definition vd_report_pos (vd : value_description_def) : position :=
    let p := vd_pos vd in
    {| p_line := p_line p;
       p_column := p_column p + (decimal_len (f64_to_int64 (vd_value vd)) + 2);
       p_offset := p_offset p |}.
  Definition valuedescriptions_values (vds : list value_description_def) : list diagnostic :=
    for_each vds (fun vd =>
      if negb (is_camel_case (vd_description vd)) then [diag (vd_report_pos vd) MValueDescription] else []).
  Definition valuedescriptions_run (f : file) : outcome :=
    Ok (for_each (f_defs f) (fun d =>
      match d with
      | DValueTable _ _ vds => valuedescriptions_values vds
      | DValueDescriptions v => valuedescriptions_values (vs_values v)
      | _ => []
      end)).
End Oracles.

(* ------------------------------------------------------------------------------------------ *)
(** * reflect.TypeOf(def): the dynamic type of a definition *)
Inductive def_kind :=
| KVersion | KNewSymbols | KBitTiming | KNodes | KValueTable | KMessage | KSignal | KSignalValueType
| KMessageTransmitters | KValueDescriptions | KEnvVar | KEnvVarData | KComment | KAttribute
| KAttributeDefault | KAttributeValue | KUnknown.

Definition kind_of (d : def) : def_kind :=
  match d with
  | DVersion _ _ => KVersion | DNewSymbols _ _ => KNewSymbols | DBitTiming _ _ _ _ => KBitTiming
  | DNodes _ _ => KNodes | DValueTable _ _ _ => KValueTable | DMessage _ => KMessage
  | DSignal _ => KSignal | DSignalValueType _ _ _ _ => KSignalValueType
  | DMessageTransmitters _ _ _ => KMessageTransmitters | DValueDescriptions _ => KValueDescriptions
  | DEnvVar _ => KEnvVar | DEnvVarData _ _ _ => KEnvVarData | DComment _ => KComment
  | DAttribute _ => KAttribute | DAttributeDefault _ => KAttributeDefault
  | DAttributeValue _ => KAttributeValue | DUnknown _ _ => KUnknown
  end.

Definition kind_tag (k : def_kind) : Z :=
  match k with
  | KVersion => 0 | KNewSymbols => 1 | KBitTiming => 2 | KNodes => 3 | KValueTable => 4 | KMessage => 5
  | KSignal => 6 | KSignalValueType => 7 | KMessageTransmitters => 8 | KValueDescriptions => 9
  | KEnvVar => 10 | KEnvVarData => 11 | KComment => 12 | KAttribute => 13 | KAttributeDefault => 14
  | KAttributeValue => 15 | KUnknown => 16
  end.
Definition kind_eqb (a b : def_kind) : bool := kind_tag a =? kind_tag b.

(* ------------------------------------------------------------------------------------------ *)
(** * boolprefix *)
Definition prefix_is : bytes := Eval compute in bytes_of_string "Is"%string.
Definition prefix_has : bytes := Eval compute in bytes_of_string "Has"%string.
Definition allowed_prefixes : list bytes := [prefix_is; prefix_has].

(** the inner search loop over all definitions for a VAL_ with the message ID and signal name *)
Fixpoint has_value_descriptions (defs : list def) (id : Z) (name : bytes) : bool :=
  match defs with
  | [] => false
  | DValueDescriptions v :: tl =>
    if (vs_message_id v =? id) && bytes_eqb (vs_signal v) name then true
    else has_value_descriptions tl id name
  | _ :: tl => has_value_descriptions tl id name
  end.

Definition boolprefix_signal (defs : list def) (m : message_def) (s : signal_def) : list diagnostic :=
  if negb (sg_size s =? 1) then []
  else if existsb (fun p => has_prefix p (sg_name s)) allowed_prefixes then []
  else if has_value_descriptions defs (m_id m) (sg_name s) then []
  else [diag (sg_pos s) MBoolPrefix].

Definition boolprefix_run (f : file) : outcome :=
  Ok (for_each (f_defs f) (fun d =>
    match d with
    | DMessage m => for_each (m_signals m) (boolprefix_signal (f_defs f) m)
    | _ => []
    end)).

(* ------------------------------------------------------------------------------------------ *)
(** * definitiontypeorder *)
Definition order_table : list def_kind :=
  [KVersion; KNewSymbols; KBitTiming; KNodes; KValueTable; KMessage; KMessageTransmitters; KEnvVar;
   KEnvVarData; KComment; KAttribute; KAttributeDefault; KAttributeValue; KValueDescriptions].

(** orderOf: linear search for the type in the table; math.MaxUint64 when absent *)
Fixpoint order_search (i : Z) (tbl : list def_kind) (k : def_kind) : Z :=
  match tbl with
  | [] => max_uint64
  | t :: tl => if kind_eqb k t then i else order_search (i + 1) tl k
  end.
Definition order_of (d : def) : Z := order_search 0 order_table (kind_of d).

(** the loop walks the definitions backwards ([rdefs] = reversed list), carrying minOrder *)
Fixpoint dto_loop (min_order : Z) (rdefs : list def) : list diagnostic :=
  match rdefs with
  | [] => []
  | d :: tl =>
    let curr := order_of d in
    if min_order <? curr then diag (def_pos d) MOutOfOrder :: dto_loop min_order tl
    else dto_loop curr tl
  end.
Definition definitiontypeorder_run (f : file) : outcome := Ok (dto_loop max_uint64 (rev (f_defs f))).

(* ------------------------------------------------------------------------------------------ *)
(** * intervals (fixed, F6) *)
Definition intervals_signals (m : message_def) : list diagnostic :=
  for_each (m_signals m) (fun s =>
    if f64_gt (sg_min s) (sg_max s) then [diag (m_pos m) (MIntervalFloat (sg_min s) (sg_max s))] else []).

Definition intervals_attribute (a : attribute_def) : list diagnostic :=
  (if ad_max_int a <? ad_min_int a
   then [diag (ad_pos a) (MIntervalInt (ad_min_int a) (ad_max_int a))] else [])
  ++ (if f64_gt (ad_min_float a) (ad_max_float a)
      then [diag (ad_pos a) (MIntervalFloat (ad_min_float a) (ad_max_float a))] else []).

(** before F6: the first condition also tested the float interval *)
Definition intervals_attribute_old (a : attribute_def) : list diagnostic :=
  (if (ad_max_int a <? ad_min_int a) || f64_gt (ad_min_float a) (ad_max_float a)
   then [diag (ad_pos a) (MIntervalInt (ad_min_int a) (ad_max_int a))] else [])
  ++ (if f64_gt (ad_min_float a) (ad_max_float a)
      then [diag (ad_pos a) (MIntervalFloat (ad_min_float a) (ad_max_float a))] else []).

Definition intervals_with (attr : attribute_def -> list diagnostic) (f : file) : outcome :=
  Ok (for_each (f_defs f) (fun d =>
    match d with
    | DEnvVar e =>
      if f64_gt (ev_min e) (ev_max e) then [diag (ev_pos e) (MIntervalFloat (ev_min e) (ev_max e))] else []
    | DMessage m => intervals_signals m
    | DAttribute a => attr a
    | _ => []
    end)).
Definition intervals_run : file -> outcome := intervals_with intervals_attribute.
Definition intervals_run_old : file -> outcome := intervals_with intervals_attribute_old.

(* ------------------------------------------------------------------------------------------ *)
(** * lineendings: bytes.Contains(data, "\r\n") *)
Fixpoint contains_crlf (data : bytes) : bool :=
  match data with
  | [] => false
  | b :: tl =>
    match tl with
    | b' :: _ => if (b =? 13) && (b' =? 10) then true else contains_crlf tl
    | [] => false
    end
  end.
Definition lineendings_run (f : file) : outcome :=
  Ok (if contains_crlf (f_data f) then [diag pos_1_1 MLineEndings] else []).

(* ------------------------------------------------------------------------------------------ *)
(** * multiplexedsignals *)
(** first loop: locate the multiplexer switch; state = the switch found so far *)
Fixpoint mux_loop1 (sw : option signal_def) (sigs : list signal_def) : list diagnostic * option signal_def :=
  match sigs with
  | [] => ([], sw)
  | s :: tl =>
    if negb (sg_mux_switch s) then mux_loop1 sw tl
    else
      match sw with
      | Some _ => let (ds, sw') := mux_loop1 sw tl in (diag (sg_pos s) MMuxMany :: ds, sw')
      | None =>
        let (ds, sw') := mux_loop1 (Some s) tl in
        if sg_signed s then (diag (sg_pos s) MMuxSigned :: ds, sw')
        else if sg_multiplexed s then (diag (sg_pos s) MMuxBoth :: ds, sw')
        else (ds, sw')
      end
  end.

(** uint64((1 << size) - 1): a shift count >= 64 gives 0, the subtraction wraps *)
Definition mux_max_value (size : Z) : Z :=
  ((if size <? 64 then 2 ^ size else 0) - 1) mod 2 ^ 64.

Definition mux_loop2 (sw : option signal_def) (sigs : list signal_def) : list diagnostic :=
  for_each sigs (fun s =>
    if negb (sg_multiplexed s) then []
    else
      match sw with
      | None => [diag (sg_pos s) MMuxNoSwitch]
      | Some s0 =>
        let maxv := mux_max_value (sg_size s0) in
        if maxv <? sg_mux_value s then [diag (sg_pos s) (MMuxExceeds maxv)] else []
      end).

Definition multiplexedsignals_message (m : message_def) : list diagnostic :=
  let (ds, sw) := mux_loop1 None (m_signals m) in ds ++ mux_loop2 sw (m_signals m).

Definition multiplexedsignals_run (f : file) : outcome :=
  Ok (for_each (f_defs f) (fun d =>
    match d with DMessage m => multiplexedsignals_message m | _ => [] end)).

(* ------------------------------------------------------------------------------------------ *)
(** * newsymbols *)
Definition newsymbols_run (f : file) : outcome :=
  Ok (for_each (f_defs f) (fun d =>
    match d with
    | DNewSymbols p syms => if (0 <? length syms)%nat then [diag p MNewSymbols] else []
    | _ => []
    end)).

(* ------------------------------------------------------------------------------------------ *)
(** * nodereferences *)
Definition node_placeholder : bytes := Eval compute in bytes_of_string "Vector__XXX"%string.

(** first loop: declaredNodes[nodeName] = struct{}{} for every name of every BU_ *)
Fixpoint add_names (declared : list bytes) (names : list bytes) : list bytes :=
  match names with [] => declared | n :: tl => add_names (n :: declared) tl end.
Fixpoint collect_nodes (declared : list bytes) (defs : list def) : list bytes :=
  match defs with
  | [] => declared
  | DNodes _ names :: tl => collect_nodes (add_names declared names) tl
  | _ :: tl => collect_nodes declared tl
  end.

Definition undeclared (declared : list bytes) (p : position) (mk : bytes -> msg) (names : list bytes)
  : list diagnostic :=
  for_each names (fun n => if mem_bytes n declared then [] else [diag p (mk n)]).

Definition nodereferences_run (f : file) : outcome :=
  let declared := collect_nodes [node_placeholder] (f_defs f) in
  Ok (for_each (f_defs f) (fun d =>
    match d with
    | DMessage m =>
      (if mem_bytes (m_transmitter m) declared then [] else [diag (m_pos m) (MUndeclTransmitter (m_transmitter m))])
      ++ for_each (m_signals m) (fun s => undeclared declared (sg_pos s) MUndeclReceiver (sg_receivers s))
    | DEnvVar e => undeclared declared (ev_pos e) MUndeclAccess (ev_access_nodes e)
    | DMessageTransmitters p _ txs => undeclared declared p MUndeclTransmitter txs
    | _ => []
    end)).

(* ------------------------------------------------------------------------------------------ *)
(** * noreservedsignals *)
Definition prefix_reserved : bytes := Eval compute in bytes_of_string "Reserved"%string.
Definition noreservedsignals_run (f : file) : outcome :=
  Ok (for_each (f_defs f) (fun d =>
    match d with
    | DMessage m => for_each (m_signals m) (fun s =>
        if has_prefix prefix_reserved (sg_name s) then [diag (sg_pos s) MReserved] else [])
    | _ => []
    end)).

(* ------------------------------------------------------------------------------------------ *)
(** * requireddefinitions (fixed, F5) *)
Definition required_kinds : list def_kind := [KBitTiming; KNodes].

(** counts[reflect.TypeOf(def)]++ over all definitions, read at key [k] *)
Fixpoint count_kind (k : def_kind) (defs : list def) : Z :=
  match defs with
  | [] => 0
  | d :: tl => (if kind_eqb (kind_of d) k then 1 else 0) + count_kind k tl
  end.

(** the loop over the required types; reports once and breaks. Fixed code: the position is 1:1
    when there is no definition, else that of the first definition *)
Fixpoint required_loop (required : list def_kind) (defs : list def) : outcome :=
  match required with
  | [] => Ok []
  | k :: tl =>
    if count_kind k defs =? 0 then
      match defs with
      | [] => Ok [diag pos_1_1 MMissingRequired]
      | d :: _ => Ok [diag (def_pos d) MMissingRequired]
      end
    else required_loop tl defs
  end.
Definition requireddefinitions_run (f : file) : outcome := required_loop required_kinds (f_defs f).

(** before F5: pass.File.Defs[0] evaluated unconditionally *)
Fixpoint required_loop_old (required : list def_kind) (defs : list def) : outcome :=
  match required with
  | [] => Ok []
  | k :: tl =>
    if count_kind k defs =? 0 then
      match nth_error defs 0 with
      | None => Panic
      | Some d => Ok [diag (def_pos d) MMissingRequired]
      end
    else required_loop_old tl defs
  end.
Definition requireddefinitions_run_old (f : file) : outcome := required_loop_old required_kinds (f_defs f).

(* ------------------------------------------------------------------------------------------ *)
(** * signalbounds: signal.StartBit >= 8*message.Size, uint64 arithmetic (the product wraps) *)
Definition signalbounds_run (f : file) : outcome :=
  Ok (for_each (f_defs f) (fun d =>
    match d with
    | DMessage m =>
      if is_independent_signals_message m then []
      else for_each (m_signals m) (fun s =>
        if (8 * m_size m) mod 2 ^ 64 <=? sg_start s then [diag (sg_pos s) MStartBit] else [])
    | _ => []
    end)).

(* ------------------------------------------------------------------------------------------ *)
(** * singletondefinitions *)
Definition singleton_kinds : list def_kind := [KVersion; KNewSymbols; KBitTiming; KNodes].

(** defsByType[t] = append(defsByType[t], def), read at key [k] *)
Fixpoint defs_by_type (k : def_kind) (defs : list def) : list def :=
  match defs with
  | [] => []
  | d :: tl => if kind_eqb (kind_of d) k then d :: defs_by_type k tl else defs_by_type k tl
  end.

(** for i := 1; i < len(singletonDefs); i++ *)
Definition singletondefinitions_run (f : file) : outcome :=
  Ok (for_each singleton_kinds (fun k =>
    for_each (tl (defs_by_type k (f_defs f))) (fun d => [diag (def_pos d) MSingleton]))).

(* ------------------------------------------------------------------------------------------ *)
(** * siunits *)
Definition u_kph := Eval compute in bytes_of_string "kph"%string.
Definition u_mps := Eval compute in bytes_of_string "mps"%string.
Definition u_meters_sec := Eval compute in bytes_of_string "meters/sec"%string.
Definition u_meters := Eval compute in bytes_of_string "meters"%string.
Definition u_deg := Eval compute in bytes_of_string "deg"%string.
Definition u_degrees := Eval compute in bytes_of_string "degrees"%string.
Definition u_radians := Eval compute in bytes_of_string "radians"%string.
Definition si_kmh := Eval compute in bytes_of_string "km/h"%string.
Definition si_ms := Eval compute in bytes_of_string "m/s"%string.
Definition si_m := Eval compute in bytes_of_string "m"%string.
Definition si_degree : bytes := [194; 176].   (* "°" U+00B0 in UTF-8 *)
Definition si_rad := Eval compute in bytes_of_string "rad"%string.
Definition si_percent := Eval compute in bytes_of_string "%"%string.

Definition symbol_map : list (bytes * bytes) :=
  [(u_kph, si_kmh); (u_mps, si_ms); (u_meters_sec, si_ms); (u_meters, si_m);
   (u_deg, si_degree); (u_degrees, si_degree); (u_radians, si_rad)].

Definition siunits_run (f : file) : outcome :=
  Ok (for_each (f_defs f) (fun d =>
    match d with
    | DMessage m => for_each (m_signals m) (fun s =>
        match lookup (sg_unit s) symbol_map with
        | Some si => [diag (sg_pos s) (MSiUnit (sg_unit s) si)]
        | None => []
        end)
    | _ => []
    end)).

(* ------------------------------------------------------------------------------------------ *)
(** * uniquemessageids *)
Fixpoint umi_loop (seen : list Z) (defs : list def) : list diagnostic :=
  match defs with
  | [] => []
  | DMessage m :: tl =>
    if is_independent_signals_message m then umi_loop seen tl
    else if mem_Z (m_id m) seen then diag (m_pos m) MDupMessageID :: umi_loop seen tl
    else umi_loop (m_id m :: seen) tl
  | _ :: tl => umi_loop seen tl
  end.
Definition uniquemessageids_run (f : file) : outcome := Ok (umi_loop [] (f_defs f)).

(* ------------------------------------------------------------------------------------------ *)
(** * uniquenodenames *)
Fixpoint unn_names (seen : list bytes) (p : position) (names : list bytes) : list diagnostic * list bytes :=
  match names with
  | [] => ([], seen)
  | n :: tl =>
    let (ds, seen') := unn_names (n :: seen) p tl in
    if mem_bytes n seen then (diag p MDupNodeName :: ds, seen') else (ds, seen')
  end.
Fixpoint unn_loop (seen : list bytes) (defs : list def) : list diagnostic :=
  match defs with
  | [] => []
  | DNodes p names :: tl => let (ds, seen') := unn_names seen p names in ds ++ unn_loop seen' tl
  | _ :: tl => unn_loop seen tl
  end.
Definition uniquenodenames_run (f : file) : outcome := Ok (unn_loop [] (f_defs f)).

(* ------------------------------------------------------------------------------------------ *)
(** * uniquesignalnames *)
Fixpoint usn_loop (seen : list bytes) (sigs : list signal_def) : list diagnostic :=
  match sigs with
  | [] => []
  | s :: tl =>
    if mem_bytes (sg_name s) seen then diag (sg_pos s) MDupSignalName :: usn_loop seen tl
    else usn_loop (sg_name s :: seen) tl
  end.
Definition uniquesignalnames_run (f : file) : outcome :=
  Ok (for_each (f_defs f) (fun d =>
    match d with
    | DMessage m => if is_independent_signals_message m then [] else usn_loop [] (m_signals m)
    | _ => []
    end)).

(* ------------------------------------------------------------------------------------------ *)
(** * unitsuffixes *)
Definition sfx_degrees := Eval compute in bytes_of_string "Degrees"%string.
Definition sfx_radians := Eval compute in bytes_of_string "Radians"%string.
Definition sfx_percent := Eval compute in bytes_of_string "Percent"%string.
Definition sfx_kph := Eval compute in bytes_of_string "Kph"%string.
Definition sfx_mps := Eval compute in bytes_of_string "Mps"%string.
Definition unit_suffixes : list (bytes * bytes) :=
  [(si_degree, sfx_degrees); (si_rad, sfx_radians); (si_percent, sfx_percent);
   (si_kmh, sfx_kph); (si_ms, sfx_mps)].

Definition unitsuffixes_run (f : file) : outcome :=
  Ok (for_each (f_defs f) (fun d =>
    match d with
    | DMessage m => for_each (m_signals m) (fun s =>
        match lookup (sg_unit s) unit_suffixes with
        | Some suffix =>
          if negb (has_suffix suffix (sg_name s)) then [diag (sg_pos s) (MUnitSuffix (sg_unit s) suffix)] else []
        | None => []
        end)
    | _ => []
    end)).

(* ------------------------------------------------------------------------------------------ *)
(** * version *)
Definition version_run (f : file) : outcome :=
  Ok (for_each (f_defs f) (fun d =>
    match d with
    | DVersion p v => if (0 <? length v)%nat then [diag p MVersion] else []
    | _ => []
    end)).

(* ------------------------------------------------------------------------------------------ *)
(** * all analyzers *)
Inductive analyzer :=
| ABoolPrefix | ADefinitionTypeOrder | AIntervals | ALineEndings | AMessageNames | AMultiplexedSignals
| ANewSymbols | ANodeReferences | ANoReservedSignals | ARequiredDefinitions | ASignalBounds | ASignalNames
| ASingletonDefinitions | ASiUnits | AUniqueMessageIDs | AUniqueNodeNames | AUniqueSignalNames
| AUnitSuffixes | AValueDescriptions | AVersion.

Definition all_analyzers : list analyzer :=
  [ABoolPrefix; ADefinitionTypeOrder; AIntervals; ALineEndings; AMessageNames; AMultiplexedSignals;
   ANewSymbols; ANodeReferences; ANoReservedSignals; ARequiredDefinitions; ASignalBounds; ASignalNames;
   ASingletonDefinitions; ASiUnits; AUniqueMessageIDs; AUniqueNodeNames; AUniqueSignalNames;
   AUnitSuffixes; AValueDescriptions; AVersion].

Definition run (uni_digit uni_upper : Z -> bool) (a : analyzer) (f : file) : outcome :=
  match a with
  | ABoolPrefix => boolprefix_run f
  | ADefinitionTypeOrder => definitiontypeorder_run f
  | AIntervals => intervals_run f
  | ALineEndings => lineendings_run f
  | AMessageNames => messagenames_run uni_digit uni_upper f
  | AMultiplexedSignals => multiplexedsignals_run f
  | ANewSymbols => newsymbols_run f
  | ANodeReferences => nodereferences_run f
  | ANoReservedSignals => noreservedsignals_run f
  | ARequiredDefinitions => requireddefinitions_run f
  | ASignalBounds => signalbounds_run f
  | ASignalNames => signalnames_run uni_digit uni_upper f
  | ASingletonDefinitions => singletondefinitions_run f
  | ASiUnits => siunits_run f
  | AUniqueMessageIDs => uniquemessageids_run f
  | AUniqueNodeNames => uniquenodenames_run f
  | AUniqueSignalNames => uniquesignalnames_run f
  | AUnitSuffixes => unitsuffixes_run f
  | AValueDescriptions => valuedescriptions_run uni_digit uni_upper f
  | AVersion => version_run f
  end.

(** the analyzers as they were before F5/F6 *)
Definition run_old (uni_digit uni_upper : Z -> bool) (a : analyzer) (f : file) : outcome :=
  match a with
  | ARequiredDefinitions => requireddefinitions_run_old f
  | AIntervals => intervals_run_old f
  | _ => run uni_digit uni_upper a f
  end.
