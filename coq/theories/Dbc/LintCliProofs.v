(** Declarative description of what `cantool lint` prints (independent of the loops of the code) and
    the proofs about the model Dbc/LintCli.v (property C18).

    Specification:
      [line_around src o]   the line of [src] around byte offset [o]: what precedes [o] back to (not
                            including) the previous line feed, and what follows up to (not including)
                            the next line feed or the end of the text
      [block ...]           the three items printed for one diagnostic
      [file_blocks], [file_reports]   per linted file: the blocks in analyzer order / whether any of
                            the 19 analyzers reports
    Theorems:
      [source_line_spec]    = [line_around] for every offset 0..len
      [source_line_total], [source_line_domain]      no out-of-range index or slice for offsets 0..len
      [source_line_shape]   the result is the maximal line-feed-free contiguous slice at the offset
      [line_around_unique]  ... and the only one
      [cantool_lint_correct]   output = concatenation of the blocks, never [Crash], and the status is
                            [ExitLintErrors] iff some analyzer reports on some parsed file - provided
                            the positions to print lie inside their source text (a parser fact) *)
From Coq Require Import String.
From Coq Require Import ZArith List Bool Lia.
From CanVerif Require Import Dbc.Ast Dbc.Lint Dbc.LintSpec Dbc.LintProofs Dbc.LintCli.
Import ListNotations.
Open Scope Z_scope.

(* ------------------------------------------------------------------------------------------ *)
(** * Specification *)

(** the text up to (not including) its first line feed *)
Fixpoint upto_lf (s : bytes) : bytes :=
  match s with
  | [] => []
  | b :: t => if b =? 10 then [] else b :: upto_lf t
  end.

Definition line_around (src : bytes) (o : nat) : bytes :=
  rev (upto_lf (rev (firstn o src))) ++ upto_lf (skipn o src).

(** a position that printError can print: offset inside the text (or at its end), column >= 1 *)
Definition printable (src : bytes) (pos : position) : Prop :=
  0 <= p_offset pos <= Z.of_nat (length src) /\ 1 <= p_column pos.

Definition block (name src : bytes) (pos : position) (pass : pass_id) (m : option msg) : list out_item :=
  [OHeader name pos pass m; OSourceLine (line_around src (Z.to_nat (p_offset pos))); OCaret (p_column pos - 1)].

Definition is_nil {A : Type} (l : list A) : bool := match l with [] => true | _ => false end.

Section Spec.
  Variable uni_digit : Z -> bool.

  Definition parsed_file (fi : lint_input) (defs : list def) : file :=
    {| f_data := li_source fi; f_defs := defs |}.

  Definition file_blocks (fi : lint_input) : list out_item :=
    match li_parse fi with
    | ParseError pos => block (li_name fi) (li_source fi) pos PParse None
    | Parsed defs =>
      flat_map (fun a =>
        flat_map (fun d => block (li_name fi) (li_source fi) (dg_pos d) (PAnalyzer a) (Some (dg_msg d)))
                 (spec_diagnostics uni_digit a (parsed_file fi defs)))
        cantool_analyzers
    end.

  Definition file_reports (fi : lint_input) : bool :=
    match li_parse fi with
    | ParseError _ => false
    | Parsed defs =>
      existsb (fun a => negb (is_nil (spec_diagnostics uni_digit a (parsed_file fi defs)))) cantool_analyzers
    end.

  Definition file_printable (fi : lint_input) : Prop :=
    match li_parse fi with
    | ParseError pos => printable (li_source fi) pos
    | Parsed defs =>
      forall a d, In a cantool_analyzers -> In d (spec_diagnostics uni_digit a (parsed_file fi defs)) ->
                  printable (li_source fi) (dg_pos d)
    end.
End Spec.

(* ------------------------------------------------------------------------------------------ *)
(** * facts about [upto_lf] *)

Lemma upto_lf_no_lf : forall s, ~ In 10 (upto_lf s).
Proof.
  induction s as [|b s IH]; cbn; [tauto|].
  destruct (Z.eqb_spec b 10) as [->|Hb]; cbn; [tauto|]. intros [H|H]; [congruence|exact (IH H)].
Qed.

(** [s] is [upto_lf s] followed by nothing or by a line feed and the rest *)
Lemma upto_lf_split : forall s, exists rest,
  s = upto_lf s ++ rest /\ (rest = [] \/ exists r, rest = 10 :: r).
Proof.
  induction s as [|b s IH]; cbn.
  - exists []. split; [reflexivity|left; reflexivity].
  - destruct (Z.eqb_spec b 10) as [->|Hb].
    + exists (10 :: s). split; [reflexivity|right; exists s; reflexivity].
    + destruct IH as [rest [Hs Hr]]. exists rest. split; [cbn; f_equal; exact Hs|exact Hr].
Qed.

Lemma upto_lf_length : forall s, (length (upto_lf s) <= length s)%nat.
Proof.
  induction s as [|b s IH]; cbn; [lia|]. destruct (b =? 10); cbn; lia.
Qed.

Lemma upto_lf_app_clean : forall a post,
  ~ In 10 a -> (post = [] \/ exists post', post = 10 :: post') -> upto_lf (a ++ post) = a.
Proof.
  induction a as [|b a IH]; intros post Hn Hp.
  - cbn. destruct Hp as [->|[p' ->]]; reflexivity.
  - cbn. destruct (Z.eqb_spec b 10) as [->|Hb].
    + exfalso. apply Hn. left. reflexivity.
    + f_equal. apply IH; [|exact Hp]. intro Hin. apply Hn. right. exact Hin.
Qed.

(* ------------------------------------------------------------------------------------------ *)
(** * the two loops of getSourceLine *)

Lemma line_start_loop_spec : forall rprefix s0,
  line_start_loop rprefix s0 = (s0 - length (upto_lf rprefix))%nat.
Proof.
  induction rprefix as [|b t IH]; intro s0; cbn.
  - lia.
  - unfold line_feed. destruct (b =? 10); cbn; [lia|]. rewrite IH. lia.
Qed.

Lemma line_end_loop_spec : forall rest e0,
  line_end_loop rest e0 = (e0 + length (upto_lf rest))%nat.
Proof.
  induction rest as [|b t IH]; intro e0; cbn.
  - lia.
  - unfold line_feed. destruct (b =? 10); cbn; [lia|]. rewrite IH. lia.
Qed.

(* ------------------------------------------------------------------------------------------ *)
(** * getSourceLine *)

(** the text around offset [o], cut at the neighbouring line feeds *)
Lemma line_around_split : forall src o, (o <= length src)%nat ->
  exists pre post,
    src = pre ++ line_around src o ++ post
    /\ length pre = (o - length (upto_lf (rev (firstn o src))))%nat
    /\ (length (upto_lf (rev (firstn o src))) <= o)%nat
    /\ (pre = [] \/ exists pre', pre = pre' ++ [10])
    /\ (post = [] \/ exists post', post = 10 :: post').
Proof.
  intros src o Ho.
  destruct (upto_lf_split (rev (firstn o src))) as [ra [Ha Hra]].
  destruct (upto_lf_split (skipn o src)) as [rb [Hb Hrb]].
  set (A := upto_lf (rev (firstn o src))) in *. set (B := upto_lf (skipn o src)) in *.
  assert (Hfirst : firstn o src = rev ra ++ rev A).
  { rewrite <- (rev_involutive (firstn o src)), Ha, rev_app_distr. reflexivity. }
  assert (Hlen : length (firstn o src) = o) by (rewrite firstn_length; lia).
  assert (HlenA : (length (rev ra) + length A = o)%nat).
  { rewrite <- Hlen, Hfirst, app_length, !rev_length. reflexivity. }
  exists (rev ra), rb. repeat split.
  - unfold line_around. fold A B.
    rewrite <- (firstn_skipn o src) at 1. rewrite Hfirst, Hb at 1.
    rewrite <- !app_assoc. reflexivity.
  - lia.
  - lia.
  - destruct Hra as [->|[r ->]]; [left; reflexivity|]. right. exists (rev r). reflexivity.
  - exact Hrb.
Qed.

(** in range the function returns, and what it returns is [line_around] *)
Theorem source_line_spec : forall src off,
  0 <= off <= Z.of_nat (length src) -> source_line src off = Some (line_around src (Z.to_nat off)).
Proof.
  intros src off [H0 H1]. unfold source_line.
  destruct (Z.ltb_spec off 0) as [|_]; [lia|].
  set (o := Z.to_nat off).
  assert (Ho : (o <= length src)%nat) by (unfold o; lia).
  destruct (Nat.ltb_spec (length src) o) as [|_]; [lia|].
  rewrite <- rev_alt. rewrite line_start_loop_spec, line_end_loop_spec.
  destruct (line_around_split src o Ho) as [pre [post [Hsrc [Hpre [HA [_ _]]]]]].
  set (A := upto_lf (rev (firstn o src))) in *. set (B := upto_lf (skipn o src)) in *.
  assert (HB : (length B <= length src - o)%nat).
  { unfold B. rewrite <- skipn_length. apply upto_lf_length. }
  unfold slice.
  replace ((o - length A <=? o + length B)%nat) with true by (symmetry; apply Nat.leb_le; lia).
  replace ((o + length B <=? length src)%nat) with true by (symmetry; apply Nat.leb_le; lia).
  cbn [andb]. f_equal.
  assert (Hl : length (line_around src o) = (length A + length B)%nat).
  { unfold line_around. fold A B. rewrite app_length, rev_length. reflexivity. }
  rewrite Hsrc at 1. rewrite <- Hpre.
  rewrite skipn_app, skipn_all, Nat.sub_diag, skipn_O. cbn [app].
  replace (o + length B - length pre)%nat with (length (line_around src o) + 0)%nat by lia.
  rewrite firstn_app_2, firstn_O, app_nil_r. reflexivity.
Qed.

(** for every offset 0..len the function returns (no index or slice out of range) *)
Theorem source_line_total : forall src off,
  0 <= off <= Z.of_nat (length src) -> exists l, source_line src off = Some l.
Proof. intros src off H. eexists. apply source_line_spec. exact H. Qed.

(** ... and for no other offset *)
Theorem source_line_domain : forall src off,
  source_line src off = None <-> off < 0 \/ Z.of_nat (length src) < off.
Proof.
  intros src off. split.
  - intro H. destruct (Z_lt_dec off 0) as [|Hn]; [left; assumption|].
    destruct (Z_lt_dec (Z.of_nat (length src)) off) as [|Hm]; [right; assumption|].
    rewrite source_line_spec in H by lia. discriminate.
  - intros [H|H]; unfold source_line.
    + destruct (Z.ltb_spec off 0); [reflexivity|lia].
    + destruct (Z.ltb_spec off 0); [reflexivity|].
      destruct (Nat.ltb_spec (length src) (Z.to_nat off)); [reflexivity|lia].
Qed.

(** the returned line is a contiguous slice [src = pre ++ l ++ post] that contains the offset (or ends
    at it), contains no line feed, starts right after a line feed (or at the start of the text) and
    ends right before one (or at the end of the text) *)
Theorem source_line_shape : forall src off l,
  source_line src off = Some l ->
  exists pre post,
    src = pre ++ l ++ post
    /\ Z.of_nat (length pre) <= off <= Z.of_nat (length pre + length l)
    /\ ~ In 10 l
    /\ (pre = [] \/ exists pre', pre = pre' ++ [10])
    /\ (post = [] \/ exists post', post = 10 :: post').
Proof.
  intros src off l H.
  assert (Hr : 0 <= off <= Z.of_nat (length src)).
  { destruct (Z_lt_dec off 0) as [Hn|Hn].
    - rewrite (proj2 (source_line_domain src off) (or_introl Hn)) in H. discriminate.
    - destruct (Z_lt_dec (Z.of_nat (length src)) off) as [Hm|Hm]; [|lia].
      rewrite (proj2 (source_line_domain src off) (or_intror Hm)) in H. discriminate. }
  rewrite (source_line_spec src off Hr) in H. inversion H. clear H.
  destruct (line_around_split src (Z.to_nat off) ltac:(lia)) as [pre [post [Hsrc [Hpre [HA [Hp Hq]]]]]].
  exists pre, post. repeat split; auto.
  - lia.
  - unfold line_around. rewrite app_length, rev_length. lia.
  - unfold line_around. intro Hin. apply in_app_or in Hin. destruct Hin as [Hin|Hin].
    + apply in_rev in Hin. exact (upto_lf_no_lf _ Hin).
    + exact (upto_lf_no_lf _ Hin).
Qed.

(** a slice of that shape is unique *)
Lemma line_around_unique : forall src o pre l post,
  src = pre ++ l ++ post ->
  (length pre <= o <= length pre + length l)%nat ->
  ~ In 10 l ->
  (pre = [] \/ exists pre', pre = pre' ++ [10]) ->
  (post = [] \/ exists post', post = 10 :: post') ->
  line_around src o = l.
Proof.
  intros src o pre l post -> Ho Hn Hpre Hpost. unfold line_around.
  set (k := (o - length pre)%nat).
  assert (Hf : firstn o (pre ++ l ++ post) = pre ++ firstn k l).
  { rewrite firstn_app. rewrite (firstn_all2 pre) by lia. f_equal.
    fold k. rewrite firstn_app. replace (k - length l)%nat with O by (unfold k; lia).
    rewrite firstn_O, app_nil_r. reflexivity. }
  assert (Hs : skipn o (pre ++ l ++ post) = skipn k l ++ post).
  { rewrite skipn_app. rewrite (skipn_all2 pre) by lia. cbn [app]. fold k.
    rewrite skipn_app. replace (k - length l)%nat with O by (unfold k; lia).
    rewrite skipn_O. reflexivity. }
  rewrite Hf, Hs, rev_app_distr.
  rewrite (upto_lf_app_clean (skipn k l) post); [| |exact Hpost].
  2:{ intro Hin. apply Hn. rewrite <- (firstn_skipn k l). apply in_or_app. right. exact Hin. }
  rewrite (upto_lf_app_clean (rev (firstn k l)) (rev pre)).
  - rewrite rev_involutive. apply firstn_skipn.
  - intro Hin. apply in_rev in Hin. apply Hn. rewrite <- (firstn_skipn k l). apply in_or_app. left. exact Hin.
  - destruct Hpre as [->|[pre' ->]]; [left; reflexivity|].
    right. exists (rev pre'). rewrite rev_app_distr. reflexivity.
Qed.

(* ------------------------------------------------------------------------------------------ *)
(** * printError and the loops of lintCommand *)

Lemma print_error_ok : forall name src pos pass m,
  printable src pos -> print_error name src pos pass m = (block name src pos pass m, false).
Proof.
  intros name src pos pass m [Hoff Hcol]. unfold print_error.
  rewrite (source_line_spec src (p_offset pos) Hoff).
  destruct (Z.ltb_spec (p_column pos - 1) 0); [lia|]. reflexivity.
Qed.

Lemma print_diagnostics_ok : forall name src pass ds,
  (forall d, In d ds -> printable src (dg_pos d)) ->
  print_diagnostics name src pass ds =
  (flat_map (fun d => block name src (dg_pos d) pass (Some (dg_msg d))) ds, false).
Proof.
  intros name src pass. induction ds as [|d ds IH]; intro H; [reflexivity|].
  cbn [print_diagnostics flat_map].
  rewrite print_error_ok by (apply H; left; reflexivity).
  rewrite IH by (intros d' Hd'; apply H; right; exact Hd'). reflexivity.
Qed.

Section All.
  Variable uni_digit : Z -> bool.
  Variable uni_upper : Z -> bool.
  Hypothesis upper_ascii : forall r, is_alpha_char r || is_num_char r = true -> uni_upper r = is_upper_ascii r.

  Lemma run_passes_ok : forall name f passes failed,
    (forall a d, In a passes -> In d (spec_diagnostics uni_digit a f) -> printable (f_data f) (dg_pos d)) ->
    run_passes uni_digit uni_upper name f passes failed =
    (flat_map (fun a => flat_map (fun d => block name (f_data f) (dg_pos d) (PAnalyzer a) (Some (dg_msg d)))
                                 (spec_diagnostics uni_digit a f)) passes,
     failed || existsb (fun a => negb (is_nil (spec_diagnostics uni_digit a f))) passes,
     false).
  Proof.
    intros name f. induction passes as [|a passes IH]; intros failed H.
    - cbn. rewrite orb_false_r. reflexivity.
    - cbn [run_passes flat_map existsb].
      rewrite (run_correct uni_digit uni_upper upper_ascii a f).
      rewrite print_diagnostics_ok by (intros d Hd; apply (H a d); [left; reflexivity|exact Hd]).
      rewrite IH by (intros a' d Ha' Hd; apply (H a' d); [right; exact Ha'|exact Hd]).
      f_equal. f_equal. rewrite <- orb_assoc. f_equal. f_equal.
      destruct (spec_diagnostics uni_digit a f); reflexivity.
  Qed.

  Lemma lint_files_ok : forall files failed,
    (forall fi, In fi files -> file_printable uni_digit fi) ->
    lint_files uni_digit uni_upper files failed =
    (flat_map (file_blocks uni_digit) files,
     if failed || existsb (file_reports uni_digit) files then ExitLintErrors else ExitOk).
  Proof.
    induction files as [|fi files IH]; intros failed H.
    - cbn. rewrite orb_false_r. reflexivity.
    - assert (Hfi := H fi (or_introl eq_refl)).
      assert (Htl : forall fi', In fi' files -> file_printable uni_digit fi') by (intros fi' Hi; apply H; right; exact Hi).
      cbn [lint_files flat_map existsb]. unfold file_printable in Hfi. unfold file_blocks at 1, file_reports at 1.
      destruct (li_parse fi) as [pos|defs].
      + rewrite print_error_ok by exact Hfi. rewrite (IH failed Htl). reflexivity.
      + change {| f_data := li_source fi; f_defs := defs |} with (parsed_file fi defs).
        rewrite (run_passes_ok (li_name fi) (parsed_file fi defs) cantool_analyzers failed Hfi).
        cbn [f_data parsed_file].
        rewrite (IH _ Htl). rewrite orb_assoc. reflexivity.
  Qed.

  (** the complete output of `cantool lint`: the blocks of the files in order, never a crash, and
      "one or more lint errors" iff some analyzer reports on some parsed file *)
  Theorem cantool_lint_correct : forall files,
    (forall fi, In fi files -> file_printable uni_digit fi) ->
    cantool_lint_output uni_digit uni_upper files =
    (flat_map (file_blocks uni_digit) files,
     if existsb (file_reports uni_digit) files then ExitLintErrors else ExitOk).
  Proof. intros files H. unfold cantool_lint_output. rewrite lint_files_ok by exact H. reflexivity. Qed.
End All.

(** the empty file through `cantool lint`: one block (requireddefinitions at 1:1, empty source line,
    caret in column 1) and "one or more lint errors" *)
Lemma cantool_lint_empty_file : forall uni_digit uni_upper name,
  cantool_lint_output uni_digit uni_upper [{| li_name := name; li_source := []; li_parse := Parsed [] |}] =
  ([OHeader name pos_1_1 (PAnalyzer ARequiredDefinitions) (Some MMissingRequired); OSourceLine []; OCaret 0],
   ExitLintErrors).
Proof. intros. reflexivity. Qed.
