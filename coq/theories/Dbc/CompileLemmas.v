(** Auxiliary lemmas for the proofs of property C05 (used by CompileStep.v and CompileProofs.v):
    reflection of the boolean equalities, the orders used by sortDescriptors are strict total
    orders on their keys, lists up to order ([perm2]), sortedness. *)
From Coq Require Import ZArith List Bool Permutation Sorted Lia.
From CanVerif Require Can.Data.
From CanVerif Require Import Base.Sort Dbc.Ast Descriptor.Types Dbc.Compile Dbc.CompileSpec.
Import ListNotations.
Open Scope Z_scope.

(** * Booleans and orders *)
Lemma bytes_eqb_eq : forall a b, bytes_eqb a b = true <-> a = b.
Proof.
  induction a as [|x a IH]; destruct b as [|y b]; cbn; split; intro H; try congruence; try discriminate.
  - apply andb_true_iff in H as [H1 H2]. apply Z.eqb_eq in H1. apply IH in H2. congruence.
  - inversion H; subst. apply andb_true_iff; split; [apply Z.eqb_refl|now apply IH].
Qed.
Lemma bytes_eqb_refl : forall a, bytes_eqb a a = true.
Proof. intros a. now apply bytes_eqb_eq. Qed.
Lemma bytes_eqb_neq : forall a b, bytes_eqb a b = false <-> a <> b.
Proof.
  intros a b; split; intro H.
  - intro E. apply bytes_eqb_eq in E. congruence.
  - destruct (bytes_eqb a b) eqn:E; [apply bytes_eqb_eq in E; contradiction|reflexivity].
Qed.
Lemma bytes_eqb_sym : forall a b, bytes_eqb a b = bytes_eqb b a.
Proof.
  intros a b. destruct (bytes_eqb a b) eqn:E.
  - apply bytes_eqb_eq in E. subst. symmetry. apply bytes_eqb_refl.
  - symmetry. apply bytes_eqb_neq. apply bytes_eqb_neq in E. congruence.
Qed.

Lemma bytes_ltb_trans : forall a b c, bytes_ltb a b = true -> bytes_ltb b c = true -> bytes_ltb a c = true.
Proof.
  induction a as [|x a IH]; intros b c H1 H2.
  - destruct b; cbn in *; [discriminate|]. destruct c; cbn in *; [|reflexivity].
    destruct b; discriminate.
  - destruct b as [|y b]; cbn in H1; [discriminate|].
    destruct c as [|z c]; cbn in H2; [discriminate|]. cbn.
    destruct (x <? y) eqn:Exy; destruct (y <? z) eqn:Eyz;
      destruct (y <? x) eqn:Eyx; destruct (z <? y) eqn:Ezy; try discriminate;
      destruct (x <? z) eqn:Exz; try reflexivity; destruct (z <? x) eqn:Ezx;
      rewrite ?Z.ltb_lt, ?Z.ltb_ge in *; try lia.
    eapply IH; eassumption.
Qed.
Lemma bytes_ltb_asym : forall a b, bytes_ltb a b = true -> bytes_ltb b a = false.
Proof.
  induction a as [|x a IH]; intros b H; destruct b as [|y b]; cbn in *; try discriminate; try reflexivity.
  destruct (x <? y) eqn:Exy; destruct (y <? x) eqn:Eyx; rewrite ?Z.ltb_lt, ?Z.ltb_ge in *; try lia;
    try discriminate; try reflexivity. now apply IH.
Qed.
Lemma bytes_ltb_total : forall a b, a <> b -> bytes_ltb a b = true \/ bytes_ltb b a = true.
Proof.
  induction a as [|x a IH]; intros b H; destruct b as [|y b]; cbn; try congruence; auto.
  destruct (x <? y) eqn:Exy; [now left|]. destruct (y <? x) eqn:Eyx; [now right|].
  rewrite Z.ltb_ge in *. assert (x = y) by lia. subst. apply IH. congruence.
Qed.

Lemma sig_less_trans : forall a b c, sig_less a b = true -> sig_less b c = true -> sig_less a c = true.
Proof.
  unfold sig_less. intros a b c.
  destruct (s_start a =? s_start b) eqn:E1; destruct (s_start b =? s_start c) eqn:E2;
    destruct (s_start a =? s_start c) eqn:E3; cbn;
    rewrite ?Z.eqb_eq, ?Z.eqb_neq, ?Z.ltb_lt in *; lia.
Qed.
Lemma sig_less_asym : forall a b, sig_less a b = true -> sig_less b a = false.
Proof.
  unfold sig_less. intros a b. rewrite (Z.eqb_sym (s_start b)).
  destruct (s_start a =? s_start b) eqn:E1; cbn; rewrite ?Z.eqb_eq, ?Z.eqb_neq, ?Z.ltb_lt, ?Z.ltb_ge in *; lia.
Qed.
Definition sig_key (s : signal) : Z * Z := (s_start s, s_mux_value s).
Lemma sig_less_total : forall a b, sig_key a <> sig_key b -> sig_less a b = true \/ sig_less b a = true.
Proof.
  unfold sig_less, sig_key. intros a b H. rewrite (Z.eqb_sym (s_start b)).
  destruct (s_start a =? s_start b) eqn:E1; cbn; rewrite ?Z.eqb_eq, ?Z.eqb_neq, ?Z.ltb_lt in *.
  - assert (s_mux_value a <> s_mux_value b) by congruence. lia.
  - lia.
Qed.
Lemma sig_less_lt : forall a b, sig_less a b = true <-> sig_lt a b.
Proof.
  unfold sig_less, sig_lt. intros a b.
  destruct (s_start a =? s_start b) eqn:E1; cbn; rewrite ?Z.eqb_eq, ?Z.eqb_neq, ?Z.ltb_lt in *; lia.
Qed.

(** the comparator before fix F10 is not asymmetric: it is not a strict weak order *)
Lemma sig_less_old_not_asym : exists a b, sig_less_old a b = true /\ sig_less_old b a = true.
Proof.
  pose (mk := fun st mx => {| s_name := []; s_start := st; s_length := 8; s_big_endian := false; s_signed := false;
     s_float := false; s_multiplexer := false; s_multiplexed := true; s_mux_value := mx; s_offset := 0; s_scale := 0;
     s_min := 0; s_max := 0; s_unit := []; s_description := []; s_value_descriptions := []; s_receivers := [];
     s_default := 0 |}).
  exists (mk 16 1), (mk 8 2). split; reflexivity.
Qed.

Lemma node_less_trans : forall a b c, node_less a b = true -> node_less b c = true -> node_less a c = true.
Proof. unfold node_less. intros. eapply bytes_ltb_trans; eassumption. Qed.
Lemma node_less_asym : forall a b, node_less a b = true -> node_less b a = false.
Proof. unfold node_less. intros. now apply bytes_ltb_asym. Qed.
Lemma node_less_total : forall a b, node_name a <> node_name b -> node_less a b = true \/ node_less b a = true.
Proof. unfold node_less. intros. now apply bytes_ltb_total. Qed.
Lemma msg_less_trans : forall a b c, msg_less a b = true -> msg_less b c = true -> msg_less a c = true.
Proof. unfold msg_less. intros a b c. rewrite !Z.ltb_lt. lia. Qed.
Lemma msg_less_asym : forall a b, msg_less a b = true -> msg_less b a = false.
Proof. unfold msg_less. intros a b. rewrite Z.ltb_lt, Z.ltb_ge. lia. Qed.
Lemma msg_less_total : forall a b, msg_id a <> msg_id b -> msg_less a b = true \/ msg_less b a = true.
Proof. unfold msg_less. intros a b. rewrite !Z.ltb_lt. lia. Qed.
Lemma vd_less_trans : forall a b c, vd_less a b = true -> vd_less b c = true -> vd_less a c = true.
Proof. unfold vd_less. intros a b c. rewrite !Z.ltb_lt. lia. Qed.
Lemma vd_less_asym : forall a b, vd_less a b = true -> vd_less b a = false.
Proof. unfold vd_less. intros a b. rewrite Z.ltb_lt, Z.ltb_ge. lia. Qed.
Lemma vd_less_total : forall a b, vdesc_value a <> vdesc_value b -> vd_less a b = true \/ vd_less b a = true.
Proof. unfold vd_less. intros a b. rewrite !Z.ltb_lt. lia. Qed.

(** * [nodupb] *)
Lemma nodupb_NoDup : forall {A} (eqb : A -> A -> bool),
  (forall a b, eqb a b = true <-> a = b) -> forall l, nodupb eqb l = true <-> NoDup l.
Proof.
  intros A eqb Heq. induction l as [|a l IH]; cbn.
  - split; [constructor|reflexivity].
  - rewrite andb_true_iff, negb_true_iff, IH. split.
    + intros [H1 H2]. constructor; [|exact H2]. intro Hin.
      assert (existsb (eqb a) l = true) by (apply existsb_exists; exists a; split; [exact Hin|now apply Heq]).
      congruence.
    + intro H. inversion H; subst. split; [|assumption].
      destruct (existsb (eqb a) l) eqn:E; [|reflexivity].
      apply existsb_exists in E as [x [Hx Hax]]. apply Heq in Hax. subst. contradiction.
Qed.

Lemma key_eqb_eq : forall a b : key, key_eqb a b = true <-> a = b.
Proof.
  intros [[[k1 i1] n1] a1] [[[k2 i2] n2] a2]. unfold key_eqb.
  rewrite !andb_true_iff, !Z.eqb_eq, !bytes_eqb_eq. split.
  - intros [[[-> ->] ->] ->]. reflexivity.
  - intro H. inversion H. auto.
Qed.
Lemma pair_eqb_eq : forall a b : Z * Z, pair_eqb a b = true <-> a = b.
Proof.
  intros [a1 a2] [b1 b2]. unfold pair_eqb. cbn. rewrite andb_true_iff, !Z.eqb_eq. split.
  - intros [-> ->]. reflexivity.
  - intro H. inversion H. auto.
Qed.

Lemma NoDup_app_r : forall {A} (l l' : list A), NoDup (l ++ l') -> NoDup l'.
Proof. induction l as [|a l IH]; intros l' H; [exact H|]. inversion H; subst. now apply IH. Qed.
Lemma NoDup_app_l : forall {A} (l l' : list A), NoDup (l ++ l') -> NoDup l.
Proof.
  induction l as [|a l IH]; intros l' H; [constructor|]. inversion H; subst.
  constructor; [|now apply IH with l']. intro Hin. apply H2. apply in_or_app. now left.
Qed.
Lemma NoDup_app_disj : forall {A} (l l' : list A) x, NoDup (l ++ l') -> In x l -> In x l' -> False.
Proof.
  induction l as [|a l IH]; intros l' x H Hl Hl'; [contradiction|]. inversion H; subst.
  destruct Hl as [->|Hl]; [apply H2, in_or_app; now right|]. eapply IH; eassumption.
Qed.

(** * Lists up to order *)
Lemma Forall2_perm_r : forall {A B} (R : A -> B -> Prop) l2 l2',
  Permutation l2 l2' -> forall l1, Forall2 R l1 l2 -> exists l1', Permutation l1 l1' /\ Forall2 R l1' l2'.
Proof.
  intros A B R l2 l2' Hp. induction Hp; intros l1 HF.
  - inversion HF; subst. exists []. split; constructor.
  - inversion HF as [|a ? l1t ? Ha Ht]; subst. destruct (IHHp _ Ht) as [l1' [P F]].
    exists (a :: l1'). split; [now constructor|now constructor].
  - inversion HF as [|a ? l1t ? Ha Ht]; subst. inversion Ht as [|b ? l1tt ? Hb Htt]; subst.
    exists (b :: a :: l1tt). split; [apply perm_swap|repeat constructor; assumption].
  - destruct (IHHp1 _ HF) as [m [P1 F1]]. destruct (IHHp2 _ F1) as [m' [P2 F2]].
    exists m'. split; [eapply perm_trans; eassumption|exact F2].
Qed.

Lemma Forall2_flip : forall {A B} (R : A -> B -> Prop) l l', Forall2 R l l' -> Forall2 (fun b a => R a b) l' l.
Proof. induction 1; constructor; assumption. Qed.

Lemma Forall2_perm_l : forall {A B} (R : A -> B -> Prop) l1 l1',
  Permutation l1 l1' -> forall l2, Forall2 R l1 l2 -> exists l2', Permutation l2 l2' /\ Forall2 R l1' l2'.
Proof.
  intros A B R l1 l1' Hp l2 HF. apply Forall2_flip in HF.
  destruct (Forall2_perm_r _ _ _ Hp _ HF) as [l2' [P F]].
  exists l2'. split; [exact P|]. apply Forall2_flip in F. exact F.
Qed.

Lemma Forall2_impl : forall {A B} (R S : A -> B -> Prop) l l',
  (forall a b, In a l -> In b l' -> R a b -> S a b) -> Forall2 R l l' -> Forall2 S l l'.
Proof.
  intros A B R S l l' HRS HF. induction HF as [|x y l l' Hxy HF IH]; constructor.
  - apply HRS; [now left|now left|assumption].
  - apply IH. intros a b Ha Hb. apply HRS; now right.
Qed.

Lemma Forall2_map_r : forall {A B} (R : A -> B -> Prop) (f : A -> B) l,
  (forall a, In a l -> R a (f a)) -> Forall2 R l (map f l).
Proof.
  induction l as [|a l IH]; intros H; cbn; constructor.
  - apply H. now left.
  - apply IH. intros b Hb. apply H. now right.
Qed.

Lemma Forall2_comp : forall {A B C} (R : A -> B -> Prop) (S : B -> C -> Prop) l1 l2 l3,
  Forall2 R l1 l2 -> Forall2 S l2 l3 -> Forall2 (fun a c => exists b, R a b /\ S b c) l1 l3.
Proof.
  intros A B C R S l1 l2 l3 H1. revert l3. induction H1; intros l3 H2; inversion H2; subst; constructor.
  - eauto.
  - now apply IHForall2.
Qed.

Lemma Forall2_eq_map : forall {A B C} (R : A -> B -> Prop) (f : A -> C) (g : B -> C) l l',
  Forall2 R l l' -> (forall a b, In a l -> R a b -> f a = g b) -> map f l = map g l'.
Proof.
  intros A B C R f g l l' HF. induction HF as [|x y l l' Hxy HF IH]; intros Hfg; cbn; [reflexivity|]. f_equal.
  - apply Hfg; [now left|assumption].
  - apply IH. intros a b Ha. apply Hfg. now right.
Qed.

Lemma perm2_comp : forall {A B C} (R : A -> B -> Prop) (S : B -> C -> Prop) l1 l2 l3,
  perm2 R l1 l2 -> perm2 S l2 l3 -> perm2 (fun a c => exists b, R a b /\ S b c) l1 l3.
Proof.
  intros A B C R S l1 l2 l3 [m [P1 F1]] [m' [P2 F2]].
  destruct (Forall2_perm_r _ _ _ P2 _ F1) as [m'' [P3 F3]].
  exists m''. split; [eapply perm_trans; eassumption|]. eapply Forall2_comp; eassumption.
Qed.

Lemma perm2_sym : forall {A B} (R : A -> B -> Prop) l l', perm2 R l l' -> perm2 (fun b a => R a b) l' l.
Proof.
  intros A B R l l' [m [P F]]. apply Forall2_flip in F.
  destruct (Forall2_perm_r _ _ _ (Permutation_sym P) _ F) as [m' [P' F']].
  exists m'. split; assumption.
Qed.

Lemma perm2_impl : forall {A B} (R S : A -> B -> Prop) l l',
  (forall a b, In a l -> In b l' -> R a b -> S a b) -> perm2 R l l' -> perm2 S l l'.
Proof.
  intros A B R S l l' H [m [P F]]. exists m. split; [exact P|].
  eapply Forall2_impl; [|exact F]. intros a b Ha Hb. apply H; [|exact Hb].
  eapply Permutation_in; [symmetry; exact P|exact Ha].
Qed.

Lemma perm2_perm_r : forall {A B} (R : A -> B -> Prop) l l' l'',
  perm2 R l l' -> Permutation l' l'' -> perm2 R l l''.
Proof.
  intros A B R l l' l'' [m [P F]] P'. destruct (Forall2_perm_r _ _ _ P' _ F) as [m' [P2 F2]].
  exists m'. split; [eapply perm_trans; eassumption|exact F2].
Qed.

Lemma perm2_map_r : forall {A B} (R : A -> B -> Prop) (f : A -> B) l,
  (forall a, In a l -> R a (f a)) -> perm2 R l (map f l).
Proof. intros. exists l. split; [reflexivity|now apply Forall2_map_r]. Qed.

Lemma Permutation_flat_map : forall {A B} (f : A -> list B) l l',
  Permutation l l' -> Permutation (flat_map f l) (flat_map f l').
Proof.
  intros A B f l l' H. induction H; cbn.
  - reflexivity.
  - now apply Permutation_app_head.
  - rewrite !app_assoc. apply Permutation_app_tail. apply Permutation_app_comm.
  - eapply perm_trans; eassumption.
Qed.

Lemma Forall2_flat_map_eq : forall {A B} (R : A -> A -> Prop) (f : A -> list B) l l',
  Forall2 R l l' -> (forall a b, R a b -> f a = f b) -> flat_map f l = flat_map f l'.
Proof.
  intros A B R f l l' HF Hf. induction HF as [|x y l l' Hxy HF IH]; cbn; [reflexivity|].
  rewrite (Hf _ _ Hxy), IH. reflexivity.
Qed.

(** * Sorting: [sort_db] permutes, and sorting strictly ordered keys is canonical *)
Lemma StronglySorted_impl : forall {A} (R S : A -> A -> Prop) l,
  (forall a b, R a b -> S a b) -> StronglySorted R l -> StronglySorted S l.
Proof.
  intros A R S l H HS. induction HS; constructor; [assumption|].
  eapply Forall_impl; [|eassumption]. intros; now apply H.
Qed.

Lemma sortedb_sorted : forall {A} (less : A -> A -> bool),
  (forall a b c, less a b = true -> less b c = true -> less a c = true) ->
  forall l, sortedb less l = true -> StronglySorted (fun a b => less a b = true) l.
Proof.
  intros A less Htr l H. apply Sorted_StronglySorted.
  - intros a b c. apply Htr.
  - induction l as [|a l IH]; [constructor|].
    destruct l as [|b l]; [repeat constructor|].
    cbn in H. apply andb_true_iff in H as [H1 H2]. constructor; [now apply IH|now constructor].
Qed.
