(** Source AST, printer and denotation ("elaborate") for the round-trip theorem of C04
    (DESIGN.md 4.1 / 5.4).  DEFINITIONS ONLY.

    This file covers the part of the grammar for which [parse (print ds) = Ok (elaborate ds)] is
    PROVED (Dbc/RoundTrip.v): the kinds VERSION, BS_ (all three forms), BU_ and unknown lines, in the
    plain layout: one definition per line, tokens separated by single spaces (none before ':' after
    the keyword of BS_/BU_), LF line ends, every line terminated.  The remaining kinds and layouts
    of section 4.1 are exercised by the generator of harness/parser/gen.go (which is the executable
    definition of the full class used by the correspondence check).

    Numbers are decimal digit strings (bytes '0'..'9'); strings are byte lists. Positions are
    computed from the printed text: the k-th definition starts at line k, column 1, at the byte
    offset given by the lengths of the preceding lines. *)
From Coq Require Import ZArith List Bool.
From CanVerif Require Import Dbc.Ast Dbc.Scanner Dbc.Parser.
Import ListNotations.
Open Scope Z_scope.

(** tokens of an unknown line after its keyword *)
Inductive utok :=
| UIdent (s : bytes)
| UNum (digits : bytes)
| UPunct (c : Z).

Inductive sdef :=
| SVersion (s : bytes)
| SBitTiming (bt : option (bytes * option (bytes * bytes)))   (* [ baud [ : btr1 , btr2 ] ] *)
| SNodes (names : list bytes)
| SUnknown (kw : bytes) (toks : list utok).

Definition print_utok (t : utok) : bytes :=
  match t with
  | UIdent s => s
  | UNum ds => ds
  | UPunct c => [c]
  end.

(** [sp_list f xs] = each item preceded by one space *)
Definition sp_list {A} (f : A -> bytes) (xs : list A) : bytes := concat (map (fun x => 32 :: f x) xs).

Definition print_def (d : sdef) : bytes :=
  match d with
  | SVersion s => kw_version ++ 32 :: 34 :: s ++ [34; 10]
  | SBitTiming None => kw_bit_timing ++ [58; 10]
  | SBitTiming (Some (b, None)) => kw_bit_timing ++ 58 :: 32 :: b ++ [10]
  | SBitTiming (Some (b, Some (b1, b2))) =>
    kw_bit_timing ++ 58 :: 32 :: b ++ 32 :: 58 :: 32 :: b1 ++ 32 :: 44 :: 32 :: b2 ++ [10]
  | SNodes ns => kw_nodes ++ 58 :: sp_list (fun n => n) ns ++ [10]
  | SUnknown kw ts => kw ++ sp_list print_utok ts ++ [10]
  end.

Fixpoint print (ds : list sdef) : bytes :=
  match ds with
  | [] => []
  | d :: t => print_def d ++ print t
  end.

(** value of a decimal digit string *)
Definition uint_value (ds : bytes) : Z := fold_left (fun acc c => acc * 10 + (c - 48)) ds 0.

Definition elab_def (line off : Z) (d : sdef) : def :=
  let p := {| p_line := line; p_column := 1; p_offset := off |} in
  match d with
  | SVersion s => DVersion p s
  | SBitTiming None => DBitTiming p 0 0 0
  | SBitTiming (Some (b, None)) => DBitTiming p (uint_value b) 0 0
  | SBitTiming (Some (b, Some (b1, b2))) => DBitTiming p (uint_value b) (uint_value b1) (uint_value b2)
  | SNodes ns => DNodes p ns
  | SUnknown kw _ => DUnknown p kw
  end.

Fixpoint elab_from (line off : Z) (ds : list sdef) : list def :=
  match ds with
  | [] => []
  | d :: t => elab_def line off d :: elab_from (line + 1) (off + blen (print_def d)) t
  end.

Definition elaborate (ds : list sdef) : list def := elab_from 1 0 ds.

(** ------------------------------------------------------------------ well-formedness *)

(** characters of a string item in the covered class: printable ASCII except the double quote (34)
    and the backslash (92) *)
Definition plain_char (c : Z) : Prop := 32 <= c < 127 /\ c <> 34 /\ c <> 92.

(** decimal literal without leading zeros (text/scanner reads a leading 0 as octal), value < 2^64 *)
Definition wf_digits (ds : bytes) : Prop :=
  exists d0 t, ds = d0 :: t /\ is_decimal d0 = true /\ Forall (fun a => is_decimal a = true) t /\ (d0 <> 48 \/ t = []).

Definition wf_uint (ds : bytes) : Prop := wf_digits ds /\ uint_value ds < 2 ^ 64.

(** the 16 keywords that Parse() dispatches on *)
Definition dispatching (kw : bytes) : bool :=
  bytes_eqb kw kw_version || bytes_eqb kw kw_bit_timing || bytes_eqb kw kw_new_symbols || bytes_eqb kw kw_nodes
  || bytes_eqb kw kw_message || bytes_eqb kw kw_signal || bytes_eqb kw kw_envvar || bytes_eqb kw kw_comment
  || bytes_eqb kw kw_attribute || bytes_eqb kw kw_attribute_default || bytes_eqb kw kw_attribute_value
  || bytes_eqb kw kw_value_descriptions || bytes_eqb kw kw_value_table || bytes_eqb kw kw_signal_value_type
  || bytes_eqb kw kw_message_transmitters || bytes_eqb kw kw_envvar_data.

(** punctuation allowed in unknown lines: printable ASCII that starts neither an identifier nor a
    number (the dot is excluded: a dot followed by a digit is a number) *)
Definition upunct (c : Z) : Prop :=
  33 <= c < 127 /\ ((c =? 95) || ascii_letter c) = false /\ is_decimal c = false /\ c <> 46.

Definition wf_utok (t : utok) : Prop :=
  match t with
  | UIdent s => ident_valid s = true
  | UNum ds => wf_digits ds
  | UPunct c => upunct c
  end.

Definition wf_sdef (d : sdef) : Prop :=
  match d with
  | SVersion s => Forall plain_char s
  | SBitTiming None => True
  | SBitTiming (Some (b, None)) => wf_uint b
  | SBitTiming (Some (b, Some (b1, b2))) => wf_uint b /\ wf_uint b1 /\ wf_uint b2
  | SNodes ns => Forall (fun n => ident_valid n = true) ns
  | SUnknown kw ts => ident_valid kw = true /\ dispatching kw = false /\ Forall wf_utok ts
  end.
