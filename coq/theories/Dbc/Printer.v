(** Source AST, printer and denotation ("elaborate") for the round-trip theorem of C04
    (DESIGN.md 4.1 / 5.4).  DEFINITIONS ONLY.

    This file covers the part of the grammar for which [parse (print ds) = Ok (elaborate ds)] is
    PROVED (Dbc/RoundTrip.v): the kinds VERSION, BS_ (all three forms), BU_, BO_ with its SG_ lines
    (plain / multiplexer switch / multiplexed signals, both byte orders and signs, factor / offset /
    minimum / maximum as decimal literals with optional sign, fraction and exponent, unit string, one
    or more receivers) and
    unknown lines, in the plain layout: one line per definition (per signal), tokens separated by
    single spaces (none before ':' after the keyword of BS_/BU_, none between '-' and its number),
    LF line ends, every line terminated.  Also covered (one line each, single spaces, terminated by
    " ;"): CM_ (all five object forms), VAL_ (signal and environment variable form), VAL_TABLE_,
    SIG_VALTYPE_ (with and without ':'), BO_TX_BU_ (with and without commas), EV_, ENVVAR_DATA_; their
    numbers are decimal literals with optional sign, fraction and exponent, their strings over printable ASCII with the escapes backslash-quote and backslash-character.  BA_DEF_ (INT / HEX / FLOAT
    with and without range, STRING, ENUM; with and without object type), BA_DEF_DEF_ and BA_ (all
    object forms; value typed by the FIRST earlier BA_DEF_ of that name, enum values as string or
    index; no value when there is no such BA_DEF_).  NS_ with its symbol list ("NS_ :" and one line
    LF TAB symbol per symbol; the only place where a tab occurs).  The remaining kinds and layouts
    of section 4.1 are exercised by the generator of harness/parser/gen.go (which is the executable
    definition of the full class used by the correspondence check).

    Numbers are decimal digit strings (bytes '0'..'9'); strings are byte lists. Positions are
    computed from the printed text: the k-th definition starts at line k, column 1, at the byte
    offset given by the lengths of the preceding lines. *)
From Coq Require Import ZArith List Bool Lia.
From CanVerif Require Import Dbc.Ast Dbc.Scanner Dbc.DecFloat Dbc.Parser Dbc.ScanLemmas.
Import ListNotations.
Open Scope Z_scope.

(** tokens of an unknown line after its keyword *)
Inductive utok :=
| UIdent (s : bytes)
| UNum (digits : bytes)
| UPunct (c : Z).

(** multiplexing indicator of a signal: none, "M", "m<digits>" *)
Inductive smux := MuxNone | MuxSwitch | Muxed (digits : bytes).

(** a number read by ParseFloat: optional '-' directly followed by a decimal literal
    digits [ . digits ] [ (e|E) [+|-] digits ] *)
Record snum := { n_neg : bool; n_digits : bytes; n_frac : option bytes; n_exp : option (Z * option Z * bytes) }.

(** the literal without its sign *)
Definition num_lit (n : snum) : bytes := n_digits n ++ frac_text (n_frac n) ++ exp_text (n_exp n).

Record ssignal := {
  ss_name : bytes; ss_mux : smux; ss_start : bytes; ss_size : bytes;
  ss_big_endian : bool; ss_signed : bool;
  ss_factor : snum; ss_offset : snum; ss_min : snum; ss_max : snum;
  ss_unit : bytes;
  ss_receiver : bytes; ss_receivers : list bytes }.     (* first receiver, further receivers *)

(** the object a comment (or attribute value) refers to *)
Inductive sobj :=
| ObjNone
| ObjNode (n : bytes)
| ObjMessage (id : bytes)
| ObjSignal (id n : bytes)
| ObjEnvVar (n : bytes).

(** object type keyword of an attribute definition *)
Inductive sattr_obj := AONone | AONode | AOMessage | AOSignal | AOEnvVar.

Inductive sattr_body :=
| ABInt (hex : bool) (range : option (snum * snum))     (* INT | HEX [min max] *)
| ABFloat (range : option (snum * snum))                (* FLOAT [min max] *)
| ABString
| ABEnum (v : bytes) (vs : list bytes).                 (* ENUM "v" , "v" ... *)

(** the value of BA_DEF_DEF_ / BA_ as written; which form is legal depends on the attribute's type *)
Inductive sattr_value :=
| AVNone
| AVInt (n : snum)
| AVFloat (n : snum)
| AVString (s : bytes)
| AVEnumIndex (i : bytes)
| AVEnumString (s : bytes).

Inductive sdef :=
| SVersion (s : bytes)
| SBitTiming (bt : option (bytes * option (bytes * bytes)))   (* [ baud [ : btr1 , btr2 ] ] *)
| SNodes (names : list bytes)
| SMessage (id name size tx : bytes) (signals : list ssignal)
| SUnknown (kw : bytes) (toks : list utok)
| SComment (o : sobj) (text : bytes)
| SValues (id : option bytes) (n : bytes) (vs : list (snum * bytes))      (* VAL_ [id] name { value "text" } ; *)
| SValueTable (n : bytes) (vs : list (snum * bytes))
| SSigValType (id n : bytes) (colon : bool) (t : bytes)
| SMsgTx (id : bytes) (txs : list (bytes * bool))                           (* name, followed by a comma? *)
| SEnvVar (n t : bytes) (mn mx : snum) (unit : bytes) (init : snum) (id : bytes) (acc : Z) (node : bytes) (nodes : list bytes)
| SEnvVarData (n size : bytes)
| SAttr (o : sattr_obj) (name : bytes) (body : sattr_body)
| SAttrDefault (name : bytes) (v : sattr_value)
| SAttrValue (name : bytes) (o : sobj) (v : sattr_value)
| SNewSymbols (syms : list bytes)                         (* NS_ : then one line LF TAB symbol per symbol *)
| SSignal (s : ssignal).                                  (* a top-level SG_ line (not directly after a BO_ block) *)

Definition print_utok (t : utok) : bytes :=
  match t with
  | UIdent s => s
  | UNum ds => ds
  | UPunct c => [c]
  end.

(** [sp_list f xs] = each item preceded by one space *)
Definition sp_list {A} (f : A -> bytes) (xs : list A) : bytes := concat (map (fun x => 32 :: f x) xs).

Definition print_num (n : snum) : bytes := (if n_neg n then [45] else []) ++ num_lit n.

Definition print_mux (m : smux) : bytes :=
  match m with
  | MuxNone => []
  | MuxSwitch => [32; 77]
  | Muxed ds => 32 :: 109 :: ds
  end.

(** Layout parameter: [cr] is the run of spaces / carriage returns written before EVERY line end
    ([] = LF files, [13] = CRLF files, [32; 32] = two trailing spaces, ...) *)
Section Layout.
Variable cr : bytes.

(** SG_ name[ M| m<k>] : start | size @ (0|1) (+|-) ( factor , offset ) [ min | max ] "unit" r1 , r2 ... LF *)
Definition print_signal (s : ssignal) : bytes :=
  kw_signal ++ 32 :: ss_name s ++ print_mux (ss_mux s) ++ 32 :: 58 :: 32 :: ss_start s ++ 32 :: 124 :: 32 :: ss_size s
  ++ 32 :: 64 :: 32 :: (if ss_big_endian s then 48 else 49) :: 32 :: (if ss_signed s then 45 else 43)
  :: 32 :: 40 :: 32 :: print_num (ss_factor s) ++ 32 :: 44 :: 32 :: print_num (ss_offset s)
  ++ 32 :: 41 :: 32 :: 91 :: 32 :: print_num (ss_min s) ++ 32 :: 124 :: 32 :: print_num (ss_max s)
  ++ 32 :: 93 :: 32 :: 34 :: ss_unit s ++ 34 :: 32 :: ss_receiver s
  ++ concat (map (fun r => 32 :: 44 :: 32 :: r) (ss_receivers s)) ++ cr ++ [10].

Definition print_obj (o : sobj) : bytes :=
  match o with
  | ObjNone => []
  | ObjNode n => 32 :: kw_nodes ++ 32 :: n
  | ObjMessage i => 32 :: kw_message ++ 32 :: i
  | ObjSignal i n => 32 :: kw_signal ++ 32 :: i ++ 32 :: n
  | ObjEnvVar n => 32 :: kw_envvar ++ 32 :: n
  end.

(** { value "text" }: each item preceded by one space *)
Definition print_value (v : snum * bytes) : bytes := 32 :: print_num (fst v) ++ 32 :: 34 :: snd v ++ [34].
Definition print_values (vs : list (snum * bytes)) : bytes := concat (map print_value vs).

Definition print_tx (x : bytes * bool) : bytes := 32 :: fst x ++ (if snd x then [32; 44] else []).

Definition access_name (a : Z) : bytes :=
  if a =? 0 then s_ACC0 else if a =? 1 then s_ACC1 else if a =? 2 then s_ACC2 else s_ACC3.

Definition print_attr_obj (o : sattr_obj) : bytes :=
  match o with
  | AONone => []
  | AONode => 32 :: kw_nodes
  | AOMessage => 32 :: kw_message
  | AOSignal => 32 :: kw_signal
  | AOEnvVar => 32 :: kw_envvar
  end.

Definition print_range (r : option (snum * snum)) : bytes :=
  match r with
  | None => []
  | Some (a, b) => 32 :: print_num a ++ 32 :: print_num b
  end.

Definition print_quoted (s : bytes) : bytes := 34 :: s ++ [34].

Definition print_attr_body (b : sattr_body) : bytes :=
  match b with
  | ABInt hex r => 32 :: (if hex then s_HEX else s_INT) ++ print_range r
  | ABFloat r => 32 :: s_FLOAT ++ print_range r
  | ABString => 32 :: s_STRING
  | ABEnum v vs => 32 :: s_ENUM ++ 32 :: print_quoted v ++ concat (map (fun s => 32 :: 44 :: 32 :: print_quoted s) vs)
  end.

Definition print_attr_value (v : sattr_value) : bytes :=
  match v with
  | AVNone => []
  | AVInt n | AVFloat n => 32 :: print_num n
  | AVString s | AVEnumString s => 32 :: print_quoted s
  | AVEnumIndex i => 32 :: i
  end.

(** the symbol lines of NS_: TAB symbol line-end each *)
Definition ns_text (syms : list bytes) : bytes := concat (map (fun s => 9 :: s ++ cr ++ [10]) syms).

Definition print_def (d : sdef) : bytes :=
  match d with
  | SNewSymbols syms => kw_new_symbols ++ 32 :: 58 :: cr ++ 10 :: ns_text syms
  | SAttr o name body => kw_attribute ++ print_attr_obj o ++ 32 :: print_quoted name ++ print_attr_body body ++ 32 :: 59 :: cr ++ [10]
  | SAttrDefault name v => kw_attribute_default ++ 32 :: print_quoted name ++ print_attr_value v ++ 32 :: 59 :: cr ++ [10]
  | SAttrValue name o v =>
    kw_attribute_value ++ 32 :: print_quoted name ++ print_obj o ++ print_attr_value v ++ 32 :: 59 :: cr ++ [10]
  | SComment o t => kw_comment ++ print_obj o ++ 32 :: 34 :: t ++ 34 :: 32 :: 59 :: cr ++ [10]
  | SValues (Some i) n vs => kw_value_descriptions ++ 32 :: i ++ 32 :: n ++ print_values vs ++ 32 :: 59 :: cr ++ [10]
  | SValues None n vs => kw_value_descriptions ++ 32 :: n ++ print_values vs ++ 32 :: 59 :: cr ++ [10]
  | SValueTable n vs => kw_value_table ++ 32 :: n ++ print_values vs ++ 32 :: 59 :: cr ++ [10]
  | SSigValType i n colon t =>
    kw_signal_value_type ++ 32 :: i ++ 32 :: n ++ (if colon then [32; 58] else []) ++ 32 :: t ++ 32 :: 59 :: cr ++ [10]
  | SMsgTx i txs => kw_message_transmitters ++ 32 :: i ++ 32 :: 58 :: concat (map print_tx txs) ++ 32 :: 59 :: cr ++ [10]
  | SEnvVar n t mn mx u init i acc node nodes =>
    kw_envvar ++ 32 :: n ++ 32 :: 58 :: 32 :: t ++ 32 :: 91 :: 32 :: print_num mn ++ 32 :: 124 :: 32 :: print_num mx
    ++ 32 :: 93 :: 32 :: 34 :: u ++ 34 :: 32 :: print_num init ++ 32 :: i ++ 32 :: access_name acc ++ 32 :: node
    ++ concat (map (fun r => 32 :: 44 :: 32 :: r) nodes) ++ 32 :: 59 :: cr ++ [10]
  | SEnvVarData n sz => kw_envvar_data ++ 32 :: n ++ 32 :: 58 :: 32 :: sz ++ 32 :: 59 :: cr ++ [10]
  | SMessage i n sz tx sigs =>
    kw_message ++ 32 :: i ++ 32 :: n ++ 32 :: 58 :: 32 :: sz ++ 32 :: tx ++ cr ++ 10 :: concat (map print_signal sigs)
  | SVersion s => kw_version ++ 32 :: 34 :: s ++ 34 :: cr ++ [10]
  | SBitTiming None => kw_bit_timing ++ 58 :: cr ++ [10]
  | SBitTiming (Some (b, None)) => kw_bit_timing ++ 58 :: 32 :: b ++ cr ++ [10]
  | SBitTiming (Some (b, Some (b1, b2))) =>
    kw_bit_timing ++ 58 :: 32 :: b ++ 32 :: 58 :: 32 :: b1 ++ 32 :: 44 :: 32 :: b2 ++ cr ++ [10]
  | SNodes ns => kw_nodes ++ 58 :: sp_list (fun n => n) ns ++ cr ++ [10]
  | SUnknown kw ts => kw ++ sp_list print_utok ts ++ cr ++ [10]
  | SSignal s => print_signal s
  end.

Fixpoint print (ds : list sdef) : bytes :=
  match ds with
  | [] => []
  | d :: t => print_def d ++ print t
  end.

(** value of a decimal digit string *)
Definition uint_value (ds : bytes) : Z := fold_left (fun acc c => acc * 10 + (c - 48)) ds 0.

(** float64 bits of a number: the correctly rounded conversion of the digits ([parse_float]), sign applied *)
Definition num_bits (n : snum) : Z :=
  match parse_float (num_lit n) with
  | Some b => if n_neg n then b64_neg b else b
  | None => 0
  end.

Definition elab_signal (line off : Z) (s : ssignal) : signal_def :=
  {| sg_pos := {| p_line := line; p_column := 1; p_offset := off |};
     sg_name := ss_name s; sg_start := uint_value (ss_start s); sg_size := uint_value (ss_size s);
     sg_big_endian := ss_big_endian s; sg_signed := ss_signed s;
     sg_mux_switch := (match ss_mux s with MuxSwitch => true | _ => false end);
     sg_multiplexed := (match ss_mux s with Muxed _ => true | _ => false end);
     sg_mux_value := (match ss_mux s with Muxed ds => uint_value ds | _ => 0 end);
     sg_offset := num_bits (ss_offset s); sg_factor := num_bits (ss_factor s);
     sg_min := num_bits (ss_min s); sg_max := num_bits (ss_max s);
     sg_unit := ss_unit s; sg_receivers := ss_receiver s :: ss_receivers s |}.

Fixpoint elab_signals (line off : Z) (sigs : list ssignal) : list signal_def :=
  match sigs with
  | [] => []
  | s :: t => elab_signal line off s :: elab_signals (line + 1) (off + blen (print_signal s)) t
  end.

(** the header line "BO_ id name : size tx LF" *)
Definition message_header (i n sz tx : bytes) : bytes :=
  kw_message ++ 32 :: i ++ 32 :: n ++ 32 :: 58 :: 32 :: sz ++ 32 :: tx ++ cr ++ [10].

(** line ends inside a string literal, and the value the parser reads for a literal that contains
    them: each line end becomes one space (parser.go, string()) *)
Fixpoint nl_count (s : bytes) : Z :=
  match s with
  | [] => 0
  | c :: t => (if c =? 10 then 1 else 0) + nl_count t
  end.

Definition str_val (s : bytes) : bytes := map (fun c => if c =? 10 then 32 else c) s.

(** number of lines a printed definition occupies (a CM_ text may continue over several lines) *)
Definition def_lines (d : sdef) : Z :=
  match d with
  | SMessage _ _ _ _ sigs => 1 + Z.of_nat (length sigs)
  | SNewSymbols syms => 1 + Z.of_nat (length syms)
  | SComment _ t => 1 + nl_count t
  | _ => 1
  end.

(** value descriptions of a one-line definition that starts at byte [off]: [o] is the byte offset
    of the first character of the next value; its column is o - off + 1 *)
Fixpoint elab_values (line off o : Z) (vs : list (snum * bytes)) : list value_description_def :=
  match vs with
  | [] => []
  | v :: t =>
    {| vd_pos := {| p_line := line; p_column := o - off + 1; p_offset := o |};
       vd_value := num_bits (fst v); vd_description := snd v |}
    :: elab_values line off (o + blen (print_num (fst v)) + blen (snd v) + 4) t
  end.

Definition msgid (i : bytes) : Z := uint_value i mod 2 ^ 32.

Definition access_of (a : Z) : access_type :=
  if a =? 0 then AccUnrestricted else if a =? 1 then AccRead else if a =? 2 then AccWrite else AccReadWrite.

(** a number written as a decimal integer: digits only, no fraction, no exponent *)
Definition is_int_lit (n : snum) : bool :=
  match n_frac n, n_exp n with None, None => true | _, _ => false end.

(** saturation at the int64 limits *)
Definition sat64 (z : Z) : Z := Z.max (- 2 ^ 63) (Z.min (2 ^ 63 - 1) z).

(** int64 denoted by a number in a position read by Parser.int (INT / HEX attribute ranges, defaults
    and values).  A decimal integer literal denotes ITS VALUE (digits read in base ten, sign applied),
    saturated at the int64 limits - stated without reference to the parser model.  Only the other
    spellings (fraction and / or exponent) are read through float64: correctly rounded ParseFloat,
    truncation toward zero with clamps, sign applied afterwards as the parser does. *)
Definition num_int (n : snum) : Z :=
  if is_int_lit n then sat64 (if n_neg n then - uint_value (n_digits n) else uint_value (n_digits n))
  else match parse_float (num_lit n) with
       | Some b => let i := int64_of_b64 b in if n_neg n then neg64 i else i
       | None => 0
       end.

(** what the code as it was made of it (F12): every spelling through float64, upper clamp tested
    with '>' (refuted in Properties/C04.v) *)
Definition num_int_old (n : snum) : Z :=
  match parse_float (num_lit n) with
  | Some b => let i := int64_of_b64_old b in if n_neg n then neg64 i else i
  | None => 0
  end.

Definition attr_obj_type (o : sattr_obj) : object_type :=
  match o with
  | AONone => OtUnspecified | AONode => OtNode | AOMessage => OtMessage | AOSignal => OtSignal | AOEnvVar => OtEnvVar
  end.

Definition attr_body_type (b : sattr_body) : attr_type :=
  match b with
  | ABInt false _ => AtInt | ABInt true _ => AtHex | ABFloat _ => AtFloat | ABString => AtString | ABEnum _ _ => AtEnum
  end.

Definition attr_body_enums (b : sattr_body) : list bytes :=
  match b with ABEnum v vs => v :: vs | _ => [] end.

(** the attribute definitions seen so far, in order: name -> (type, enum values); the FIRST entry of a
    name types the values of BA_DEF_DEF_ / BA_ *)
Definition actx := list (bytes * (attr_type * list bytes)).

Fixpoint lookup_ctx (name : bytes) (ctx : actx) : option (attr_type * list bytes) :=
  match ctx with
  | [] => None
  | (n, v) :: t => if bytes_eqb n name then Some v else lookup_ctx name t
  end.

Definition ctx_step (ctx : actx) (d : sdef) : actx :=
  match d with
  | SAttr _ name body => ctx ++ [(name, (attr_body_type body, attr_body_enums body))]
  | _ => ctx
  end.

(** (int, float, string) value of BA_DEF_DEF_ / BA_ *)
Definition elab_attr_value (ctx : actx) (name : bytes) (v : sattr_value) : Z * Z * bytes :=
  match v with
  | AVNone => (0, 0, [])
  | AVInt n => (num_int n, 0, [])
  | AVFloat n => (0, num_bits n, [])
  | AVString s | AVEnumString s => (0, 0, s)
  | AVEnumIndex i =>
    match lookup_ctx name ctx with
    | Some (_, vs) => (0, 0, nth (Z.to_nat (uint_value i)) vs [])
    | None => (0, 0, [])
    end
  end.

Definition elab_def (line off : Z) (d : sdef) : def :=
  let p := {| p_line := line; p_column := 1; p_offset := off |} in
  match d with
  | SNewSymbols syms => DNewSymbols p syms
  | SAttr o name body =>
    DAttribute {| ad_pos := p; ad_object := attr_obj_type o; ad_name := name; ad_type := attr_body_type body;
                  ad_min_int := (match body with ABInt _ (Some (a, _)) => num_int a | _ => 0 end);
                  ad_max_int := (match body with ABInt _ (Some (_, b)) => num_int b | _ => 0 end);
                  ad_min_float := (match body with ABFloat (Some (a, _)) => num_bits a | _ => 0 end);
                  ad_max_float := (match body with ABFloat (Some (_, b)) => num_bits b | _ => 0 end);
                  ad_enum_values := attr_body_enums body |}
  | SAttrDefault name _ => DAttributeDefault {| dd_pos := p; dd_name := name; dd_int := 0; dd_float := 0; dd_string := [] |}
  | SAttrValue name _ _ =>
    DAttributeValue {| av_pos := p; av_name := name; av_object := OtUnspecified; av_message_id := 0; av_signal := [];
                       av_node := []; av_envvar := []; av_int := 0; av_float := 0; av_string := [] |}
  | SComment o t =>
    DComment
      match o with
      | ObjNone => {| cm_pos := p; cm_object := OtUnspecified; cm_node := []; cm_message_id := 0; cm_signal := []; cm_envvar := []; cm_comment := str_val t |}
      | ObjNode n => {| cm_pos := p; cm_object := OtNode; cm_node := n; cm_message_id := 0; cm_signal := []; cm_envvar := []; cm_comment := str_val t |}
      | ObjMessage i => {| cm_pos := p; cm_object := OtMessage; cm_node := []; cm_message_id := msgid i; cm_signal := []; cm_envvar := []; cm_comment := str_val t |}
      | ObjSignal i n => {| cm_pos := p; cm_object := OtSignal; cm_node := []; cm_message_id := msgid i; cm_signal := n; cm_envvar := []; cm_comment := str_val t |}
      | ObjEnvVar n => {| cm_pos := p; cm_object := OtEnvVar; cm_node := []; cm_message_id := 0; cm_signal := []; cm_envvar := n; cm_comment := str_val t |}
      end
  | SValues (Some i) n vs =>
    DValueDescriptions {| vs_pos := p; vs_object := OtSignal; vs_message_id := msgid i; vs_signal := n; vs_envvar := [];
                          vs_values := elab_values line off (off + blen kw_value_descriptions + 1 + blen i + 1 + blen n + 1) vs |}
  | SValues None n vs =>
    DValueDescriptions {| vs_pos := p; vs_object := OtEnvVar; vs_message_id := 0; vs_signal := []; vs_envvar := n;
                          vs_values := elab_values line off (off + blen kw_value_descriptions + 1 + blen n + 1) vs |}
  | SValueTable n vs => DValueTable p n (elab_values line off (off + blen kw_value_table + 1 + blen n + 1) vs)
  | SSigValType i n _ t => DSignalValueType p (msgid i) n (uint_value t)
  | SMsgTx i txs => DMessageTransmitters p (msgid i) (map fst txs)
  | SEnvVar n t mn mx u init i acc node nodes =>
    DEnvVar {| ev_pos := p; ev_name := n; ev_type := uint_value t; ev_min := num_bits mn; ev_max := num_bits mx;
               ev_unit := u; ev_initial := num_bits init; ev_id := uint_value i; ev_access := access_of acc;
               ev_access_nodes := node :: nodes |}
  | SEnvVarData n sz => DEnvVarData p n (uint_value sz)
  | SMessage i n sz tx sigs =>
    DMessage {| m_pos := p; m_id := uint_value i mod 2 ^ 32; m_name := n; m_size := uint_value sz;
                m_transmitter := tx;
                m_signals := elab_signals (line + 1) (off + blen (message_header i n sz tx)) sigs |}
  | SVersion s => DVersion p s
  | SBitTiming None => DBitTiming p 0 0 0
  | SBitTiming (Some (b, None)) => DBitTiming p (uint_value b) 0 0
  | SBitTiming (Some (b, Some (b1, b2))) => DBitTiming p (uint_value b) (uint_value b1) (uint_value b2)
  | SNodes ns => DNodes p ns
  | SUnknown kw _ => DUnknown p kw
  | SSignal s => DSignal (elab_signal line off s)
  end.

(** the denotation of one definition in the context of the attribute definitions before it (only
    BA_DEF_DEF_ and BA_ depend on the context; for them [elab_def] above is a placeholder) *)
Definition elab_def_ctx (ctx : actx) (line off : Z) (d : sdef) : def :=
  let p := {| p_line := line; p_column := 1; p_offset := off |} in
  match d with
  | SAttrDefault name v =>
    let '(i, f, s) := elab_attr_value ctx name v in
    DAttributeDefault {| dd_pos := p; dd_name := name; dd_int := i; dd_float := f; dd_string := s |}
  | SAttrValue name o v =>
    let '(i, f, s) := elab_attr_value ctx name v in
    DAttributeValue
      match o with
      | ObjNone => {| av_pos := p; av_name := name; av_object := OtUnspecified; av_message_id := 0; av_signal := []; av_node := []; av_envvar := []; av_int := i; av_float := f; av_string := s |}
      | ObjNode n => {| av_pos := p; av_name := name; av_object := OtNode; av_message_id := 0; av_signal := []; av_node := n; av_envvar := []; av_int := i; av_float := f; av_string := s |}
      | ObjMessage m => {| av_pos := p; av_name := name; av_object := OtMessage; av_message_id := msgid m; av_signal := []; av_node := []; av_envvar := []; av_int := i; av_float := f; av_string := s |}
      | ObjSignal m n => {| av_pos := p; av_name := name; av_object := OtSignal; av_message_id := msgid m; av_signal := n; av_node := []; av_envvar := []; av_int := i; av_float := f; av_string := s |}
      | ObjEnvVar n => {| av_pos := p; av_name := name; av_object := OtEnvVar; av_message_id := 0; av_signal := []; av_node := []; av_envvar := n; av_int := i; av_float := f; av_string := s |}
      end
  | _ => elab_def line off d
  end.

Fixpoint elab_from (ctx : actx) (line off : Z) (ds : list sdef) : list def :=
  match ds with
  | [] => []
  | d :: t => elab_def_ctx ctx line off d :: elab_from (ctx_step ctx d) (line + def_lines d) (off + blen (print_def d)) t
  end.

Definition elaborate (ds : list sdef) : list def := elab_from [] 1 0 ds.

(** files with blank lines: every definition is preceded by a (possibly empty) block of blank lines *)
Definition item : Type := bytes * sdef.

Fixpoint print_items (its : list item) : bytes :=
  match its with
  | [] => []
  | (g, d) :: t => g ++ print_def d ++ print_items t
  end.

Fixpoint elab_items (ctx : actx) (line off : Z) (its : list item) : list def :=
  match its with
  | [] => []
  | (g, d) :: t =>
    elab_def_ctx ctx (line + nl_count g) (off + blen g) d
    :: elab_items (ctx_step ctx d) (line + nl_count g + def_lines d) (off + blen g + blen (print_def d)) t
  end.

(** the whole file: items, then a final block of blank lines *)
Definition print_file (its : list item) (gend : bytes) : bytes := print_items its ++ gend.
Definition elaborate_file (its : list item) : list def := elab_items [] 1 0 its.

End Layout.

Definition plain (ds : list sdef) : list item := map (fun d => ([], d)) ds.

(** ------------------------------------------------------------------ well-formedness *)

(** characters of a string item in the covered class: printable ASCII except the double quote (34)
    and the backslash (92) *)
Definition plain_char (c : Z) : Prop := 32 <= c < 127 /\ c <> 34 /\ c <> 92.

(** string contents of the covered class: plain characters, the escaped quote (backslash, quote), and
    a backslash followed by a plain character (the parser keeps all of them verbatim) *)
Inductive str_ok : bytes -> Prop :=
| str_nil : str_ok []
| str_plain : forall c s, plain_char c -> str_ok s -> str_ok (c :: s)
| str_esc_quote : forall s, str_ok s -> str_ok (92 :: 34 :: s)
| str_esc : forall c s, plain_char c -> str_ok s -> str_ok (92 :: c :: s).

(** string bodies that may also contain line ends (used for the text of CM_): plain characters,
    line ends, the escaped quote, and a backslash followed by anything that is not a quote (the
    backslash is then an ordinary character) *)
Inductive str_okn : bytes -> Prop :=
| strn_nil : str_okn []
| strn_plain : forall c s, plain_char c -> str_okn s -> str_okn (c :: s)
| strn_nl : forall s, str_okn s -> str_okn (10 :: s)
| strn_esc_quote : forall s, str_okn s -> str_okn (92 :: 34 :: s)
| strn_esc : forall c s, c <> 34 -> str_okn (c :: s) -> str_okn (92 :: c :: s).

Lemma str_ok_okn : forall s, str_ok s -> str_okn s.
Proof.
  intros s H. induction H.
  - constructor.
  - apply strn_plain; assumption.
  - apply strn_esc_quote; assumption.
  - apply strn_esc; [destruct H as (_ & H & _); exact H|apply strn_plain; assumption].
Qed.

Lemma str_ok_no_nl : forall s, str_ok s -> nl_count s = 0 /\ str_val s = s.
Proof.
  intros s H. unfold str_val. induction H as [|c s Hc _ (IH1 & IH2)|s _ (IH1 & IH2)|c s Hc _ (IH1 & IH2)]; cbn [nl_count map].
  - split; reflexivity.
  - assert (E : (c =? 10) = false) by (apply Z.eqb_neq; destruct Hc; lia). rewrite E, IH1, IH2. split; reflexivity.
  - change (92 =? 10) with false. change (34 =? 10) with false. cbv iota. rewrite IH1, IH2. split; reflexivity.
  - assert (E : (c =? 10) = false) by (apply Z.eqb_neq; destruct Hc; lia). change (92 =? 10) with false. cbv iota.
    rewrite E, IH1, IH2. split; reflexivity.
Qed.

Fixpoint str_okb_aux (n : nat) (s : bytes) : bool :=
  match n with
  | O => false
  | S n' =>
    match s with
    | [] => true
    | 92 :: 34 :: t => str_okb_aux n' t
    | 92 :: c :: t => (32 <=? c) && (c <? 127) && negb (c =? 34) && negb (c =? 92) && str_okb_aux n' t
    | c :: t => (32 <=? c) && (c <? 127) && negb (c =? 34) && negb (c =? 92) && str_okb_aux n' t
    end
  end.
Definition str_okb (s : bytes) : bool := str_okb_aux (S (length s)) s.

(** decimal literal without leading zeros (text/scanner reads a leading 0 as octal), value < 2^64 *)
Definition wf_digits (ds : bytes) : Prop :=
  exists d0 t, ds = d0 :: t /\ is_decimal d0 = true /\ Forall (fun a => is_decimal a = true) t /\ (d0 <> 48 \/ t = []).

Definition wf_uint (ds : bytes) : Prop := wf_digits ds /\ uint_value ds < 2 ^ 64.

(** the 16 keywords that Parse() dispatches on *)
Definition dispatching (kw : bytes) : bool :=
  bytes_eqb kw kw_version || bytes_eqb kw kw_bit_timing || bytes_eqb kw kw_new_symbols || bytes_eqb kw kw_nodes
  || bytes_eqb kw kw_message || bytes_eqb kw kw_signal || bytes_eqb kw kw_envvar || bytes_eqb kw kw_comment
  || bytes_eqb kw kw_attribute || bytes_eqb kw kw_attribute_default || bytes_eqb kw kw_attribute_value
  || bytes_eqb kw kw_value_descriptions || bytes_eqb kw kw_value_table || bytes_eqb kw kw_signal_value_type
  || bytes_eqb kw kw_message_transmitters || bytes_eqb kw kw_envvar_data.

(** punctuation allowed in unknown lines: printable ASCII that starts neither an identifier nor a
    number (the dot is excluded: a dot followed by a digit is a number) *)
Definition upunct (c : Z) : Prop :=
  33 <= c < 127 /\ ((c =? 95) || ascii_letter c) = false /\ is_decimal c = false /\ c <> 46.

Definition wf_utok (t : utok) : Prop :=
  match t with
  | UIdent s => ident_valid s = true
  | UNum ds => wf_digits ds
  | UPunct c => upunct c
  end.

(** a number: integer part without leading zeros, optional fraction (at least one digit), optional
    exponent (e or E, optional sign, at least one digit), accepted by ParseFloat (i.e. finite) *)
Definition wf_num (n : snum) : Prop :=
  wf_digits (n_digits n) /\ wf_frac (n_frac n) /\ wf_exp (n_exp n) /\ parse_float (num_lit n) <> None.

Definition wf_mux (m : smux) : Prop :=
  match m with
  | Muxed ds => wf_digits ds /\ uint_value ds < 2 ^ 63
  | _ => True
  end.

Definition wf_signal (s : ssignal) : Prop :=
  ident_valid (ss_name s) = true /\ wf_mux (ss_mux s) /\ wf_uint (ss_start s) /\ wf_uint (ss_size s)
  /\ wf_num (ss_factor s) /\ wf_num (ss_offset s) /\ wf_num (ss_min s) /\ wf_num (ss_max s)
  /\ str_ok (ss_unit s)
  /\ ident_valid (ss_receiver s) = true /\ Forall (fun r => ident_valid r = true) (ss_receivers s).

Definition wf_msgid (i : bytes) : Prop := wf_uint i /\ msgid_valid (msgid i) = true.

Definition wf_obj (o : sobj) : Prop :=
  match o with
  | ObjNone => True
  | ObjNode n => ident_valid n = true
  | ObjMessage i => wf_msgid i
  | ObjSignal i n => wf_msgid i /\ ident_valid n = true
  | ObjEnvVar n => ident_valid n = true
  end.

Definition wf_value (v : snum * bytes) : Prop := wf_num (fst v) /\ str_ok (snd v).

(** an enumeration digit: "0" .. "max" *)
Definition wf_enum (t : bytes) (mx : Z) : Prop := exists d, t = [d] /\ 48 <= d <= 48 + mx.

Definition wf_range (r : option (snum * snum)) : Prop :=
  match r with None => True | Some (a, b) => wf_num a /\ wf_num b end.

Definition wf_attr_body (b : sattr_body) : Prop :=
  match b with
  | ABInt _ r | ABFloat r => wf_range r
  | ABString => True
  | ABEnum v vs => str_ok v /\ Forall str_ok vs
  end.

(** the value form must fit the type of the first BA_DEF_ of that name (none: no value) *)
Definition wf_attr_value (ctx : actx) (name : bytes) (v : sattr_value) : Prop :=
  match lookup_ctx name ctx, v with
  | None, AVNone => True
  | Some (AtInt, _), AVInt n | Some (AtHex, _), AVInt n | Some (AtFloat, _), AVFloat n => wf_num n
  | Some (AtString, _), AVString s | Some (AtEnum, _), AVEnumString s => str_ok s
  | Some (AtEnum, vs), AVEnumIndex i => wf_uint i /\ uint_value i < Z.of_nat (length vs)
  | _, _ => False
  end.

Definition wf_sdef (d : sdef) : Prop :=
  match d with
  | SNewSymbols syms => Forall (fun s => ident_valid s = true) syms
  | SAttr _ name body => ident_valid name = true /\ wf_attr_body body
  | SAttrDefault name _ => str_ok name
  | SAttrValue name o _ => str_ok name /\ wf_obj o
  | SComment o t => wf_obj o /\ str_okn t
  | SValues (Some i) n vs => wf_msgid i /\ ident_valid n = true /\ Forall wf_value vs
  | SValues None n vs => ident_valid n = true /\ Forall wf_value vs
  | SValueTable n vs => ident_valid n = true /\ Forall wf_value vs
  | SSigValType i n _ t => wf_msgid i /\ ident_valid n = true /\ wf_enum t 2
  | SMsgTx i txs => wf_msgid i /\ Forall (fun x => ident_valid (fst x) = true) txs
  | SEnvVar n t mn mx u init i acc node nodes =>
    ident_valid n = true /\ wf_enum t 2 /\ wf_num mn /\ wf_num mx /\ str_ok u /\ wf_num init /\ wf_uint i
    /\ 0 <= acc <= 3 /\ ident_valid node = true /\ Forall (fun r => ident_valid r = true) nodes
  | SEnvVarData n sz => ident_valid n = true /\ wf_uint sz
  | SMessage i n sz tx sigs =>
    wf_uint i /\ msgid_valid (uint_value i mod 2 ^ 32) = true /\ ident_valid n = true /\ wf_uint sz
    /\ ident_valid tx = true /\ Forall wf_signal sigs
  | SVersion s => str_ok s
  | SBitTiming None => True
  | SBitTiming (Some (b, None)) => wf_uint b
  | SBitTiming (Some (b, Some (b1, b2))) => wf_uint b /\ wf_uint b1 /\ wf_uint b2
  | SNodes ns => Forall (fun n => ident_valid n = true) ns
  | SUnknown kw ts => ident_valid kw = true /\ dispatching kw = false /\ Forall wf_utok ts
  | SSignal s => wf_signal s
  end.

(** well-formedness in the context of the earlier attribute definitions *)
Definition wf_sdef_ctx (ctx : actx) (d : sdef) : Prop :=
  wf_sdef d /\
  match d with
  | SAttrDefault name v | SAttrValue name _ v => wf_attr_value ctx name v
  | _ => True
  end.

Fixpoint wf_defs (ctx : actx) (ds : list sdef) : Prop :=
  match ds with
  | [] => True
  | d :: t => wf_sdef_ctx ctx d /\ wf_defs (ctx_step ctx d) t
  end.

(** a top-level SG_ must not directly follow a BO_ block (it would be read as a signal of that message) *)
Definition is_message (d : sdef) : bool := match d with SMessage _ _ _ _ _ => true | _ => false end.
Definition is_signal (d : sdef) : bool := match d with SSignal _ => true | _ => false end.

Fixpoint sg_placed (prev_msg : bool) (ds : list sdef) : Prop :=
  match ds with
  | [] => True
  | d :: t => (prev_msg = true -> is_signal d = false) /\ sg_placed (is_message d) t
  end.

(** a whole file: no attribute definition precedes it *)
Definition wf_file (ds : list sdef) : Prop := wf_defs [] ds /\ sg_placed false ds.

(** ------------------------------------------------------------------ layout *)

(** the characters written before a line end: spaces and carriage returns *)
Definition cr_ok (cr : bytes) : Prop := Forall (fun c => c = 32 \/ c = 13) cr.

(** blank lines: spaces, carriage returns and line ends; empty, or ending in a line end (the next
    definition starts in column 1). Tabs are excluded: after NS_ a tab starts a symbol line. *)
Definition blank_char (c : Z) : Prop := c = 32 \/ c = 13 \/ c = 10.
Definition blank_block (g : bytes) : Prop := Forall blank_char g /\ (g = [] \/ exists g', g = g' ++ [10]).

Fixpoint wf_items (ctx : actx) (its : list item) : Prop :=
  match its with
  | [] => True
  | (g, d) :: t => blank_block g /\ wf_sdef_ctx ctx d /\ wf_items (ctx_step ctx d) t
  end.

(** a whole file with its layout: line-end run, items, final blank lines *)
Definition wf_lfile (cr : bytes) (its : list item) (gend : bytes) : Prop :=
  cr_ok cr /\ wf_items [] its /\ sg_placed false (map snd its) /\ blank_block gend.
