(** Executable model of /repo/internal/generate/compile.go (Compile = collectDescriptors;
    addMetadata; sortDescriptors), pkg/dbc/messageid.go (in Dbc/Ast.v), the lookups of
    pkg/descriptor/database.go and pkg/descriptor/sendtype.go.

    Input: the parsed definitions ([Dbc.Ast.def]; what [dbc.Parser.Defs()] returns).
    Output: [Descriptor.Types.database] and the list of warnings, each warning reduced to
    (kind, position of the definition it is about).

    Conventions (as in Ast.v / Types.v): Go strings are byte lists [list Z]; float64 values
    are IEEE-754 binary64 BIT PATTERNS; Go's [==] and [<] on strings are byte-wise equality
    and byte-wise lexicographic order ([bytes_eqb], [bytes_ltb]).

    Machine arithmetic is written out where the Go type converts:
      [uint8(def.Size)], [uint8(StartBit)]          -> [uint8]  (mod 2^8, TRUNCATES)
      [uint(MultiplexerSwitch)]                     -> [uint_of_u64] (uint is 64 bit: amd64/arm64)
      [int(def.IntValue)]                           -> [int_of_i64]  (int is 64 bit)
      [time.Duration(IntValue) * time.Millisecond]  -> [duration_ms] (int64 product WRAPS)
      [int64(valueDescription.Value)]               -> [int64_of_f64] on the bit pattern:
            truncation toward zero when the value is finite and inside int64 (what the Go
            spec defines); outside that the Go spec leaves the result implementation-defined
            and the model returns what amd64's CVTTSD2SQ returns, -2^63 ([f64_in_int64]
            flags it; the compile class only has integral in-range values).
      [strings.ToLower] in SendType.UnmarshalString -> [lower_byte] on ASCII; for strings
            containing bytes >= 0x80 Go applies Unicode case mapping (U+0130, U+212A map to
            ASCII letters), which is NOT modelled: the class requires ASCII send types.

    The pointer structure of the Go code (lookups return pointers into the database that is
    then mutated) is modelled by "update the first element that matches", which is what
    [Database.Node/Message/Signal] select.

    [sort.Slice] is [Base.Sort.sort_slice]; see the scope note there.  The signal comparator
    [sig_less] is the one in the code AFTER the fix F10 (start bit, then multiplexer value);
    [sig_less_old] is the comparator before the fix, kept for [compile_perm_refuted].

    DEFINITIONS ONLY. *)
From Coq Require Import String.
From Coq Require Import ZArith List Bool.
From CanVerif Require Import Base.Sort Dbc.Ast Descriptor.Types.
Import ListNotations.
Open Scope Z_scope.

(** * Conversions *)
Definition two63 : Z := 9223372036854775808.
Definition two64 : Z := 18446744073709551616.
Definition uint8 (z : Z) : Z := z mod 256.
Definition uint_of_u64 (z : Z) : Z := z mod two64.
Definition wrap64 (z : Z) : Z := (z + two63) mod two64 - two63.
Definition int_of_i64 (z : Z) : Z := wrap64 z.
(** time.Duration(v) * time.Millisecond, in nanoseconds *)
Definition duration_ms (v : Z) : Z := wrap64 (v * 1000000).

(** binary64 bit pattern -> its value truncated toward zero; [None] for NaN and infinities *)
Definition f64_sign (b : Z) : bool := Z.testbit b 63.
Definition f64_exp (b : Z) : Z := Z.land (Z.shiftr b 52) 2047.
Definition f64_man (b : Z) : Z := Z.land b 4503599627370495.        (* 2^52 - 1 *)
Definition f64_trunc (b : Z) : option Z :=
  let e := f64_exp b in
  if e =? 2047 then None
  else
    let mag :=
      if e =? 0 then 0                                              (* zero and subnormals: |x| < 1 *)
      else
        let m := f64_man b + 4503599627370496 in                    (* implicit leading one *)
        if 1075 <=? e then Z.shiftl m (e - 1075) else Z.shiftr m (1075 - e) in
    Some (if f64_sign b then - mag else mag).
(** the value is an integer *)
Definition f64_integral (b : Z) : bool :=
  let e := f64_exp b in
  if e =? 2047 then false
  else if e =? 0 then f64_man b =? 0
  else if 1075 <=? e then true
  else (f64_man b + 4503599627370496) mod 2 ^ (1075 - e) =? 0.
(** finite and the truncation fits int64: the conversion is defined by the Go spec *)
Definition f64_in_int64 (b : Z) : bool :=
  match f64_trunc b with Some v => (- two63 <=? v) && (v <? two63) | None => false end.
Definition int64_of_f64 (b : Z) : Z :=
  match f64_trunc b with
  | Some v => if (- two63 <=? v) && (v <? two63) then v else - two63
  | None => - two63
  end.

(** * Strings *)
Fixpoint bytes_ltb (a b : bytes) : bool :=
  match a, b with
  | _, [] => false
  | [], _ :: _ => true
  | x :: a', y :: b' => if x <? y then true else if y <? x then false else bytes_ltb a' b'
  end.
Definition lower_byte (c : Z) : Z := if (65 <=? c) && (c <=? 90) then c + 32 else c.
Definition is_ascii (s : bytes) : bool := forallb (fun c => c <? 128) s.

Definition st_cyclic : bytes := Eval compute in bytes_of_string "cyclic"%string.
Definition st_cyclicifactive : bytes := Eval compute in bytes_of_string "cyclicifactive"%string.
Definition st_periodic : bytes := Eval compute in bytes_of_string "periodic"%string.
Definition st_fixedperiodic : bytes := Eval compute in bytes_of_string "fixedperiodic"%string.
Definition st_enabledperiodic : bytes := Eval compute in bytes_of_string "enabledperiodic"%string.
Definition st_eventperiodic : bytes := Eval compute in bytes_of_string "eventperiodic"%string.
Definition st_event : bytes := Eval compute in bytes_of_string "event"%string.
Definition st_onevent : bytes := Eval compute in bytes_of_string "onevent"%string.

(** sendtype.go UnmarshalString: never fails; unknown strings give SendTypeNone *)
Definition unmarshal_send_type (s : bytes) : send_type :=
  let l := map lower_byte s in
  if existsb (bytes_eqb l)
       [st_cyclic; st_cyclicifactive; st_periodic; st_fixedperiodic; st_enabledperiodic; st_eventperiodic]
  then SendCyclic
  else if existsb (bytes_eqb l) [st_event; st_onevent] then SendEvent
  else SendNone.

Definition attr_send_type : bytes := Eval compute in bytes_of_string "GenMsgSendType"%string.
Definition attr_cycle_time : bytes := Eval compute in bytes_of_string "GenMsgCycleTime"%string.
Definition attr_delay_time : bytes := Eval compute in bytes_of_string "GenMsgDelayTime"%string.
Definition attr_start_value : bytes := Eval compute in bytes_of_string "GenSigStartValue"%string.

(** * Record updates *)
Definition set_s_float (s : signal) (v : bool) : signal :=
  {| s_name := s_name s; s_start := s_start s; s_length := s_length s; s_big_endian := s_big_endian s;
     s_signed := s_signed s; s_float := v; s_multiplexer := s_multiplexer s; s_multiplexed := s_multiplexed s;
     s_mux_value := s_mux_value s; s_offset := s_offset s; s_scale := s_scale s; s_min := s_min s; s_max := s_max s;
     s_unit := s_unit s; s_description := s_description s; s_value_descriptions := s_value_descriptions s;
     s_receivers := s_receivers s; s_default := s_default s |}.
Definition set_s_description (s : signal) (v : bytes) : signal :=
  {| s_name := s_name s; s_start := s_start s; s_length := s_length s; s_big_endian := s_big_endian s;
     s_signed := s_signed s; s_float := s_float s; s_multiplexer := s_multiplexer s; s_multiplexed := s_multiplexed s;
     s_mux_value := s_mux_value s; s_offset := s_offset s; s_scale := s_scale s; s_min := s_min s; s_max := s_max s;
     s_unit := s_unit s; s_description := v; s_value_descriptions := s_value_descriptions s;
     s_receivers := s_receivers s; s_default := s_default s |}.
Definition set_s_value_descriptions (s : signal) (v : list value_description) : signal :=
  {| s_name := s_name s; s_start := s_start s; s_length := s_length s; s_big_endian := s_big_endian s;
     s_signed := s_signed s; s_float := s_float s; s_multiplexer := s_multiplexer s; s_multiplexed := s_multiplexed s;
     s_mux_value := s_mux_value s; s_offset := s_offset s; s_scale := s_scale s; s_min := s_min s; s_max := s_max s;
     s_unit := s_unit s; s_description := s_description s; s_value_descriptions := v;
     s_receivers := s_receivers s; s_default := s_default s |}.
Definition set_s_default (s : signal) (v : Z) : signal :=
  {| s_name := s_name s; s_start := s_start s; s_length := s_length s; s_big_endian := s_big_endian s;
     s_signed := s_signed s; s_float := s_float s; s_multiplexer := s_multiplexer s; s_multiplexed := s_multiplexed s;
     s_mux_value := s_mux_value s; s_offset := s_offset s; s_scale := s_scale s; s_min := s_min s; s_max := s_max s;
     s_unit := s_unit s; s_description := s_description s; s_value_descriptions := s_value_descriptions s;
     s_receivers := s_receivers s; s_default := v |}.

Definition set_msg_send_type (m : message) (v : send_type) : message :=
  {| msg_name := msg_name m; msg_id := msg_id m; msg_extended := msg_extended m; msg_length := msg_length m;
     msg_send_type := v; msg_description := msg_description m; msg_signals := msg_signals m;
     msg_sender := msg_sender m; msg_cycle_time := msg_cycle_time m; msg_delay_time := msg_delay_time m |}.
Definition set_msg_description (m : message) (v : bytes) : message :=
  {| msg_name := msg_name m; msg_id := msg_id m; msg_extended := msg_extended m; msg_length := msg_length m;
     msg_send_type := msg_send_type m; msg_description := v; msg_signals := msg_signals m;
     msg_sender := msg_sender m; msg_cycle_time := msg_cycle_time m; msg_delay_time := msg_delay_time m |}.
Definition set_msg_signals (m : message) (v : list signal) : message :=
  {| msg_name := msg_name m; msg_id := msg_id m; msg_extended := msg_extended m; msg_length := msg_length m;
     msg_send_type := msg_send_type m; msg_description := msg_description m; msg_signals := v;
     msg_sender := msg_sender m; msg_cycle_time := msg_cycle_time m; msg_delay_time := msg_delay_time m |}.
Definition set_msg_cycle_time (m : message) (v : Z) : message :=
  {| msg_name := msg_name m; msg_id := msg_id m; msg_extended := msg_extended m; msg_length := msg_length m;
     msg_send_type := msg_send_type m; msg_description := msg_description m; msg_signals := msg_signals m;
     msg_sender := msg_sender m; msg_cycle_time := v; msg_delay_time := msg_delay_time m |}.
Definition set_msg_delay_time (m : message) (v : Z) : message :=
  {| msg_name := msg_name m; msg_id := msg_id m; msg_extended := msg_extended m; msg_length := msg_length m;
     msg_send_type := msg_send_type m; msg_description := msg_description m; msg_signals := msg_signals m;
     msg_sender := msg_sender m; msg_cycle_time := msg_cycle_time m; msg_delay_time := v |}.
Definition set_node_description (n : node) (v : bytes) : node :=
  {| node_name := node_name n; node_description := v |}.

Definition set_db_version (db : database) (v : bytes) : database :=
  {| db_source_file := db_source_file db; db_version := v; db_messages := db_messages db; db_nodes := db_nodes db |}.
Definition set_db_messages (db : database) (v : list message) : database :=
  {| db_source_file := db_source_file db; db_version := db_version db; db_messages := v; db_nodes := db_nodes db |}.
Definition set_db_nodes (db : database) (v : list node) : database :=
  {| db_source_file := db_source_file db; db_version := db_version db; db_messages := db_messages db; db_nodes := v |}.

(** * collectDescriptors (compile.go:52-96) *)
Definition collect_signal (sd : signal_def) : signal :=
  {| s_name := sg_name sd;
     s_start := uint8 (sg_start sd);
     s_length := uint8 (sg_size sd);
     s_big_endian := sg_big_endian sd;
     s_signed := sg_signed sd;
     s_float := false;
     s_multiplexer := sg_mux_switch sd;
     s_multiplexed := sg_multiplexed sd;
     s_mux_value := uint_of_u64 (sg_mux_value sd);
     s_offset := sg_offset sd; s_scale := sg_factor sd; s_min := sg_min sd; s_max := sg_max sd;
     s_unit := sg_unit sd;
     s_description := [];
     s_value_descriptions := [];
     s_receivers := sg_receivers sd;
     s_default := 0 |}.

Definition collect_message (md : message_def) : message :=
  {| msg_name := m_name md;
     msg_id := msgid_to_can (m_id md);
     msg_extended := msgid_is_extended (m_id md);
     msg_length := uint8 (m_size md);
     msg_send_type := SendNone;
     msg_description := [];
     msg_signals := map collect_signal (m_signals md);
     msg_sender := m_transmitter md;
     msg_cycle_time := 0;
     msg_delay_time := 0 |}.

Definition collect_step (db : database) (d : def) : database :=
  match d with
  | DVersion _ v => set_db_version db v
  | DMessage md =>
      if m_id md =? msgid_independent then db                      (* don't compile *)
      else set_db_messages db (db_messages db ++ [collect_message md])
  | DNodes _ names =>
      set_db_nodes db (db_nodes db ++ map (fun n => {| node_name := n; node_description := [] |}) names)
  | _ => db
  end.

Definition empty_db (source : bytes) : database :=
  {| db_source_file := source; db_version := []; db_messages := []; db_nodes := [] |}.
Definition collect (source : bytes) (defs : list def) : database :=
  fold_left collect_step defs (empty_db source).

(** * addMetadata (compile.go:98-200) *)
Inductive warn_kind :=
| WNoSignal          (* "no declared signal" *)
| WNoMessage         (* "no declared message" *)
| WNoNode            (* "no declared node" *)
| WFloatLength       (* "incorrect float signal length: %d" *)
| WUnsupportedType.  (* "unsupported signal value type: %v" *)
Definition warning : Type := warn_kind * position.

(** Database.Node / .Message / .Signal return a pointer to the FIRST match; the caller then
    mutates through it.  [f] returns the new element and the warnings the caller adds. *)
Fixpoint update_first {A W : Type} (p : A -> bool) (f : A -> option (A * list W)) (l : list A)
  : option (list A * list W) :=
  match l with
  | [] => None
  | a :: l' =>
      if p a then match f a with Some (a', w) => Some (a' :: l', w) | None => None end
      else match update_first p f l' with Some (l'', w) => Some (a :: l'', w) | None => None end
  end.

(** what one definition does: nothing, or look up a node / message / signal and change it *)
Inductive action :=
| ANone
| ANode (name : bytes) (f : node -> node)
| AMessage (id : Z) (f : message -> message)
| ASignal (id : Z) (name : bytes) (f : signal -> signal * list warn_kind).

Definition vdesc_of_def (v : value_description_def) : value_description :=
  {| vdesc_value := int64_of_f64 (vd_value v); vdesc_text := vd_description v |}.

Definition meta_action (d : def) : action :=
  match d with
  | DSignalValueType _ id name vt =>
      ASignal (msgid_to_can id) name (fun s =>
        if vt =? 0 then (set_s_float s false, [])
        else if vt =? 1 then
          if s_length s =? 32 then (set_s_float s true, []) else (s, [WFloatLength])
        else (s, [WUnsupportedType]))
  | DComment c =>
      match cm_object c with
      | OtMessage =>
          if cm_message_id c =? msgid_independent then ANone
          else AMessage (msgid_to_can (cm_message_id c)) (fun m => set_msg_description m (cm_comment c))
      | OtSignal =>
          if cm_message_id c =? msgid_independent then ANone
          else ASignal (msgid_to_can (cm_message_id c)) (cm_signal c)
                       (fun s => (set_s_description s (cm_comment c), []))
      | OtNode => ANode (cm_node c) (fun n => set_node_description n (cm_comment c))
      | _ => ANone
      end
  | DValueDescriptions v =>
      if vs_message_id v =? msgid_independent then ANone
      else match vs_object v with
           | OtSignal =>
               ASignal (msgid_to_can (vs_message_id v)) (vs_signal v) (fun s =>
                 (set_s_value_descriptions s (s_value_descriptions s ++ map vdesc_of_def (vs_values v)), []))
           | _ => ANone
           end
  | DAttributeValue a =>
      match av_object a with
      | OtMessage =>
          AMessage (msgid_to_can (av_message_id a)) (fun m =>
            if bytes_eqb (av_name a) attr_send_type then set_msg_send_type m (unmarshal_send_type (av_string a))
            else if bytes_eqb (av_name a) attr_cycle_time then set_msg_cycle_time m (duration_ms (av_int a))
            else if bytes_eqb (av_name a) attr_delay_time then set_msg_delay_time m (duration_ms (av_int a))
            else m)
      | OtSignal =>
          ASignal (msgid_to_can (av_message_id a)) (av_signal a) (fun s =>
            (if bytes_eqb (av_name a) attr_start_value then set_s_default s (int_of_i64 (av_int a)) else s, []))
      | _ => ANone
      end
  | _ => ANone
  end.

Definition update_message (id : Z) (f : message -> option (message * list warn_kind)) (ms : list message) :=
  update_first (fun m => msg_id m =? id) f ms.

Definition update_signal (id : Z) (name : bytes) (f : signal -> signal * list warn_kind) (ms : list message) :=
  update_message id (fun m =>
    match update_first (fun s => bytes_eqb (s_name s) name) (fun s => Some (f s)) (msg_signals m) with
    | Some (ss, w) => Some (set_msg_signals m ss, w)
    | None => None
    end) ms.

(** one iteration of the loop of addMetadata: new database, warning kinds added *)
Definition apply_action (a : action) (db : database) : database * list warn_kind :=
  match a with
  | ANone => (db, [])
  | ANode name f =>
      match update_first (fun n => bytes_eqb (node_name n) name) (fun n => Some (f n, @nil warn_kind)) (db_nodes db) with
      | Some (ns, w) => (set_db_nodes db ns, w)
      | None => (db, [WNoNode])
      end
  | AMessage id f =>
      match update_message id (fun m => Some (f m, [])) (db_messages db) with
      | Some (ms, w) => (set_db_messages db ms, w)
      | None => (db, [WNoMessage])
      end
  | ASignal id name f =>
      match update_signal id name f (db_messages db) with
      | Some (ms, w) => (set_db_messages db ms, w)
      | None => (db, [WNoSignal])
      end
  end.

Definition meta_step (st : database * list warning) (d : def) : database * list warning :=
  let (db', w) := apply_action (meta_action d) (fst st) in
  (db', snd st ++ map (fun k => (k, def_pos d)) w).

Definition add_metadata (defs : list def) (db : database) : database * list warning :=
  fold_left meta_step defs (db, []).

(** * sortDescriptors (compile.go:202-228) *)
Definition node_less (a b : node) : bool := bytes_ltb (node_name a) (node_name b).
Definition msg_less (a b : message) : bool := msg_id a <? msg_id b.
Definition vd_less (a b : value_description) : bool := vdesc_value a <? vdesc_value b.

(** the comparator in the code after fix F10:
      if s[j].Start != s[k].Start { return s[j].Start < s[k].Start }
      return s[j].MultiplexerValue < s[k].MultiplexerValue *)
Definition sig_less (a b : signal) : bool :=
  if negb (s_start a =? s_start b) then s_start a <? s_start b
  else s_mux_value a <? s_mux_value b.

(** the comparator before the fix (not asymmetric, see CompileProofs.sig_less_old_not_asym):
      if s[j].MultiplexerValue < s[k].MultiplexerValue { return true }
      return s[j].Start < s[k].Start *)
Definition sig_less_old (a b : signal) : bool :=
  if s_mux_value a <? s_mux_value b then true else s_start a <? s_start b.

Definition sort_signal (s : signal) : signal :=
  set_s_value_descriptions s (sort_slice vd_less (s_value_descriptions s)).
Definition sort_message (sl : signal -> signal -> bool) (m : message) : message :=
  set_msg_signals m (map sort_signal (sort_slice sl (msg_signals m))).
Definition sort_db_with (sl : signal -> signal -> bool) (db : database) : database :=
  {| db_source_file := db_source_file db;
     db_version := db_version db;
     db_messages := map (sort_message sl) (sort_slice msg_less (db_messages db));
     db_nodes := sort_slice node_less (db_nodes db) |}.

(** * Compile (after parsing) *)
Definition compile_with (sl : signal -> signal -> bool) (source : bytes) (defs : list def)
  : database * list warning :=
  let r := add_metadata defs (collect source defs) in
  (sort_db_with sl (fst r), snd r).

Definition sort_db := sort_db_with sig_less.
Definition compile := compile_with sig_less.
Definition compile_old := compile_with sig_less_old.
