(** C12, totality of the parser model: for EVERY byte list [src] (bytes in 0..255) and every non-ASCII
    classification, [parse_bytes il id src] is [Ok _] or [Err pos _ _] with 0 <= pos.offset <= length,
    never [Panic] (no index operation fails), never [OutOfFuel] (every loop iteration consumes
    input, so the fuel [length src + 4] suffices).

    Method: a weakest-precondition predicate [wp] over the parser monad; the invariant [pinv]
    (scanner invariant of ScannerInv.v + the lookahead token lies before the scanner position);
    the measure [nu] = byte offset of the first unconsumed token, which never decreases and
    strictly increases whenever a non-EOF token is consumed. *)
From Coq Require Import ZArith List Bool Lia.
From CanVerif Require Import Dbc.Ast Dbc.Scanner Dbc.DecFloat Dbc.Parser Dbc.ScannerInv.
Import ListNotations.
Open Scope Z_scope.

Section Tot.
  Variable il id : Z -> bool.
  Variable F : nat.
  Variable N : Z.
  Variable L : Z.     (* lower bound of the offsets: 0 for totality, the start of a definition for locality *)
  Hypothesis HL : 0 <= L.
  Hypothesis HF : N + 1 < Z.of_nat F.

  Notation okpos := (okpos N L).
  Notation sinv := (sinv N L).
  Notation tok_ok := (tok_ok N L).

  Definition nu (st : pstate) : Z :=
    match p_look st with
    | Some t => p_offset (t_pos t)
    | None => tokoff (p_sc st)
    end.

  Definition pinv (st : pstate) : Prop :=
    sinv (p_sc st) /\
    match p_look st with
    | Some t => tok_ok t /\ p_offset (t_pos t) <= tokoff (p_sc st)
                /\ (t_typ t <> EOF -> p_offset (t_pos t) < tokoff (p_sc st))
    | None => True
    end.

  Lemma pinv_bounds : forall st, pinv st -> L <= nu st <= N.
  Proof.
    intros st (Hs & Hl). unfold nu. destruct (p_look st) as [t|].
    - destruct Hl as ((Hp & _) & _). exact Hp.
    - apply (core_bounds N L). apply Hs.
  Qed.

  Lemma sinv_fuel : forall s, sinv s -> (length (s_rest s) < F)%nat.
  Proof.
    intros s ((H1 & _ & H3) & _). unfold tokoff, blen in *. pose proof (Zle_0_nat (length (s_last s))). lia.
  Qed.

  Definition wp {A} (m : M A) (st : pstate) (Post : A -> pstate -> Prop) : Prop :=
    match m st with
    | POk a st' => Post a st'
    | PErr p _ => okpos p
    | PPanic => False
    | PFuel => False
    end.

  Lemma wp_ret : forall A (a : A) st (Post : A -> pstate -> Prop), Post a st -> wp (ret a) st Post.
  Proof. intros. exact H. Qed.

  Lemma wp_fail : forall A p k st (Post : A -> pstate -> Prop), okpos p -> wp (fail p k) st Post.
  Proof. intros. exact H. Qed.

  Lemma wp_bind : forall A B (m : M A) (f : A -> M B) st Post,
    wp m st (fun a st' => wp (f a) st' Post) -> wp (bind m f) st Post.
  Proof. intros. unfold wp, bind in *. destruct (m st); auto. Qed.

  Lemma wp_conseq : forall A (m : M A) st (P Q : A -> pstate -> Prop),
    wp m st P -> (forall a st', P a st' -> Q a st') -> wp m st Q.
  Proof. intros. unfold wp in *. destruct (m st); auto. Qed.

  (** the usual postcondition: invariant, monotone measure, strict progress when [strict a], and [Q a] *)
  Definition post {A} (st : pstate) (strict : A -> Prop) (Q : A -> Prop) : A -> pstate -> Prop :=
    fun a st' => pinv st' /\ nu st <= nu st' /\ (strict a -> nu st < nu st') /\ Q a.

  Definition always {A} : A -> Prop := fun _ => True.
  Definition never {A} : A -> Prop := fun _ => False.

  (** bind with accumulated progress: after [m] (post P1) run [f a] from the new state *)
  Lemma wp_step : forall A B (m : M A) (f : A -> M B) st S1 Q1 Post,
    wp m st (post st S1 Q1) ->
    (forall a st', pinv st' -> nu st <= nu st' -> (S1 a -> nu st < nu st') -> Q1 a -> wp (f a) st' Post) ->
    wp (bind m f) st Post.
  Proof.
    intros. apply wp_bind. eapply wp_conseq; [eassumption|]. intros a st' (Hi & Hm & Hs & Hq). auto.
  Qed.

  (** ------------------------------------------------------------ primitives *)

  Lemma next_token_spec : forall st, pinv st ->
    wp (next_token il id F) st (post st (fun t => t_typ t <> EOF) tok_ok).
  Proof.
    intros st (Hs & Hl). unfold wp, next_token, post, pinv, nu. destruct (p_look st) as [t|] eqn:El.
    - cbn [p_sc p_look]. destruct Hl as (Hok & Hle & Hlt).
      split; [split; [exact Hs|exact I]|]. split; [exact Hle|]. split; [exact Hlt|exact Hok].
    - unfold lift_s, scan. pose proof (sc_scan_spec N L il id F (p_sc st) Hs (sinv_fuel _ Hs)) as H.
      destruct (sc_scan il id F (p_sc st)) as [[t s']|p k|]; cbn [sres_ok] in H; [|exact H|exact H].
      destruct H as (Hs' & _ & Hok & Hrange & Hlt & _). cbn [p_sc p_look]. rewrite El.
      split; [split; [exact Hs'|exact I]|]. split; [lia|]. split; [|exact Hok]. intros Hne. specialize (Hlt Hne). lia.
  Qed.

  Lemma peek_token_spec : forall st, pinv st ->
    wp (peek_token il id F) st (fun t st' => post st never tok_ok t st' /\ p_look st' = Some t).
  Proof.
    intros st (Hs & Hl). unfold wp, peek_token, post, pinv, never, nu. destruct (p_look st) as [t|] eqn:El.
    - rewrite El. destruct Hl as (Hok & Hle & Hlt). split; [|reflexivity].
      split; [split; [exact Hs|]|]. { split; [exact Hok|]. split; [exact Hle|exact Hlt]. }
      split; [lia|]. split; [tauto|exact Hok].
    - unfold scan. pose proof (sc_scan_spec N L il id F (p_sc st) Hs (sinv_fuel _ Hs)) as H.
      destruct (sc_scan il id F (p_sc st)) as [[t s']|p k|]; cbn [sres_ok] in H; [|exact H|exact H].
      destruct H as (Hs' & _ & Hok & Hrange & Hlt & _). cbn [p_sc p_look].
      split; [|reflexivity]. split; [split; [exact Hs'|]|].
      + split; [exact Hok|]. split; [lia|exact Hlt].
      + split; [lia|]. split; [tauto|exact Hok].
  Qed.

  Lemma use_whitespace_spec : forall ws st, pinv st -> wp (use_whitespace ws) st (post st never always).
  Proof.
    intros ws st (Hs & Hl). unfold wp, use_whitespace, post, pinv, nu, never, always. cbn [p_sc p_look].
    change (tokoff (set_ws (p_sc st) ws)) with (tokoff (p_sc st)).
    split; [split; [exact Hs | exact Hl]|]. split; [lia|]. split; [tauto|exact I].
  Qed.

  Ltac fin :=
    unfold post, always, never in *;
    repeat match goal with H : True -> _ |- _ => specialize (H I) end;
    split; [assumption | split; [lia | split; [intros; try lia; try tauto | auto]]].

  Lemma peek_token_spec' : forall st, pinv st -> wp (peek_token il id F) st (post st never tok_ok).
  Proof. intros. eapply wp_conseq; [apply peek_token_spec; assumption|]. intros a st' (H1 & _). exact H1. Qed.

  Definition look_ne (st : pstate) : Prop := exists t, p_look st = Some t /\ t_typ t <> EOF.

  Lemma typ_ne : forall t c, (t_typ t =? c) = true -> c <> EOF -> t_typ t <> EOF.
  Proof. intros t c H Hc. apply Z.eqb_eq in H. congruence. Qed.

  Lemma TIdent_ne : TIdent <> EOF. Proof. discriminate. Qed.
  Lemma TInt_ne : TInt <> EOF. Proof. discriminate. Qed.
  Lemma TFloat_ne : TFloat <> EOF. Proof. discriminate. Qed.

  (** ------------------------------------------------------------ simple operations *)

  Lemma p_identifier_spec : forall st, pinv st -> wp (p_identifier il id F) st (post st always always).
  Proof.
    intros st Hi. unfold p_identifier. eapply wp_step; [apply next_token_spec; exact Hi|].
    intros tok st1 Hi1 Hm1 Hs1 (Hp & _). destruct (t_typ tok =? TIdent) eqn:E; cbn [negb].
    2: { apply wp_fail. exact Hp. }
    destruct (ident_valid (t_txt tok)); cbn [negb]. 2: { apply wp_fail. exact Hp. }
    apply wp_ret. specialize (Hs1 (typ_ne _ _ E TIdent_ne)). fin.
  Qed.

  Lemma p_token_spec : forall typ st, pinv st -> wp (p_token il id F typ) st (post st (fun _ => typ <> EOF) always).
  Proof.
    intros typ st Hi. unfold p_token. eapply wp_step; [apply next_token_spec; exact Hi|].
    intros tok st1 Hi1 Hm1 Hs1 (Hp & _). destruct (t_typ tok =? typ) eqn:E; cbn [negb].
    - apply wp_ret. unfold post, always. split; [assumption|]. split; [lia|]. split; [|exact I].
      intros Hne. apply Hs1. eapply typ_ne; eassumption.
    - eapply wp_step; [apply peek_token_spec'; exact Hi1|]. intros t st2 _ _ _ (Hp2 & _). apply wp_fail. exact Hp2.
  Qed.

  Lemma peek_keyword_spec : forall st, pinv st ->
    wp (peek_keyword il id F) st (fun k st' => post st never always k st' /\ look_ne st').
  Proof.
    intros st Hi. unfold peek_keyword. apply wp_bind. eapply wp_conseq; [apply peek_token_spec; exact Hi|].
    intros tok st1 ((Hi1 & Hm1 & _ & (Hp & _)) & Hl). destruct (t_typ tok =? TIdent) eqn:E; cbn [negb].
    - apply wp_ret. split; [fin|]. exists tok. split; [exact Hl|]. exact (typ_ne _ _ E TIdent_ne).
    - apply wp_fail. exact Hp.
  Qed.

  Lemma peek_keyword_spec' : forall st, pinv st -> wp (peek_keyword il id F) st (post st never always).
  Proof. intros. eapply wp_conseq; [apply peek_keyword_spec; assumption|]. intros a st' (H1 & _). exact H1. Qed.

  (** consuming a non-EOF lookahead token is strict progress *)
  Lemma next_token_look_spec : forall st, pinv st -> look_ne st ->
    wp (next_token il id F) st (post st always tok_ok).
  Proof.
    intros st (Hs & Hl) (t & El & Hne). unfold wp, next_token, post, pinv, nu, always. rewrite El in *.
    cbn [p_sc p_look]. destruct Hl as (Hok & Hle & Hlt).
    split; [split; [exact Hs|exact I]|]. split; [exact Hle|]. split; [intros _; exact (Hlt Hne)|exact Hok].
  Qed.

  Lemma p_keyword_spec : forall kw st, pinv st -> wp (p_keyword il id F kw) st (post st always tok_ok).
  Proof.
    intros kw st Hi. unfold p_keyword. apply wp_bind. eapply wp_conseq; [apply peek_keyword_spec; exact Hi|].
    intros k st1 ((Hi1 & Hm1 & _ & _) & (t & Hl & Hne)). destruct (bytes_eqb k kw); cbn [negb].
    - eapply wp_conseq; [apply next_token_look_spec; [exact Hi1 | exists t; auto]|].
      intros tok st2 (Hi2 & Hm2 & Hs2 & Hq2). fin.
    - eapply wp_step; [apply peek_token_spec'; exact Hi1|]. intros t' st2 _ _ _ (Hp2 & _). apply wp_fail. exact Hp2.
  Qed.

  Lemma optional_token_spec : forall typ st, pinv st -> wp (optional_token il id F typ) st (post st never always).
  Proof.
    intros typ st Hi. unfold optional_token. eapply wp_step; [apply peek_token_spec'; exact Hi|].
    intros t st1 Hi1 Hm1 _ _. destruct (t_typ t =? typ).
    - eapply wp_conseq; [apply p_token_spec; exact Hi1|]. intros a st2 (Hi2 & Hm2 & _ & _). fin.
    - apply wp_ret. fin.
  Qed.

  Lemma uint_loop_nonneg : forall s acc i, 0 <= acc -> uint_loop s acc = Some i -> 0 <= i.
  Proof.
    induction s as [|c t IH]; intros acc i Ha H; cbn [uint_loop] in H.
    - injection H as <-. exact Ha.
    - destruct (dig c) eqn:Ed; [|discriminate]. destruct (two64 <=? acc * 10 + (c - 48)); [discriminate|].
      apply (IH _ _ ) in H; [exact H|]. unfold dig in Ed. lia.
  Qed.

  Lemma parse_uint_nonneg : forall s i, parse_uint s = Some i -> 0 <= i.
  Proof. intros s i H. destruct s as [|c t]; [discriminate|]. apply (uint_loop_nonneg (c :: t) 0); [lia|exact H]. Qed.

  Lemma p_uint_spec : forall st, pinv st -> wp (p_uint il id F) st (post st always (fun i => 0 <= i)).
  Proof.
    intros st Hi. unfold p_uint. eapply wp_step; [apply next_token_spec; exact Hi|].
    intros tok st1 Hi1 Hm1 Hs1 (Hp & _). destruct (t_typ tok =? TInt) eqn:E; cbn [negb].
    2: { apply wp_fail. exact Hp. }
    destruct (parse_uint (t_txt tok)) as [i|] eqn:Ep. 2: { apply wp_fail. exact Hp. }
    apply wp_ret. specialize (Hs1 (typ_ne _ _ E TInt_ne)). apply parse_uint_nonneg in Ep. fin.
  Qed.

  Lemma optional_minus_spec : forall st, pinv st -> wp (optional_minus il id F) st (post st never always).
  Proof.
    intros st Hi. unfold optional_minus. eapply wp_step; [apply peek_token_spec'; exact Hi|].
    intros t st1 Hi1 Hm1 _ _. destruct (t_typ t =? c_minus).
    - eapply wp_step; [apply p_token_spec; exact Hi1|]. intros a st2 Hi2 Hm2 _ _. apply wp_ret. fin.
    - apply wp_ret. fin.
  Qed.

  Lemma num_ne : forall t, (negb (t_typ t =? TInt) && negb (t_typ t =? TFloat)) = false -> t_typ t <> EOF.
  Proof.
    intros t H. destruct (t_typ t =? TInt) eqn:E1; [exact (typ_ne _ _ E1 TInt_ne)|].
    destruct (t_typ t =? TFloat) eqn:E2; [exact (typ_ne _ _ E2 TFloat_ne)|]. discriminate H.
  Qed.

  Lemma p_float_spec : forall st, pinv st -> wp (p_float il id F) st (post st always always).
  Proof.
    intros st Hi. unfold p_float. eapply wp_step; [apply optional_minus_spec; exact Hi|].
    intros neg st1 Hi1 Hm1 _ _. eapply wp_step; [apply next_token_spec; exact Hi1|].
    intros tok st2 Hi2 Hm2 Hs2 (Hp & _).
    destruct (negb (t_typ tok =? TInt) && negb (t_typ tok =? TFloat)) eqn:E.
    - eapply wp_step; [apply peek_token_spec'; exact Hi2|]. intros t' st3 _ _ _ (Hp3 & _). apply wp_fail. exact Hp3.
    - destruct (parse_float (t_txt tok)). 2: { apply wp_fail. exact Hp. }
      apply wp_ret. specialize (Hs2 (num_ne _ E)). fin.
  Qed.

  Lemma p_int_spec : forall st, pinv st -> wp (p_int il id F) st (post st always always).
  Proof.
    intros st Hi. unfold p_int. eapply wp_step; [apply optional_minus_spec; exact Hi|].
    intros neg st1 Hi1 Hm1 _ _. eapply wp_step; [apply next_token_spec; exact Hi1|].
    intros tok st2 Hi2 Hm2 Hs2 (Hp & _).
    destruct (negb (t_typ tok =? TInt) && negb (t_typ tok =? TFloat)) eqn:E.
    - apply wp_fail. exact Hp.
    - destruct (int_of_token (t_typ tok =? TInt) neg (t_txt tok)). 2: { apply wp_fail. exact Hp. }
      apply wp_ret. specialize (Hs2 (num_ne _ E)). fin.
  Qed.

  Lemma int_in_range_spec : forall lo hi st, pinv st -> wp (int_in_range il id F lo hi) st (post st never always).
  Proof.
    intros lo hi st Hi. unfold int_in_range. eapply wp_step; [apply optional_minus_spec; exact Hi|].
    intros neg st1 Hi1 Hm1 _ _. eapply wp_step; [apply next_token_spec; exact Hi1|].
    intros tok st2 Hi2 Hm2 Hs2 (Hp & _). destruct (atoi (t_txt tok)) as [i|]. 2: { apply wp_fail. exact Hp. }
    match goal with |- wp (if ?c then _ else _) _ _ => destruct c end.
    - apply wp_fail. exact Hp.
    - apply wp_ret. fin.
  Qed.

  Lemma optional_uint_spec : forall st, pinv st -> wp (optional_uint il id F) st (post st never always).
  Proof.
    intros st Hi. unfold optional_uint. eapply wp_step; [apply peek_token_spec'; exact Hi|].
    intros t st1 Hi1 Hm1 _ _. destruct (t_typ t =? TInt); cbn [negb].
    - eapply wp_step; [apply next_token_spec; exact Hi1|]. intros tok st2 Hi2 Hm2 _ (Hp & _).
      destruct (parse_uint (t_txt tok)). 2: { apply wp_fail. exact Hp. } apply wp_ret. fin.
    - apply wp_ret. fin.
  Qed.

  Lemma any_of_spec : forall typs st, pinv st -> wp (any_of il id F typs) st (post st never always).
  Proof.
    intros typs st Hi. unfold any_of. eapply wp_step; [apply next_token_spec; exact Hi|].
    intros tok st1 Hi1 Hm1 _ (Hp & _). destruct (existsb (Z.eqb (t_typ tok)) typs).
    - apply wp_ret. fin.
    - apply wp_fail. exact Hp.
  Qed.

  (** ------------------------------------------------------------ strings *)

  Definition pmeasure (st : pstate) : nat :=
    (smeasure (p_sc st) + match p_look st with Some _ => 1 | None => 0 end)%nat.

  Definition rune_post (st : pstate) (r : Z) (st' : pstate) : Prop :=
    pinv st' /\ nu st <= nu st' /\ (pmeasure st' <= pmeasure st)%nat.

  Lemma next_rune_spec : forall st, pinv st ->
    wp next_rune st (fun r st' => rune_post st r st' /\ (r <> EOF -> (pmeasure st' < pmeasure st)%nat)).
  Proof.
    intros st (Hs & Hl). unfold wp, next_rune, rune_post, pmeasure, pinv, nu. destruct (p_look st) as [t|] eqn:El.
    - destruct Hl as ((Hp & _) & Hle & _). destruct (1 <? rune_count (t_txt t)); [exact Hp|].
      cbn [p_sc p_look]. split; [split; [split; [exact Hs|exact I]|split; [exact Hle|lia]]|]. intros _. lia.
    - unfold lift_s. pose proof (sc_Next_spec N L (p_sc st) Hs) as H.
      destruct (sc_Next (p_sc st)) as [[c s']|p k|]; cbn [sres_ok] in H; [|exact H|exact H].
      destruct H as (He & Hk & Hm & Hst). cbn [p_sc p_look]. rewrite El.
      split; [split; [split; [split; [apply He|right; exact Hk]|exact I]|split; [apply He|lia]]|].
      intros Hne. destruct (Hst Hne) as (_ & Hlt). lia.
  Qed.

  Lemma peek_rune_spec : forall st, pinv st -> wp peek_rune st (rune_post st).
  Proof.
    intros st (Hs & Hl). unfold wp, peek_rune, rune_post, pmeasure, pinv, nu. destruct (p_look st) as [t|] eqn:El.
    - pose proof Hl as ((Hp & _) & Hle & _). destruct (1 <? rune_count (t_txt t)); [exact Hp|].
      rewrite El. split; [split; [exact Hs|exact Hl]|split; lia].
    - unfold lift_s. pose proof (sc_peek_spec N L (p_sc st) Hs) as H.
      destruct (sc_peek (p_sc st)) as [[c s']|p k|]; cbn [sres_ok] in H; [|exact H|exact H].
      destruct H as (He & Hk & Hch & _ & Hm). cbn [p_sc p_look]. rewrite El.
      split; [split; [split; [apply He|right; rewrite Hch; exact Hk]|exact I]|split; [apply He|lia]].
  Qed.

  Lemma string_loop_spec : forall f tokpos racc st, pinv st -> okpos tokpos -> (pmeasure st < f)%nat ->
    wp (string_loop f tokpos racc) st (post st never always).
  Proof.
    induction f; intros tokpos racc st Hi Hp Hf; [lia|]. cbn [string_loop].
    apply wp_bind. eapply wp_conseq; [apply next_rune_spec; exact Hi|].
    intros r st1 ((Hi1 & Hm1 & Hle1) & Hlt1).
    assert (Hk : forall racc' st2, pinv st2 -> nu st1 <= nu st2 -> (pmeasure st2 <= pmeasure st1)%nat -> r <> EOF ->
                 wp (string_loop f tokpos racc') st2 (post st never always)).
    { intros racc' st2 Hi2 Hm2 Hle2 Hne. specialize (Hlt1 Hne).
      eapply wp_conseq; [apply IHf; [exact Hi2 | exact Hp | lia]|]. intros a st3 (Hi3 & Hm3 & _ & _). fin. }
    destruct (r =? EOF) eqn:Ee. { apply wp_fail. exact Hp. }
    apply Z.eqb_neq in Ee.
    destruct (r =? c_quote). { apply wp_ret. fin. }
    destruct (r =? c_nl). { apply Hk; auto; lia. }
    destruct (r =? c_bslash).
    - apply wp_bind. eapply wp_conseq; [apply peek_rune_spec; exact Hi1|].
      intros r2 st2 (Hi2 & Hm2 & Hle2). destruct (r2 =? c_quote).
      + apply wp_bind. eapply wp_conseq; [apply next_rune_spec; exact Hi2|].
        intros r3 st3 ((Hi3 & Hm3 & Hle3) & _). apply Hk; auto; lia.
      + apply Hk; auto; lia.
    - apply Hk; auto; lia.
  Qed.

  Lemma pmeasure_bound : forall st, pinv st -> p_look st = None -> (pmeasure st < F)%nat.
  Proof.
    intros st (Hs & _) El. unfold pmeasure, smeasure. rewrite El.
    destruct Hs as ((H1 & _ & H3) & _). unfold tokoff, blen in *.
    pose proof (Zle_0_nat (length (s_last (p_sc st)))). destruct (s_ch (p_sc st) =? EOF); lia.
  Qed.

  Lemma next_token_look_none : forall st, match next_token il id F st with POk _ st' => p_look st' = None | _ => True end.
  Proof.
    intros st. unfold next_token. destruct (p_look st) eqn:El; [reflexivity|].
    unfold lift_s. destruct (scan il id F (p_sc st)) as [[t s']|p k|]; auto.
  Qed.

  Lemma p_string_spec : forall st, pinv st -> wp (p_string il id F) st (post st always always).
  Proof.
    intros st Hi. unfold p_string. apply wp_bind.
    pose proof (next_token_spec st Hi) as H. pose proof (next_token_look_none st) as Hn.
    unfold wp in *. destruct (next_token il id F st) as [tok st1| | |]; auto.
    destruct H as (Hi1 & Hm1 & Hs1 & (Hp & _)). destruct (t_typ tok =? c_quote) eqn:E; cbn [negb].
    2: { exact Hp. }
    assert (Hq : c_quote <> EOF) by discriminate. specialize (Hs1 (typ_ne _ _ E Hq)).
    pose proof (string_loop_spec F (t_pos tok) [] st1 Hi1 Hp (pmeasure_bound st1 Hi1 Hn)) as H. unfold wp in H.
    destruct (string_loop F (t_pos tok) [] st1); auto. destruct H as (Hi2 & Hm2 & _ & _). fin.
  Qed.

  Lemma p_string_identifier_spec : forall st, pinv st -> wp (p_string_identifier il id F) st (post st always always).
  Proof.
    intros st Hi. unfold p_string_identifier. eapply wp_step; [apply peek_token_spec'; exact Hi|].
    intros t st1 Hi1 Hm1 _ (Hp & _). eapply wp_step; [apply p_string_spec; exact Hi1|].
    intros s0 st2 Hi2 Hm2 Hs2 _. destruct (ident_valid s0); cbn [negb].
    - apply wp_ret. fin.
    - apply wp_fail. exact Hp.
  Qed.

  (** ------------------------------------------------------------ small typed readers *)

  Lemma enum_value_spec : forall values st, pinv st -> wp (enum_value il id F values) st (post st never always).
  Proof.
    intros values st Hi. unfold enum_value. eapply wp_step; [apply peek_token_spec'; exact Hi|].
    intros t st1 Hi1 Hm1 _ (Hp & _). destruct (t_typ t =? TInt).
    - eapply wp_step; [apply p_uint_spec; exact Hi1|]. intros i st2 Hi2 Hm2 _ Hi0.
      destruct (Z.of_nat (length values) <=? i) eqn:E. { apply wp_fail. exact Hp. }
      apply Z.leb_gt in E. destruct (nth_error values (Z.to_nat i)) eqn:En.
      + apply wp_ret. fin.
      + exfalso. apply nth_error_None in En. cbv beta in Hi0. lia.
    - eapply wp_conseq; [apply p_string_spec; exact Hi1|]. intros a st2 (Hi2 & Hm2 & _ & _). fin.
  Qed.

  Lemma optional_object_type_spec : forall st, pinv st -> wp (optional_object_type il id F) st (post st never always).
  Proof.
    intros st Hi. unfold optional_object_type. eapply wp_step; [apply peek_token_spec'; exact Hi|].
    intros t st1 Hi1 Hm1 _ (Hp & _). destruct (t_typ t =? TIdent); cbn [negb].
    - eapply wp_step; [apply p_identifier_spec; exact Hi1|]. intros i st2 Hi2 Hm2 _ _.
      destruct (object_type_of i). { apply wp_ret. fin. } apply wp_fail. exact Hp.
    - apply wp_ret. fin.
  Qed.

  Lemma p_message_id_spec : forall st, pinv st -> wp (p_message_id il id F) st (post st always always).
  Proof.
    intros st Hi. unfold p_message_id. eapply wp_step; [apply peek_token_spec'; exact Hi|].
    intros t st1 Hi1 Hm1 _ (Hp & _). eapply wp_step; [apply p_uint_spec; exact Hi1|].
    intros u st2 Hi2 Hm2 Hs2 _. destruct (msgid_valid (u mod 2 ^ 32)). { apply wp_ret. fin. } apply wp_fail. exact Hp.
  Qed.

  Lemma p_small_enum_spec : forall mx st, pinv st -> wp (p_small_enum il id F mx) st (post st always always).
  Proof.
    intros mx st Hi. unfold p_small_enum. eapply wp_step; [apply peek_token_spec'; exact Hi|].
    intros t st1 Hi1 Hm1 _ (Hp & _). eapply wp_step; [apply p_uint_spec; exact Hi1|].
    intros u st2 Hi2 Hm2 Hs2 _. destruct (u <=? mx). { apply wp_ret. fin. } apply wp_fail. exact Hp.
  Qed.

  Lemma p_attribute_value_type_spec : forall st, pinv st -> wp (p_attribute_value_type il id F) st (post st always always).
  Proof.
    intros st Hi. unfold p_attribute_value_type. eapply wp_step; [apply peek_token_spec'; exact Hi|].
    intros t st1 Hi1 Hm1 _ (Hp & _). eapply wp_step; [apply p_identifier_spec; exact Hi1|].
    intros i st2 Hi2 Hm2 Hs2 _. destruct (attr_type_of i). { apply wp_ret. fin. } apply wp_fail. exact Hp.
  Qed.

  Lemma p_access_type_spec : forall st, pinv st -> wp (p_access_type il id F) st (post st always always).
  Proof.
    intros st Hi. unfold p_access_type. eapply wp_step; [apply peek_token_spec'; exact Hi|].
    intros t st1 Hi1 Hm1 _ (Hp & _). eapply wp_step; [apply p_identifier_spec; exact Hi1|].
    intros i st2 Hi2 Hm2 Hs2 _. destruct (access_type_of i). { apply wp_ret. fin. } apply wp_fail. exact Hp.
  Qed.

  (** ------------------------------------------------------------ definitions *)

  Ltac stp lem := eapply wp_step; [apply lem; assumption | cbv beta; intros ? ? ? ? ? ?].
  Ltac done_ := apply wp_ret; fin.
  Ltac prog := unfold always, never in *; repeat match goal with H : True -> _ |- _ => specialize (H I) end.
  Ltac ih IH := prog; eapply wp_conseq; [apply IH; [assumption | lia] | cbv beta; intros ? ? (? & ? & _ & _); fin].

  Definition fuel_ok (f : nat) (st : pstate) : Prop := N - nu st < Z.of_nat f.

  Lemma fuel_ok_F : forall st, pinv st -> fuel_ok F st.
  Proof. intros st Hi. unfold fuel_ok. pose proof (pinv_bounds st Hi). lia. Qed.

  Lemma fuel_ok_0 : forall st, pinv st -> fuel_ok 0 st -> False.
  Proof. intros st Hi H. unfold fuel_ok in H. pose proof (pinv_bounds st Hi). lia. Qed.

  Lemma parse_version_spec : forall st, pinv st -> wp (parse_version il id F) st (post st always always).
  Proof. intros st Hi. unfold parse_version. stp p_keyword_spec. stp p_string_spec. done_. Qed.

  Lemma new_symbols_loop_spec : forall f racc st, pinv st -> fuel_ok f st ->
    wp (new_symbols_loop il id F f racc) st (post st never always).
  Proof.
    induction f; intros racc st Hi Hf; [destruct (fuel_ok_0 st Hi Hf)|]. cbn [new_symbols_loop]. unfold fuel_ok in *.
    stp peek_token_spec'. destruct (t_typ a =? c_tab) eqn:E; [|done_].
    stp p_token_spec. stp p_identifier_spec. assert (c_tab <> EOF) by discriminate. ih IHf.
  Qed.

  Lemma parse_new_symbols_spec : forall st, pinv st -> wp (parse_new_symbols il id F) st (post st always always).
  Proof.
    intros st Hi. unfold parse_new_symbols. stp use_whitespace_spec. stp p_keyword_spec. stp p_token_spec.
    eapply wp_step; [apply new_symbols_loop_spec; [assumption | apply fuel_ok_F; assumption]|]. cbv beta; intros ? ? ? ? ? ?.
    stp use_whitespace_spec. done_.
  Qed.

  Lemma parse_bit_timing_spec : forall st, pinv st -> wp (parse_bit_timing il id F) st (post st always always).
  Proof.
    intros st Hi. unfold parse_bit_timing. stp p_keyword_spec. stp p_token_spec. stp optional_uint_spec.
    stp peek_token_spec'.
    eapply wp_step with (S1 := never) (Q1 := always).
    { destruct (t_typ a2 =? c_colon); [|done_]. stp p_token_spec.
      eapply wp_conseq; [apply optional_uint_spec; assumption|]. cbv beta; intros ? ? (? & ? & _ & _). fin. }
    cbv beta; intros ? ? ? ? ? ?. stp peek_token_spec'.
    eapply wp_step with (S1 := never) (Q1 := always).
    { destruct (t_typ a4 =? c_comma); [|done_]. stp p_token_spec.
      eapply wp_conseq; [apply optional_uint_spec; assumption|]. cbv beta; intros ? ? (? & ? & _ & _). fin. }
    cbv beta; intros ? ? ? ? ? ?. done_.
  Qed.

  Lemma ident_list_loop_spec : forall f racc st, pinv st -> fuel_ok f st ->
    wp (ident_list_loop il id F f racc) st (post st never always).
  Proof.
    induction f; intros racc st Hi Hf; [destruct (fuel_ok_0 st Hi Hf)|]. cbn [ident_list_loop]. unfold fuel_ok in *.
    stp peek_token_spec'. destruct (t_typ a =? TIdent) eqn:E; [|done_].
    stp p_identifier_spec. ih IHf.
  Qed.

  Lemma parse_nodes_spec : forall st, pinv st -> wp (parse_nodes il id F) st (post st always always).
  Proof.
    intros st Hi. unfold parse_nodes. stp use_whitespace_spec. stp p_keyword_spec. stp p_token_spec.
    eapply wp_step; [apply ident_list_loop_spec; [assumption | apply fuel_ok_F; assumption]|]. cbv beta; intros ? ? ? ? ? ?.
    stp peek_token_spec'.
    eapply wp_step with (S1 := never) (Q1 := always).
    { destruct (t_typ a3 =? EOF); cbn [negb]; [done_|].
      eapply wp_conseq; [apply p_token_spec; assumption|]. cbv beta; intros ? ? (? & ? & _ & _). fin. }
    cbv beta; intros ? ? ? ? ? ?. stp use_whitespace_spec. done_.
  Qed.

  Lemma parse_value_description_spec : forall st, pinv st ->
    wp (parse_value_description il id F) st (post st always always).
  Proof. intros st Hi. unfold parse_value_description. stp peek_token_spec'. stp p_float_spec. stp p_string_spec. done_. Qed.

  Lemma value_descriptions_loop_spec : forall f racc st, pinv st -> fuel_ok f st ->
    wp (value_descriptions_loop il id F f racc) st (post st never always).
  Proof.
    induction f; intros racc st Hi Hf; [destruct (fuel_ok_0 st Hi Hf)|]. cbn [value_descriptions_loop]. unfold fuel_ok in *.
    stp peek_token_spec'. destruct (t_typ a =? c_semi) eqn:E; cbn [negb]; [done_|].
    stp parse_value_description_spec. ih IHf.
  Qed.

  Lemma parse_value_table_spec : forall st, pinv st -> wp (parse_value_table il id F) st (post st always always).
  Proof.
    intros st Hi. unfold parse_value_table. stp p_keyword_spec. stp p_identifier_spec.
    eapply wp_step; [apply value_descriptions_loop_spec; [assumption | apply fuel_ok_F; assumption]|]. cbv beta; intros ? ? ? ? ? ?.
    stp p_token_spec. done_.
  Qed.

  Lemma comma_idents_loop_spec : forall f racc st, pinv st -> fuel_ok f st ->
    wp (comma_idents_loop il id F f racc) st (post st never always).
  Proof.
    induction f; intros racc st Hi Hf; [destruct (fuel_ok_0 st Hi Hf)|]. cbn [comma_idents_loop]. unfold fuel_ok in *.
    stp peek_token_spec'. destruct (t_typ a =? c_comma) eqn:E; [|done_].
    stp p_token_spec. stp p_identifier_spec. ih IHf.
  Qed.

  Lemma comma_idents_spec : forall st, pinv st -> wp (comma_idents il id F) st (post st always always).
  Proof.
    intros st Hi. unfold comma_idents. stp p_identifier_spec.
    eapply wp_conseq; [apply comma_idents_loop_spec; [assumption | apply fuel_ok_F; assumption]|].
    cbv beta; intros ? ? (? & ? & _ & _). fin.
  Qed.

  Lemma parse_signal_spec : forall st, pinv st -> wp (parse_signal il id F) st (post st always always).
  Proof.
    intros st Hi. unfold parse_signal. stp p_keyword_spec. stp p_identifier_spec. stp peek_token_spec'.
    eapply wp_step with (S1 := never) (Q1 := always).
    { destruct (t_typ a1 =? c_colon); cbn [negb]; [done_|].
      eapply wp_step; [apply next_token_spec; assumption|]. intros tok st4 Hi4 Hm4 Hs4 (Hp4 & Hne4).
      destruct (t_typ tok =? TIdent) eqn:E; cbn [negb]. 2: { apply wp_fail. exact Hp4. }
      destruct (bytes_eqb (t_txt tok) [77]). { done_. }
      destruct (t_txt tok) as [|c0 tl] eqn:Et.
      { exfalso. apply Hne4; [exact (typ_ne _ _ E TIdent_ne) | reflexivity]. }
      match goal with |- wp (if ?c then _ else _) _ _ => destruct c end. 2: { apply wp_fail. exact Hp4. }
      destruct (atoi tl) as [i|]. 2: { apply wp_fail. exact Hp4. }
      destruct (i <? 0). { apply wp_fail. exact Hp4. } done_. }
    cbv beta; intros mux ? ? ? ? ?. destruct mux as [[is_switch is_muxed] mux_value].
    stp p_token_spec. stp p_uint_spec. stp p_token_spec. stp p_uint_spec. stp p_token_spec.
    stp int_in_range_spec. stp any_of_spec. stp p_token_spec. stp p_float_spec. stp p_token_spec.
    stp p_float_spec. stp p_token_spec. stp p_token_spec. stp p_float_spec. stp p_token_spec.
    stp p_float_spec. stp p_token_spec. stp p_string_spec. stp comma_idents_spec. done_.
  Qed.

  Lemma signals_loop_spec : forall f racc st, pinv st -> fuel_ok f st ->
    wp (signals_loop il id F f racc) st (post st never always).
  Proof.
    induction f; intros racc st Hi Hf; [destruct (fuel_ok_0 st Hi Hf)|]. cbn [signals_loop]. unfold fuel_ok in *.
    stp peek_token_spec'. destruct (t_typ a =? TIdent) eqn:E; cbn [negb]; [|done_].
    stp peek_keyword_spec'. destruct (bytes_eqb a0 kw_signal); [|done_].
    stp parse_signal_spec. ih IHf.
  Qed.

  Lemma parse_message_spec : forall st, pinv st -> wp (parse_message il id F) st (post st always always).
  Proof.
    intros st Hi. unfold parse_message, parse_message_with. stp p_keyword_spec. stp p_message_id_spec.
    stp p_identifier_spec. stp p_token_spec. stp p_uint_spec. stp p_identifier_spec.
    eapply wp_step; [apply signals_loop_spec; [assumption | apply fuel_ok_F; assumption]|]. cbv beta; intros ? ? ? ? ? ?.
    done_.
  Qed.

  Lemma parse_signal_value_type_spec : forall st, pinv st ->
    wp (parse_signal_value_type il id F) st (post st always always).
  Proof.
    intros st Hi. unfold parse_signal_value_type. stp p_keyword_spec. stp p_message_id_spec. stp p_identifier_spec.
    stp optional_token_spec. stp p_small_enum_spec. stp p_token_spec. done_.
  Qed.

  Lemma transmitters_loop_spec : forall f racc st, pinv st -> fuel_ok f st ->
    wp (transmitters_loop il id F f racc) st (post st never always).
  Proof.
    induction f; intros racc st Hi Hf; [destruct (fuel_ok_0 st Hi Hf)|]. cbn [transmitters_loop]. unfold fuel_ok in *.
    stp peek_token_spec'. destruct (t_typ a =? c_semi) eqn:E; cbn [negb]; [done_|].
    stp p_identifier_spec. stp optional_token_spec. ih IHf.
  Qed.

  Lemma parse_message_transmitters_spec : forall st, pinv st ->
    wp (parse_message_transmitters il id F) st (post st always always).
  Proof.
    intros st Hi. unfold parse_message_transmitters. stp p_keyword_spec. stp p_message_id_spec. stp p_token_spec.
    eapply wp_step; [apply transmitters_loop_spec; [assumption | apply fuel_ok_F; assumption]|]. cbv beta; intros ? ? ? ? ? ?.
    stp p_token_spec. done_.
  Qed.

  Lemma parse_value_descriptions_spec : forall st, pinv st ->
    wp (parse_value_descriptions il id F) st (post st always always).
  Proof.
    intros st Hi. unfold parse_value_descriptions. stp p_keyword_spec. stp peek_token_spec'.
    eapply wp_step with (S1 := never) (Q1 := always).
    { destruct (t_typ a0 =? TIdent).
      - stp p_identifier_spec. done_.
      - stp p_message_id_spec. stp p_identifier_spec. done_. }
    cbv beta; intros hd ? ? ? ? ?. destruct hd as [[[ot mid] sg] ev].
    eapply wp_step; [apply value_descriptions_loop_spec; [assumption | apply fuel_ok_F; assumption]|]. cbv beta; intros ? ? ? ? ? ?.
    stp p_token_spec. done_.
  Qed.

  Lemma parse_envvar_spec : forall st, pinv st -> wp (parse_envvar il id F) st (post st always always).
  Proof.
    intros st Hi. unfold parse_envvar. stp p_keyword_spec. stp p_identifier_spec. stp p_token_spec.
    stp p_small_enum_spec. stp p_token_spec. stp p_float_spec. stp p_token_spec. stp p_float_spec.
    stp p_token_spec. stp p_string_spec. stp p_float_spec. stp p_uint_spec. stp p_access_type_spec.
    stp comma_idents_spec. stp p_token_spec. done_.
  Qed.

  Lemma parse_envvar_data_spec : forall st, pinv st -> wp (parse_envvar_data il id F) st (post st always always).
  Proof.
    intros st Hi. unfold parse_envvar_data. stp p_keyword_spec. stp p_identifier_spec. stp p_token_spec.
    stp p_uint_spec. stp p_token_spec. done_.
  Qed.

  Lemma object_ref_spec : forall ot st, pinv st -> wp (object_ref il id F ot) st (post st never always).
  Proof.
    intros ot st Hi. destruct ot; cbn [object_ref].
    - done_.
    - stp p_identifier_spec. done_.
    - stp p_message_id_spec. done_.
    - stp p_message_id_spec. stp p_identifier_spec. done_.
    - stp p_identifier_spec. done_.
  Qed.

  Lemma parse_comment_spec : forall st, pinv st -> wp (parse_comment il id F) st (post st always always).
  Proof.
    intros st Hi. unfold parse_comment. stp p_keyword_spec. stp optional_object_type_spec. stp object_ref_spec.
    destruct a1 as [[[node mid] sg] ev]. stp p_string_spec. stp p_token_spec. done_.
  Qed.

  Lemma comma_strings_loop_spec : forall f racc st, pinv st -> fuel_ok f st ->
    wp (comma_strings_loop il id F f racc) st (post st never always).
  Proof.
    induction f; intros racc st Hi Hf; [destruct (fuel_ok_0 st Hi Hf)|]. cbn [comma_strings_loop]. unfold fuel_ok in *.
    stp peek_token_spec'. destruct (t_typ a =? c_comma) eqn:E; [|done_].
    stp p_token_spec. stp p_string_spec. assert (c_comma <> EOF) by discriminate. ih IHf.
  Qed.

  Lemma parse_attribute_spec : forall st, pinv st -> wp (parse_attribute il id F) st (post st always always).
  Proof.
    intros st Hi. unfold parse_attribute. stp p_keyword_spec. stp optional_object_type_spec.
    stp p_string_identifier_spec. stp p_attribute_value_type_spec.
    eapply wp_step with (S1 := never) (Q1 := always).
    { destruct a2.
      - stp peek_token_spec'. destruct (t_typ a2 =? c_semi); cbn [negb]; [done_|]. stp p_int_spec. stp p_int_spec. done_.
      - stp peek_token_spec'. destruct (t_typ a2 =? c_semi); cbn [negb]; [done_|]. stp p_int_spec. stp p_int_spec. done_.
      - stp peek_token_spec'. destruct (t_typ a2 =? c_semi); cbn [negb]; [done_|]. stp p_float_spec. stp p_float_spec. done_.
      - done_.
      - stp p_string_spec.
        eapply wp_step; [apply comma_strings_loop_spec; [assumption | apply fuel_ok_F; assumption]|].
        cbv beta; intros ? ? ? ? ? ?. done_. }
    cbv beta; intros body ? ? ? ? ?. destruct body as [[[[mi ma] mf] xf] vs]. stp p_token_spec. done_.
  Qed.

  Lemma attribute_value_spec : forall defs name st, pinv st ->
    wp (attribute_value il id F defs name) st (post st never always).
  Proof.
    intros defs name st Hi. unfold attribute_value. destruct (find_attribute name defs) as [a|]; [|done_].
    destruct (ad_type a).
    - stp p_int_spec. done_.
    - stp p_int_spec. done_.
    - stp p_float_spec. done_.
    - stp p_string_spec. done_.
    - stp enum_value_spec. done_.
  Qed.

  Lemma parse_attribute_default_spec : forall defs st, pinv st ->
    wp (parse_attribute_default il id F defs) st (post st always always).
  Proof.
    intros defs st Hi. unfold parse_attribute_default. stp p_keyword_spec. stp p_string_spec. stp attribute_value_spec.
    destruct a1 as [[i f] s0]. stp p_token_spec. done_.
  Qed.

  Lemma parse_attribute_value_spec : forall defs st, pinv st ->
    wp (parse_attribute_value il id F defs) st (post st always always).
  Proof.
    intros defs st Hi. unfold parse_attribute_value. stp p_keyword_spec. stp p_string_spec.
    stp optional_object_type_spec. stp object_ref_spec. destruct a2 as [[[node mid] sg] ev].
    stp attribute_value_spec. destruct a2 as [[i f] s0]. stp p_token_spec. done_.
  Qed.

  (** unknown lines: the first token read by discardLine is the lookahead keyword *)
  Lemma discard_loop_spec : forall f st, pinv st -> fuel_ok f st ->
    wp (discard_loop il id F f) st (post st never always).
  Proof.
    induction f; intros st Hi Hf; [destruct (fuel_ok_0 st Hi Hf)|]. cbn [discard_loop]. unfold fuel_ok in *.
    stp next_token_spec. destruct ((t_typ a =? c_nl) || (t_typ a =? EOF)) eqn:E; [done_|].
    apply orb_false_iff in E. destruct E as (_ & E). apply Z.eqb_neq in E. specialize (H1 E). ih IHf.
  Qed.

  Lemma discard_loop_look_spec : forall f st, pinv st -> look_ne st -> fuel_ok f st ->
    wp (discard_loop il id F f) st (post st always always).
  Proof.
    intros f st Hi Hl Hf. destruct f; [destruct (fuel_ok_0 st Hi Hf)|]. cbn [discard_loop]. unfold fuel_ok in *.
    eapply wp_step; [apply next_token_look_spec; assumption|]. cbv beta; intros ? ? ? ? ? ?.
    destruct ((t_typ a =? c_nl) || (t_typ a =? EOF)); [done_|]. prog.
    eapply wp_conseq; [apply discard_loop_spec; [assumption | unfold fuel_ok; lia]|].
    cbv beta; intros ? ? (? & ? & _ & _). fin.
  Qed.

  Lemma use_whitespace_look_spec : forall ws st, pinv st -> look_ne st ->
    wp (use_whitespace ws) st (fun a st' => post st never always a st' /\ look_ne st').
  Proof.
    intros ws st Hi Hl. pose proof (use_whitespace_spec ws st Hi) as H. unfold wp, use_whitespace in *.
    split; [exact H|]. exact Hl.
  Qed.

  Lemma peek_token_look_spec : forall st, pinv st -> look_ne st ->
    wp (peek_token il id F) st (fun t st' => post st never tok_ok t st' /\ look_ne st').
  Proof.
    intros st Hi Hl. pose proof (peek_token_spec st Hi) as H. unfold wp in *.
    destruct Hl as (t & El & Hne). unfold peek_token in *. rewrite El in *.
    destruct H as (H & _). split; [exact H|]. exists t. auto.
  Qed.

  Lemma parse_unknown_spec : forall st, pinv st -> look_ne st ->
    wp (parse_unknown il id F) st (post st always always).
  Proof.
    intros st Hi Hl. unfold parse_unknown, parse_unknown_with, discard_line.
    apply wp_bind. eapply wp_conseq; [apply peek_token_look_spec; assumption|].
    intros tok st1 ((Hi1 & Hm1 & _ & _) & Hl1).
    apply wp_bind. apply wp_bind. eapply wp_conseq; [apply use_whitespace_look_spec; assumption|].
    intros u st2 ((Hi2 & Hm2 & _ & _) & Hl2).
    eapply wp_step; [apply discard_loop_look_spec; [assumption | assumption | apply fuel_ok_F; assumption]|].
    cbv beta; intros ? ? ? ? ? ?.
    eapply wp_conseq; [apply use_whitespace_spec; assumption|]. cbv beta; intros ? ? (? & ? & _ & _). done_.
  Qed.

  (** ------------------------------------------------------------ Parse() *)

  Lemma parse_def_spec : forall defs kw st, pinv st -> look_ne st ->
    wp (parse_def_with il id F (parse_bit_timing il id F) (parse_unknown il id F) (parse_message il id F) defs kw) st
       (post st always always).
  Proof.
    intros defs kw st Hi Hl. unfold parse_def_with.
    repeat match goal with |- wp (if ?c then _ else _) _ _ => destruct c end;
      try (first [ apply parse_version_spec | apply parse_bit_timing_spec | apply parse_new_symbols_spec
                 | apply parse_nodes_spec | apply parse_message_spec | apply parse_envvar_spec
                 | apply parse_comment_spec | apply parse_attribute_spec | apply parse_attribute_default_spec
                 | apply parse_attribute_value_spec | apply parse_value_descriptions_spec
                 | apply parse_value_table_spec | apply parse_signal_value_type_spec
                 | apply parse_message_transmitters_spec | apply parse_envvar_data_spec ]; assumption).
    - stp parse_signal_spec. done_.
    - apply parse_unknown_spec; assumption.
  Qed.

  Definition outcome_ok (o : outcome) : Prop :=
    match o with
    | Ok _ => True
    | Err p _ _ => okpos p
    | Panic => False
    | OutOfFuel => False
    end.

  Lemma parse_loop_spec : forall f defs st, pinv st -> fuel_ok f st ->
    outcome_ok (parse_loop_with il id F (parse_bit_timing il id F) (parse_unknown il id F) (parse_message il id F) f defs st).
  Proof.
    induction f; intros defs st Hi Hf; [destruct (fuel_ok_0 st Hi Hf)|]. cbn [parse_loop_with]. unfold fuel_ok in *.
    pose proof (peek_token_spec' st Hi) as H. unfold wp in H.
    destruct (peek_token il id F st) as [t st1|p k| |]; cbn [outcome_ok]; auto.
    destruct H as (Hi1 & Hm1 & _ & _). destruct (t_typ t =? EOF); cbn [outcome_ok]; [exact I|].
    assert (H : wp (plet kw <- peek_keyword il id F;
                    parse_def_with il id F (parse_bit_timing il id F) (parse_unknown il id F) (parse_message il id F) defs kw)
                   st1 (post st1 always always)).
    { apply wp_bind. eapply wp_conseq; [apply peek_keyword_spec; exact Hi1|].
      intros kw st2 ((Hi2 & Hm2 & _ & _) & Hl2).
      eapply wp_conseq; [apply parse_def_spec; assumption|]. cbv beta; intros ? ? (? & ? & ? & _). fin. }
    unfold wp in H.
    match goal with |- outcome_ok (match ?m with _ => _ end) => destruct m as [d st2|p k| |] end; cbn [outcome_ok]; auto.
    destruct H as (Hi2 & Hm2 & Hs2 & _). apply IHf; [exact Hi2|]. specialize (Hs2 I). lia.
  Qed.
End Tot.

(** ------------------------------------------------------------------ the theorem *)

Lemma pinv_init : forall src, Forall byte src -> pinv (blen src) 0 (p_init src).
Proof.
  intros src Hb. unfold pinv, p_init. cbn [p_sc p_look]. split; [|exact I].
  unfold sinv, core, sc_init, tokoff. cbn. split; [|left; reflexivity]. split; [lia|]. split; [exact Hb|lia].
Qed.

Theorem parse_total : forall il id src, Forall byte src ->
  match parse_bytes il id src with
  | Ok _ => True
  | Err pos _ _ => 0 <= p_offset pos <= blen src
  | Panic => False
  | OutOfFuel => False
  end.
Proof.
  intros il id src Hb. unfold parse_bytes, parse.
  assert (HF : blen src + 1 < Z.of_nat (fuel_for src)) by (unfold fuel_for, blen; lia).
  pose proof (pinv_init src Hb) as Hi.
  assert (H : outcome_ok (blen src) 0
                (parse_loop_with il id (fuel_for src) (parse_bit_timing il id (fuel_for src))
                   (parse_unknown il id (fuel_for src)) (parse_message il id (fuel_for src)) (fuel_for src) [] (p_init src))).
  { eapply parse_loop_spec; [lia | exact HF | exact Hi | eapply fuel_ok_F; try eassumption; lia]. }
  unfold outcome_ok, okpos in H.
  destruct (parse_loop_with _ _ _ _ _ _ _ _ _); exact H.
Qed.

(** the definitions reported with an error extend the ones accumulated so far *)
Lemma parse_loop_defs_prefix : forall il id F bt unk msg f defs st p k d,
  parse_loop_with il id F bt unk msg f defs st = Err p k d -> exists more, d = defs ++ more.
Proof.
  induction f; intros defs st p k d H; cbn [parse_loop_with] in H; [discriminate|].
  destruct (peek_token il id F st) as [t st1|pp kk| |]; try discriminate.
  2: { injection H as _ _ <-. exists []. rewrite app_nil_r. reflexivity. }
  destruct (t_typ t =? EOF); [discriminate|].
  match type of H with match ?m with _ => _ end = _ => destruct m as [dd st2|pp kk| |] end; try discriminate.
  - apply IHf in H. destruct H as (more & ->). exists (dd :: more). rewrite <- app_assoc. reflexivity.
  - injection H as _ _ <-. exists []. rewrite app_nil_r. reflexivity.
Qed.
