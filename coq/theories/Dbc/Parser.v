(** Gallina transcription of pkg/dbc/parser.go and the parseFrom methods of pkg/dbc/def.go
    (with identifier.go, messageid.go, keyword.go and the small enum files).  DEFINITIONS ONLY.

    Strings are byte lists; float64 fields are IEEE bit patterns (see Dbc/Ast.v).
    The parser is a state monad over [pstate] = scanner state + the one-token lookahead.
    The Go parser signals errors by panic of a parseError value which Parse() recovers: [PErr pos kind].
    Every Go operation that could panic for ANOTHER reason (tok.txt[0], values[i]) is an
    option-valued operation whose [None] becomes [PPanic]. Loops take the fuel [F].

    MAIN definitions = the behaviour after the fixes F8 (discardLine), F9 (BS_ separators),
    F11 (signal loop of BO_ must not fail on a non-identifier) and F12 (Parser.int converts decimal
    integer tokens exactly instead of through float64), see /verif/fixes; the code as it was
    is kept as [discard_line_old], [parse_bit_timing_old], [signals_loop_old], [parse_old] (F8, F9,
    F11) and [p_int_old] / [DecFloat.int_of_token_old] (F12; [parse_old] is not threaded with it)
    (refuted in Properties/C04.v and C12.v). *)
From Coq Require Import ZArith List Bool String.
From CanVerif Require Import Dbc.Ast Dbc.Scanner Dbc.DecFloat.
Import ListNotations.
Open Scope Z_scope.

(** ------------------------------------------------------------------ constants *)

Definition kw_version : bytes := Eval compute in bytes_of_string "VERSION".
Definition kw_bit_timing : bytes := Eval compute in bytes_of_string "BS_".
Definition kw_new_symbols : bytes := Eval compute in bytes_of_string "NS_".
Definition kw_nodes : bytes := Eval compute in bytes_of_string "BU_".
Definition kw_message : bytes := Eval compute in bytes_of_string "BO_".
Definition kw_signal : bytes := Eval compute in bytes_of_string "SG_".
Definition kw_envvar : bytes := Eval compute in bytes_of_string "EV_".
Definition kw_comment : bytes := Eval compute in bytes_of_string "CM_".
Definition kw_attribute : bytes := Eval compute in bytes_of_string "BA_DEF_".
Definition kw_attribute_default : bytes := Eval compute in bytes_of_string "BA_DEF_DEF_".
Definition kw_attribute_value : bytes := Eval compute in bytes_of_string "BA_".
Definition kw_value_descriptions : bytes := Eval compute in bytes_of_string "VAL_".
Definition kw_value_table : bytes := Eval compute in bytes_of_string "VAL_TABLE_".
Definition kw_signal_value_type : bytes := Eval compute in bytes_of_string "SIG_VALTYPE_".
Definition kw_message_transmitters : bytes := Eval compute in bytes_of_string "BO_TX_BU_".
Definition kw_envvar_data : bytes := Eval compute in bytes_of_string "ENVVAR_DATA_".

Definition s_INT : bytes := Eval compute in bytes_of_string "INT".
Definition s_HEX : bytes := Eval compute in bytes_of_string "HEX".
Definition s_FLOAT : bytes := Eval compute in bytes_of_string "FLOAT".
Definition s_STRING : bytes := Eval compute in bytes_of_string "STRING".
Definition s_ENUM : bytes := Eval compute in bytes_of_string "ENUM".
Definition s_ACC0 : bytes := Eval compute in bytes_of_string "DUMMY_NODE_VECTOR0".
Definition s_ACC1 : bytes := Eval compute in bytes_of_string "DUMMY_NODE_VECTOR1".
Definition s_ACC2 : bytes := Eval compute in bytes_of_string "DUMMY_NODE_VECTOR2".
Definition s_ACC3 : bytes := Eval compute in bytes_of_string "DUMMY_NODE_VECTOR3".

(* characters *)
Definition c_nl : Z := 10.     Definition c_tab : Z := 9.     Definition c_quote : Z := 34.
Definition c_lpar : Z := 40.   Definition c_rpar : Z := 41.   Definition c_plus : Z := 43.
Definition c_comma : Z := 44.  Definition c_minus : Z := 45.  Definition c_colon : Z := 58.
Definition c_semi : Z := 59.   Definition c_at : Z := 64.     Definition c_lbrack : Z := 91.
Definition c_bslash : Z := 92. Definition c_rbrack : Z := 93. Definition c_bar : Z := 124.

(** ------------------------------------------------------------------ pure helpers *)

(** identifiers.IsAlphaChar / IsNumChar and Identifier.Validate. Validate ranges over the RUNES of
    the string; every rune of a non-ASCII or invalid encoding is >= 128 (or RuneError) and is
    rejected, so the check is the byte-wise one. *)
Definition is_alpha (c : Z) : bool := ((65 <=? c) && (c <=? 90)) || ((97 <=? c) && (c <=? 122)).
Definition is_num (c : Z) : bool := (48 <=? c) && (c <=? 57).
Definition ident_char (c : Z) : bool := (c =? 95) || is_alpha c || is_num c.

Definition ident_valid (id : bytes) : bool :=
  match id with
  | [] => false
  | c0 :: t => (blen id <=? 128) && ((c0 =? 95) || is_alpha c0) && forallb ident_char t
  end.

Definition object_type_of (id : bytes) : option object_type :=
  if bytes_eqb id kw_nodes then Some OtNode
  else if bytes_eqb id kw_message then Some OtMessage
  else if bytes_eqb id kw_signal then Some OtSignal
  else if bytes_eqb id kw_envvar then Some OtEnvVar
  else None.

Definition attr_type_of (id : bytes) : option attr_type :=
  if bytes_eqb id s_INT then Some AtInt
  else if bytes_eqb id s_HEX then Some AtHex
  else if bytes_eqb id s_FLOAT then Some AtFloat
  else if bytes_eqb id s_STRING then Some AtString
  else if bytes_eqb id s_ENUM then Some AtEnum
  else None.

Definition access_type_of (id : bytes) : option access_type :=
  if bytes_eqb id s_ACC0 then Some AccUnrestricted
  else if bytes_eqb id s_ACC1 then Some AccRead
  else if bytes_eqb id s_ACC2 then Some AccWrite
  else if bytes_eqb id s_ACC3 then Some AccReadWrite
  else None.

(** the first earlier AttributeDef with this name (the lookup loops of BA_DEF_DEF_ / BA_) *)
Fixpoint find_attribute (name : bytes) (defs : list def) : option attribute_def :=
  match defs with
  | [] => None
  | DAttribute a :: t => if bytes_eqb (ad_name a) name then Some a else find_attribute name t
  | _ :: t => find_attribute name t
  end.

(** ------------------------------------------------------------------ the monad *)

Record pstate := { p_sc : sstate; p_look : option token }.

Inductive pres (A : Type) :=
| POk (a : A) (st : pstate)
| PErr (p : position) (k : err_kind)
| PPanic
| PFuel.
Arguments POk {A} a st.
Arguments PErr {A} p k.
Arguments PPanic {A}.
Arguments PFuel {A}.

Definition M (A : Type) := pstate -> pres A.

Definition ret {A} (a : A) : M A := fun st => POk a st.
Definition fail {A} (p : position) (k : err_kind) : M A := fun _ => PErr p k.
Definition panic {A} : M A := fun _ => PPanic.
Definition out_of_fuel {A} : M A := fun _ => PFuel.

Definition bind {A B} (m : M A) (f : A -> M B) : M B := fun st =>
  match m st with
  | POk a st' => f a st'
  | PErr p k => PErr p k
  | PPanic => PPanic
  | PFuel => PFuel
  end.

Notation "'plet' x <- m ; f" := (bind m (fun x => f)) (at level 200, x pattern, m at level 100, f at level 200).
Notation "m ;; f" := (bind m (fun _ => f)) (at level 199, right associativity).

(** parse outcome *)
Inductive outcome :=
| Ok (defs : list def)
| Err (pos : position) (kind : err_kind) (defs_so_far : list def)
| Panic
| OutOfFuel.

Section WithOracle.
  Variable is_letter_hi is_digit_hi : Z -> bool.
  Variable F : nat.

  Definition scan := sc_scan is_letter_hi is_digit_hi F.

  Definition lift_s {A} (m : sstate -> sres (A * sstate)) : M A := fun st =>
    match m (p_sc st) with
    | SOk (a, s') => POk a {| p_sc := s'; p_look := p_look st |}
    | SErr p k => PErr p k
    | SFuel => PFuel
    end.

  (** -------------------------------------------------------------- tokens and runes *)

  Definition next_token : M token := fun st =>
    match p_look st with
    | Some t => POk t {| p_sc := p_sc st; p_look := None |}
    | None => lift_s scan st
    end.

  Definition peek_token : M token := fun st =>
    match p_look st with
    | Some t => POk t st
    | None =>
      match scan (p_sc st) with
      | SOk (t, s') => POk t {| p_sc := s'; p_look := Some t |}
      | SErr p k => PErr p k
      | SFuel => PFuel
      end
    end.

  Definition use_whitespace (ws : Z) : M unit := fun st =>
    POk tt {| p_sc := set_ws (p_sc st) ws; p_look := p_look st |}.

  (** Parser.nextRune / peekRune. (The lookahead branch is dead code in the Go parser - both are
      only called from string() right after nextToken - but is transcribed.) *)
  Definition next_rune : M Z := fun st =>
    match p_look st with
    | Some t =>
      if 1 <? rune_count (t_txt t) then PErr (t_pos t) ESyntax
      else POk (fst (utf8_decode (t_txt t))) {| p_sc := p_sc st; p_look := None |}
    | None => lift_s sc_Next st
    end.

  Definition peek_rune : M Z := fun st =>
    match p_look st with
    | Some t =>
      if 1 <? rune_count (t_txt t) then PErr (t_pos t) ESyntax
      else POk (fst (utf8_decode (t_txt t))) st
    | None => lift_s sc_peek st
    end.

  (** Parser.discardLine after fix F8: one token per iteration *)
  Fixpoint discard_loop (f : nat) : M unit :=
    match f with
    | O => out_of_fuel
    | S f' =>
      plet t <- next_token;
      if (t_typ t =? c_nl) || (t_typ t =? EOF) then ret tt else discard_loop f'
    end.

  Definition discard_line : M unit :=
    use_whitespace ws_sig_newline ;; discard_loop F ;; use_whitespace ws_default.

  (** Parser.discardLine as it was (F8): two tokens per iteration, the first compared with '\n'
      only, the second with EOF only *)
  Fixpoint discard_loop_old (f : nat) : M unit :=
    match f with
    | O => out_of_fuel
    | S f' =>
      plet t1 <- next_token;
      if t_typ t1 =? c_nl then ret tt
      else
        plet t2 <- next_token;
        if t_typ t2 =? EOF then ret tt else discard_loop_old f'
    end.

  Definition discard_line_old : M unit :=
    use_whitespace ws_sig_newline ;; discard_loop_old F ;; use_whitespace ws_default.

  (** -------------------------------------------------------------- data types *)

  (** Parser.string: the read loop; [racc] = the bytes written so far, reversed *)
  Fixpoint string_loop (f : nat) (tokpos : position) (racc : bytes) : M bytes :=
    match f with
    | O => out_of_fuel
    | S f' =>
      plet r <- next_rune;
      if r =? EOF then fail tokpos ESyntax                    (* unterminated string *)
      else if r =? c_quote then ret (rev racc)
      else if r =? c_nl then string_loop f' tokpos (32 :: racc)
      else if r =? c_bslash then
        plet r2 <- peek_rune;
        if r2 =? c_quote then next_rune ;; string_loop f' tokpos (c_quote :: c_bslash :: racc)
        else string_loop f' tokpos (rev_append (utf8_encode r) racc)
      else string_loop f' tokpos (rev_append (utf8_encode r) racc)
    end.

  Definition p_string : M bytes :=
    plet tok <- next_token;
    if negb (t_typ tok =? c_quote) then fail (t_pos tok) ESyntax
    else string_loop F (t_pos tok) [].

  Definition p_identifier : M bytes :=
    plet tok <- next_token;
    if negb (t_typ tok =? TIdent) then fail (t_pos tok) ESyntax
    else if negb (ident_valid (t_txt tok)) then fail (t_pos tok) EValue
    else ret (t_txt tok).

  Definition p_string_identifier : M bytes :=
    plet tok <- peek_token;
    plet s <- p_string;
    if negb (ident_valid s) then fail (t_pos tok) EValue else ret s.

  Definition peek_keyword : M bytes :=
    plet tok <- peek_token;
    if negb (t_typ tok =? TIdent) then fail (t_pos tok) ESyntax else ret (t_txt tok).

  Definition p_keyword (kw : bytes) : M token :=
    plet k <- peek_keyword;
    if negb (bytes_eqb k kw) then (plet t <- peek_token; fail (t_pos t) ESyntax)
    else next_token.

  (** Parser.token: on a mismatch the error is reported at the position of the FOLLOWING token
      (p.peekToken().pos), which scans one more token *)
  Definition p_token (typ : Z) : M unit :=
    plet tok <- next_token;
    if negb (t_typ tok =? typ) then (plet t <- peek_token; fail (t_pos t) ESyntax)
    else ret tt.

  Definition optional_token (typ : Z) : M unit :=
    plet t <- peek_token;
    if t_typ t =? typ then p_token typ else ret tt.

  Definition p_uint : M Z :=
    plet tok <- next_token;
    if negb (t_typ tok =? TInt) then fail (t_pos tok) ESyntax
    else match parse_uint (t_txt tok) with
         | Some i => ret i
         | None => fail (t_pos tok) EValue
         end.

  Definition optional_minus : M bool :=
    plet t <- peek_token;
    if t_typ t =? c_minus then (p_token c_minus ;; ret true) else ret false.

  Definition p_float : M Z :=
    plet neg <- optional_minus;
    plet tok <- next_token;
    if negb (t_typ tok =? TInt) && negb (t_typ tok =? TFloat) then (plet t <- peek_token; fail (t_pos t) ESyntax)
    else match parse_float (t_txt tok) with
         | Some b => ret (if neg then b64_neg b else b)
         | None => fail (t_pos tok) EValue
         end.

  (** Parser.int after the fix F12: a decimal integer token is converted exactly
      ([int_of_token], Dbc/DecFloat.v), only the other spellings go through float64 *)
  Definition p_int : M Z :=
    plet neg <- optional_minus;
    plet tok <- next_token;
    if negb (t_typ tok =? TInt) && negb (t_typ tok =? TFloat) then fail (t_pos tok) ESyntax
    else match int_of_token (t_typ tok =? TInt) neg (t_txt tok) with
         | Some i => ret i
         | None => fail (t_pos tok) EValue
         end.

  (** Parser.int as it was (F12): every token through float64, clamp test [f > math.MaxInt64] *)
  Definition p_int_old : M Z :=
    plet neg <- optional_minus;
    plet tok <- next_token;
    if negb (t_typ tok =? TInt) && negb (t_typ tok =? TFloat) then fail (t_pos tok) ESyntax
    else match int_of_token_old neg (t_txt tok) with
         | Some i => ret i
         | None => fail (t_pos tok) EValue
         end.

  Definition int_in_range (lo hi : Z) : M Z :=
    plet neg <- optional_minus;
    plet tok <- next_token;
    match atoi (t_txt tok) with
    | None => fail (t_pos tok) EValue
    | Some i =>
      let i := if neg then neg64 i else i in
      if (i <? lo) || (hi <? i) then fail (t_pos tok) EValue else ret i
    end.

  Definition optional_uint : M Z :=
    plet t <- peek_token;
    if negb (t_typ t =? TInt) then ret 0
    else
      plet tok <- next_token;
      match parse_uint (t_txt tok) with
      | Some i => ret i
      | None => fail (t_pos tok) EValue
      end.

  Definition any_of (typs : list Z) : M Z :=
    plet tok <- next_token;
    if existsb (Z.eqb (t_typ tok)) typs then ret (t_typ tok) else fail (t_pos tok) ESyntax.

  (** Parser.enumValue: values[i] is an indexing operation (None = Go panic) *)
  Definition enum_value (values : list bytes) : M bytes :=
    plet tok <- peek_token;
    if t_typ tok =? TInt then
      plet i <- p_uint;
      if Z.of_nat (List.length values) <=? i then fail (t_pos tok) EValue
      else match nth_error values (Z.to_nat i) with
           | Some v => ret v
           | None => panic
           end
    else p_string.

  Definition optional_object_type : M object_type :=
    plet tok <- peek_token;
    if negb (t_typ tok =? TIdent) then ret OtUnspecified
    else
      plet id <- p_identifier;
      match object_type_of id with
      | Some o => ret o
      | None => fail (t_pos tok) EValue
      end.

  (** MessageID(p.uint()): conversion uint64 -> uint32 truncates *)
  Definition p_message_id : M Z :=
    plet tok <- peek_token;
    plet u <- p_uint;
    let m := u mod 2 ^ 32 in
    if msgid_valid m then ret m else fail (t_pos tok) EValue.

  Definition p_small_enum (max : Z) : M Z :=   (* signalValueType / environmentVariableType: 0..max *)
    plet tok <- peek_token;
    plet u <- p_uint;
    if u <=? max then ret u else fail (t_pos tok) EValue.

  Definition p_attribute_value_type : M attr_type :=
    plet tok <- peek_token;
    plet id <- p_identifier;
    match attr_type_of id with
    | Some a => ret a
    | None => fail (t_pos tok) EValue
    end.

  Definition p_access_type : M access_type :=
    plet tok <- peek_token;
    plet id <- p_identifier;
    match access_type_of id with
    | Some a => ret a
    | None => fail (t_pos tok) EValue
    end.

  (** -------------------------------------------------------------- definitions (def.go) *)

  Definition parse_version : M def :=
    plet kw <- p_keyword kw_version;
    plet v <- p_string;
    ret (DVersion (t_pos kw) v).

  Fixpoint new_symbols_loop (f : nat) (racc : list bytes) : M (list bytes) :=
    match f with
    | O => out_of_fuel
    | S f' =>
      plet t <- peek_token;
      if t_typ t =? c_tab then
        p_token c_tab ;; plet id <- p_identifier; new_symbols_loop f' (id :: racc)
      else ret (rev racc)
    end.

  Definition parse_new_symbols : M def :=
    use_whitespace ws_sig_tab ;;
    plet kw <- p_keyword kw_new_symbols;
    p_token c_colon ;;
    plet syms <- new_symbols_loop F [];
    use_whitespace ws_default ;;
    ret (DNewSymbols (t_pos kw) syms).

  (** BitTimingDef.parseFrom after fix F9 *)
  Definition parse_bit_timing : M def :=
    plet kw <- p_keyword kw_bit_timing;
    p_token c_colon ;;
    plet baud <- optional_uint;
    plet t1 <- peek_token;
    plet btr1 <- (if t_typ t1 =? c_colon then p_token c_colon ;; optional_uint else ret 0);
    plet t2 <- peek_token;
    plet btr2 <- (if t_typ t2 =? c_comma then p_token c_comma ;; optional_uint else ret 0);
    ret (DBitTiming (t_pos kw) baud btr1 btr2).

  (** BitTimingDef.parseFrom as it was (F9): the separators are peeked, never consumed *)
  Definition parse_bit_timing_old : M def :=
    plet kw <- p_keyword kw_bit_timing;
    p_token c_colon ;;
    plet baud <- optional_uint;
    plet t1 <- peek_token;
    plet btr1 <- (if t_typ t1 =? c_colon then optional_uint else ret 0);
    plet t2 <- peek_token;
    plet btr2 <- (if t_typ t2 =? c_comma then optional_uint else ret 0);
    ret (DBitTiming (t_pos kw) baud btr1 btr2).

  (** a loop "for p.peekToken().typ == Ident { append(p.identifier()) }" *)
  Fixpoint ident_list_loop (f : nat) (racc : list bytes) : M (list bytes) :=
    match f with
    | O => out_of_fuel
    | S f' =>
      plet t <- peek_token;
      if t_typ t =? TIdent then plet id <- p_identifier; ident_list_loop f' (id :: racc)
      else ret (rev racc)
    end.

  Definition parse_nodes : M def :=
    use_whitespace ws_sig_newline ;;
    plet kw <- p_keyword kw_nodes;
    p_token c_colon ;;
    plet names <- ident_list_loop F [];
    plet t <- peek_token;
    (if negb (t_typ t =? EOF) then p_token c_nl else ret tt) ;;
    use_whitespace ws_default ;;
    ret (DNodes (t_pos kw) names).

  Definition parse_value_description : M value_description_def :=
    plet t <- peek_token;
    plet v <- p_float;
    plet s <- p_string;
    ret {| vd_pos := t_pos t; vd_value := v; vd_description := s |}.

  (** "for p.peekToken().typ != ';' { parse a value description }; p.token(';')" *)
  Fixpoint value_descriptions_loop (f : nat) (racc : list value_description_def)
    : M (list value_description_def) :=
    match f with
    | O => out_of_fuel
    | S f' =>
      plet t <- peek_token;
      if negb (t_typ t =? c_semi) then
        plet vd <- parse_value_description; value_descriptions_loop f' (vd :: racc)
      else ret (rev racc)
    end.

  Definition parse_value_table : M def :=
    plet kw <- p_keyword kw_value_table;
    plet name <- p_identifier;
    plet vs <- value_descriptions_loop F [];
    p_token c_semi ;;
    ret (DValueTable (t_pos kw) name vs).

  (** "p.identifier(); for p.peekToken().typ == ',' { p.token(','); p.identifier() }" *)
  Fixpoint comma_idents_loop (f : nat) (racc : list bytes) : M (list bytes) :=
    match f with
    | O => out_of_fuel
    | S f' =>
      plet t <- peek_token;
      if t_typ t =? c_comma then
        p_token c_comma ;; plet id <- p_identifier; comma_idents_loop f' (id :: racc)
      else ret (rev racc)
    end.

  Definition comma_idents : M (list bytes) :=
    plet id <- p_identifier; comma_idents_loop F [id].

  Definition parse_signal : M signal_def :=
    plet kw <- p_keyword kw_signal;
    plet name <- p_identifier;
    plet t <- peek_token;
    plet mux <-
      (if negb (t_typ t =? c_colon) then
         plet tok <- next_token;
         if negb (t_typ tok =? TIdent) then fail (t_pos tok) ESyntax
         else if bytes_eqb (t_txt tok) [77] then ret (true, false, 0)
         else match t_txt tok with
              | [] => panic                                    (* tok.txt[0] *)
              | c0 :: tl =>
                if (c0 =? 109) && (1 <? blen (t_txt tok)) then
                  match atoi tl with
                  | Some i => if i <? 0 then fail (t_pos tok) EValue else ret (false, true, i)
                  | None => fail (t_pos tok) EValue
                  end
                else fail (t_pos tok) ESyntax
              end
       else ret (false, false, 0));
    let '(is_switch, is_muxed, mux_value) := mux in
    p_token c_colon ;;
    plet start <- p_uint;
    p_token c_bar ;;
    plet size <- p_uint;
    p_token c_at ;;
    plet order <- int_in_range 0 1;
    plet sign <- any_of [c_minus; c_plus];
    p_token c_lpar ;;
    plet factor <- p_float;
    p_token c_comma ;;
    plet offset <- p_float;
    p_token c_rpar ;;
    p_token c_lbrack ;;
    plet mn <- p_float;
    p_token c_bar ;;
    plet mx <- p_float;
    p_token c_rbrack ;;
    plet unit_ <- p_string;
    plet receivers <- comma_idents;
    ret {| sg_pos := t_pos kw; sg_name := name; sg_start := start; sg_size := size;
           sg_big_endian := (order =? 0); sg_signed := (sign =? c_minus);
           sg_mux_switch := is_switch; sg_multiplexed := is_muxed; sg_mux_value := mux_value;
           sg_offset := offset; sg_factor := factor; sg_min := mn; sg_max := mx;
           sg_unit := unit_; sg_receivers := receivers |}.

  (** the signal loop of MessageDef.parseFrom after fix F11:
      "for p.peekToken().typ == Ident && p.peekKeyword() == SG_ { parse a signal }" *)
  Fixpoint signals_loop (f : nat) (racc : list signal_def) : M (list signal_def) :=
    match f with
    | O => out_of_fuel
    | S f' =>
      plet t <- peek_token;
      if negb (t_typ t =? TIdent) then ret (rev racc)
      else
        plet k <- peek_keyword;
        if bytes_eqb k kw_signal then plet s <- parse_signal; signals_loop f' (s :: racc)
        else ret (rev racc)
    end.

  (** as it was (F11): "for p.peekToken().typ != EOF && p.peekKeyword() == SG_": peekKeyword raises
      "expected ident" INSIDE the message definition when a complete message is followed by a token
      that is not an identifier, so the complete message is never appended to Defs() *)
  Fixpoint signals_loop_old (f : nat) (racc : list signal_def) : M (list signal_def) :=
    match f with
    | O => out_of_fuel
    | S f' =>
      plet t <- peek_token;
      if t_typ t =? EOF then ret (rev racc)
      else
        plet k <- peek_keyword;
        if bytes_eqb k kw_signal then plet s <- parse_signal; signals_loop_old f' (s :: racc)
        else ret (rev racc)
    end.

  Definition parse_message_with (signals : M (list signal_def)) : M def :=
    plet kw <- p_keyword kw_message;
    plet id <- p_message_id;
    plet name <- p_identifier;
    p_token c_colon ;;
    plet size <- p_uint;
    plet tx <- p_identifier;
    plet sigs <- signals;
    ret (DMessage {| m_pos := t_pos kw; m_id := id; m_name := name; m_size := size;
                     m_transmitter := tx; m_signals := sigs |}).

  Definition parse_message : M def := parse_message_with (signals_loop F []).
  Definition parse_message_old : M def := parse_message_with (signals_loop_old F []).

  Definition parse_signal_value_type : M def :=
    plet kw <- p_keyword kw_signal_value_type;
    plet id <- p_message_id;
    plet name <- p_identifier;
    optional_token c_colon ;;
    plet vt <- p_small_enum 2;
    p_token c_semi ;;
    ret (DSignalValueType (t_pos kw) id name vt).

  (** "for p.peekToken().typ != ';' { p.identifier(); p.optionalToken(',') }" *)
  Fixpoint transmitters_loop (f : nat) (racc : list bytes) : M (list bytes) :=
    match f with
    | O => out_of_fuel
    | S f' =>
      plet t <- peek_token;
      if negb (t_typ t =? c_semi) then
        plet id <- p_identifier; optional_token c_comma ;; transmitters_loop f' (id :: racc)
      else ret (rev racc)
    end.

  Definition parse_message_transmitters : M def :=
    plet kw <- p_keyword kw_message_transmitters;
    plet id <- p_message_id;
    p_token c_colon ;;
    plet txs <- transmitters_loop F [];
    p_token c_semi ;;
    ret (DMessageTransmitters (t_pos kw) id txs).

  Definition parse_value_descriptions : M def :=
    plet kw <- p_keyword kw_value_descriptions;
    plet t <- peek_token;
    plet hd <-
      (if t_typ t =? TIdent then plet ev <- p_identifier; ret (OtEnvVar, 0, [], ev)
       else plet id <- p_message_id; plet sg <- p_identifier; ret (OtSignal, id, sg, []));
    let '(ot, id, sg, ev) := hd in
    plet vs <- value_descriptions_loop F [];
    p_token c_semi ;;
    ret (DValueDescriptions {| vs_pos := t_pos kw; vs_object := ot; vs_message_id := id; vs_signal := sg;
                               vs_envvar := ev; vs_values := vs |}).

  Definition parse_envvar : M def :=
    plet kw <- p_keyword kw_envvar;
    plet name <- p_identifier;
    p_token c_colon ;;
    plet ty <- p_small_enum 2;
    p_token c_lbrack ;;
    plet mn <- p_float;
    p_token c_bar ;;
    plet mx <- p_float;
    p_token c_rbrack ;;
    plet unit_ <- p_string;
    plet initial <- p_float;
    plet id <- p_uint;
    plet acc <- p_access_type;
    plet nodes <- comma_idents;
    p_token c_semi ;;
    ret (DEnvVar {| ev_pos := t_pos kw; ev_name := name; ev_type := ty; ev_min := mn; ev_max := mx;
                    ev_unit := unit_; ev_initial := initial; ev_id := id; ev_access := acc;
                    ev_access_nodes := nodes |}).

  Definition parse_envvar_data : M def :=
    plet kw <- p_keyword kw_envvar_data;
    plet name <- p_identifier;
    p_token c_colon ;;
    plet size <- p_uint;
    p_token c_semi ;;
    ret (DEnvVarData (t_pos kw) name size).

  (** the object reference of CM_ / BA_: (node, message id, signal, envvar) *)
  Definition object_ref (ot : object_type) : M (bytes * Z * bytes * bytes) :=
    match ot with
    | OtNode => plet n <- p_identifier; ret (n, 0, [], [])
    | OtMessage => plet id <- p_message_id; ret ([], id, [], [])
    | OtSignal => plet id <- p_message_id; plet s <- p_identifier; ret ([], id, s, [])
    | OtEnvVar => plet e <- p_identifier; ret ([], 0, [], e)
    | OtUnspecified => ret ([], 0, [], [])
    end.

  Definition parse_comment : M def :=
    plet kw <- p_keyword kw_comment;
    plet ot <- optional_object_type;
    plet r <- object_ref ot;
    let '(node, id, sg, ev) := r in
    plet c <- p_string;
    p_token c_semi ;;
    ret (DComment {| cm_pos := t_pos kw; cm_object := ot; cm_node := node; cm_message_id := id;
                     cm_signal := sg; cm_envvar := ev; cm_comment := c |}).

  (** "p.string(); for p.peekToken().typ == ',' { p.token(','); p.string() }" *)
  Fixpoint comma_strings_loop (f : nat) (racc : list bytes) : M (list bytes) :=
    match f with
    | O => out_of_fuel
    | S f' =>
      plet t <- peek_token;
      if t_typ t =? c_comma then
        p_token c_comma ;; plet s <- p_string; comma_strings_loop f' (s :: racc)
      else ret (rev racc)
    end.

  Definition parse_attribute : M def :=
    plet kw <- p_keyword kw_attribute;
    plet ot <- optional_object_type;
    plet name <- p_string_identifier;
    plet ty <- p_attribute_value_type;
    plet body <-
      (match ty with
       | AtInt | AtHex =>
         plet t <- peek_token;
         if negb (t_typ t =? c_semi) then plet a <- p_int; plet b <- p_int; ret (a, b, 0, 0, [])
         else ret (0, 0, 0, 0, [])
       | AtFloat =>
         plet t <- peek_token;
         if negb (t_typ t =? c_semi) then plet a <- p_float; plet b <- p_float; ret (0, 0, a, b, [])
         else ret (0, 0, 0, 0, [])
       | AtEnum =>
         plet s <- p_string; plet vs <- comma_strings_loop F [s]; ret (0, 0, 0, 0, vs)
       | AtString => ret (0, 0, 0, 0, [])
       end);
    let '(mi, ma, mf, xf, vs) := body in
    p_token c_semi ;;
    ret (DAttribute {| ad_pos := t_pos kw; ad_object := ot; ad_name := name; ad_type := ty;
                       ad_min_int := mi; ad_max_int := ma; ad_min_float := mf; ad_max_float := xf;
                       ad_enum_values := vs |}).

  (** the typed value of BA_DEF_DEF_ / BA_: (int, float, string) *)
  Definition attribute_value (defs : list def) (name : bytes) : M (Z * Z * bytes) :=
    match find_attribute name defs with
    | None => ret (0, 0, [])
    | Some a =>
      match ad_type a with
      | AtInt | AtHex => plet i <- p_int; ret (i, 0, [])
      | AtFloat => plet f <- p_float; ret (0, f, [])
      | AtString => plet s <- p_string; ret (0, 0, s)
      | AtEnum => plet s <- enum_value (ad_enum_values a); ret (0, 0, s)
      end
    end.

  Definition parse_attribute_default (defs : list def) : M def :=
    plet kw <- p_keyword kw_attribute_default;
    plet name <- p_string;
    plet v <- attribute_value defs name;
    let '(i, f, s) := v in
    p_token c_semi ;;
    ret (DAttributeDefault {| dd_pos := t_pos kw; dd_name := name; dd_int := i; dd_float := f; dd_string := s |}).

  Definition parse_attribute_value (defs : list def) : M def :=
    plet kw <- p_keyword kw_attribute_value;
    plet name <- p_string;
    plet ot <- optional_object_type;
    plet r <- object_ref ot;
    let '(node, id, sg, ev) := r in
    plet v <- attribute_value defs name;
    let '(i, f, s) := v in
    p_token c_semi ;;
    ret (DAttributeValue {| av_pos := t_pos kw; av_name := name; av_object := ot; av_message_id := id;
                            av_signal := sg; av_node := node; av_envvar := ev; av_int := i; av_float := f;
                            av_string := s |}).

  Definition parse_unknown_with (discard : M unit) : M def :=
    plet tok <- peek_token;
    discard ;;
    ret (DUnknown (t_pos tok) (t_txt tok)).

  Definition parse_unknown : M def := parse_unknown_with discard_line.
  Definition parse_unknown_old : M def := parse_unknown_with discard_line_old.

  (** -------------------------------------------------------------- Parse() *)

  (** the keyword switch of Parse, parameterised by the three definitions that have an old variant *)
  Definition parse_def_with (bit_timing unknown message : M def) (defs : list def) (kw : bytes) : M def :=
    if bytes_eqb kw kw_version then parse_version
    else if bytes_eqb kw kw_bit_timing then bit_timing
    else if bytes_eqb kw kw_new_symbols then parse_new_symbols
    else if bytes_eqb kw kw_nodes then parse_nodes
    else if bytes_eqb kw kw_message then message
    else if bytes_eqb kw kw_signal then (plet s <- parse_signal; ret (DSignal s))
    else if bytes_eqb kw kw_envvar then parse_envvar
    else if bytes_eqb kw kw_comment then parse_comment
    else if bytes_eqb kw kw_attribute then parse_attribute
    else if bytes_eqb kw kw_attribute_default then parse_attribute_default defs
    else if bytes_eqb kw kw_attribute_value then parse_attribute_value defs
    else if bytes_eqb kw kw_value_descriptions then parse_value_descriptions
    else if bytes_eqb kw kw_value_table then parse_value_table
    else if bytes_eqb kw kw_signal_value_type then parse_signal_value_type
    else if bytes_eqb kw kw_message_transmitters then parse_message_transmitters
    else if bytes_eqb kw kw_envvar_data then parse_envvar_data
    else unknown.

  Fixpoint parse_loop_with (bit_timing unknown message : M def) (f : nat) (defs : list def) (st : pstate) : outcome :=
    match f with
    | O => OutOfFuel
    | S f' =>
      match peek_token st with
      | POk t st1 =>
        if t_typ t =? EOF then Ok defs
        else
          match (plet kw <- peek_keyword; parse_def_with bit_timing unknown message defs kw) st1 with
          | POk d st2 => parse_loop_with bit_timing unknown message f' (defs ++ [d]) st2
          | PErr p k => Err p k defs
          | PPanic => Panic
          | PFuel => OutOfFuel
          end
      | PErr p k => Err p k defs
      | PPanic => Panic
      | PFuel => OutOfFuel
      end
    end.

  Definition p_init (src : bytes) : pstate := {| p_sc := sc_init src; p_look := None |}.

  (** NewParser(data).Parse() with Defs() *)
  Definition parse (src : bytes) : outcome :=
    parse_loop_with parse_bit_timing parse_unknown parse_message F [] (p_init src).

  (** the parser before the fixes F8, F9 and F11 *)
  Definition parse_old (src : bytes) : outcome :=
    parse_loop_with parse_bit_timing_old parse_unknown_old parse_message_old F [] (p_init src).

End WithOracle.

(** fuel that suffices for every input (Totality.v) *)
Definition fuel_for (src : bytes) : nat := (List.length src + 4)%nat.

(** the entry point used by the driver and the theorems *)
Definition parse_bytes (is_letter_hi is_digit_hi : Z -> bool) (src : bytes) : outcome :=
  parse is_letter_hi is_digit_hi (fuel_for src) src.

Definition parse_bytes_old (is_letter_hi is_digit_hi : Z -> bool) (src : bytes) : outcome :=
  parse_old is_letter_hi is_digit_hi (fuel_for src) src.
