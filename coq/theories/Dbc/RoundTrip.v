(** C04 round trip, proved part: [parse_bytes il id (print cr ds) = Ok (elaborate cr ds)] for the source
    class of Dbc/Printer.v (VERSION, BS_, BU_, unknown lines; plain layout).  Structure as planned in
    DESIGN.md 5.4: scanner lemmas (ScanLemmas.v) -> token lemmas at parser level -> one step lemma
    per definition kind ("parse_X consumes exactly the printed definition and leaves the parser
    ready for the next line") -> induction over the list of definitions. *)
From Coq Require Import ZArith List Bool Lia.
From CanVerif Require Import Dbc.Ast Dbc.Scanner Dbc.DecFloat Dbc.Parser Dbc.ScannerInv Dbc.ScanLemmas Dbc.Printer Dbc.IntConv.
Import ListNotations.
Open Scope Z_scope.

Definition PS (sc : sstate) (look : option token) : pstate := {| p_sc := sc; p_look := look |}.

(** whitespace masks on the characters that occur in printed text *)
Lemma ws_printable : forall ws c, (ws = ws_default \/ ws = ws_sig_newline \/ ws = ws_sig_tab) -> 33 <= c -> is_ws ws c = false.
Proof.
  intros ws c Hws Hc. unfold is_ws. destruct (c <? 64) eqn:E; [|rewrite andb_false_r; reflexivity].
  assert (H : Z.testbit ws c = false).
  { destruct Hws as [H|[H|H]]; subst ws; apply Z.bits_above_log2;
      try (unfold ws_default, ws_sig_newline, ws_sig_tab; lia); vm_compute Z.log2; lia. }
  rewrite H. rewrite andb_false_r. reflexivity.
Qed.

Lemma ws_space : forall ws, (ws = ws_default \/ ws = ws_sig_newline \/ ws = ws_sig_tab) -> is_ws ws 32 = true.
Proof. intros ws [H|[H|H]]; subst ws; reflexivity. Qed.

Lemma bytes_eqb_refl : forall a, bytes_eqb a a = true.
Proof. induction a as [|x a IH]; cbn; [reflexivity|]. rewrite Z.eqb_refl, IH. reflexivity. Qed.

Section RT.
  Variable il id : Z -> bool.
  Variable F : nat.
  Variable cr : bytes.
  Hypothesis Hcr : cr_ok cr.

  Notation next_token := (next_token il id F).
  Notation peek_token := (peek_token il id F).
  Notation sc_scan := (sc_scan il id F).
  Notation scan_body := (scan_body il id F).

  Lemma next_token_scan : forall s,
    next_token (PS s None) = match sc_scan s with
                             | SOk (t, s') => POk t (PS s' None)
                             | SErr p k => PErr p k
                             | SFuel => PFuel
                             end.
  Proof. reflexivity. Qed.

  Lemma peek_token_scan : forall s,
    peek_token (PS s None) = match sc_scan s with
                             | SOk (t, s') => POk t (PS s' (Some t))
                             | SErr p k => PErr p k
                             | SFuel => PFuel
                             end.
  Proof. intros. unfold Parser.peek_token, PS, scan. cbn [p_look p_sc]. destruct (sc_scan s) as [[t s']| |]; reflexivity. Qed.

  Lemma next_token_look : forall s t, next_token (PS s (Some t)) = POk t (PS s None).
  Proof. reflexivity. Qed.

  Lemma peek_token_look : forall s t, peek_token (PS s (Some t)) = POk t (PS s (Some t)).
  Proof. reflexivity. Qed.

  (** ------------------------------------------------------------ the string loop *)

  Lemma plain_ascii : forall c, plain_char c -> ascii c /\ c <> 10 /\ c <> 34 /\ c <> 92.
  Proof. intros c ((? & ?) & ? & ?). unfold ascii. repeat split; lia. Qed.

  Lemma utf8_encode_ascii : forall c, ascii c -> utf8_encode c = [c].
  Proof.
    intros c (H0 & H1). unfold utf8_encode.
    assert (E : ((0 <=? c) && (c <? 128)) = true) by (apply andb_true_iff; split; [apply Z.leb_le | apply Z.ltb_lt]; lia).
    rewrite E. reflexivity.
  Qed.

  (** Next() on a pending ASCII character [a] followed by the ASCII character [c] *)
  Lemma next_rune_plain : forall a c r last pos l k ll ws, ascii a -> ascii c ->
    next_rune (PS (mkS (c :: r) last pos l k ll a ws) None) = POk a (PS (stepS c r pos l k ll c ws) None).
  Proof.
    intros a c r last pos l k ll ws Ha Hc. unfold next_rune. cbn [p_look PS]. unfold lift_s.
    unfold sc_Next, sc_peek. cbn [p_sc p_look PS s_ch mkS].
    assert (E1 : (a =? NOCHAR) = false) by (apply Z.eqb_neq; unfold ascii, NOCHAR in *; lia).
    assert (E2 : (a =? EOF) = false) by (apply Z.eqb_neq; unfold ascii, EOF in *; lia).
    rewrite E1. cbn [sbind]. rewrite E2. fold (mkS (c :: r) last pos l k ll a ws).
    rewrite next_step by assumption. cbn [sbind]. rewrite set_ch_stepS. reflexivity.
  Qed.

  Lemma peek_rune_pending : forall a rest last pos l k ll ws, a <> NOCHAR ->
    peek_rune (PS (mkS rest last pos l k ll a ws) None) = POk a (PS (mkS rest last pos l k ll a ws) None).
  Proof.
    intros a rest last pos l k ll ws Ha. unfold peek_rune. cbn [p_look PS]. unfold lift_s, sc_peek. cbn [p_sc p_look PS s_ch mkS].
    apply Z.eqb_neq in Ha. rewrite Ha. reflexivity.
  Qed.

  Lemma plain_str_ok : forall s, Forall plain_char s -> str_ok s.
  Proof. intros s H. induction H; constructor; assumption. Qed.

  (** the first character of a string body followed by its closing quote *)
  Lemma str_head : forall s a q, str_ok s -> a :: q = s ++ [34] -> ascii a /\ a <> 10.
  Proof.
    intros s a q Hs E. inversion Hs as [|c s' Hc _|s' _|c s' Hc _]; subst; cbn in E; injection E as -> _;
      try (destruct (plain_ascii _ Hc) as (? & ? & _); auto); unfold ascii; split; lia.
  Qed.

  Lemma str_okb_aux_ok : forall n s, str_okb_aux n s = true -> str_ok s.
  Proof.
    induction n as [|n IH]; intros s H; [discriminate|]. cbn [str_okb_aux] in H.
    destruct s as [|c t]; [constructor|].
    assert (Hgen : forall c t, ((32 <=? c) && (c <? 127) && negb (c =? 34) && negb (c =? 92) && str_okb_aux n t) = true ->
                   plain_char c /\ str_ok t).
    { intros c' t' H'. repeat (apply andb_true_iff in H'; destruct H' as [H' ?]).
      split; [|apply IH; assumption]. unfold plain_char.
      repeat match goal with X : negb _ = true |- _ => apply negb_true_iff, Z.eqb_neq in X end. lia. }
    destruct (Z.eq_dec c 92) as [->|Hn].
    - destruct t as [|c1 t1]; [exfalso; apply Hgen in H; destruct H as ((_ & _ & H) & _); apply H; reflexivity|].
      destruct (Z.eq_dec c1 34) as [->|Hn1].
      + apply str_esc_quote. apply IH. exact H.
      + assert (H' : ((32 <=? c1) && (c1 <? 127) && negb (c1 =? 34) && negb (c1 =? 92) && str_okb_aux n t1) = true).
        { destruct c1 as [|p|p]; try exact H. do 6 (destruct p as [p|p|]; try exact H); contradiction Hn1; reflexivity. }
        apply Hgen in H'. destruct H' as (Hc1 & Ht1). apply str_esc; assumption.
    - assert (H' : ((32 <=? c) && (c <? 127) && negb (c =? 34) && negb (c =? 92) && str_okb_aux n t) = true).
      { destruct c as [|p|p]; try exact H. do 7 (destruct p as [p|p|]; try exact H); contradiction Hn; reflexivity. }
      apply Hgen in H'. destruct H' as (Hc & Ht). apply str_plain; assumption.
  Qed.

  Lemma str_okb_ok : forall s, str_okb s = true -> str_ok s.
  Proof. intros s H. exact (str_okb_aux_ok _ _ H). Qed.

  (** reading the rest of a string literal: pending character [a], then [q], where [a :: q] is the
      remaining content [s] followed by the closing quote; [c2] is the character after the quote *)
  Lemma string_loop_plain : forall f s a q c2 r tokpos racc last pos l k ll ws,
    (length s < f)%nat -> str_ok s -> a :: q = s ++ [34] -> ascii c2 ->
    string_loop f tokpos racc (PS (mkS (q ++ c2 :: r) last pos l k ll a ws) None)
    = POk (rev racc ++ s) (PS (stepS c2 r (pos + blen s) l (k + blen s) ll c2 ws) None).
  Proof.
    induction f as [|f IH]; intros s a q c2 r tokpos racc last pos l k ll ws Hf Hs Haq Hc2; [lia|].
    inversion Hs as [|b s' Hb Hs'|s' Hs'|b s' Hb Hs']; subst.
    - cbn [app] in Haq. injection Haq as -> ->.
      cbn [string_loop app]. unfold bind at 1.
      rewrite next_rune_plain by (try assumption; unfold ascii; lia). cbv beta iota.
      change (34 =? EOF) with false. change (34 =? c_quote) with true. cbv iota.
      unfold ret. rewrite blen_nil, !Z.add_0_r, app_nil_r. reflexivity.
    - cbn [app] in Haq. injection Haq as -> Hq.
      destruct (plain_ascii b Hb) as (Hba & Hb10 & Hb34 & Hb92).
      destruct (s' ++ [34]) as [|a' q'] eqn:Es; [destruct s'; discriminate|].
      destruct (str_head s' a' q' Hs' (eq_sym Es)) as (Haa' & Ha10'). subst q.
      cbn [string_loop app]. unfold bind at 1.
      rewrite next_rune_plain by assumption. cbv beta iota. rewrite stepS_plain by assumption.
      assert (E2 : (b =? EOF) = false) by (apply Z.eqb_neq; unfold ascii, EOF in *; lia).
      assert (E3 : (b =? c_quote) = false) by (apply Z.eqb_neq; assumption).
      assert (E4 : (b =? c_nl) = false) by (apply Z.eqb_neq; assumption).
      assert (E5 : (b =? c_bslash) = false) by (apply Z.eqb_neq; assumption).
      rewrite E2, E3, E4, E5. rewrite (utf8_encode_ascii b Hba). cbn [rev_append].
      rewrite (IH s' a' q' c2 r tokpos (b :: racc) [a'] (pos + 1) l (k + 1) ll ws); try assumption; [|cbn in Hf; lia|symmetry; exact Es].
      cbn [rev]. rewrite <- app_assoc. cbn [app]. rewrite blen_cons.
      replace (pos + 1 + blen s') with (pos + (1 + blen s')) by lia.
      replace (k + 1 + blen s') with (k + (1 + blen s')) by lia. reflexivity.
    - (* escaped quote *)
      cbn [app] in Haq. injection Haq as -> Hq.
      destruct (s' ++ [34]) as [|a' q'] eqn:Es; [destruct s'; discriminate|].
      destruct (str_head s' a' q' Hs' (eq_sym Es)) as (Haa' & Ha10'). subst q.
      cbn [string_loop app]. unfold bind at 1.
      rewrite next_rune_plain by (unfold ascii; lia). cbv beta iota. rewrite stepS_plain by discriminate.
      change (92 =? EOF) with false. change (92 =? c_quote) with false. change (92 =? c_nl) with false.
      change (92 =? c_bslash) with true. cbv iota. unfold bind at 1.
      rewrite peek_rune_pending by discriminate. change (34 =? c_quote) with true. cbv iota. unfold bind at 1.
      rewrite next_rune_plain by (try assumption; unfold ascii; lia). rewrite stepS_plain by assumption.
      rewrite (IH s' a' q' c2 r tokpos (c_quote :: c_bslash :: racc) [a'] (pos + 1 + 1) l (k + 1 + 1) ll ws);
        try assumption; [|cbn in Hf; lia|symmetry; exact Es].
      cbn [rev]. rewrite <- !app_assoc. cbn [app]. rewrite !blen_cons.
      replace (pos + 1 + 1 + blen s') with (pos + (1 + (1 + blen s'))) by lia.
      replace (k + 1 + 1 + blen s') with (k + (1 + (1 + blen s'))) by lia. reflexivity.
    - (* backslash followed by a plain character *)
      cbn [app] in Haq. injection Haq as -> Hq. subst q.
      destruct (plain_ascii b Hb) as (Hba & Hb10 & Hb34 & Hb92).
      cbn [string_loop app]. unfold bind at 1.
      rewrite next_rune_plain by (try assumption; unfold ascii; lia). cbv beta iota. rewrite stepS_plain by assumption.
      change (92 =? EOF) with false. change (92 =? c_quote) with false. change (92 =? c_nl) with false.
      change (92 =? c_bslash) with true. cbv iota. unfold bind at 1.
      rewrite peek_rune_pending by (unfold ascii, NOCHAR in *; lia).
      assert (E3 : (b =? c_quote) = false) by (apply Z.eqb_neq; assumption). rewrite E3.
      rewrite (utf8_encode_ascii 92) by (unfold ascii; lia). cbn [rev_append].
      rewrite (IH (b :: s') b (s' ++ [34]) c2 r tokpos (92 :: racc) [b] (pos + 1) l (k + 1) ll ws);
        try assumption; [|cbn in Hf |- *; lia|apply str_plain; assumption|reflexivity].
      cbn [rev]. rewrite <- !app_assoc. cbn [app]. rewrite !blen_cons.
      replace (pos + 1 + (1 + blen s')) with (pos + (1 + (1 + blen s'))) by lia.
      replace (k + 1 + (1 + blen s')) with (k + (1 + (1 + blen s'))) by lia. reflexivity.
  Qed.

  (** ---- string bodies with line ends (text of CM_) *)

  Definition nlz (c : Z) : Z := if c =? 10 then 1 else 0.

  Lemma stepS_mk : forall c r pos l k ll x ws, 0 <= k ->
    exists k1 ll1, 0 <= k1 /\ stepS c r pos l k ll x ws = mkS r [c] (pos + 1) (l + nlz c) k1 ll1 x ws.
  Proof.
    intros c r pos l k ll x ws Hk. unfold stepS, nlz. destruct (c =? 10) eqn:E.
    - apply Z.eqb_eq in E. subst c. exists 0, (k + 1). split; [lia|reflexivity].
    - exists (k + 1), ll. split; [lia|]. rewrite Z.add_0_r. reflexivity.
  Qed.

  Lemma stepS_eq3 : forall c r pos pos' l l' k ll x ws, pos = pos' -> l = l' ->
    stepS c r pos l k ll x ws = stepS c r pos' l' k ll x ws.
  Proof. intros. subst. reflexivity. Qed.

  Lemma nl_count_app : forall a b, nl_count (a ++ b) = nl_count a + nl_count b.
  Proof. induction a as [|c a IH]; intros b; cbn [app nl_count]; [reflexivity|]. rewrite IH. lia. Qed.

  Lemma nl_count_cons : forall c s, nl_count (c :: s) = nlz c + nl_count s.
  Proof. reflexivity. Qed.

  Lemma strn_head : forall s a q, str_okn s -> a :: q = s ++ [34] -> ascii a.
  Proof.
    intros s a q Hs E. inversion Hs as [|c s' Hc _|s' _|s' _|c s' Hc _]; subst; cbn in E; injection E as -> _;
      try (destruct (plain_ascii _ Hc) as (? & _); assumption); unfold ascii; lia.
  Qed.

  Lemma strn_head' : forall c s, str_okn (c :: s) -> ascii c.
  Proof. intros c s H. apply (strn_head (c :: s) c (s ++ [34])); [assumption|reflexivity]. Qed.

  Lemma string_loop_nl : forall f s a q c2 r tokpos racc last pos l k ll ws,
    (length s < f)%nat -> str_okn s -> a :: q = s ++ [34] -> ascii c2 -> 0 <= k ->
    exists k' ll', 0 <= k' /\
    string_loop f tokpos racc (PS (mkS (q ++ c2 :: r) last pos l k ll a ws) None)
    = POk (rev racc ++ str_val s) (PS (stepS c2 r (pos + blen s) (l + nl_count q) k' ll' c2 ws) None).
  Proof.
    induction f as [|f IH]; intros s a q c2 r tokpos racc last pos l k ll ws Hf Hs Haq Hc2 Hk; [lia|].
    inversion Hs as [|b s' Hb Hs'|s' Hs'|s' Hs'|b s' Hb Hs']; subst.
    - cbn [app] in Haq. injection Haq as -> ->.
      cbn [string_loop app]. unfold bind at 1.
      rewrite next_rune_plain by (try assumption; unfold ascii; lia). cbv beta iota.
      change (34 =? EOF) with false. change (34 =? c_quote) with true. cbv iota.
      exists k, ll. split; [assumption|]. unfold ret. cbn [str_val map nl_count]. rewrite blen_nil, !Z.add_0_r, app_nil_r. reflexivity.
    - (* plain character *)
      cbn [app] in Haq. injection Haq as -> Hq.
      destruct (plain_ascii b Hb) as (Hba & Hb10 & Hb34 & Hb92).
      destruct (s' ++ [34]) as [|a' q'] eqn:Es; [destruct s'; discriminate|].
      pose proof (strn_head s' a' q' Hs' (eq_sym Es)) as Haa'. subst q.
      cbn [string_loop app]. unfold bind at 1.
      rewrite next_rune_plain by assumption. cbv beta iota.
      destruct (stepS_mk a' (q' ++ c2 :: r) pos l k ll a' ws Hk) as (k1 & ll1 & Hk1 & Est). rewrite Est.
      assert (E2 : (b =? EOF) = false) by (apply Z.eqb_neq; unfold ascii, EOF in *; lia).
      assert (E3 : (b =? c_quote) = false) by (apply Z.eqb_neq; assumption).
      assert (E4 : (b =? c_nl) = false) by (apply Z.eqb_neq; assumption).
      assert (E5 : (b =? c_bslash) = false) by (apply Z.eqb_neq; assumption).
      rewrite E2, E3, E4, E5. rewrite (utf8_encode_ascii b Hba). cbn [rev_append].
      destruct (IH s' a' q' c2 r tokpos (b :: racc) [a'] (pos + 1) (l + nlz a') k1 ll1 ws) as (k' & ll' & Hk' & E);
        try assumption; [cbn in Hf; lia|symmetry; exact Es|].
      exists k', ll'. split; [assumption|]. rewrite E. cbn [rev]. rewrite <- app_assoc. cbn [app str_val map].
      apply Z.eqb_neq in Hb10. rewrite Hb10. fold (str_val s'). f_equal. f_equal.
      apply stepS_eq3; [rewrite blen_cons; lia|rewrite nl_count_cons; lia].
    - (* line end: read as a space *)
      cbn [app] in Haq. injection Haq as -> Hq.
      destruct (s' ++ [34]) as [|a' q'] eqn:Es; [destruct s'; discriminate|].
      pose proof (strn_head s' a' q' Hs' (eq_sym Es)) as Haa'. subst q.
      cbn [string_loop app]. unfold bind at 1.
      rewrite next_rune_plain by (try assumption; unfold ascii; lia). cbv beta iota.
      destruct (stepS_mk a' (q' ++ c2 :: r) pos l k ll a' ws Hk) as (k1 & ll1 & Hk1 & Est). rewrite Est.
      change (10 =? EOF) with false. change (10 =? c_quote) with false. change (10 =? c_nl) with true. cbv iota.
      destruct (IH s' a' q' c2 r tokpos (32 :: racc) [a'] (pos + 1) (l + nlz a') k1 ll1 ws) as (k' & ll' & Hk' & E);
        try assumption; [cbn in Hf; lia|symmetry; exact Es|].
      exists k', ll'. split; [assumption|]. rewrite E. cbn [rev]. rewrite <- app_assoc. cbn [app str_val map].
      change (10 =? 10) with true. cbv iota. fold (str_val s'). f_equal. f_equal.
      apply stepS_eq3; [rewrite blen_cons; lia|rewrite nl_count_cons; lia].
    - (* escaped quote *)
      cbn [app] in Haq. injection Haq as -> Hq.
      destruct (s' ++ [34]) as [|a' q'] eqn:Es; [destruct s'; discriminate|].
      pose proof (strn_head s' a' q' Hs' (eq_sym Es)) as Haa'. subst q.
      cbn [string_loop app]. unfold bind at 1.
      rewrite next_rune_plain by (unfold ascii; lia). cbv beta iota. rewrite stepS_plain by discriminate.
      change (92 =? EOF) with false. change (92 =? c_quote) with false. change (92 =? c_nl) with false.
      change (92 =? c_bslash) with true. cbv iota. unfold bind at 1.
      rewrite peek_rune_pending by discriminate. change (34 =? c_quote) with true. cbv iota. unfold bind at 1.
      rewrite next_rune_plain by (try assumption; unfold ascii; lia).
      destruct (stepS_mk a' (q' ++ c2 :: r) (pos + 1) l (k + 1) ll a' ws ltac:(lia)) as (k1 & ll1 & Hk1 & Est). rewrite Est.
      destruct (IH s' a' q' c2 r tokpos (c_quote :: c_bslash :: racc) [a'] (pos + 1 + 1) (l + nlz a') k1 ll1 ws) as (k' & ll' & Hk' & E);
        try assumption; [cbn in Hf; lia|symmetry; exact Es|].
      exists k', ll'. split; [assumption|]. rewrite E. cbn [rev]. rewrite <- !app_assoc. cbn [app str_val map].
      change (92 =? 10) with false. change (34 =? 10) with false. cbv iota. fold (str_val s'). f_equal. f_equal.
      apply stepS_eq3; [rewrite !blen_cons; lia|rewrite !nl_count_cons; change (nlz 34) with 0; lia].
    - (* backslash followed by anything but a quote: the backslash is an ordinary character *)
      cbn [app] in Haq. injection Haq as -> Hq. subst q.
      pose proof (strn_head' b s' Hs') as Hba.
      cbn [string_loop app]. unfold bind at 1.
      rewrite next_rune_plain by (try assumption; unfold ascii; lia). cbv beta iota.
      destruct (stepS_mk b ((s' ++ [34]) ++ c2 :: r) pos l k ll b ws Hk) as (k1 & ll1 & Hk1 & Est). rewrite Est.
      change (92 =? EOF) with false. change (92 =? c_quote) with false. change (92 =? c_nl) with false.
      change (92 =? c_bslash) with true. cbv iota. unfold bind at 1.
      rewrite peek_rune_pending by (unfold ascii, NOCHAR in *; lia).
      assert (E3 : (b =? c_quote) = false) by (apply Z.eqb_neq; assumption). rewrite E3.
      rewrite (utf8_encode_ascii 92) by (unfold ascii; lia). cbn [rev_append].
      destruct (IH (b :: s') b (s' ++ [34]) c2 r tokpos (92 :: racc) [b] (pos + 1) (l + nlz b) k1 ll1 ws) as (k' & ll' & Hk' & E);
        try assumption; [cbn in Hf |- *; lia|reflexivity|].
      exists k', ll'. split; [assumption|]. rewrite E. cbn [rev]. rewrite <- !app_assoc.
      change (str_val (92 :: b :: s')) with (92 :: str_val (b :: s')). cbn [app]. f_equal. f_equal.
      apply stepS_eq3; [rewrite !blen_cons; lia|rewrite !nl_count_cons; lia].
  Qed.

  (** ------------------------------------------------------------ scanning printed tokens *)

  Definition ws_ok (ws : Z) : Prop := ws = ws_default \/ ws = ws_sig_newline \/ ws = ws_sig_tab.

  Lemma id0_ge : forall c, id0 c = true -> 33 <= c /\ ascii c /\ c <> 10.
  Proof.
    intros c H. destruct (idc_ascii c (id0_idc c H)) as (Ha & H10). split; [|auto].
    unfold id0, ascii_letter in H. repeat (apply orb_true_iff in H; destruct H as [H|H]);
      try (apply andb_true_iff in H; destruct H); lia.
  Qed.

  Lemma tok_eq : forall ty l k o o' txt, o = o' ->
    {| t_typ := ty; t_pos := {| p_line := l; p_column := k; p_offset := o |}; t_txt := txt |}
    = {| t_typ := ty; t_pos := {| p_line := l; p_column := k; p_offset := o' |}; t_txt := txt |}.
  Proof. intros. subst. reflexivity. Qed.

  (** a pending whitespace character [w], then the identifier [c0 :: t], then [c] *)
  Lemma scan_ws_ident : forall w c0 t c r last pos l k ll ws,
    is_ws ws w = true -> ws_ok ws -> (length t + 2 < F)%nat -> 0 <= k ->
    id0 c0 = true -> Forall (fun a => idc a = true) t -> ascii c -> idc c = false ->
    sc_scan (mkS ((c0 :: t) ++ c :: r) last pos l k ll w ws)
    = SOk ({| t_typ := TIdent; t_pos := {| p_line := l; p_column := k + 1; p_offset := pos |}; t_txt := c0 :: t |},
           stepS c r (pos + 1 + blen t) l (k + 1 + blen t) ll c ws).
  Proof.
    intros w c0 t c r last pos l k ll ws Hw Hws HF Hk H0 Ht Hc Hnc. destruct (id0_ge c0 H0) as (H33 & Ha0 & H10).
    cbn [app]. rewrite sc_scan_skip1; try assumption; [|lia|apply ws_printable; assumption].
    rewrite stepS_plain by assumption. rewrite scan_body_ident; try assumption; try lia.
    f_equal. f_equal. apply tok_eq. lia.
  Qed.

  Lemma wf_digits_inv : forall ds, wf_digits ds ->
    exists d0 t, ds = d0 :: t /\ is_decimal d0 = true /\ Forall (fun a => is_decimal a = true) t /\ (d0 <> 48 \/ t = []).
  Proof. intros ds H. exact H. Qed.

  Lemma decimal_ge : forall d, is_decimal d = true -> 33 <= d /\ ascii d /\ d <> 10.
  Proof. intros d H. destruct (is_decimal_ascii d H) as (? & ? & _). unfold is_decimal in H. repeat split; try assumption; lia. Qed.

  Lemma scan_ws_uint : forall w d0 t c r last pos l k ll ws,
    is_ws ws w = true -> ws_ok ws -> (length t + 2 < F)%nat -> 0 <= k ->
    is_decimal d0 = true -> Forall (fun a => is_decimal a = true) t -> (d0 <> 48 \/ t = []) -> numterm c ->
    sc_scan (mkS ((d0 :: t) ++ c :: r) last pos l k ll w ws)
    = SOk ({| t_typ := TInt; t_pos := {| p_line := l; p_column := k + 1; p_offset := pos |}; t_txt := d0 :: t |},
           stepS c r (pos + 1 + blen t) l (k + 1 + blen t) ll c ws).
  Proof.
    intros w d0 t c r last pos l k ll ws Hw Hws HF Hk Hd Ht Hz Hc. destruct (decimal_ge d0 Hd) as (H33 & Ha0 & H10).
    cbn [app]. rewrite sc_scan_skip1; try assumption; [|lia|apply ws_printable; assumption].
    rewrite stepS_plain by assumption. rewrite scan_body_uint; try assumption; try lia.
    f_equal. f_equal. apply tok_eq. lia.
  Qed.

  Lemma tpos_pos : forall pos l k ll, 0 < k -> tpos pos l k ll = {| p_line := l; p_column := k; p_offset := pos - 1 |}.
  Proof. intros. unfold tpos. assert (E : (0 <? k) = true) by (apply Z.ltb_lt; lia). rewrite E. reflexivity. Qed.

  Lemma scan_ws_punct : forall w p c r last pos l k ll ws,
    is_ws ws w = true -> ws_ok ws -> (1 <= F)%nat -> 0 <= k -> punct p -> 33 <= p -> ascii c ->
    sc_scan (mkS (p :: c :: r) last pos l k ll w ws)
    = SOk ({| t_typ := p; t_pos := {| p_line := l; p_column := k + 1; p_offset := pos |}; t_txt := [p] |},
           stepS c r (pos + 1) l (k + 1) ll c ws).
  Proof.
    intros w p c r last pos l k ll ws Hw Hws HF Hk Hp H33 Hc. pose proof Hp as (Hpa & _).
    rewrite sc_scan_skip1; try assumption; [|apply ws_printable; assumption].
    rewrite stepS_plain by lia. rewrite scan_body_punct by assumption. rewrite tpos_pos by lia.
    f_equal. f_equal. apply tok_eq. lia.
  Qed.

  (** the pending character is the single-character token itself *)
  Lemma scan_direct_punct : forall p c r pos l k ll ws,
    is_ws ws p = false -> punct p -> ascii c ->
    sc_scan (mkS (c :: r) [p] pos l k ll p ws)
    = SOk ({| t_typ := p; t_pos := tpos pos l k ll; t_txt := [p] |}, stepS c r pos l k ll c ws).
  Proof.
    intros p c r pos l k ll ws Hw Hp Hc. pose proof Hp as (Hpa & _).
    rewrite sc_scan_direct; cbn [s_ch s_ws mkS]; [|unfold ascii, NOCHAR in *; lia|assumption].
    apply scan_body_punct; assumption.
  Qed.

  Lemma scan_direct_punct_eof : forall p pos l k ll ws,
    is_ws ws p = false -> punct p ->
    sc_scan (mkS [] [p] pos l k ll p ws)
    = SOk ({| t_typ := p; t_pos := tpos pos l k ll; t_txt := [p] |}, mkS [] [] pos l (k + 1) ll EOF ws).
  Proof.
    intros p pos l k ll ws Hw Hp. pose proof Hp as (Hpa & _).
    rewrite sc_scan_direct; cbn [s_ch s_ws mkS]; [|unfold ascii, NOCHAR in *; lia|assumption].
    apply scan_body_punct_eof; assumption.
  Qed.

  (** pending whitespace at the end of the input *)
  Lemma scan_ws_eof : forall w last pos l k ll ws, is_ws ws w = true -> (1 <= F)%nat ->
    exists tok s', sc_scan (mkS [] last pos l k ll w ws) = SOk (tok, s') /\ t_typ tok = EOF.
  Proof.
    intros w last pos l k ll ws Hw HF. rewrite sc_scan_unfold. unfold sc_peek. cbn [s_ch mkS].
    assert (E : (w =? NOCHAR) = false).
    { apply Z.eqb_neq. intros ->. unfold is_ws, NOCHAR in Hw. discriminate Hw. }
    rewrite E. cbn [sbind]. destruct F as [|f]; [lia|]. cbn [skip_ws]. cbn [s_ws mkS]. rewrite Hw.
    fold (mkS [] last pos l k ll w ws). rewrite next_eof. cbn [sbind].
    assert (He : forall ws', is_ws ws' EOF = false) by reflexivity.
    destruct f; cbn [skip_ws]; cbn [s_ws mkS]; rewrite He; cbn [sbind]; rewrite scan_body_eof; eexists; eexists; split; reflexivity.
  Qed.

  Lemma scan_pending_eof : forall pos l k ll ws,
    exists tok s', sc_scan (mkS [] [] pos l k ll EOF ws) = SOk (tok, s') /\ t_typ tok = EOF.
  Proof.
    intros. rewrite sc_scan_direct; cbn [s_ch s_ws mkS]; [|discriminate|reflexivity].
    rewrite scan_body_eof. eexists; eexists; split; reflexivity.
  Qed.

  (** ------------------------------------------------------------ runs of whitespace *)

  Lemma stepS_mk2 : forall c r pos l k ll x ws, 0 <= k ->
    exists k1 ll1, 0 <= k1 /\ (c = 10 -> k1 = 0) /\ (c <> 10 -> k1 = k + 1 /\ ll1 = ll)
                   /\ stepS c r pos l k ll x ws = mkS r [c] (pos + 1) (l + nlz c) k1 ll1 x ws.
  Proof.
    intros c r pos l k ll x ws Hk. unfold stepS, nlz. destruct (c =? 10) eqn:E.
    - apply Z.eqb_eq in E. subst c. exists 0, (k + 1). repeat split; try lia; reflexivity.
    - apply Z.eqb_neq in E. exists (k + 1), ll. rewrite Z.add_0_r. repeat split; try lia; reflexivity.
  Qed.

  Definition wsrun (ws : Z) (g : bytes) : Prop := Forall (fun a => ascii a /\ is_ws ws a = true) g.

  (** the whitespace loop over the pending whitespace character [w] and the run [g]; [c] is the first
      character that is no whitespace. The column before [c] is 0 when the run ends in a line end. *)
  Lemma skip_ws_run : forall g f w c r last pos l k ll x ws,
    (length g < f)%nat -> is_ws ws w = true -> wsrun ws g -> ascii c -> is_ws ws c = false -> 0 <= k ->
    exists k' ll',
      skip_ws f w (mkS (g ++ c :: r) last pos l k ll x ws)
      = SOk (c, stepS c r (pos + blen g) (l + nl_count g) k' ll' x ws)
      /\ 0 <= k' /\ (g = [] -> k' = k /\ ll' = ll) /\ (forall g', g = g' ++ [10] -> k' = 0).
  Proof.
    induction g as [|a t IH]; intros f w c r last pos l k ll x ws Hf Hw Hg Hc Hnw Hk; (destruct f as [|f]; [cbn in Hf; lia|]).
    - cbn [app skip_ws]. cbn [s_ws mkS]. rewrite Hw. fold (mkS (c :: r) last pos l k ll x ws).
      rewrite next_step by assumption. cbn [sbind]. exists k, ll. split.
      + destruct f; cbn [skip_ws]; rewrite stepS_ws, Hnw; rewrite blen_nil; cbn [nl_count]; rewrite !Z.add_0_r; reflexivity.
      + split; [assumption|]. split; [auto|]. intros g' E. destruct g'; discriminate E.
    - inversion Hg as [|? ? (Haa & Haw) Ht]; subst. cbn [app skip_ws]. cbn [s_ws mkS]. rewrite Hw.
      fold (mkS (a :: t ++ c :: r) last pos l k ll x ws). rewrite next_step by assumption. cbn [sbind].
      destruct (stepS_mk2 a (t ++ c :: r) pos l k ll x ws Hk) as (k1 & ll1 & Hk1 & Hlf & Hnlf & Est). rewrite Est.
      destruct (IH f a c r [a] (pos + 1) (l + nlz a) k1 ll1 x ws) as (k' & ll' & E & Hk' & H0 & Hend); try assumption; [cbn in Hf; lia|].
      exists k', ll'. split; [|split; [assumption|split]].
      + rewrite E. f_equal. f_equal. apply stepS_eq3; [rewrite blen_cons; lia|rewrite nl_count_cons; lia].
      + intros E'. discriminate E'.
      + intros g' E'. destruct g' as [|a' g''].
        * cbn [app] in E'. injection E' as -> ->. destruct (H0 eq_refl) as (-> & _). apply Hlf. reflexivity.
        * cbn [app] in E'. injection E' as -> ->. apply (Hend g''). reflexivity.
  Qed.

  (** the same run ending at the end of the input *)
  Lemma skip_ws_run_eof : forall g f w last pos l k ll x ws,
    (length g < f)%nat -> is_ws ws w = true -> wsrun ws g ->
    exists s', skip_ws f w (mkS g last pos l k ll x ws) = SOk (EOF, s') /\ s_rest s' = [] /\ s_last s' = [] /\ s_ws s' = ws.
  Proof.
    induction g as [|a t IH]; intros f w last pos l k ll x ws Hf Hw Hg; (destruct f as [|f]; [cbn in Hf; lia|]).
    - cbn [skip_ws]. cbn [s_ws mkS]. rewrite Hw. fold (mkS [] last pos l k ll x ws). rewrite next_eof. cbn [sbind].
      assert (He : forall ws', is_ws ws' EOF = false) by reflexivity.
      eexists. split; [destruct f; cbn [skip_ws]; cbn [s_ws mkS]; rewrite He; reflexivity|]. repeat split; reflexivity.
    - inversion Hg as [|? ? (Haa & Haw) Ht]; subst. cbn [skip_ws]. cbn [s_ws mkS]. rewrite Hw.
      fold (mkS (a :: t) last pos l k ll x ws). rewrite next_step by assumption. cbn [sbind].
      unfold stepS. destruct (a =? 10); apply IH; try assumption; cbn in Hf; lia.
  Qed.

  Lemma sc_scan_run : forall g w c r last pos l k ll ws,
    (length g + 1 <= F)%nat -> is_ws ws w = true -> wsrun ws g -> ascii c -> is_ws ws c = false -> 0 <= k ->
    exists k' ll',
      sc_scan (mkS (g ++ c :: r) last pos l k ll w ws)
      = scan_body c (stepS c r (pos + blen g) (l + nl_count g) k' ll' w ws)
      /\ 0 <= k' /\ (g = [] -> k' = k /\ ll' = ll) /\ (forall g', g = g' ++ [10] -> k' = 0).
  Proof.
    intros g w c r last pos l k ll ws HF Hw Hg Hc Hnw Hk. rewrite sc_scan_unfold. unfold sc_peek. cbn [s_ch mkS].
    assert (E : (w =? NOCHAR) = false).
    { apply Z.eqb_neq. intros ->. unfold is_ws, NOCHAR in Hw. discriminate Hw. }
    rewrite E. cbn [sbind].
    destruct (skip_ws_run g F w c r last pos l k ll w ws) as (k' & ll' & Es & H1 & H2 & H3); try assumption; [lia|].
    fold (mkS (g ++ c :: r) last pos l k ll w ws). rewrite Es. cbn [sbind]. exists k', ll'. repeat split; try assumption; apply H2; assumption.
  Qed.

  Lemma sc_scan_run_eof : forall g w last pos l k ll ws,
    (length g + 1 <= F)%nat -> is_ws ws w = true -> wsrun ws g ->
    exists tok s', sc_scan (mkS g last pos l k ll w ws) = SOk (tok, s') /\ t_typ tok = EOF.
  Proof.
    intros g w last pos l k ll ws HF Hw Hg. rewrite sc_scan_unfold. unfold sc_peek. cbn [s_ch mkS].
    assert (E : (w =? NOCHAR) = false).
    { apply Z.eqb_neq. intros ->. unfold is_ws, NOCHAR in Hw. discriminate Hw. }
    rewrite E. cbn [sbind].
    destruct (skip_ws_run_eof g F w last pos l k ll w ws) as (s' & Es & H1 & H2 & H3); try assumption; [lia|].
    fold (mkS g last pos l k ll w ws). rewrite Es. cbn [sbind].
    destruct s' as [rest' last' pos' line' col' ll' ch' ws']. cbn [s_rest s_last s_ws] in H1, H2, H3. subst.
    fold (mkS [] [] pos' line' col' ll' ch' ws). rewrite scan_body_eof. eexists; eexists; split; reflexivity.
  Qed.

  (** blank characters are whitespace in the default and in the tab-significant mode; the characters
      of [cr] in every mode *)
  Lemma blank_ascii : forall c, blank_char c -> ascii c.
  Proof. intros c [->|[->| ->]]; unfold ascii; lia. Qed.

  Lemma blank_wsrun : forall ws g, (ws = ws_default \/ ws = ws_sig_tab) -> Forall blank_char g -> wsrun ws g.
  Proof.
    intros ws g Hws Hg. unfold wsrun. induction Hg as [|c g Hc _ IH]; constructor; [|exact IH].
    split; [apply blank_ascii; exact Hc|]. destruct Hws as [-> | ->], Hc as [->|[->| ->]]; reflexivity.
  Qed.

  Lemma cr_facts : forall l, cr_ok l ->
    (forall ws, ws_ok ws -> wsrun ws l) /\ Forall blank_char l /\ nl_count l = 0 /\ Forall (fun c => c <> 10) l.
  Proof.
    intros l H. induction H as [|c g Hc _ (IH1 & IH2 & IH3 & IH4)].
    - repeat split; try constructor.
    - repeat split.
      + intros ws Hws. constructor; [|apply IH1; assumption].
        split; [destruct Hc as [-> | ->]; unfold ascii; lia|]. destruct Hws as [->|[-> | ->]], Hc as [-> | ->]; reflexivity.
      + constructor; [|exact IH2]. destruct Hc as [-> | ->]; [left|right; left]; reflexivity.
      + rewrite nl_count_cons, IH3. destruct Hc as [-> | ->]; reflexivity.
      + constructor; [|exact IH4]. destruct Hc as [-> | ->]; discriminate.
  Qed.

  Lemma cr_wsrun : forall ws, ws_ok ws -> wsrun ws cr.
  Proof. exact (proj1 (cr_facts cr Hcr)). Qed.

  Lemma cr_blank : Forall blank_char cr.
  Proof. exact (proj1 (proj2 (cr_facts cr Hcr))). Qed.

  Lemma cr_nl : nl_count cr = 0.
  Proof. exact (proj1 (proj2 (proj2 (cr_facts cr Hcr)))). Qed.

  (** a whitespace run, then the identifier [c0 :: t], then [c]; the identifier is in column 1 when
      the run ends in a line end *)
  Lemma scan_run_ident : forall g w c0 t c r last pos l k ll ws,
    is_ws ws w = true -> ws_ok ws -> wsrun ws g -> (length g + length t + 2 < F)%nat -> 0 <= k ->
    id0 c0 = true -> Forall (fun a => idc a = true) t -> ascii c -> idc c = false ->
    exists k' ll',
      sc_scan (mkS (g ++ (c0 :: t) ++ c :: r) last pos l k ll w ws)
      = SOk ({| t_typ := TIdent; t_pos := {| p_line := l + nl_count g; p_column := k' + 1; p_offset := pos + blen g |}; t_txt := c0 :: t |},
             stepS c r (pos + blen g + 1 + blen t) (l + nl_count g) (k' + 1 + blen t) ll' c ws)
      /\ 0 <= k' /\ (g = [] -> k' = k /\ ll' = ll) /\ (forall g', g = g' ++ [10] -> k' = 0).
  Proof.
    intros g w c0 t c r last pos l k ll ws Hw Hws Hg HF Hk H0 Ht Hc Hnc. destruct (id0_ge c0 H0) as (H33 & Ha0 & H10).
    cbn [app]. destruct (sc_scan_run g w c0 (t ++ c :: r) last pos l k ll ws) as (k' & ll' & E & H1 & H2 & H3);
      try assumption; [lia|apply ws_printable; assumption|].
    exists k', ll'. split; [|repeat split; try assumption; apply H2; assumption].
    rewrite E. rewrite stepS_plain by assumption. rewrite scan_body_ident; try assumption; try lia.
    f_equal. f_equal. apply tok_eq. lia.
  Qed.

  (** ------------------------------------------------------------ definition boundaries *)

  Definition kwtok (line off : Z) (kw : bytes) : token :=
    {| t_typ := TIdent; t_pos := {| p_line := line; p_column := 1; p_offset := off |}; t_txt := kw |}.

  (** the parser has just peeked the keyword [kw] of a definition that starts at (line, 1, off);
      [c] is the character after the keyword *)
  Definition canon (line off : Z) (kw : bytes) (c : Z) (r : bytes) (ll : Z) : pstate :=
    PS (stepS c r (off + blen kw) line (blen kw) ll c ws_default) (Some (kwtok line off kw)).

  Definition is_ident (kw : bytes) : Prop :=
    exists c0 t, kw = c0 :: t /\ id0 c0 = true /\ Forall (fun a => idc a = true) t.

  (** characters that the scanner may have to skip before it reaches the next line: at most the line
      end of the current line *)
  Definition SL : nat := S (length cr).

  (** [st] is at a definition boundary and the next definition starts right at [rest]: peeking yields
      EOF if nothing follows, and otherwise the keyword token at (line, 1, off); [n] bounds the
      whitespace still to be skipped (fuel bookkeeping only) *)
  Definition Ready0 (n : nat) (line off : Z) (rest : bytes) (st : pstate) : Prop :=
    (rest = [] -> (n + 1 <= F)%nat -> exists tok st', peek_token st = POk tok st' /\ t_typ tok = EOF) /\
    (forall kw c r, rest = kw ++ c :: r -> is_ident kw -> ascii c -> idc c = false -> (n + length kw + 2 < F)%nat ->
       exists ll, peek_token st = POk (kwtok line off kw) (canon line off kw c r ll)).

  (** [st] is at a definition boundary before the text [X], which may begin with blank lines; [n]
      bounds the whitespace the scanner still has to skip before [X] (fuel bookkeeping only) *)
  Definition Ready (n : nat) (line off : Z) (X : bytes) (st : pstate) : Prop :=
    forall g rest, X = g ++ rest -> blank_block g ->
      Ready0 (n + length g) (line + nl_count g) (off + blen g) rest st.

  Lemma ready0_mono : forall n m line off rest st, (n <= m)%nat -> Ready0 n line off rest st -> Ready0 m line off rest st.
  Proof.
    intros n m line off rest st Hnm (H1 & H2). split.
    - intros E Hf. apply H1; [exact E|lia].
    - intros kw c r E Hk Hc Hnc Hf. apply H2; try assumption. lia.
  Qed.

  Lemma ready_mono : forall n m line off X st, (n <= m)%nat -> Ready n line off X st -> Ready m line off X st.
  Proof. intros n m line off X st Hnm H g rest E Hg. eapply ready0_mono; [|apply H; eassumption]. lia. Qed.

  Lemma stepS_eq : forall c r pos pos' l k k' ll x ws, pos = pos' -> k = k' ->
    stepS c r pos l k ll x ws = stepS c r pos' l k' ll x ws.
  Proof. intros. subst. reflexivity. Qed.

  Lemma stepS_eq4 : forall c r pos pos' l l' k k' ll x ws, pos = pos' -> l = l' -> k = k' ->
    stepS c r pos l k ll x ws = stepS c r pos' l' k' ll x ws.
  Proof. intros. subst. reflexivity. Qed.

  Lemma POk_canon_eq : forall tok s line off kw c r ll,
    tok = kwtok line off kw -> s = stepS c r (off + blen kw) line (blen kw) ll c ws_default ->
    @POk token tok (PS s (Some tok)) = POk (kwtok line off kw) (canon line off kw c r ll).
  Proof. intros. subst. reflexivity. Qed.

  (** the core: a pending blank character [w] and a run [g] of blank characters such that [w :: g]
      ends in a line end *)
  Lemma ready_core : forall n w g rest last P l k ll,
    blank_char w -> Forall blank_char g -> (exists g', w :: g = g' ++ [10]) -> 0 <= k -> (w = 10 -> k = 0) -> (length g <= n)%nat ->
    Ready0 n (l + nl_count g) (P + blen g) rest (PS (mkS (g ++ rest) last P l k ll w ws_default) None).
  Proof.
    intros n w g rest last P l k ll Hw Hg Hend Hk Hk0 Hn.
    assert (Hww : is_ws ws_default w = true) by (destruct Hw as [->|[->| ->]]; reflexivity).
    assert (Hgw : wsrun ws_default g) by (apply blank_wsrun; [left; reflexivity|assumption]).
    split.
    - intros -> HF. rewrite app_nil_r. rewrite peek_token_scan.
      destruct (sc_scan_run_eof g w last P l k ll ws_default) as (tok & s' & E & Ht); try assumption; [lia|].
      rewrite E. eexists; eexists; split; [reflexivity|exact Ht].
    - intros kw c r -> (c0 & t & -> & H0 & Ht) Hc Hnc HF. rewrite peek_token_scan.
      destruct (scan_run_ident g w c0 t c r last P l k ll ws_default) as (k' & ll' & E & Hk' & Hnil & Hlf);
        try assumption; [left; reflexivity|cbn [length] in HF; lia|].
      rewrite E. exists ll'.
      assert (Ek : k' = 0).
      { destruct Hend as (g' & Eg). destruct g as [|a g0].
        - destruct g' as [|b g']; [|destruct g'; discriminate Eg]. cbn in Eg. injection Eg as ->.
          destruct (Hnil eq_refl) as (-> & _). apply Hk0. reflexivity.
        - destruct g' as [|b g']; [destruct g0; discriminate Eg|]. cbn [app] in Eg. injection Eg as _ Eg.
          apply (Hlf g'). exact Eg. }
      subst k'. apply POk_canon_eq; [unfold kwtok; apply tok_eq; lia | apply stepS_eq4; rewrite ?blen_cons; lia].
  Qed.

  (** shape A: a blank character is pending, the run [g1] follows, and together they end in a line end *)
  Lemma ready_run : forall n w g1 X last P l k ll,
    blank_char w -> Forall blank_char g1 -> (exists g', w :: g1 = g' ++ [10]) -> 0 <= k -> (w = 10 -> k = 0) ->
    (length g1 <= n)%nat ->
    Ready n (l + nl_count g1) (P + blen g1) X (PS (mkS (g1 ++ X) last P l k ll w ws_default) None).
  Proof.
    intros n w g1 X last P l k ll Hw Hg1 Hend Hk Hk0 Hl g rest -> (Hg & Hge).
    replace (l + nl_count g1 + nl_count g) with (l + nl_count (g1 ++ g)) by (rewrite nl_count_app; lia).
    replace (P + blen g1 + blen g) with (P + blen (g1 ++ g)) by (rewrite blen_app; lia).
    rewrite app_assoc. apply ready_core; try assumption.
    - apply Forall_app. split; assumption.
    - destruct Hge as [->|(g' & ->)]; [rewrite app_nil_r; exact Hend|]. exists (w :: g1 ++ g'). cbn [app]. rewrite <- app_assoc. reflexivity.
    - rewrite app_length. lia.
  Qed.

  Lemma ready_A : forall n rest last P line K,
    Ready n line P rest (PS (mkS rest last P line 0 K 10 ws_default) None).
  Proof.
    intros n rest last P line K.
    pose proof (ready_run n 10 [] rest last P line 0 K) as H. cbn [app nl_count] in H. rewrite blen_nil, !Z.add_0_r in H.
    apply H; try lia; [right; right; reflexivity|apply Forall_nil|exists []; reflexivity|cbn [length]; lia].
  Qed.

  Lemma list_case : forall (l : bytes), l = [] \/ exists a l', l = a :: l'.
  Proof. intros [|a l']; [left; reflexivity|right; exists a, l'; reflexivity]. Qed.

  (** the end of a line: the first character of [cr ++ LF] is pending (it follows the last token) *)
  Lemma ready_eol : forall rest c r P l k ll, c :: r = cr ++ 10 :: rest -> 0 <= k ->
    Ready SL (l + 1) (P + blen cr + 1) rest (PS (stepS c r P l k ll c ws_default) None).
  Proof.
    intros rest c r P l k ll E Hk. destruct (list_case cr) as [Ecr|(a & cr' & Ecr)]; rewrite Ecr in E |- *.
    - cbn [app] in E. injection E as -> ->. unfold stepS. change (10 =? 10) with true. cbv iota.
      rewrite blen_nil, Z.add_0_r. apply ready_A.
    - cbn [app] in E. injection E as -> ->.
      assert (Ha : a = 32 \/ a = 13) by (pose proof Hcr as H; rewrite Ecr in H; inversion H; assumption).
      assert (Hb : Forall blank_char cr') by (pose proof cr_blank as H; rewrite Ecr in H; inversion H; assumption).
      assert (Hn : nl_count cr' = 0) by (pose proof cr_nl as H; rewrite Ecr, nl_count_cons in H; destruct Ha as [-> | ->]; exact H).
      rewrite stepS_plain by (destruct Ha as [-> | ->]; discriminate).
      pose proof (ready_run SL a (cr' ++ [10]) rest [a] (P + 1) l (k + 1) ll) as H.
      rewrite <- app_assoc in H. cbn [app] in H.
      replace (l + 1) with (l + nl_count (cr' ++ [10])) by (rewrite nl_count_app, Hn; reflexivity).
      replace (P + blen (a :: cr') + 1) with (P + 1 + blen (cr' ++ [10])) by (rewrite blen_app, !blen_cons, blen_nil; lia).
      apply H.
      + destruct Ha as [-> | ->]; [left|right; left]; reflexivity.
      + apply Forall_app. split; [assumption|constructor; [right; right; reflexivity|constructor]].
      + exists (a :: cr'). reflexivity.
      + lia.
      + destruct Ha as [-> | ->]; discriminate.
      + unfold SL. rewrite Ecr, app_length. cbn [length]. lia.
  Qed.

  (** shape B: the first character of the next line (or EOF) is the pending character *)
  Definition shapeB (line P K : Z) (rest : bytes) : sstate :=
    match rest with
    | [] => mkS [] [] P line 1 K EOF ws_default
    | c0 :: r' => stepS c0 r' P line 0 K c0 ws_default
    end.

  Lemma ready_B : forall n X P line K, Ready n line P X (PS (shapeB line P K X) None).
  Proof.
    intros n X P line K g rest -> (Hg & Hge). destruct g as [|a g0].
    - cbn [app nl_count length]. rewrite blen_nil, !Z.add_0_r, Nat.add_0_r. split.
      + intros -> _. rewrite peek_token_scan. cbn [shapeB].
        destruct (scan_pending_eof P line 1 K ws_default) as (tok & s' & E & Ht). rewrite E.
        eexists; eexists; split; [reflexivity|exact Ht].
      + intros kw c r -> (c0 & t & -> & H0 & Ht) Hc Hnc Hf. exists K. rewrite peek_token_scan. cbn [shapeB app].
        destruct (id0_ge c0 H0) as (H33 & Ha0 & H10). rewrite stepS_plain by assumption.
        rewrite sc_scan_direct; cbn [s_ch s_ws mkS]; [|unfold ascii, NOCHAR in *; lia|apply ws_printable; [left; reflexivity|assumption]].
        rewrite scan_body_ident; try assumption; try lia; [|cbn [length] in Hf; lia].
        apply POk_canon_eq; [unfold kwtok; apply tok_eq; lia | apply stepS_eq; rewrite blen_cons; lia].
    - inversion Hg as [|? ? Ha Hg0]; subst. cbn [app shapeB].
      replace (line + nl_count (a :: g0)) with (line + nlz a + nl_count g0) by (rewrite nl_count_cons; lia).
      replace (P + blen (a :: g0)) with (P + 1 + blen g0) by (rewrite blen_cons; lia).
      destruct Hge as [E|(g' & E)]; [discriminate E|].
      destruct (stepS_mk2 a (g0 ++ rest) P line 0 K a ws_default ltac:(lia)) as (k1 & ll1 & Hk1 & Hlf & _ & Est). rewrite Est.
      apply ready_core; try assumption; [exists g'; exact E|cbn [length]; lia].
  Qed.

  Lemma peek_token_idem : forall st t st', peek_token st = POk t st' -> peek_token st' = POk t st'.
  Proof.
    intros st t st' H. unfold Parser.peek_token in *. destruct (p_look st) as [t0|] eqn:El.
    - injection H as <- <-. rewrite El. reflexivity.
    - destruct (scan il id F (p_sc st)) as [[t1 s1]|p k|]; try discriminate. injection H as <- <-. reflexivity.
  Qed.

  Lemma ready0_after_peek : forall n line off rest st t st', Ready0 n line off rest st -> peek_token st = POk t st' ->
    Ready0 n line off rest st'.
  Proof.
    intros n line off rest st t st' (H1 & H2) Hp. pose proof (peek_token_idem _ _ _ Hp) as Hi. split.
    - intros Hr Hf. destruct (H1 Hr Hf) as (tok & st0 & E & Ht). rewrite Hp in E. injection E as <- <-.
      eexists; eexists; split; [exact Hi|exact Ht].
    - intros kw c r Hr Hk Hc Hnc Hf. destruct (H2 kw c r Hr Hk Hc Hnc Hf) as (ll & E). exists ll.
      rewrite Hp in E. injection E as <- <-. exact Hi.
  Qed.

  Lemma ready_after_peek : forall n line off rest st t st', Ready n line off rest st -> peek_token st = POk t st' ->
    Ready n line off rest st'.
  Proof. intros n line off X st t st' HR Hp g rest E Hg. eapply ready0_after_peek; [apply HR; assumption|exact Hp]. Qed.

  (** no blank lines: the definition starts right here *)
  Lemma blank_nil : blank_block [].
  Proof. split; [constructor|left; reflexivity]. Qed.

  Lemma ready_here : forall n line off X st, Ready n line off X st -> Ready0 n line off X st.
  Proof.
    intros n line off X st HR. pose proof (HR [] X eq_refl blank_nil) as H. cbn [nl_count length] in H.
    rewrite blen_nil, !Z.add_0_r, Nat.add_0_r in H. exact H.
  Qed.

  Lemma p_keyword_canon : forall kw sc line off,
    p_keyword il id F kw (PS sc (Some (kwtok line off kw))) = POk (kwtok line off kw) (PS sc None).
  Proof.
    intros. unfold p_keyword, peek_keyword, bind. rewrite peek_token_look. cbn [t_typ kwtok negb].
    change (TIdent =? TIdent) with true. cbn [negb]. unfold ret. cbn [t_txt]. rewrite bytes_eqb_refl. cbn [negb].
    apply next_token_look.
  Qed.

  Lemma peek_keyword_canon : forall line off kw c r ll,
    peek_keyword il id F (canon line off kw c r ll) = POk kw (canon line off kw c r ll).
  Proof. intros. unfold peek_keyword, bind, canon. rewrite peek_token_look. reflexivity. Qed.

  (** ------------------------------------------------------------ VERSION *)

  Lemma snoc_cons : forall (s : bytes) x, exists a q, s ++ [x] = a :: q.
  Proof. intros. destruct s; cbn; eauto. Qed.

  (** the first character of a line end *)
  Lemma eol_head : forall rest, exists c r, cr ++ 10 :: rest = c :: r /\ blank_char c.
  Proof.
    intros rest. destruct (list_case cr) as [E|(a & l' & E)]; rewrite E.
    - exists 10, rest. split; [reflexivity|right; right; reflexivity].
    - exists a, (l' ++ 10 :: rest). split; [reflexivity|]. pose proof cr_blank as H. rewrite E in H. inversion H. assumption.
  Qed.

  Lemma blank_numterm : forall c, blank_char c -> numterm c.
  Proof. intros c [->|[->| ->]]; repeat split; try reflexivity; try discriminate; unfold ascii; lia. Qed.

  Lemma blank_not_idc : forall c, blank_char c -> idc c = false.
  Proof. intros c [->|[->| ->]]; reflexivity. Qed.

  Lemma step_version : forall s rest line off ll, str_ok s -> (length s + 12 < F)%nat ->
    exists st', parse_version il id F (canon line off kw_version 32 (34 :: s ++ 34 :: cr ++ 10 :: rest) ll)
                = POk (DVersion {| p_line := line; p_column := 1; p_offset := off |} s) st'
                /\ Ready SL (line + 1) (off + blen (print_def cr (SVersion s))) rest st'.
  Proof.
    intros s rest line off ll Hs HF. unfold parse_version, bind, canon.
    rewrite p_keyword_canon. unfold p_string, bind. rewrite next_token_scan.
    rewrite stepS_plain by discriminate.
    destruct (snoc_cons s 34) as (a & q & Eq).
    assert (Ha : ascii a /\ a <> 10) by (apply (str_head s a q); [assumption|symmetry; exact Eq]).
    destruct Ha as (Haa & Ha10).
    destruct (eol_head rest) as (c2 & r2 & E2 & Hc2). rewrite E2.
    replace (34 :: s ++ 34 :: c2 :: r2) with (34 :: a :: q ++ c2 :: r2)
      by (change (s ++ 34 :: c2 :: r2) with (s ++ [34] ++ c2 :: r2); rewrite app_assoc, Eq; reflexivity).
    rewrite (scan_ws_punct 32); try reflexivity; try assumption; try lia;
      [|left; reflexivity|unfold blen, kw_version; cbn; lia|repeat split; try reflexivity; unfold ascii; lia].
    cbn [t_typ t_pos]. change (34 =? c_quote) with true. cbn [negb].
    rewrite stepS_plain by assumption.
    rewrite (string_loop_plain F s a q c2 r2); try assumption; try lia; [|symmetry; exact Eq|apply blank_ascii; assumption].
    unfold ret. cbn [rev app kwtok t_pos]. eexists. split; [reflexivity|].
    replace (off + blen (print_def cr (SVersion s))) with (off + blen kw_version + 1 + 1 + 1 + blen s + blen cr + 1).
    - apply ready_eol; [symmetry; exact E2|unfold blen, kw_version; cbn [length]; lia].
    - cbn [print_def]. rewrite blen_app, !blen_cons, blen_app, !blen_cons, blen_app, blen_cons, blen_nil. lia.
  Qed.

  (** ------------------------------------------------------------ BS_ *)

  (** what follows a definition: blank lines, then nothing or a keyword line *)
  Definition rest_ok0 (n : nat) (rest : bytes) : Prop :=
    (rest = [] /\ (n + 1 <= F)%nat) \/
    exists kw c r, rest = kw ++ c :: r /\ is_ident kw /\ ascii c /\ idc c = false /\ (n + length kw + 2 < F)%nat.

  Definition rest_ok (X : bytes) : Prop :=
    exists g rest, X = g ++ rest /\ blank_block g /\ rest_ok0 (SL + length g) rest.

  Lemma ready_peek : forall line off X st, Ready SL line off X st -> rest_ok X ->
    exists tok st', peek_token st = POk tok st' /\ (t_typ tok = EOF \/ t_typ tok = TIdent) /\ Ready SL line off X st'.
  Proof.
    intros line off X st HR (g & rest & -> & Hg & Hok). pose proof (HR g rest eq_refl Hg) as (H1 & H2).
    destruct Hok as [(-> & Hf)|(kw & c & r & -> & Hk & Hc & Hnc & Hf)].
    - destruct (H1 eq_refl Hf) as (tok & st' & E & Ht). exists tok, st'. split; [exact E|]. split; [left; exact Ht|].
      eapply ready_after_peek; eassumption.
    - destruct (H2 kw c r eq_refl Hk Hc Hnc Hf) as (ll & E). eexists; eexists. split; [exact E|]. split; [right; reflexivity|].
      eapply ready_after_peek; eassumption.
  Qed.

  Lemma fold_uint_ge : forall s acc, 0 <= acc -> Forall (fun a => is_decimal a = true) s ->
    acc <= fold_left (fun a c => a * 10 + (c - 48)) s acc.
  Proof.
    induction s as [|c s IH]; intros acc Ha Hs; cbn [fold_left]; [lia|].
    inversion Hs as [|? ? Hc Hs']; subst. unfold is_decimal in Hc. apply andb_true_iff in Hc. destruct Hc.
    specialize (IH (acc * 10 + (c - 48))). assert (0 <= acc * 10 + (c - 48)) by lia. specialize (IH H1 Hs'). lia.
  Qed.

  Lemma uint_loop_value : forall s acc, 0 <= acc -> Forall (fun a => is_decimal a = true) s ->
    fold_left (fun a c => a * 10 + (c - 48)) s acc < 2 ^ 64 ->
    uint_loop s acc = Some (fold_left (fun a c => a * 10 + (c - 48)) s acc).
  Proof.
    induction s as [|c s IH]; intros acc Ha Hs Hlt; cbn [fold_left uint_loop]; [reflexivity|].
    inversion Hs as [|? ? Hc Hs']; subst. unfold dig. fold (is_decimal c). rewrite Hc.
    pose proof Hc as Hc'. unfold is_decimal in Hc'. apply andb_true_iff in Hc'. destruct Hc'.
    assert (H0' : 0 <= acc * 10 + (c - 48)) by lia.
    pose proof (fold_uint_ge s _ H0' Hs') as Hge. cbn [fold_left] in Hlt.
    assert (E : (two64 <=? acc * 10 + (c - 48)) = false) by (apply Z.leb_gt; unfold two64; lia).
    rewrite E. apply IH; assumption.
  Qed.

  Lemma parse_uint_value : forall b, wf_uint b -> parse_uint b = Some (uint_value b).
  Proof.
    intros b ((d0 & t & -> & Hd & Ht & _) & Hlt). unfold parse_uint, uint_value.
    apply uint_loop_value; [lia | constructor; assumption | exact Hlt].
  Qed.

  Lemma typ_flags : forall tok, (t_typ tok = EOF \/ t_typ tok = TIdent) ->
    (t_typ tok =? TInt) = false /\ (t_typ tok =? c_colon) = false /\ (t_typ tok =? c_comma) = false.
  Proof. intros tok [H|H]; rewrite H; repeat split; reflexivity. Qed.

  Lemma punct_colon : punct 58. Proof. repeat split; try reflexivity; unfold ascii; lia. Qed.
  Lemma punct_comma : punct 44. Proof. repeat split; try reflexivity; unfold ascii; lia. Qed.
  Lemma punct_lf : punct 10. Proof. repeat split; try reflexivity; unfold ascii; lia. Qed.
  Lemma numterm_sp : numterm 32. Proof. repeat split; try reflexivity; try discriminate; unfold ascii; lia. Qed.
  Lemma numterm_lf : numterm 10. Proof. repeat split; try reflexivity; try discriminate; unfold ascii; lia. Qed.

  (** optionalUint on a pending whitespace character followed by a decimal literal and [c] *)
  Lemma optional_uint_ws : forall w b c r last pos l k ll ws,
    is_ws ws w = true -> ws_ok ws -> wf_uint b -> numterm c -> (length b + 2 < F)%nat -> 0 <= k ->
    optional_uint il id F (PS (mkS (b ++ c :: r) last pos l k ll w ws) None)
    = POk (uint_value b) (PS (stepS c r (pos + blen b) l (k + blen b) ll c ws) None).
  Proof.
    intros w b c r last pos l k ll ws Hw Hws Hb Hc HF Hk. pose proof (parse_uint_value b Hb) as Hv.
    destruct Hb as ((d0 & t & -> & Hd & Ht & Hz) & _).
    unfold optional_uint, bind. rewrite peek_token_scan.
    rewrite (scan_ws_uint w); try assumption; [|cbn [length] in HF; lia].
    cbn [t_typ]. change (TInt =? TInt) with true. cbn [negb]. rewrite next_token_look. cbn [t_txt].
    rewrite Hv. unfold ret. f_equal. f_equal. apply stepS_eq; rewrite blen_cons; lia.
  Qed.

  (** "if p.peekToken().typ == p { p.token(p) ... }" on a pending whitespace character followed by [p] *)
  Lemma peek_ws_punct : forall w p c r last pos l k ll ws,
    is_ws ws w = true -> ws_ok ws -> (1 <= F)%nat -> 0 <= k -> punct p -> 33 <= p -> ascii c ->
    exists tok, peek_token (PS (mkS (p :: c :: r) last pos l k ll w ws) None)
                = POk tok (PS (stepS c r (pos + 1) l (k + 1) ll c ws) (Some tok)) /\ t_typ tok = p.
  Proof.
    intros. rewrite peek_token_scan. rewrite (scan_ws_punct w) by assumption. eexists. split; reflexivity.
  Qed.

  Lemma p_token_look : forall s tok p, t_typ tok = p -> p_token il id F p (PS s (Some tok)) = POk tt (PS s None).
  Proof. intros s tok p <-. unfold p_token, bind. rewrite next_token_look. rewrite Z.eqb_refl. reflexivity. Qed.

  Lemma wf_uint_len : forall b, wf_uint b -> (1 <= length b)%nat.
  Proof. intros b ((d0 & t & -> & _) & _). cbn. lia. Qed.

  (** BS_: alone on its line *)
  Lemma step_bit_timing_0 : forall rest line off ll, rest_ok rest -> (1 <= F)%nat ->
    exists st', parse_bit_timing il id F (canon line off kw_bit_timing 58 (cr ++ 10 :: rest) ll)
                = POk (DBitTiming {| p_line := line; p_column := 1; p_offset := off |} 0 0 0) st'
                /\ Ready SL (line + 1) (off + blen (print_def cr (SBitTiming None))) rest st'.
  Proof.
    intros rest line off ll Hok HF. unfold parse_bit_timing, bind, canon.
    rewrite p_keyword_canon. unfold p_token, bind. rewrite next_token_scan.
    rewrite stepS_plain by discriminate.
    destruct (eol_head rest) as (c2 & r2 & E2 & Hc2). rewrite E2.
    rewrite scan_direct_punct; [|reflexivity|exact punct_colon|apply blank_ascii; assumption].
    cbn [t_typ negb]. change (58 =? c_colon) with true. cbn [negb]. unfold ret.
    pose proof (ready_eol rest c2 r2 (off + blen kw_bit_timing + 1) line (blen kw_bit_timing + 1) ll (eq_sym E2)
                  ltac:(unfold blen, kw_bit_timing; cbn; lia)) as HR.
    destruct (ready_peek _ _ _ _ HR Hok) as (tok & st' & Ep & Hty & HR').
    destruct (typ_flags tok Hty) as (E1 & E2' & E3).
    pose proof (peek_token_idem _ _ _ Ep) as Ei.
    unfold optional_uint, bind. rewrite Ep. rewrite E1. cbn [negb]. unfold ret.
    rewrite Ei, E2'. rewrite Ei, E3. cbn [kwtok t_pos].
    eexists. split; [reflexivity|].
    replace (off + blen (print_def cr (SBitTiming None))) with (off + blen kw_bit_timing + 1 + blen cr + 1); [exact HR'|].
    cbn [print_def]. rewrite blen_app, !blen_cons, blen_app, blen_cons, blen_nil. lia.
  Qed.

  (** the state after the keyword and the colon of "BS_:" *)
  Lemma bit_timing_prefix : forall c r line off ll, ascii c ->
    (plet kw <- p_keyword il id F kw_bit_timing; p_token il id F c_colon ;; ret kw)
      (canon line off kw_bit_timing 58 (c :: r) ll)
    = POk (kwtok line off kw_bit_timing) (PS (stepS c r (off + blen kw_bit_timing + 1) line (blen kw_bit_timing + 1) ll c ws_default) None).
  Proof.
    intros c r line off ll Hc. unfold bind, canon. rewrite p_keyword_canon. unfold p_token, bind. rewrite next_token_scan.
    rewrite stepS_plain by discriminate.
    rewrite scan_direct_punct; [|reflexivity|exact punct_colon|assumption].
    cbn [t_typ negb]. change (58 =? c_colon) with true. cbn [negb]. reflexivity.
  Qed.

  (** BS_: <baud> *)
  Lemma step_bit_timing_1 : forall b rest line off ll, wf_uint b -> rest_ok rest -> (length b + 8 < F)%nat ->
    exists st', parse_bit_timing il id F (canon line off kw_bit_timing 58 (32 :: b ++ cr ++ 10 :: rest) ll)
                = POk (DBitTiming {| p_line := line; p_column := 1; p_offset := off |} (uint_value b) 0 0) st'
                /\ Ready SL (line + 1) (off + blen (print_def cr (SBitTiming (Some (b, None))))) rest st'.
  Proof.
    intros b rest line off ll Hb Hok HF. unfold parse_bit_timing, bind, canon.
    rewrite p_keyword_canon. unfold p_token at 1. unfold bind. rewrite next_token_scan.
    rewrite stepS_plain by discriminate.
    rewrite scan_direct_punct; [|reflexivity|exact punct_colon|unfold ascii; lia].
    cbn [t_typ negb]. change (58 =? c_colon) with true. cbn [negb]. unfold ret at 1.
    rewrite stepS_plain by discriminate.
    destruct (eol_head rest) as (c2 & r2 & E2 & Hc2). rewrite E2. pose proof (blen_nonneg b) as Hnb.
    rewrite (optional_uint_ws 32); try assumption; try reflexivity; [|left; reflexivity|apply blank_numterm; assumption|lia|unfold blen, kw_bit_timing; cbn; lia].
    match goal with |- context [PS (stepS c2 r2 ?P ?L ?K ?LL c2 ws_default) None] =>
      pose proof (ready_eol rest c2 r2 P L K LL (eq_sym E2) ltac:(unfold blen, kw_bit_timing in *; cbn [length] in *; lia)) as HR end.
    destruct (ready_peek _ _ _ _ HR Hok) as (tok & st' & Ep & Hty & HR').
    destruct (typ_flags tok Hty) as (E1 & E2' & E3).
    pose proof (peek_token_idem _ _ _ Ep) as Ei.
    rewrite Ep, E2'. unfold ret at 1. rewrite Ei, E3. unfold ret. cbn [kwtok t_pos].
    eexists. split; [reflexivity|].
    match goal with |- Ready _ _ ?X _ _ => replace X with (off + blen kw_bit_timing + 1 + 1 + blen b + blen cr + 1) end; [exact HR'|].
    cbn [print_def]. rewrite blen_app, !blen_cons, blen_app, blen_app, !blen_cons, blen_nil. lia.
  Qed.

  (** BS_: <baud> : <btr1> , <btr2> *)
  Lemma step_bit_timing_2 : forall b b1 b2 rest line off ll, wf_uint b -> wf_uint b1 -> wf_uint b2 -> rest_ok rest ->
    (length b + length b1 + length b2 + 12 < F)%nat ->
    exists st', parse_bit_timing il id F
                  (canon line off kw_bit_timing 58 (32 :: b ++ 32 :: 58 :: 32 :: b1 ++ 32 :: 44 :: 32 :: b2 ++ cr ++ 10 :: rest) ll)
                = POk (DBitTiming {| p_line := line; p_column := 1; p_offset := off |} (uint_value b) (uint_value b1) (uint_value b2)) st'
                /\ Ready SL (line + 1) (off + blen (print_def cr (SBitTiming (Some (b, Some (b1, b2)))))) rest st'.
  Proof.
    intros b b1 b2 rest line off ll Hb Hb1 Hb2 Hok HF. unfold parse_bit_timing, bind, canon.
    rewrite p_keyword_canon. unfold p_token at 1. unfold bind. rewrite next_token_scan.
    rewrite stepS_plain by discriminate.
    rewrite scan_direct_punct; [|reflexivity|exact punct_colon|unfold ascii; lia].
    cbn [t_typ negb]. change (58 =? c_colon) with true. cbn [negb]. unfold ret at 1.
    rewrite stepS_plain by discriminate.
    assert (Hk0 : 0 <= blen kw_bit_timing + 1 + 1) by (unfold blen, kw_bit_timing; cbn; lia).
    pose proof (blen_nonneg b) as Hnb. pose proof (blen_nonneg b1) as Hnb1. pose proof (blen_nonneg b2) as Hnb2.
    destruct (eol_head rest) as (c2 & r2 & E2 & Hc2). rewrite E2.
    rewrite (optional_uint_ws 32); try assumption; try reflexivity; [|left; reflexivity|exact numterm_sp|lia].
    rewrite stepS_plain by discriminate.
    (* " : " *)
    destruct (peek_ws_punct 32 58 32 (b1 ++ 32 :: 44 :: 32 :: b2 ++ c2 :: r2) [32]
                (off + blen kw_bit_timing + 1 + 1 + blen b + 1) line (blen kw_bit_timing + 1 + 1 + blen b + 1) ll ws_default)
      as (tk1 & Ep1 & Ety1); try reflexivity; try lia; [left; reflexivity|exact punct_colon|unfold ascii; lia|].
    rewrite Ep1, Ety1. change (58 =? c_colon) with true. cbv beta iota.
    rewrite (p_token_look _ tk1 c_colon Ety1).
    rewrite stepS_plain by discriminate.
    rewrite (optional_uint_ws 32); try assumption; try reflexivity; [|left; reflexivity|exact numterm_sp|lia|lia].
    rewrite stepS_plain by discriminate.
    (* " , " *)
    match goal with |- context [peek_token (PS (mkS (44 :: 32 :: ?R) ?LAST ?P ?L ?K ?LL 32 ws_default) None)] =>
      destruct (peek_ws_punct 32 44 32 R LAST P L K LL ws_default) as (tk2 & Ep2 & Ety2);
        try reflexivity; try lia; [left; reflexivity|exact punct_comma|unfold ascii; lia|] end.
    rewrite Ep2, Ety2. change (44 =? c_comma) with true. cbv beta iota.
    rewrite (p_token_look _ tk2 c_comma Ety2).
    rewrite stepS_plain by discriminate.
    rewrite (optional_uint_ws 32); try assumption; try reflexivity; [|left; reflexivity|apply blank_numterm; assumption|lia|lia].
    unfold ret. cbn [kwtok t_pos]. eexists. split; [reflexivity|].
    match goal with |- Ready _ _ ?X _ (PS (stepS _ _ ?P _ _ _ _ _) _) => replace X with (P + blen cr + 1) end;
      [apply ready_eol; [symmetry; exact E2|lia]|].
    cbn [print_def].
    rewrite blen_app, !blen_cons, blen_app, !blen_cons, blen_app, !blen_cons, blen_app, blen_app, !blen_cons, blen_nil. lia.
  Qed.

  (** ------------------------------------------------------------ BU_ *)

  Lemma forallb_Forall : forall (f : Z -> bool) l, forallb f l = true -> Forall (fun a => f a = true) l.
  Proof.
    induction l as [|x l IH]; cbn [forallb]; intros H; constructor; apply andb_true_iff in H; destruct H; auto.
  Qed.

  Lemma ident_valid_shape : forall n, ident_valid n = true -> is_ident n.
  Proof.
    intros n H. destruct n as [|c0 t]; [discriminate|]. cbn [ident_valid] in H.
    apply andb_true_iff in H. destruct H as (H & Ht). apply andb_true_iff in H. destruct H as (_ & H0).
    exists c0, t. split; [reflexivity|]. split; [exact H0|]. apply (forallb_Forall ident_char). exact Ht.
  Qed.

  Lemma set_ws_stepS : forall c r pos l k ll x ws ws', set_ws (stepS c r pos l k ll x ws) ws' = stepS c r pos l k ll x ws'.
  Proof. intros. unfold stepS. destruct (c =? 10); reflexivity. Qed.

  Lemma p_identifier_look : forall s tok, t_typ tok = TIdent -> ident_valid (t_txt tok) = true ->
    p_identifier il id F (PS s (Some tok)) = POk (t_txt tok) (PS s None).
  Proof.
    intros s tok Ht Hv. unfold p_identifier, bind. rewrite next_token_look. rewrite Ht.
    change (TIdent =? TIdent) with true. cbn [negb]. rewrite Hv. reflexivity.
  Qed.

  (** the head of " n1 n2 ... nk" followed by a line end: a space or the first character of the line end *)
  Lemma sp_list_head' : forall A (f : A -> bytes) (xs : list A) rest, exists c r,
    sp_list f xs ++ cr ++ 10 :: rest = c :: r /\ ascii c /\ idc c = false /\ numterm c.
  Proof.
    intros A f xs rest. destruct xs as [|x xs]; cbn.
    - destruct (eol_head rest) as (c & r & E & Hc). exists c, r. split; [exact E|].
      split; [apply blank_ascii; assumption|]. split; [apply blank_not_idc; assumption|apply blank_numterm; assumption].
    - eexists 32, _. split; [reflexivity|]. split; [unfold ascii; lia|]. split; [reflexivity|exact numterm_sp].
  Qed.

  Lemma sp_list_head : forall (ns : list bytes) rest, exists c r,
    sp_list (fun n => n) ns ++ cr ++ 10 :: rest = c :: r /\ ascii c /\ idc c = false.
  Proof. intros ns rest. destruct (sp_list_head' _ (fun n => n) ns rest) as (c & r & E & H1 & H2 & _). exists c, r. auto. Qed.

  (** the state after a line end token has been scanned: the first character of the next line (or EOF)
      is pending ([shapeB] in the whitespace mode [ws]) *)
  Definition after_lf (ws line P K : Z) (rest : bytes) : sstate :=
    match rest with
    | [] => mkS [] [] P line 1 K EOF ws
    | c0 :: r' => stepS c0 r' P line 0 K c0 ws
    end.

  Lemma set_ws_after_lf : forall ws line P K rest, set_ws (after_lf ws line P K rest) ws_default = shapeB line P K rest.
  Proof. intros. destruct rest; cbn [after_lf shapeB]; [reflexivity|apply set_ws_stepS]. Qed.

  Definition head_ascii (rest : bytes) : Prop := match rest with [] => True | c :: _ => ascii c end.

  Lemma rest_ok_head : forall X, rest_ok X -> head_ascii X.
  Proof.
    intros X (g & rest & -> & (Hg & _) & Hok). destruct g as [|a g].
    - cbn [app]. destruct Hok as [(-> & _)|(kw & c & r & -> & (c0 & t & -> & H0 & _) & _)]; [exact I|].
      cbn. apply (id0_ge c0 H0).
    - cbn. inversion Hg. apply blank_ascii. assumption.
  Qed.

  (** scanning the line end token in newline-significant mode: [c :: r] is the line end [cr ++ LF]
      followed by [rest] *)
  Lemma scan_eol_nl : forall rest c r P l k ll, c :: r = cr ++ 10 :: rest -> head_ascii rest -> 0 <= k ->
    (length cr + 1 <= F)%nat ->
    exists tok K', t_typ tok = 10 /\
      sc_scan (stepS c r P l k ll c ws_sig_newline) = SOk (tok, after_lf ws_sig_newline (l + 1) (P + blen cr + 1) K' rest).
  Proof.
    intros rest c r P l k ll E Hh Hk HF. destruct (list_case cr) as [Ecr|(a & cr' & Ecr)]; rewrite Ecr in E |- *.
    - cbn [app] in E. injection E as -> ->. unfold stepS at 1. change (10 =? 10) with true. cbv iota.
      rewrite blen_nil, Z.add_0_r. destruct rest as [|c0 r0].
      + rewrite scan_direct_punct_eof; [|reflexivity|exact punct_lf]. eexists; exists (k + 1). split; [|reflexivity]. reflexivity.
      + rewrite scan_direct_punct; [|reflexivity|exact punct_lf|exact Hh]. eexists; exists (k + 1). split; [|reflexivity]. reflexivity.
    - cbn [app] in E. injection E as -> ->.
      assert (Ha : a = 32 \/ a = 13) by (pose proof Hcr as H; rewrite Ecr in H; inversion H; assumption).
      assert (Hw' : wsrun ws_sig_newline cr').
      { pose proof (cr_wsrun ws_sig_newline (or_intror (or_introl eq_refl))) as H. rewrite Ecr in H. inversion H. assumption. }
      assert (Hn : nl_count cr' = 0) by (pose proof cr_nl as H; rewrite Ecr, nl_count_cons in H; destruct Ha as [-> | ->]; exact H).
      rewrite stepS_plain by (destruct Ha as [-> | ->]; discriminate).
      destruct (sc_scan_run cr' a 10 rest [a] (P + 1) l (k + 1) ll ws_sig_newline) as (k' & ll' & Es & Hk' & _ & _);
        try assumption; try lia; try reflexivity; [rewrite Ecr in HF; cbn [length] in HF; lia|destruct Ha as [-> | ->]; reflexivity|unfold ascii; lia|].
      rewrite Es. unfold stepS at 1. change (10 =? 10) with true. cbv iota. rewrite Hn, Z.add_0_r.
      replace (P + blen (a :: cr') + 1) with (P + 1 + blen cr' + 1) by (rewrite blen_cons; lia).
      destruct rest as [|c0 r0].
      + rewrite scan_body_punct_eof by exact punct_lf. eexists; exists (k' + 1). split; [|reflexivity]. reflexivity.
      + rewrite scan_body_punct; [|exact punct_lf|exact Hh]. eexists; exists (k' + 1). split; [|reflexivity]. reflexivity.
  Qed.

  (** the continuation of parse_nodes after the colon *)
  Definition nodes_tail (G : list bytes -> def) (names : list bytes) : M def :=
    plet t <- peek_token;
    (if negb (t_typ t =? EOF) then p_token il id F c_nl else ret tt) ;;
    use_whitespace ws_default ;;
    ret (G names).

  (** the line end follows, newline-significant mode: the tail consumes it *)
  Lemma nodes_tail_run : forall G names rest c r P l k ll, c :: r = cr ++ 10 :: rest -> rest_ok rest -> 0 <= k ->
    (length cr + 1 <= F)%nat ->
    exists tok s', t_typ tok = 10 /\ sc_scan (stepS c r P l k ll c ws_sig_newline) = SOk (tok, s') /\
    exists st', nodes_tail G names (PS s' (Some tok)) = POk (G names) st'
                /\ Ready SL (l + 1) (P + blen cr + 1) rest st'.
  Proof.
    intros G names rest c r P l k ll E Hok Hk HF.
    destruct (scan_eol_nl rest c r P l k ll E (rest_ok_head _ Hok) Hk HF) as (tok & K' & Ht & Es).
    exists tok, (after_lf ws_sig_newline (l + 1) (P + blen cr + 1) K' rest). split; [exact Ht|]. split; [exact Es|].
    unfold nodes_tail, bind. rewrite peek_token_look. rewrite Ht. change (10 =? EOF) with false. cbn [negb].
    erewrite p_token_look by exact Ht. unfold use_whitespace, ret. cbn [p_sc p_look PS]. rewrite set_ws_after_lf.
    eexists. split; [reflexivity|]. apply ready_B.
  Qed.

  (** the node list: [c :: r'] is what follows the previous token *)
  Lemma nodes_loop_run : forall G ns f racc c r' rest P line k ll,
    c :: r' = sp_list (fun n => n) ns ++ cr ++ 10 :: rest -> Forall (fun n => ident_valid n = true) ns -> rest_ok rest ->
    (length ns < f)%nat -> (length (sp_list (fun n => n) ns) + length cr + 2 < F)%nat -> 0 <= k ->
    exists st', bind (ident_list_loop il id F f racc) (nodes_tail G) (PS (stepS c r' P line k ll c ws_sig_newline) None)
                = POk (G (rev racc ++ ns)) st'
                /\ Ready SL (line + 1) (P + blen (sp_list (fun n => n) ns) + blen cr + 1) rest st'.
  Proof.
    intros G ns. induction ns as [|n ns IH]; intros f racc c r' rest P line k ll Hcr' Hv Hok Hf HF Hk.
    - cbn [sp_list map concat app] in Hcr'. destruct f as [|f]; [lia|].
      unfold bind at 1. cbn [ident_list_loop]. unfold bind at 1. rewrite peek_token_scan.
      destruct (nodes_tail_run G (rev racc ++ []) rest c r' P line k ll Hcr' Hok Hk ltac:(lia)) as (tok & s' & Ht & Es & st' & E & HR).
      rewrite Es. rewrite Ht. change (10 =? TIdent) with false. cbv iota. unfold ret at 1.
      rewrite app_nil_r in *. exists st'. split; [exact E|].
      cbn [sp_list map concat]. rewrite blen_nil, Z.add_0_r. exact HR.
    - cbn [sp_list map concat app] in Hcr'. injection Hcr' as -> ->.
      inversion Hv as [|? ? Hn Hv']; subst. destruct (ident_valid_shape n Hn) as (c0 & t & -> & H0 & Ht).
      destruct (sp_list_head ns rest) as (c2 & r2 & E2 & Hc2 & Hnc2).
      fold (sp_list (fun n : bytes => n) ns). rewrite <- app_assoc. rewrite E2.
      destruct f as [|f]; [cbn in Hf; lia|].
      assert (HFn : (length t + 2 < F)%nat).
      { cbn [sp_list map concat] in HF. rewrite app_length in HF. cbn [length] in HF. lia. }
      unfold bind at 1. cbn [ident_list_loop]. unfold bind at 1. rewrite peek_token_scan.
      rewrite stepS_plain by discriminate.
      rewrite (scan_ws_ident 32); try assumption; try reflexivity; try lia; [|right; left; reflexivity].
      cbn [t_typ]. change (TIdent =? TIdent) with true. cbv iota. unfold bind at 1.
      rewrite p_identifier_look; [|reflexivity|exact Hn]. cbn [t_txt].
      assert (A1 : (length ns < f)%nat) by (cbn in Hf; lia).
      assert (A2 : (length (sp_list (fun n : bytes => n) ns) + length cr + 2 < F)%nat).
      { cbn [sp_list map concat] in HF. rewrite app_length in HF. cbn [length] in HF. unfold sp_list. lia. }
      assert (A3 : 0 <= k + 1 + 1 + blen t) by (pose proof (blen_nonneg t); lia).
      destruct (IH f ((c0 :: t) :: racc) c2 r2 rest (P + 1 + 1 + blen t) line (k + 1 + 1 + blen t) ll
                  (eq_sym E2) Hv' Hok A1 A2 A3) as (st' & E & HR).
      exists st'. split.
      + unfold bind in E at 1. cbn [rev] in E. rewrite <- app_assoc in E. exact E.
      + cbn [sp_list map concat]. fold (sp_list (fun n : bytes => n) ns).
        rewrite blen_app, !blen_cons.
        replace (P + (1 + (1 + blen t) + blen (sp_list (fun n : bytes => n) ns)) + blen cr + 1)
          with (P + 1 + 1 + blen t + blen (sp_list (fun n : bytes => n) ns) + blen cr + 1) by lia. exact HR.
  Qed.

  Lemma sp_list_length_ge : forall A (f : A -> bytes) xs, (length xs <= length (sp_list f xs))%nat.
  Proof.
    intros A f xs. induction xs as [|x xs IH]; cbn [sp_list map concat length]; [lia|].
    fold (sp_list f xs). rewrite app_length. cbn [length]. lia.
  Qed.

  Lemma step_nodes : forall ns rest line off ll, Forall (fun n => ident_valid n = true) ns -> rest_ok rest ->
    (length (sp_list (fun n => n) ns) + length cr + 8 < F)%nat ->
    exists st', parse_nodes il id F (canon line off kw_nodes 58 (sp_list (fun n => n) ns ++ cr ++ 10 :: rest) ll)
                = POk (DNodes {| p_line := line; p_column := 1; p_offset := off |} ns) st'
                /\ Ready SL (line + 1) (off + blen (print_def cr (SNodes ns))) rest st'.
  Proof.
    intros ns rest line off ll Hv Hok HF. pose proof (sp_list_length_ge _ (fun n : bytes => n) ns) as Hge.
    unfold parse_nodes, canon.
    unfold bind at 1. unfold use_whitespace at 1. cbn [p_sc p_look PS]. rewrite set_ws_stepS.
    unfold bind at 1. rewrite p_keyword_canon.
    unfold bind at 1. unfold p_token at 1. unfold bind at 1. rewrite next_token_scan.
    rewrite stepS_plain by discriminate.
    destruct (sp_list_head ns rest) as (c & r' & Ec & Hc & Hnc). rewrite Ec.
    rewrite scan_direct_punct; [|reflexivity|exact punct_colon|assumption].
    cbn [t_typ]. change (58 =? c_colon) with true. cbn [negb]. unfold ret at 1.
    destruct (nodes_loop_run (DNodes {| p_line := line; p_column := 1; p_offset := off |}) ns F [] c r' rest
                (off + blen kw_nodes + 1) line (blen kw_nodes + 1) ll (eq_sym Ec) Hv Hok) as (st' & E & HR);
      [lia|lia|unfold blen, kw_nodes; cbn; lia|].
    exists st'. split; [exact E|].
    match goal with |- Ready _ _ ?X _ _ => replace X with (off + blen kw_nodes + 1 + blen (sp_list (fun n : bytes => n) ns) + blen cr + 1) end;
      [exact HR|].
    cbn [print_def]. rewrite blen_app, !blen_cons, blen_app, blen_app, !blen_cons, blen_nil. lia.
  Qed.

  (** ------------------------------------------------------------ unknown lines *)

  Lemma upunct_punct : forall p, upunct p -> punct p /\ 33 <= p /\ p <> 10.
  Proof. intros p ((? & ?) & ? & ? & ?). repeat split; try assumption; unfold ascii; lia. Qed.

  Lemma discard_continue : forall ty, ty = TIdent \/ ty = TInt \/ 33 <= ty -> ((ty =? c_nl) || (ty =? EOF)) = false.
  Proof.
    intros ty H. apply orb_false_iff. unfold c_nl, EOF, TIdent, TInt in *. split; apply Z.eqb_neq; lia.
  Qed.

  (** discarding the tokens of an unknown line up to and including its line end *)
  Lemma discard_run : forall ts f c r' rest P line k ll,
    c :: r' = sp_list print_utok ts ++ cr ++ 10 :: rest -> Forall wf_utok ts -> rest_ok rest ->
    (length ts < f)%nat -> (length (sp_list print_utok ts) + length cr + 2 < F)%nat -> 0 <= k ->
    exists S' K, discard_loop il id F f (PS (stepS c r' P line k ll c ws_sig_newline) None) = POk tt (PS S' None)
                 /\ set_ws S' ws_default = shapeB (line + 1) (P + blen (sp_list print_utok ts) + blen cr + 1) K rest.
  Proof.
    induction ts as [|t ts IH]; intros f c r' rest P line k ll Hcr' Hv Hok Hf HF Hk.
    - cbn [sp_list map concat app] in Hcr'. destruct f as [|f]; [lia|].
      cbn [discard_loop]. unfold bind at 1. rewrite next_token_scan.
      cbn [sp_list map concat]. rewrite blen_nil, Z.add_0_r.
      destruct (scan_eol_nl rest c r' P line k ll Hcr' (rest_ok_head _ Hok) Hk ltac:(lia)) as (tok & K' & Ht & Es).
      rewrite Es. rewrite Ht. change (10 =? c_nl) with true. cbn [orb]. unfold ret.
      eexists; exists K'. split; [reflexivity|]. apply set_ws_after_lf.
    - cbn [sp_list map concat app] in Hcr'. injection Hcr' as -> ->.
      inversion Hv as [|? ? Ht Hv']; subst.
      destruct (sp_list_head' _ print_utok ts rest) as (c2 & r2 & E2 & Hc2 & Hnc2 & Hnt2).
      fold (sp_list print_utok ts). rewrite <- app_assoc. rewrite E2.
      destruct f as [|f]; [cbn in Hf; lia|].
      assert (A1 : (length ts < f)%nat) by (cbn in Hf; lia).
      assert (HFt : (length (print_utok t) + length (sp_list print_utok ts) + length cr + 3 < F)%nat).
      { cbn [sp_list map concat] in HF. rewrite app_length in HF. cbn [length] in HF. unfold sp_list. lia. }
      assert (A2 : (length (sp_list print_utok ts) + length cr + 2 < F)%nat) by lia.
      pose proof (blen_nonneg (print_utok t)) as Hnb.
      assert (A3 : 0 <= k + 1 + blen (print_utok t)) by lia.
      destruct (IH f c2 r2 rest (P + 1 + blen (print_utok t)) line (k + 1 + blen (print_utok t)) ll
                  (eq_sym E2) Hv' Hok A1 A2 A3) as (S' & K & E & HS).
      assert (Hfin : P + 1 + blen (print_utok t) + blen (sp_list print_utok ts) + blen cr + 1
                     = P + blen (sp_list print_utok (t :: ts)) + blen cr + 1).
      { cbn [sp_list map concat]. fold (sp_list print_utok ts). rewrite blen_app, blen_cons. lia. }
      rewrite Hfin in HS.
      cbn [discard_loop]. unfold bind at 1. rewrite next_token_scan. rewrite stepS_plain by discriminate.
      destruct t as [s|ds|p]; cbn [print_utok wf_utok] in *.
      + destruct (ident_valid_shape s Ht) as (c0 & t' & -> & H0 & Ht').
        rewrite (scan_ws_ident 32); try assumption; try reflexivity; try lia; [|right; left; reflexivity|cbn [length] in HFt; lia].
        cbn [t_typ]. rewrite discard_continue by (left; reflexivity).
        exists S', K. split; [|exact HS]. rewrite <- E. f_equal. f_equal. apply stepS_eq; rewrite blen_cons; lia.
      + destruct Ht as (d0 & t' & -> & Hd & Ht' & Hz).
        rewrite (scan_ws_uint 32); try assumption; try reflexivity; try lia; [|right; left; reflexivity|cbn [length] in HFt; lia].
        cbn [t_typ]. rewrite discard_continue by (right; left; reflexivity).
        exists S', K. split; [|exact HS]. rewrite <- E. f_equal. f_equal. apply stepS_eq; rewrite blen_cons; lia.
      + destruct (upunct_punct p Ht) as (Hp & H33 & Hp10). cbn [app].
        rewrite (scan_ws_punct 32); try assumption; try reflexivity; try lia; [|right; left; reflexivity].
        cbn [t_typ]. rewrite discard_continue by (right; right; assumption).
        exists S', K. split; [|exact HS]. rewrite <- E. reflexivity.
  Qed.

  Lemma step_unknown : forall kw ts c r rest line off ll,
    c :: r = sp_list print_utok ts ++ cr ++ 10 :: rest -> Forall wf_utok ts -> rest_ok rest ->
    (length (sp_list print_utok ts) + length cr + 4 < F)%nat ->
    exists st', parse_unknown il id F (canon line off kw c r ll)
                = POk (DUnknown {| p_line := line; p_column := 1; p_offset := off |} kw) st'
                /\ Ready SL (line + 1) (off + blen (print_def cr (SUnknown kw ts))) rest st'.
  Proof.
    intros kw ts c r rest line off ll Hcr' Hv Hok HF. pose proof (sp_list_length_ge _ print_utok ts) as Hge.
    unfold parse_unknown, parse_unknown_with, canon.
    unfold bind at 1. rewrite peek_token_look. unfold bind at 1. unfold discard_line.
    unfold bind at 1. unfold use_whitespace at 1. cbn [p_sc p_look PS]. rewrite set_ws_stepS.
    unfold bind at 1. destruct F as [|f] eqn:EF; [lia|]. cbn [discard_loop]. rewrite <- EF.
    unfold bind at 1. rewrite next_token_look. cbn [t_typ kwtok]. rewrite discard_continue by (left; reflexivity).
    pose proof (blen_nonneg kw) as Hnk.
    destruct (discard_run ts f c r rest (off + blen kw) line (blen kw) ll Hcr' Hv Hok) as (S' & K & E & HS); [lia|lia|lia|].
    rewrite E. unfold use_whitespace, ret. cbn [p_sc p_look PS t_pos t_txt]. rewrite HS.
    eexists. split; [reflexivity|].
    replace (off + blen (print_def cr (SUnknown kw ts))) with (off + blen kw + blen (sp_list print_utok ts) + blen cr + 1);
      [apply (ready_B SL rest)|].
    cbn [print_def]. rewrite blen_app, blen_app, blen_app, blen_cons, blen_nil. lia.
  Qed.

  (** ------------------------------------------------------------ BO_ / SG_ : readers after a space *)

  Lemma ws32 : is_ws ws_default 32 = true. Proof. reflexivity. Qed.
  Lemma ws_def : ws_ok ws_default. Proof. left. reflexivity. Qed.

  Lemma p_identifier_ws : forall n c r last pos l k ll,
    ident_valid n = true -> ascii c -> idc c = false -> (length n + 2 < F)%nat -> 0 <= k ->
    p_identifier il id F (PS (mkS (n ++ c :: r) last pos l k ll 32 ws_default) None)
    = POk n (PS (stepS c r (pos + blen n) l (k + blen n) ll c ws_default) None).
  Proof.
    intros n c r last pos l k ll Hn Hc Hnc HF Hk. destruct (ident_valid_shape n Hn) as (c0 & t & -> & H0 & Ht).
    unfold p_identifier, bind. rewrite next_token_scan.
    rewrite (scan_ws_ident 32); try assumption; [|exact ws32|exact ws_def|cbn [length] in HF; lia].
    cbn [t_typ t_txt t_pos]. change (TIdent =? TIdent) with true. cbn [negb]. rewrite Hn. cbn [negb]. unfold ret.
    f_equal. f_equal. apply stepS_eq; rewrite blen_cons; lia.
  Qed.

  Lemma p_token_ws : forall p c r last pos l k ll,
    punct p -> 33 <= p -> ascii c -> (1 <= F)%nat -> 0 <= k ->
    p_token il id F p (PS (mkS (p :: c :: r) last pos l k ll 32 ws_default) None)
    = POk tt (PS (stepS c r (pos + 1) l (k + 1) ll c ws_default) None).
  Proof.
    intros p c r last pos l k ll Hp H33 Hc HF Hk. unfold p_token, bind. rewrite next_token_scan.
    rewrite (scan_ws_punct 32); try assumption; [|exact ws32|exact ws_def].
    cbn [t_typ]. rewrite Z.eqb_refl. reflexivity.
  Qed.

  Lemma p_uint_ws : forall b c r last pos l k ll,
    wf_uint b -> numterm c -> (length b + 2 < F)%nat -> 0 <= k ->
    p_uint il id F (PS (mkS (b ++ c :: r) last pos l k ll 32 ws_default) None)
    = POk (uint_value b) (PS (stepS c r (pos + blen b) l (k + blen b) ll c ws_default) None).
  Proof.
    intros b c r last pos l k ll Hb Hc HF Hk. pose proof (parse_uint_value b Hb) as Hv.
    destruct Hb as ((d0 & t & -> & Hd & Ht & Hz) & _).
    unfold p_uint, bind. rewrite next_token_scan.
    rewrite (scan_ws_uint 32); try assumption; [|exact ws32|exact ws_def|cbn [length] in HF; lia].
    cbn [t_typ t_txt]. change (TInt =? TInt) with true. cbn [negb]. rewrite Hv. unfold ret.
    f_equal. f_equal. apply stepS_eq; rewrite blen_cons; lia.
  Qed.

  (** the pending character is the first digit of a decimal literal (after a '-') *)
  Lemma scan_direct_uint : forall d0 t c r pos l k ll ws,
    ws_ok ws -> (length t + 1 < F)%nat -> 0 < k ->
    is_decimal d0 = true -> Forall (fun a => is_decimal a = true) t -> (d0 <> 48 \/ t = []) -> numterm c ->
    sc_scan (mkS (t ++ c :: r) [d0] pos l k ll d0 ws)
    = SOk ({| t_typ := TInt; t_pos := {| p_line := l; p_column := k; p_offset := pos - 1 |}; t_txt := d0 :: t |},
           stepS c r (pos + blen t) l (k + blen t) ll c ws).
  Proof.
    intros d0 t c r pos l k ll ws Hws HF Hk Hd Ht Hz Hc. destruct (decimal_ge d0 Hd) as (H33 & Ha0 & H10).
    rewrite sc_scan_direct; cbn [s_ch s_ws mkS]; [|unfold ascii, NOCHAR in *; lia|apply ws_printable; assumption].
    apply scan_body_uint; assumption.
  Qed.

  Lemma punct_minus : punct 45. Proof. repeat split; try reflexivity; unfold ascii; lia. Qed.

  (** shape of a well-formed number literal *)
  Lemma num_shape : forall n, wf_num n ->
    exists d0 t0, num_lit n = d0 :: lit_tail t0 (n_frac n) (n_exp n) /\ is_decimal d0 = true
                  /\ Forall (fun a => is_decimal a = true) t0 /\ (d0 <> 48 \/ t0 = []) /\ wf_frac (n_frac n) /\ wf_exp (n_exp n)
                  /\ parse_float (d0 :: lit_tail t0 (n_frac n) (n_exp n)) <> None.
  Proof.
    intros n ((d0 & t0 & Ed & Hd & Ht & Hz) & Hf & He & Hp). exists d0, t0. unfold num_lit in *. rewrite Ed in *.
    split; [reflexivity|]. repeat (split; [assumption|]). exact Hp.
  Qed.

  Lemma num_typ_ok : forall typ, typ = TInt \/ typ = TFloat -> (negb (typ =? TInt) && negb (typ =? TFloat)) = false.
  Proof. intros typ [-> | ->]; reflexivity. Qed.

  (** a pending whitespace character, then a number literal, then [c] *)
  Lemma scan_ws_lit : forall w d0 t0 fp ex c r last pos l k ll ws,
    is_ws ws w = true -> ws_ok ws -> (length (lit_tail t0 fp ex) + 5 < F)%nat -> 0 <= k ->
    is_decimal d0 = true -> Forall (fun a => is_decimal a = true) t0 -> (d0 <> 48 \/ t0 = []) -> wf_frac fp -> wf_exp ex -> numterm c ->
    exists typ, (typ = TInt \/ typ = TFloat) /\
      sc_scan (mkS ((d0 :: lit_tail t0 fp ex) ++ c :: r) last pos l k ll w ws)
      = SOk ({| t_typ := typ; t_pos := {| p_line := l; p_column := k + 1; p_offset := pos |}; t_txt := d0 :: lit_tail t0 fp ex |},
             stepS c r (pos + 1 + blen (lit_tail t0 fp ex)) l (k + 1 + blen (lit_tail t0 fp ex)) ll c ws).
  Proof.
    intros w d0 t0 fp ex c r last pos l k ll ws Hw Hws HF Hk Hd Ht Hz Hfp Hex Hc. destruct (decimal_ge d0 Hd) as (H33 & Ha0 & H10).
    cbn [app]. rewrite sc_scan_skip1; try assumption; [|lia|apply ws_printable; assumption].
    rewrite stepS_plain by assumption.
    destruct (scan_body_literal il id F d0 t0 fp ex c r (pos + 1) l (k + 1) ll w ws ltac:(lia) ltac:(lia) Hd Ht Hz Hfp Hex Hc)
      as (typ & Hty & E).
    exists typ. split; [exact Hty|]. rewrite E. f_equal. f_equal. apply tok_eq. lia.
  Qed.

  (** the pending character is the first digit of a number literal (after a '-') *)
  Lemma scan_direct_lit : forall d0 t0 fp ex c r pos l k ll ws,
    ws_ok ws -> (length (lit_tail t0 fp ex) + 4 < F)%nat -> 0 < k ->
    is_decimal d0 = true -> Forall (fun a => is_decimal a = true) t0 -> (d0 <> 48 \/ t0 = []) -> wf_frac fp -> wf_exp ex -> numterm c ->
    exists typ, (typ = TInt \/ typ = TFloat) /\
      sc_scan (mkS (lit_tail t0 fp ex ++ c :: r) [d0] pos l k ll d0 ws)
      = SOk ({| t_typ := typ; t_pos := {| p_line := l; p_column := k; p_offset := pos - 1 |}; t_txt := d0 :: lit_tail t0 fp ex |},
             stepS c r (pos + blen (lit_tail t0 fp ex)) l (k + blen (lit_tail t0 fp ex)) ll c ws).
  Proof.
    intros d0 t0 fp ex c r pos l k ll ws Hws HF Hk Hd Ht Hz Hfp Hex Hc. destruct (decimal_ge d0 Hd) as (H33 & Ha0 & H10).
    rewrite sc_scan_direct; cbn [s_ch s_ws mkS]; [|unfold ascii, NOCHAR in *; lia|apply ws_printable; assumption].
    apply scan_body_literal; assumption.
  Qed.

  (** the same two with the token type spelled out: scanner.Int exactly for decimal integers *)
  Lemma scan_ws_lit_typ : forall w d0 t0 fp ex c r last pos l k ll ws,
    is_ws ws w = true -> ws_ok ws -> (length (lit_tail t0 fp ex) + 5 < F)%nat -> 0 <= k ->
    is_decimal d0 = true -> Forall (fun a => is_decimal a = true) t0 -> (d0 <> 48 \/ t0 = []) -> wf_frac fp -> wf_exp ex -> numterm c ->
      sc_scan (mkS ((d0 :: lit_tail t0 fp ex) ++ c :: r) last pos l k ll w ws)
      = SOk ({| t_typ := lit_typ fp ex; t_pos := {| p_line := l; p_column := k + 1; p_offset := pos |}; t_txt := d0 :: lit_tail t0 fp ex |},
             stepS c r (pos + 1 + blen (lit_tail t0 fp ex)) l (k + 1 + blen (lit_tail t0 fp ex)) ll c ws).
  Proof.
    intros w d0 t0 fp ex c r last pos l k ll ws Hw Hws HF Hk Hd Ht Hz Hfp Hex Hc. destruct (decimal_ge d0 Hd) as (H33 & Ha0 & H10).
    cbn [app]. rewrite sc_scan_skip1; try assumption; [|lia|apply ws_printable; assumption].
    rewrite stepS_plain by assumption.
    rewrite (scan_body_literal_typ il id F d0 t0 fp ex c r (pos + 1) l (k + 1) ll w ws ltac:(lia) ltac:(lia) Hd Ht Hz Hfp Hex Hc).
    f_equal. f_equal. apply tok_eq. lia.
  Qed.

  Lemma scan_direct_lit_typ : forall d0 t0 fp ex c r pos l k ll ws,
    ws_ok ws -> (length (lit_tail t0 fp ex) + 4 < F)%nat -> 0 < k ->
    is_decimal d0 = true -> Forall (fun a => is_decimal a = true) t0 -> (d0 <> 48 \/ t0 = []) -> wf_frac fp -> wf_exp ex -> numterm c ->
      sc_scan (mkS (lit_tail t0 fp ex ++ c :: r) [d0] pos l k ll d0 ws)
      = SOk ({| t_typ := lit_typ fp ex; t_pos := {| p_line := l; p_column := k; p_offset := pos - 1 |}; t_txt := d0 :: lit_tail t0 fp ex |},
             stepS c r (pos + blen (lit_tail t0 fp ex)) l (k + blen (lit_tail t0 fp ex)) ll c ws).
  Proof.
    intros d0 t0 fp ex c r pos l k ll ws Hws HF Hk Hd Ht Hz Hfp Hex Hc. destruct (decimal_ge d0 Hd) as (H33 & Ha0 & H10).
    rewrite sc_scan_direct; cbn [s_ch s_ws mkS]; [|unfold ascii, NOCHAR in *; lia|apply ws_printable; assumption].
    apply scan_body_literal_typ; assumption.
  Qed.

  (** the conversion Parser.int applies to the token of a printed number is its denotation [num_int] *)
  Lemma lit_typ_is_int : forall n, (lit_typ (n_frac n) (n_exp n) =? TInt) = is_int_lit n.
  Proof. intros n. unfold lit_typ, is_int_lit. destruct (n_frac n), (n_exp n); reflexivity. Qed.

  (** p.float() on a pending space followed by a (signed) number literal and [c] *)
  Lemma p_float_ws : forall n c r last pos l k ll,
    wf_num n -> numterm c -> (length (print_num n) + 5 < F)%nat -> 0 <= k ->
    p_float il id F (PS (mkS (print_num n ++ c :: r) last pos l k ll 32 ws_default) None)
    = POk (num_bits n) (PS (stepS c r (pos + blen (print_num n)) l (k + blen (print_num n)) ll c ws_default) None).
  Proof.
    intros n c r last pos l k ll Hn Hc HF Hk.
    destruct (num_shape n Hn) as (d0 & t0 & El & Hd & Ht & Hz & Hfp & Hex & Hpf).
    unfold print_num, num_bits in *. rewrite El in *.
    destruct (parse_float (d0 :: lit_tail t0 (n_frac n) (n_exp n))) as [bits|] eqn:Epf; [|contradiction Hpf; reflexivity].
    destruct (decimal_ge d0 Hd) as (H33 & Ha0 & H10).
    unfold p_float, optional_minus, bind. rewrite peek_token_scan. destruct (n_neg n); cbn [app]; cbn [app length] in HF.
    - rewrite (scan_ws_punct 32); try assumption; [|exact ws32|exact ws_def|lia|exact punct_minus|lia].
      cbn [t_typ]. change (45 =? c_minus) with true. cbv beta iota.
      erewrite p_token_look by reflexivity. unfold ret at 1. rewrite next_token_scan.
      rewrite stepS_plain by assumption.
      destruct (scan_direct_lit d0 t0 (n_frac n) (n_exp n) c r (pos + 1 + 1) l (k + 1 + 1) ll ws_default ws_def ltac:(lia) ltac:(lia)
                  Hd Ht Hz Hfp Hex Hc) as (typ & Hty & E).
      rewrite E. cbn [t_typ t_txt]. rewrite (num_typ_ok typ Hty). rewrite Epf. unfold ret.
      f_equal. f_equal. apply stepS_eq; rewrite !blen_cons; lia.
    - destruct (scan_ws_lit 32 d0 t0 (n_frac n) (n_exp n) c r last pos l k ll ws_default ws32 ws_def ltac:(lia) Hk Hd Ht Hz Hfp Hex Hc)
        as (typ & Hty & E).
      change (d0 :: lit_tail t0 (n_frac n) (n_exp n) ++ c :: r) with ((d0 :: lit_tail t0 (n_frac n) (n_exp n)) ++ c :: r).
      rewrite E. cbn [t_typ].
      assert (Enm : (typ =? c_minus) = false) by (destruct Hty as [-> | ->]; reflexivity). rewrite Enm.
      cbv beta iota. unfold ret at 1. rewrite next_token_look.
      cbn [t_typ t_txt]. rewrite (num_typ_ok typ Hty). rewrite Epf. unfold ret.
      f_equal. f_equal. apply stepS_eq; rewrite !blen_cons; lia.
  Qed.

  (** p.string() on a pending space followed by a quoted plain string and [c2] *)
  Lemma p_string_ws : forall s c2 r last pos l k ll,
    str_ok s -> ascii c2 -> (length s + 3 < F)%nat -> 0 <= k ->
    p_string il id F (PS (mkS (34 :: s ++ 34 :: c2 :: r) last pos l k ll 32 ws_default) None)
    = POk s (PS (stepS c2 r (pos + blen s + 2) l (k + blen s + 2) ll c2 ws_default) None).
  Proof.
    intros s c2 r last pos l k ll Hs Hc2 HF Hk. unfold p_string, bind. rewrite next_token_scan.
    destruct (snoc_cons s 34) as (a & q & Eq).
    assert (Ha : ascii a /\ a <> 10) by (apply (str_head s a q); [assumption|symmetry; exact Eq]).
    destruct Ha as (Haa & Ha10).
    replace (34 :: s ++ 34 :: c2 :: r) with (34 :: a :: q ++ c2 :: r)
      by (change (s ++ 34 :: c2 :: r) with (s ++ [34] ++ c2 :: r); rewrite app_assoc, Eq; reflexivity).
    rewrite (scan_ws_punct 32); try assumption; try lia; [|exact ws32|exact ws_def|repeat split; try reflexivity; unfold ascii; lia].
    cbn [t_typ t_pos]. change (34 =? c_quote) with true. cbn [negb].
    rewrite stepS_plain by assumption.
    rewrite (string_loop_plain F s a q c2 r); try assumption; try lia; [|symmetry; exact Eq].
    cbn [rev app]. f_equal. f_equal. apply stepS_eq; lia.
  Qed.

  Lemma p_string_nl_ws : forall s c2 r last pos l k ll,
    str_okn s -> ascii c2 -> (length s + 3 < F)%nat -> 0 <= k ->
    exists k' ll', 0 <= k' /\
    p_string il id F (PS (mkS (34 :: s ++ 34 :: c2 :: r) last pos l k ll 32 ws_default) None)
    = POk (str_val s) (PS (stepS c2 r (pos + blen s + 2) (l + nl_count s) k' ll' c2 ws_default) None).
  Proof.
    intros s c2 r last pos l k ll Hs Hc2 HF Hk. unfold p_string, bind. rewrite next_token_scan.
    destruct (snoc_cons s 34) as (a & q & Eq).
    assert (Haa : ascii a) by (apply (strn_head s a q); [assumption|symmetry; exact Eq]).
    replace (34 :: s ++ 34 :: c2 :: r) with (34 :: a :: q ++ c2 :: r)
      by (change (s ++ 34 :: c2 :: r) with (s ++ [34] ++ c2 :: r); rewrite app_assoc, Eq; reflexivity).
    rewrite (scan_ws_punct 32); try assumption; try lia; [|exact ws32|exact ws_def|repeat split; try reflexivity; unfold ascii; lia].
    cbn [t_typ t_pos]. change (34 =? c_quote) with true. cbn [negb].
    destruct (stepS_mk a (q ++ c2 :: r) (pos + 1) l (k + 1) ll a ws_default ltac:(lia)) as (k1 & ll1 & Hk1 & Est). rewrite Est.
    destruct (string_loop_nl F s a q c2 r {| p_line := l; p_column := k + 1; p_offset := pos |} [] [a] (pos + 1 + 1) (l + nlz a) k1 ll1 ws_default)
      as (k' & ll' & Hk' & E); try assumption; try lia; [symmetry; exact Eq|].
    exists k', ll'. split; [assumption|]. rewrite E. cbn [rev app]. f_equal. f_equal.
    apply stepS_eq3; [lia|].
    assert (En : nl_count s = nl_count (a :: q)) by (rewrite <- Eq, nl_count_app; cbn [nl_count]; change (34 =? 10) with false; cbv iota; lia).
    rewrite En, nl_count_cons. lia.
  Qed.

  Lemma atoi_digits : forall ds, wf_digits ds -> uint_value ds < 2 ^ 63 -> atoi ds = Some (uint_value ds).
  Proof.
    intros ds (d0 & t & -> & Hd & Ht & Hz) Hlt. unfold atoi.
    assert (Hu : parse_uint (d0 :: t) = Some (uint_value (d0 :: t))).
    { apply parse_uint_value. split; [exists d0, t; auto|lia]. }
    assert (E : (uint_value (d0 :: t) <? two63) = true) by (apply Z.ltb_lt; unfold two63; lia).
    unfold is_decimal in Hd. apply andb_true_iff in Hd. destruct Hd as (Hd1 & Hd2).
    assert (Hcases : d0 = 48 \/ d0 = 49 \/ d0 = 50 \/ d0 = 51 \/ d0 = 52 \/ d0 = 53 \/ d0 = 54 \/ d0 = 55 \/ d0 = 56 \/ d0 = 57) by lia.
    repeat (destruct Hcases as [->|Hcases]); try subst d0; cbv beta iota zeta; rewrite Hu, E; reflexivity.
  Qed.

  (** the byte order digit: intInRange(0, 1) *)
  Lemma int_in_range_ws : forall d c r last pos l k ll,
    (d = 48 \/ d = 49) -> numterm c -> (3 < F)%nat -> 0 <= k ->
    int_in_range il id F 0 1 (PS (mkS (d :: c :: r) last pos l k ll 32 ws_default) None)
    = POk (d - 48) (PS (stepS c r (pos + 1) l (k + 1) ll c ws_default) None).
  Proof.
    intros d c r last pos l k ll Hd Hc HF Hk. unfold int_in_range, optional_minus, bind. rewrite peek_token_scan.
    change (d :: c :: r) with ((d :: []) ++ c :: r).
    rewrite (scan_ws_uint 32 d [] c r last pos l k ll ws_default ws32 ws_def);
      [|cbn [length]; lia|assumption|destruct Hd as [->| ->]; reflexivity|apply Forall_nil|right; reflexivity|assumption].
    cbn [t_typ]. change (TInt =? c_minus) with false. cbv beta iota. unfold ret at 1. rewrite next_token_look.
    cbn [t_txt]. rewrite blen_nil, !Z.add_0_r. destruct Hd as [->| ->]; reflexivity.
  Qed.

  Lemma any_of_ws : forall p c r last pos l k ll,
    (p = 45 \/ p = 43) -> ascii c -> (1 <= F)%nat -> 0 <= k ->
    any_of il id F [c_minus; c_plus] (PS (mkS (p :: c :: r) last pos l k ll 32 ws_default) None)
    = POk p (PS (stepS c r (pos + 1) l (k + 1) ll c ws_default) None).
  Proof.
    intros p c r last pos l k ll Hp Hc HF Hk. unfold any_of, bind. rewrite next_token_scan.
    rewrite (scan_ws_punct 32); try assumption; [|exact ws32|exact ws_def| |];
      [|destruct Hp as [->| ->]; repeat split; try reflexivity; unfold ascii; lia|destruct Hp as [->| ->]; lia].
    cbn [t_typ t_pos]. destruct Hp as [->| ->]; reflexivity.
  Qed.

  (** ", r" items of a receiver list *)
  Definition comma_list (rs : list bytes) : bytes := concat (map (fun r => 32 :: 44 :: 32 :: r) rs).

  Lemma comma_list_length_ge : forall rs, (length rs <= length (comma_list rs))%nat.
  Proof.
    induction rs as [|x rs IH]; cbn [comma_list map concat length]; [lia|].
    fold (comma_list rs). rewrite app_length. cbn [length]. lia.
  Qed.

  Lemma comma_list_head : forall rs rest, exists c r,
    comma_list rs ++ cr ++ 10 :: rest = c :: r /\ ascii c /\ idc c = false.
  Proof.
    intros rs rest. destruct rs as [|x xs]; cbn.
    - destruct (eol_head rest) as (c & r & E & Hc). exists c, r. split; [exact E|].
      split; [apply blank_ascii; assumption|apply blank_not_idc; assumption].
    - eexists 32, _. split; [reflexivity|]. split; [unfold ascii; lia|reflexivity].
  Qed.

  (** the receiver loop; it ends by peeking the first token of the next line *)
  Lemma comma_idents_run : forall rs f racc c r' following P line k ll,
    c :: r' = comma_list rs ++ cr ++ 10 :: following -> Forall (fun r => ident_valid r = true) rs -> rest_ok following ->
    (length rs < f)%nat -> (length (comma_list rs) + 3 < F)%nat -> 0 <= k ->
    exists st', comma_idents_loop il id F f racc (PS (stepS c r' P line k ll c ws_default) None)
                = POk (rev racc ++ rs) st'
                /\ Ready SL (line + 1) (P + blen (comma_list rs) + blen cr + 1) following st'.
  Proof.
    induction rs as [|x rs IH]; intros f racc c r' following P line k ll Hcr' Hv Hok Hf HF Hk.
    - cbn [comma_list map concat app] in Hcr'. destruct f as [|f]; [lia|].
      cbn [comma_idents_loop]. unfold bind at 1.
      pose proof (ready_eol following c r' P line k ll Hcr' Hk) as HR.
      destruct (ready_peek _ _ _ _ HR Hok) as (tok & st' & Ep & Hty & HR').
      destruct (typ_flags tok Hty) as (_ & _ & E3). rewrite Ep, E3. unfold ret. rewrite app_nil_r.
      exists st'. split; [reflexivity|]. cbn [comma_list map concat]. rewrite blen_nil, Z.add_0_r. exact HR'.
    - cbn [comma_list map concat app] in Hcr'. injection Hcr' as -> ->. fold (comma_list rs).
      inversion Hv as [|? ? Hx Hv']; subst.
      destruct (comma_list_head rs following) as (c2 & r2 & E2 & Hc2 & Hnc2).
      rewrite <- app_assoc. rewrite E2.
      destruct f as [|f]; [cbn in Hf; lia|].
      assert (HFx : (length x + length (comma_list rs) + 6 < F)%nat).
      { unfold comma_list in HF |- *. cbn [map concat] in HF. rewrite app_length in HF. cbn [length] in HF. lia. }
      pose proof (blen_nonneg x) as Hnx.
      cbn [comma_idents_loop]. unfold bind at 1. rewrite stepS_plain by discriminate.
      destruct (peek_ws_punct 32 44 32 (x ++ c2 :: r2) [32] (P + 1) line (k + 1) ll ws_default) as (tk & Ep & Ety);
        try reflexivity; try lia; [left; reflexivity|exact punct_comma|unfold ascii; lia|].
      rewrite Ep, Ety. change (44 =? c_comma) with true. cbv beta iota. unfold bind at 1.
      rewrite (p_token_look _ tk c_comma Ety). unfold bind at 1. rewrite stepS_plain by discriminate.
      rewrite p_identifier_ws; try assumption; try lia.
      destruct (IH f (x :: racc) c2 r2 following (P + 1 + 1 + 1 + blen x) line (k + 1 + 1 + 1 + blen x) ll
                  (eq_sym E2) Hv' Hok ltac:(cbn in Hf; lia) ltac:(lia) ltac:(lia)) as (st' & E & HR).
      exists st'. split.
      + rewrite E. cbn [rev]. rewrite <- app_assoc. reflexivity.
      + cbn [comma_list map concat]. fold (comma_list rs). rewrite blen_app, !blen_cons.
        replace (P + (1 + (1 + (1 + blen x)) + blen (comma_list rs)) + blen cr + 1)
          with (P + 1 + 1 + 1 + blen x + blen (comma_list rs) + blen cr + 1) by lia. exact HR.
  Qed.

  (** ------------------------------------------------------------ SG_ *)

  (** a signal line after "SG_ ", followed by [fol] *)
  Definition signal_body (s : ssignal) (fol : bytes) : bytes :=
    ss_name s ++ print_mux (ss_mux s) ++ 32 :: 58 :: 32 :: ss_start s ++ 32 :: 124 :: 32 :: ss_size s
    ++ 32 :: 64 :: 32 :: (if ss_big_endian s then 48 else 49) :: 32 :: (if ss_signed s then 45 else 43)
    :: 32 :: 40 :: 32 :: print_num (ss_factor s) ++ 32 :: 44 :: 32 :: print_num (ss_offset s)
    ++ 32 :: 41 :: 32 :: 91 :: 32 :: print_num (ss_min s) ++ 32 :: 124 :: 32 :: print_num (ss_max s)
    ++ 32 :: 93 :: 32 :: 34 :: ss_unit s ++ 34 :: 32 :: ss_receiver s
    ++ comma_list (ss_receivers s) ++ cr ++ 10 :: fol.

  Lemma print_signal_eq : forall s fol, print_signal cr s ++ fol = kw_signal ++ 32 :: signal_body s fol.
  Proof.
    intros. unfold print_signal, signal_body, comma_list.
    repeat (rewrite <- app_assoc; cbn [app]). reflexivity.
  Qed.

  Lemma punct_of : forall p, In p [58; 124; 64; 40; 44; 41; 91; 93] -> punct p /\ 33 <= p.
  Proof.
    intros p H. cbn [In] in H. repeat (destruct H as [<-|H]; [split; [repeat split; try reflexivity; unfold ascii; lia|lia]|]).
    contradiction.
  Qed.

  Lemma numterm_32 : numterm 32. Proof. exact numterm_sp. Qed.

  Lemma is_ident_M : id0 77 = true. Proof. reflexivity. Qed.

  Lemma decimal_idc : forall ds, Forall (fun a => is_decimal a = true) ds -> Forall (fun a => idc a = true) ds.
  Proof.
    intros ds H. induction H; constructor; [|assumption]. unfold idc. rewrite H. apply orb_true_r.
  Qed.

  (** parse_signal after the colon *)
  Definition signal_cont (kwpos : position) (name : bytes) (is_switch is_muxed : bool) (mux_value : Z) : M signal_def :=
    plet start <- p_uint il id F;
    p_token il id F c_bar ;;
    plet size <- p_uint il id F;
    p_token il id F c_at ;;
    plet order <- int_in_range il id F 0 1;
    plet sign <- any_of il id F [c_minus; c_plus];
    p_token il id F c_lpar ;;
    plet factor <- p_float il id F;
    p_token il id F c_comma ;;
    plet offset <- p_float il id F;
    p_token il id F c_rpar ;;
    p_token il id F c_lbrack ;;
    plet mn <- p_float il id F;
    p_token il id F c_bar ;;
    plet mx <- p_float il id F;
    p_token il id F c_rbrack ;;
    plet unit_ <- p_string il id F;
    plet receivers <- comma_idents il id F;
    ret {| sg_pos := kwpos; sg_name := name; sg_start := start; sg_size := size;
           sg_big_endian := (order =? 0); sg_signed := (sign =? c_minus);
           sg_mux_switch := is_switch; sg_multiplexed := is_muxed; sg_mux_value := mux_value;
           sg_offset := offset; sg_factor := factor; sg_min := mn; sg_max := mx;
           sg_unit := unit_; sg_receivers := receivers |}.

  Definition signal_mux (t : token) : M (bool * bool * Z) :=
    if negb (t_typ t =? c_colon) then
      plet tok <- next_token;
      if negb (t_typ tok =? TIdent) then fail (t_pos tok) ESyntax
      else if bytes_eqb (t_txt tok) [77] then ret (true, false, 0)
      else match t_txt tok with
           | [] => panic
           | c0 :: tl =>
             if (c0 =? 109) && (1 <? blen (t_txt tok)) then
               match atoi tl with
               | Some i => if i <? 0 then fail (t_pos tok) EValue else ret (false, true, i)
               | None => fail (t_pos tok) EValue
               end
             else fail (t_pos tok) ESyntax
           end
    else ret (false, false, 0).

  Lemma parse_signal_unfold :
    parse_signal il id F =
    (plet kw <- p_keyword il id F kw_signal;
     plet name <- p_identifier il id F;
     plet t <- peek_token;
     plet mux <- signal_mux t;
     let '(is_switch, is_muxed, mux_value) := mux in
     p_token il id F c_colon ;; signal_cont (t_pos kw) name is_switch is_muxed mux_value).
  Proof. reflexivity. Qed.

  (** the text after "SG_ name[mux] :" *)
  Definition signal_rest (s : ssignal) (fol : bytes) : bytes :=
    ss_start s ++ 32 :: 124 :: 32 :: ss_size s
    ++ 32 :: 64 :: 32 :: (if ss_big_endian s then 48 else 49) :: 32 :: (if ss_signed s then 45 else 43)
    :: 32 :: 40 :: 32 :: print_num (ss_factor s) ++ 32 :: 44 :: 32 :: print_num (ss_offset s)
    ++ 32 :: 41 :: 32 :: 91 :: 32 :: print_num (ss_min s) ++ 32 :: 124 :: 32 :: print_num (ss_max s)
    ++ 32 :: 93 :: 32 :: 34 :: ss_unit s ++ 34 :: 32 :: ss_receiver s
    ++ comma_list (ss_receivers s) ++ cr ++ 10 :: fol.

  Lemma signal_body_eq : forall s fol,
    signal_body s fol = ss_name s ++ print_mux (ss_mux s) ++ 32 :: 58 :: 32 :: signal_rest s fol.
  Proof. reflexivity. Qed.

  Ltac tok_step :=
    unfold bind at 1; rewrite p_token_ws;
    [ rewrite stepS_plain by discriminate
    | match goal with |- punct ?p => exact (proj1 (punct_of p ltac:(cbn; tauto))) end
    | lia | unfold ascii; lia | lia | lia ].

  Lemma signal_cont_run : forall s fol kwpos nm a b c P line K ll, wf_signal s -> rest_ok fol ->
    (length (signal_rest s fol) - length fol + 8 <= F)%nat -> 0 <= K ->
    exists st', signal_cont kwpos nm a b c (PS (mkS (signal_rest s fol) [32] P line K ll 32 ws_default) None)
                = POk {| sg_pos := kwpos; sg_name := nm; sg_start := uint_value (ss_start s); sg_size := uint_value (ss_size s);
                         sg_big_endian := ss_big_endian s; sg_signed := ss_signed s;
                         sg_mux_switch := a; sg_multiplexed := b; sg_mux_value := c;
                         sg_offset := num_bits (ss_offset s); sg_factor := num_bits (ss_factor s);
                         sg_min := num_bits (ss_min s); sg_max := num_bits (ss_max s);
                         sg_unit := ss_unit s; sg_receivers := ss_receiver s :: ss_receivers s |} st'
                /\ Ready SL (line + 1) (P + blen (signal_rest s fol) - blen fol) fol st'.
  Proof.
    intros s fol kwpos nm a b c P line K ll Hw Hok HF HK.
    destruct s as [name mux start size be sg factor offset mn mx unit rcv rcvs].
    destruct Hw as (Hname & Hmux & Hstart & Hsize & Hfac & Hoff & Hmin & Hmax & Hunit & Hrcv & Hrcvs).
    unfold signal_rest in *.
    cbn [ss_name ss_mux ss_start ss_size ss_big_endian ss_signed ss_factor ss_offset ss_min ss_max ss_unit
         ss_receiver ss_receivers] in *.
    assert (HL : (length start + length size + length (print_num factor)
                  + length (print_num offset) + length (print_num mn) + length (print_num mx) + length unit
                  + length rcv + length (comma_list rcvs) + 36 <= F)%nat).
    { repeat (rewrite app_length in HF || cbn [length] in HF). lia. }
    pose proof (blen_nonneg start). pose proof (blen_nonneg size). pose proof (blen_nonneg (print_num factor)).
    pose proof (blen_nonneg (print_num offset)). pose proof (blen_nonneg (print_num mn)). pose proof (blen_nonneg (print_num mx)).
    pose proof (blen_nonneg unit). pose proof (blen_nonneg rcv). pose proof (blen_nonneg (comma_list rcvs)).
    assert (Hp : forall p, In p [58; 124; 64; 40; 44; 41; 91; 93] -> punct p /\ 33 <= p) by exact punct_of.
    unfold signal_cont.
    unfold bind at 1. rewrite p_uint_ws; try assumption; try lia; [|exact numterm_sp]. rewrite stepS_plain by discriminate.
    tok_step.
    unfold bind at 1. rewrite p_uint_ws; try assumption; try lia; [|exact numterm_sp]. rewrite stepS_plain by discriminate.
    tok_step.
    unfold bind at 1. rewrite int_in_range_ws; try lia; [|destruct be; auto|exact numterm_sp]. rewrite stepS_plain by discriminate.
    unfold bind at 1. rewrite any_of_ws; try lia; [|destruct sg; auto|unfold ascii; lia]. rewrite stepS_plain by discriminate.
    tok_step.
    unfold bind at 1. rewrite p_float_ws; try assumption; try lia; [|exact numterm_sp]. rewrite stepS_plain by discriminate.
    tok_step.
    unfold bind at 1. rewrite p_float_ws; try assumption; try lia; [|exact numterm_sp]. rewrite stepS_plain by discriminate.
    tok_step.
    tok_step.
    unfold bind at 1. rewrite p_float_ws; try assumption; try lia; [|exact numterm_sp]. rewrite stepS_plain by discriminate.
    tok_step.
    unfold bind at 1. rewrite p_float_ws; try assumption; try lia; [|exact numterm_sp]. rewrite stepS_plain by discriminate.
    tok_step.
    unfold bind at 1. rewrite p_string_ws; try assumption; try lia; [|unfold ascii; lia]. rewrite stepS_plain by discriminate.
    (* receivers *)
    destruct (comma_list_head rcvs fol) as (c2 & r2 & E2 & Hc2 & Hnc2). rewrite E2.
    unfold bind at 1. unfold comma_idents. unfold bind at 1.
    rewrite p_identifier_ws; try assumption; try lia.
    match goal with |- context [comma_idents_loop il id F F [rcv] (PS (stepS c2 r2 ?PP line ?KK ll c2 ws_default) None)] =>
      destruct (comma_idents_run rcvs F [rcv] c2 r2 fol PP line KK ll (eq_sym E2) Hrcvs Hok) as (st' & E & HR);
        [pose proof (comma_list_length_ge rcvs); lia|lia|lia|] end.
    rewrite E. unfold ret. cbn [rev app].
    exists st'. split.
    - destruct be, sg; reflexivity.
    - match goal with |- Ready _ _ ?X _ _ => match type of HR with Ready _ _ ?Y _ _ => replace X with Y end end; [exact HR|].
      assert (Hl2 : 1 + blen r2 = blen (comma_list rcvs) + blen cr + 1 + blen fol) by (rewrite <- (blen_cons c2 r2), <- E2, blen_app, blen_app, blen_cons; lia).
      repeat (rewrite blen_app || rewrite blen_cons). lia.
  Qed.

  Lemma uint_value_nonneg : forall ds, Forall (fun a => is_decimal a = true) ds -> 0 <= uint_value ds.
  Proof. intros ds H. unfold uint_value. apply (fold_uint_ge ds 0); [lia|exact H]. Qed.

  Lemma print_signal_len : forall s fol,
    (length (print_signal cr s) + length fol
     = 7 + length (ss_name s) + length (print_mux (ss_mux s)) + length (signal_rest s fol))%nat.
  Proof.
    intros s fol. pose proof (f_equal (@length Z) (print_signal_eq s fol)) as H. rewrite signal_body_eq in H.
    rewrite !app_length in H. cbn [length] in H. rewrite !app_length in H. cbn [length] in H.
    unfold kw_signal in H. cbn [length] in H. lia.
  Qed.

  Lemma signal_rest_len : forall s fol, (length fol + length cr + 20 <= length (signal_rest s fol))%nat.
  Proof. intros. unfold signal_rest. repeat (rewrite app_length || cbn [length]). lia. Qed.

  Lemma print_signal_ge : forall s, (27 + length cr <= length (print_signal cr s))%nat.
  Proof. intros s. pose proof (print_signal_len s []). pose proof (signal_rest_len s []). cbn [length] in *. lia. Qed.

  Lemma step_signal : forall s fol line off ll, wf_signal s -> rest_ok fol ->
    (length (print_signal cr s) + 4 <= F)%nat ->
    exists st', parse_signal il id F (canon line off kw_signal 32 (signal_body s fol) ll)
                = POk (elab_signal line off s) st'
                /\ Ready SL (line + 1) (off + blen (print_signal cr s)) fol st'.
  Proof.
    intros s fol line off ll Hw Hok HF.
    pose proof (print_signal_len s fol) as Hlen. pose proof (signal_rest_len s fol) as Hsr.
    assert (Hblen : blen (print_signal cr s) + blen fol
                    = 7 + blen (ss_name s) + blen (print_mux (ss_mux s)) + blen (signal_rest s fol)) by (unfold blen; lia).
    pose proof Hw as (Hname & Hmux & _).
    pose proof (blen_nonneg (ss_name s)) as Hnn. pose proof (blen_nonneg (print_mux (ss_mux s))) as Hnm.
    assert (Hk0 : blen kw_signal = 3) by reflexivity.
    rewrite parse_signal_unfold. unfold canon. unfold bind at 1. rewrite p_keyword_canon. rewrite stepS_plain by discriminate.
    rewrite signal_body_eq. cbn [kwtok t_pos].
    assert (HFc : (length (signal_rest s fol) - length fol + 8 <= F)%nat) by lia.
    assert (HFn : (length (ss_name s) + 2 < F)%nat) by lia.
    destruct (ss_mux s) as [| |ds] eqn:Em; cbn [print_mux app] in *.
    - (* plain signal *)
      unfold bind at 1. rewrite p_identifier_ws; try assumption; try reflexivity; try lia; [|unfold ascii; lia].
      rewrite stepS_plain by discriminate.
      destruct (peek_ws_punct 32 58 32 (signal_rest s fol) [32] (off + blen kw_signal + 1 + blen (ss_name s) + 1) line
                  (blen kw_signal + 1 + blen (ss_name s) + 1) ll ws_default) as (tk & Ep & Ety);
        try reflexivity; try lia; [left; reflexivity|exact punct_colon|unfold ascii; lia|].
      unfold bind at 1. rewrite Ep. unfold bind at 1. unfold signal_mux. rewrite Ety. change (58 =? c_colon) with true. cbn [negb].
      unfold ret at 1. cbv beta iota. unfold bind at 1. rewrite (p_token_look _ tk c_colon Ety).
      rewrite stepS_plain by discriminate.
      destruct (signal_cont_run s fol {| p_line := line; p_column := 1; p_offset := off |} (ss_name s) false false 0
                  (off + blen kw_signal + 1 + blen (ss_name s) + 1 + 1 + 1) line (blen kw_signal + 1 + blen (ss_name s) + 1 + 1 + 1) ll
                  Hw Hok HFc ltac:(lia)) as (st' & E & HR).
      exists st'. split.
      + rewrite E. unfold elab_signal. rewrite Em. reflexivity.
      + change (blen []) with 0 in *.
        match goal with |- Ready _ _ ?X _ _ => match type of HR with Ready _ _ ?Y _ _ => replace X with Y by lia end end. exact HR.
    - (* multiplexer switch *)
      unfold bind at 1. rewrite p_identifier_ws; try assumption; try reflexivity; try lia; [|unfold ascii; lia].
      rewrite stepS_plain by discriminate.
      unfold bind at 1. rewrite peek_token_scan.
      change (77 :: 32 :: 58 :: 32 :: signal_rest s fol) with ((77 :: []) ++ 32 :: 58 :: 32 :: signal_rest s fol).
      rewrite (scan_ws_ident 32 77 [] 32); try reflexivity; try lia; [|left; reflexivity|cbn [length]; lia|apply Forall_nil|unfold ascii; lia].
      unfold bind at 1. unfold signal_mux. cbn [t_typ]. change (TIdent =? c_colon) with false. cbn [negb].
      unfold bind at 1. rewrite next_token_look. cbn [t_typ t_txt]. change (TIdent =? TIdent) with true. cbn [negb].
      change (bytes_eqb [77] [77]) with true. cbv iota. unfold ret at 1. cbv beta iota.
      rewrite stepS_plain by discriminate. rewrite blen_nil, !Z.add_0_r.
      unfold bind at 1. rewrite p_token_ws; try lia; [|exact punct_colon|unfold ascii; lia].
      rewrite stepS_plain by discriminate.
      match goal with |- context [signal_cont ?KP ?NM true false 0 (PS (mkS _ _ ?PP _ ?KK _ _ _) _)] =>
        destruct (signal_cont_run s fol KP NM true false 0 PP line KK ll Hw Hok HFc ltac:(lia)) as (st' & E & HR) end.
      exists st'. split.
      + rewrite E. unfold elab_signal. rewrite Em. reflexivity.
      + change (blen [32; 77]) with 2 in *.
        match goal with |- Ready _ _ ?X _ _ => match type of HR with Ready _ _ ?Y _ _ => replace X with Y by lia end end. exact HR.
    - (* multiplexed signal m<k> *)
      cbn [wf_mux] in Hmux. destruct Hmux as (Hds & Hlt). pose proof Hds as (d0 & t & Eds & Hd0 & Hdt & Hz0).
      assert (Hdec : Forall (fun a => is_decimal a = true) ds) by (subst ds; constructor; assumption).
      pose proof (blen_nonneg ds) as Hnds.
      assert (Hlds : (length ds + 8 <= F)%nat) by (cbn [length] in *; lia).
      unfold bind at 1. rewrite p_identifier_ws; try assumption; try reflexivity; try lia; [|unfold ascii; lia].
      rewrite stepS_plain by discriminate.
      unfold bind at 1. rewrite peek_token_scan.
      change (109 :: ds ++ 32 :: 58 :: 32 :: signal_rest s fol) with ((109 :: ds) ++ 32 :: 58 :: 32 :: signal_rest s fol).
      rewrite (scan_ws_ident 32 109 ds 32); try reflexivity; try lia; [|left; reflexivity|apply decimal_idc; assumption|unfold ascii; lia].
      unfold bind at 1. unfold signal_mux. cbn [t_typ]. change (TIdent =? c_colon) with false. cbn [negb].
      unfold bind at 1. rewrite next_token_look. cbn [t_typ t_txt]. change (TIdent =? TIdent) with true. cbn [negb].
      assert (Eb : bytes_eqb (109 :: ds) [77] = false) by reflexivity. rewrite Eb.
      assert (E1 : ((109 =? 109) && (1 <? blen (109 :: ds))) = true).
      { subst ds. rewrite !blen_cons. pose proof (blen_nonneg t). apply andb_true_iff. split; [reflexivity|apply Z.ltb_lt; lia]. }
      rewrite E1. rewrite (atoi_digits ds Hds Hlt).
      assert (E2 : (uint_value ds <? 0) = false) by (apply Z.ltb_ge; apply uint_value_nonneg; assumption).
      rewrite E2. unfold ret at 1. cbv beta iota.
      rewrite stepS_plain by discriminate.
      unfold bind at 1. rewrite p_token_ws; try lia; [|exact punct_colon|unfold ascii; lia].
      rewrite stepS_plain by discriminate.
      match goal with |- context [signal_cont ?KP ?NM false true ?V (PS (mkS _ _ ?PP _ ?KK _ _ _) _)] =>
        destruct (signal_cont_run s fol KP NM false true V PP line KK ll Hw Hok HFc ltac:(lia)) as (st' & E & HR) end.
      exists st'. split.
      + rewrite E. unfold elab_signal. rewrite Em. reflexivity.
      + rewrite !blen_cons in *.
        match goal with |- Ready _ _ ?X _ _ => match type of HR with Ready _ _ ?Y _ _ => replace X with Y by lia end end. exact HR.
  Qed.

  (** ------------------------------------------------------------ BO_ *)

  (** what may follow a definition at top level: nothing, or a line whose keyword is not SG_ *)
  Definition rest_top0 (n : nat) (rest : bytes) : Prop :=
    (rest = [] /\ (n + 1 <= F)%nat) \/
    exists kw c r, rest = kw ++ c :: r /\ is_ident kw /\ ascii c /\ idc c = false /\ (n + length kw + 2 < F)%nat
                   /\ bytes_eqb kw kw_signal = false.

  Definition rest_top (X : bytes) : Prop :=
    exists g rest, X = g ++ rest /\ blank_block g /\ rest_top0 (SL + length g) rest.

  Lemma rest_top_ok : forall rest, rest_top rest -> rest_ok rest.
  Proof.
    intros X (g & rest & -> & Hg & H). exists g, rest. split; [reflexivity|]. split; [exact Hg|].
    destruct H as [H|(kw & c & r & E & Hk & Hc & Hnc & Hf & _)]; [left; exact H|right].
    exists kw, c, r. auto.
  Qed.

  Definition signals_text (sigs : list ssignal) : bytes := concat (map (print_signal cr) sigs).

  Lemma is_ident_signal : is_ident kw_signal.
  Proof. exists 83, [71; 95]. split; [reflexivity|]. split; [reflexivity|]. repeat constructor. Qed.

  Lemma signals_run : forall sigs f racc fol line off st,
    Forall wf_signal sigs -> rest_top fol -> (length (signals_text sigs) + 4 <= F)%nat ->
    Ready SL line off (signals_text sigs ++ fol) st -> (length sigs < f)%nat ->
    exists st', signals_loop il id F f racc st = POk (rev racc ++ elab_signals cr line off sigs) st'
                /\ Ready SL (line + Z.of_nat (length sigs)) (off + blen (signals_text sigs)) fol st'.
  Proof.
    induction sigs as [|s sigs IH]; intros f racc fol line off st Hw Htop HF HR Hf; (destruct f as [|f]; [cbn in Hf; lia|]).
    - cbn [signals_text map concat app elab_signals length] in *. rewrite app_nil_r, blen_nil, !Z.add_0_r.
      cbn [signals_loop]. unfold bind at 1. destruct Htop as (g & rest & -> & Hg & Htop).
      pose proof (HR g rest eq_refl Hg) as (H1 & H2).
      destruct Htop as [(-> & Hfk)|(kw & c & r & -> & Hk & Hc & Hnc & Hfk & Hns)].
      + destruct (H1 eq_refl Hfk) as (tok & st' & Ep & Ht). rewrite Ep, Ht. change (EOF =? TIdent) with false. cbn [negb].
        unfold ret. exists st'. split; [reflexivity|]. eapply ready_after_peek; eassumption.
      + destruct (H2 kw c r eq_refl Hk Hc Hnc Hfk) as (ll & Ep). rewrite Ep. cbn [t_typ kwtok].
        change (TIdent =? TIdent) with true. cbn [negb]. unfold bind at 1. rewrite peek_keyword_canon. rewrite Hns.
        unfold ret. eexists. split; [reflexivity|]. eapply ready_after_peek; eassumption.
    - inversion Hw as [|? ? Hs Hw']; subst. cbn [signals_text map concat] in *. fold (signals_text sigs) in *.
      rewrite <- app_assoc in HR. rewrite print_signal_eq in HR. rewrite app_length in HF.
      pose proof (print_signal_ge s) as Hge.
      assert (Hok : rest_ok (signals_text sigs ++ fol)).
      { destruct sigs as [|s' sigs']; [cbn; apply rest_top_ok; exact Htop|]. exists [], (signals_text (s' :: sigs') ++ fol).
        split; [reflexivity|]. split; [exact blank_nil|]. right. cbn [signals_text map concat].
        rewrite <- app_assoc. rewrite print_signal_eq. eexists kw_signal, 32, _. split; [reflexivity|].
        split; [exact is_ident_signal|]. split; [unfold ascii; lia|]. split; [reflexivity|].
        cbn [signals_text map concat] in HF. rewrite app_length in HF. pose proof (print_signal_ge s').
        unfold SL, kw_signal. cbn [length]. lia. }
      pose proof (ready_here _ _ _ _ _ HR) as (_ & H2).
      destruct (H2 kw_signal 32 (signal_body s (signals_text sigs ++ fol)) eq_refl is_ident_signal) as (ll & Ep);
        [unfold ascii; lia|reflexivity|unfold SL, kw_signal; cbn [length]; lia|].
      cbn [signals_loop]. unfold bind at 1. rewrite Ep. cbn [t_typ kwtok]. change (TIdent =? TIdent) with true. cbn [negb].
      unfold bind at 1. rewrite peek_keyword_canon. rewrite bytes_eqb_refl. unfold bind at 1.
      destruct (step_signal s (signals_text sigs ++ fol) line off ll Hs Hok ltac:(lia)) as (st2 & E & HR2). rewrite E.
      destruct (IH f (elab_signal line off s :: racc) fol (line + 1) (off + blen (print_signal cr s)) st2 Hw' Htop ltac:(lia) HR2
                  ltac:(cbn in Hf; lia)) as (st' & E' & HR').
      exists st'. split.
      + rewrite E'. cbn [rev elab_signals]. rewrite <- app_assoc. reflexivity.
      + cbn [length]. rewrite blen_app.
        replace (line + Z.of_nat (S (length sigs))) with (line + 1 + Z.of_nat (length sigs)) by lia.
        replace (off + (blen (print_signal cr s) + blen (signals_text sigs))) with (off + blen (print_signal cr s) + blen (signals_text sigs)) by lia.
        exact HR'.
  Qed.

  Lemma signals_text_length_ge : forall sigs, (length sigs <= length (signals_text sigs))%nat.
  Proof.
    induction sigs as [|s sigs IH]; cbn [signals_text map concat length]; [lia|]. fold (signals_text sigs).
    rewrite app_length. unfold print_signal at 1. rewrite app_length. unfold kw_signal. cbn [length]. lia.
  Qed.

  Lemma p_message_id_ws : forall b c r last pos l k ll,
    wf_uint b -> msgid_valid (uint_value b mod 2 ^ 32) = true -> numterm c -> (length b + 2 < F)%nat -> 0 <= k ->
    p_message_id il id F (PS (mkS (b ++ c :: r) last pos l k ll 32 ws_default) None)
    = POk (uint_value b mod 2 ^ 32) (PS (stepS c r (pos + blen b) l (k + blen b) ll c ws_default) None).
  Proof.
    intros b c r last pos l k ll Hb Hv Hc HF Hk. pose proof (parse_uint_value b Hb) as Hpv.
    destruct Hb as ((d0 & t & -> & Hd & Ht & Hz) & _).
    unfold p_message_id, bind. rewrite peek_token_scan.
    rewrite (scan_ws_uint 32); try assumption; [|exact ws32|exact ws_def|cbn [length] in HF; lia].
    unfold p_uint, bind. rewrite next_token_look. cbn [t_typ t_txt]. change (TInt =? TInt) with true. cbn [negb].
    rewrite Hpv. unfold ret at 1. rewrite Hv. unfold ret. f_equal. f_equal. apply stepS_eq; rewrite blen_cons; lia.
  Qed.

  Lemma is_ident_message : is_ident kw_message.
  Proof. exists 66, [79; 95]. split; [reflexivity|]. split; [reflexivity|]. repeat constructor. Qed.

  Lemma step_message : forall i n sz tx sigs rest line off ll,
    wf_sdef (SMessage i n sz tx sigs) -> rest_top rest ->
    (length (print_def cr (SMessage i n sz tx sigs)) + 4 <= F)%nat ->
    exists st', parse_message il id F
                  (canon line off kw_message 32 (i ++ 32 :: n ++ 32 :: 58 :: 32 :: sz ++ 32 :: tx ++ cr ++ 10 :: signals_text sigs ++ rest) ll)
                = POk (elab_def cr line off (SMessage i n sz tx sigs)) st'
                /\ Ready SL (line + def_lines (SMessage i n sz tx sigs)) (off + blen (print_def cr (SMessage i n sz tx sigs))) rest st'.
  Proof.
    intros i n sz tx sigs rest line off ll (Hi & Hv & Hn & Hsz & Htx & Hsigs) Htop HF.
    cbn [print_def] in HF. fold (signals_text sigs) in HF.
    repeat (rewrite app_length in HF || cbn [length] in HF). unfold kw_message in HF. cbn [length] in HF.
    pose proof (blen_nonneg i). pose proof (blen_nonneg n). pose proof (blen_nonneg sz). pose proof (blen_nonneg tx).
    assert (Hk0 : blen kw_message = 3) by reflexivity.
    unfold parse_message, parse_message_with, canon.
    unfold bind at 1. rewrite p_keyword_canon. rewrite stepS_plain by discriminate.
    unfold bind at 1. rewrite p_message_id_ws; try assumption; try lia; [|exact numterm_sp]. rewrite stepS_plain by discriminate.
    unfold bind at 1. rewrite p_identifier_ws; try assumption; try reflexivity; try lia; [|unfold ascii; lia].
    rewrite stepS_plain by discriminate.
    unfold bind at 1. rewrite p_token_ws; try lia; [|exact punct_colon|unfold ascii; lia]. rewrite stepS_plain by discriminate.
    unfold bind at 1. rewrite p_uint_ws; try assumption; try lia; [|exact numterm_sp]. rewrite stepS_plain by discriminate.
    destruct (eol_head (signals_text sigs ++ rest)) as (c2 & r2 & E2 & Hc2). rewrite E2.
    unfold bind at 1. rewrite p_identifier_ws; try assumption; try lia; [|apply blank_ascii; assumption|apply blank_not_idc; assumption].
    match goal with |- context [PS (stepS c2 r2 ?PP ?LL ?KK ?L2 c2 ws_default) None] =>
      pose proof (ready_eol (signals_text sigs ++ rest) c2 r2 PP LL KK L2 (eq_sym E2) ltac:(lia)) as HR end.
    destruct (signals_run sigs F [] rest _ _ _ Hsigs Htop ltac:(lia) HR) as (st' & E & HR').
    { pose proof (signals_text_length_ge sigs). lia. }
    unfold bind at 1. rewrite E. unfold ret. cbn [rev app kwtok t_pos].
    exists st'. split.
    - cbn [elab_def]. f_equal. f_equal. f_equal.
      unfold message_header. repeat (rewrite blen_app || rewrite blen_cons). rewrite blen_nil. f_equal; lia.
    - cbn [def_lines print_def]. fold (signals_text sigs).
      match goal with |- Ready _ ?L1 ?X _ _ => match type of HR' with Ready _ ?L2 ?Y _ _ => replace X with Y; [replace L1 with L2 by lia; exact HR'|] end end.
      repeat (rewrite blen_app || rewrite blen_cons). lia.
  Qed.

  (** ------------------------------------------------------------ one-line definitions ending in " ;" *)

  Lemma punct_semi : punct 59. Proof. repeat split; try reflexivity; unfold ascii; lia. Qed.
  Lemma punct_quote : punct 34. Proof. repeat split; try reflexivity; unfold ascii; lia. Qed.

  Ltac side :=
    first [ assumption | exact numterm_sp | exact numterm_lf | exact ws32 | exact ws_def
          | exact punct_semi | exact punct_colon | exact punct_comma | exact punct_minus | exact punct_quote
          | match goal with |- punct ?p => exact (proj1 (punct_of p ltac:(cbn; tauto))) end
          | reflexivity | lia | (unfold ascii; lia) | discriminate
          | (unfold kw_nodes, kw_message, kw_signal, kw_envvar; cbn [length]; lia) ].

  Lemma eol_blank : forall rest ce re, ce :: re = cr ++ 10 :: rest -> blank_char ce.
  Proof. intros rest ce re E. destruct (eol_head rest) as (c & r & E' & Hc). rewrite <- E in E'. injection E' as <- _. exact Hc. Qed.

  (** facts about the first character of a line end given as a hypothesis *)
  Ltac eolh Ee :=
    pose proof (eol_blank _ _ _ Ee) as Hce;
    pose proof (blank_ascii _ Hce) as Hcea; pose proof (blank_not_idc _ Hce) as Hcei; pose proof (blank_numterm _ Hce) as Hcen.

  Ltac eol0 rest :=
    destruct (eol_head rest) as (ce & re & Ee & Hce);
    pose proof (blank_ascii _ Hce) as Hcea; pose proof (blank_not_idc _ Hce) as Hcei; pose proof (blank_numterm _ Hce) as Hcen.

  (** the line end after the last token: [ce :: re] is [cr ++ LF] followed by the rest *)
  Ltac eol rest :=
    destruct (eol_head rest) as (ce & re & Ee & Hce); rewrite ?Ee in *;
    pose proof (blank_ascii _ Hce) as Hcea; pose proof (blank_not_idc _ Hce) as Hcei; pose proof (blank_numterm _ Hce) as Hcen.

  Lemma uint_value_digit : forall d, uint_value [d] = d - 48.
  Proof. intros. unfold uint_value. cbn [fold_left]. lia. Qed.

  Lemma wf_enum_uint : forall t mx, wf_enum t mx -> 0 <= mx <= 9 -> wf_uint t /\ uint_value t <= mx /\ length t = 1%nat.
  Proof.
    intros t mx (d & -> & Hd) Hm. rewrite uint_value_digit. split; [|split; [lia|reflexivity]].
    split; [|rewrite uint_value_digit; lia]. exists d, []. split; [reflexivity|].
    split; [unfold is_decimal; apply andb_true_iff; split; [apply Z.leb_le|apply Z.leb_le]; lia|].
    split; [constructor|right; reflexivity].
  Qed.

  (** signalValueType() / environmentVariableType() *)
  Lemma p_small_enum_ws : forall t mx c r last pos l k ll,
    wf_enum t mx -> 0 <= mx <= 9 -> numterm c -> (3 < F)%nat -> 0 <= k ->
    p_small_enum il id F mx (PS (mkS (t ++ c :: r) last pos l k ll 32 ws_default) None)
    = POk (uint_value t) (PS (stepS c r (pos + blen t) l (k + blen t) ll c ws_default) None).
  Proof.
    intros t mx c r last pos l k ll Ht Hm Hc HF Hk. destruct (wf_enum_uint t mx Ht Hm) as (Hu & Hle & Hlen).
    pose proof (parse_uint_value t Hu) as Hpv. destruct Hu as ((d0 & tl & -> & Hd & Htl & Hz) & _).
    unfold p_small_enum, bind. rewrite peek_token_scan.
    rewrite (scan_ws_uint 32); try assumption; [|exact ws32|exact ws_def|cbn [length] in *; lia].
    unfold p_uint, bind. rewrite next_token_look. cbn [t_typ t_txt]. change (TInt =? TInt) with true. cbn [negb].
    rewrite Hpv. unfold ret at 1. assert (E : (uint_value (d0 :: tl) <=? mx) = true) by (apply Z.leb_le; lia). rewrite E.
    unfold ret. f_equal. f_equal. apply stepS_eq; rewrite blen_cons; lia.
  Qed.

  Lemma access_name_valid : forall a, 0 <= a <= 3 ->
    ident_valid (access_name a) = true /\ access_type_of (access_name a) = Some (access_of a).
  Proof.
    intros a Ha. assert (H : a = 0 \/ a = 1 \/ a = 2 \/ a = 3) by lia.
    destruct H as [->|[->|[->| ->]]]; split; reflexivity.
  Qed.

  Lemma p_access_type_ws : forall a c r last pos l k ll,
    0 <= a <= 3 -> ascii c -> idc c = false -> (22 < F)%nat -> 0 <= k ->
    p_access_type il id F (PS (mkS (access_name a ++ c :: r) last pos l k ll 32 ws_default) None)
    = POk (access_of a) (PS (stepS c r (pos + blen (access_name a)) l (k + blen (access_name a)) ll c ws_default) None).
  Proof.
    intros a c r last pos l k ll Ha Hc Hnc HF Hk. destruct (access_name_valid a Ha) as (Hv & Hat).
    destruct (ident_valid_shape _ Hv) as (c0 & t & En & H0 & Ht).
    assert (Hlen : (length (access_name a) <= 18)%nat).
    { assert (H : a = 0 \/ a = 1 \/ a = 2 \/ a = 3) by lia. destruct H as [->|[->|[->| ->]]]; cbn; lia. }
    unfold p_access_type, bind. rewrite peek_token_scan. rewrite En.
    rewrite (scan_ws_ident 32); try assumption; [|exact ws32|exact ws_def|rewrite En in Hlen; cbn [length] in Hlen; lia].
    rewrite p_identifier_look; [|reflexivity|cbn [t_txt]; rewrite <- En; exact Hv]. cbn [t_txt]. rewrite <- En, Hat.
    unfold ret. f_equal. f_equal. apply stepS_eq; rewrite En, blen_cons; lia.
  Qed.

  (** value description:  <space> number <space> "text"  followed by [c2] *)
  Lemma value_desc_ws : forall v c2 r last pos l k ll,
    wf_value v -> ascii c2 -> (length (print_num (fst v)) + length (snd v) + 8 < F)%nat -> 0 <= k ->
    parse_value_description il id F
      (PS (mkS (print_num (fst v) ++ 32 :: 34 :: snd v ++ 34 :: c2 :: r) last pos l k ll 32 ws_default) None)
    = POk {| vd_pos := {| p_line := l; p_column := k + 1; p_offset := pos |}; vd_value := num_bits (fst v);
             vd_description := snd v |}
          (PS (stepS c2 r (pos + blen (print_num (fst v)) + blen (snd v) + 3) l (k + blen (print_num (fst v)) + blen (snd v) + 3) ll c2 ws_default) None).
  Proof.
    intros [n s] c2 r last pos l k ll (Hn & Hs) Hc2 HF Hk. cbn [fst snd] in *.
    destruct (num_shape n Hn) as (d0 & t0 & El & Hd & Ht & Hz & Hfp & Hex & Hpf).
    unfold print_num, num_bits in *. rewrite El in *.
    destruct (parse_float (d0 :: lit_tail t0 (n_frac n) (n_exp n))) as [bits|] eqn:Epf; [|contradiction Hpf; reflexivity].
    destruct (decimal_ge d0 Hd) as (H33 & Ha0 & H10).
    pose proof (blen_nonneg (lit_tail t0 (n_frac n) (n_exp n))) as Hnt. pose proof (blen_nonneg s) as Hns.
    unfold parse_value_description. unfold bind at 1. rewrite peek_token_scan. destruct (n_neg n); cbn [app]; cbn [app length] in HF.
    - rewrite (scan_ws_punct 32) by side. unfold bind at 1.
      unfold p_float, optional_minus. unfold bind at 1. unfold bind at 1. rewrite peek_token_look.
      cbn [t_typ]. change (45 =? c_minus) with true. cbv beta iota. unfold bind at 1.
      erewrite p_token_look by reflexivity. unfold ret at 1. unfold bind at 1. rewrite next_token_scan.
      rewrite stepS_plain by assumption.
      destruct (scan_direct_lit d0 t0 (n_frac n) (n_exp n) 32 (34 :: s ++ 34 :: c2 :: r) (pos + 1 + 1) l (k + 1 + 1) ll ws_default ws_def
                  ltac:(lia) ltac:(lia) Hd Ht Hz Hfp Hex numterm_sp) as (typ & Hty & E).
      rewrite E. cbn [t_typ t_txt]. rewrite (num_typ_ok typ Hty). rewrite Epf. unfold ret at 1.
      rewrite stepS_plain by discriminate. unfold bind at 1.
      rewrite p_string_ws by side. unfold ret. cbn [t_pos]. f_equal. f_equal. apply stepS_eq; rewrite !blen_cons; lia.
    - change (d0 :: lit_tail t0 (n_frac n) (n_exp n) ++ 32 :: 34 :: s ++ 34 :: c2 :: r)
        with ((d0 :: lit_tail t0 (n_frac n) (n_exp n)) ++ 32 :: 34 :: s ++ 34 :: c2 :: r).
      destruct (scan_ws_lit 32 d0 t0 (n_frac n) (n_exp n) 32 (34 :: s ++ 34 :: c2 :: r) last pos l k ll ws_default ws32 ws_def
                  ltac:(lia) Hk Hd Ht Hz Hfp Hex numterm_sp) as (typ & Hty & E).
      rewrite E. unfold bind at 1.
      unfold p_float, optional_minus. unfold bind at 1. unfold bind at 1. rewrite peek_token_look.
      cbn [t_typ]. assert (Enm : (typ =? c_minus) = false) by (destruct Hty as [-> | ->]; reflexivity). rewrite Enm.
      cbv beta iota. unfold ret at 1. unfold bind at 1.
      rewrite next_token_look. cbn [t_typ t_txt]. rewrite (num_typ_ok typ Hty). rewrite Epf. unfold ret at 1.
      rewrite stepS_plain by discriminate. unfold bind at 1.
      rewrite p_string_ws by side. unfold ret. cbn [t_pos]. f_equal. f_equal. apply stepS_eq; rewrite !blen_cons; lia.
  Qed.

  (** operations that start with a peek (or a next) do not care whether the token is already peeked *)
  Lemma next_after_peek : forall st t st1, peek_token st = POk t st1 -> next_token st1 = next_token st.
  Proof.
    intros st t st1 H. unfold Parser.peek_token, Parser.next_token in *. destruct (p_look st) as [t0|] eqn:El.
    - injection H as <- <-. rewrite El. reflexivity.
    - unfold lift_s. destruct (scan il id F (p_sc st)) as [[t1 s1]|pp kk|]; try discriminate. injection H as <- <-.
      cbn [p_look p_sc]. rewrite El. reflexivity.
  Qed.

  Lemma bind_peek_after_peek : forall st t st1, peek_token st = POk t st1 ->
    forall A (f : token -> M A), bind peek_token f st1 = bind peek_token f st.
  Proof. intros st t st1 H A f. unfold bind. rewrite (peek_token_idem _ _ _ H), H. reflexivity. Qed.

  Lemma bind_next_after_peek : forall st t st1, peek_token st = POk t st1 ->
    forall A (f : token -> M A), bind next_token f st1 = bind next_token f st.
  Proof. intros st t st1 H A f. unfold bind. rewrite (next_after_peek _ _ _ H). reflexivity. Qed.

  Lemma pvd_after_peek : forall st t st1, peek_token st = POk t st1 ->
    parse_value_description il id F st1 = parse_value_description il id F st.
  Proof. intros st t st1 H. exact (bind_peek_after_peek _ _ _ H _ _). Qed.

  Lemma small_enum_after_peek : forall mx st t st1, peek_token st = POk t st1 ->
    p_small_enum il id F mx st1 = p_small_enum il id F mx st.
  Proof. intros mx st t st1 H. exact (bind_peek_after_peek _ _ _ H _ _). Qed.

  Lemma p_string_after_peek : forall st t st1, peek_token st = POk t st1 -> p_string il id F st1 = p_string il id F st.
  Proof. intros st t st1 H. exact (bind_next_after_peek _ _ _ H _ _). Qed.

  Lemma tx_loop_after_peek : forall f racc st t st1, peek_token st = POk t st1 ->
    transmitters_loop il id F f racc st1 = transmitters_loop il id F f racc st.
  Proof.
    intros f racc st t st1 H. destruct f as [|f]; [reflexivity|]. cbn [transmitters_loop].
    exact (bind_peek_after_peek _ _ _ H _ _).
  Qed.

  Lemma vd_loop_after_peek : forall f racc st t st1, peek_token st = POk t st1 ->
    value_descriptions_loop il id F f racc st1 = value_descriptions_loop il id F f racc st.
  Proof.
    intros f racc st t st1 H. destruct f as [|f]; [reflexivity|]. cbn [value_descriptions_loop].
    exact (bind_peek_after_peek _ _ _ H _ _).
  Qed.

  (** the first token of a value description is a number or a minus sign *)
  Lemma value_peek : forall v X last pos l k ll, wf_value v -> (length (print_num (fst v)) + 5 < F)%nat -> 0 <= k ->
    exists t st1, peek_token (PS (mkS (print_num (fst v) ++ 32 :: X) last pos l k ll 32 ws_default) None) = POk t st1
                  /\ (t_typ t = TInt \/ t_typ t = TFloat \/ t_typ t = 45).
  Proof.
    intros [n s] X last pos l k ll (Hn & _) HF Hk. cbn [fst snd] in *.
    destruct (num_shape n Hn) as (d0 & t0 & El & Hd & Ht & Hz & Hfp & Hex & Hpf).
    unfold print_num in *. rewrite El in *.
    destruct (decimal_ge d0 Hd) as (H33 & Ha0 & H10). rewrite peek_token_scan. destruct (n_neg n); cbn [app]; cbn [app length] in HF.
    - rewrite (scan_ws_punct 32) by side. eexists; eexists; split; [reflexivity|right; right; reflexivity].
    - change (d0 :: lit_tail t0 (n_frac n) (n_exp n) ++ 32 :: X) with ((d0 :: lit_tail t0 (n_frac n) (n_exp n)) ++ 32 :: X).
      destruct (scan_ws_lit 32 d0 t0 (n_frac n) (n_exp n) 32 X last pos l k ll ws_default ws32 ws_def ltac:(lia) Hk Hd Ht Hz Hfp Hex numterm_sp)
        as (typ & Hty & E).
      rewrite E. eexists; eexists; split; [reflexivity|]. cbn [t_typ]. destruct Hty; auto.
  Qed.

  Lemma print_values_head : forall vs X, exists T, print_values vs ++ 32 :: X = 32 :: T.
  Proof. intros vs X. destruct vs as [|v vs]; cbn; eexists; reflexivity. Qed.

  (** the value description loop; it stops at the ';' which stays in the lookahead *)
  Lemma values_run : forall vs f racc TAIL c2 r last P l K ll off,
    32 :: TAIL = print_values vs ++ 32 :: 59 :: c2 :: r -> Forall wf_value vs -> ascii c2 ->
    (length vs < f)%nat -> (length (print_values vs) + 8 < F)%nat -> K = P - off -> 0 <= K ->
    exists tk, value_descriptions_loop il id F f racc (PS (mkS TAIL last P l K ll 32 ws_default) None)
               = POk (rev racc ++ elab_values l off P vs)
                     (PS (stepS c2 r (P + blen (print_values vs) + 1) l (K + blen (print_values vs) + 1) ll c2 ws_default) (Some tk))
               /\ t_typ tk = 59.
  Proof.
    induction vs as [|v vs IH]; intros f racc TAIL c2 r last P l K ll off HT Hw Hc2 Hf HF HK HK0.
    - cbn [print_values map concat app] in HT. injection HT as ->. destruct f as [|f]; [lia|].
      cbn [value_descriptions_loop]. unfold bind at 1.
      destruct (peek_ws_punct 32 59 c2 r last P l K ll ws_default) as (tk & Ep & Ety); try side.
      rewrite Ep, Ety. change (59 =? c_semi) with true. cbn [negb]. unfold ret. cbn [elab_values print_values map concat].
      rewrite app_nil_r, blen_nil, !Z.add_0_r. exists tk. split; [reflexivity|exact Ety].
    - apply Forall_cons_iff in Hw. destruct Hw as (Hv & Hw'). destruct f as [|f]; [cbn in Hf; lia|].
      cbn [print_values map concat] in HT. fold (print_values vs) in HT. unfold print_value at 1 in HT.
      destruct (print_values_head vs (59 :: c2 :: r)) as (T' & ET').
      assert (ETAIL : TAIL = print_num (fst v) ++ 32 :: 34 :: snd v ++ 34 :: 32 :: T').
      { cbn [app] in HT. injection HT as ->. rewrite <- !app_assoc. cbn [app]. rewrite <- !app_assoc. cbn [app]. rewrite ET'. reflexivity. }
      subst TAIL.
      assert (HFv : (length (print_num (fst v)) + length (snd v) + length (print_values vs) + 12 < F)%nat).
      { cbn [print_values map concat] in HF. fold (print_values vs) in HF. unfold print_value at 1 in HF.
        repeat (rewrite app_length in HF || cbn [length] in HF). lia. }
      pose proof (blen_nonneg (print_num (fst v))). pose proof (blen_nonneg (snd v)).
      cbn [value_descriptions_loop]. unfold bind at 1.
      destruct (value_peek v (34 :: snd v ++ 34 :: 32 :: T') last P l K ll Hv) as (t & st1 & Ep & Hty); try side.
      rewrite Ep. assert (Ens : (t_typ t =? c_semi) = false) by (destruct Hty as [-> | [-> | ->]]; reflexivity).
      rewrite Ens. cbn [negb]. unfold bind at 1. rewrite (pvd_after_peek _ _ _ Ep).
      rewrite value_desc_ws by side. rewrite stepS_plain by discriminate.
      destruct (IH f ({| vd_pos := {| p_line := l; p_column := K + 1; p_offset := P |}; vd_value := num_bits (fst v);
                         vd_description := snd v |} :: racc) T' c2 r [32]
                  (P + blen (print_num (fst v)) + blen (snd v) + 3 + 1) l (K + blen (print_num (fst v)) + blen (snd v) + 3 + 1) ll off
                  (eq_sym ET') Hw' Hc2 ltac:(cbn in Hf; lia) ltac:(lia) ltac:(lia) ltac:(lia)) as (tk & E & Ety).
      exists tk. split; [|exact Ety]. rewrite E. cbn [rev elab_values]. rewrite <- app_assoc. cbn [app].
      f_equal.
      + f_equal. f_equal; [f_equal; f_equal; lia|f_equal; lia].
      + cbn [print_values map concat]. fold (print_values vs). unfold print_value at 1 2.
        repeat (rewrite blen_app || rewrite blen_cons). rewrite blen_nil. f_equal. apply stepS_eq; lia.
  Qed.

  (** finishing a one-line definition: the ';' (already peeked, or after a space) and the line end *)
  Lemma finish_semi_look : forall tk rest ce re P line K ll, ce :: re = cr ++ 10 :: rest -> t_typ tk = 59 -> 0 <= K ->
    exists st', p_token il id F c_semi (PS (stepS ce re P line K ll ce ws_default) (Some tk)) = POk tt st'
                /\ Ready SL (line + 1) (P + blen cr + 1) rest st'.
  Proof.
    intros tk rest ce re P line K ll Ee Ht HK. rewrite (p_token_look _ tk c_semi Ht). eexists. split; [reflexivity|].
    apply ready_eol; assumption.
  Qed.

  Lemma finish_semi_ws : forall rest ce re last P line K ll, ce :: re = cr ++ 10 :: rest -> (1 <= F)%nat -> 0 <= K ->
    exists st', p_token il id F c_semi (PS (mkS (59 :: ce :: re) last P line K ll 32 ws_default) None) = POk tt st'
                /\ Ready SL (line + 1) (P + 1 + blen cr + 1) rest st'.
  Proof.
    intros rest ce re last P line K ll Ee HF HK.
    assert (Hcea : ascii ce).
    { destruct (eol_head rest) as (c & r & E & Hc). rewrite <- Ee in E. injection E as <- _. apply blank_ascii. assumption. }
    rewrite p_token_ws by side. eexists. split; [reflexivity|]. apply ready_eol; [assumption|lia].
  Qed.

  (** optionalObjectType on one of BU_ BO_ SG_ EV_ *)
  Lemma opt_obj_kw : forall kw ot c r last pos l k ll,
    ident_valid kw = true -> object_type_of kw = Some ot -> ascii c -> idc c = false -> (length kw + 2 < F)%nat -> 0 <= k ->
    optional_object_type il id F (PS (mkS (kw ++ c :: r) last pos l k ll 32 ws_default) None)
    = POk ot (PS (stepS c r (pos + blen kw) l (k + blen kw) ll c ws_default) None).
  Proof.
    intros kw ot c r last pos l k ll Hv Hot Hc Hnc HF Hk. destruct (ident_valid_shape kw Hv) as (c0 & t & -> & H0 & Ht).
    unfold optional_object_type, bind. rewrite peek_token_scan.
    rewrite (scan_ws_ident 32); try assumption; [|exact ws32|exact ws_def|cbn [length] in HF; lia].
    cbn [t_typ]. change (TIdent =? TIdent) with true. cbn [negb].
    rewrite p_identifier_look; [|reflexivity|exact Hv]. cbn [t_txt]. rewrite Hot. unfold ret.
    f_equal. f_equal. apply stepS_eq; rewrite blen_cons; lia.
  Qed.

  (** a quoted string is next: its quote can be peeked *)
  Lemma quote_peek : forall s c2 r last pos l k ll, str_ok s -> ascii c2 -> (1 <= F)%nat -> 0 <= k ->
    exists tk st1, peek_token (PS (mkS (34 :: s ++ 34 :: c2 :: r) last pos l k ll 32 ws_default) None) = POk tk st1
                   /\ t_typ tk = 34.
  Proof.
    intros s c2 r last pos l k ll Hs Hc2 HF Hk. destruct (snoc_cons s 34) as (a & q & Eq).
    assert (Haa : ascii a) by (apply (str_head s a q); [assumption|symmetry; exact Eq]).
    replace (34 :: s ++ 34 :: c2 :: r) with (34 :: a :: q ++ c2 :: r)
      by (change (s ++ 34 :: c2 :: r) with (s ++ [34] ++ c2 :: r); rewrite app_assoc, Eq; reflexivity).
    rewrite peek_token_scan. rewrite (scan_ws_punct 32) by side. eexists; eexists; split; reflexivity.
  Qed.

  Lemma quote_peek_n : forall s c2 r last pos l k ll, str_okn s -> ascii c2 -> (1 <= F)%nat -> 0 <= k ->
    exists tk st1, peek_token (PS (mkS (34 :: s ++ 34 :: c2 :: r) last pos l k ll 32 ws_default) None) = POk tk st1
                   /\ t_typ tk = 34.
  Proof.
    intros s c2 r last pos l k ll Hs Hc2 HF Hk. destruct (snoc_cons s 34) as (a & q & Eq).
    assert (Haa : ascii a) by (apply (strn_head s a q); [assumption|symmetry; exact Eq]).
    replace (34 :: s ++ 34 :: c2 :: r) with (34 :: a :: q ++ c2 :: r)
      by (change (s ++ 34 :: c2 :: r) with (s ++ [34] ++ c2 :: r); rewrite app_assoc, Eq; reflexivity).
    rewrite peek_token_scan. rewrite (scan_ws_punct 32) by side. eexists; eexists; split; reflexivity.
  Qed.

  Lemma opt_obj_none : forall st tk st1, peek_token st = POk tk st1 -> t_typ tk = 34 ->
    optional_object_type il id F st = POk OtUnspecified st1.
  Proof. intros st tk st1 H Ht. unfold optional_object_type, bind. rewrite H, Ht. reflexivity. Qed.

  Lemma msgid_after_peek : forall st t st1, peek_token st = POk t st1 -> p_message_id il id F st1 = p_message_id il id F st.
  Proof. intros st t st1 H. exact (bind_peek_after_peek _ _ _ H _ _). Qed.

  (** BO_TX_BU_ items *)
  Definition tx_text (txs : list (bytes * bool)) : bytes := concat (map print_tx txs).

  Lemma tx_text_head : forall txs X, exists T, tx_text txs ++ 32 :: X = 32 :: T.
  Proof. intros txs X. destruct txs as [|x txs]; cbn; eexists; reflexivity. Qed.

  Lemma tx_peek : forall txs TAIL c2 r last P l K ll,
    32 :: TAIL = tx_text txs ++ 32 :: 59 :: c2 :: r -> Forall (fun x => ident_valid (fst x) = true) txs -> ascii c2 ->
    (length (tx_text txs) + 4 < F)%nat -> 0 <= K ->
    exists t st1, peek_token (PS (mkS TAIL last P l K ll 32 ws_default) None) = POk t st1 /\ (t_typ t = TIdent \/ t_typ t = 59).
  Proof.
    intros txs TAIL c2 r last P l K ll HT Hw Hc2 HF HK. destruct txs as [|[n comma] txs].
    - cbn in HT. injection HT as ->. destruct (peek_ws_punct 32 59 c2 r last P l K ll ws_default) as (tk & Ep & Ety); try side.
      eexists; eexists; split; [exact Ep|right; exact Ety].
    - apply Forall_cons_iff in Hw. destruct Hw as (Hn & _). cbn [fst] in Hn.
      destruct (ident_valid_shape n Hn) as (c0 & t & -> & H0 & Ht).
      cbn [tx_text map concat print_tx fst snd app] in HT. injection HT as ->.
      assert (HFn : (length t + 2 < F)%nat).
      { unfold tx_text, print_tx in HF. cbn [map concat fst snd] in HF. repeat (rewrite app_length in HF || cbn [length] in HF). lia. }
      rewrite peek_token_scan. rewrite <- !app_assoc.
      assert (E : exists q, (if comma then [32; 44] else []) ++ concat (map print_tx txs) ++ 32 :: 59 :: c2 :: r = 32 :: q).
      { destruct comma; cbn [app]; [eexists; reflexivity|]. fold (tx_text txs). apply tx_text_head. }
      destruct E as (q & Eq). rewrite Eq. change (c0 :: t ++ 32 :: q) with ((c0 :: t) ++ 32 :: q).
      rewrite (scan_ws_ident 32); try assumption; try side. eexists; eexists; split; [reflexivity|left; reflexivity].
  Qed.

  Lemma transmitters_run : forall txs f racc TAIL c2 r last P l K ll,
    32 :: TAIL = tx_text txs ++ 32 :: 59 :: c2 :: r -> Forall (fun x => ident_valid (fst x) = true) txs -> ascii c2 ->
    (length txs < f)%nat -> (length (tx_text txs) + 4 < F)%nat -> 0 <= K ->
    exists tk, transmitters_loop il id F f racc (PS (mkS TAIL last P l K ll 32 ws_default) None)
               = POk (rev racc ++ map fst txs)
                     (PS (stepS c2 r (P + blen (tx_text txs) + 1) l (K + blen (tx_text txs) + 1) ll c2 ws_default) (Some tk))
               /\ t_typ tk = 59.
  Proof.
    induction txs as [|[n comma] txs IH]; intros f racc TAIL c2 r last P l K ll HT Hw Hc2 Hf HF HK.
    - cbn [tx_text map concat app] in HT. injection HT as ->. destruct f as [|f]; [lia|].
      cbn [transmitters_loop]. unfold bind at 1.
      destruct (peek_ws_punct 32 59 c2 r last P l K ll ws_default) as (tk & Ep & Ety); try side.
      rewrite Ep, Ety. change (59 =? c_semi) with true. cbn [negb]. unfold ret. cbn [tx_text map concat].
      rewrite app_nil_r, blen_nil, !Z.add_0_r. exists tk. split; [reflexivity|exact Ety].
    - apply Forall_cons_iff in Hw. destruct Hw as (Hn & Hw'). cbn [fst] in Hn. destruct f as [|f]; [cbn in Hf; lia|].
      cbn [tx_text map concat print_tx fst snd app] in HT. fold (tx_text txs) in HT. injection HT as ->.
      destruct (tx_text_head txs (59 :: c2 :: r)) as (T' & ET').
      assert (HFn : (length n + length (tx_text txs) + 4 < F)%nat).
      { unfold tx_text, print_tx in HF. cbn [map concat fst snd] in HF. fold print_tx in HF. fold (tx_text txs) in HF.
        repeat (rewrite app_length in HF || cbn [length] in HF). lia. }
      pose proof (blen_nonneg n) as Hnn.
      cbn [transmitters_loop]. unfold bind at 1. rewrite <- !app_assoc.
      assert (E : exists q, (if comma then [32; 44] else []) ++ tx_text txs ++ 32 :: 59 :: c2 :: r = 32 :: q
                            /\ (comma = true -> q = 44 :: 32 :: T') /\ (comma = false -> q = T')).
      { destruct comma; cbn [app].
        - eexists. split; [reflexivity|]. split; [intros _; rewrite ET'; reflexivity|discriminate].
        - rewrite ET'. eexists. split; [reflexivity|]. split; [discriminate|reflexivity]. }
      destruct E as (q & Eq & Eqc & Eqn). rewrite Eq.
      destruct (ident_valid_shape n Hn) as (c0 & t & En & H0 & Ht). rewrite En.
      rewrite peek_token_scan. rewrite (scan_ws_ident 32); try assumption; try side; [|rewrite En in HFn; cbn [length] in HFn; lia].
      cbn [t_typ]. change (TIdent =? c_semi) with false. cbn [negb]. unfold bind at 1.
      rewrite p_identifier_look; [|reflexivity|cbn [t_txt]; rewrite <- En; exact Hn]. cbn [t_txt]. rewrite <- En.
      rewrite stepS_plain by discriminate. unfold bind at 1.
      destruct comma.
      + rewrite (Eqc eq_refl). unfold optional_token. unfold bind at 1.
        destruct (peek_ws_punct 32 44 32 T' [32] (P + 1 + blen t + 1) l (K + 1 + blen t + 1) ll ws_default) as (tk1 & Ep & Ety); try side.
        { pose proof (blen_nonneg t). lia. }
        rewrite Ep, Ety. change (44 =? c_comma) with true. cbv beta iota. rewrite (p_token_look _ tk1 c_comma Ety).
        rewrite stepS_plain by discriminate.
        destruct (IH f (n :: racc) T' c2 r [32] (P + 1 + blen t + 1 + 1 + 1) l (K + 1 + blen t + 1 + 1 + 1) ll (eq_sym ET') Hw' Hc2
                    ltac:(cbn in Hf; lia) ltac:(lia) ltac:(pose proof (blen_nonneg t); lia)) as (tk & E & Ety2).
        exists tk. split; [|exact Ety2]. rewrite E. cbn [rev map fst]. rewrite <- app_assoc. cbn [app]. f_equal. f_equal.
        cbn [tx_text map concat print_tx fst snd]. fold (tx_text txs). rewrite En. unfold print_tx. cbn [fst snd].
        repeat (rewrite blen_app || rewrite blen_cons). rewrite ?blen_nil. apply stepS_eq; lia.
      + rewrite (Eqn eq_refl). unfold optional_token. unfold bind at 1.
        destruct (tx_peek txs T' c2 r [32] (P + 1 + blen t + 1) l (K + 1 + blen t + 1) ll (eq_sym ET') Hw' Hc2 ltac:(lia)
                    ltac:(pose proof (blen_nonneg t); lia)) as (t1 & st1 & Ep & Hty).
        rewrite Ep. assert (Enc : (t_typ t1 =? c_comma) = false) by (destruct Hty as [-> | ->]; reflexivity). rewrite Enc.
        unfold ret at 1. rewrite (tx_loop_after_peek _ _ _ _ _ Ep).
        destruct (IH f (n :: racc) T' c2 r [32] (P + 1 + blen t + 1) l (K + 1 + blen t + 1) ll (eq_sym ET') Hw' Hc2
                    ltac:(cbn in Hf; lia) ltac:(lia) ltac:(pose proof (blen_nonneg t); lia)) as (tk & E & Ety2).
        exists tk. split; [|exact Ety2]. rewrite E. cbn [rev map fst]. rewrite <- app_assoc. cbn [app]. f_equal. f_equal.
        cbn [tx_text map concat print_tx fst snd]. fold (tx_text txs). rewrite En. unfold print_tx. cbn [fst snd].
        repeat (rewrite blen_app || rewrite blen_cons). rewrite ?blen_nil. apply stepS_eq; lia.
  Qed.

  (** receivers / access nodes followed by " ;" : the loop ends with the ';' in the lookahead *)
  Lemma comma_idents_semi_run : forall rs f racc TAIL c2 r last P l K ll,
    32 :: TAIL = comma_list rs ++ 32 :: 59 :: c2 :: r -> Forall (fun x => ident_valid x = true) rs -> ascii c2 ->
    (length rs < f)%nat -> (length (comma_list rs) + 4 < F)%nat -> 0 <= K ->
    exists tk, comma_idents_loop il id F f racc (PS (mkS TAIL last P l K ll 32 ws_default) None)
               = POk (rev racc ++ rs)
                     (PS (stepS c2 r (P + blen (comma_list rs) + 1) l (K + blen (comma_list rs) + 1) ll c2 ws_default) (Some tk))
               /\ t_typ tk = 59.
  Proof.
    induction rs as [|x rs IH]; intros f racc TAIL c2 r last P l K ll HT Hw Hc2 Hf HF HK.
    - cbn [comma_list map concat app] in HT. injection HT as ->. destruct f as [|f]; [lia|].
      cbn [comma_idents_loop]. unfold bind at 1.
      destruct (peek_ws_punct 32 59 c2 r last P l K ll ws_default) as (tk & Ep & Ety); try side.
      rewrite Ep, Ety. change (59 =? c_comma) with false. cbv iota. unfold ret. cbn [comma_list map concat].
      rewrite app_nil_r, blen_nil, !Z.add_0_r. exists tk. split; [reflexivity|exact Ety].
    - apply Forall_cons_iff in Hw. destruct Hw as (Hx & Hw'). destruct f as [|f]; [cbn in Hf; lia|].
      cbn [comma_list map concat app] in HT. fold (comma_list rs) in HT. injection HT as ->.
      assert (ET' : exists T', comma_list rs ++ 32 :: 59 :: c2 :: r = 32 :: T').
      { destruct rs as [|y rs']; cbn; eexists; reflexivity. }
      destruct ET' as (T' & ET').
      assert (HFx : (length x + length (comma_list rs) + 6 < F)%nat).
      { unfold comma_list in HF |- *. cbn [map concat] in HF. repeat (rewrite app_length in HF || cbn [length] in HF). lia. }
      pose proof (blen_nonneg x) as Hnx.
      cbn [comma_idents_loop]. unfold bind at 1.
      rewrite <- app_assoc. rewrite ET'.
      destruct (peek_ws_punct 32 44 32 (x ++ 32 :: T') last P l K ll ws_default) as (tk1 & Ep & Ety); try side.
      rewrite Ep, Ety. change (44 =? c_comma) with true. cbv beta iota. unfold bind at 1.
      rewrite (p_token_look _ tk1 c_comma Ety). unfold bind at 1. rewrite stepS_plain by discriminate.
      rewrite p_identifier_ws by side. rewrite stepS_plain by discriminate.
      destruct (IH f (x :: racc) T' c2 r [32] (P + 1 + 1 + blen x + 1) l (K + 1 + 1 + blen x + 1) ll (eq_sym ET') Hw' Hc2
                  ltac:(cbn in Hf; lia) ltac:(lia) ltac:(lia)) as (tk & E & Ety2).
      exists tk. split; [|exact Ety2]. rewrite E. cbn [rev]. rewrite <- app_assoc. cbn [app]. f_equal. f_equal.
      cbn [comma_list map concat]. fold (comma_list rs). repeat (rewrite blen_app || rewrite blen_cons). apply stepS_eq; lia.
  Qed.

  (** ------------------------------------------------------------ ENVVAR_DATA_, SIG_VALTYPE_, BO_TX_BU_ *)

  Ltac ready_at HR :=
    match goal with |- Ready _ _ ?X _ _ => match type of HR with Ready _ _ ?Y _ _ => replace X with Y; [exact HR|] end end.

  Lemma step_envvar_data : forall n sz rest R line off ll, wf_sdef (SEnvVarData n sz) ->
    print_def cr (SEnvVarData n sz) ++ rest = kw_envvar_data ++ 32 :: R ->
    (length (print_def cr (SEnvVarData n sz)) + 4 <= F)%nat ->
    exists st', parse_envvar_data il id F (canon line off kw_envvar_data 32 R ll)
                = POk (elab_def cr line off (SEnvVarData n sz)) st'
                /\ Ready SL (line + 1) (off + blen (print_def cr (SEnvVarData n sz))) rest st'.
  Proof.
    intros n sz rest R line off ll (Hn & Hsz) HR HF. cbn [print_def] in *.
    rewrite <- app_assoc in HR. apply app_inv_head in HR. cbn [app] in HR. injection HR as <-.
    repeat (rewrite <- app_assoc; cbn [app]).
    repeat (rewrite app_length in HF || cbn [length] in HF). unfold kw_envvar_data in HF. cbn [length] in HF. eol rest.
    pose proof (blen_nonneg n). pose proof (blen_nonneg sz). assert (Hk : blen kw_envvar_data = 12) by reflexivity.
    unfold parse_envvar_data, canon. unfold bind at 1. rewrite p_keyword_canon. rewrite stepS_plain by discriminate.
    unfold bind at 1. rewrite p_identifier_ws by side. rewrite stepS_plain by discriminate.
    unfold bind at 1. rewrite p_token_ws by side. rewrite stepS_plain by discriminate.
    unfold bind at 1. rewrite p_uint_ws by side. rewrite stepS_plain by discriminate.
    unfold bind at 1.
    match goal with |- context [p_token il id F c_semi (PS (mkS (59 :: ce :: re) ?LA ?PP ?LL ?KK ?L2 32 ws_default) None)] =>
      destruct (finish_semi_ws rest ce re LA PP LL KK L2 (eq_sym Ee) ltac:(lia) ltac:(lia)) as (st' & E & HRd) end.
    rewrite E. unfold ret. cbn [elab_def kwtok t_pos]. exists st'. split; [reflexivity|].
    ready_at HRd. repeat (rewrite blen_app || rewrite blen_cons). rewrite blen_nil. lia.
  Qed.

  Ltac prep HR HF kwc :=
    cbn [print_def print_obj] in *; unfold print_quoted in *;
    rewrite <- app_assoc in HR; apply app_inv_head in HR; cbn [app] in HR; injection HR as <-;
    repeat (rewrite <- app_assoc; cbn [app]);
    repeat (rewrite app_length in HF || cbn [length] in HF); unfold kwc in HF; cbn [length] in HF.

  Ltac fin_ws rest :=
    match goal with |- context [p_token il id F c_semi (PS (mkS (59 :: ?CE :: ?RE) ?LA ?PP ?LL ?KK ?L2 32 ws_default) None)] =>
      let st' := fresh "st'" in let E := fresh "E" in let HRd := fresh "HRd" in
      match goal with
      | Ee' : cr ++ 10 :: rest = CE :: RE |- _ =>
        destruct (finish_semi_ws rest CE RE LA PP LL KK L2 (eq_sym Ee') ltac:(lia) ltac:(lia)) as (st' & E & HRd)
      | Ee' : CE :: RE = cr ++ 10 :: rest |- _ =>
        destruct (finish_semi_ws rest CE RE LA PP LL KK L2 Ee' ltac:(lia) ltac:(lia)) as (st' & E & HRd) end;
      rewrite E; unfold ret; cbn [elab_def kwtok t_pos]; exists st'; split; [|ready_at HRd] end.

  Lemma scan_ws_digit : forall d c r last pos l k ll, is_decimal d = true -> numterm c -> (3 < F)%nat -> 0 <= k ->
    sc_scan (mkS (d :: c :: r) last pos l k ll 32 ws_default)
    = SOk ({| t_typ := TInt; t_pos := {| p_line := l; p_column := k + 1; p_offset := pos |}; t_txt := [d] |},
           stepS c r (pos + 1) l (k + 1) ll c ws_default).
  Proof.
    intros d c r last pos l k ll Hd Hc HF Hk. change (d :: c :: r) with ((d :: []) ++ c :: r).
    rewrite (scan_ws_uint 32 d [] c r last pos l k ll ws_default ws32 ws_def); try assumption;
      [|cbn [length]; lia|apply Forall_nil|right; reflexivity].
    rewrite blen_nil, !Z.add_0_r. reflexivity.
  Qed.

  Lemma step_sig_valtype : forall i n colon t rest R line off ll, wf_sdef (SSigValType i n colon t) ->
    print_def cr (SSigValType i n colon t) ++ rest = kw_signal_value_type ++ 32 :: R ->
    (length (print_def cr (SSigValType i n colon t)) + 4 <= F)%nat ->
    exists st', parse_signal_value_type il id F (canon line off kw_signal_value_type 32 R ll)
                = POk (elab_def cr line off (SSigValType i n colon t)) st'
                /\ Ready SL (line + 1) (off + blen (print_def cr (SSigValType i n colon t))) rest st'.
  Proof.
    intros i n colon t rest R line off ll ((Hi & Hv) & Hn & Ht) HR HF. prep HR HF kw_signal_value_type. eol rest.
    destruct (wf_enum_uint t 2 Ht ltac:(lia)) as (_ & _ & Hlt).
    pose proof (blen_nonneg i). pose proof (blen_nonneg n). pose proof (blen_nonneg t).
    assert (Hk : blen kw_signal_value_type = 12) by reflexivity.
    unfold parse_signal_value_type, canon. unfold bind at 1. rewrite p_keyword_canon. rewrite stepS_plain by discriminate.
    unfold bind at 1. rewrite p_message_id_ws by side. rewrite stepS_plain by discriminate.
    destruct colon; cbn [app] in *;
      (unfold bind at 1; rewrite p_identifier_ws by side; rewrite stepS_plain by discriminate;
       unfold bind at 1; unfold optional_token; unfold bind at 1).
    - match goal with |- context [peek_token (PS (mkS (58 :: 32 :: ?RR) ?LA ?PP ?LL ?KK ?L2 32 ws_default) None)] =>
        destruct (peek_ws_punct 32 58 32 RR LA PP LL KK L2 ws_default) as (tk & Ep & Ety); try side end.
      rewrite Ep, Ety. change (58 =? c_colon) with true. cbv beta iota. rewrite (p_token_look _ tk c_colon Ety).
      rewrite stepS_plain by discriminate.
      unfold bind at 1. rewrite (p_small_enum_ws t 2) by side. rewrite stepS_plain by discriminate.
      unfold bind at 1. fin_ws rest; [reflexivity|].
      repeat (rewrite blen_app || rewrite blen_cons). rewrite ?blen_nil. lia.
    - destruct Ht as (d & -> & Hd). cbn [app].
      assert (Hdec : is_decimal d = true) by (unfold is_decimal; apply andb_true_iff; split; apply Z.leb_le; lia).
      match goal with |- context [peek_token (PS ?S0 None)] =>
        assert (Epk : exists tk S1, peek_token (PS S0 None) = POk tk (PS S1 (Some tk)) /\ t_typ tk = TInt) end.
      { rewrite peek_token_scan. rewrite scan_ws_digit by side. eexists; eexists; split; reflexivity. }
      destruct Epk as (tk & S1 & Epk & Ety). rewrite Epk, Ety. change (TInt =? c_colon) with false. cbv beta iota. unfold ret at 1.
      unfold bind at 1. rewrite (small_enum_after_peek 2 _ _ _ Epk).
      change (d :: 32 :: 59 :: ce :: re) with ([d] ++ 32 :: 59 :: ce :: re).
      rewrite (p_small_enum_ws [d] 2); try side; [|exists d; split; [reflexivity|lia]].
      rewrite stepS_plain by discriminate.
      unfold bind at 1. fin_ws rest; [reflexivity|].
      repeat (rewrite blen_app || rewrite blen_cons). rewrite ?blen_nil. lia.
  Qed.

  Lemma step_msgtx : forall i txs rest R line off ll, wf_sdef (SMsgTx i txs) ->
    print_def cr (SMsgTx i txs) ++ rest = kw_message_transmitters ++ 32 :: R ->
    (length (print_def cr (SMsgTx i txs)) + 4 <= F)%nat ->
    exists st', parse_message_transmitters il id F (canon line off kw_message_transmitters 32 R ll)
                = POk (elab_def cr line off (SMsgTx i txs)) st'
                /\ Ready SL (line + 1) (off + blen (print_def cr (SMsgTx i txs))) rest st'.
  Proof.
    intros i txs rest R line off ll ((Hi & Hv) & Htx) HR HF. fold (tx_text txs) in *. prep HR HF kw_message_transmitters. eol rest.
    fold (tx_text txs) in *.
    pose proof (blen_nonneg i). pose proof (blen_nonneg (tx_text txs)).
    assert (Hk : blen kw_message_transmitters = 9) by reflexivity.
    destruct (tx_text_head txs (59 :: ce :: re)) as (T & ET).
    pose proof (sp_list_length_ge _ (fun x : bytes * bool => fst x) txs) as _.
    assert (Hlen : (length txs <= length (tx_text txs))%nat).
    { clear. induction txs as [|x txs IH]; cbn [tx_text map concat length]; [lia|]. fold (tx_text txs).
      rewrite app_length. unfold print_tx. cbn [length]. lia. }
    unfold parse_message_transmitters, canon. unfold bind at 1. rewrite p_keyword_canon. rewrite stepS_plain by discriminate.
    unfold bind at 1. rewrite p_message_id_ws by side. rewrite stepS_plain by discriminate.
    rewrite ET.
    unfold bind at 1. rewrite p_token_ws by side. rewrite stepS_plain by discriminate.
    unfold bind at 1.
    match goal with |- context [transmitters_loop il id F F [] (PS (mkS T ?LA ?PP ?LL ?KK ?L2 32 ws_default) None)] =>
      destruct (transmitters_run txs F [] T ce re LA PP LL KK L2 (eq_sym ET) Htx ltac:(first [assumption | unfold ascii; lia]) ltac:(lia) ltac:(lia)
                  ltac:(lia)) as (tk & E & Ety) end.
    rewrite E. unfold bind at 1.
    match goal with |- context [PS (stepS ce re ?PP ?LL ?KK ?L2 ce ws_default) (Some tk)] =>
      destruct (finish_semi_look tk rest ce re PP LL KK L2 (eq_sym Ee) Ety ltac:(lia)) as (st' & E2 & HRd) end.
    rewrite E2. unfold ret. cbn [elab_def kwtok t_pos rev app]. exists st'. split; [reflexivity|].
    ready_at HRd. repeat (rewrite blen_app || rewrite blen_cons). rewrite ?blen_nil. lia.
  Qed.

  (** ------------------------------------------------------------ VAL_TABLE_, VAL_, CM_, EV_ *)

  Lemma values_len : forall vs, (length vs <= length (print_values vs))%nat.
  Proof.
    induction vs as [|v vs IH]; cbn [print_values map concat length]; [lia|]. fold (print_values vs).
    rewrite app_length. unfold print_value. cbn [length]. lia.
  Qed.

  (** the common tail of VAL_TABLE_ and VAL_: the value list, then " ;" *)
  Lemma values_tail : forall (G : list value_description_def -> def) vs rest ce re T last P l K ll off,
    ce :: re = cr ++ 10 :: rest -> 32 :: T = print_values vs ++ 32 :: 59 :: ce :: re -> Forall wf_value vs ->
    (length (print_values vs) + 8 < F)%nat -> K = P - off -> 0 <= K ->
    exists st', (plet vs0 <- value_descriptions_loop il id F F []; p_token il id F c_semi ;; ret (G vs0))
                  (PS (mkS T last P l K ll 32 ws_default) None)
                = POk (G (elab_values l off P vs)) st'
                /\ Ready SL (l + 1) (P + blen (print_values vs) + 1 + blen cr + 1) rest st'.
  Proof.
    intros G vs rest ce re T last P l K ll off Ee HT Hw HF HK HK0. pose proof (values_len vs) as Hl. eolh Ee.
    pose proof (blen_nonneg (print_values vs)) as Hnv.
    destruct (values_run vs F [] T ce re last P l K ll off HT Hw ltac:(first [assumption | unfold ascii; lia]) ltac:(lia) HF HK HK0) as (tk & E & Ety).
    unfold bind at 1. rewrite E. unfold bind at 1.
    match goal with |- context [PS (stepS ce re ?PP ?LL ?KK ?L2 ce ws_default) (Some tk)] =>
      destruct (finish_semi_look tk rest ce re PP LL KK L2 Ee Ety ltac:(lia)) as (st' & E2 & HRd) end.
    rewrite E2. unfold ret. cbn [rev app]. exists st'. split; [reflexivity|exact HRd].
  Qed.

  Lemma step_value_table : forall n vs rest R line off ll, wf_sdef (SValueTable n vs) ->
    print_def cr (SValueTable n vs) ++ rest = kw_value_table ++ 32 :: R ->
    (length (print_def cr (SValueTable n vs)) + 4 <= F)%nat ->
    exists st', parse_value_table il id F (canon line off kw_value_table 32 R ll)
                = POk (elab_def cr line off (SValueTable n vs)) st'
                /\ Ready SL (line + 1) (off + blen (print_def cr (SValueTable n vs))) rest st'.
  Proof.
    intros n vs rest R line off ll (Hn & Hvs) HR HF. prep HR HF kw_value_table. eol rest.
    pose proof (blen_nonneg n). pose proof (blen_nonneg (print_values vs)).
    assert (Hk : blen kw_value_table = 10) by reflexivity.
    destruct (print_values_head vs (59 :: ce :: re)) as (T & ET). rewrite ET.
    unfold parse_value_table, canon. unfold bind at 1. rewrite p_keyword_canon. rewrite stepS_plain by discriminate.
    unfold bind at 1. rewrite p_identifier_ws by side. rewrite stepS_plain by discriminate.
    match goal with |- context [PS (mkS T ?LA ?PP ?LL ?KK ?L2 32 ws_default) None] =>
      destruct (values_tail (DValueTable {| p_line := line; p_column := 1; p_offset := off |} n) vs rest ce re T LA PP LL KK L2 off
                  (eq_sym Ee) (eq_sym ET) Hvs ltac:(lia) ltac:(lia) ltac:(lia)) as (st' & E & HRd) end.
    exists st'. split; [exact E|]. ready_at HRd.
    repeat (rewrite blen_app || rewrite blen_cons). rewrite ?blen_nil. lia.
  Qed.

  Lemma step_values : forall i n vs rest R line off ll, wf_sdef (SValues i n vs) ->
    print_def cr (SValues i n vs) ++ rest = kw_value_descriptions ++ 32 :: R ->
    (length (print_def cr (SValues i n vs)) + 4 <= F)%nat ->
    exists st', parse_value_descriptions il id F (canon line off kw_value_descriptions 32 R ll)
                = POk (elab_def cr line off (SValues i n vs)) st'
                /\ Ready SL (line + 1) (off + blen (print_def cr (SValues i n vs))) rest st'.
  Proof.
    intros i n vs rest R line off ll Hw HR HF.
    assert (Hk : blen kw_value_descriptions = 4) by reflexivity.
    pose proof (blen_nonneg n). pose proof (blen_nonneg (print_values vs)).
    destruct i as [i|]; cbn [wf_sdef] in Hw.
    - destruct Hw as ((Hi & Hv) & Hn & Hvs). prep HR HF kw_value_descriptions. eol rest.
      destruct (print_values_head vs (59 :: ce :: re)) as (T & ET). pose proof (blen_nonneg i). rewrite ET.
      unfold parse_value_descriptions, canon. unfold bind at 1. rewrite p_keyword_canon. rewrite stepS_plain by discriminate.
      unfold bind at 1.
      match goal with |- context [peek_token (PS ?S0 None)] =>
        assert (Epk : exists tk S1, peek_token (PS S0 None) = POk tk (PS S1 (Some tk)) /\ t_typ tk = TInt) end.
      { rewrite peek_token_scan. destruct Hi as ((d0 & t & -> & Hd & Ht & Hz) & _).
        rewrite (scan_ws_uint 32); try side; [|cbn [length] in HF; lia]. eexists; eexists; split; reflexivity. }
      destruct Epk as (tk & S1 & Epk & Ety). rewrite Epk, Ety. change (TInt =? TIdent) with false. cbv iota.
      unfold bind at 1. unfold bind at 1. rewrite (msgid_after_peek _ _ _ Epk).
      rewrite p_message_id_ws by side. rewrite stepS_plain by discriminate.
      unfold bind at 1. rewrite p_identifier_ws by side. rewrite stepS_plain by discriminate.
      unfold ret at 1. cbv beta iota.
      match goal with |- context [PS (mkS T ?LA ?PP ?LL ?KK ?L2 32 ws_default) None] =>
        destruct (values_tail (fun vs0 => DValueDescriptions {| vs_pos := {| p_line := line; p_column := 1; p_offset := off |};
                                 vs_object := OtSignal; vs_message_id := uint_value i mod 2 ^ 32; vs_signal := n; vs_envvar := [];
                                 vs_values := vs0 |}) vs rest ce re T LA PP LL KK L2 off
                    (eq_sym Ee) (eq_sym ET) Hvs ltac:(lia) ltac:(lia) ltac:(lia)) as (st' & E & HRd) end.
      exists st'. split; [exact E|]. ready_at HRd.
      repeat (rewrite blen_app || rewrite blen_cons). rewrite ?blen_nil. lia.
    - destruct Hw as (Hn & Hvs). prep HR HF kw_value_descriptions. eol rest.
      destruct (print_values_head vs (59 :: ce :: re)) as (T & ET). rewrite ET.
      unfold parse_value_descriptions, canon. unfold bind at 1. rewrite p_keyword_canon. rewrite stepS_plain by discriminate.
      unfold bind at 1.
      match goal with |- context [peek_token (PS ?S0 None)] =>
        assert (Epk : exists tk S1, peek_token (PS S0 None) = POk tk (PS S1 (Some tk)) /\ t_typ tk = TIdent) end.
      { rewrite peek_token_scan. destruct (ident_valid_shape n Hn) as (c0 & t & -> & Hid0 & Hidt).
        rewrite (scan_ws_ident 32); try side; [|cbn [length] in HF; lia]. eexists; eexists; split; reflexivity. }
      destruct Epk as (tk & S1 & Epk & Ety). rewrite Epk, Ety. change (TIdent =? TIdent) with true. cbv iota.
      unfold bind at 1. unfold bind at 1.
      assert (Eid : p_identifier il id F (PS S1 (Some tk)) = p_identifier il id F
                      (PS (mkS (n ++ 32 :: T) [32] (off + blen kw_value_descriptions + 1) line (blen kw_value_descriptions + 1) ll 32 ws_default) None))
        by exact (bind_next_after_peek _ _ _ Epk _ _).
      rewrite Eid. rewrite p_identifier_ws by side. rewrite stepS_plain by discriminate.
      unfold ret at 1. cbv beta iota.
      match goal with |- context [PS (mkS T ?LA ?PP ?LL ?KK ?L2 32 ws_default) None] =>
        destruct (values_tail (fun vs0 => DValueDescriptions {| vs_pos := {| p_line := line; p_column := 1; p_offset := off |};
                                 vs_object := OtEnvVar; vs_message_id := 0; vs_signal := []; vs_envvar := n;
                                 vs_values := vs0 |}) vs rest ce re T LA PP LL KK L2 off
                    (eq_sym Ee) (eq_sym ET) Hvs ltac:(lia) ltac:(lia) ltac:(lia)) as (st' & E & HRd) end.
      exists st'. split; [exact E|]. ready_at HRd.
      repeat (rewrite blen_app || rewrite blen_cons). rewrite ?blen_nil. lia.
  Qed.

  Ltac ready_at2 HR :=
    match goal with |- Ready _ ?L ?X _ _ => match type of HR with Ready _ ?L' ?Y _ _ =>
      replace L with L'; [replace X with Y; [exact HR|]|] end end.

  Ltac fin_ws2 rest :=
    match goal with |- context [p_token il id F c_semi (PS (mkS (59 :: ?CE :: ?RE) ?LA ?PP ?LL ?KK ?L2 32 ws_default) None)] =>
      let st' := fresh "st'" in let E := fresh "E" in let HRd := fresh "HRd" in
      match goal with
      | Ee' : cr ++ 10 :: rest = CE :: RE |- _ =>
        destruct (finish_semi_ws rest CE RE LA PP LL KK L2 (eq_sym Ee') ltac:(lia) ltac:(lia)) as (st' & E & HRd)
      | Ee' : CE :: RE = cr ++ 10 :: rest |- _ =>
        destruct (finish_semi_ws rest CE RE LA PP LL KK L2 Ee' ltac:(lia) ltac:(lia)) as (st' & E & HRd) end;
      rewrite E; unfold ret; cbn [elab_def kwtok t_pos]; exists st'; split; [|ready_at2 HRd] end.

  Ltac str_nl t Ht :=
    match goal with |- context [p_string il id F (PS (mkS (34 :: t ++ 34 :: 32 :: ?r) ?LA ?PP ?LL ?KK ?L2 32 ws_default) None)] =>
      let k' := fresh "k'" in let ll' := fresh "ll'" in let Hk' := fresh "Hk'" in let Es := fresh "Es" in
      destruct (p_string_nl_ws t 32 r LA PP LL KK L2 Ht ltac:(first [assumption | unfold ascii; lia]) ltac:(lia) ltac:(lia)) as (k' & ll' & Hk' & Es);
      rewrite Es; rewrite stepS_plain by discriminate end.

  Lemma step_comment : forall o t rest R line off ll, wf_sdef (SComment o t) ->
    print_def cr (SComment o t) ++ rest = kw_comment ++ 32 :: R ->
    (length (print_def cr (SComment o t)) + 4 <= F)%nat ->
    exists st', parse_comment il id F (canon line off kw_comment 32 R ll)
                = POk (elab_def cr line off (SComment o t)) st'
                /\ Ready SL (line + def_lines (SComment o t)) (off + blen (print_def cr (SComment o t))) rest st'.
  Proof.
    intros o t rest R line off ll (Ho & Ht) HR HF.
    assert (Hk : blen kw_comment = 3) by reflexivity. pose proof (blen_nonneg t).
    destruct o as [|n|i|i n|n]; cbn [print_obj wf_obj] in *.
    - (* CM_ "text" ; *)
      prep HR HF kw_comment. eol rest.
      unfold parse_comment, canon. unfold bind at 1. rewrite p_keyword_canon. rewrite stepS_plain by discriminate.
      unfold bind at 1.
      match goal with |- context [optional_object_type il id F (PS (mkS _ ?LA ?PP ?LL ?KK ?L2 32 ws_default) None)] =>
        destruct (quote_peek_n t 32 (59 :: ce :: re) LA PP LL KK L2 Ht ltac:(first [assumption | unfold ascii; lia]) ltac:(lia) ltac:(lia))
          as (tk & st1 & Epk & Ety) end.
      rewrite (opt_obj_none _ _ _ Epk Ety). unfold bind at 1. cbn [object_ref]. unfold ret at 1. cbv beta iota.
      unfold bind at 1. rewrite (p_string_after_peek _ _ _ Epk). str_nl t Ht.
      unfold bind at 1. fin_ws2 rest; [reflexivity| |cbn [def_lines]; lia].
      cbn [print_def print_obj]. repeat (rewrite blen_app || rewrite blen_cons). rewrite ?blen_nil. lia.
    - (* CM_ BU_ node "text" ; *)
      prep HR HF kw_comment. eol rest. unfold kw_nodes in HF. cbn [length] in HF. pose proof (blen_nonneg n).
      assert (Hk2 : blen kw_nodes = 3) by reflexivity.
      unfold parse_comment, canon. unfold bind at 1. rewrite p_keyword_canon. rewrite stepS_plain by discriminate.
      match goal with |- context [mkS (66 :: 85 :: 95 :: 32 :: ?X)] => change (66 :: 85 :: 95 :: 32 :: X) with (kw_nodes ++ 32 :: X) end.
      unfold bind at 1. rewrite (opt_obj_kw kw_nodes OtNode) by side. rewrite stepS_plain by discriminate.
      unfold bind at 1. cbn [object_ref]. unfold bind at 1. rewrite p_identifier_ws by side. rewrite stepS_plain by discriminate.
      unfold ret at 1. cbv beta iota.
      unfold bind at 1. str_nl t Ht.
      unfold bind at 1. fin_ws2 rest; [reflexivity| |cbn [def_lines]; lia].
      cbn [print_def print_obj]. repeat (rewrite blen_app || rewrite blen_cons). rewrite ?blen_nil. lia.
    - (* CM_ BO_ id "text" ; *)
      destruct Ho as (Hi & Hv). prep HR HF kw_comment. eol rest. unfold kw_message in HF. cbn [length] in HF. pose proof (blen_nonneg i).
      assert (Hk2 : blen kw_message = 3) by reflexivity.
      unfold parse_comment, canon. unfold bind at 1. rewrite p_keyword_canon. rewrite stepS_plain by discriminate.
      match goal with |- context [mkS (66 :: 79 :: 95 :: 32 :: ?X)] => change (66 :: 79 :: 95 :: 32 :: X) with (kw_message ++ 32 :: X) end.
      unfold bind at 1. rewrite (opt_obj_kw kw_message OtMessage) by side. rewrite stepS_plain by discriminate.
      unfold bind at 1. cbn [object_ref]. unfold bind at 1. rewrite p_message_id_ws by side. rewrite stepS_plain by discriminate.
      unfold ret at 1. cbv beta iota.
      unfold bind at 1. str_nl t Ht.
      unfold bind at 1. fin_ws2 rest; [reflexivity| |cbn [def_lines]; lia].
      cbn [print_def print_obj]. repeat (rewrite blen_app || rewrite blen_cons). rewrite ?blen_nil. lia.
    - (* CM_ SG_ id name "text" ; *)
      destruct Ho as ((Hi & Hv) & Hn). prep HR HF kw_comment. eol rest. unfold kw_signal in HF. cbn [length] in HF.
      pose proof (blen_nonneg i). pose proof (blen_nonneg n).
      assert (Hk2 : blen kw_signal = 3) by reflexivity.
      unfold parse_comment, canon. unfold bind at 1. rewrite p_keyword_canon. rewrite stepS_plain by discriminate.
      match goal with |- context [mkS (83 :: 71 :: 95 :: 32 :: ?X)] => change (83 :: 71 :: 95 :: 32 :: X) with (kw_signal ++ 32 :: X) end.
      unfold bind at 1. rewrite (opt_obj_kw kw_signal OtSignal) by side. rewrite stepS_plain by discriminate.
      unfold bind at 1. cbn [object_ref]. unfold bind at 1. rewrite p_message_id_ws by side. rewrite stepS_plain by discriminate.
      unfold bind at 1. rewrite p_identifier_ws by side. rewrite stepS_plain by discriminate.
      unfold ret at 1. cbv beta iota.
      unfold bind at 1. str_nl t Ht.
      unfold bind at 1. fin_ws2 rest; [reflexivity| |cbn [def_lines]; lia].
      cbn [print_def print_obj]. repeat (rewrite blen_app || rewrite blen_cons). rewrite ?blen_nil. lia.
    - (* CM_ EV_ name "text" ; *)
      prep HR HF kw_comment. eol rest. unfold kw_envvar in HF. cbn [length] in HF. pose proof (blen_nonneg n).
      assert (Hk2 : blen kw_envvar = 3) by reflexivity.
      unfold parse_comment, canon. unfold bind at 1. rewrite p_keyword_canon. rewrite stepS_plain by discriminate.
      match goal with |- context [mkS (69 :: 86 :: 95 :: 32 :: ?X)] => change (69 :: 86 :: 95 :: 32 :: X) with (kw_envvar ++ 32 :: X) end.
      unfold bind at 1. rewrite (opt_obj_kw kw_envvar OtEnvVar) by side. rewrite stepS_plain by discriminate.
      unfold bind at 1. cbn [object_ref]. unfold bind at 1. rewrite p_identifier_ws by side. rewrite stepS_plain by discriminate.
      unfold ret at 1. cbv beta iota.
      unfold bind at 1. str_nl t Ht.
      unfold bind at 1. fin_ws2 rest; [reflexivity| |cbn [def_lines]; lia].
      cbn [print_def print_obj]. repeat (rewrite blen_app || rewrite blen_cons). rewrite ?blen_nil. lia.
  Qed.

  Lemma comma_list_head32 : forall rs X, exists T, comma_list rs ++ 32 :: X = 32 :: T.
  Proof. intros rs X. destruct rs as [|x rs]; cbn; eexists; reflexivity. Qed.

  Lemma step_envvar : forall n t mn mx u init i acc node nodes rest R line off ll,
    wf_sdef (SEnvVar n t mn mx u init i acc node nodes) ->
    print_def cr (SEnvVar n t mn mx u init i acc node nodes) ++ rest = kw_envvar ++ 32 :: R ->
    (length (print_def cr (SEnvVar n t mn mx u init i acc node nodes)) + 4 <= F)%nat ->
    exists st', parse_envvar il id F (canon line off kw_envvar 32 R ll)
                = POk (elab_def cr line off (SEnvVar n t mn mx u init i acc node nodes)) st'
                /\ Ready SL (line + 1) (off + blen (print_def cr (SEnvVar n t mn mx u init i acc node nodes))) rest st'.
  Proof.
    intros n t mn mx u init i acc node nodes rest R line off ll
      (Hn & Ht & Hmn & Hmx & Hu & Hinit & Hi & Hacc & Hnode & Hnodes) HR HF.
    fold (comma_list nodes) in *. prep HR HF kw_envvar. eol rest. fold (comma_list nodes) in *.
    destruct (wf_enum_uint t 2 Ht ltac:(lia)) as (_ & _ & Hlt).
    destruct (access_name_valid acc Hacc) as (Hav & _).
    assert (Hal : (length (access_name acc) = 18)%nat).
    { assert (H : acc = 0 \/ acc = 1 \/ acc = 2 \/ acc = 3) by lia. destruct H as [->|[->|[->| ->]]]; reflexivity. }
    pose proof (blen_nonneg n). pose proof (blen_nonneg t). pose proof (blen_nonneg (print_num mn)). pose proof (blen_nonneg (print_num mx)).
    pose proof (blen_nonneg u). pose proof (blen_nonneg (print_num init)). pose proof (blen_nonneg i).
    pose proof (blen_nonneg (access_name acc)). pose proof (blen_nonneg node). pose proof (blen_nonneg (comma_list nodes)).
    pose proof (comma_list_length_ge nodes) as Hcl.
    assert (Hk : blen kw_envvar = 3) by reflexivity.
    destruct (comma_list_head32 nodes (59 :: ce :: re)) as (T & ET). rewrite ET.
    unfold parse_envvar, canon. unfold bind at 1. rewrite p_keyword_canon. rewrite stepS_plain by discriminate.
    unfold bind at 1. rewrite p_identifier_ws by side. rewrite stepS_plain by discriminate.
    unfold bind at 1. rewrite p_token_ws by side. rewrite stepS_plain by discriminate.
    unfold bind at 1. rewrite (p_small_enum_ws t 2) by side. rewrite stepS_plain by discriminate.
    unfold bind at 1. rewrite p_token_ws by side. rewrite stepS_plain by discriminate.
    unfold bind at 1. rewrite p_float_ws by side. rewrite stepS_plain by discriminate.
    unfold bind at 1. rewrite p_token_ws by side. rewrite stepS_plain by discriminate.
    unfold bind at 1. rewrite p_float_ws by side. rewrite stepS_plain by discriminate.
    unfold bind at 1. rewrite p_token_ws by side. rewrite stepS_plain by discriminate.
    unfold bind at 1. rewrite p_string_ws by side. rewrite stepS_plain by discriminate.
    unfold bind at 1. rewrite p_float_ws by side. rewrite stepS_plain by discriminate.
    unfold bind at 1. rewrite p_uint_ws by side. rewrite stepS_plain by discriminate.
    unfold bind at 1. rewrite p_access_type_ws by side. rewrite stepS_plain by discriminate.
    unfold bind at 1. unfold comma_idents. unfold bind at 1. rewrite p_identifier_ws by side. rewrite stepS_plain by discriminate.
    match goal with |- context [comma_idents_loop il id F F [node] (PS (mkS T ?LA ?PP ?LL ?KK ?L2 32 ws_default) None)] =>
      destruct (comma_idents_semi_run nodes F [node] T ce re LA PP LL KK L2 (eq_sym ET) Hnodes ltac:(first [assumption | unfold ascii; lia])
                  ltac:(lia) ltac:(lia) ltac:(lia)) as (tk & E & Ety) end.
    rewrite E. unfold bind at 1.
    match goal with |- context [PS (stepS ce re ?PP ?LL ?KK ?L2 ce ws_default) (Some tk)] =>
      destruct (finish_semi_look tk rest ce re PP LL KK L2 (eq_sym Ee) Ety ltac:(lia)) as (st' & E2 & HRd) end.
    rewrite E2. unfold ret. cbn [elab_def kwtok t_pos rev app]. exists st'. split; [reflexivity|].
    ready_at HRd. repeat (rewrite blen_app || rewrite blen_cons). rewrite ?blen_nil. lia.
  Qed.

  (** ------------------------------------------------------------ BA_DEF_, BA_DEF_DEF_, BA_ *)

  Lemma idc_plain : forall c, idc c = true -> plain_char c.
  Proof.
    intros c H. unfold idc, ascii_letter, is_decimal in H. unfold plain_char.
    repeat (apply orb_true_iff in H; destruct H as [H|H]); try (apply andb_true_iff in H; destruct H); lia.
  Qed.

  Lemma ident_plain : forall n, ident_valid n = true -> str_ok n.
  Proof.
    intros n H. apply plain_str_ok. destruct (ident_valid_shape n H) as (c0 & t & -> & H0 & Ht). constructor.
    - apply idc_plain, id0_idc, H0.
    - eapply Forall_impl; [|exact Ht]. intros a Ha. apply idc_plain, Ha.
  Qed.

  Lemma psi_after_peek : forall st t st1, peek_token st = POk t st1 ->
    p_string_identifier il id F st1 = p_string_identifier il id F st.
  Proof. intros st t st1 H. exact (bind_peek_after_peek _ _ _ H _ _). Qed.

  Lemma p_string_identifier_ws : forall n c2 r last pos l k ll,
    ident_valid n = true -> ascii c2 -> (length n + 3 < F)%nat -> 0 <= k ->
    p_string_identifier il id F (PS (mkS (34 :: n ++ 34 :: c2 :: r) last pos l k ll 32 ws_default) None)
    = POk n (PS (stepS c2 r (pos + blen n + 2) l (k + blen n + 2) ll c2 ws_default) None).
  Proof.
    intros n c2 r last pos l k ll Hn Hc2 HF Hk. pose proof (ident_plain n Hn) as Hp.
    destruct (quote_peek n c2 r last pos l k ll Hp Hc2 ltac:(lia) Hk) as (tk & st1 & Epk & Ety).
    unfold p_string_identifier. unfold bind at 1. rewrite Epk. unfold bind at 1.
    rewrite (p_string_after_peek _ _ _ Epk). rewrite p_string_ws by side. rewrite Hn. reflexivity.
  Qed.

  Definition attr_type_name (t : attr_type) : bytes :=
    match t with AtInt => s_INT | AtHex => s_HEX | AtFloat => s_FLOAT | AtString => s_STRING | AtEnum => s_ENUM end.

  Lemma p_attr_type_ws : forall ty c r last pos l k ll,
    ascii c -> idc c = false -> (10 < F)%nat -> 0 <= k ->
    p_attribute_value_type il id F (PS (mkS (attr_type_name ty ++ c :: r) last pos l k ll 32 ws_default) None)
    = POk ty (PS (stepS c r (pos + blen (attr_type_name ty)) l (k + blen (attr_type_name ty)) ll c ws_default) None).
  Proof.
    intros ty c r last pos l k ll Hc Hnc HF Hk.
    assert (Hv : ident_valid (attr_type_name ty) = true /\ attr_type_of (attr_type_name ty) = Some ty
                 /\ (length (attr_type_name ty) <= 6)%nat) by (destruct ty; repeat split; cbn; lia).
    destruct Hv as (Hv & Hat & Hlen). destruct (ident_valid_shape _ Hv) as (c0 & t & En & H0 & Ht).
    unfold p_attribute_value_type, bind. rewrite peek_token_scan. rewrite En.
    rewrite (scan_ws_ident 32); try assumption; [|exact ws32|exact ws_def|rewrite En in Hlen; cbn [length] in Hlen; lia].
    rewrite p_identifier_look; [|reflexivity|cbn [t_txt]; rewrite <- En; exact Hv]. cbn [t_txt]. rewrite <- En, Hat.
    unfold ret. f_equal. f_equal. apply stepS_eq; rewrite En, blen_cons; lia.
  Qed.

  (** p.int() on a pending space followed by a (signed) number literal and [c] *)
  Lemma p_int_ws : forall n c r last pos l k ll,
    wf_num n -> numterm c -> (length (print_num n) + 5 < F)%nat -> 0 <= k ->
    p_int il id F (PS (mkS (print_num n ++ c :: r) last pos l k ll 32 ws_default) None)
    = POk (num_int n) (PS (stepS c r (pos + blen (print_num n)) l (k + blen (print_num n)) ll c ws_default) None).
  Proof.
    intros n c r last pos l k ll Hn Hc HF Hk.
    pose proof (int_of_token_num n Hn) as Hconv. rewrite <- (lit_typ_is_int n) in Hconv.
    destruct (num_shape n Hn) as (d0 & t0 & El & Hd & Ht & Hz & Hfp & Hex & Hpf).
    pose proof (lit_typ_cases (n_frac n) (n_exp n)) as Hty.
    unfold print_num in *. rewrite El in *.
    destruct (decimal_ge d0 Hd) as (H33 & Ha0 & H10).
    unfold p_int, optional_minus, bind. rewrite peek_token_scan. destruct (n_neg n); cbn [app]; cbn [app length] in HF.
    - rewrite (scan_ws_punct 32) by side.
      cbn [t_typ]. change (45 =? c_minus) with true. cbv beta iota.
      erewrite p_token_look by reflexivity. unfold ret at 1. rewrite next_token_scan.
      rewrite stepS_plain by assumption.
      rewrite (scan_direct_lit_typ d0 t0 (n_frac n) (n_exp n) c r (pos + 1 + 1) l (k + 1 + 1) ll ws_default ws_def ltac:(lia) ltac:(lia)
                  Hd Ht Hz Hfp Hex Hc).
      cbn [t_typ t_txt]. rewrite (num_typ_ok _ Hty). rewrite Hconv. unfold ret.
      f_equal. f_equal. apply stepS_eq; rewrite !blen_cons; lia.
    - change (d0 :: lit_tail t0 (n_frac n) (n_exp n) ++ c :: r) with ((d0 :: lit_tail t0 (n_frac n) (n_exp n)) ++ c :: r).
      rewrite (scan_ws_lit_typ 32 d0 t0 (n_frac n) (n_exp n) c r last pos l k ll ws_default ws32 ws_def ltac:(lia) Hk Hd Ht Hz Hfp Hex Hc).
      cbn [t_typ].
      assert (Enm : (lit_typ (n_frac n) (n_exp n) =? c_minus) = false) by (destruct Hty as [-> | ->]; reflexivity). rewrite Enm.
      cbv beta iota. unfold ret at 1. rewrite next_token_look.
      cbn [t_typ t_txt]. rewrite (num_typ_ok _ Hty). rewrite Hconv. unfold ret.
      f_equal. f_equal. apply stepS_eq; rewrite !blen_cons; lia.
  Qed.

  Lemma bind2_peek_after_peek : forall st t st1, peek_token st = POk t st1 ->
    forall A B (f : token -> M A) (g : A -> M B), bind (bind peek_token f) g st1 = bind (bind peek_token f) g st.
  Proof. intros st t st1 H A B f g. unfold bind. rewrite (peek_token_idem _ _ _ H), H. reflexivity. Qed.

  Lemma p_int_after_peek : forall st t st1, peek_token st = POk t st1 -> p_int il id F st1 = p_int il id F st.
  Proof. intros st t st1 H. exact (bind2_peek_after_peek _ _ _ H _ _ _ _). Qed.

  Lemma p_float_after_peek : forall st t st1, peek_token st = POk t st1 -> p_float il id F st1 = p_float il id F st.
  Proof. intros st t st1 H. exact (bind2_peek_after_peek _ _ _ H _ _ _ _). Qed.

  Lemma enum_value_after_peek : forall vs st t st1, peek_token st = POk t st1 ->
    enum_value il id F vs st1 = enum_value il id F vs st.
  Proof. intros vs st t st1 H. exact (bind_peek_after_peek _ _ _ H _ _). Qed.

  Lemma p_token_after_peek : forall ty st t st1, peek_token st = POk t st1 -> p_token il id F ty st1 = p_token il id F ty st.
  Proof. intros ty st t st1 H. exact (bind_next_after_peek _ _ _ H _ _). Qed.

  (** the attribute context agrees with the definitions parsed so far *)
  Definition ctx_agrees (ctx : actx) (defs : list def) : Prop :=
    forall n, option_map (fun a => (ad_type a, ad_enum_values a)) (find_attribute n defs) = lookup_ctx n ctx.

  Ltac fin_attr rest :=
    match goal with |- context [p_token il id F c_semi (PS (mkS (59 :: ?CE :: ?RE) ?LA ?PP ?LL ?KK ?L2 32 ws_default) None)] =>
      let st' := fresh "st'" in let E := fresh "E" in let HRd := fresh "HRd" in
      match goal with
      | Ee' : cr ++ 10 :: rest = CE :: RE |- _ =>
        destruct (finish_semi_ws rest CE RE LA PP LL KK L2 (eq_sym Ee') ltac:(lia) ltac:(lia)) as (st' & E & HRd)
      | Ee' : CE :: RE = cr ++ 10 :: rest |- _ =>
        destruct (finish_semi_ws rest CE RE LA PP LL KK L2 Ee' ltac:(lia) ltac:(lia)) as (st' & E & HRd) end;
      rewrite E; unfold ret; exists st'; split; [reflexivity|ready_at HRd];
      cbn [print_attr_value]; unfold print_quoted; repeat (rewrite blen_app || rewrite blen_cons); rewrite ?blen_nil; lia end.

  (** value and ';' of BA_DEF_DEF_ / BA_ *)
  Definition attr_tail (defs : list def) (name : bytes) (G : Z -> Z -> bytes -> def) : M def :=
    plet v <- attribute_value il id F defs name;
    let '(i, f, s) := v in
    p_token il id F c_semi ;; ret (G i f s).

  Lemma attr_tail_after_peek : forall defs name G st t st1, peek_token st = POk t st1 ->
    attr_tail defs name G st1 = attr_tail defs name G st.
  Proof.
    intros defs name G st t st1 H. unfold attr_tail, attribute_value.
    destruct (find_attribute name defs) as [a|].
    - destruct (ad_type a); unfold bind at 1 4; unfold bind at 1 3.
      + rewrite (p_int_after_peek _ _ _ H). reflexivity.
      + rewrite (p_int_after_peek _ _ _ H). reflexivity.
      + rewrite (p_float_after_peek _ _ _ H). reflexivity.
      + rewrite (p_string_after_peek _ _ _ H). reflexivity.
      + rewrite (enum_value_after_peek _ _ _ _ H). reflexivity.
    - unfold bind at 1 3. unfold ret at 1 3. cbv iota. unfold bind at 1 2. rewrite (p_token_after_peek _ _ _ _ H). reflexivity.
  Qed.

  Lemma attr_tail_run : forall ctx defs name v G rest ce re T last P l K ll,
    ctx_agrees ctx defs -> wf_attr_value ctx name v -> ce :: re = cr ++ 10 :: rest ->
    32 :: T = print_attr_value v ++ 32 :: 59 :: ce :: re ->
    (length (print_attr_value v) + 8 < F)%nat -> 0 <= K ->
    exists st', attr_tail defs name G (PS (mkS T last P l K ll 32 ws_default) None)
                = POk (let '(i, f, s) := elab_attr_value ctx name v in G i f s) st'
                /\ Ready SL (l + 1) (P + blen (print_attr_value v) + 1 + blen cr + 1) rest st'.
  Proof.
    intros ctx defs name v G rest ce re T last P l K ll Hag Hw Ee HT HF HK. eolh Ee.
    unfold wf_attr_value in Hw. pose proof (Hag name) as Hn. unfold attr_tail, attribute_value, elab_attr_value.
    destruct (lookup_ctx name ctx) as [[ty vs]|] eqn:El.
    - destruct (find_attribute name defs) as [a|]; [|discriminate Hn]. cbn [option_map] in Hn. injection Hn as Hty Hvs.
      rewrite Hty.
      destruct ty, v; try contradiction; cbn [print_attr_value app] in HT; injection HT as ->; cbn [print_attr_value] in HF;
        cbn [length] in HF.
      + (* INT *) unfold bind at 1. unfold bind at 1. rewrite p_int_ws by side. rewrite stepS_plain by discriminate.
        unfold ret at 1. cbv beta iota. unfold bind at 1.
        pose proof (blen_nonneg (print_num n)). fin_attr rest.
      + (* HEX *) unfold bind at 1. unfold bind at 1. rewrite p_int_ws by side. rewrite stepS_plain by discriminate.
        unfold ret at 1. cbv beta iota. unfold bind at 1.
        pose proof (blen_nonneg (print_num n)). fin_attr rest.
      + (* FLOAT *) unfold bind at 1. unfold bind at 1. rewrite p_float_ws by side. rewrite stepS_plain by discriminate.
        unfold ret at 1. cbv beta iota. unfold bind at 1.
        pose proof (blen_nonneg (print_num n)). fin_attr rest.
      + (* STRING *) unfold print_quoted in *. cbn [app length] in *. rewrite app_length in HF. cbn [length] in HF.
        rewrite <- app_assoc. cbn [app].
        unfold bind at 1. unfold bind at 1. rewrite p_string_ws by side. rewrite stepS_plain by discriminate.
        unfold ret at 1. cbv beta iota. unfold bind at 1. pose proof (blen_nonneg s). fin_attr rest.
      + (* ENUM by index *) destruct Hw as (Hi & Hlt). pose proof (blen_nonneg i).
        unfold bind at 1. unfold bind at 1. unfold enum_value. unfold bind at 1.
        match goal with |- context [peek_token (PS ?S0 None)] =>
          assert (Epk : exists tk S1, peek_token (PS S0 None) = POk tk (PS S1 (Some tk)) /\ t_typ tk = TInt) end.
        { rewrite peek_token_scan. destruct Hi as ((d0 & t & -> & Hd & Ht & Hz) & _).
          rewrite (scan_ws_uint 32); try side; [|cbn [length] in HF; lia]. eexists; eexists; split; reflexivity. }
        destruct Epk as (tk & S1 & Epk & Ety). rewrite Epk, Ety. change (TInt =? TInt) with true. cbv iota.
        unfold bind at 1.
        assert (Eu : p_uint il id F (PS S1 (Some tk)) = p_uint il id F (PS (mkS (i ++ 32 :: 59 :: ce :: re) last P l K ll 32 ws_default) None))
          by exact (bind_next_after_peek _ _ _ Epk _ _).
        rewrite Eu. rewrite p_uint_ws by side. rewrite stepS_plain by discriminate.
        rewrite Hvs. assert (Eb : (Z.of_nat (length vs) <=? uint_value i) = false) by (apply Z.leb_gt; lia). rewrite Eb.
        assert (Hnn : 0 <= uint_value i) by (destruct Hi as ((d0 & t & -> & Hd & Ht & Hz) & _); apply uint_value_nonneg; constructor; assumption).
        rewrite (nth_error_nth' vs [] (n := Z.to_nat (uint_value i))) by lia.
        unfold ret at 1. unfold ret at 1. cbv beta iota. unfold bind at 1. fin_attr rest.
      + (* ENUM by string *) unfold print_quoted in *. cbn [app length] in *. rewrite app_length in HF. cbn [length] in HF.
        rewrite <- app_assoc. cbn [app]. pose proof (blen_nonneg s).
        unfold bind at 1. unfold bind at 1. unfold enum_value. unfold bind at 1.
        destruct (quote_peek s 32 (59 :: ce :: re) last P l K ll Hw ltac:(first [assumption | unfold ascii; lia]) ltac:(lia) HK) as (tk & st1 & Epk & Ety).
        rewrite Epk, Ety. change (34 =? TInt) with false. cbv iota.
        rewrite (p_string_after_peek _ _ _ Epk). rewrite p_string_ws by side. rewrite stepS_plain by discriminate.
        unfold ret at 1. cbv beta iota. unfold bind at 1. fin_attr rest.
    - destruct (find_attribute name defs) as [a|]; [discriminate Hn|].
      destruct v; try contradiction. cbn [print_attr_value app] in HT. injection HT as ->.
      unfold bind at 1. unfold ret at 1. cbv beta iota. unfold bind at 1. fin_attr rest.
  Qed.

  (** further ENUM values: , "v" ... ; the loop ends with the ';' in the lookahead *)
  Definition enum_list (vs : list bytes) : bytes := concat (map (fun s => 32 :: 44 :: 32 :: print_quoted s) vs).

  Lemma enum_list_len : forall vs, (length vs <= length (enum_list vs))%nat.
  Proof.
    induction vs as [|v vs IH]; cbn [enum_list map concat length]; [lia|]. fold (enum_list vs). rewrite app_length. cbn [length]. lia.
  Qed.

  Lemma comma_strings_semi_run : forall vs f racc TAIL c2 r last P l K ll,
    32 :: TAIL = enum_list vs ++ 32 :: 59 :: c2 :: r -> Forall str_ok vs -> ascii c2 ->
    (length vs < f)%nat -> (length (enum_list vs) + 4 < F)%nat -> 0 <= K ->
    exists tk, comma_strings_loop il id F f racc (PS (mkS TAIL last P l K ll 32 ws_default) None)
               = POk (rev racc ++ vs)
                     (PS (stepS c2 r (P + blen (enum_list vs) + 1) l (K + blen (enum_list vs) + 1) ll c2 ws_default) (Some tk))
               /\ t_typ tk = 59.
  Proof.
    induction vs as [|x vs IH]; intros f racc TAIL c2 r last P l K ll HT Hw Hc2 Hf HF HK.
    - cbn [enum_list map concat app] in HT. injection HT as ->. destruct f as [|f]; [lia|].
      cbn [comma_strings_loop]. unfold bind at 1.
      destruct (peek_ws_punct 32 59 c2 r last P l K ll ws_default) as (tk & Ep & Ety); try side.
      rewrite Ep, Ety. change (59 =? c_comma) with false. cbv iota. unfold ret. cbn [enum_list map concat].
      rewrite app_nil_r, blen_nil, !Z.add_0_r. exists tk. split; [reflexivity|exact Ety].
    - apply Forall_cons_iff in Hw. destruct Hw as (Hx & Hw'). destruct f as [|f]; [cbn in Hf; lia|].
      cbn [enum_list map concat app] in HT. fold (enum_list vs) in HT. unfold print_quoted at 1 in HT. cbn [app] in HT.
      injection HT as ->.
      assert (ET' : exists T', enum_list vs ++ 32 :: 59 :: c2 :: r = 32 :: T') by (destruct vs as [|y vs']; cbn; eexists; reflexivity).
      destruct ET' as (T' & ET').
      assert (HFx : (length x + length (enum_list vs) + 8 < F)%nat).
      { unfold enum_list, print_quoted in HF |- *. cbn [map concat] in HF. repeat (rewrite app_length in HF || cbn [length] in HF). lia. }
      pose proof (blen_nonneg x) as Hnx.
      cbn [comma_strings_loop]. unfold bind at 1. rewrite <- !app_assoc. cbn [app]. rewrite ET'.
      destruct (peek_ws_punct 32 44 32 (34 :: x ++ 34 :: 32 :: T') last P l K ll ws_default) as (tk1 & Ep & Ety); try side.
      rewrite Ep, Ety. change (44 =? c_comma) with true. cbv beta iota. unfold bind at 1.
      rewrite (p_token_look _ tk1 c_comma Ety). unfold bind at 1. rewrite stepS_plain by discriminate.
      rewrite p_string_ws by side. rewrite stepS_plain by discriminate.
      destruct (IH f (x :: racc) T' c2 r [32] (P + 1 + 1 + blen x + 2 + 1) l (K + 1 + 1 + blen x + 2 + 1) ll (eq_sym ET') Hw' Hc2
                  ltac:(cbn in Hf; lia) ltac:(lia) ltac:(lia)) as (tk & E & Ety2).
      exists tk. split; [|exact Ety2]. rewrite E. cbn [rev]. rewrite <- app_assoc. cbn [app]. f_equal. f_equal.
      cbn [enum_list map concat]. fold (enum_list vs). unfold print_quoted.
      repeat (rewrite blen_app || rewrite blen_cons). rewrite ?blen_nil. apply stepS_eq; lia.
  Qed.

  Lemma find_attribute_app : forall n a b,
    find_attribute n (a ++ b) = match find_attribute n a with Some x => Some x | None => find_attribute n b end.
  Proof.
    intros n a b. induction a as [|d a IH]; cbn [app find_attribute]; [reflexivity|].
    destruct d; try exact IH. destruct (bytes_eqb (ad_name a0) n); [reflexivity|exact IH].
  Qed.

  Lemma lookup_ctx_app : forall n a b,
    lookup_ctx n (a ++ b) = match lookup_ctx n a with Some x => Some x | None => lookup_ctx n b end.
  Proof.
    intros n a b. induction a as [|[m v] a IH]; cbn [app lookup_ctx]; [reflexivity|].
    destruct (bytes_eqb m n); [reflexivity|exact IH].
  Qed.

  Lemma find_attr_non_attr : forall ctx l o d n,
    match d with SAttr _ _ _ => False | _ => True end -> find_attribute n [elab_def_ctx cr ctx l o d] = None.
  Proof.
    intros ctx l o d n H. destruct d; try contradiction; cbn [elab_def_ctx elab_def];
      repeat match goal with |- context [match ?x with _ => _ end] => destruct x end; reflexivity.
  Qed.

  (** parsing one more definition keeps the context in agreement *)
  Lemma ctx_agrees_step : forall ctx defs line off d, ctx_agrees ctx defs ->
    ctx_agrees (ctx_step ctx d) (defs ++ [elab_def_ctx cr ctx line off d]).
  Proof.
    intros ctx defs line off d Hag n. rewrite find_attribute_app. specialize (Hag n).
    assert (Hd : (exists o name body, d = SAttr o name body) \/ match d with SAttr _ _ _ => False | _ => True end)
      by (destruct d; try (right; exact I); left; eauto).
    destruct Hd as [(o & name & body & ->)|Hd].
    - cbn [ctx_step elab_def_ctx elab_def]. rewrite lookup_ctx_app. destruct (find_attribute n defs) as [a|]; cbn [option_map] in *.
      + rewrite <- Hag. reflexivity.
      + rewrite <- Hag. cbn [find_attribute lookup_ctx ad_name]. destruct (bytes_eqb name n); reflexivity.
    - rewrite (find_attr_non_attr ctx line off d n Hd).
      assert (Hc : ctx_step ctx d = ctx) by (destruct d; try reflexivity; contradiction). rewrite Hc.
      destruct (find_attribute n defs); exact Hag.
  Qed.

  Lemma attr_value_head : forall v X, exists T, print_attr_value v ++ 32 :: X = 32 :: T.
  Proof. intros v X. destruct v; cbn; eexists; reflexivity. Qed.

  Lemma step_attr_default : forall ctx defs name v rest R line off ll,
    ctx_agrees ctx defs -> wf_sdef_ctx ctx (SAttrDefault name v) ->
    print_def cr (SAttrDefault name v) ++ rest = kw_attribute_default ++ 32 :: R ->
    (length (print_def cr (SAttrDefault name v)) + 4 <= F)%nat ->
    exists st', parse_attribute_default il id F defs (canon line off kw_attribute_default 32 R ll)
                = POk (elab_def_ctx cr ctx line off (SAttrDefault name v)) st'
                /\ Ready SL (line + 1) (off + blen (print_def cr (SAttrDefault name v))) rest st'.
  Proof.
    intros ctx defs name v rest R line off ll Hag (Hname & Hv) HR HF. cbn [wf_sdef] in Hname.
    unfold print_quoted in *. prep HR HF kw_attribute_default. eol rest.
    assert (Hk : blen kw_attribute_default = 11) by reflexivity.
    pose proof (blen_nonneg name). pose proof (blen_nonneg (print_attr_value v)).
    destruct (attr_value_head v (59 :: ce :: re)) as (T & ET). rewrite ET.
    unfold parse_attribute_default, canon. unfold bind at 1. rewrite p_keyword_canon. rewrite stepS_plain by discriminate.
    unfold bind at 1. rewrite p_string_ws by side. rewrite stepS_plain by discriminate.
    match goal with |- context [PS (mkS T ?LA ?PP ?LL ?KK ?L2 32 ws_default) None] =>
      destruct (attr_tail_run ctx defs name v
                  (fun i f s0 => DAttributeDefault {| dd_pos := {| p_line := line; p_column := 1; p_offset := off |}; dd_name := name;
                                                      dd_int := i; dd_float := f; dd_string := s0 |})
                  rest ce re T LA PP LL KK L2 Hag Hv (eq_sym Ee) (eq_sym ET) ltac:(lia) ltac:(lia)) as (st' & E & HRd) end.
    exists st'. split.
    - unfold attr_tail in E. cbn [elab_def_ctx]. destruct (elab_attr_value ctx name v) as [[i f] s0]. exact E.
    - ready_at HRd. unfold print_quoted. repeat (rewrite blen_app || rewrite blen_cons). rewrite ?blen_nil. lia.
  Qed.

  Lemma attr_value_peek : forall ctx name v T ce re last P l K ll, ascii ce ->
    wf_attr_value ctx name v -> 32 :: T = print_attr_value v ++ 32 :: 59 :: ce :: re ->
    (length (print_attr_value v) + 8 < F)%nat -> 0 <= K ->
    exists t st1, peek_token (PS (mkS T last P l K ll 32 ws_default) None) = POk t st1 /\ t_typ t <> TIdent.
  Proof.
    intros ctx name v T ce re last P l K ll Hcea Hw HT HF HK. unfold wf_attr_value in Hw.
    destruct v; cbn [print_attr_value app] in HT; injection HT as ->; cbn [print_attr_value length] in HF.
    - destruct (peek_ws_punct 32 59 ce re last P l K ll ws_default) as (tk & Ep & Ety); try side.
      eexists; eexists; split; [exact Ep|rewrite Ety; discriminate].
    - assert (Hn : wf_num n) by (destruct (lookup_ctx name ctx) as [[[] ?]|]; try contradiction; exact Hw).
      destruct (value_peek (n, []) (59 :: ce :: re) last P l K ll (conj Hn str_nil)
                  ltac:(cbn [fst]; lia) HK) as (t & st1 & Ep & Hty).
      eexists; eexists; split; [exact Ep|]. destruct Hty as [-> | [-> | ->]]; discriminate.
    - assert (Hn : wf_num n) by (destruct (lookup_ctx name ctx) as [[[] ?]|]; try contradiction; exact Hw).
      destruct (value_peek (n, []) (59 :: ce :: re) last P l K ll (conj Hn str_nil)
                  ltac:(cbn [fst]; lia) HK) as (t & st1 & Ep & Hty).
      eexists; eexists; split; [exact Ep|]. destruct Hty as [-> | [-> | ->]]; discriminate.
    - assert (Hs : str_ok s) by (destruct (lookup_ctx name ctx) as [[[] ?]|]; try contradiction; exact Hw).
      unfold print_quoted in *. rewrite <- app_assoc. cbn [app]. cbn [app length] in HF. rewrite app_length in HF.
      destruct (quote_peek s 32 (59 :: ce :: re) last P l K ll Hs ltac:(first [assumption | unfold ascii; lia]) ltac:(lia) HK) as (tk & st1 & Ep & Ety).
      eexists; eexists; split; [exact Ep|rewrite Ety; discriminate].
    - assert (Hi : wf_uint i) by (destruct (lookup_ctx name ctx) as [[[] ?]|]; try contradiction; apply Hw).
      destruct Hi as ((d0 & t & -> & Hd & Ht & Hz) & _). rewrite peek_token_scan.
      rewrite (scan_ws_uint 32); try side; [|cbn [length] in HF; lia]. eexists; eexists; split; [reflexivity|discriminate].
    - assert (Hs : str_ok s) by (destruct (lookup_ctx name ctx) as [[[] ?]|]; try contradiction; exact Hw).
      unfold print_quoted in *. rewrite <- app_assoc. cbn [app]. cbn [app length] in HF. rewrite app_length in HF.
      destruct (quote_peek s 32 (59 :: ce :: re) last P l K ll Hs ltac:(first [assumption | unfold ascii; lia]) ltac:(lia) HK) as (tk & st1 & Ep & Ety).
      eexists; eexists; split; [exact Ep|rewrite Ety; discriminate].
  Qed.

  Lemma opt_obj_not_ident : forall st tk st1, peek_token st = POk tk st1 -> t_typ tk <> TIdent ->
    optional_object_type il id F st = POk OtUnspecified st1.
  Proof.
    intros st tk st1 H Ht. unfold optional_object_type, bind. rewrite H.
    apply Z.eqb_neq in Ht. rewrite Ht. reflexivity.
  Qed.

  Lemma step_attr_value : forall ctx defs name o v rest R line off ll,
    ctx_agrees ctx defs -> wf_sdef_ctx ctx (SAttrValue name o v) ->
    print_def cr (SAttrValue name o v) ++ rest = kw_attribute_value ++ 32 :: R ->
    (length (print_def cr (SAttrValue name o v)) + 4 <= F)%nat ->
    exists st', parse_attribute_value il id F defs (canon line off kw_attribute_value 32 R ll)
                = POk (elab_def_ctx cr ctx line off (SAttrValue name o v)) st'
                /\ Ready SL (line + 1) (off + blen (print_def cr (SAttrValue name o v))) rest st'.
  Proof.
    intros ctx defs name o v rest R line off ll Hag ((Hname & Ho) & Hv) HR HF.
    assert (Hk : blen kw_attribute_value = 3) by reflexivity.
    pose proof (blen_nonneg name). pose proof (blen_nonneg (print_attr_value v)).
    eol0 rest. destruct (attr_value_head v (59 :: ce :: re)) as (T & ET).
    set (pos0 := {| p_line := line; p_column := 1; p_offset := off |}).
    destruct o as [|n|i|i n|n]; cbn [wf_obj] in Ho.
    - (* no object *)
      prep HR HF kw_attribute_value. rewrite ?Ee in *. rewrite ET.
      unfold parse_attribute_value, canon. unfold bind at 1. rewrite p_keyword_canon. rewrite stepS_plain by discriminate.
      unfold bind at 1. rewrite p_string_ws by side. rewrite stepS_plain by discriminate.
      unfold bind at 1.
      match goal with |- context [optional_object_type il id F (PS (mkS T ?LA ?PP ?LL ?KK ?L2 32 ws_default) None)] =>
        destruct (attr_value_peek ctx name v T ce re LA PP LL KK L2 Hcea Hv (eq_sym ET) ltac:(lia) ltac:(lia)) as (tk & st1 & Epk & Hty);
        rewrite (opt_obj_not_ident _ _ _ Epk Hty); unfold bind at 1; cbn [object_ref]; unfold ret at 1; cbv beta iota;
        destruct (attr_tail_run ctx defs name v
                    (fun i0 f s0 => DAttributeValue {| av_pos := pos0; av_name := name; av_object := OtUnspecified; av_message_id := 0;
                                     av_signal := []; av_node := []; av_envvar := []; av_int := i0; av_float := f; av_string := s0 |})
                    rest ce re T LA PP LL KK L2 Hag Hv (eq_sym Ee) (eq_sym ET) ltac:(lia) ltac:(lia)) as (st' & E & HRd) end.
      rewrite <- (attr_tail_after_peek _ _ _ _ _ _ Epk) in E.
      exists st'. split.
      + unfold attr_tail in E. cbn [elab_def_ctx]. destruct (elab_attr_value ctx name v) as [[i0 f] s0]. exact E.
      + ready_at HRd. cbn [print_obj]. unfold print_quoted. repeat (rewrite blen_app || rewrite blen_cons). rewrite ?blen_nil. lia.
    - (* BU_ node *)
      prep HR HF kw_attribute_value. rewrite ?Ee in *. unfold kw_nodes in HF. cbn [length] in HF. pose proof (blen_nonneg n).
      assert (Hk2 : blen kw_nodes = 3) by reflexivity. rewrite ET.
      unfold parse_attribute_value, canon. unfold bind at 1. rewrite p_keyword_canon. rewrite stepS_plain by discriminate.
      unfold bind at 1. rewrite p_string_ws by side. rewrite stepS_plain by discriminate.
      match goal with |- context [mkS (66 :: 85 :: 95 :: 32 :: ?X)] => change (66 :: 85 :: 95 :: 32 :: X) with (kw_nodes ++ 32 :: X) end.
      unfold bind at 1. rewrite (opt_obj_kw kw_nodes OtNode) by side. rewrite stepS_plain by discriminate.
      unfold bind at 1. cbn [object_ref]. unfold bind at 1. rewrite p_identifier_ws by side. rewrite stepS_plain by discriminate.
      unfold ret at 1. cbv beta iota.
      match goal with |- context [PS (mkS T ?LA ?PP ?LL ?KK ?L2 32 ws_default) None] =>
        destruct (attr_tail_run ctx defs name v
                    (fun i0 f s0 => DAttributeValue {| av_pos := pos0; av_name := name; av_object := OtNode; av_message_id := 0;
                                     av_signal := []; av_node := n; av_envvar := []; av_int := i0; av_float := f; av_string := s0 |})
                    rest ce re T LA PP LL KK L2 Hag Hv (eq_sym Ee) (eq_sym ET) ltac:(lia) ltac:(lia)) as (st' & E & HRd) end.
      exists st'. split.
      + unfold attr_tail in E. cbn [elab_def_ctx]. destruct (elab_attr_value ctx name v) as [[i0 f] s0]. exact E.
      + ready_at HRd. cbn [print_obj]. unfold print_quoted. repeat (rewrite blen_app || rewrite blen_cons). rewrite ?blen_nil. lia.
    - (* BO_ id *)
      destruct Ho as (Hi & Hvi). prep HR HF kw_attribute_value. rewrite ?Ee in *. unfold kw_message in HF. cbn [length] in HF. pose proof (blen_nonneg i).
      assert (Hk2 : blen kw_message = 3) by reflexivity. rewrite ET.
      unfold parse_attribute_value, canon. unfold bind at 1. rewrite p_keyword_canon. rewrite stepS_plain by discriminate.
      unfold bind at 1. rewrite p_string_ws by side. rewrite stepS_plain by discriminate.
      match goal with |- context [mkS (66 :: 79 :: 95 :: 32 :: ?X)] => change (66 :: 79 :: 95 :: 32 :: X) with (kw_message ++ 32 :: X) end.
      unfold bind at 1. rewrite (opt_obj_kw kw_message OtMessage) by side. rewrite stepS_plain by discriminate.
      unfold bind at 1. cbn [object_ref]. unfold bind at 1. rewrite p_message_id_ws by side. rewrite stepS_plain by discriminate.
      unfold ret at 1. cbv beta iota.
      match goal with |- context [PS (mkS T ?LA ?PP ?LL ?KK ?L2 32 ws_default) None] =>
        destruct (attr_tail_run ctx defs name v
                    (fun i0 f s0 => DAttributeValue {| av_pos := pos0; av_name := name; av_object := OtMessage; av_message_id := msgid i;
                                     av_signal := []; av_node := []; av_envvar := []; av_int := i0; av_float := f; av_string := s0 |})
                    rest ce re T LA PP LL KK L2 Hag Hv (eq_sym Ee) (eq_sym ET) ltac:(lia) ltac:(lia)) as (st' & E & HRd) end.
      exists st'. split.
      + unfold attr_tail in E. cbn [elab_def_ctx]. destruct (elab_attr_value ctx name v) as [[i0 f] s0]. exact E.
      + ready_at HRd. cbn [print_obj]. unfold print_quoted. repeat (rewrite blen_app || rewrite blen_cons). rewrite ?blen_nil. lia.
    - (* SG_ id name *)
      destruct Ho as ((Hi & Hvi) & Hn). prep HR HF kw_attribute_value. rewrite ?Ee in *. unfold kw_signal in HF. cbn [length] in HF.
      pose proof (blen_nonneg i). pose proof (blen_nonneg n).
      assert (Hk2 : blen kw_signal = 3) by reflexivity. rewrite ET.
      unfold parse_attribute_value, canon. unfold bind at 1. rewrite p_keyword_canon. rewrite stepS_plain by discriminate.
      unfold bind at 1. rewrite p_string_ws by side. rewrite stepS_plain by discriminate.
      match goal with |- context [mkS (83 :: 71 :: 95 :: 32 :: ?X)] => change (83 :: 71 :: 95 :: 32 :: X) with (kw_signal ++ 32 :: X) end.
      unfold bind at 1. rewrite (opt_obj_kw kw_signal OtSignal) by side. rewrite stepS_plain by discriminate.
      unfold bind at 1. cbn [object_ref]. unfold bind at 1. rewrite p_message_id_ws by side. rewrite stepS_plain by discriminate.
      unfold bind at 1. rewrite p_identifier_ws by side. rewrite stepS_plain by discriminate.
      unfold ret at 1. cbv beta iota.
      match goal with |- context [PS (mkS T ?LA ?PP ?LL ?KK ?L2 32 ws_default) None] =>
        destruct (attr_tail_run ctx defs name v
                    (fun i0 f s0 => DAttributeValue {| av_pos := pos0; av_name := name; av_object := OtSignal; av_message_id := msgid i;
                                     av_signal := n; av_node := []; av_envvar := []; av_int := i0; av_float := f; av_string := s0 |})
                    rest ce re T LA PP LL KK L2 Hag Hv (eq_sym Ee) (eq_sym ET) ltac:(lia) ltac:(lia)) as (st' & E & HRd) end.
      exists st'. split.
      + unfold attr_tail in E. cbn [elab_def_ctx]. destruct (elab_attr_value ctx name v) as [[i0 f] s0]. exact E.
      + ready_at HRd. cbn [print_obj]. unfold print_quoted. repeat (rewrite blen_app || rewrite blen_cons). rewrite ?blen_nil. lia.
    - (* EV_ name *)
      prep HR HF kw_attribute_value. rewrite ?Ee in *. unfold kw_envvar in HF. cbn [length] in HF. pose proof (blen_nonneg n).
      assert (Hk2 : blen kw_envvar = 3) by reflexivity. rewrite ET.
      unfold parse_attribute_value, canon. unfold bind at 1. rewrite p_keyword_canon. rewrite stepS_plain by discriminate.
      unfold bind at 1. rewrite p_string_ws by side. rewrite stepS_plain by discriminate.
      match goal with |- context [mkS (69 :: 86 :: 95 :: 32 :: ?X)] => change (69 :: 86 :: 95 :: 32 :: X) with (kw_envvar ++ 32 :: X) end.
      unfold bind at 1. rewrite (opt_obj_kw kw_envvar OtEnvVar) by side. rewrite stepS_plain by discriminate.
      unfold bind at 1. cbn [object_ref]. unfold bind at 1. rewrite p_identifier_ws by side. rewrite stepS_plain by discriminate.
      unfold ret at 1. cbv beta iota.
      match goal with |- context [PS (mkS T ?LA ?PP ?LL ?KK ?L2 32 ws_default) None] =>
        destruct (attr_tail_run ctx defs name v
                    (fun i0 f s0 => DAttributeValue {| av_pos := pos0; av_name := name; av_object := OtEnvVar; av_message_id := 0;
                                     av_signal := []; av_node := []; av_envvar := n; av_int := i0; av_float := f; av_string := s0 |})
                    rest ce re T LA PP LL KK L2 Hag Hv (eq_sym Ee) (eq_sym ET) ltac:(lia) ltac:(lia)) as (st' & E & HRd) end.
      exists st'. split.
      + unfold attr_tail in E. cbn [elab_def_ctx]. destruct (elab_attr_value ctx name v) as [[i0 f] s0]. exact E.
      + ready_at HRd. cbn [print_obj]. unfold print_quoted. repeat (rewrite blen_app || rewrite blen_cons). rewrite ?blen_nil. lia.
  Qed.

  (** parse_attribute after the name *)
  Definition attr_cont (kwpos : position) (ot : object_type) (name : bytes) : M def :=
    plet ty <- p_attribute_value_type il id F;
    plet body <-
      (match ty with
       | AtInt | AtHex =>
         plet t <- peek_token;
         if negb (t_typ t =? c_semi) then plet a <- p_int il id F; plet b <- p_int il id F; ret (a, b, 0, 0, [])
         else ret (0, 0, 0, 0, [])
       | AtFloat =>
         plet t <- peek_token;
         if negb (t_typ t =? c_semi) then plet a <- p_float il id F; plet b <- p_float il id F; ret (0, 0, a, b, [])
         else ret (0, 0, 0, 0, [])
       | AtEnum =>
         plet s <- p_string il id F; plet vs <- comma_strings_loop il id F F [s]; ret (0, 0, 0, 0, vs)
       | AtString => ret (0, 0, 0, 0, [])
       end);
    let '(mi, ma, mf, xf, vs) := body in
    p_token il id F c_semi ;;
    ret (DAttribute {| ad_pos := kwpos; ad_object := ot; ad_name := name; ad_type := ty;
                       ad_min_int := mi; ad_max_int := ma; ad_min_float := mf; ad_max_float := xf;
                       ad_enum_values := vs |}).

  Lemma parse_attribute_unfold :
    parse_attribute il id F =
    (plet kw <- p_keyword il id F kw_attribute;
     plet ot <- optional_object_type il id F;
     plet name <- p_string_identifier il id F;
     attr_cont (t_pos kw) ot name).
  Proof. reflexivity. Qed.

  Lemma attr_body_head : forall b X, exists T, print_attr_body b ++ 32 :: X = 32 :: T.
  Proof. intros b X. destruct b; cbn; eexists; reflexivity. Qed.

  Lemma attr_type_name_body : forall b, exists rst,
    print_attr_body b = 32 :: attr_type_name (attr_body_type b) ++ rst
    /\ rst = match b with
             | ABInt _ r | ABFloat r => print_range r
             | ABString => []
             | ABEnum v vs => 32 :: print_quoted v ++ enum_list vs
             end.
  Proof. intros b. destruct b as [[|] r|r| |v vs]; cbn [print_attr_body attr_body_type attr_type_name]; eexists; split; reflexivity. Qed.

  Lemma attr_cont_run : forall kwpos ot name body rest ce re T last P l K ll, ce :: re = cr ++ 10 :: rest ->
    wf_attr_body body -> 32 :: T = print_attr_body body ++ 32 :: 59 :: ce :: re ->
    (length (print_attr_body body) + 12 < F)%nat -> 0 <= K ->
    exists st', attr_cont kwpos ot name (PS (mkS T last P l K ll 32 ws_default) None)
                = POk (DAttribute {| ad_pos := kwpos; ad_object := ot; ad_name := name; ad_type := attr_body_type body;
                        ad_min_int := (match body with ABInt _ (Some (a, _)) => num_int a | _ => 0 end);
                        ad_max_int := (match body with ABInt _ (Some (_, b)) => num_int b | _ => 0 end);
                        ad_min_float := (match body with ABFloat (Some (a, _)) => num_bits a | _ => 0 end);
                        ad_max_float := (match body with ABFloat (Some (_, b)) => num_bits b | _ => 0 end);
                        ad_enum_values := attr_body_enums body |}) st'
                /\ Ready SL (l + 1) (P + blen (print_attr_body body) + 1 + blen cr + 1) rest st'.
  Proof.
    intros kwpos ot name body rest ce re T last P l K ll Ee Hw HT HF HK. eolh Ee.
    destruct (attr_type_name_body body) as (rst & Eb & Erst). rewrite Eb in HT, HF. cbn [app] in HT. injection HT as ->.
    assert (Htn : (length (attr_type_name (attr_body_type body)) <= 6)%nat /\ 0 <= blen (attr_type_name (attr_body_type body)))
      by (split; [destruct body as [[|] ?|?| |? ?]; cbn; lia|apply blen_nonneg]).
    destruct Htn as (Htl & Htn). cbn [length] in HF. rewrite app_length in HF.
    assert (E32 : exists q, rst ++ 32 :: 59 :: ce :: re = 32 :: q).
    { subst rst. destruct body as [h [[a b]|]|[[a b]|]| |v vs]; cbn; eexists; reflexivity. }
    destruct E32 as (q & Eq). rewrite <- app_assoc. rewrite Eq.
    unfold attr_cont. unfold bind at 1. rewrite p_attr_type_ws by side. rewrite stepS_plain by discriminate.
    rewrite Eb. rewrite blen_cons, blen_app.
    destruct body as [h [[a b]|]|[[a b]|]| |v vs]; cbn [wf_attr_body wf_range] in Hw; cbn [print_range] in Erst; subst rst;
      cbn [app length] in *.
    - (* INT/HEX a b *) destruct h; cbn [attr_body_type attr_type_name] in *.
      {
      destruct Hw as (Ha & Hb). injection Eq as <-. rewrite <- app_assoc in *. cbn [app] in *.
      repeat (rewrite app_length in HF || cbn [length] in HF).
      pose proof (blen_nonneg (print_num a)). pose proof (blen_nonneg (print_num b)).
      match goal with |- context [PS (mkS ?TT ?LA ?PP ?LL ?KK ?L2 32 ws_default) None] =>
        destruct (value_peek (a, []) (print_num b ++ 32 :: 59 :: ce :: re) LA PP LL KK L2 (conj Ha str_nil)
                    ltac:(cbn [fst]; lia) ltac:(lia)) as (tk & st1 & Epk & Hty) end.
      cbn [fst] in Epk.
      assert (Ens : (t_typ tk =? c_semi) = false) by (destruct Hty as [-> | [-> | ->]]; reflexivity).
      unfold bind at 1. unfold bind at 1. rewrite Epk, Ens. cbn [negb].
      unfold bind at 1. rewrite (p_int_after_peek _ _ _ Epk). rewrite p_int_ws by side. rewrite stepS_plain by discriminate.
      unfold bind at 1. rewrite p_int_ws by side. rewrite stepS_plain by discriminate.
      unfold ret at 1. cbv beta iota. unfold bind at 1.
      match goal with |- context [p_token il id F c_semi (PS (mkS (59 :: ce :: re) ?LA ?PP ?LL ?KK ?L2 32 ws_default) None)] =>
        destruct (finish_semi_ws rest ce re LA PP LL KK L2 Ee ltac:(lia) ltac:(lia)) as (st' & E & HRd) end.
      rewrite E. unfold ret. exists st'. split; [reflexivity|]. ready_at HRd.
      repeat (rewrite blen_app || rewrite blen_cons). rewrite ?blen_nil. lia.
      }
      {
      destruct Hw as (Ha & Hb). injection Eq as <-. rewrite <- app_assoc in *. cbn [app] in *.
      repeat (rewrite app_length in HF || cbn [length] in HF).
      pose proof (blen_nonneg (print_num a)). pose proof (blen_nonneg (print_num b)).
      match goal with |- context [PS (mkS ?TT ?LA ?PP ?LL ?KK ?L2 32 ws_default) None] =>
        destruct (value_peek (a, []) (print_num b ++ 32 :: 59 :: ce :: re) LA PP LL KK L2 (conj Ha str_nil)
                    ltac:(cbn [fst]; lia) ltac:(lia)) as (tk & st1 & Epk & Hty) end.
      cbn [fst] in Epk.
      assert (Ens : (t_typ tk =? c_semi) = false) by (destruct Hty as [-> | [-> | ->]]; reflexivity).
      unfold bind at 1. unfold bind at 1. rewrite Epk, Ens. cbn [negb].
      unfold bind at 1. rewrite (p_int_after_peek _ _ _ Epk). rewrite p_int_ws by side. rewrite stepS_plain by discriminate.
      unfold bind at 1. rewrite p_int_ws by side. rewrite stepS_plain by discriminate.
      unfold ret at 1. cbv beta iota. unfold bind at 1.
      match goal with |- context [p_token il id F c_semi (PS (mkS (59 :: ce :: re) ?LA ?PP ?LL ?KK ?L2 32 ws_default) None)] =>
        destruct (finish_semi_ws rest ce re LA PP LL KK L2 Ee ltac:(lia) ltac:(lia)) as (st' & E & HRd) end.
      rewrite E. unfold ret. exists st'. split; [reflexivity|]. ready_at HRd.
      repeat (rewrite blen_app || rewrite blen_cons). rewrite ?blen_nil. lia.
      }
    - (* INT/HEX *) destruct h; cbn [attr_body_type attr_type_name] in *.
      {
      injection Eq as <-. rewrite app_nil_r in *.
      match goal with |- context [PS (mkS (59 :: ce :: re) ?LA ?PP ?LL ?KK ?L2 32 ws_default) None] =>
        destruct (peek_ws_punct 32 59 ce re LA PP LL KK L2 ws_default) as (tk & Epk & Ety); try side end.
      unfold bind at 1. unfold bind at 1. rewrite Epk, Ety. change (59 =? c_semi) with true. cbn [negb].
      unfold ret at 1. cbv beta iota. unfold bind at 1.
      match goal with |- context [PS (stepS ce re ?PP ?LL ?KK ?L2 ce ws_default) (Some tk)] =>
        destruct (finish_semi_look tk rest ce re PP LL KK L2 Ee Ety ltac:(lia)) as (st' & E2 & HRd) end.
      rewrite E2. unfold ret. exists st'. split; [reflexivity|]. ready_at HRd.
      repeat (rewrite blen_app || rewrite blen_cons). rewrite ?blen_nil. lia.
      }
      {
      injection Eq as <-. rewrite app_nil_r in *.
      match goal with |- context [PS (mkS (59 :: ce :: re) ?LA ?PP ?LL ?KK ?L2 32 ws_default) None] =>
        destruct (peek_ws_punct 32 59 ce re LA PP LL KK L2 ws_default) as (tk & Epk & Ety); try side end.
      unfold bind at 1. unfold bind at 1. rewrite Epk, Ety. change (59 =? c_semi) with true. cbn [negb].
      unfold ret at 1. cbv beta iota. unfold bind at 1.
      match goal with |- context [PS (stepS ce re ?PP ?LL ?KK ?L2 ce ws_default) (Some tk)] =>
        destruct (finish_semi_look tk rest ce re PP LL KK L2 Ee Ety ltac:(lia)) as (st' & E2 & HRd) end.
      rewrite E2. unfold ret. exists st'. split; [reflexivity|]. ready_at HRd.
      repeat (rewrite blen_app || rewrite blen_cons). rewrite ?blen_nil. lia.
      }
    - (* FLOAT a b *) cbn [attr_body_type attr_type_name] in *. destruct Hw as (Ha & Hb). injection Eq as <-. rewrite <- app_assoc in *. cbn [app] in *.
      repeat (rewrite app_length in HF || cbn [length] in HF).
      pose proof (blen_nonneg (print_num a)). pose proof (blen_nonneg (print_num b)).
      match goal with |- context [PS (mkS ?TT ?LA ?PP ?LL ?KK ?L2 32 ws_default) None] =>
        destruct (value_peek (a, []) (print_num b ++ 32 :: 59 :: ce :: re) LA PP LL KK L2 (conj Ha str_nil)
                    ltac:(cbn [fst]; lia) ltac:(lia)) as (tk & st1 & Epk & Hty) end.
      cbn [fst] in Epk.
      assert (Ens : (t_typ tk =? c_semi) = false) by (destruct Hty as [-> | [-> | ->]]; reflexivity).
      cbn [attr_body_type]. unfold bind at 1. unfold bind at 1. rewrite Epk, Ens. cbn [negb].
      unfold bind at 1. rewrite (p_float_after_peek _ _ _ Epk). rewrite p_float_ws by side. rewrite stepS_plain by discriminate.
      unfold bind at 1. rewrite p_float_ws by side. rewrite stepS_plain by discriminate.
      unfold ret at 1. cbv beta iota. unfold bind at 1.
      match goal with |- context [p_token il id F c_semi (PS (mkS (59 :: ce :: re) ?LA ?PP ?LL ?KK ?L2 32 ws_default) None)] =>
        destruct (finish_semi_ws rest ce re LA PP LL KK L2 Ee ltac:(lia) ltac:(lia)) as (st' & E & HRd) end.
      rewrite E. unfold ret. exists st'. split; [reflexivity|]. ready_at HRd.
      repeat (rewrite blen_app || rewrite blen_cons). rewrite ?blen_nil. lia.
    - (* FLOAT *) cbn [attr_body_type attr_type_name] in *. injection Eq as <-. rewrite app_nil_r in *.
      match goal with |- context [PS (mkS (59 :: ce :: re) ?LA ?PP ?LL ?KK ?L2 32 ws_default) None] =>
        destruct (peek_ws_punct 32 59 ce re LA PP LL KK L2 ws_default) as (tk & Epk & Ety); try side end.
      cbn [attr_body_type]. unfold bind at 1. unfold bind at 1. rewrite Epk, Ety. change (59 =? c_semi) with true. cbn [negb].
      unfold ret at 1. cbv beta iota. unfold bind at 1.
      match goal with |- context [PS (stepS ce re ?PP ?LL ?KK ?L2 ce ws_default) (Some tk)] =>
        destruct (finish_semi_look tk rest ce re PP LL KK L2 Ee Ety ltac:(lia)) as (st' & E2 & HRd) end.
      rewrite E2. unfold ret. exists st'. split; [reflexivity|]. ready_at HRd.
      repeat (rewrite blen_app || rewrite blen_cons). rewrite ?blen_nil. lia.
    - (* STRING *) cbn [attr_body_type attr_type_name] in *. injection Eq as <-. rewrite app_nil_r in *.
      cbn [attr_body_type]. unfold bind at 1. unfold ret at 1. cbv beta iota. unfold bind at 1.
      match goal with |- context [p_token il id F c_semi (PS (mkS (59 :: ce :: re) ?LA ?PP ?LL ?KK ?L2 32 ws_default) None)] =>
        destruct (finish_semi_ws rest ce re LA PP LL KK L2 Ee ltac:(lia) ltac:(lia)) as (st' & E & HRd) end.
      rewrite E. unfold ret. exists st'. split; [reflexivity|]. ready_at HRd.
      repeat (rewrite blen_app || rewrite blen_cons). rewrite ?blen_nil. lia.
    - (* ENUM *) cbn [attr_body_type attr_type_name] in *. destruct Hw as (Hv & Hvs). injection Eq as <-. unfold print_quoted in *.
      cbn [app] in *. rewrite <- !app_assoc in *. cbn [app] in *.
      repeat (rewrite app_length in HF || cbn [length] in HF).
      pose proof (blen_nonneg v). pose proof (blen_nonneg (enum_list vs)). pose proof (enum_list_len vs) as Hel.
      assert (ET' : exists T', enum_list vs ++ 32 :: 59 :: ce :: re = 32 :: T') by (destruct vs as [|y vs']; cbn; eexists; reflexivity).
      destruct ET' as (T' & ET'). rewrite ET'.
      cbn [attr_body_type]. unfold bind at 1. unfold bind at 1. rewrite p_string_ws by side. rewrite stepS_plain by discriminate.
      unfold bind at 1.
      match goal with |- context [comma_strings_loop il id F F [v] (PS (mkS T' ?LA ?PP ?LL ?KK ?L2 32 ws_default) None)] =>
        destruct (comma_strings_semi_run vs F [v] T' ce re LA PP LL KK L2 (eq_sym ET') Hvs ltac:(first [assumption | unfold ascii; lia]) ltac:(lia)
                    ltac:(lia) ltac:(lia)) as (tk & E & Ety) end.
      rewrite E. unfold ret at 1. cbv beta iota. unfold bind at 1.
      match goal with |- context [PS (stepS ce re ?PP ?LL ?KK ?L2 ce ws_default) (Some tk)] =>
        destruct (finish_semi_look tk rest ce re PP LL KK L2 Ee Ety ltac:(lia)) as (st' & E2 & HRd) end.
      rewrite E2. unfold ret. cbn [rev app attr_body_enums]. exists st'. split; [reflexivity|]. ready_at HRd.
      repeat (rewrite blen_app || rewrite blen_cons). rewrite ?blen_nil. lia.
  Qed.

  Lemma step_attr : forall o name body rest R line off ll, wf_sdef (SAttr o name body) ->
    print_def cr (SAttr o name body) ++ rest = kw_attribute ++ 32 :: R ->
    (length (print_def cr (SAttr o name body)) + 4 <= F)%nat ->
    exists st', parse_attribute il id F (canon line off kw_attribute 32 R ll)
                = POk (elab_def cr line off (SAttr o name body)) st'
                /\ Ready SL (line + 1) (off + blen (print_def cr (SAttr o name body))) rest st'.
  Proof.
    intros o name body rest R line off ll (Hname & Hbody) HR HF.
    assert (Hk : blen kw_attribute = 7) by reflexivity.
    pose proof (blen_nonneg name). pose proof (blen_nonneg (print_attr_body body)).
    eol0 rest. destruct (attr_body_head body (59 :: ce :: re)) as (T & ET).
    set (pos0 := {| p_line := line; p_column := 1; p_offset := off |}).
    rewrite parse_attribute_unfold.
    destruct o; cbn [print_attr_obj] in *.
    - (* no object type: the quote is peeked by optionalObjectType *)
      cbn [print_def print_attr_obj] in *. unfold print_quoted in *.
      rewrite <- app_assoc in HR. apply app_inv_head in HR. cbn [app] in HR. injection HR as <-.
      repeat (rewrite <- app_assoc; cbn [app]). repeat (rewrite app_length in HF || cbn [length] in HF).
      unfold kw_attribute in HF. cbn [length] in HF. rewrite ?Ee in *. rewrite ET.
      unfold canon. unfold bind at 1. rewrite p_keyword_canon. rewrite stepS_plain by discriminate.
      unfold bind at 1.
      match goal with |- context [optional_object_type il id F (PS (mkS _ ?LA ?PP ?LL ?KK ?L2 32 ws_default) None)] =>
        destruct (quote_peek name 32 T LA PP LL KK L2 (ident_plain name Hname) ltac:(first [assumption | unfold ascii; lia]) ltac:(lia) ltac:(lia))
          as (tk & st1 & Epk & Ety) end.
      rewrite (opt_obj_none _ _ _ Epk Ety). unfold bind at 1.
      rewrite (psi_after_peek _ _ _ Epk). rewrite p_string_identifier_ws by side. rewrite stepS_plain by discriminate.
      match goal with |- context [PS (mkS T ?LA ?PP ?LL ?KK ?L2 32 ws_default) None] =>
        destruct (attr_cont_run pos0 OtUnspecified name body rest ce re T LA PP LL KK L2 (eq_sym Ee) Hbody (eq_sym ET) ltac:(lia) ltac:(lia))
          as (st' & E & HRd) end.
      exists st'. split; [exact E|]. ready_at HRd.
      repeat (rewrite blen_app || rewrite blen_cons). rewrite ?blen_nil. lia.
    - prep HR HF kw_attribute. rewrite ?Ee in *. unfold kw_nodes in HF. cbn [length] in HF. assert (Hk2 : blen kw_nodes = 3) by reflexivity. rewrite ET.
      unfold canon. unfold bind at 1. rewrite p_keyword_canon. rewrite stepS_plain by discriminate.
      match goal with |- context [mkS (66 :: 85 :: 95 :: 32 :: ?X)] => change (66 :: 85 :: 95 :: 32 :: X) with (kw_nodes ++ 32 :: X) end.
      unfold bind at 1. rewrite (opt_obj_kw kw_nodes OtNode) by side. rewrite stepS_plain by discriminate.
      unfold bind at 1. rewrite p_string_identifier_ws by side. rewrite stepS_plain by discriminate.
      match goal with |- context [PS (mkS T ?LA ?PP ?LL ?KK ?L2 32 ws_default) None] =>
        destruct (attr_cont_run pos0 OtNode name body rest ce re T LA PP LL KK L2 (eq_sym Ee) Hbody (eq_sym ET) ltac:(lia) ltac:(lia))
          as (st' & E & HRd) end.
      exists st'. split; [exact E|]. ready_at HRd.
      cbn [print_def print_attr_obj]. unfold print_quoted. repeat (rewrite blen_app || rewrite blen_cons). rewrite ?blen_nil. lia.
    - prep HR HF kw_attribute. rewrite ?Ee in *. unfold kw_message in HF. cbn [length] in HF. assert (Hk2 : blen kw_message = 3) by reflexivity. rewrite ET.
      unfold canon. unfold bind at 1. rewrite p_keyword_canon. rewrite stepS_plain by discriminate.
      match goal with |- context [mkS (66 :: 79 :: 95 :: 32 :: ?X)] => change (66 :: 79 :: 95 :: 32 :: X) with (kw_message ++ 32 :: X) end.
      unfold bind at 1. rewrite (opt_obj_kw kw_message OtMessage) by side. rewrite stepS_plain by discriminate.
      unfold bind at 1. rewrite p_string_identifier_ws by side. rewrite stepS_plain by discriminate.
      match goal with |- context [PS (mkS T ?LA ?PP ?LL ?KK ?L2 32 ws_default) None] =>
        destruct (attr_cont_run pos0 OtMessage name body rest ce re T LA PP LL KK L2 (eq_sym Ee) Hbody (eq_sym ET) ltac:(lia) ltac:(lia))
          as (st' & E & HRd) end.
      exists st'. split; [exact E|]. ready_at HRd.
      cbn [print_def print_attr_obj]. unfold print_quoted. repeat (rewrite blen_app || rewrite blen_cons). rewrite ?blen_nil. lia.
    - prep HR HF kw_attribute. rewrite ?Ee in *. unfold kw_signal in HF. cbn [length] in HF. assert (Hk2 : blen kw_signal = 3) by reflexivity. rewrite ET.
      unfold canon. unfold bind at 1. rewrite p_keyword_canon. rewrite stepS_plain by discriminate.
      match goal with |- context [mkS (83 :: 71 :: 95 :: 32 :: ?X)] => change (83 :: 71 :: 95 :: 32 :: X) with (kw_signal ++ 32 :: X) end.
      unfold bind at 1. rewrite (opt_obj_kw kw_signal OtSignal) by side. rewrite stepS_plain by discriminate.
      unfold bind at 1. rewrite p_string_identifier_ws by side. rewrite stepS_plain by discriminate.
      match goal with |- context [PS (mkS T ?LA ?PP ?LL ?KK ?L2 32 ws_default) None] =>
        destruct (attr_cont_run pos0 OtSignal name body rest ce re T LA PP LL KK L2 (eq_sym Ee) Hbody (eq_sym ET) ltac:(lia) ltac:(lia))
          as (st' & E & HRd) end.
      exists st'. split; [exact E|]. ready_at HRd.
      cbn [print_def print_attr_obj]. unfold print_quoted. repeat (rewrite blen_app || rewrite blen_cons). rewrite ?blen_nil. lia.
    - prep HR HF kw_attribute. rewrite ?Ee in *. unfold kw_envvar in HF. cbn [length] in HF. assert (Hk2 : blen kw_envvar = 3) by reflexivity. rewrite ET.
      unfold canon. unfold bind at 1. rewrite p_keyword_canon. rewrite stepS_plain by discriminate.
      match goal with |- context [mkS (69 :: 86 :: 95 :: 32 :: ?X)] => change (69 :: 86 :: 95 :: 32 :: X) with (kw_envvar ++ 32 :: X) end.
      unfold bind at 1. rewrite (opt_obj_kw kw_envvar OtEnvVar) by side. rewrite stepS_plain by discriminate.
      unfold bind at 1. rewrite p_string_identifier_ws by side. rewrite stepS_plain by discriminate.
      match goal with |- context [PS (mkS T ?LA ?PP ?LL ?KK ?L2 32 ws_default) None] =>
        destruct (attr_cont_run pos0 OtEnvVar name body rest ce re T LA PP LL KK L2 (eq_sym Ee) Hbody (eq_sym ET) ltac:(lia) ltac:(lia))
          as (st' & E & HRd) end.
      exists st'. split; [exact E|]. ready_at HRd.
      cbn [print_def print_attr_obj]. unfold print_quoted. repeat (rewrite blen_app || rewrite blen_cons). rewrite ?blen_nil. lia.
  Qed.

  (** ------------------------------------------------------------ NS_ *)

  (** the identifier that starts a text is determined by the text (longest match) *)
  Lemma idc_prefix_unique : forall t t' c c' r r',
    Forall (fun a => idc a = true) t -> Forall (fun a => idc a = true) t' -> idc c = false -> idc c' = false ->
    t ++ c :: r = t' ++ c' :: r' -> t = t' /\ c = c' /\ r = r'.
  Proof.
    induction t as [|a t IH]; intros t' c c' r r' Ht Ht' Hc Hc' E; destruct t' as [|a' t']; cbn [app] in E.
    - injection E as -> ->. auto.
    - injection E as -> _. inversion Ht' as [|? ? Ha _]; subst. congruence.
    - injection E as -> _. inversion Ht as [|? ? Ha _]; subst. congruence.
    - injection E as -> E. inversion Ht as [|? ? _ Ht0]; subst. inversion Ht' as [|? ? _ Ht0']; subst.
      destruct (IH t' c c' r r' Ht0 Ht0' Hc Hc' E) as (-> & -> & ->). auto.
  Qed.

  Lemma decomp_unique : forall kw kw' c c' r r', is_ident kw -> is_ident kw' -> idc c = false -> idc c' = false ->
    kw ++ c :: r = kw' ++ c' :: r' -> kw = kw' /\ c = c' /\ r = r'.
  Proof.
    intros kw kw' c c' r r' (c0 & t & -> & H0 & Ht) (c0' & t' & -> & H0' & Ht') Hc Hc' E.
    apply (idc_prefix_unique (c0 :: t) (c0' :: t')); try assumption; constructor; try assumption; apply id0_idc; assumption.
  Qed.

  (** ---- uniqueness of "blank lines, then a definition" *)
  Definition starts_def (rest : bytes) : Prop := rest = [] \/ exists c0 t, rest = c0 :: t /\ id0 c0 = true.

  Lemma blank_not_id0 : forall c, blank_char c -> id0 c = false.
  Proof. intros c [->|[->| ->]]; reflexivity. Qed.

  Lemma blank_decomp_unique : forall g g' rest rest', Forall blank_char g -> Forall blank_char g' ->
    starts_def rest -> starts_def rest' -> g ++ rest = g' ++ rest' -> g = g' /\ rest = rest'.
  Proof.
    induction g as [|a g IH]; intros g' rest rest' Hg Hg' Hr Hr' E.
    - destruct g' as [|a' g']; [split; [reflexivity|exact E]|]. exfalso. cbn [app] in E. apply Forall_cons_iff in Hg'. destruct Hg' as (Ha' & _).
      destruct Hr as [->|(c0 & t & -> & H0)]; [discriminate E|]. injection E as -> _. rewrite (blank_not_id0 _ Ha') in H0. discriminate.
    - destruct g' as [|a' g'].
      + exfalso. cbn [app] in E. apply Forall_cons_iff in Hg. destruct Hg as (Ha & _).
        destruct Hr' as [->|(c0 & t & -> & H0)]; [discriminate E|]. injection E as -> _. rewrite (blank_not_id0 _ Ha) in H0. discriminate.
      + cbn [app] in E. injection E as -> E. apply Forall_cons_iff in Hg. apply Forall_cons_iff in Hg'.
        destruct (IH g' rest rest') as (-> & ->); try tauto.
  Qed.

  Lemma ident_starts_def : forall kw c r, is_ident kw -> starts_def (kw ++ c :: r).
  Proof. intros kw c r (c0 & t & -> & H0 & _). right. exists c0, (t ++ c :: r). split; [reflexivity|exact H0]. Qed.

  (** a boundary state whose lookahead already holds the EOF token *)
  Lemma ready_look_eof : forall n line off g s tok, Forall blank_char g -> t_typ tok = EOF -> Ready n line off g (PS s (Some tok)).
  Proof.
    intros n line off g s tok Hg Ht g' rest' E (Hg' & _). split.
    - intros _ _. rewrite peek_token_look. eexists; eexists; split; [reflexivity|exact Ht].
    - intros kw c r -> Hk _ _ _. exfalso. rewrite <- (app_nil_r g) in E.
      destruct (blank_decomp_unique g g' [] (kw ++ c :: r) Hg Hg' (or_introl eq_refl) (ident_starts_def kw c r Hk) E) as (_ & E').
      destruct kw; discriminate E'.
  Qed.

  (** ... or the keyword token of the next definition *)
  Lemma ready_look_kw : forall n line off g kw c r ll, Forall blank_char g -> is_ident kw -> idc c = false ->
    Ready n line off (g ++ kw ++ c :: r) (canon (line + nl_count g) (off + blen g) kw c r ll).
  Proof.
    intros n line off g kw c r ll Hg Hk Hnc g' rest' E (Hg' & _). split.
    - intros -> _. exfalso.
      destruct (blank_decomp_unique g g' (kw ++ c :: r) [] Hg Hg' (ident_starts_def kw c r Hk) (or_introl eq_refl) E) as (_ & E').
      destruct kw; discriminate E'.
    - intros kw' c' r' -> Hk' Hc' Hnc' _.
      destruct (blank_decomp_unique g g' (kw ++ c :: r) (kw' ++ c' :: r') Hg Hg' (ident_starts_def kw c r Hk)
                  (ident_starts_def kw' c' r' Hk') E) as (<- & E').
      destruct (decomp_unique _ _ _ _ _ _ Hk Hk' Hnc Hnc' E') as (<- & <- & <-).
      exists ll. unfold canon. rewrite peek_token_look. reflexivity.
  Qed.

  (** the state in which a line end is pending, as "blank character [w], then the run [g1]" *)
  Lemma eol_shape : forall X c r P l k ll ws, c :: r = cr ++ 10 :: X -> 0 <= k ->
    exists w g1 P' l' k' ll',
      stepS c r P l k ll c ws = mkS (g1 ++ X) [w] P' l' k' ll' w ws
      /\ blank_char w /\ Forall blank_char g1 /\ (exists g', w :: g1 = g' ++ [10]) /\ 0 <= k' /\ (w = 10 -> k' = 0)
      /\ l' + nl_count g1 = l + 1 /\ P' + blen g1 = P + blen cr + 1 /\ (length g1 < SL)%nat.
  Proof.
    intros X c r P l k ll ws E Hk. destruct (list_case cr) as [Ecr|(a & cr' & Ecr)]; rewrite Ecr in E |- *.
    - cbn [app] in E. injection E as -> ->. exists 10, [], (P + 1), (l + 1), 0, (k + 1).
      unfold stepS. change (10 =? 10) with true. cbv iota. cbn [app nl_count length]. rewrite !blen_nil.
      split; [reflexivity|]. split; [right; right; reflexivity|]. split; [constructor|]. split; [exists []; reflexivity|].
      unfold SL. repeat split; try lia.
    - cbn [app] in E. injection E as -> ->.
      assert (Ha : a = 32 \/ a = 13) by (pose proof Hcr as H; rewrite Ecr in H; inversion H; assumption).
      assert (Hb : Forall blank_char cr') by (pose proof cr_blank as H; rewrite Ecr in H; inversion H; assumption).
      assert (Hn : nl_count cr' = 0) by (pose proof cr_nl as H; rewrite Ecr, nl_count_cons in H; destruct Ha as [-> | ->]; exact H).
      rewrite stepS_plain by (destruct Ha as [-> | ->]; discriminate).
      exists a, (cr' ++ [10]), (P + 1), l, (k + 1), ll. rewrite <- app_assoc. cbn [app].
      split; [reflexivity|]. split; [destruct Ha as [-> | ->]; [left|right; left]; reflexivity|].
      split; [apply Forall_app; split; [assumption|constructor; [right; right; reflexivity|constructor]]|].
      split; [exists (a :: cr'); reflexivity|]. split; [lia|]. split; [destruct Ha as [-> | ->]; discriminate|].
      rewrite nl_count_app, Hn, blen_app, !blen_cons, blen_nil. cbn [nl_count]. change (10 =? 10) with true.
      unfold SL. rewrite Ecr, app_length. cbn [length]. repeat split; lia.
  Qed.

  Lemma ws_tab_lf : is_ws ws_sig_tab 10 = true. Proof. reflexivity. Qed.
  Lemma ws_tab_tab : is_ws ws_sig_tab 9 = false. Proof. reflexivity. Qed.
  Lemma ws_tab_ok : ws_ok ws_sig_tab. Proof. right. right. reflexivity. Qed.
  Lemma punct_tab : punct 9. Proof. repeat split; try reflexivity; unfold ascii; lia. Qed.

  Lemma blank_ws_tab : forall w, blank_char w -> is_ws ws_sig_tab w = true.
  Proof. intros w [->|[->| ->]]; reflexivity. Qed.

  (** the state after the symbol loop has peeked what follows the NS_ block *)
  Lemma ns_end : forall following c r P l k ll, c :: r = cr ++ 10 :: following -> rest_ok following -> 0 <= k ->
    exists tok sc', peek_token (PS (stepS c r P l k ll c ws_sig_tab) None) = POk tok (PS sc' (Some tok))
                    /\ t_typ tok <> c_tab
                    /\ Ready SL (l + 1) (P + blen cr + 1) following (PS (set_ws sc' ws_default) (Some tok)).
  Proof.
    intros following c r P l k ll E (g & rest & -> & (Hg & Hge) & Htop) Hk.
    destruct (eol_shape (g ++ rest) c r P l k ll ws_sig_tab E Hk)
      as (w & g1 & P' & l' & k' & ll' & Es & Hw & Hg1 & Hend & Hk' & Hk0 & El & EP & Hl1).
    rewrite Es. rewrite app_assoc. rewrite peek_token_scan.
    assert (Hrun : wsrun ws_sig_tab (g1 ++ g)) by (apply blank_wsrun; [right; reflexivity|apply Forall_app; split; assumption]).
    assert (Hend' : exists g', w :: g1 ++ g = g' ++ [10]).
    { destruct Hge as [->|(g' & ->)]; [rewrite app_nil_r; exact Hend|]. exists (w :: g1 ++ g'). cbn [app]. rewrite <- app_assoc. reflexivity. }
    destruct Htop as [(-> & Hf)|(kw & c' & r' & -> & Hk1 & Hc' & Hnc' & Hf)].
    - rewrite !app_nil_r.
      destruct (sc_scan_run_eof (g1 ++ g) w [w] P' l' k' ll' ws_sig_tab) as (tok & s' & E' & Ht);
        try assumption; [rewrite app_length; lia|apply blank_ws_tab; assumption|].
      rewrite E'. exists tok, s'. split; [reflexivity|]. split; [rewrite Ht; discriminate|].
      apply ready_look_eof; assumption.
    - pose proof Hk1 as (c0 & t & -> & H0 & Ht).
      destruct (scan_run_ident (g1 ++ g) w c0 t c' r' [w] P' l' k' ll' ws_sig_tab) as (k2 & ll2 & E' & Hk2 & Hnil & Hlf);
        try assumption; [apply blank_ws_tab; assumption|exact ws_tab_ok|rewrite app_length; cbn [length] in Hf; lia|].
      rewrite E'.
      assert (Ek : k2 = 0).
      { destruct Hend' as (g' & Eg). destruct (g1 ++ g) as [|a g0] eqn:Egg.
        - destruct g' as [|b g']; [|destruct g'; discriminate Eg]. cbn in Eg. injection Eg as ->.
          destruct (Hnil eq_refl) as (-> & _). apply Hk0. reflexivity.
        - destruct g' as [|b g']; [destruct g0; discriminate Eg|]. cbn [app] in Eg. injection Eg as _ Eg.
          apply (Hlf g'). exact Eg. }
      subst k2. eexists; eexists. split; [reflexivity|]. split; [discriminate|].
      rewrite set_ws_stepS.
      pose proof (ready_look_kw SL (l + 1) (P + blen cr + 1) g (c0 :: t) c' r' ll2 Hg Hk1 Hnc') as HR.
      unfold canon, kwtok in HR.
      replace (l' + nl_count (g1 ++ g)) with (l + 1 + nl_count g) by (rewrite nl_count_app; lia).
      replace (P' + blen (g1 ++ g)) with (P + blen cr + 1 + blen g) by (rewrite blen_app; lia).
      replace (P + blen cr + 1 + blen g + 1 + blen t) with (P + blen cr + 1 + blen g + blen (c0 :: t)) by (rewrite blen_cons; lia).
      replace (0 + 1 + blen t) with (blen (c0 :: t)) by (rewrite blen_cons; lia). exact HR.
  Qed.

  Lemma ns_text_head : forall syms following, exists c r, cr ++ 10 :: ns_text cr syms ++ following = c :: r /\ blank_char c.
  Proof. intros. apply eol_head. Qed.

  Lemma ns_loop_run : forall syms f racc following c r P l k ll,
    c :: r = cr ++ 10 :: ns_text cr syms ++ following ->
    rest_ok following -> Forall (fun s => ident_valid s = true) syms ->
    (length syms < f)%nat -> (length cr + length (ns_text cr syms) + 4 < F)%nat -> 0 <= k ->
    exists tok sc', new_symbols_loop il id F f racc (PS (stepS c r P l k ll c ws_sig_tab) None)
                    = POk (rev racc ++ syms) (PS sc' (Some tok))
                    /\ Ready SL (l + 1 + Z.of_nat (length syms)) (P + blen cr + 1 + blen (ns_text cr syms)) following
                             (PS (set_ws sc' ws_default) (Some tok)).
  Proof.
    induction syms as [|s syms IH]; intros f racc following c r P l k ll E Htop Hw Hf HF Hk; (destruct f as [|f]; [cbn in Hf; lia|]).
    - cbn [ns_text map concat app length] in *. rewrite blen_nil, !Z.add_0_r.
      destruct (ns_end following c r P l k ll E Htop Hk) as (tok & sc' & Ep & Hty & HR).
      cbn [new_symbols_loop]. unfold bind at 1. rewrite Ep. apply Z.eqb_neq in Hty. rewrite Hty. unfold ret.
      rewrite app_nil_r. exists tok, sc'. split; [reflexivity|exact HR].
    - apply Forall_cons_iff in Hw. destruct Hw as (Hs & Hw').
      destruct (ident_valid_shape s Hs) as (c0 & t & Es & H0 & Ht). destruct (id0_ge c0 H0) as (H33 & Ha0 & H10).
      unfold ns_text in *. cbn [map concat] in *. fold (ns_text cr syms) in *.
      assert (HFs : (length t + length cr + length cr + length (ns_text cr syms) + 7 < F)%nat).
      { rewrite Es in HF. repeat (rewrite app_length in HF || cbn [length] in HF). lia. }
      pose proof (blen_nonneg t) as Hnt.
      rewrite Es in E. repeat (rewrite <- app_assoc in E; cbn [app] in E).
      destruct (eol_shape (9 :: c0 :: t ++ cr ++ 10 :: ns_text cr syms ++ following) c r P l k ll ws_sig_tab E Hk)
        as (w & g1 & P' & l' & k' & ll' & Est & Hw1 & Hg1 & Hend & Hk' & Hk0 & El & EP & Hl1).
      cbn [new_symbols_loop]. unfold bind at 1. rewrite peek_token_scan. rewrite Est.
      destruct (sc_scan_run g1 w 9 (c0 :: t ++ cr ++ 10 :: ns_text cr syms ++ following) [w] P' l' k' ll' ws_sig_tab)
        as (k2 & ll2 & Esc & Hk2 & _ & _); try assumption;
        [unfold SL in Hl1; lia|apply blank_ws_tab; assumption|apply blank_wsrun; [right; reflexivity|assumption]|unfold ascii; lia|exact ws_tab_tab|].
      rewrite Esc. rewrite stepS_plain by discriminate. rewrite scan_body_punct by (try exact punct_tab; assumption).
      cbn [t_typ]. change (9 =? c_tab) with true. cbv iota. unfold bind at 1.
      erewrite p_token_look by reflexivity. unfold bind at 1.
      rewrite stepS_plain by assumption.
      destruct (eol_head (ns_text cr syms ++ following)) as (c2 & r2 & E2 & Hc2). rewrite E2.
      unfold p_identifier. unfold bind at 1. rewrite next_token_scan.
      rewrite sc_scan_direct; cbn [s_ch s_ws mkS]; [|unfold ascii, NOCHAR in *; lia|apply ws_printable; [exact ws_tab_ok|assumption]].
      rewrite scan_body_ident; try assumption; try lia; [|apply blank_ascii; assumption|apply blank_not_idc; assumption].
      cbn [t_typ t_txt]. change (TIdent =? TIdent) with true. cbn [negb]. rewrite <- Es, Hs. cbn [negb]. unfold ret at 1.
      match goal with |- context [PS (stepS c2 r2 ?PP ?LL ?KK ?L2 c2 ws_sig_tab) None] =>
        destruct (IH f (s :: racc) following c2 r2 PP LL KK L2 (eq_sym E2) Htop Hw'
                    ltac:(cbn in Hf; lia) ltac:(lia) ltac:(lia)) as (tok & sc' & E' & HR) end.
      exists tok, sc'. split.
      + rewrite E'. cbn [rev]. rewrite <- app_assoc. reflexivity.
      + cbn [length]. rewrite Es. repeat (rewrite blen_app || rewrite blen_cons). rewrite ?blen_nil.
        match goal with |- Ready _ ?L1 ?X _ _ => match type of HR with Ready _ ?L2 ?Y _ _ =>
          replace X with Y by lia; replace L1 with L2 by lia end end.
        exact HR.
  Qed.

  Lemma step_new_symbols : forall syms rest line off ll, wf_sdef (SNewSymbols syms) -> rest_ok rest ->
    (length (print_def cr (SNewSymbols syms)) + 4 <= F)%nat ->
    exists st', parse_new_symbols il id F (canon line off kw_new_symbols 32 (58 :: cr ++ 10 :: ns_text cr syms ++ rest) ll)
                = POk (elab_def cr line off (SNewSymbols syms)) st'
                /\ Ready SL (line + def_lines (SNewSymbols syms)) (off + blen (print_def cr (SNewSymbols syms))) rest st'.
  Proof.
    intros syms rest line off ll Hw Htop HF. cbn [wf_sdef print_def] in *.
    repeat (rewrite app_length in HF || cbn [length] in HF). unfold kw_new_symbols in HF. cbn [length] in HF.
    assert (Hk : blen kw_new_symbols = 3) by reflexivity.
    assert (Hl : (length syms <= length (ns_text cr syms))%nat).
    { clear. induction syms as [|s syms IH]; cbn [ns_text map concat length]; [lia|]. fold (ns_text cr syms).
      rewrite app_length. cbn [length]. lia. }
    destruct (eol_head (ns_text cr syms ++ rest)) as (ce & re & Ee & Hce). rewrite Ee.
    unfold parse_new_symbols, canon. unfold bind at 1. unfold use_whitespace at 1. cbn [p_sc p_look PS]. rewrite set_ws_stepS.
    unfold bind at 1. rewrite p_keyword_canon. rewrite stepS_plain by discriminate.
    unfold bind at 1. unfold p_token at 1. unfold bind at 1. rewrite next_token_scan.
    rewrite (scan_ws_punct 32); try side; [|exact ws_tab_ok|apply blank_ascii; assumption].
    cbn [t_typ]. change (58 =? c_colon) with true. cbn [negb]. unfold ret at 1.
    match goal with |- context [PS (stepS ce re ?PP ?LL ?KK ?L2 ce ws_sig_tab) None] =>
      destruct (ns_loop_run syms F [] rest ce re PP LL KK L2 (eq_sym Ee) Htop Hw ltac:(lia) ltac:(lia) ltac:(lia)) as (tok & sc' & E & HR) end.
    unfold bind at 1. rewrite E. unfold bind at 1. unfold use_whitespace, ret. cbn [p_sc p_look PS rev app kwtok t_pos elab_def].
    eexists. split; [reflexivity|].
    cbn [def_lines].
    match goal with |- Ready _ ?L1 ?X _ _ => match type of HR with Ready _ ?L2 ?Y _ _ => replace X with Y; [replace L1 with L2 by lia; exact HR|] end end.
    repeat (rewrite blen_app || rewrite blen_cons). lia.
  Qed.

  (** ------------------------------------------------------------ the whole file *)

  Lemma is_ident_version : is_ident kw_version.
  Proof. exists 86, [69; 82; 83; 73; 79; 78]. split; [reflexivity|]. split; [reflexivity|]. repeat constructor. Qed.
  Lemma is_ident_bit_timing : is_ident kw_bit_timing.
  Proof. exists 66, [83; 95]. split; [reflexivity|]. split; [reflexivity|]. repeat constructor. Qed.
  Lemma is_ident_nodes : is_ident kw_nodes.
  Proof. exists 66, [85; 95]. split; [reflexivity|]. split; [reflexivity|]. repeat constructor. Qed.

  (** every printed definition starts with an identifier, which is not SG_, followed by a
      non-identifier character *)
  Lemma print_def_head : forall d rest, wf_sdef d ->
    exists kw c r, print_def cr d ++ rest = kw ++ c :: r /\ is_ident kw /\ ascii c /\ idc c = false
                   /\ (length kw + SL <= length (print_def cr d))%nat /\ (is_signal d = false -> bytes_eqb kw kw_signal = false).
  Proof.
    intros d rest Hw. destruct d as [s|[[b [[b1 b2]|]]|]|ns|mi mn msz mtx sigs|kw ts|co ct|[vi|] vn vvs|tn tvs|svi svn svc svt|xi xtxs|en et emn emx eu einit ei eacc enode enodes|dn dsz|ao an ab|dfn dfv|avn avo avv|nsy|tsg]; cbn [print_def wf_sdef] in *.
    - eexists kw_version, 32, _. rewrite <- app_assoc. cbn [app].
      split; [reflexivity|]. split; [exact is_ident_version|]. split; [unfold ascii; lia|]. split; [reflexivity|].
      split; [|intros _; reflexivity]. unfold SL. repeat (rewrite app_length || cbn [length]). lia.
    - eexists kw_bit_timing, 58, _. rewrite <- app_assoc. cbn [app].
      split; [reflexivity|]. split; [exact is_ident_bit_timing|]. split; [unfold ascii; lia|]. split; [reflexivity|].
      split; [|intros _; reflexivity]. unfold SL. repeat (rewrite app_length || cbn [length]). lia.
    - eexists kw_bit_timing, 58, _. rewrite <- app_assoc. cbn [app].
      split; [reflexivity|]. split; [exact is_ident_bit_timing|]. split; [unfold ascii; lia|]. split; [reflexivity|].
      split; [|intros _; reflexivity]. unfold SL. repeat (rewrite app_length || cbn [length]). lia.
    - eexists kw_bit_timing, 58, _. rewrite <- app_assoc. cbn [app].
      split; [reflexivity|]. split; [exact is_ident_bit_timing|]. split; [unfold ascii; lia|]. split; [reflexivity|].
      split; [|intros _; reflexivity]. unfold SL. repeat (rewrite app_length || cbn [length]). lia.
    - eexists kw_nodes, 58, _. rewrite <- app_assoc. cbn [app].
      split; [reflexivity|]. split; [exact is_ident_nodes|]. split; [unfold ascii; lia|]. split; [reflexivity|].
      split; [|intros _; reflexivity]. unfold SL. repeat (rewrite app_length || cbn [length]). lia.
    - eexists kw_message, 32, _. rewrite <- app_assoc. cbn [app].
      split; [reflexivity|]. split; [exact is_ident_message|]. split; [unfold ascii; lia|]. split; [reflexivity|].
      split; [|intros _; reflexivity]. unfold SL. repeat (rewrite app_length || cbn [length]). lia.
    - destruct Hw as (Hk & Hd & _). destruct (sp_list_head' _ print_utok ts rest) as (c & r & E & Hc & Hnc & _).
      exists kw, c, r. rewrite <- !app_assoc. cbn [app]. rewrite E.
      split; [reflexivity|]. split; [exact (ident_valid_shape kw Hk)|]. split; [assumption|]. split; [assumption|].
      split; [unfold SL; rewrite !app_length; cbn [length]; lia|].
      intros _. unfold dispatching in Hd. repeat (apply orb_false_iff in Hd; destruct Hd as [Hd ?]). assumption.
    - assert (E : exists R, print_obj co ++ 32 :: 34 :: ct ++ 34 :: 32 :: 59 :: cr ++ [10] = 32 :: R) by (destruct co; cbn; eexists; reflexivity).
      destruct E as (R & E). pose proof (f_equal (@length Z) E) as EL. repeat (rewrite app_length in EL || cbn [length] in EL).
      exists kw_comment, 32, (R ++ rest). rewrite <- app_assoc. rewrite E.
      split; [reflexivity|]. split; [match goal with |- is_ident ?k => exact (ident_valid_shape k eq_refl) end|]. split; [unfold ascii; lia|]. split; [reflexivity|].
      split; [|intros _; reflexivity]. unfold SL. repeat (rewrite app_length || cbn [length]). lia.
    - eexists kw_value_descriptions, 32, _. rewrite <- app_assoc. cbn [app].
      split; [reflexivity|]. split; [match goal with |- is_ident ?k => exact (ident_valid_shape k eq_refl) end|]. split; [unfold ascii; lia|]. split; [reflexivity|].
      split; [|intros _; reflexivity]. unfold SL. repeat (rewrite app_length || cbn [length]). lia.
    - eexists kw_value_descriptions, 32, _. rewrite <- app_assoc. cbn [app].
      split; [reflexivity|]. split; [match goal with |- is_ident ?k => exact (ident_valid_shape k eq_refl) end|]. split; [unfold ascii; lia|]. split; [reflexivity|].
      split; [|intros _; reflexivity]. unfold SL. repeat (rewrite app_length || cbn [length]). lia.
    - eexists kw_value_table, 32, _. rewrite <- app_assoc. cbn [app].
      split; [reflexivity|]. split; [match goal with |- is_ident ?k => exact (ident_valid_shape k eq_refl) end|]. split; [unfold ascii; lia|]. split; [reflexivity|].
      split; [|intros _; reflexivity]. unfold SL. repeat (rewrite app_length || cbn [length]). lia.
    - eexists kw_signal_value_type, 32, _. rewrite <- app_assoc. cbn [app].
      split; [reflexivity|]. split; [match goal with |- is_ident ?k => exact (ident_valid_shape k eq_refl) end|]. split; [unfold ascii; lia|]. split; [reflexivity|].
      split; [|intros _; reflexivity]. unfold SL. repeat (rewrite app_length || cbn [length]). lia.
    - eexists kw_message_transmitters, 32, _. rewrite <- app_assoc. cbn [app].
      split; [reflexivity|]. split; [match goal with |- is_ident ?k => exact (ident_valid_shape k eq_refl) end|]. split; [unfold ascii; lia|]. split; [reflexivity|].
      split; [|intros _; reflexivity]. unfold SL. repeat (rewrite app_length || cbn [length]). lia.
    - eexists kw_envvar, 32, _. rewrite <- app_assoc. cbn [app].
      split; [reflexivity|]. split; [match goal with |- is_ident ?k => exact (ident_valid_shape k eq_refl) end|]. split; [unfold ascii; lia|]. split; [reflexivity|].
      split; [|intros _; reflexivity]. unfold SL. repeat (rewrite app_length || cbn [length]). lia.
    - eexists kw_envvar_data, 32, _. rewrite <- app_assoc. cbn [app].
      split; [reflexivity|]. split; [match goal with |- is_ident ?k => exact (ident_valid_shape k eq_refl) end|]. split; [unfold ascii; lia|]. split; [reflexivity|].
      split; [|intros _; reflexivity]. unfold SL. repeat (rewrite app_length || cbn [length]). lia.
    - assert (E : exists R, print_attr_obj ao ++ 32 :: print_quoted an ++ print_attr_body ab ++ 32 :: 59 :: cr ++ [10] = 32 :: R)
        by (destruct ao; cbn; eexists; reflexivity).
      destruct E as (R & E). pose proof (f_equal (@length Z) E) as EL. repeat (rewrite app_length in EL || cbn [length] in EL).
      exists kw_attribute, 32, (R ++ rest). rewrite <- app_assoc. rewrite E.
      split; [reflexivity|]. split; [exact (ident_valid_shape kw_attribute eq_refl)|]. split; [unfold ascii; lia|]. split; [reflexivity|].
      split; [|intros _; reflexivity]. unfold SL. repeat (rewrite app_length || cbn [length]). lia.
    - eexists kw_attribute_default, 32, _. rewrite <- app_assoc. cbn [app].
      split; [reflexivity|]. split; [exact (ident_valid_shape kw_attribute_default eq_refl)|]. split; [unfold ascii; lia|]. split; [reflexivity|].
      split; [|intros _; reflexivity]. unfold SL. repeat (rewrite app_length || cbn [length]). lia.
    - eexists kw_attribute_value, 32, _. rewrite <- app_assoc. cbn [app].
      split; [reflexivity|]. split; [exact (ident_valid_shape kw_attribute_value eq_refl)|]. split; [unfold ascii; lia|]. split; [reflexivity|].
      split; [|intros _; reflexivity]. unfold SL. repeat (rewrite app_length || cbn [length]). lia.
    - eexists kw_new_symbols, 32, _. rewrite <- app_assoc. cbn [app].
      split; [reflexivity|]. split; [exact (ident_valid_shape kw_new_symbols eq_refl)|]. split; [unfold ascii; lia|]. split; [reflexivity|].
      split; [|intros _; reflexivity]. unfold SL. repeat (rewrite app_length || cbn [length]). lia.
    - eexists kw_signal, 32, _. rewrite print_signal_eq.
      split; [reflexivity|]. split; [exact is_ident_signal|]. split; [unfold ascii; lia|]. split; [reflexivity|].
      split; [|intros H; discriminate H]. pose proof (print_signal_ge tsg). unfold SL, kw_signal. cbn [length]. lia.
  Qed.

  Lemma wf_defs_Forall : forall ds ctx, wf_defs ctx ds -> Forall wf_sdef ds.
  Proof.
    induction ds as [|d ds IH]; intros ctx H; [constructor|]. destruct H as ((Hd & _) & H). constructor; [exact Hd|exact (IH _ H)].
  Qed.

  Lemma print_def_len_ge : forall d, wf_sdef d -> (SL <= length (print_def cr d))%nat.
  Proof. intros d Hw. destruct (print_def_head d [] Hw) as (kw & c & r & _ & _ & _ & _ & Hl & _). lia. Qed.

  Lemma wf_items_head : forall ctx g d its, wf_items ctx ((g, d) :: its) -> blank_block g /\ wf_sdef d /\ wf_items (ctx_step ctx d) its.
  Proof. intros ctx g d its (Hg & (Hd & _) & Hi). auto. Qed.

  (** what follows a definition inside a file: blank lines, then the next definition or the end *)
  Definition first_not_signal (its : list item) : Prop :=
    match its with [] => True | (_, d) :: _ => is_signal d = false end.

  Lemma rest_top_items : forall its gend ctx, wf_items ctx its -> blank_block gend -> first_not_signal its ->
    (SL + length (print_items cr its ++ gend) + 3 <= F)%nat -> rest_top (print_items cr its ++ gend).
  Proof.
    intros its gend ctx Hw Hge Hfs HF. destruct its as [|[g d] its].
    - cbn [print_items app] in *. exists gend, []. split; [rewrite app_nil_r; reflexivity|]. split; [exact Hge|]. left. split; [reflexivity|lia].
    - destruct (wf_items_head _ _ _ _ Hw) as (Hg & Hd & _). cbn [print_items first_not_signal] in *.
      repeat rewrite <- app_assoc in *. exists g, (print_def cr d ++ print_items cr its ++ gend).
      split; [reflexivity|]. split; [exact Hg|]. right.
      destruct (print_def_head d (print_items cr its ++ gend) Hd) as (kw & c & r & E & Hk & Hc & Hnc & Hl & Hns).
      exists kw, c, r. rewrite !app_length in HF. split; [exact E|]. split; [exact Hk|]. split; [exact Hc|]. split; [exact Hnc|].
      split; [lia|exact (Hns Hfs)].
  Qed.

  Lemma rest_ok_items : forall its gend ctx, wf_items ctx its -> blank_block gend ->
    (SL + length (print_items cr its ++ gend) + 3 <= F)%nat -> rest_ok (print_items cr its ++ gend).
  Proof.
    intros its gend ctx Hw Hge HF. destruct its as [|[g d] its].
    - cbn [print_items app] in *. exists gend, []. split; [rewrite app_nil_r; reflexivity|]. split; [exact Hge|]. left. split; [reflexivity|lia].
    - destruct (wf_items_head _ _ _ _ Hw) as (Hg & Hd & _). cbn [print_items] in *.
      repeat rewrite <- app_assoc in *. exists g, (print_def cr d ++ print_items cr its ++ gend).
      split; [reflexivity|]. split; [exact Hg|]. right.
      destruct (print_def_head d (print_items cr its ++ gend) Hd) as (kw & c & r & E & Hk & Hc & Hnc & Hl & _).
      exists kw, c, r. rewrite !app_length in HF. split; [exact E|]. split; [exact Hk|]. split; [exact Hc|]. split; [exact Hnc|]. lia.
  Qed.

  Lemma head_ascii_items : forall its gend ctx, wf_items ctx its -> blank_block gend -> head_ascii (print_items cr its ++ gend).
  Proof.
    intros its gend ctx Hw (Hge & _). destruct its as [|[g d] its].
    - cbn [print_items app]. destruct gend as [|a gend]; [exact I|]. cbn. inversion Hge. apply blank_ascii. assumption.
    - destruct (wf_items_head _ _ _ _ Hw) as ((Hg & _) & Hd & _). cbn [print_items]. destruct g as [|a g].
      + cbn [app]. destruct (print_def_head d (print_items cr its ++ gend) Hd) as (kw & c & r & E & (c0 & t & -> & H0 & _) & _).
        rewrite <- app_assoc, E. cbn. apply (id0_ge c0 H0).
      + cbn. inversion Hg. apply blank_ascii. assumption.
  Qed.

  Lemma dispatch_unknown : forall bt unk msg defs kw, dispatching kw = false ->
    parse_def_with il id F bt unk msg defs kw = unk.
  Proof.
    intros bt unk msg defs kw H. unfold dispatching in H.
    repeat (apply orb_false_iff in H; destruct H as [H ?]).
    unfold parse_def_with. repeat match goal with E : bytes_eqb kw _ = false |- _ => rewrite E; clear E end. reflexivity.
  Qed.

  Notation the_loop := (parse_loop_with il id F (parse_bit_timing il id F) (parse_unknown il id F) (parse_message il id F)).
  Notation the_def := (parse_def_with il id F (parse_bit_timing il id F) (parse_unknown il id F) (parse_message il id F)).

  Ltac fuel HF :=
    cbn [print_def] in HF; repeat (rewrite app_length in HF || cbn [length] in HF);
    unfold SL, kw_version, kw_bit_timing, kw_nodes, kw_message in *; cbn [length] in *; lia.

  Ltac fuel2 HF :=
    let H := fresh in
    pose proof HF as H; cbn [print_def] in H; repeat (rewrite app_length in H || cbn [length] in H);
    unfold kw_comment, kw_value_descriptions, kw_value_table, kw_signal_value_type, kw_message_transmitters, kw_envvar,
      kw_envvar_data, kw_attribute, kw_attribute_default, kw_attribute_value, kw_new_symbols, SL in *; cbn [length] in *; lia.

  (** one definition: from the canonical state at its keyword, the dispatched parser returns its
      denotation and leaves the parser ready at the next line *)
  Lemma step_def : forall d rest defs ctx m line off, ctx_agrees ctx defs -> wf_sdef_ctx ctx d -> rest_ok rest ->
    (is_message d = true -> rest_top rest) ->
    (m + length (print_def cr d) + length rest + 4 <= F)%nat ->
    forall st, Ready0 m line off (print_def cr d ++ rest) st ->
    exists kw st1 st2, peek_token st = POk (kwtok line off kw) st1 /\ peek_keyword il id F st1 = POk kw st1
                       /\ the_def defs kw st1 = POk (elab_def_ctx cr ctx line off d) st2
                       /\ Ready SL (line + def_lines d) (off + blen (print_def cr d)) rest st2.
  Proof.
    intros d rest defs ctx m line off Hag Hwc Hok Htop HF st (_ & HR).
    pose proof Hwc as (Hw & Hwv).
    destruct d as [s|[[b [[b1 b2]|]]|]|ns|mi mn msz mtx sigs|kw ts|co ct|[vi|] vn vvs|tn tvs|svi svn svc svt|xi xtxs|en et emn emx eu einit ei eacc enode enodes|dn dsz|ao an ab|dfn dfv|avn avo avv|nsy|tsg]; cbn [wf_sdef elab_def elab_def_ctx] in *.
    - (* VERSION *)
      destruct (HR kw_version 32 (34 :: s ++ 34 :: cr ++ 10 :: rest)) as (ll & Ep);
        [cbn [print_def]; unfold signals_text; repeat (rewrite <- app_assoc; cbn [app]); try rewrite Ec; reflexivity
        |exact is_ident_version|unfold ascii; lia|reflexivity|fuel HF|].
      destruct (step_version s rest line off ll Hw) as (st2 & E & HR2); [fuel HF|].
      eexists kw_version, _, st2. split; [exact Ep|]. split; [apply peek_keyword_canon|]. split; [exact E|exact HR2].
    - (* BS_ full form *)
      destruct Hw as (Hb & Hb1 & Hb2).
      destruct (HR kw_bit_timing 58 (32 :: b ++ 32 :: 58 :: 32 :: b1 ++ 32 :: 44 :: 32 :: b2 ++ cr ++ 10 :: rest)) as (ll & Ep);
        [cbn [print_def]; unfold signals_text; repeat (rewrite <- app_assoc; cbn [app]); try rewrite Ec; reflexivity
        |exact is_ident_bit_timing|unfold ascii; lia|reflexivity|fuel HF|].
      destruct (step_bit_timing_2 b b1 b2 rest line off ll Hb Hb1 Hb2 Hok) as (st2 & E & HR2); [fuel HF|].
      eexists kw_bit_timing, _, st2. split; [exact Ep|]. split; [apply peek_keyword_canon|]. split; [exact E|exact HR2].
    - (* BS_ baud only *)
      destruct (HR kw_bit_timing 58 (32 :: b ++ cr ++ 10 :: rest)) as (ll & Ep);
        [cbn [print_def]; unfold signals_text; repeat (rewrite <- app_assoc; cbn [app]); try rewrite Ec; reflexivity
        |exact is_ident_bit_timing|unfold ascii; lia|reflexivity|fuel HF|].
      destruct (step_bit_timing_1 b rest line off ll Hw Hok) as (st2 & E & HR2); [fuel HF|].
      eexists kw_bit_timing, _, st2. split; [exact Ep|]. split; [apply peek_keyword_canon|]. split; [exact E|exact HR2].
    - (* BS_ alone *)
      destruct (HR kw_bit_timing 58 (cr ++ 10 :: rest)) as (ll & Ep);
        [cbn [print_def]; unfold signals_text; repeat (rewrite <- app_assoc; cbn [app]); try rewrite Ec; reflexivity
        |exact is_ident_bit_timing|unfold ascii; lia|reflexivity|fuel HF|].
      destruct (step_bit_timing_0 rest line off ll Hok) as (st2 & E & HR2); [lia|].
      eexists kw_bit_timing, _, st2. split; [exact Ep|]. split; [apply peek_keyword_canon|]. split; [exact E|exact HR2].
    - (* BU_ *)
      destruct (HR kw_nodes 58 (sp_list (fun n => n) ns ++ cr ++ 10 :: rest)) as (ll & Ep);
        [cbn [print_def]; unfold signals_text; repeat (rewrite <- app_assoc; cbn [app]); try rewrite Ec; reflexivity
        |exact is_ident_nodes|unfold ascii; lia|reflexivity|fuel HF|].
      destruct (step_nodes ns rest line off ll Hw Hok) as (st2 & E & HR2); [fuel HF|].
      eexists kw_nodes, _, st2. split; [exact Ep|]. split; [apply peek_keyword_canon|]. split; [exact E|exact HR2].
    - (* BO_ with its SG_ lines *)
      destruct (HR kw_message 32 (mi ++ 32 :: mn ++ 32 :: 58 :: 32 :: msz ++ 32 :: mtx ++ cr ++ 10 :: signals_text sigs ++ rest)) as (ll & Ep);
        [cbn [print_def]; unfold signals_text; repeat (rewrite <- app_assoc; cbn [app]); try rewrite Ec; reflexivity
        |exact is_ident_message|unfold ascii; lia|reflexivity|fuel HF|].
      destruct (step_message mi mn msz mtx sigs rest line off ll Hw (Htop eq_refl)) as (st2 & E & HR2); [lia|].
      eexists kw_message, _, st2. split; [exact Ep|]. split; [apply peek_keyword_canon|]. split; [exact E|exact HR2].
    - (* unknown line *)
      destruct Hw as (Hk & Hd & Hts).
      destruct (sp_list_head' _ print_utok ts rest) as (c & r & Ec & Hc & Hnc & _).
      destruct (HR kw c r) as (ll & Ep);
        [cbn [print_def]; unfold signals_text; repeat (rewrite <- app_assoc; cbn [app]); try rewrite Ec; reflexivity
        |exact (ident_valid_shape kw Hk)|assumption|assumption|fuel HF|].
      destruct (step_unknown kw ts c r rest line off ll (eq_sym Ec) Hts Hok) as (st2 & E & HR2);
        [destruct (ident_valid_shape kw Hk) as (? & ? & -> & _); fuel HF|].
      eexists kw, _, st2. split; [exact Ep|]. split; [apply peek_keyword_canon|]. split; [|exact HR2].
      rewrite dispatch_unknown by assumption. exact E.
    - (* CM_ *)
      destruct (print_def_head (SComment co ct) rest Hw) as (kw0 & c0 & R & ER & _).
      assert (ER' : exists R', print_def cr (SComment co ct) ++ rest = kw_comment ++ 32 :: R').
      { cbn [print_def]. rewrite <- app_assoc. destruct co; cbn [print_obj app]; eexists; reflexivity. }
      clear kw0 c0 R ER. destruct ER' as (R & ER).
      destruct (HR kw_comment 32 R ER (ident_valid_shape kw_comment eq_refl)) as (ll & Ep); [unfold ascii; lia|reflexivity|fuel2 HF|].
      destruct (step_comment co ct rest R line off ll Hw ER ltac:(lia)) as (st2 & E & HR2).
      eexists kw_comment, _, st2. split; [exact Ep|]. split; [apply peek_keyword_canon|]. split; [exact E|exact HR2].
    - (* VAL_ signal form *)
      assert (ER : exists R, print_def cr (SValues (Some vi) vn vvs) ++ rest = kw_value_descriptions ++ 32 :: R)
        by (cbn [print_def]; rewrite <- app_assoc; cbn [app]; eexists; reflexivity).
      destruct ER as (R & ER).
      destruct (HR kw_value_descriptions 32 R ER (ident_valid_shape kw_value_descriptions eq_refl)) as (ll & Ep); [unfold ascii; lia|reflexivity|fuel2 HF|].
      destruct (step_values (Some vi) vn vvs rest R line off ll Hw ER ltac:(lia)) as (st2 & E & HR2).
      eexists kw_value_descriptions, _, st2. split; [exact Ep|]. split; [apply peek_keyword_canon|]. split; [exact E|exact HR2].
    - (* VAL_ environment variable form *)
      assert (ER : exists R, print_def cr (SValues None vn vvs) ++ rest = kw_value_descriptions ++ 32 :: R)
        by (cbn [print_def]; rewrite <- app_assoc; cbn [app]; eexists; reflexivity).
      destruct ER as (R & ER).
      destruct (HR kw_value_descriptions 32 R ER (ident_valid_shape kw_value_descriptions eq_refl)) as (ll & Ep); [unfold ascii; lia|reflexivity|fuel2 HF|].
      destruct (step_values None vn vvs rest R line off ll Hw ER ltac:(lia)) as (st2 & E & HR2).
      eexists kw_value_descriptions, _, st2. split; [exact Ep|]. split; [apply peek_keyword_canon|]. split; [exact E|exact HR2].
    - (* VAL_TABLE_ *)
      assert (ER : exists R, print_def cr (SValueTable tn tvs) ++ rest = kw_value_table ++ 32 :: R)
        by (cbn [print_def]; rewrite <- app_assoc; cbn [app]; eexists; reflexivity).
      destruct ER as (R & ER).
      destruct (HR kw_value_table 32 R ER (ident_valid_shape kw_value_table eq_refl)) as (ll & Ep); [unfold ascii; lia|reflexivity|fuel2 HF|].
      destruct (step_value_table tn tvs rest R line off ll Hw ER ltac:(lia)) as (st2 & E & HR2).
      eexists kw_value_table, _, st2. split; [exact Ep|]. split; [apply peek_keyword_canon|]. split; [exact E|exact HR2].
    - (* SIG_VALTYPE_ *)
      assert (ER : exists R, print_def cr (SSigValType svi svn svc svt) ++ rest = kw_signal_value_type ++ 32 :: R)
        by (cbn [print_def]; rewrite <- app_assoc; cbn [app]; eexists; reflexivity).
      destruct ER as (R & ER).
      destruct (HR kw_signal_value_type 32 R ER (ident_valid_shape kw_signal_value_type eq_refl)) as (ll & Ep); [unfold ascii; lia|reflexivity|fuel2 HF|].
      destruct (step_sig_valtype svi svn svc svt rest R line off ll Hw ER ltac:(lia)) as (st2 & E & HR2).
      eexists kw_signal_value_type, _, st2. split; [exact Ep|]. split; [apply peek_keyword_canon|]. split; [exact E|exact HR2].
    - (* BO_TX_BU_ *)
      assert (ER : exists R, print_def cr (SMsgTx xi xtxs) ++ rest = kw_message_transmitters ++ 32 :: R)
        by (cbn [print_def]; rewrite <- app_assoc; cbn [app]; eexists; reflexivity).
      destruct ER as (R & ER).
      destruct (HR kw_message_transmitters 32 R ER (ident_valid_shape kw_message_transmitters eq_refl)) as (ll & Ep); [unfold ascii; lia|reflexivity|fuel2 HF|].
      destruct (step_msgtx xi xtxs rest R line off ll Hw ER ltac:(lia)) as (st2 & E & HR2).
      eexists kw_message_transmitters, _, st2. split; [exact Ep|]. split; [apply peek_keyword_canon|]. split; [exact E|exact HR2].
    - (* EV_ *)
      assert (ER : exists R, print_def cr (SEnvVar en et emn emx eu einit ei eacc enode enodes) ++ rest = kw_envvar ++ 32 :: R)
        by (cbn [print_def]; rewrite <- app_assoc; cbn [app]; eexists; reflexivity).
      destruct ER as (R & ER).
      destruct (HR kw_envvar 32 R ER (ident_valid_shape kw_envvar eq_refl)) as (ll & Ep); [unfold ascii; lia|reflexivity|fuel2 HF|].
      destruct (step_envvar en et emn emx eu einit ei eacc enode enodes rest R line off ll Hw ER ltac:(lia)) as (st2 & E & HR2).
      eexists kw_envvar, _, st2. split; [exact Ep|]. split; [apply peek_keyword_canon|]. split; [exact E|exact HR2].
    - (* ENVVAR_DATA_ *)
      assert (ER : exists R, print_def cr (SEnvVarData dn dsz) ++ rest = kw_envvar_data ++ 32 :: R)
        by (cbn [print_def]; rewrite <- app_assoc; cbn [app]; eexists; reflexivity).
      destruct ER as (R & ER).
      destruct (HR kw_envvar_data 32 R ER (ident_valid_shape kw_envvar_data eq_refl)) as (ll & Ep); [unfold ascii; lia|reflexivity|fuel2 HF|].
      destruct (step_envvar_data dn dsz rest R line off ll Hw ER ltac:(lia)) as (st2 & E & HR2).
      eexists kw_envvar_data, _, st2. split; [exact Ep|]. split; [apply peek_keyword_canon|]. split; [exact E|exact HR2].
    - (* BA_DEF_ *)
      assert (ER : exists R, print_def cr (SAttr ao an ab) ++ rest = kw_attribute ++ 32 :: R).
      { cbn [print_def]. rewrite <- app_assoc. destruct ao; cbn [print_attr_obj app]; eexists; reflexivity. }
      destruct ER as (R & ER).
      destruct (HR kw_attribute 32 R ER (ident_valid_shape kw_attribute eq_refl)) as (ll & Ep); [unfold ascii; lia|reflexivity|fuel2 HF|].
      destruct (step_attr ao an ab rest R line off ll Hw ER ltac:(lia)) as (st2 & E & HR2).
      eexists kw_attribute, _, st2. split; [exact Ep|]. split; [apply peek_keyword_canon|]. split; [exact E|exact HR2].
    - (* BA_DEF_DEF_ *)
      assert (ER : exists R, print_def cr (SAttrDefault dfn dfv) ++ rest = kw_attribute_default ++ 32 :: R)
        by (cbn [print_def]; rewrite <- app_assoc; cbn [app]; eexists; reflexivity).
      destruct ER as (R & ER).
      destruct (HR kw_attribute_default 32 R ER (ident_valid_shape kw_attribute_default eq_refl)) as (ll & Ep); [unfold ascii; lia|reflexivity|fuel2 HF|].
      destruct (step_attr_default ctx defs dfn dfv rest R line off ll Hag Hwc ER ltac:(lia)) as (st2 & E & HR2).
      eexists kw_attribute_default, _, st2. split; [exact Ep|]. split; [apply peek_keyword_canon|]. split; [exact E|exact HR2].
    - (* BA_ *)
      assert (ER : exists R, print_def cr (SAttrValue avn avo avv) ++ rest = kw_attribute_value ++ 32 :: R)
        by (cbn [print_def]; rewrite <- app_assoc; cbn [app]; eexists; reflexivity).
      destruct ER as (R & ER).
      destruct (HR kw_attribute_value 32 R ER (ident_valid_shape kw_attribute_value eq_refl)) as (ll & Ep); [unfold ascii; lia|reflexivity|fuel2 HF|].
      destruct (step_attr_value ctx defs avn avo avv rest R line off ll Hag Hwc ER ltac:(lia)) as (st2 & E & HR2).
      eexists kw_attribute_value, _, st2. split; [exact Ep|]. split; [apply peek_keyword_canon|]. split; [exact E|exact HR2].
    - (* NS_ *)
      destruct (HR kw_new_symbols 32 (58 :: cr ++ 10 :: ns_text cr nsy ++ rest)) as (ll & Ep);
        [cbn [print_def]; unfold signals_text; repeat (rewrite <- app_assoc; cbn [app]); try rewrite Ec; reflexivity
        |exact (ident_valid_shape kw_new_symbols eq_refl)|unfold ascii; lia|reflexivity|fuel2 HF|].
      destruct (step_new_symbols nsy rest line off ll Hw Hok ltac:(lia)) as (st2 & E & HR2).
      eexists kw_new_symbols, _, st2. split; [exact Ep|]. split; [apply peek_keyword_canon|]. split; [exact E|exact HR2].
    - (* top-level SG_ *)
      destruct (HR kw_signal 32 (signal_body tsg rest)) as (ll & Ep);
        [cbn [print_def]; apply print_signal_eq|exact is_ident_signal|unfold ascii; lia|reflexivity
        |pose proof (print_signal_ge tsg); cbn [print_def] in HF; unfold SL, kw_signal in *; cbn [length] in *; lia|].
      destruct (step_signal tsg rest line off ll Hw Hok) as (st2 & E & HR2); [cbn [print_def] in HF; lia|].
      eexists kw_signal, _, st2. split; [exact Ep|]. split; [apply peek_keyword_canon|]. split; [|exact HR2].
      assert (E' : (plet s0 <- parse_signal il id F; ret (DSignal s0)) (canon line off kw_signal 32 (signal_body tsg rest) ll)
                   = POk (DSignal (elab_signal line off tsg)) st2) by (unfold bind; rewrite E; reflexivity).
      exact E'.
  Qed.

  Lemma parse_loop_items : forall its gend f defs ctx pm n line off st,
    ctx_agrees ctx defs -> wf_items ctx its -> sg_placed pm (map snd its) -> blank_block gend -> (length its < f)%nat ->
    (n + length (print_items cr its ++ gend) + 4 <= F)%nat ->
    Ready n line off (print_items cr its ++ gend) st ->
    the_loop f defs st = Ok (defs ++ elab_items cr ctx line off its).
  Proof.
    induction its as [|[g d] its IH]; intros gend f defs ctx pm n line off st Hag Hw Hsg Hge Hf HF HR; (destruct f as [|f]; [cbn in Hf; lia|]).
    - cbn [parse_loop_with print_items elab_items app] in *.
      destruct (HR gend [] (eq_sym (app_nil_r gend)) Hge) as (H1 & _). destruct (H1 eq_refl ltac:(lia)) as (tok & st' & E & Ht).
      rewrite E, Ht. change (EOF =? EOF) with true. cbv iota. rewrite app_nil_r. reflexivity.
    - destruct Hw as (Hg & Hd & Hw'). cbn [print_items] in *. repeat rewrite <- app_assoc in *.
      do 2 rewrite app_length in HF. pose proof (print_def_len_ge d (proj1 Hd)) as Hlen.
      cbn [map snd sg_placed] in Hsg. destruct Hsg as (_ & Hsg').
      assert (Hok : rest_ok (print_items cr its ++ gend)) by (apply (rest_ok_items its gend _ Hw' Hge); lia).
      assert (Htop : is_message d = true -> rest_top (print_items cr its ++ gend)).
      { intros Hm. apply (rest_top_items its gend _ Hw' Hge); [|lia]. destruct its as [|[g' d'] its']; [exact I|].
        cbn [map snd sg_placed first_not_signal] in *. destruct Hsg' as (H & _). exact (H Hm). }
      pose proof (HR g (print_def cr d ++ print_items cr its ++ gend) eq_refl Hg) as HR0.
      destruct (step_def d (print_items cr its ++ gend) defs ctx (n + length g) (line + nl_count g) (off + blen g) Hag Hd Hok Htop ltac:(lia) st HR0)
        as (kw & st1 & st2 & Ep & Ek & Ed & HR2).
      cbn [parse_loop_with]. rewrite Ep. cbn [t_typ kwtok]. change (TIdent =? EOF) with false. cbv iota.
      unfold bind. rewrite Ek, Ed. cbn [elab_items].
      rewrite (IH gend f (defs ++ [elab_def_ctx cr ctx (line + nl_count g) (off + blen g) d]) (ctx_step ctx d) (is_message d) SL
                 (line + nl_count g + def_lines d) (off + blen g + blen (print_def cr d)) st2);
        try assumption; [|apply ctx_agrees_step; assumption|cbn in Hf; lia|lia].
      rewrite <- app_assoc. reflexivity.
  Qed.

  (** the initial parser state is at a definition boundary: its first Scan reads the first character,
      which leaves the scanner in shape B *)
  Lemma init_peek : forall c0 r', ascii c0 ->
    peek_token (p_init (c0 :: r')) = peek_token (PS (shapeB 1 0 0 (c0 :: r')) None).
  Proof.
    intros c0 r' Hc0. unfold p_init. fold (PS (sc_init (c0 :: r')) None). rewrite !peek_token_scan.
    rewrite !sc_scan_unfold. unfold sc_peek, sc_init. cbn [s_ch shapeB].
    change (NOCHAR =? NOCHAR) with true. cbv iota.
    fold (mkS (c0 :: r') [] 0 1 0 0 NOCHAR ws_default). rewrite next_step by assumption. cbn [sbind].
    assert (E1 : (c0 =? 65279) = false) by (apply Z.eqb_neq; unfold ascii in *; lia). rewrite E1. cbn [sbind].
    rewrite set_ch_stepS.
    assert (E2 : (s_ch (stepS c0 r' 0 1 0 0 c0 ws_default) =? NOCHAR) = false).
    { unfold stepS. destruct (c0 =? 10); cbn [s_ch mkS]; apply Z.eqb_neq; unfold ascii, NOCHAR in *; lia. }
    rewrite E2. cbn [sbind].
    assert (E3 : s_ch (stepS c0 r' 0 1 0 0 c0 ws_default) = c0) by (unfold stepS; destruct (c0 =? 10); reflexivity).
    rewrite E3. reflexivity.
  Qed.

  Lemma ready_init : forall T, head_ascii T -> (1 <= F)%nat -> Ready 0 1 0 T (p_init T).
  Proof.
    intros T Hh HF. destruct T as [|c0 r'].
    - intros g rest E Hg. destruct g; [|discriminate E]. destruct rest; [|discriminate E].
      cbn [nl_count length]. split.
      + intros _ _. unfold p_init. fold (PS (sc_init []) None).
        rewrite peek_token_scan. rewrite sc_scan_unfold. unfold sc_peek, sc_init. cbn [s_ch].
        change (NOCHAR =? NOCHAR) with true. cbv iota.
        fold (mkS [] [] 0 1 0 0 NOCHAR ws_default). rewrite next_eof. cbn [sbind].
        change (EOF =? 65279) with false. cbv iota. cbn [sbind].
        assert (He : is_ws ws_default EOF = false) by reflexivity.
        change (set_ch (mkS [] [] 0 1 (if 0 <? blen [] then 0 + 1 else 0) 0 NOCHAR ws_default) EOF)
          with (mkS [] [] 0 1 0 0 EOF ws_default).
        destruct F as [|f]; cbn [skip_ws]; cbn [s_ws mkS]; rewrite He; cbn [sbind];
          rewrite scan_body_eof; eexists; eexists; split; reflexivity.
      + intros kw c r E'. destruct kw; discriminate E'.
    - cbn in Hh. pose proof (init_peek c0 r' Hh) as Epk.
      intros g rest E Hg. destruct (ready_B 0 (c0 :: r') 0 1 0 g rest E Hg) as (H1 & H2). split.
      + intros Er Hf. rewrite Epk. apply H1; assumption.
      + intros kw c r Er Hk Hc Hnc Hf. rewrite Epk. apply H2; assumption.
  Qed.
End RT.

Lemma print_def_nonempty : forall cr d, (1 <= length (print_def cr d))%nat.
Proof.
  intros cr d.
  destruct d as [s|[[b [[b1 b2]|]]|]|ns|mi mn msz mtx sigs|kw ts|co ct|[vi|] vn vvs|tn tvs|svi svn svc svt|xi xtxs|en et emn emx eu einit ei eacc enode enodes|dn dsz|ao an ab|dfn dfv|avn avo avv|nsy|tsg];
    cbn [print_def]; unfold print_signal; rewrite !app_length; cbn [length]; lia.
Qed.

Lemma length_items_ge : forall cr its, (length its <= length (print_items cr its))%nat.
Proof.
  intros cr its. induction its as [|[g d] its IH]; cbn [print_items length]; [lia|].
  rewrite !app_length. pose proof (print_def_nonempty cr d). lia.
Qed.

(** C04, the proved part of the round trip: a well-formed file in the layout (line-end run [cr],
    blank lines before every definition and at the end) parses to the definitions it denotes *)
Theorem parse_print_layout : forall il id cr its gend, wf_lfile cr its gend ->
  parse_bytes il id (print_file cr its gend) = Ok (elaborate_file cr its).
Proof.
  intros il id cr its gend (Hcr & Hw & Hsg & Hge). unfold parse_bytes, parse, elaborate_file, print_file.
  pose proof (length_items_ge cr its) as Hl.
  rewrite (parse_loop_items il id (fuel_for (print_items cr its ++ gend)) cr Hcr its gend
             (fuel_for (print_items cr its ++ gend)) [] [] false 0 1 0 (p_init (print_items cr its ++ gend))).
  - reflexivity.
  - intros n. reflexivity.
  - exact Hw.
  - exact Hsg.
  - exact Hge.
  - unfold fuel_for. rewrite app_length. lia.
  - unfold fuel_for. lia.
  - apply ready_init; [eapply head_ascii_items; eassumption|unfold fuel_for; lia].
Qed.

(** the plain layout: no blank lines *)
Lemma print_plain : forall cr ds, print_items cr (plain ds) = print cr ds.
Proof. intros cr ds. induction ds as [|d ds IH]; cbn [plain map print_items print app]; [reflexivity|]. fold (plain ds). rewrite IH. reflexivity. Qed.

Lemma elab_plain : forall cr ds ctx line off, elab_items cr ctx line off (plain ds) = elab_from cr ctx line off ds.
Proof.
  intros cr ds. induction ds as [|d ds IH]; intros ctx line off; cbn [plain map elab_items elab_from]; [reflexivity|].
  fold (plain ds). cbn [nl_count]. rewrite blen_nil, !Z.add_0_r, IH. reflexivity.
Qed.

Lemma blank_block_nil : blank_block [].
Proof. split; [constructor|left; reflexivity]. Qed.

Lemma wf_plain : forall ds ctx, wf_defs ctx ds -> wf_items ctx (plain ds).
Proof.
  induction ds as [|d ds IH]; intros ctx H; [exact I|]. destruct H as (Hd & H). cbn [plain map wf_items]. fold (plain ds).
  split; [exact blank_block_nil|]. split; [exact Hd|apply IH; exact H].
Qed.

Theorem parse_print_partial : forall il id cr ds, cr_ok cr -> wf_file ds ->
  parse_bytes il id (print cr ds) = Ok (elaborate cr ds).
Proof.
  intros il id cr ds Hcr (Hw & Hsg). pose proof (parse_print_layout il id cr (plain ds) []) as H.
  unfold print_file, elaborate_file in H. rewrite app_nil_r, print_plain, elab_plain in H. apply H.
  split; [exact Hcr|]. split; [apply wf_plain; exact Hw|]. split; [|exact blank_block_nil].
  unfold plain. rewrite map_map. cbn [snd]. rewrite map_id. exact Hsg.
Qed.

(** files without BA_DEF_DEF_ / BA_ : well-formedness is definition-wise *)
Definition context_free (d : sdef) : Prop :=
  match d with SAttrDefault _ _ | SAttrValue _ _ _ => False | _ => True end.

Lemma wf_defs_context_free : forall ds ctx, Forall wf_sdef ds -> Forall context_free ds -> wf_defs ctx ds.
Proof.
  induction ds as [|d ds IH]; intros ctx Hw Hc; [exact I|].
  inversion Hw as [|? ? Hd Hw']; subst. inversion Hc as [|? ? Hcd Hc']; subst.
  split; [|apply IH; assumption]. split; [exact Hd|]. destruct d; try exact I; contradiction.
Qed.

(** an unknown line yields exactly one UnknownDef and the following lines are parsed as if it were
    not there (their line numbers and offsets shifted by the one line) *)
Corollary unknown_one : forall il id cr kw ts ds, cr_ok cr -> wf_sdef (SUnknown kw ts) -> wf_file ds ->
  parse_bytes il id (print cr (SUnknown kw ts :: ds))
  = Ok (DUnknown {| p_line := 1; p_column := 1; p_offset := 0 |} kw
        :: elab_from cr [] 2 (blen (print_def cr (SUnknown kw ts))) ds).
Proof.
  intros il id cr kw ts ds Hcr Hu (Hw & Hsg). rewrite parse_print_partial; [reflexivity|exact Hcr|].
  split; [split; [split; [exact Hu|exact I]|exact Hw]|]. split; [intros H; discriminate H|exact Hsg].
Qed.

(** a boolean check of number literals (used for the concrete samples) *)
Definition digits1b (ds : bytes) : bool :=
  match ds with d0 :: t => is_decimal d0 && forallb is_decimal t | [] => false end.
Definition wf_digitsb (ds : bytes) : bool :=
  match ds with
  | d0 :: t => is_decimal d0 && forallb is_decimal t && (negb (d0 =? 48) || match t with [] => true | _ => false end)
  | [] => false
  end.
Definition wf_numb (n : snum) : bool :=
  wf_digitsb (n_digits n)
  && match n_frac n with Some f => digits1b f | None => true end
  && match n_exp n with
     | Some (e, sg, ds) => ((e =? 101) || (e =? 69)) && match sg with Some s0 => (s0 =? 43) || (s0 =? 45) | None => true end && digits1b ds
     | None => true
     end
  && match parse_float (num_lit n) with Some _ => true | None => false end.

Lemma digits1b_ok : forall ds, digits1b ds = true -> digits1 ds.
Proof.
  intros [|d0 t] H; [discriminate|]. cbn [digits1b] in H. apply andb_true_iff in H. destruct H as (H1 & H2).
  exists d0, t. split; [reflexivity|]. split; [exact H1|]. apply (forallb_Forall is_decimal). exact H2.
Qed.

Lemma wf_numb_ok : forall n, wf_numb n = true -> wf_num n.
Proof.
  intros n H. unfold wf_numb in H.
  apply andb_true_iff in H. destruct H as (H & Hp). apply andb_true_iff in H. destruct H as (H & He).
  apply andb_true_iff in H. destruct H as (Hd & Hf).
  split; [|split; [|split]].
  - destruct (n_digits n) as [|d0 t]; [discriminate|]. cbn [wf_digitsb] in Hd.
    apply andb_true_iff in Hd. destruct Hd as (Hd & Ho). apply andb_true_iff in Hd. destruct Hd as (Hd0 & Hdt).
    exists d0, t. split; [reflexivity|]. split; [exact Hd0|]. split; [apply (forallb_Forall is_decimal); exact Hdt|].
    apply orb_true_iff in Ho. destruct Ho as [Ho|Ho].
    + left. apply negb_true_iff, Z.eqb_neq in Ho. exact Ho.
    + right. destruct t; [reflexivity|discriminate].
  - destruct (n_frac n); [apply digits1b_ok; assumption|exact I].
  - destruct (n_exp n) as [[[e sg] ds]|]; [|exact I].
    apply andb_true_iff in He. destruct He as (He & Hds). apply andb_true_iff in He. destruct He as (He & Hsg).
    split; [|split].
    + apply orb_true_iff in He. destruct He as [He|He]; apply Z.eqb_eq in He; auto.
    + destruct sg; [|exact I]. apply orb_true_iff in Hsg. destruct Hsg as [Hsg|Hsg]; apply Z.eqb_eq in Hsg; auto.
    + apply digits1b_ok. exact Hds.
  - destruct (parse_float (num_lit n)); [discriminate|discriminate Hp].
Qed.

(** a concrete well-formed source file with all covered kinds (non-vacuity of the hypotheses) *)
Definition sample_signal : ssignal :=
  {| ss_name := [83; 112; 101; 101; 100];                     (* Speed *)
     ss_mux := Muxed [51];                                    (* m3 *)
     ss_start := [55]; ss_size := [49; 54];                   (* 7 | 16 *)
     ss_big_endian := true; ss_signed := true;                (* @ 0 - *)
     ss_factor := {| n_neg := false; n_digits := [48]; n_frac := Some [53]; n_exp := None |};     (* 0.5 *)
     ss_offset := {| n_neg := true; n_digits := [49]; n_frac := Some [53]; n_exp := Some (101, None, [49]) |};  (* -1.5e1 *)
     ss_min := {| n_neg := true; n_digits := [52; 48]; n_frac := None; n_exp := None |};     (* -40 *)
     ss_max := {| n_neg := false; n_digits := [54]; n_frac := None; n_exp := Some (69, Some 43, [51]) |};  (* 6E+3 *)
     ss_unit := [107; 109; 47; 104];                          (* km/h *)
     ss_receiver := [69; 67; 85; 50]; ss_receivers := [[69; 67; 85; 49]] |}.

Definition sample_ds : list sdef :=
  [ SVersion [49; 46; 48];                                               (* VERSION "1.0" *)
    SBitTiming (Some ([53; 48; 48], Some ([49], [50])));                   (* BS_: 500 : 1 , 2 *)
    SNodes [[69; 67; 85; 49]; [69; 67; 85; 50]];                           (* BU_: ECU1 ECU2 *)
    SMessage [50; 53; 54; 54; 56; 52; 52; 57; 50; 54] [77; 115; 103] [56] [69; 67; 85; 49]
             [sample_signal; sample_signal];                               (* BO_ 2566844926 Msg : 8 ECU1 + 2 SG_ lines *)
    SUnknown [70; 79; 79; 95] [UIdent [120]; UNum [49; 50]; UPunct 59];    (* FOO_ x 12 ; *)
    SSignal sample_signal;                                                 (* a top-level SG_ line (after the unknown line) *)
    SBitTiming None;                                                       (* BS_: *)
    SVersion [] ].                                                         (* VERSION "" *)

Local Opaque wf_num.

Lemma sample_ds_wf : Forall wf_sdef sample_ds.
Proof.
  assert (Hp : forall c, 32 <= c < 127 -> c <> 34 -> c <> 92 -> plain_char c) by (intros; repeat split; lia).
  assert (Hd : forall d0 t, is_decimal d0 = true -> Forall (fun a => is_decimal a = true) t -> (d0 <> 48 \/ t = []) ->
               wf_digits (d0 :: t)) by (intros d0 t ? ? ?; exists d0, t; auto).
  assert (Hu : forall d0 t, is_decimal d0 = true -> Forall (fun a => is_decimal a = true) t -> (d0 <> 48 \/ t = []) ->
               uint_value (d0 :: t) < 2 ^ 64 -> wf_uint (d0 :: t)) by (intros; split; auto).
  assert (Hsig : wf_signal sample_signal).
  { unfold wf_signal, sample_signal. cbn [ss_name ss_mux ss_start ss_size ss_factor ss_offset ss_min ss_max ss_unit ss_receiver ss_receivers wf_mux].
    repeat match goal with |- _ /\ _ => split end; try reflexivity;
      try (apply Hd; [reflexivity | repeat constructor | (left; lia) || (right; reflexivity)]);
      try (apply Hu; [reflexivity | repeat constructor | (left; lia) || (right; reflexivity) | vm_compute; reflexivity]);
      try (apply wf_numb_ok; vm_compute; reflexivity);
      try (apply str_okb_ok; reflexivity);
      try (vm_compute; reflexivity).
    all: repeat constructor; try (apply Hp; lia). }
  unfold sample_ds. repeat (apply Forall_cons || apply Forall_nil); cbn [wf_sdef wf_utok];
    repeat match goal with |- _ /\ _ => split end; try reflexivity; try (apply str_okb_ok; reflexivity);
    try (repeat (apply Forall_cons; [exact Hsig|]); apply Forall_nil);
    try (apply Hu; [reflexivity | repeat constructor | (left; lia) || (right; reflexivity) | vm_compute; reflexivity]);
    try (repeat (apply Forall_cons || apply Forall_nil); try (apply Hp; lia); try reflexivity; cbn [wf_utok]).
  all: try (vm_compute; reflexivity).
  all: try (apply Hd; [reflexivity | repeat constructor | (left; lia) || (right; reflexivity)]).
  all: try (split; [lia|]; repeat split; try reflexivity; try lia; discriminate).
  all: try exact Hsig.
Qed.

(** a second well-formed source file, with the one-line kinds that end in " ;" *)
Definition sample2_ds : list sdef :=
  [ SNewSymbols [[78; 83; 95; 68; 69; 83; 67; 95]; [67; 77; 95]];                 (* NS_ : / TAB NS_DESC_ / TAB CM_ *)
    SNewSymbols [];                                                               (* NS_ : *)
    SComment (ObjSignal [49] [83]) [104; 105];                                  (* CM_ SG_ 1 S "hi" ; *)
    SComment ObjNone [97; 92; 34; 98; 92; 120; 10; 10; 99; 92; 10; 92; 92; 34];      (* CM_ with text a, escaped quote, b, backslash, x, two line ends, c, backslash, line end, backslash, escaped quote *)
    SValues (Some [49]) [83] [({| n_neg := true; n_digits := [49]; n_frac := None; n_exp := None |}, [97]); ({| n_neg := false; n_digits := [50]; n_frac := None; n_exp := None |}, [])];
                                                                                  (* VAL_ 1 S -1 "a" 2 "" ; *)
    SValues None [69] [];                                                         (* VAL_ E ; *)
    SValueTable [84] [({| n_neg := false; n_digits := [48]; n_frac := None; n_exp := None |}, [122])];           (* VAL_TABLE_ T 0 "z" ; *)
    SSigValType [49] [83] true [49];                                              (* SIG_VALTYPE_ 1 S : 1 ; *)
    SSigValType [49] [83] false [50];                                             (* SIG_VALTYPE_ 1 S 2 ; *)
    SMsgTx [49] [([65], true); ([66], false)];                                    (* BO_TX_BU_ 1 : A , B ; *)
    SEnvVar [69] [49] {| n_neg := false; n_digits := [48]; n_frac := None; n_exp := None |} {| n_neg := false; n_digits := [57]; n_frac := None; n_exp := None |} [86]
            {| n_neg := true; n_digits := [51]; n_frac := None; n_exp := None |} [55] 2 [78] [[77]];              (* EV_ E : 1 [ 0 | 9 ] "V" -3 7 DUMMY_NODE_VECTOR2 N , M ; *)
    SEnvVarData [69] [56] ].                                                      (* ENVVAR_DATA_ E : 8 ; *)

Lemma sample2_ds_wf : Forall wf_sdef sample2_ds.
Proof.
  assert (Hp : forall c, 32 <= c < 127 -> c <> 34 -> c <> 92 -> plain_char c) by (intros; repeat split; lia).
  assert (Hd : forall d0, is_decimal d0 = true -> wf_digits [d0]) by (intros d0 ?; exists d0, []; auto).
  assert (Hu : forall d0, is_decimal d0 = true -> wf_uint [d0]).
  { intros d0 H. split; [auto|]. rewrite uint_value_digit. unfold is_decimal in H. apply andb_true_iff in H. lia. }
  assert (Hm : wf_msgid [49]) by (split; [apply Hu; reflexivity|reflexivity]).
  assert (He : forall d mx, 48 <= d <= 48 + mx -> wf_enum [d] mx) by (intros d mx ?; exists d; auto).
  unfold sample2_ds. repeat (apply Forall_cons || apply Forall_nil); cbn [wf_sdef wf_obj wf_value fst snd];
    repeat match goal with |- _ /\ _ => split end; try exact Hm; try reflexivity; try (apply str_okb_ok; reflexivity);
    try (repeat (apply Forall_cons || apply Forall_nil); cbn [wf_value fst snd]; repeat match goal with |- _ /\ _ => split end);
    try (apply str_okb_ok; reflexivity);
    try (apply Hp; lia); try (apply Hu; reflexivity); try (apply He; lia);
    try (apply wf_numb_ok; vm_compute; reflexivity); try lia.
  all: try (split; cbn [fst snd]); try (apply str_okb_ok; reflexivity); try (apply wf_numb_ok; vm_compute; reflexivity); try reflexivity.
  all: repeat first [ apply strn_nil | apply strn_nl | apply strn_esc_quote | apply strn_plain; [apply Hp; lia|]
                    | apply strn_esc; [discriminate|] ].
Qed.

(** the printed text of the second sample, for the record *)

Ltac placed := cbn [sg_placed is_message is_signal]; repeat split; intros; try reflexivity; try discriminate.

Lemma sample_ds_wf_file : wf_file sample_ds.
Proof.
  split; [apply wf_defs_context_free; [exact sample_ds_wf|]; unfold sample_ds; repeat constructor|unfold sample_ds; placed].
Qed.

Lemma sample2_ds_wf_file : wf_file sample2_ds.
Proof.
  split; [apply wf_defs_context_free; [exact sample2_ds_wf|]; unfold sample2_ds; repeat constructor|unfold sample2_ds; placed].
Qed.

(** a third sample: attribute definitions, defaults and values (typed by the first BA_DEF_ of the name) *)
Definition sample3_ds : list sdef :=
  [ SAttr AONone [65] (ABInt false (Some ({| n_neg := false; n_digits := [48]; n_frac := None; n_exp := None |}, {| n_neg := false; n_digits := [49; 48; 48]; n_frac := None; n_exp := None |})));
                                                                      (* BA_DEF_ "A" INT 0 100 ; *)
    SAttr AOSignal [69] (ABEnum [120] [[121]]);                       (* BA_DEF_ SG_ "E" ENUM "x" , "y" ; *)
    SAttr AOMessage [70] (ABFloat None);                              (* BA_DEF_ BO_ "F" FLOAT ; *)
    SAttr AONode [83] ABString;                                       (* BA_DEF_ BU_ "S" STRING ; *)
    SAttr AOEnvVar [72] (ABInt true None);                            (* BA_DEF_ EV_ "H" HEX ; *)
    SAttr AONone [65] ABString;                                       (* BA_DEF_ "A" STRING ;   (second definition: ignored for typing) *)
    SAttrDefault [65] (AVInt {| n_neg := false; n_digits := [53]; n_frac := None; n_exp := None |});           (* BA_DEF_DEF_ "A" 5 ; *)
    SAttrDefault [69] (AVEnumIndex [49]);                                        (* BA_DEF_DEF_ "E" 1 ; *)
    SAttrDefault [90] AVNone;                                                    (* BA_DEF_DEF_ "Z" ; *)
    SAttrValue [65] (ObjMessage [49]) (AVInt {| n_neg := true; n_digits := [51]; n_frac := None; n_exp := None |});     (* BA_ "A" BO_ 1 -3 ; *)
    SAttrValue [69] (ObjSignal [49] [83]) (AVEnumString [121]);                          (* BA_ "E" SG_ 1 S "y" ; *)
    SAttrValue [83] (ObjNode [78]) (AVString [116]);                                     (* BA_ "S" BU_ N "t" ; *)
    SAttrValue [70] ObjNone (AVFloat {| n_neg := false; n_digits := [50]; n_frac := None; n_exp := None |});            (* BA_ "F" 2 ; *)
    SAttrValue [72] (ObjEnvVar [86]) (AVInt {| n_neg := false; n_digits := [55]; n_frac := None; n_exp := None |}) ].   (* BA_ "H" EV_ V 7 ; *)

Lemma sample3_ds_wf_file : wf_file sample3_ds.
Proof.
  assert (Hp : forall c, 32 <= c < 127 -> c <> 34 -> c <> 92 -> plain_char c) by (intros; repeat split; lia).
  assert (Hd : forall d0 t, is_decimal d0 = true -> Forall (fun a => is_decimal a = true) t -> (d0 <> 48 \/ t = []) ->
               wf_digits (d0 :: t)) by (intros d0 t ? ? ?; exists d0, t; auto).
  assert (Hm : wf_msgid [49]).
  { split; [|reflexivity]. split; [apply Hd; [reflexivity|constructor|right; reflexivity]|vm_compute; reflexivity]. }
  split; [|unfold sample3_ds; placed].
  unfold sample3_ds. cbn [wf_defs ctx_step app attr_body_type attr_body_enums].
  unfold wf_sdef_ctx, wf_attr_value. cbn [wf_sdef wf_attr_body wf_range wf_obj lookup_ctx bytes_eqb Z.eqb Pos.eqb andb].
  repeat split; try exact Hm; try reflexivity; try exact I;
    try (apply wf_numb_ok; vm_compute; reflexivity);
    try (apply str_okb_ok; reflexivity); try (repeat (apply Forall_cons || apply Forall_nil); apply str_okb_ok; reflexivity);
    try (apply Hd; [reflexivity | repeat constructor | right; reflexivity]);
    try (vm_compute; reflexivity).
Qed.

(** a laid-out file: CRLF line ends, a CRLF blank line before every definition, and a final line of
    one space (the attribute sample, so the attribute context is threaded through the blank lines) *)
Lemma wf_with_blank : forall g ds ctx, blank_block g -> wf_defs ctx ds -> wf_items ctx (map (fun d => (g, d)) ds).
Proof.
  intros g ds. induction ds as [|d ds IH]; intros ctx Hg H; [exact I|]. destruct H as (Hd & H). cbn [map wf_items].
  split; [exact Hg|]. split; [exact Hd|apply IH; assumption].
Qed.

Definition sample_layout : list item := map (fun d => ([13; 10], d)) sample3_ds.

Lemma sample_layout_wf : wf_lfile [13] sample_layout [32; 13; 10].
Proof.
  split; [repeat (apply Forall_cons; [lia|]); apply Forall_nil|]. split.
  - apply wf_with_blank; [|exact (proj1 sample3_ds_wf_file)].
    split; [repeat (apply Forall_cons; [unfold blank_char; lia|]); apply Forall_nil|right; exists [13]; reflexivity].
  - split; [unfold sample_layout; rewrite map_map; cbn [snd]; rewrite map_id; exact (proj2 sample3_ds_wf_file)|].
    split; [repeat (apply Forall_cons; [unfold blank_char; lia|]); apply Forall_nil|right; exists [32; 13]; reflexivity].
Qed.
