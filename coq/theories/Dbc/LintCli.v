(** Executable model of the `lint` command of /repo/cmd/cantool/main.go (property C18: the way a user
    runs the analyzers), on top of the analyzer models of Dbc/Lint.v.  DEFINITIONS ONLY; the
    declarative description of the output and the proofs are in LintCliProofs.v.

    Modelled: lintCommand (the loop over the files, the parse-error branch, the loop over the 19
    analyzers of [analyzers()] in their order, the `hasFailed` flag and the exit rule "one or more
    lint errors"), printError, getSourceLine (two loops over byte indexes and a slice expression;
    indexing and slicing are PARTIAL: out of range = Go run-time panic = [None]), caretAtPosition
    (strings.Repeat panics on a negative count).

    Abstract (as in Dbc/Lint.v): message wording ([msg] = the Reportf call site; a parse error's
    reason is not modelled at all) and the concrete characters of a header line; the output is the
    list of the [out_item]s written to standard output, in order:
      [OHeader name pos pass m]   "\n<file name>:<line>:<column>: <message> (<analyzer name>)\n"
      [OSourceLine l]             "<l>\n"
      [OCaret n]                  n spaces, "^\n"
    A run that panics stops after the items printed so far (arguments of a Printf are evaluated
    before anything of that Printf is written) and has status [Crash].
    Not modelled: resolveFileOrDirectory (the model takes the files in the order in which the loop
    sees them: the single file, or filepath.Walk's lexical order of the *.dbc files), I/O errors,
    the colour escape codes (off when standard output is not a terminal), `Run` returning an error
    (no analyzer does). *)
From Coq Require Import String.
From Coq Require Import ZArith List Bool.
From CanVerif Require Import Dbc.Ast Dbc.Lint.
Import ListNotations.
Open Scope Z_scope.

(* ------------------------------------------------------------------------------------------ *)
(** * getSourceLine *)

Definition line_feed : Z := 10.

(** lineStart := pos.Offset; for lineStart > 0 && source[lineStart-1] != '\n' { lineStart-- }
    The loop reads source[lineStart-1], source[lineStart-2], ...: [rprefix] is the REVERSED prefix
    source[:lineStart], so that `lineStart > 0` is "[rprefix] is not empty" and source[lineStart-1]
    is its head (invariant: [rprefix = rev (firstn line_start source)]; [source_line] builds it with
    the linear-time [rev_append _ []] = [rev], List.rev_alt). *)
Fixpoint line_start_loop (rprefix : bytes) (line_start : nat) : nat :=
  match rprefix with
  | [] => line_start
  | b :: t => if b =? line_feed then line_start else line_start_loop t (pred line_start)
  end.

(** lineEnd := pos.Offset; for lineEnd < len(source) && source[lineEnd] != '\n' { lineEnd++ }
    [rest] is the suffix source[lineEnd:], so that `lineEnd < len(source)` is "[rest] is not empty"
    and source[lineEnd] is its head (invariant: [rest = skipn line_end source]). *)
Fixpoint line_end_loop (rest : bytes) (line_end : nat) : nat :=
  match rest with
  | [] => line_end
  | b :: t => if b =? line_feed then line_end else line_end_loop t (S line_end)
  end.

(** the slice expression s[lo:hi]: panics unless lo <= hi <= len(s) (Go allows hi up to cap(s); the
    model is stricter, which only makes the totality theorem stronger) *)
Definition slice (s : bytes) (lo hi : nat) : option bytes :=
  if (lo <=? hi)%nat && (hi <=? length s)%nat then Some (firstn (hi - lo) (skipn lo s)) else None.

(** getSourceLine(source, pos), as a function of pos.Offset. Indexing is partial: with an offset
    beyond len(source) the first iteration of the first loop reads source[offset-1] out of range
    (for offset = len(source)+1 >= 1; larger offsets likewise); with a negative offset the first
    loop does not run and the second reads source[offset]. *)
Definition source_line (source : bytes) (offset : Z) : option bytes :=
  if offset <? 0 then None
  else
    let o := Z.to_nat offset in
    if (length source <? o)%nat then None
    else
      let s := line_start_loop (rev_append (firstn o source) []) o in
      let e := line_end_loop (skipn o source) o in
      slice source s e.

(* ------------------------------------------------------------------------------------------ *)
(** * the analyzers of cmd/cantool: [analyzers()] (boolprefix is not among them), and the Name field
      of each analysis.Analyzer (siunits' says "unitsuffixes") *)
Definition cantool_analyzers : list analyzer :=
  [ADefinitionTypeOrder; AIntervals; ALineEndings; AMessageNames; AMultiplexedSignals;
   ANewSymbols; ANodeReferences; ANoReservedSignals; ARequiredDefinitions; ASignalBounds; ASignalNames;
   ASingletonDefinitions; ASiUnits; AUniqueMessageIDs; AUniqueNodeNames; AUniqueSignalNames;
   AUnitSuffixes; AValueDescriptions; AVersion].

Definition n_boolprefix := Eval compute in bytes_of_string "boolprefix"%string.
Definition n_definitiontypeorder := Eval compute in bytes_of_string "definitiontypeorder"%string.
Definition n_intervals := Eval compute in bytes_of_string "intervals"%string.
Definition n_lineendings := Eval compute in bytes_of_string "lineendings"%string.
Definition n_messagenames := Eval compute in bytes_of_string "messagenames"%string.
Definition n_multiplexedsignals := Eval compute in bytes_of_string "multiplexedsignals"%string.
Definition n_newsymbols := Eval compute in bytes_of_string "newsymbols"%string.
Definition n_nodereferences := Eval compute in bytes_of_string "nodereferences"%string.
Definition n_noreservedsignals := Eval compute in bytes_of_string "noreservedsignals"%string.
Definition n_requireddefinitions := Eval compute in bytes_of_string "requireddefinitions"%string.
Definition n_signalbounds := Eval compute in bytes_of_string "signalbounds"%string.
Definition n_signalnames := Eval compute in bytes_of_string "signalnames"%string.
Definition n_singletondefinitions := Eval compute in bytes_of_string "singletondefinitions"%string.
Definition n_uniquemessageids := Eval compute in bytes_of_string "uniquemessageids"%string.
Definition n_uniquenodenames := Eval compute in bytes_of_string "uniquenodenames"%string.
Definition n_uniquesignalnames := Eval compute in bytes_of_string "uniquesignalnames"%string.
Definition n_unitsuffixes := Eval compute in bytes_of_string "unitsuffixes"%string.
Definition n_valuedescriptions := Eval compute in bytes_of_string "valuedescriptions"%string.
Definition n_version := Eval compute in bytes_of_string "version"%string.
Definition n_parse := Eval compute in bytes_of_string "parse"%string.

Definition analyzer_name (a : analyzer) : bytes :=
  match a with
  | ABoolPrefix => n_boolprefix | ADefinitionTypeOrder => n_definitiontypeorder | AIntervals => n_intervals
  | ALineEndings => n_lineendings | AMessageNames => n_messagenames | AMultiplexedSignals => n_multiplexedsignals
  | ANewSymbols => n_newsymbols | ANodeReferences => n_nodereferences | ANoReservedSignals => n_noreservedsignals
  | ARequiredDefinitions => n_requireddefinitions | ASignalBounds => n_signalbounds | ASignalNames => n_signalnames
  | ASingletonDefinitions => n_singletondefinitions | ASiUnits => n_unitsuffixes
  | AUniqueMessageIDs => n_uniquemessageids | AUniqueNodeNames => n_uniquenodenames
  | AUniqueSignalNames => n_uniquesignalnames | AUnitSuffixes => n_unitsuffixes
  | AValueDescriptions => n_valuedescriptions | AVersion => n_version
  end.

(** the last argument of printError: "parse" or a.Name *)
Inductive pass_id := PParse | PAnalyzer (a : analyzer).
Definition pass_name (p : pass_id) : bytes :=
  match p with PParse => n_parse | PAnalyzer a => analyzer_name a end.

(* ------------------------------------------------------------------------------------------ *)
(** * printError *)
Inductive out_item :=
| OHeader (name : bytes) (pos : position) (pass : pass_id) (m : option msg)
| OSourceLine (l : bytes)
| OCaret (spaces : Z).

(** what printError writes, and whether it panicked *)
Definition print_error (name source : bytes) (pos : position) (pass : pass_id) (m : option msg)
  : list out_item * bool :=
  let h := OHeader name pos pass m in
  match source_line source (p_offset pos) with
  | None => ([h], true)
  | Some l =>
    if p_column pos - 1 <? 0 then ([h; OSourceLine l], true)
    else ([h; OSourceLine l; OCaret (p_column pos - 1)], false)
  end.

(** for _, d := range pass.Diagnostics { printError(source, d.Pos, d.Message, a.Name) } *)
Fixpoint print_diagnostics (name source : bytes) (pass : pass_id) (ds : list diagnostic)
  : list out_item * bool :=
  match ds with
  | [] => ([], false)
  | d :: tl =>
    let (o, crashed) := print_error name source (dg_pos d) pass (Some (dg_msg d)) in
    if crashed then (o, true)
    else let (o', crashed') := print_diagnostics name source pass tl in (o ++ o', crashed')
  end.

(* ------------------------------------------------------------------------------------------ *)
(** * lintCommand *)
Inductive parse_result := ParseError (pos : position) | Parsed (defs : list def).
Record lint_input := { li_name : bytes; li_source : bytes; li_parse : parse_result }.

Inductive cli_status :=
| ExitOk            (* the action returns nil: exit status 0 *)
| ExitLintErrors    (* errors.New("one or more lint errors"): exit status 1 *)
| Crash.            (* run-time panic: stack trace, exit status 2 *)

Section Oracles.
  Variable uni_digit : Z -> bool.
  Variable uni_upper : Z -> bool.

  (** for _, a := range analyzers() { ... }: output, hasFailed, crashed *)
  Fixpoint run_passes (name : bytes) (f : file) (passes : list analyzer) (failed : bool)
    : list out_item * bool * bool :=
    match passes with
    | [] => ([], failed, false)
    | a :: tl =>
      match run uni_digit uni_upper a f with
      | Panic => ([], failed, true)
      | Ok ds =>
        let failed' := failed || (0 <? length ds)%nat in
        let (o, crashed) := print_diagnostics name (f_data f) (PAnalyzer a) ds in
        if crashed then (o, failed', true)
        else
          match run_passes name f tl failed' with
          | (o', failed'', crashed') => (o ++ o', failed'', crashed')
          end
      end
    end.

  (** for _, lintFile := range filesToLint { ... }; a parse error is printed and the file skipped
      (`continue`: hasFailed is NOT set) *)
  Fixpoint lint_files (files : list lint_input) (failed : bool) : list out_item * cli_status :=
    match files with
    | [] => ([], if failed then ExitLintErrors else ExitOk)
    | fi :: tl =>
      match li_parse fi with
      | ParseError pos =>
        let (o, crashed) := print_error (li_name fi) (li_source fi) pos PParse None in
        if crashed then (o, Crash)
        else let (o', st) := lint_files tl failed in (o ++ o', st)
      | Parsed defs =>
        match run_passes (li_name fi) {| f_data := li_source fi; f_defs := defs |} cantool_analyzers failed with
        | (o, failed', crashed) =>
          if crashed then (o, Crash)
          else let (o', st) := lint_files tl failed' in (o ++ o', st)
        end
      end
    end.

  Definition cantool_lint_output (files : list lint_input) : list out_item * cli_status :=
    lint_files files false.
End Oracles.
