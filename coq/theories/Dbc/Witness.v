(** Concrete witnesses (vm_compute on closed inputs): the defects F8, F9, F11 of the parser as it
    was ([parse_bytes_old]) and F12 of Parser.int as it was ([p_int_old]) against the fixed behaviour
    ([parse_bytes], [p_int]), and non-vacuity instances. The
    inputs are pure ASCII, so the results hold for every non-ASCII classification [il], [id]. *)
From Coq Require Import ZArith List String Ascii.
From CanVerif Require Import Dbc.Ast Dbc.Scanner Dbc.DecFloat Dbc.Parser.
Import ListNotations.
Open Scope Z_scope.

Definition LF : string := String (ascii_of_nat 10) EmptyString.
Definition txt (s : string) : bytes := bytes_of_string s.
Definition at_ (l c o : Z) : position := {| p_line := l; p_column := c; p_offset := o |}.

(** F8: an unknown line with an odd number of tokens (here one: the keyword) swallows the next line *)
Definition f8_input : bytes := txt ("FOO_" ++ LF ++ "VERSION ""a""" ++ LF).

Lemma f8_old : forall il id,
  parse_bytes_old il id f8_input = Ok [DUnknown (at_ 1 1 0) (txt "FOO_")].
Proof. intros. vm_compute. reflexivity. Qed.

Lemma f8_fixed : forall il id,
  parse_bytes il id f8_input = Ok [DUnknown (at_ 1 1 0) (txt "FOO_"); DVersion (at_ 2 1 5) (txt "a")].
Proof. intros. vm_compute. reflexivity. Qed.

(** F9: the full bit timing form is rejected *)
Definition f9_input : bytes := txt ("BS_: 500 : 1 , 2" ++ LF).

Lemma f9_old : forall il id,
  parse_bytes_old il id f9_input = Err (at_ 1 10 9) ESyntax [DBitTiming (at_ 1 1 0) 500 0 0].
Proof. intros. vm_compute. reflexivity. Qed.

Lemma f9_fixed : forall il id,
  parse_bytes il id f9_input = Ok [DBitTiming (at_ 1 1 0) 500 1 2].
Proof. intros. vm_compute. reflexivity. Qed.

(** F11: a complete message followed by a token that is not an identifier is not reported *)
Definition f11_input : bytes := txt ("BO_ 1 M: 8 N" ++ LF ++ "$" ++ LF).
Definition f11_message : def :=
  DMessage {| m_pos := at_ 1 1 0; m_id := 1; m_name := txt "M"; m_size := 8; m_transmitter := txt "N"; m_signals := [] |}.

Lemma f11_old : forall il id,
  parse_bytes_old il id f11_input = Err (at_ 2 1 13) ESyntax [].
Proof. intros. vm_compute. reflexivity. Qed.

Lemma f11_fixed : forall il id,
  parse_bytes il id f11_input = Err (at_ 2 1 13) ESyntax [f11_message].
Proof. intros. vm_compute. reflexivity. Qed.

(** a small file with several kinds, for the non-vacuity examples *)
Definition sample_input : bytes :=
  txt ("VERSION ""1.0""" ++ LF ++ LF ++ "BS_:" ++ LF ++ "BU_: ECU1 ECU2" ++ LF
       ++ "BO_ 2566844926 Msg: 8 ECU1" ++ LF ++ " SG_ Speed m3 : 7|16@0- (0.1,-40) [-40|6513.5] ""km/h"" ECU2,ECU1" ++ LF
       ++ "SIG_GROUP_ 1 2 3" ++ LF ++ "CM_ SG_ 2566844926 Speed ""a" ++ LF ++ "b"";" ++ LF).

Lemma sample_parses : forall il id,
  exists v b n m u c, parse_bytes il id sample_input = Ok [v; b; n; DMessage m; DUnknown u (txt "SIG_GROUP_"); DComment c]
    /\ m_id m = 2566844926 /\ List.length (m_signals m) = 1%nat /\ cm_comment c = txt "a b".
Proof. intros. vm_compute. do 6 eexists. repeat split. Qed.

(** known finding C12-lookahead-scanner-error-drops-previous-definition: a NUL byte at the very start
    of the line after a complete message is read by the scanner while the message still looks one
    token ahead for an SG_ line; the error is raised inside the message's parseFrom, so the complete
    message is not among the definitions reported so far (the same holds for the fixed and the old
    parser: it is inherent to the one-token lookahead with a panicking scanner error callback) *)
Definition lookahead_input : bytes := txt ("BO_ 1 M: 8 N" ++ LF) ++ [0].

Lemma lookahead_drops_message : forall il id,
  parse_bytes il id lookahead_input = Err (at_ 2 1 13) EScanNul []
  /\ parse_bytes_old il id lookahead_input = Err (at_ 2 1 13) EScanNul [].
Proof. intros. split; vm_compute; reflexivity. Qed.

(** F12: INT / HEX attribute values went through float64.  After the fix the values 2^63 - 1 and
    -(2^53 + 1) arrive as written ... *)
Definition f12_input : bytes :=
  txt ("BA_DEF_ SG_ ""GenSigStartValue"" INT 0 0;" ++ LF ++ "BA_ ""GenSigStartValue"" SG_ 1 S 9223372036854775807;" ++ LF
       ++ "BA_ ""GenSigStartValue"" SG_ 1 S -9007199254740993;" ++ LF).

Lemma f12_fixed : forall il id,
  exists a v1 v2, parse_bytes il id f12_input = Ok [DAttribute a; DAttributeValue v1; DAttributeValue v2]
    /\ av_int v1 = 9223372036854775807 /\ av_int v2 = -9007199254740993.
Proof. intros. vm_compute. do 3 eexists. repeat split. Qed.

(** ... while Parser.int as it was ([p_int_old], run by the model parser on the text that follows
    the signal name) read MinInt64 and -2^53 *)
Lemma f12_old : forall il id,
  (exists st, p_int_old il id 40 (p_init (txt " 9223372036854775807;")) = POk (-9223372036854775808) st)
  /\ (exists st, p_int_old il id 40 (p_init (txt " -9007199254740993;")) = POk (-9007199254740992) st)
  /\ (exists st, p_int il id 40 (p_init (txt " 9223372036854775807;")) = POk 9223372036854775807 st)
  /\ (exists st, p_int il id 40 (p_init (txt " -9007199254740993;")) = POk (-9007199254740993) st).
Proof. intros. repeat split; vm_compute; eexists; reflexivity. Qed.
