(** Proofs for the lint analyzers (property C18): for every file and every analyzer
    [X_run f = Ok (X_spec f)] and [X_spec f = [] <-> X_rule f]; no analyzer panics. *)
From Coq Require Import String.
From Coq Require Import ZArith List Bool Lia Arith.
From CanVerif Require Import Dbc.Ast Dbc.Lint Dbc.LintSpec.
Import ListNotations.
Open Scope Z_scope.

(* ------------------------------------------------------------------------------------------ *)
(** * Basic facts *)

Lemma bytes_eqb_eq : forall a b, bytes_eqb a b = true <-> a = b.
Proof.
  induction a as [|x a IH]; destruct b as [|y b]; cbn; split; intro H; try congruence; try discriminate.
  - apply andb_true_iff in H. destruct H as [H1 H2]. apply Z.eqb_eq in H1. apply IH in H2. congruence.
  - inversion H; subst. rewrite Z.eqb_refl. cbn. apply IH. reflexivity.
Qed.

Lemma bytes_eqb_refl : forall a, bytes_eqb a a = true.
Proof. intro a. apply bytes_eqb_eq. reflexivity. Qed.

Lemma bytes_eqb_neq : forall a b, bytes_eqb a b = false <-> a <> b.
Proof.
  intros a b. split; intro H.
  - intro E. apply bytes_eqb_eq in E. congruence.
  - destruct (bytes_eqb a b) eqn:E; [|reflexivity]. apply bytes_eqb_eq in E. contradiction.
Qed.

Lemma bytes_eqb_sym : forall a b, bytes_eqb a b = bytes_eqb b a.
Proof.
  intros a b. destruct (bytes_eqb a b) eqn:E1, (bytes_eqb b a) eqn:E2; try reflexivity.
  - apply bytes_eqb_eq in E1. subst. rewrite bytes_eqb_refl in E2. discriminate.
  - apply bytes_eqb_eq in E2. subst. rewrite bytes_eqb_refl in E1. discriminate.
Qed.

Lemma kind_eqb_eq : forall a b, kind_eqb a b = true <-> a = b.
Proof.
  intros a b. unfold kind_eqb. split.
  - intro H. apply Z.eqb_eq in H. destruct a, b; cbn in H; try reflexivity; discriminate.
  - intros ->. apply Z.eqb_refl.
Qed.

Lemma existsb_false_iff : forall (A : Type) (p : A -> bool) l,
  existsb p l = false <-> forall x, In x l -> p x = false.
Proof.
  intros A p l. induction l as [|y l IH]; cbn.
  - split; [intros _ x []|reflexivity].
  - rewrite orb_false_iff, IH. split.
    + intros [H1 H2] x [<-|Hx]; auto.
    + intro H. split; [apply H; left; reflexivity|]. intros x Hx. apply H. right. exact Hx.
Qed.

Lemma flat_map_nil_iff : forall (A B : Type) (g : A -> list B) l,
  flat_map g l = [] <-> forall x, In x l -> g x = [].
Proof.
  intros A B g l. induction l as [|y l IH]; cbn.
  - split; [intros _ x []|reflexivity].
  - split.
    + intro H. apply app_eq_nil in H. destruct H as [H1 H2]. intros x [<-|Hx]; [exact H1|]. apply IH; assumption.
    + intro H. rewrite (H y (or_introl eq_refl)). cbn. apply IH. intros x Hx. apply H. right. exact Hx.
Qed.

Lemma app_eq_nil_iff' : forall (A : Type) (l1 l2 : list A), l1 = [] -> l2 = [] -> l1 ++ l2 = [].
Proof. intros A l1 l2 -> ->. reflexivity. Qed.

Lemma map_filter_nil_iff : forall (A B : Type) (mk : A -> B) (p : A -> bool) l,
  map mk (filter p l) = [] <-> forall x, In x l -> p x = false.
Proof.
  intros A B mk p l. induction l as [|y l IH]; cbn.
  - split; [intros _ x []|reflexivity].
  - destruct (p y) eqn:E; cbn.
    + split; [discriminate|]. intro H. rewrite (H y (or_introl eq_refl)) in E. discriminate.
    + rewrite IH. split.
      * intros H x [<-|Hx]; auto.
      * intros H x Hx. apply H. right. exact Hx.
Qed.

Lemma flat_map_ext_in' : forall (A B : Type) (g h : A -> list B) l,
  (forall x, In x l -> g x = h x) -> flat_map g l = flat_map h l.
Proof.
  intros A B g h l. induction l as [|y l IH]; intro H; cbn; [reflexivity|].
  rewrite (H y (or_introl eq_refl)), IH; [reflexivity|]. intros x Hx. apply H. right. exact Hx.
Qed.

Lemma flat_map_map_S : forall (B : Type) (g : nat -> list B) l,
  flat_map g (map S l) = flat_map (fun i => g (S i)) l.
Proof. intros B g l. induction l as [|y l IH]; cbn; [reflexivity|]. rewrite IH. reflexivity. Qed.

(** a loop body of the shape `if c then [x] else []` over a list is map/filter *)
Lemma flat_map_if : forall (A B : Type) (p : A -> bool) (mk : A -> B) l,
  flat_map (fun x => if p x then [mk x] else []) l = map mk (filter p l).
Proof.
  intros A B p mk l. induction l as [|y l IH]; cbn; [reflexivity|].
  rewrite IH. destruct (p y); reflexivity.
Qed.

(* ------------------------------------------------------------------------------------------ *)
(** * at_each *)

Lemma at_each_nil : forall (A B : Type) (f : list A -> A -> list A -> list B), at_each [] f = [].
Proof. reflexivity. Qed.

Lemma at_each_cons : forall (A B : Type) (x : A) l (f : list A -> A -> list A -> list B),
  at_each (x :: l) f = f [] x l ++ at_each l (fun b y a => f (x :: b) y a).
Proof.
  intros A B x l f. unfold at_each. cbn [length seq flat_map nth_error firstn skipn].
  f_equal. rewrite <- seq_shift, flat_map_map_S. reflexivity.
Qed.

Lemma at_each_ext : forall (A B : Type) l (f g : list A -> A -> list A -> list B),
  (forall b x a, l = b ++ x :: a -> f b x a = g b x a) -> at_each l f = at_each l g.
Proof.
  intros A B l. induction l as [|y l IH]; intros f g H; [reflexivity|].
  rewrite !at_each_cons. f_equal.
  - apply (H [] y l). reflexivity.
  - apply IH. intros b x a ->. apply (H (y :: b) x a). reflexivity.
Qed.

Lemma at_each_app : forall (A B : Type) l1 l2 (f : list A -> A -> list A -> list B),
  at_each (l1 ++ l2) f =
  at_each l1 (fun b x a => f b x (a ++ l2)) ++ at_each l2 (fun b x a => f (l1 ++ b) x a).
Proof.
  intros A B l1. induction l1 as [|y l1 IH]; intros l2 f.
  - cbn [app]. rewrite at_each_nil. reflexivity.
  - cbn [app]. rewrite !at_each_cons, IH, app_assoc. reflexivity.
Qed.

Lemma at_each_noctx : forall (A B : Type) (g : A -> list B) l,
  at_each l (fun _ x _ => g x) = flat_map g l.
Proof.
  intros A B g l. induction l as [|y l IH]; [reflexivity|].
  rewrite at_each_cons, IH. reflexivity.
Qed.

Lemma at_each_nil_iff : forall (A B : Type) l (f : list A -> A -> list A -> list B),
  at_each l f = [] <-> forall b x a, l = b ++ x :: a -> f b x a = [].
Proof.
  intros A B l. induction l as [|y l IH]; intro f.
  - split; [|reflexivity]. intros _ b x a H. destruct b; discriminate.
  - rewrite at_each_cons. split.
    + intro H. apply app_eq_nil in H. destruct H as [H1 H2].
      intros b x a E. destruct b as [|z b]; cbn in E; inversion E; subst.
      * exact H1.
      * apply (proj1 (IH _) H2 b x a). reflexivity.
    + intro H. rewrite (H [] y l eq_refl). cbn. apply IH.
      intros b x a ->. apply (H (y :: b) x a). reflexivity.
Qed.

(** [NoDup] of the keys = no element has the key of an earlier one *)
Lemma NoDup_map_decomp : forall (A K : Type) (key : A -> K) l,
  NoDup (map key l) <-> forall b x a, l = b ++ x :: a -> ~ In (key x) (map key b).
Proof.
  intros A K key l. split.
  - intros H b x a ->. rewrite map_app in H. cbn in H. apply NoDup_remove_2 in H.
    intro Hin. apply H. apply in_or_app. left. exact Hin.
  - induction l as [|y l IH]; intro H; cbn; constructor.
    + intro Hin. apply in_map_iff in Hin. destruct Hin as [x [Ek Hx]].
      apply in_split in Hx. destruct Hx as [b [a ->]].
      apply (H (y :: b) x a eq_refl). cbn. left. symmetry. exact Ek.
    + apply IH. intros b x a ->. intro Hin. apply (H (y :: b) x a eq_refl). cbn. right. exact Hin.
Qed.

Lemma later_duplicates_nil_iff : forall (A K : Type) (same : A -> A -> bool) (key : A -> K) mk l,
  (forall x y, same x y = true <-> key x = key y) ->
  (later_duplicates same mk l = [] <-> NoDup (map key l)).
Proof.
  intros A K same key mk l Hs. unfold later_duplicates.
  rewrite at_each_nil_iff, NoDup_map_decomp.
  split; intros H b x a E; specialize (H b x a E).
  - destruct (existsb (same x) b) eqn:Ex; [discriminate|].
    intro Hin. apply in_map_iff in Hin. destruct Hin as [y [Ek Hy]].
    rewrite existsb_false_iff in Ex. specialize (Ex y Hy).
    assert (same x y = true) by (apply Hs; congruence). congruence.
  - destruct (existsb (same x) b) eqn:Ex; [|reflexivity]. exfalso.
    apply existsb_exists in Ex. destruct Ex as [y [Hy Sy]]. apply Hs in Sy.
    apply H. rewrite Sy. apply in_map. exact Hy.
Qed.

Lemma per_message_nil_iff : forall defs g,
  per_message defs g = [] <-> forall m, In (DMessage m) defs -> g m = [].
Proof.
  intros defs g. unfold per_message. rewrite flat_map_nil_iff. split.
  - intros H m Hm. apply (H _ Hm).
  - intros H d Hd. destruct d; try reflexivity. apply H. exact Hd.
Qed.

Lemma signals_where_nil_iff : forall bad mk m,
  signals_where bad mk m = [] <-> forall s, In s (m_signals m) -> bad s = false.
Proof. intros. unfold signals_where. apply map_filter_nil_iff. Qed.

(* ------------------------------------------------------------------------------------------ *)
(** * Oracles: prefix, suffix, lookup *)

Lemma has_prefix_spec : forall p s, has_prefix p s = true <-> starts_with p s.
Proof.
  intros p s. unfold has_prefix, starts_with. rewrite andb_true_iff, Nat.leb_le, bytes_eqb_eq. split.
  - intros [_ H]. exists (skipn (length p) s). rewrite <- H at 1. symmetry. apply firstn_skipn.
  - intros [rest ->]. rewrite app_length. split; [lia|].
    rewrite firstn_app, firstn_all, Nat.sub_diag. cbn. apply app_nil_r.
Qed.

Lemma has_prefix_false : forall p s, has_prefix p s = false <-> ~ starts_with p s.
Proof.
  intros p s. rewrite <- has_prefix_spec. destruct (has_prefix p s); split; intro H; try congruence;
    exfalso; apply H; reflexivity.
Qed.

Lemma has_suffix_spec : forall x s, has_suffix x s = true <-> ends_with x s.
Proof.
  intros x s. unfold has_suffix, ends_with. rewrite andb_true_iff, Nat.leb_le, bytes_eqb_eq. split.
  - intros [_ H]. exists (firstn (length s - length x) s). rewrite <- H at 2. symmetry. apply firstn_skipn.
  - intros [front ->]. rewrite app_length. split; [lia|].
    replace (length front + length x - length x)%nat with (length front) by lia.
    rewrite skipn_app, skipn_all, Nat.sub_diag. reflexivity.
Qed.

Lemma lookup_some_in : forall k m v, lookup k m = Some v -> In (k, v) m.
Proof.
  intros k m v. induction m as [|[k' v'] m IH]; cbn; [discriminate|].
  destruct (bytes_eqb k k') eqn:E.
  - intro H. inversion H; subst. apply bytes_eqb_eq in E. subst. left. reflexivity.
  - intro H. right. apply IH. exact H.
Qed.

Lemma lookup_none_iff : forall k m, lookup k m = None <-> ~ In k (map fst m).
Proof.
  intros k m. induction m as [|[k' v'] m IH]; cbn.
  - split; [intros _ []|reflexivity].
  - destruct (bytes_eqb k k') eqn:E.
    + apply bytes_eqb_eq in E. subst. split; [discriminate|]. intro H. exfalso. apply H. left. reflexivity.
    + apply bytes_eqb_neq in E. rewrite IH. split.
      * intros H [H1|H1]; [congruence|contradiction].
      * intros H H1. apply H. right. exact H1.
Qed.

(** in a table with distinct keys, lookup finds exactly the entries *)
Lemma lookup_in_nodup : forall k v m, NoDup (map fst m) -> In (k, v) m -> lookup k m = Some v.
Proof.
  intros k v m. induction m as [|[k' v'] m IH]; cbn; intros Hnd Hin; [contradiction|].
  inversion Hnd as [|? ? Hn Hnd']; subst.
  destruct Hin as [E|Hin].
  - inversion E; subst. rewrite bytes_eqb_refl. reflexivity.
  - destruct (bytes_eqb k k') eqn:E.
    + apply bytes_eqb_eq in E. subst. exfalso. apply Hn. apply (in_map fst) in Hin. exact Hin.
    + apply IH; assumption.
Qed.

(* ------------------------------------------------------------------------------------------ *)
(** * Loop shapes *)

Lemma message_loop_spec : forall defs (body g : message_def -> list diagnostic),
  (forall m, body m = g m) ->
  for_each defs (fun d => match d with DMessage m => body m | _ => [] end) = per_message defs g.
Proof.
  intros defs body g H. unfold for_each, per_message. apply flat_map_ext.
  intro d. destruct d; try reflexivity. apply H.
Qed.

Lemma signal_loop_spec : forall (sigs : list signal_def) (body : signal_def -> list diagnostic)
    (bad : signal_def -> bool) (mk : signal_def -> diagnostic),
  (forall s, body s = if bad s then [mk s] else []) -> for_each sigs body = map mk (filter bad sigs).
Proof.
  intros sigs body bad mk H. unfold for_each. rewrite <- flat_map_if. apply flat_map_ext. exact H.
Qed.

(* ------------------------------------------------------------------------------------------ *)
(** * CamelCase (messagenames, signalnames, valuedescriptions) *)
Section Camel.
  Variable uni_digit : Z -> bool.
  Variable uni_upper : Z -> bool.
  (** the only fact about unicode.IsUpper that matters: on ASCII letters and digits it is A..Z *)
  Hypothesis uni_upper_ascii :
    forall r, is_alpha_char r || is_num_char r = true -> uni_upper r = is_upper_ascii r.

  Let alnum (r : Z) : bool := is_alpha_char r || is_num_char r.

  Lemma camel_loop_rest : forall rs i, i <> 0 -> 0 <= i ->
    camel_loop uni_digit uni_upper i rs = forallb alnum (filter (fun r => negb (uni_digit r)) rs).
  Proof.
    induction rs as [|r rs IH]; intros i Hi Hp; cbn [camel_loop filter]; [reflexivity|].
    destruct (uni_digit r); cbn [negb]; [apply IH; assumption|].
    cbn [forallb]. replace (i =? 0) with false by (symmetry; apply Z.eqb_neq; exact Hi).
    cbn [andb orb]. unfold alnum at 1.
    destruct (is_alpha_char r), (is_num_char r); cbn; try reflexivity; apply IH; lia.
  Qed.

  Lemma camel_loop_first : forall rs,
    camel_loop uni_digit uni_upper 0 rs =
    match filter (fun r => negb (uni_digit r)) rs with
    | [] => true
    | r :: rest => is_upper_ascii r && forallb alnum rest
    end.
  Proof.
    induction rs as [|r rs IH]; cbn [camel_loop filter]; [reflexivity|].
    destruct (uni_digit r); cbn [negb]; [exact IH|].
    rewrite Z.eqb_refl. cbn [andb].
    destruct (is_alpha_char r || is_num_char r) eqn:Ea.
    - rewrite (uni_upper_ascii r Ea).
      replace (negb (is_alpha_char r) && negb (is_num_char r)) with false
        by (destruct (is_alpha_char r), (is_num_char r); cbn in *; congruence).
      rewrite orb_false_r. destruct (is_upper_ascii r); cbn [negb andb]; [|reflexivity].
      apply camel_loop_rest; lia.
    - apply orb_false_iff in Ea. destruct Ea as [Ea En]. rewrite Ea, En. cbn [negb andb].
      rewrite orb_true_r.
      assert (is_upper_ascii r = false) as ->; [|reflexivity].
      unfold is_alpha_char in Ea. apply orb_false_iff in Ea. exact (proj1 Ea).
  Qed.

  Lemma is_camel_case_spec : forall s, is_camel_case uni_digit uni_upper s = camel_case uni_digit s.
  Proof. intro s. unfold is_camel_case, camel_case. apply camel_loop_first. Qed.

  (** ** messagenames *)
  Theorem messagenames_correct : forall f,
    messagenames_run uni_digit uni_upper f = Ok (messagenames_spec uni_digit f).
  Proof.
    intro f. unfold messagenames_run, messagenames_spec. f_equal. apply message_loop_spec.
    intro m. rewrite is_camel_case_spec. destruct (camel_case uni_digit (m_name m)); reflexivity.
  Qed.

  Theorem messagenames_clean : forall f, messagenames_spec uni_digit f = [] <-> messagenames_rule uni_digit f.
  Proof.
    intro f. unfold messagenames_spec, messagenames_rule. rewrite per_message_nil_iff.
    split; intros H m Hm; specialize (H m Hm); destruct (camel_case uni_digit (m_name m)); congruence.
  Qed.

  (** ** signalnames *)
  Theorem signalnames_correct : forall f,
    signalnames_run uni_digit uni_upper f = Ok (signalnames_spec uni_digit f).
  Proof.
    intro f. unfold signalnames_run, signalnames_spec. f_equal. apply message_loop_spec.
    intro m. unfold signals_where. apply signal_loop_spec.
    intro s. rewrite is_camel_case_spec. reflexivity.
  Qed.

  Theorem signalnames_clean : forall f, signalnames_spec uni_digit f = [] <-> signalnames_rule uni_digit f.
  Proof.
    intro f. unfold signalnames_spec, signalnames_rule. rewrite per_message_nil_iff.
    split.
    - intros H m s Hm Hs. specialize (H m Hm). rewrite signals_where_nil_iff in H.
      specialize (H s Hs). apply negb_false_iff in H. exact H.
    - intros H m Hm. apply signals_where_nil_iff. intros s Hs. rewrite (H m s Hm Hs). reflexivity.
  Qed.

  (** ** valuedescriptions *)
  Lemma valuedescriptions_values_spec : forall vds,
    valuedescriptions_values uni_digit uni_upper vds =
    map (fun vd => diag (description_pos vd) MValueDescription)
        (filter (fun vd => negb (camel_case uni_digit (vd_description vd))) vds).
  Proof.
    intro vds. unfold valuedescriptions_values, for_each. rewrite <- flat_map_if. apply flat_map_ext.
    intro vd. rewrite is_camel_case_spec.
    unfold vd_report_pos, description_pos. rewrite Z.add_assoc. reflexivity.
  Qed.

  Theorem valuedescriptions_correct : forall f,
    valuedescriptions_run uni_digit uni_upper f = Ok (valuedescriptions_spec uni_digit f).
  Proof.
    intro f. unfold valuedescriptions_run, valuedescriptions_spec, for_each. f_equal.
    apply flat_map_ext. intro d.
    destruct d; try reflexivity; cbn [values_of]; apply valuedescriptions_values_spec.
  Qed.

  Theorem valuedescriptions_clean : forall f,
    valuedescriptions_spec uni_digit f = [] <-> valuedescriptions_rule uni_digit f.
  Proof.
    intro f. unfold valuedescriptions_spec, valuedescriptions_rule. rewrite flat_map_nil_iff. split.
    - intros H d vd Hd Hvd. specialize (H d Hd). rewrite map_filter_nil_iff in H.
      specialize (H vd Hvd). apply negb_false_iff in H. exact H.
    - intros H d Hd. apply map_filter_nil_iff. intros vd Hvd. rewrite (H d vd Hd Hvd). reflexivity.
  Qed.
End Camel.

(* ------------------------------------------------------------------------------------------ *)
(** * boolprefix *)
Lemma has_value_descriptions_spec : forall defs id name,
  has_value_descriptions defs id name = existsb (val_for id name) defs.
Proof.
  intros defs id name. induction defs as [|d defs IH]; [reflexivity|].
  destruct d; cbn [has_value_descriptions existsb val_for orb]; try exact IH.
  destruct ((vs_message_id v =? id) && bytes_eqb (vs_signal v) name); [reflexivity|exact IH].
Qed.

Theorem boolprefix_correct : forall f, boolprefix_run f = Ok (boolprefix_spec f).
Proof.
  intro f. unfold boolprefix_run, boolprefix_spec. f_equal. apply message_loop_spec.
  intro m. unfold signals_where. apply signal_loop_spec.
  intro s. unfold boolprefix_signal, boolprefix_bad, allowed_prefixes.
  rewrite has_value_descriptions_spec. cbn [existsb].
  destruct (sg_size s =? 1); cbn [negb andb]; [|reflexivity].
  destruct (has_prefix prefix_is (sg_name s)); cbn [negb andb orb]; [reflexivity|].
  destruct (has_prefix prefix_has (sg_name s)); cbn [negb andb orb]; [reflexivity|].
  destruct (existsb (val_for (m_id m) (sg_name s)) (f_defs f)); reflexivity.
Qed.

Theorem boolprefix_clean : forall f, boolprefix_spec f = [] <-> boolprefix_rule f.
Proof.
  intro f. unfold boolprefix_spec, boolprefix_rule. rewrite per_message_nil_iff. split.
  - intros H m s Hm Hs Hsize. specialize (H m Hm). rewrite signals_where_nil_iff in H.
    specialize (H s Hs). unfold boolprefix_bad in H. rewrite Hsize, Z.eqb_refl in H. cbn [andb] in H.
    destruct (has_prefix prefix_is (sg_name s)) eqn:E1; [left; apply has_prefix_spec; exact E1|].
    destruct (has_prefix prefix_has (sg_name s)) eqn:E2; [right; left; apply has_prefix_spec; exact E2|].
    cbn [negb andb] in H. apply negb_false_iff in H. apply existsb_exists in H.
    destruct H as [d [Hd Hv]]. right. right. destruct d; cbn in Hv; try discriminate.
    apply andb_true_iff in Hv. destruct Hv as [Hv1 Hv2]. apply Z.eqb_eq in Hv1. apply bytes_eqb_eq in Hv2.
    exists v. auto.
  - intros H m Hm. apply signals_where_nil_iff. intros s Hs. unfold boolprefix_bad.
    destruct (sg_size s =? 1) eqn:Es; [|reflexivity]. apply Z.eqb_eq in Es. cbn [andb].
    destruct (H m s Hm Hs Es) as [H1|[H1|[v [Hv [Hid Hn]]]]].
    + apply has_prefix_spec in H1. rewrite H1. reflexivity.
    + apply has_prefix_spec in H1. rewrite H1.
      destruct (has_prefix prefix_is (sg_name s)); reflexivity.
    + assert (existsb (val_for (m_id m) (sg_name s)) (f_defs f) = true) as ->.
      { apply existsb_exists. exists (DValueDescriptions v). split; [exact Hv|].
        cbn. rewrite Hid, Hn, Z.eqb_refl, bytes_eqb_refl. reflexivity. }
      destruct (has_prefix prefix_is (sg_name s)), (has_prefix prefix_has (sg_name s)); reflexivity.
Qed.

(* ------------------------------------------------------------------------------------------ *)
(** * intervals *)
Lemma intervals_signals_spec : forall m,
  intervals_signals m = signals_where (fun s => f64_gt (sg_min s) (sg_max s))
                          (fun s => diag (m_pos m) (MIntervalFloat (sg_min s) (sg_max s))) m.
Proof. intro m. unfold intervals_signals, signals_where. apply signal_loop_spec. reflexivity. Qed.

Theorem intervals_correct : forall f, intervals_run f = Ok (intervals_spec f).
Proof.
  intro f. unfold intervals_run, intervals_with, intervals_spec, for_each. f_equal.
  apply flat_map_ext. intro d. destruct d; try reflexivity. apply intervals_signals_spec.
Qed.

Theorem intervals_clean : forall f, intervals_spec f = [] <-> intervals_rule f.
Proof.
  intro f. unfold intervals_spec, intervals_rule. rewrite flat_map_nil_iff. split.
  - intro H. repeat split.
    + intros e He. specialize (H _ He). cbn in H. destruct (f64_gt (ev_min e) (ev_max e)); congruence.
    + intros m s Hm Hs. specialize (H _ Hm). cbn in H. rewrite signals_where_nil_iff in H. apply H. exact Hs.
    + specialize (H _ H0). cbn in H. apply app_eq_nil in H. destruct H as [H _].
      destruct (ad_max_int a <? ad_min_int a) eqn:E; [discriminate|]. apply Z.ltb_ge in E. exact E.
    + specialize (H _ H0). cbn in H. apply app_eq_nil in H. destruct H as [_ H].
      destruct (f64_gt (ad_min_float a) (ad_max_float a)); congruence.
  - intros [He [Hm Ha]] d Hd. destruct d; try reflexivity.
    + apply signals_where_nil_iff. intros s Hs. apply (Hm _ _ Hd Hs).
    + rewrite (He _ Hd). reflexivity.
    + destruct (Ha _ Hd) as [Hi Hf]. rewrite Hf.
      replace (ad_max_int a <? ad_min_int a) with false by (symmetry; apply Z.ltb_ge; exact Hi). reflexivity.
Qed.

(* ------------------------------------------------------------------------------------------ *)
(** * newsymbols, version *)
Theorem newsymbols_correct : forall f, newsymbols_run f = Ok (newsymbols_spec f).
Proof.
  intro f. unfold newsymbols_run, newsymbols_spec, for_each. f_equal. apply flat_map_ext.
  intro d. destruct d; try reflexivity. destruct symbols; reflexivity.
Qed.

Theorem newsymbols_clean : forall f, newsymbols_spec f = [] <-> newsymbols_rule f.
Proof.
  intro f. unfold newsymbols_spec, newsymbols_rule. rewrite flat_map_nil_iff. split.
  - intros H p syms Hd. specialize (H _ Hd). cbn in H. destruct syms; [reflexivity|discriminate].
  - intros H d Hd. destruct d; try reflexivity. rewrite (H _ _ Hd). reflexivity.
Qed.

Theorem version_correct : forall f, version_run f = Ok (version_spec f).
Proof.
  intro f. unfold version_run, version_spec, for_each. f_equal. apply flat_map_ext.
  intro d. destruct d; try reflexivity. destruct version; reflexivity.
Qed.

Theorem version_clean : forall f, version_spec f = [] <-> version_rule f.
Proof.
  intro f. unfold version_spec, version_rule. rewrite flat_map_nil_iff. split.
  - intros H p v Hd. specialize (H _ Hd). cbn in H. destruct v; [reflexivity|discriminate].
  - intros H d Hd. destruct d; try reflexivity. rewrite (H _ _ Hd). reflexivity.
Qed.

(* ------------------------------------------------------------------------------------------ *)
(** * noreservedsignals *)
Theorem noreservedsignals_correct : forall f, noreservedsignals_run f = Ok (noreservedsignals_spec f).
Proof.
  intro f. unfold noreservedsignals_run, noreservedsignals_spec. f_equal. apply message_loop_spec.
  intro m. unfold signals_where. apply signal_loop_spec. reflexivity.
Qed.

Theorem noreservedsignals_clean : forall f, noreservedsignals_spec f = [] <-> noreservedsignals_rule f.
Proof.
  intro f. unfold noreservedsignals_spec, noreservedsignals_rule. rewrite per_message_nil_iff. split.
  - intros H m s Hm Hs. specialize (H m Hm). rewrite signals_where_nil_iff in H.
    apply has_prefix_false. apply H. exact Hs.
  - intros H m Hm. apply signals_where_nil_iff. intros s Hs. apply has_prefix_false. apply (H m s Hm Hs).
Qed.

(* ------------------------------------------------------------------------------------------ *)
(** * signalbounds *)
Theorem signalbounds_correct : forall f, signalbounds_run f = Ok (signalbounds_spec f).
Proof.
  intro f. unfold signalbounds_run, signalbounds_spec. f_equal. apply message_loop_spec.
  intro m. unfold pseudo. destruct (is_independent_signals_message m); [reflexivity|].
  unfold signals_where. apply signal_loop_spec. reflexivity.
Qed.

Theorem signalbounds_clean : forall f, signalbounds_spec f = [] <-> signalbounds_rule f.
Proof.
  intro f. unfold signalbounds_spec, signalbounds_rule. rewrite per_message_nil_iff. split.
  - intros H m s Hm Hp Hs. specialize (H m Hm). rewrite Hp in H. rewrite signals_where_nil_iff in H.
    specialize (H s Hs). apply Z.leb_gt in H. exact H.
  - intros H m Hm. destruct (pseudo m) eqn:Hp; [reflexivity|].
    apply signals_where_nil_iff. intros s Hs. apply Z.leb_gt. apply (H m s Hm Hp Hs).
Qed.

(** with message sizes below 2^61 bytes the uint64 product is the mathematical one *)
Theorem signalbounds_rule_small_sizes : forall f,
  (forall m, In (DMessage m) (f_defs f) -> 0 <= m_size m < 2 ^ 61) ->
  (signalbounds_rule f <-> signalbounds_rule_unbounded f).
Proof.
  intros f Hsz. unfold signalbounds_rule, signalbounds_rule_unbounded.
  split; intros H m s Hm Hp Hs; specialize (H m s Hm Hp Hs); specialize (Hsz m Hm);
    rewrite Z.mod_small in * by lia; exact H.
Qed.

(* ------------------------------------------------------------------------------------------ *)
(** * siunits, unitsuffixes *)
Lemma symbol_map_is_table : symbol_map = non_si_units.
Proof. reflexivity. Qed.
Lemma unit_suffixes_is_table : unit_suffixes = suffix_of_unit.
Proof. reflexivity. Qed.

Theorem siunits_correct : forall f, siunits_run f = Ok (siunits_spec f).
Proof.
  intro f. unfold siunits_run, siunits_spec. rewrite symbol_map_is_table. reflexivity.
Qed.

Theorem siunits_clean : forall f, siunits_spec f = [] <-> siunits_rule f.
Proof.
  intro f. unfold siunits_spec, siunits_rule. rewrite per_message_nil_iff. split.
  - intros H m s Hm Hs. specialize (H m Hm). rewrite flat_map_nil_iff in H. specialize (H s Hs).
    apply lookup_none_iff. destruct (lookup (sg_unit s) non_si_units); [discriminate|reflexivity].
  - intros H m Hm. apply flat_map_nil_iff. intros s Hs.
    specialize (H m s Hm Hs). apply lookup_none_iff in H. rewrite H. reflexivity.
Qed.

Theorem unitsuffixes_correct : forall f, unitsuffixes_run f = Ok (unitsuffixes_spec f).
Proof.
  intro f. unfold unitsuffixes_run, unitsuffixes_spec. f_equal. apply message_loop_spec.
  intro m. rewrite unit_suffixes_is_table. unfold for_each. apply flat_map_ext.
  intro s. destruct (lookup (sg_unit s) suffix_of_unit); [|reflexivity].
  destruct (has_suffix b (sg_name s)); reflexivity.
Qed.

Lemma suffix_of_unit_nodup : NoDup (map fst suffix_of_unit).
Proof.
  cbn. repeat constructor; cbn; intro H; repeat (destruct H as [H|H]; [discriminate H|]); exact H.
Qed.

Theorem unitsuffixes_clean : forall f, unitsuffixes_spec f = [] <-> unitsuffixes_rule f.
Proof.
  intro f. unfold unitsuffixes_spec, unitsuffixes_rule. rewrite per_message_nil_iff. split.
  - intros H m s suffix Hm Hs Hin. specialize (H m Hm). rewrite flat_map_nil_iff in H. specialize (H s Hs).
    rewrite (lookup_in_nodup _ _ _ suffix_of_unit_nodup Hin) in H.
    apply has_suffix_spec. destruct (has_suffix suffix (sg_name s)); [reflexivity|discriminate].
  - intros H m Hm. apply flat_map_nil_iff. intros s Hs.
    destruct (lookup (sg_unit s) suffix_of_unit) as [suffix|] eqn:E; [|reflexivity].
    apply lookup_some_in in E. apply (H m s suffix Hm Hs) in E. apply has_suffix_spec in E.
    rewrite E. reflexivity.
Qed.

(* ------------------------------------------------------------------------------------------ *)
(** * lineendings *)
Definition CrLfIn (data : bytes) : Prop := exists front back, data = front ++ 13 :: 10 :: back.

Lemma contains_crlf_iff : forall data, contains_crlf data = true <-> CrLfIn data.
Proof.
  unfold CrLfIn. induction data as [|b tl IH].
  - cbn. split; [discriminate|]. intros [front [back H]]. destruct front; discriminate.
  - destruct tl as [|b' tl'].
    + cbn. split; [discriminate|]. intros [front [back H]].
      destruct front as [|x front]; [discriminate|]. destruct front; discriminate.
    + change (contains_crlf (b :: b' :: tl'))
        with (if (b =? 13) && (b' =? 10) then true else contains_crlf (b' :: tl')).
      destruct ((b =? 13) && (b' =? 10)) eqn:E.
      * split; [|reflexivity]. intros _. apply andb_true_iff in E. destruct E as [E1 E2].
        apply Z.eqb_eq in E1. apply Z.eqb_eq in E2. subst. exists [], tl'. reflexivity.
      * rewrite IH. split.
        -- intros [front [back H]]. exists (b :: front), back. cbn. rewrite H. reflexivity.
        -- intros [front [back H]]. destruct front as [|x front].
           ++ cbn in H. inversion H; subst. cbn in E. discriminate.
           ++ cbn in H. inversion H; subst. exists front, back. assumption.
Qed.

Lemma has_crlf_iff : forall data, has_crlf data = true <-> CrLfIn data.
Proof.
  intro data. unfold has_crlf, CrLfIn. rewrite existsb_exists. split.
  - intros [i [Hi Hc]]. apply in_seq in Hi. apply andb_true_iff in Hc. destruct Hc as [H1 H2].
    apply Z.eqb_eq in H1. apply Z.eqb_eq in H2.
    destruct (nth_split data 0 (proj2 Hi)) as [l1 [l2 [E Hl]]]. cbn in Hl.
    rewrite H1 in E. exists l1. rewrite E in H2.
    rewrite app_nth2 in H2 by lia. replace (S i - length l1)%nat with 1%nat in H2 by lia.
    cbn in H2. destruct l2 as [|y l2]; cbn in H2; [discriminate|]. subst y. exists l2. exact E.
  - intros [front [back ->]]. exists (length front). split.
    + apply in_seq. rewrite app_length. cbn. lia.
    + rewrite nth_middle.
      replace (front ++ 13 :: 10 :: back) with ((front ++ [13]) ++ 10 :: back)
        by (rewrite <- app_assoc; reflexivity).
      replace (S (length front)) with (length (front ++ [13])) by (rewrite app_length; cbn; lia).
      rewrite nth_middle. reflexivity.
Qed.

Theorem lineendings_correct : forall f, lineendings_run f = Ok (lineendings_spec f).
Proof.
  intro f. unfold lineendings_run, lineendings_spec.
  rewrite (eq_true_iff_eq (contains_crlf (f_data f)) (has_crlf (f_data f))); [reflexivity|].
  rewrite contains_crlf_iff, has_crlf_iff. reflexivity.
Qed.

Theorem lineendings_clean : forall f, lineendings_spec f = [] <-> lineendings_rule f.
Proof.
  intro f. unfold lineendings_spec, lineendings_rule. fold (CrLfIn (f_data f)).
  rewrite <- has_crlf_iff. destruct (has_crlf (f_data f)); split; intro H; try congruence;
    exfalso; apply H; reflexivity.
Qed.

(* ------------------------------------------------------------------------------------------ *)
(** * nodereferences *)
Definition names_have (n : bytes) (d : def) : bool :=
  match d with DNodes _ names => existsb (bytes_eqb n) names | _ => false end.

Lemma add_names_mem : forall n names acc,
  mem_bytes n (add_names acc names) = mem_bytes n acc || existsb (bytes_eqb n) names.
Proof.
  intros n names. induction names as [|x names IH]; intro acc; cbn [add_names existsb].
  - rewrite orb_false_r. reflexivity.
  - rewrite IH. unfold mem_bytes. cbn [existsb].
    destruct (bytes_eqb n x), (existsb (bytes_eqb n) acc); reflexivity.
Qed.

Lemma collect_nodes_mem : forall n defs acc,
  mem_bytes n (collect_nodes acc defs) = mem_bytes n acc || existsb (names_have n) defs.
Proof.
  intros n defs. induction defs as [|d defs IH]; intro acc; cbn [collect_nodes existsb].
  - rewrite orb_false_r. reflexivity.
  - destruct d; cbn [names_have orb]; try apply IH.
    rewrite IH, add_names_mem, orb_assoc. reflexivity.
Qed.

Lemma declared_model : forall defs n,
  mem_bytes n (collect_nodes [node_placeholder] defs) = declared_in defs n.
Proof.
  intros defs n. rewrite collect_nodes_mem. unfold declared_in, mem_bytes. cbn [existsb].
  rewrite orb_false_r. reflexivity.
Qed.

Lemma undeclared_spec : forall defs declared p mk names,
  (forall n, mem_bytes n declared = declared_in defs n) ->
  undeclared declared p mk names = undeclared_of defs p mk names.
Proof.
  intros defs declared p mk names H. unfold undeclared, undeclared_of, for_each.
  rewrite <- flat_map_if. apply flat_map_ext. intro n. rewrite H.
  destruct (declared_in defs n); reflexivity.
Qed.

Theorem nodereferences_correct : forall f, nodereferences_run f = Ok (nodereferences_spec f).
Proof.
  intro f. unfold nodereferences_run, nodereferences_spec, for_each. f_equal.
  apply flat_map_ext. intro d.
  pose proof (declared_model (f_defs f)) as Hd.
  destruct d; try reflexivity.
  - f_equal.
    + rewrite Hd. unfold undeclared_of. cbn [filter map].
      destruct (declared_in (f_defs f) (m_transmitter m)); reflexivity.
    + apply flat_map_ext. intro s. apply undeclared_spec. exact Hd.
  - apply undeclared_spec. exact Hd.
  - apply undeclared_spec. exact Hd.
Qed.

Lemma declared_in_iff : forall defs n, declared_in defs n = true <-> Declared defs n.
Proof.
  intros defs n. unfold declared_in, Declared. rewrite orb_true_iff, bytes_eqb_eq, existsb_exists. split.
  - intros [H|[d [Hd Hn]]]; [left; exact H|right].
    destruct d; cbn in Hn; try discriminate. apply existsb_exists in Hn. destruct Hn as [x [Hx Ex]].
    apply bytes_eqb_eq in Ex. subst x. exists pos, names. auto.
  - intros [H|[p [names [Hd Hn]]]]; [left; exact H|right].
    exists (DNodes p names). split; [exact Hd|]. cbn. apply existsb_exists. exists n.
    split; [exact Hn|apply bytes_eqb_refl].
Qed.

Lemma undeclared_of_nil_iff : forall defs p mk names,
  undeclared_of defs p mk names = [] <-> forall n, In n names -> Declared defs n.
Proof.
  intros defs p mk names. unfold undeclared_of. rewrite map_filter_nil_iff.
  split; intros H n Hn; specialize (H n Hn).
  - apply declared_in_iff. apply negb_false_iff in H. exact H.
  - apply declared_in_iff in H. rewrite H. reflexivity.
Qed.

Theorem nodereferences_clean : forall f, nodereferences_spec f = [] <-> nodereferences_rule f.
Proof.
  intro f. unfold nodereferences_spec, nodereferences_rule. cbv zeta. rewrite flat_map_nil_iff. split.
  - intro H. repeat split.
    + specialize (H _ H0). cbv beta iota in H. apply app_eq_nil in H. destruct H as [H _].
      rewrite undeclared_of_nil_iff in H. apply H. left. reflexivity.
    + intros s n Hs Hn. specialize (H _ H0). cbv beta iota in H. apply app_eq_nil in H. destruct H as [_ H].
      rewrite flat_map_nil_iff in H. specialize (H s Hs). rewrite undeclared_of_nil_iff in H. apply H. exact Hn.
    + intros e n He Hn. specialize (H _ He). cbv beta iota in H. rewrite undeclared_of_nil_iff in H. apply H. exact Hn.
    + intros p id txs n Hd Hn. specialize (H _ Hd). cbv beta iota in H. rewrite undeclared_of_nil_iff in H. apply H. exact Hn.
  - intros [Hm [He Ht]] d Hd. destruct d; try reflexivity.
    + destruct (Hm _ Hd) as [Htx Hrx]. apply app_eq_nil_iff'.
      * apply undeclared_of_nil_iff. intros n [<-|[]]. exact Htx.
      * apply flat_map_nil_iff. intros s Hs. apply undeclared_of_nil_iff. intros n Hn. apply (Hrx s n Hs Hn).
    + apply undeclared_of_nil_iff. intros n Hn. apply (Ht _ _ _ n Hd Hn).
    + apply undeclared_of_nil_iff. intros n Hn. apply (He _ n Hd Hn).
Qed.

(* ------------------------------------------------------------------------------------------ *)
(** * requireddefinitions *)
Lemma count_kind_zero : forall k defs,
  0 <= count_kind k defs /\ ((count_kind k defs =? 0) = negb (existsb (is_kind k) defs)).
Proof.
  intros k defs. induction defs as [|d defs [IH1 IH2]]; cbn [count_kind existsb]; [split; [lia|reflexivity]|].
  unfold is_kind at 1. destruct (kind_eqb (kind_of d) k); cbn [orb negb].
  - split; [lia|]. apply Z.eqb_neq. lia.
  - split; [lia|]. rewrite Z.add_0_l. exact IH2.
Qed.

Lemma existsb_is_bit_timing : forall defs, existsb (is_kind KBitTiming) defs = existsb is_bit_timing defs.
Proof. induction defs as [|d defs IH]; [reflexivity|]. cbn [existsb]. rewrite IH. destruct d; reflexivity. Qed.
Lemma existsb_is_nodes : forall defs, existsb (is_kind KNodes) defs = existsb is_nodes defs.
Proof. induction defs as [|d defs IH]; [reflexivity|]. cbn [existsb]. rewrite IH. destruct d; reflexivity. Qed.

Theorem requireddefinitions_correct : forall f, requireddefinitions_run f = Ok (requireddefinitions_spec f).
Proof.
  intro f. unfold requireddefinitions_run, requireddefinitions_spec, required_kinds. cbn [required_loop].
  rewrite (proj2 (count_kind_zero KBitTiming (f_defs f))), (proj2 (count_kind_zero KNodes (f_defs f))).
  rewrite existsb_is_bit_timing, existsb_is_nodes.
  destruct (existsb is_bit_timing (f_defs f)), (existsb is_nodes (f_defs f)); cbn [negb andb];
    try reflexivity; destruct (f_defs f); reflexivity.
Qed.

Theorem requireddefinitions_clean : forall f, requireddefinitions_spec f = [] <-> requireddefinitions_rule f.
Proof.
  intro f. unfold requireddefinitions_spec, requireddefinitions_rule. split.
  - intro H. destruct (existsb is_bit_timing (f_defs f)) eqn:E1; [|discriminate].
    destruct (existsb is_nodes (f_defs f)) eqn:E2; [|discriminate].
    apply existsb_exists in E1. apply existsb_exists in E2.
    destruct E1 as [d1 [H1 K1]]. destruct E2 as [d2 [H2 K2]].
    destruct d1; try discriminate. destruct d2; try discriminate.
    split; [exists pos, baud, btr1, btr2; exact H1|exists pos0, names; exact H2].
  - intros [[p [a [b [c H1]]]] [p' [names H2]]].
    assert (existsb is_bit_timing (f_defs f) = true) as ->
      by (apply existsb_exists; exists (DBitTiming p a b c); auto).
    assert (existsb is_nodes (f_defs f) = true) as ->
      by (apply existsb_exists; exists (DNodes p' names); auto).
    reflexivity.
Qed.

(** F5: the code before the fix panics on a file without definitions *)
Theorem requireddefinitions_old_refuted :
  requireddefinitions_run_old empty_file = Panic /\ requireddefinitions_run empty_file = Ok [diag pos_1_1 MMissingRequired].
Proof. split; reflexivity. Qed.

(** the old and the fixed pass agree on every file that has a definition *)
Theorem requireddefinitions_old_nonempty : forall f,
  f_defs f <> [] -> requireddefinitions_run_old f = requireddefinitions_run f.
Proof.
  intros f H. unfold requireddefinitions_run_old, requireddefinitions_run, required_kinds.
  destruct (f_defs f) as [|d defs]; [contradiction|]. cbn [required_loop required_loop_old nth_error].
  reflexivity.
Qed.

(* ------------------------------------------------------------------------------------------ *)
(** * singletondefinitions *)
Definition singleton_diag (d : def) : list diagnostic := [diag (def_pos d) MSingleton].

Lemma defs_by_type_filter : forall k defs, defs_by_type k defs = filter (is_kind k) defs.
Proof. intros k defs. induction defs as [|d defs IH]; [reflexivity|]. cbn. rewrite IH. reflexivity. Qed.

Lemma singleton_seen : forall k defs (seen : bool),
  at_each defs (fun before d _ =>
    if is_kind k d && (seen || existsb (is_kind k) before) then singleton_diag d else []) =
  flat_map singleton_diag (if seen then defs_by_type k defs else tl (defs_by_type k defs)).
Proof.
  intros k defs. induction defs as [|d defs IH]; intro seen.
  - destruct seen; reflexivity.
  - rewrite at_each_cons. cbn [existsb defs_by_type]. rewrite orb_false_r.
    rewrite (at_each_ext _ _ defs _
      (fun before y _ => if is_kind k y && ((seen || is_kind k d) || existsb (is_kind k) before)
                         then singleton_diag y else [])).
    2:{ intros b x a _. rewrite orb_assoc. reflexivity. }
    rewrite IH. fold (is_kind k d).
    destruct seen, (is_kind k d); reflexivity.
Qed.

Lemma singletondefinitions_kind : forall k defs,
  at_each defs (fun before d _ =>
    if is_kind k d && existsb (is_kind k) before then [diag (def_pos d) MSingleton] else []) =
  flat_map singleton_diag (tl (defs_by_type k defs)).
Proof. intros k defs. exact (singleton_seen k defs false). Qed.

Theorem singletondefinitions_correct : forall f, singletondefinitions_run f = Ok (singletondefinitions_spec f).
Proof.
  intro f. unfold singletondefinitions_run, singletondefinitions_spec, for_each, singleton_kinds. f_equal.
  apply flat_map_ext. intro k. rewrite singletondefinitions_kind. reflexivity.
Qed.

Theorem singletondefinitions_clean : forall f, singletondefinitions_spec f = [] <-> singletondefinitions_rule f.
Proof.
  intro f. unfold singletondefinitions_spec, singletondefinitions_rule. rewrite flat_map_nil_iff.
  split; intros H k Hk; specialize (H k Hk).
  - rewrite singletondefinitions_kind, defs_by_type_filter in H.
    destruct (filter (is_kind k) (f_defs f)) as [|d [|d' l]]; cbn; try lia. discriminate.
  - rewrite singletondefinitions_kind, defs_by_type_filter.
    destruct (filter (is_kind k) (f_defs f)) as [|d [|d' l]]; cbn in *; try reflexivity. lia.
Qed.

(* ------------------------------------------------------------------------------------------ *)
(** * definitiontypeorder *)
Lemma order_of_rank : forall d, order_of d = rank d.
Proof. intro d. destruct d; reflexivity. Qed.

Lemma rank_range : forall d, 0 <= rank d <= max_uint64.
Proof. intro d. unfold max_uint64. destruct d; cbn [rank]; lia. Qed.

Definition dto_diag (d : def) (later : list def) : list diagnostic :=
  if existsb (fun d' => rank d' <? rank d) later then [diag (def_pos d) MOutOfOrder] else [].

Lemma dto_loop_spec : forall l later minv,
  (forall d, (minv <? rank d) = existsb (fun d' => rank d' <? rank d) later) ->
  dto_loop minv (rev l) = rev (at_each l (fun _ d a => dto_diag d (a ++ later))).
Proof.
  induction l as [|x l IH] using rev_ind; intros later minv Hinv; [reflexivity|].
  rewrite rev_unit. cbn [dto_loop]. rewrite order_of_rank.
  rewrite at_each_app, rev_app_distr, at_each_cons, at_each_nil, app_nil_r. cbn [app].
  rewrite (at_each_ext _ _ l _ (fun _ d a => dto_diag d (a ++ x :: later))).
  2:{ intros b y a _. rewrite <- app_assoc. reflexivity. }
  unfold dto_diag at 1. rewrite <- (Hinv x).
  destruct (minv <? rank x) eqn:E.
  - cbn [rev app]. f_equal. apply IH. intro d. cbn [existsb]. rewrite <- Hinv.
    apply Z.ltb_lt in E. destruct (Z.ltb_spec minv (rank d)), (Z.ltb_spec (rank x) (rank d)); cbn; try reflexivity; lia.
  - cbn [rev app]. apply IH. intro d. cbn [existsb]. rewrite <- Hinv.
    apply Z.ltb_ge in E. destruct (Z.ltb_spec minv (rank d)), (Z.ltb_spec (rank x) (rank d)); cbn; try reflexivity; lia.
Qed.

Theorem definitiontypeorder_correct : forall f, definitiontypeorder_run f = Ok (definitiontypeorder_spec f).
Proof.
  intro f. unfold definitiontypeorder_run, definitiontypeorder_spec. f_equal.
  rewrite (dto_loop_spec (f_defs f) [] max_uint64).
  - f_equal. apply at_each_ext. intros b x a _. rewrite app_nil_r. reflexivity.
  - intro d. cbn [existsb]. apply Z.ltb_ge. apply rank_range.
Qed.

Lemma rev_nil_iff : forall (A : Type) (l : list A), rev l = [] <-> l = [].
Proof.
  intros A l. split; intro H; [|subst; reflexivity].
  rewrite <- (rev_involutive l), H. reflexivity.
Qed.

Theorem definitiontypeorder_clean : forall f, definitiontypeorder_spec f = [] <-> definitiontypeorder_rule f.
Proof.
  intro f. unfold definitiontypeorder_spec, definitiontypeorder_rule. rewrite rev_nil_iff, at_each_nil_iff.
  split; intros H b x a E.
  - intros d' Hd'. specialize (H b x a E).
    destruct (existsb (fun d'0 => rank d'0 <? rank x) a) eqn:Ex; [discriminate|].
    rewrite existsb_false_iff in Ex. specialize (Ex d' Hd'). apply Z.ltb_ge in Ex. exact Ex.
  - assert (existsb (fun d' => rank d' <? rank x) a = false) as ->; [|reflexivity].
    apply existsb_false_iff. intros d' Hd'. apply Z.ltb_ge. apply (H b x a E d' Hd').
Qed.

(* ------------------------------------------------------------------------------------------ *)
(** * uniquemessageids *)
Definition umi_diag (pre : list message_def) (m : message_def) : list diagnostic :=
  if existsb (fun m' => m_id m' =? m_id m) pre then [diag (m_pos m) MDupMessageID] else [].

Lemma umi_loop_spec : forall defs seen pre,
  (forall id, mem_Z id seen = existsb (fun m' => m_id m' =? id) pre) ->
  umi_loop seen defs = at_each (real_messages defs) (fun b m _ => umi_diag (pre ++ b) m).
Proof.
  induction defs as [|d defs IH]; intros seen pre Hinv; [reflexivity|].
  destruct d; try (cbn [umi_loop real_messages flat_map app]; apply IH; exact Hinv).
  cbn [umi_loop]. unfold real_messages. cbn [flat_map]. fold (real_messages defs). unfold pseudo at 1.
  destruct (is_independent_signals_message m) eqn:Hp; cbn [app]; [apply IH; exact Hinv|].
  rewrite at_each_cons, app_nil_r. unfold umi_diag at 1. rewrite <- Hinv.
  rewrite (at_each_ext _ _ (real_messages defs) _ (fun b y _ => umi_diag ((pre ++ [m]) ++ b) y)).
  2:{ intros b y a _. rewrite <- app_assoc. reflexivity. }
  destruct (mem_Z (m_id m) seen) eqn:E; cbn [app]; [f_equal|]; apply IH; intro id;
    rewrite existsb_app; cbn [existsb]; rewrite orb_false_r, <- Hinv.
  - destruct (Z.eqb_spec (m_id m) id) as [<-|_]; [rewrite E|rewrite orb_false_r]; reflexivity.
  - unfold mem_Z. cbn [existsb]. fold (mem_Z id seen). rewrite (Z.eqb_sym id), orb_comm. reflexivity.
Qed.

Theorem uniquemessageids_correct : forall f, uniquemessageids_run f = Ok (uniquemessageids_spec f).
Proof.
  intro f. unfold uniquemessageids_run, uniquemessageids_spec, later_duplicates. f_equal.
  rewrite (umi_loop_spec (f_defs f) [] []); [reflexivity|]. intro id. reflexivity.
Qed.

Theorem uniquemessageids_clean : forall f, uniquemessageids_spec f = [] <-> uniquemessageids_rule f.
Proof.
  intro f. unfold uniquemessageids_spec, uniquemessageids_rule. apply later_duplicates_nil_iff.
  intros x y. rewrite Z.eqb_eq. split; congruence.
Qed.

(* ------------------------------------------------------------------------------------------ *)
(** * uniquesignalnames *)
Definition usn_diag (pre : list signal_def) (s : signal_def) : list diagnostic :=
  if existsb (fun s' => bytes_eqb (sg_name s) (sg_name s')) pre then [diag (sg_pos s) MDupSignalName] else [].

Lemma usn_loop_spec : forall sigs seen pre,
  (forall n, mem_bytes n seen = existsb (fun s' => bytes_eqb n (sg_name s')) pre) ->
  usn_loop seen sigs = at_each sigs (fun b s _ => usn_diag (pre ++ b) s).
Proof.
  induction sigs as [|s sigs IH]; intros seen pre Hinv; [reflexivity|].
  cbn [usn_loop]. rewrite at_each_cons, app_nil_r. unfold usn_diag at 1. rewrite <- Hinv.
  rewrite (at_each_ext _ _ sigs _ (fun b y _ => usn_diag ((pre ++ [s]) ++ b) y)).
  2:{ intros b y a _. rewrite <- app_assoc. reflexivity. }
  destruct (mem_bytes (sg_name s) seen) eqn:E; cbn [app]; [f_equal|]; apply IH; intro n;
    rewrite existsb_app; cbn [existsb]; rewrite orb_false_r, <- Hinv.
  - destruct (bytes_eqb n (sg_name s)) eqn:En; [|rewrite orb_false_r; reflexivity].
    apply bytes_eqb_eq in En. subst n. rewrite E. reflexivity.
  - unfold mem_bytes. cbn [existsb]. rewrite orb_comm. reflexivity.
Qed.

Theorem uniquesignalnames_correct : forall f, uniquesignalnames_run f = Ok (uniquesignalnames_spec f).
Proof.
  intro f. unfold uniquesignalnames_run, uniquesignalnames_spec. f_equal. apply message_loop_spec.
  intro m. unfold pseudo. destruct (is_independent_signals_message m); [reflexivity|].
  unfold later_duplicates. rewrite (usn_loop_spec (m_signals m) [] []); [reflexivity|]. intro n. reflexivity.
Qed.

Theorem uniquesignalnames_clean : forall f, uniquesignalnames_spec f = [] <-> uniquesignalnames_rule f.
Proof.
  intro f. unfold uniquesignalnames_spec, uniquesignalnames_rule. rewrite per_message_nil_iff.
  assert (Hk : forall m, later_duplicates (fun s s' => bytes_eqb (sg_name s) (sg_name s'))
                 (fun s => diag (sg_pos s) MDupSignalName) (m_signals m) = [] <-> NoDup (map sg_name (m_signals m))).
  { intro m. apply later_duplicates_nil_iff. intros x y. apply bytes_eqb_eq. }
  split.
  - intros H m Hm Hp. specialize (H m Hm). rewrite Hp in H. apply Hk. exact H.
  - intros H m Hm. destruct (pseudo m) eqn:Hp; [reflexivity|]. apply Hk. apply (H m Hm Hp).
Qed.

(* ------------------------------------------------------------------------------------------ *)
(** * uniquenodenames *)
Definition unn_diag (pre : list (position * bytes)) (o : position * bytes) : list diagnostic :=
  if existsb (fun o' => bytes_eqb (snd o) (snd o')) pre then [diag (fst o) MDupNodeName] else [].
Definition unn_inv (seen : list bytes) (pre : list (position * bytes)) : Prop :=
  forall n, mem_bytes n seen = existsb (fun o' => bytes_eqb n (snd o')) pre.

Lemma unn_names_spec : forall names seen pre p,
  unn_inv seen pre ->
  fst (unn_names seen p names) = at_each (map (pair p) names) (fun b o _ => unn_diag (pre ++ b) o)
  /\ unn_inv (snd (unn_names seen p names)) (pre ++ map (pair p) names).
Proof.
  induction names as [|n names IH]; intros seen pre p Hinv.
  - cbn. rewrite app_nil_r. split; [reflexivity|exact Hinv].
  - cbn [unn_names map].
    assert (Hinv' : unn_inv (n :: seen) (pre ++ [(p, n)])).
    { intro x. rewrite existsb_app. cbn [existsb snd]. rewrite orb_false_r, <- Hinv.
      unfold mem_bytes. cbn [existsb]. apply orb_comm. }
    destruct (IH (n :: seen) (pre ++ [(p, n)]) p Hinv') as [IH1 IH2].
    destruct (unn_names (n :: seen) p names) as [ds seen'] eqn:Eu. cbn [fst snd] in IH1, IH2.
    rewrite at_each_cons, app_nil_r. unfold unn_diag at 1. cbn [fst snd]. rewrite <- Hinv.
    rewrite (at_each_ext _ _ (map (pair p) names) _ (fun b o _ => unn_diag ((pre ++ [(p, n)]) ++ b) o)).
    2:{ intros b y a _. rewrite <- app_assoc. reflexivity. }
    rewrite <- IH1. rewrite <- app_assoc in IH2. cbn [app] in IH2.
    destruct (mem_bytes n seen); cbn [fst snd app]; split; auto.
Qed.

Lemma unn_loop_spec : forall defs seen pre,
  unn_inv seen pre ->
  unn_loop seen defs = at_each (node_occurrences defs) (fun b o _ => unn_diag (pre ++ b) o).
Proof.
  induction defs as [|d defs IH]; intros seen pre Hinv; [reflexivity|].
  destruct d; try (cbn [unn_loop node_occurrences flat_map app]; apply IH; exact Hinv).
  cbn [unn_loop]. unfold node_occurrences. cbn [flat_map]. fold (node_occurrences defs).
  destruct (unn_names_spec names seen pre pos Hinv) as [H1 H2].
  destruct (unn_names seen pos names) as [ds seen'] eqn:Eu. cbn [fst snd] in H1, H2.
  rewrite at_each_app. f_equal.
  - rewrite H1. reflexivity.
  - rewrite (IH seen' (pre ++ map (pair pos) names) H2). apply at_each_ext.
    intros b y a _. rewrite <- app_assoc. reflexivity.
Qed.

Theorem uniquenodenames_correct : forall f, uniquenodenames_run f = Ok (uniquenodenames_spec f).
Proof.
  intro f. unfold uniquenodenames_run, uniquenodenames_spec, later_duplicates. f_equal.
  rewrite (unn_loop_spec (f_defs f) [] []); [reflexivity|]. intro n. reflexivity.
Qed.

Theorem uniquenodenames_clean : forall f, uniquenodenames_spec f = [] <-> uniquenodenames_rule f.
Proof.
  intro f. unfold uniquenodenames_spec, uniquenodenames_rule. apply later_duplicates_nil_iff.
  intros x y. apply bytes_eqb_eq.
Qed.

(* ------------------------------------------------------------------------------------------ *)
(** * multiplexedsignals *)
Lemma find_app : forall (A : Type) (p : A -> bool) l1 l2,
  find p (l1 ++ l2) = match find p l1 with Some x => Some x | None => find p l2 end.
Proof.
  intros A p l1 l2. induction l1 as [|x l1 IH]; [reflexivity|]. cbn. destruct (p x); [reflexivity|exact IH].
Qed.

Lemma find_existsb : forall (A : Type) (p : A -> bool) l,
  existsb p l = match find p l with Some _ => true | None => false end.
Proof.
  intros A p l. induction l as [|x l IH]; [reflexivity|]. cbn. destruct (p x); [reflexivity|exact IH].
Qed.

Definition mux_switch_diag (before : list signal_def) (s : signal_def) : list diagnostic :=
  if negb (sg_mux_switch s) then []
  else if existsb sg_mux_switch before then [diag (sg_pos s) MMuxMany]
  else if sg_signed s then [diag (sg_pos s) MMuxSigned]
  else if sg_multiplexed s then [diag (sg_pos s) MMuxBoth]
  else [].

Lemma mux_loop1_spec : forall sigs sw pre,
  sw = find sg_mux_switch pre ->
  mux_loop1 sw sigs = (at_each sigs (fun b s _ => mux_switch_diag (pre ++ b) s),
                       find sg_mux_switch (pre ++ sigs)).
Proof.
  induction sigs as [|s sigs IH]; intros sw pre Hsw.
  - cbn. rewrite app_nil_r. congruence.
  - cbn [mux_loop1]. rewrite at_each_cons, app_nil_r.
    rewrite (at_each_ext _ _ sigs _ (fun b y _ => mux_switch_diag ((pre ++ [s]) ++ b) y)).
    2:{ intros b y a _. rewrite <- app_assoc. reflexivity. }
    replace (pre ++ s :: sigs) with ((pre ++ [s]) ++ sigs) by (rewrite <- app_assoc; reflexivity).
    unfold mux_switch_diag at 1. rewrite find_existsb, <- Hsw.
    destruct (sg_mux_switch s) eqn:Em; cbn [negb].
    + destruct sw as [s0|].
      * rewrite (IH (Some s0) (pre ++ [s])); [reflexivity|]. rewrite find_app, <- Hsw. reflexivity.
      * rewrite (IH (Some s) (pre ++ [s])).
        2:{ rewrite find_app, <- Hsw. cbn. rewrite Em. reflexivity. }
        destruct (sg_signed s); [reflexivity|]. destruct (sg_multiplexed s); reflexivity.
    + rewrite (IH sw (pre ++ [s])); [reflexivity|].
      rewrite find_app, <- Hsw. cbn. rewrite Em. destruct sw; reflexivity.
Qed.

Lemma mux_max_value_limit : forall size, mux_max_value size = mux_limit size.
Proof.
  intro size. unfold mux_max_value, mux_limit.
  destruct (Z.ltb_spec size 64) as [Hlt|Hge]; destruct (Z.leb_spec 0 size) as [Hnn|Hneg]; cbn [andb].
  - apply Z.mod_small.
    assert (0 < 2 ^ size) by (apply Z.pow_pos_nonneg; lia).
    assert (2 ^ size <= 2 ^ 63) by (apply Z.pow_le_mono_r; lia). lia.
  - rewrite Z.pow_neg_r by lia. reflexivity.
  - reflexivity.
  - reflexivity.
Qed.

Lemma multiplexedsignals_message_spec : forall m,
  multiplexedsignals_message m = mux_switch_diags (m_signals m) ++ mux_multiplexed_diags (m_signals m).
Proof.
  intro m. unfold multiplexedsignals_message. rewrite (mux_loop1_spec (m_signals m) None []); [|reflexivity].
  cbn [app]. f_equal. unfold mux_loop2, mux_multiplexed_diags, for_each. apply flat_map_ext.
  intro s. destruct (sg_multiplexed s); cbn [negb]; [|reflexivity].
  destruct (find sg_mux_switch (m_signals m)); [|reflexivity]. rewrite mux_max_value_limit. reflexivity.
Qed.

Theorem multiplexedsignals_correct : forall f, multiplexedsignals_run f = Ok (multiplexedsignals_spec f).
Proof.
  intro f. unfold multiplexedsignals_run, multiplexedsignals_spec. f_equal. apply message_loop_spec.
  exact multiplexedsignals_message_spec.
Qed.

Theorem multiplexedsignals_clean : forall f, multiplexedsignals_spec f = [] <-> multiplexedsignals_rule f.
Proof.
  intro f. unfold multiplexedsignals_spec, multiplexedsignals_rule. rewrite per_message_nil_iff.
  split; intros H m Hm; specialize (H m Hm).
  - apply app_eq_nil in H. destruct H as [H1 H2]. split.
    + unfold mux_switch_diags in H1. rewrite at_each_nil_iff in H1.
      intros b s a E Em. specialize (H1 b s a E). rewrite Em in H1. cbn [negb] in H1.
      destruct (existsb sg_mux_switch b) eqn:Eb; [discriminate|].
      destruct (sg_signed s); [discriminate|]. destruct (sg_multiplexed s); [discriminate|].
      repeat split. apply existsb_false_iff. exact Eb.
    + unfold mux_multiplexed_diags in H2. rewrite flat_map_nil_iff in H2.
      intros s Hs Emx. specialize (H2 s Hs). rewrite Emx in H2. cbn [negb] in H2.
      destruct (find sg_mux_switch (m_signals m)) as [s0|]; [|discriminate].
      exists s0. split; [reflexivity|].
      destruct (mux_limit (sg_size s0) <? sg_mux_value s) eqn:El; [discriminate|]. apply Z.ltb_ge in El. exact El.
  - destruct H as [H1 H2]. apply app_eq_nil_iff'.
    + unfold mux_switch_diags. apply at_each_nil_iff. intros b s a E.
      destruct (sg_mux_switch s) eqn:Em; cbn [negb]; [|reflexivity].
      destruct (H1 b s a E Em) as [Hb [Hs Hx]].
      apply existsb_false_iff in Hb. rewrite Hb, Hs, Hx. reflexivity.
    + unfold mux_multiplexed_diags. apply flat_map_nil_iff. intros s Hs.
      destruct (sg_multiplexed s) eqn:Emx; cbn [negb]; [|reflexivity].
      destruct (H2 s Hs Emx) as [s0 [Ef Hle]]. rewrite Ef.
      replace (mux_limit (sg_size s0) <? sg_mux_value s) with false by (symmetry; apply Z.ltb_ge; exact Hle).
      reflexivity.
Qed.

(* ------------------------------------------------------------------------------------------ *)
(** * F6: the old intervals pass reports a FLOAT attribute interval twice *)
Definition f6_attribute : attribute_def :=
  {| ad_pos := pos_1_1; ad_object := OtUnspecified; ad_name := [65]; ad_type := AtFloat;
     ad_min_int := 0; ad_max_int := 0;
     ad_min_float := 4621819117588971520 (* 10.0 *); ad_max_float := 0 (* 0.0 *);
     ad_enum_values := [] |}.
Definition f6_file : file := {| f_data := []; f_defs := [DAttribute f6_attribute] |}.

Theorem intervals_old_refuted :
  intervals_run_old f6_file =
    Ok [diag pos_1_1 (MIntervalInt 0 0); diag pos_1_1 (MIntervalFloat 4621819117588971520 0)]
  /\ intervals_spec f6_file = [diag pos_1_1 (MIntervalFloat 4621819117588971520 0)]
  /\ intervals_run f6_file = Ok (intervals_spec f6_file).
Proof. repeat split; vm_compute; reflexivity. Qed.

(** the old and the fixed pass agree on every file whose attribute float intervals are valid *)
Theorem intervals_old_agrees : forall f,
  (forall a, In (DAttribute a) (f_defs f) -> f64_gt (ad_min_float a) (ad_max_float a) = false) ->
  intervals_run_old f = intervals_run f.
Proof.
  intros f H. unfold intervals_run_old, intervals_run, intervals_with, for_each. f_equal.
  apply flat_map_ext_in'. intros d Hd. destruct d; try reflexivity.
  unfold intervals_attribute_old, intervals_attribute. rewrite (H _ Hd), orb_false_r. reflexivity.
Qed.

(* ------------------------------------------------------------------------------------------ *)
(** * Sanity of the float order used by intervals *)
Lemma f64_gt_irrefl : forall a, f64_gt a a = false.
Proof. intro a. unfold f64_gt. rewrite Z.ltb_irrefl. apply andb_false_r. Qed.

Lemma f64_gt_asym : forall a b, f64_gt a b = true -> f64_gt b a = false.
Proof.
  intros a b. unfold f64_gt. rewrite !andb_true_iff. intros [_ H]. apply Z.ltb_lt in H.
  replace (f64_key a <? f64_key b) with false by (symmetry; apply Z.ltb_ge; lia). apply andb_false_r.
Qed.

Lemma f64_gt_trans : forall a b c, f64_gt a b = true -> f64_gt b c = true -> f64_gt a c = true.
Proof.
  intros a b c. unfold f64_gt. rewrite !andb_true_iff, !Z.ltb_lt. intros [[Ha Hb] H1] [[_ Hc] H2].
  repeat split; try assumption. lia.
Qed.

Lemma f64_gt_nan : forall a b, f64_is_nan a = true \/ f64_is_nan b = true -> f64_gt a b = false.
Proof. intros a b [H|H]; unfold f64_gt; rewrite H; cbn; [reflexivity|]. destruct (f64_is_nan a); reflexivity. Qed.

(* ------------------------------------------------------------------------------------------ *)
(** * All 20 analyzers *)
Section All.
  Variable uni_digit : Z -> bool.
  Variable uni_upper : Z -> bool.
  Hypothesis uni_upper_ascii :
    forall r, is_alpha_char r || is_num_char r = true -> uni_upper r = is_upper_ascii r.

  (** soundness, completeness, multiplicity and order in one equation *)
  Theorem run_correct : forall a f, run uni_digit uni_upper a f = Ok (spec_diagnostics uni_digit a f).
  Proof.
    intros a f. destruct a; cbn [run spec_diagnostics].
    - apply boolprefix_correct.
    - apply definitiontypeorder_correct.
    - apply intervals_correct.
    - apply lineendings_correct.
    - apply messagenames_correct. exact uni_upper_ascii.
    - apply multiplexedsignals_correct.
    - apply newsymbols_correct.
    - apply nodereferences_correct.
    - apply noreservedsignals_correct.
    - apply requireddefinitions_correct.
    - apply signalbounds_correct.
    - apply signalnames_correct. exact uni_upper_ascii.
    - apply singletondefinitions_correct.
    - apply siunits_correct.
    - apply uniquemessageids_correct.
    - apply uniquenodenames_correct.
    - apply uniquesignalnames_correct.
    - apply unitsuffixes_correct.
    - apply valuedescriptions_correct. exact uni_upper_ascii.
    - apply version_correct.
  Qed.

  Theorem spec_clean : forall a f, spec_diagnostics uni_digit a f = [] <-> rule uni_digit a f.
  Proof.
    intros a f. destruct a; cbn [rule spec_diagnostics].
    - apply boolprefix_clean.
    - apply definitiontypeorder_clean.
    - apply intervals_clean.
    - apply lineendings_clean.
    - apply messagenames_clean.
    - apply multiplexedsignals_clean.
    - apply newsymbols_clean.
    - apply nodereferences_clean.
    - apply noreservedsignals_clean.
    - apply requireddefinitions_clean.
    - apply signalbounds_clean.
    - apply signalnames_clean.
    - apply singletondefinitions_clean.
    - apply siunits_clean.
    - apply uniquemessageids_clean.
    - apply uniquenodenames_clean.
    - apply uniquesignalnames_clean.
    - apply unitsuffixes_clean.
    - apply valuedescriptions_clean.
    - apply version_clean.
  Qed.

  Theorem run_clean : forall a f, run uni_digit uni_upper a f = Ok [] <-> rule uni_digit a f.
  Proof.
    intros a f. rewrite run_correct, <- spec_clean. split; [intro H; inversion H; reflexivity|intros ->; reflexivity].
  Qed.

  Theorem run_no_panic : forall a f, run uni_digit uni_upper a f <> Panic.
  Proof. intros a f. rewrite run_correct. discriminate. Qed.

  (** the empty file: no analyzer panics; only requireddefinitions reports (at 1:1) *)
  Theorem run_empty_file : forall a,
    run uni_digit uni_upper a empty_file =
    Ok (match a with ARequiredDefinitions => [diag pos_1_1 MMissingRequired] | _ => [] end).
  Proof. intro a. destruct a; reflexivity. Qed.
End All.

(** before the fixes the statement [run_no_panic] was false (F5) and [run_correct] was false (F6) *)
Theorem run_old_refuted : forall uni_digit uni_upper,
  run_old uni_digit uni_upper ARequiredDefinitions empty_file = Panic
  /\ run_old uni_digit uni_upper AIntervals f6_file <> Ok (spec_diagnostics uni_digit AIntervals f6_file).
Proof.
  intros ud uu. split; [reflexivity|]. cbn [run_old spec_diagnostics].
  destruct intervals_old_refuted as [H1 [H2 _]]. rewrite H1, H2. intro H. inversion H.
Qed.
