(** generate.Compile as a function of the TEXT of a DBC file (property C05, end to end):
    [compile_text] = the parser model (Dbc/Parser.v, tied to pkg/dbc by the checks of C04/C12 and by
    the text stream of the C05 check) followed by the compile model (Dbc/Compile.v), exactly the two
    steps of generate.Compile (compile.go:17-31).

    DEFINITIONS ONLY; the theorems are in Dbc/CompileTextProofs.v.  They chain the round-trip theorem of C04 (Dbc/RoundTrip.v: the parser reads a
    printed source file back as the definitions it denotes, [elaborate]) with the theorems of C05
    (Dbc/CompileProofs.v: on the compile class the compiled database is the denoted one, canonically
    ordered).  Their value: the reference is the source TEXT ([print cr ds], the literal digits and
    strings the user wrote), not the definitions some parser produced.

    Both theories use the same type of parsed definitions ([Dbc.Ast.def]), so no conversion is
    needed: [elaborate cr ds : list def] is directly the input of [compile].
    Bytes are [Z] in 0..255, texts are [list Z]. *)
From Coq Require Import ZArith List.
From CanVerif Require Import Dbc.Ast Descriptor.Types Dbc.Parser Dbc.Compile.
Import ListNotations.
Open Scope Z_scope.

(** the definitions a text parses to ([None]: Parse() returned an error, generate.Compile returns
    "failed to parse DBC source file") *)
Definition text_defs (il id : Z -> bool) (text : bytes) : option (list def) :=
  match parse_bytes il id text with
  | Ok defs => Some defs
  | _ => None
  end.

(** generate.Compile(source, text): (Database, Warnings) or an error *)
Definition compile_text (il id : Z -> bool) (source text : bytes) : option (database * list warning) :=
  match text_defs il id text with
  | Some defs => Some (compile source defs)
  | None => None
  end.
