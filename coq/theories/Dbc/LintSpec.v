(** Declarative specification of the 20 lint rules (property C18), written from the Doc string,
    the comments and the table tests of each pass, WITHOUT loops that carry state: every rule is
    given twice,

      [X_rule f : Prop]          what a file must satisfy (logic: forall / exists / In / NoDup),
      [X_spec f : list diagnostic]  the diagnostics the pass owes for [f], in order, built only from
                                 [map], [filter], [flat_map], [existsb], [find] and [at_each]
                                 ("for each element, given the elements before and after it").

    LintProofs.v proves for every file  X_run f = Ok (X_spec f)  and  X_spec f = [] <-> X_rule f.

    The rules (position of the report in brackets):
      boolprefix            a 1-bit signal whose name starts with neither "Is" nor "Has" and for which no
                            VAL_ of the file has its message ID and signal name [signal]
      definitiontypeorder   a definition such that a LATER definition has a strictly smaller rank in
                            VERSION NS_ BS_ BU_ VAL_TABLE_ BO_ BO_TX_BU_ EV_ ENVVAR_DATA_ CM_ BA_DEF_
                            BA_DEF_DEF_ BA_ VAL_ (all other kinds rank last); reports in reverse file
                            order [definition]
      intervals             EV_ with min > max [EV_]; each signal with min > max [its MESSAGE]; BA_DEF_
                            with int min > max, and BA_DEF_ with float min > max [BA_DEF_]
      lineendings           the raw bytes contain CR LF: one report [1:1]
      messagenames          BO_ whose name is not CamelCase [message]
      multiplexedsignals    per message: an 'M' signal after another 'M' signal; the first 'M' signal if
                            signed, else if it is also multiplexed; then each 'm<k>' signal when the
                            message has no 'M' signal, else when k > 2^size(first 'M') - 1 [signal]
      newsymbols            NS_ with at least one symbol [definition]
      nodereferences        each reference to a node that is neither Vector__XXX nor listed in a BU_ of
                            the file: message transmitter [message], signal receiver [signal], EV_
                            access node [EV_], BO_TX_BU_ transmitter [definition]
      noreservedsignals     signal whose name starts with "Reserved" [signal]
      requireddefinitions   no BS_ or no BU_ in the file: one report [first definition; 1:1 when the
                            file has no definition]
      signalbounds          signal of a non-pseudo message with start bit >= 8 * message size
                            (uint64 product) [signal]
      signalnames           signal whose name is not CamelCase [signal]
      singletondefinitions  for VERSION, NS_, BS_, BU_ (in this order): every definition of the kind that
                            has an earlier one of the same kind [definition]
      siunits               signal whose unit is kph, mps, meters/sec, meters, deg, degrees, radians [signal]
      uniquemessageids      non-pseudo BO_ whose ID equals that of an earlier non-pseudo BO_ [message]
      uniquenodenames       each node-name occurrence in a BU_ that already occurred earlier (in the same
                            or an earlier BU_) [the BU_]
      uniquesignalnames     per non-pseudo message, a signal whose name equals that of an earlier signal
                            of the message [signal]
      unitsuffixes          signal with unit "°", rad, %, km/h, m/s whose name lacks the suffix Degrees,
                            Radians, Percent, Kph, Mps respectively [signal]
      valuedescriptions     each value description of a VAL_TABLE_/VAL_ whose text is not CamelCase
                            [value position, column + len(decimal int64(value)) + 2]
      version               VERSION with a non-empty string [definition]

    CamelCase: after dropping every rune that unicode.IsDigit accepts, the first remaining rune is in
    A..Z and all others are ASCII letters or digits (the empty string is CamelCase).

    "pseudo message" = VECTOR__INDEPENDENT_SIG_MSG with ID 0xC0000000 and size 0. *)
From Coq Require Import String.
From Coq Require Import ZArith List Bool.
From CanVerif Require Import Dbc.Ast Dbc.Lint.
Import ListNotations.
Open Scope Z_scope.

(* ------------------------------------------------------------------------------------------ *)
(** * Vocabulary *)

(** [at_each l f]: the concatenation, in order, of [f before x after] over every element [x] of [l]
    with the elements before and after it *)
Definition at_each {A B : Type} (l : list A) (f : list A -> A -> list A -> list B) : list B :=
  flat_map (fun i => match nth_error l i with
                     | Some x => f (firstn i l) x (skipn (S i) l)
                     | None => []
                     end) (seq 0 (length l)).

(** one diagnostic for every element that matches (by [same]) an earlier element *)
Definition later_duplicates {A : Type} (same : A -> A -> bool) (mk : A -> diagnostic) (l : list A)
  : list diagnostic :=
  at_each l (fun before x _ => if existsb (same x) before then [mk x] else []).

Definition per_message (defs : list def) (g : message_def -> list diagnostic) : list diagnostic :=
  flat_map (fun d => match d with DMessage m => g m | _ => [] end) defs.

(** one diagnostic for every signal of [m] satisfying [bad] *)
Definition signals_where (bad : signal_def -> bool) (mk : signal_def -> diagnostic) (m : message_def)
  : list diagnostic := map mk (filter bad (m_signals m)).

Definition starts_with (p s : bytes) : Prop := exists rest, s = p ++ rest.
Definition ends_with (x s : bytes) : Prop := exists front, s = front ++ x.

Definition pseudo (m : message_def) : bool := is_independent_signals_message m.

(** the non-pseudo messages of a file, in order *)
Definition real_messages (defs : list def) : list message_def :=
  flat_map (fun d => match d with DMessage m => if pseudo m then [] else [m] | _ => [] end) defs.

(* ------------------------------------------------------------------------------------------ *)
(** * CamelCase *)
Section Spec.
  Variable uni_digit : Z -> bool.

  Definition is_upper_ascii (r : Z) : bool := (65 <=? r) && (r <=? 90).
  Definition camel_case (s : bytes) : bool :=
    match filter (fun r => negb (uni_digit r)) (utf8_runes s) with
    | [] => true
    | r :: rest => is_upper_ascii r && forallb (fun r => is_alpha_char r || is_num_char r) rest
    end.

  (** ** messagenames *)
  Definition messagenames_spec (f : file) : list diagnostic :=
    per_message (f_defs f) (fun m => if camel_case (m_name m) then [] else [diag (m_pos m) MMessageName]).
  Definition messagenames_rule (f : file) : Prop :=
    forall m, In (DMessage m) (f_defs f) -> camel_case (m_name m) = true.

  (** ** signalnames *)
  Definition signalnames_spec (f : file) : list diagnostic :=
    per_message (f_defs f)
      (signals_where (fun s => negb (camel_case (sg_name s))) (fun s => diag (sg_pos s) MSignalName)).
  Definition signalnames_rule (f : file) : Prop :=
    forall m s, In (DMessage m) (f_defs f) -> In s (m_signals m) -> camel_case (sg_name s) = true.

  (** ** valuedescriptions *)
  Definition values_of (d : def) : list value_description_def :=
    match d with
    | DValueTable _ _ vds => vds
    | DValueDescriptions v => vs_values v
    | _ => []
    end.
  (** the marker is moved from the value onto the description: "<value> <quote><description>" *)
  Definition description_pos (vd : value_description_def) : position :=
    {| p_line := p_line (vd_pos vd);
       p_column := p_column (vd_pos vd) + decimal_len (f64_to_int64 (vd_value vd)) + 2;
       p_offset := p_offset (vd_pos vd) |}.
  Definition valuedescriptions_spec (f : file) : list diagnostic :=
    flat_map (fun d =>
      map (fun vd => diag (description_pos vd) MValueDescription)
          (filter (fun vd => negb (camel_case (vd_description vd))) (values_of d))) (f_defs f).
  Definition valuedescriptions_rule (f : file) : Prop :=
    forall d vd, In d (f_defs f) -> In vd (values_of d) -> camel_case (vd_description vd) = true.
End Spec.

(* ------------------------------------------------------------------------------------------ *)
(** * boolprefix *)
Definition val_for (id : Z) (name : bytes) (d : def) : bool :=
  match d with
  | DValueDescriptions v => (vs_message_id v =? id) && bytes_eqb (vs_signal v) name
  | _ => false
  end.
Definition boolprefix_bad (defs : list def) (m : message_def) (s : signal_def) : bool :=
  (sg_size s =? 1) && negb (has_prefix prefix_is (sg_name s)) && negb (has_prefix prefix_has (sg_name s))
  && negb (existsb (val_for (m_id m) (sg_name s)) defs).
Definition boolprefix_spec (f : file) : list diagnostic :=
  per_message (f_defs f) (fun m =>
    signals_where (boolprefix_bad (f_defs f) m) (fun s => diag (sg_pos s) MBoolPrefix) m).
Definition boolprefix_rule (f : file) : Prop :=
  forall m s, In (DMessage m) (f_defs f) -> In s (m_signals m) -> sg_size s = 1 ->
    starts_with prefix_is (sg_name s) \/ starts_with prefix_has (sg_name s) \/
    exists v, In (DValueDescriptions v) (f_defs f) /\ vs_message_id v = m_id m /\ vs_signal v = sg_name s.

(* ------------------------------------------------------------------------------------------ *)
(** * definitiontypeorder *)
Definition rank (d : def) : Z :=
  match d with
  | DVersion _ _ => 0 | DNewSymbols _ _ => 1 | DBitTiming _ _ _ _ => 2 | DNodes _ _ => 3
  | DValueTable _ _ _ => 4 | DMessage _ => 5 | DMessageTransmitters _ _ _ => 6 | DEnvVar _ => 7
  | DEnvVarData _ _ _ => 8 | DComment _ => 9 | DAttribute _ => 10 | DAttributeDefault _ => 11
  | DAttributeValue _ => 12 | DValueDescriptions _ => 13
  | DSignal _ | DSignalValueType _ _ _ _ | DUnknown _ _ => 2 ^ 64 - 1
  end.
Definition definitiontypeorder_spec (f : file) : list diagnostic :=
  rev (at_each (f_defs f) (fun _ d later =>
    if existsb (fun d' => rank d' <? rank d) later then [diag (def_pos d) MOutOfOrder] else [])).
Definition definitiontypeorder_rule (f : file) : Prop :=
  forall before d after, f_defs f = before ++ d :: after -> forall d', In d' after -> rank d <= rank d'.

(* ------------------------------------------------------------------------------------------ *)
(** * intervals *)
Definition intervals_spec (f : file) : list diagnostic :=
  flat_map (fun d =>
    match d with
    | DEnvVar e =>
      if f64_gt (ev_min e) (ev_max e) then [diag (ev_pos e) (MIntervalFloat (ev_min e) (ev_max e))] else []
    | DMessage m =>
      signals_where (fun s => f64_gt (sg_min s) (sg_max s))
                    (fun s => diag (m_pos m) (MIntervalFloat (sg_min s) (sg_max s))) m
    | DAttribute a =>
      (if ad_max_int a <? ad_min_int a then [diag (ad_pos a) (MIntervalInt (ad_min_int a) (ad_max_int a))] else [])
      ++ (if f64_gt (ad_min_float a) (ad_max_float a)
          then [diag (ad_pos a) (MIntervalFloat (ad_min_float a) (ad_max_float a))] else [])
    | _ => []
    end) (f_defs f).
Definition intervals_rule (f : file) : Prop :=
  (forall e, In (DEnvVar e) (f_defs f) -> f64_gt (ev_min e) (ev_max e) = false) /\
  (forall m s, In (DMessage m) (f_defs f) -> In s (m_signals m) -> f64_gt (sg_min s) (sg_max s) = false) /\
  (forall a, In (DAttribute a) (f_defs f) ->
     ad_min_int a <= ad_max_int a /\ f64_gt (ad_min_float a) (ad_max_float a) = false).

(* ------------------------------------------------------------------------------------------ *)
(** * lineendings *)
Definition has_crlf (data : bytes) : bool :=
  existsb (fun i => (nth i data 0 =? 13) && (nth (S i) data 0 =? 10)) (seq 0 (length data)).
Definition lineendings_spec (f : file) : list diagnostic :=
  if has_crlf (f_data f) then [diag pos_1_1 MLineEndings] else [].
Definition lineendings_rule (f : file) : Prop :=
  ~ exists front back, f_data f = front ++ 13 :: 10 :: back.

(* ------------------------------------------------------------------------------------------ *)
(** * multiplexedsignals *)
(** largest value of an unsigned field of [size] bits, in uint64 *)
Definition mux_limit (size : Z) : Z := if (0 <=? size) && (size <? 64) then 2 ^ size - 1 else 2 ^ 64 - 1.

Definition mux_switch_diags (sigs : list signal_def) : list diagnostic :=
  at_each sigs (fun before s _ =>
    if negb (sg_mux_switch s) then []
    else if existsb sg_mux_switch before then [diag (sg_pos s) MMuxMany]
    else if sg_signed s then [diag (sg_pos s) MMuxSigned]
    else if sg_multiplexed s then [diag (sg_pos s) MMuxBoth]
    else []).
Definition mux_multiplexed_diags (sigs : list signal_def) : list diagnostic :=
  flat_map (fun s =>
    if negb (sg_multiplexed s) then []
    else match find sg_mux_switch sigs with
         | None => [diag (sg_pos s) MMuxNoSwitch]
         | Some s0 => if mux_limit (sg_size s0) <? sg_mux_value s
                      then [diag (sg_pos s) (MMuxExceeds (mux_limit (sg_size s0)))] else []
         end) sigs.
Definition multiplexedsignals_spec (f : file) : list diagnostic :=
  per_message (f_defs f) (fun m => mux_switch_diags (m_signals m) ++ mux_multiplexed_diags (m_signals m)).
Definition multiplexedsignals_rule (f : file) : Prop :=
  forall m, In (DMessage m) (f_defs f) ->
    (forall before s after, m_signals m = before ++ s :: after -> sg_mux_switch s = true ->
       (forall s', In s' before -> sg_mux_switch s' = false) /\ sg_signed s = false /\ sg_multiplexed s = false)
    /\ (forall s, In s (m_signals m) -> sg_multiplexed s = true ->
          exists s0, find sg_mux_switch (m_signals m) = Some s0 /\ sg_mux_value s <= mux_limit (sg_size s0)).

(* ------------------------------------------------------------------------------------------ *)
(** * newsymbols *)
Definition newsymbols_spec (f : file) : list diagnostic :=
  flat_map (fun d => match d with
                     | DNewSymbols p (_ :: _) => [diag p MNewSymbols]
                     | _ => []
                     end) (f_defs f).
Definition newsymbols_rule (f : file) : Prop :=
  forall p syms, In (DNewSymbols p syms) (f_defs f) -> syms = [].

(* ------------------------------------------------------------------------------------------ *)
(** * nodereferences *)
Definition declared_in (defs : list def) (n : bytes) : bool :=
  bytes_eqb n node_placeholder
  || existsb (fun d => match d with DNodes _ names => existsb (bytes_eqb n) names | _ => false end) defs.
Definition Declared (defs : list def) (n : bytes) : Prop :=
  n = node_placeholder \/ exists p names, In (DNodes p names) defs /\ In n names.

Definition undeclared_of (defs : list def) (p : position) (mk : bytes -> msg) (names : list bytes)
  : list diagnostic :=
  map (fun n => diag p (mk n)) (filter (fun n => negb (declared_in defs n)) names).

Definition nodereferences_spec (f : file) : list diagnostic :=
  let defs := f_defs f in
  flat_map (fun d =>
    match d with
    | DMessage m =>
      undeclared_of defs (m_pos m) MUndeclTransmitter [m_transmitter m]
      ++ flat_map (fun s => undeclared_of defs (sg_pos s) MUndeclReceiver (sg_receivers s)) (m_signals m)
    | DEnvVar e => undeclared_of defs (ev_pos e) MUndeclAccess (ev_access_nodes e)
    | DMessageTransmitters p _ txs => undeclared_of defs p MUndeclTransmitter txs
    | _ => []
    end) defs.
Definition nodereferences_rule (f : file) : Prop :=
  let defs := f_defs f in
  (forall m, In (DMessage m) defs ->
     Declared defs (m_transmitter m) /\
     forall s n, In s (m_signals m) -> In n (sg_receivers s) -> Declared defs n) /\
  (forall e n, In (DEnvVar e) defs -> In n (ev_access_nodes e) -> Declared defs n) /\
  (forall p id txs n, In (DMessageTransmitters p id txs) defs -> In n txs -> Declared defs n).

(* ------------------------------------------------------------------------------------------ *)
(** * noreservedsignals *)
Definition noreservedsignals_spec (f : file) : list diagnostic :=
  per_message (f_defs f)
    (signals_where (fun s => has_prefix prefix_reserved (sg_name s)) (fun s => diag (sg_pos s) MReserved)).
Definition noreservedsignals_rule (f : file) : Prop :=
  forall m s, In (DMessage m) (f_defs f) -> In s (m_signals m) -> ~ starts_with prefix_reserved (sg_name s).

(* ------------------------------------------------------------------------------------------ *)
(** * requireddefinitions *)
Definition is_bit_timing (d : def) : bool := match d with DBitTiming _ _ _ _ => true | _ => false end.
Definition is_nodes (d : def) : bool := match d with DNodes _ _ => true | _ => false end.
Definition requireddefinitions_spec (f : file) : list diagnostic :=
  if existsb is_bit_timing (f_defs f) && existsb is_nodes (f_defs f) then []
  else [diag (match f_defs f with [] => pos_1_1 | d :: _ => def_pos d end) MMissingRequired].
Definition requireddefinitions_rule (f : file) : Prop :=
  (exists p baud b1 b2, In (DBitTiming p baud b1 b2) (f_defs f)) /\ (exists p names, In (DNodes p names) (f_defs f)).

(* ------------------------------------------------------------------------------------------ *)
(** * signalbounds *)
Definition signalbounds_spec (f : file) : list diagnostic :=
  per_message (f_defs f) (fun m =>
    if pseudo m then []
    else signals_where (fun s => (8 * m_size m) mod 2 ^ 64 <=? sg_start s) (fun s => diag (sg_pos s) MStartBit) m).
Definition signalbounds_rule (f : file) : Prop :=
  forall m s, In (DMessage m) (f_defs f) -> pseudo m = false -> In s (m_signals m) ->
    sg_start s < (8 * m_size m) mod 2 ^ 64.
(** the rule without the uint64 product, valid when every message size is below 2^61 bytes *)
Definition signalbounds_rule_unbounded (f : file) : Prop :=
  forall m s, In (DMessage m) (f_defs f) -> pseudo m = false -> In s (m_signals m) -> sg_start s < 8 * m_size m.

(* ------------------------------------------------------------------------------------------ *)
(** * singletondefinitions *)
Definition is_kind (k : def_kind) (d : def) : bool := kind_eqb (kind_of d) k.
Definition singletondefinitions_spec (f : file) : list diagnostic :=
  flat_map (fun k =>
    at_each (f_defs f) (fun before d _ =>
      if is_kind k d && existsb (is_kind k) before then [diag (def_pos d) MSingleton] else []))
    [KVersion; KNewSymbols; KBitTiming; KNodes].
Definition singletondefinitions_rule (f : file) : Prop :=
  forall k, In k [KVersion; KNewSymbols; KBitTiming; KNodes] ->
    (length (filter (is_kind k) (f_defs f)) <= 1)%nat.

(* ------------------------------------------------------------------------------------------ *)
(** * siunits *)
Definition non_si_units : list (bytes * bytes) := Eval compute in
  [(bytes_of_string "kph", bytes_of_string "km/h");
   (bytes_of_string "mps", bytes_of_string "m/s");
   (bytes_of_string "meters/sec", bytes_of_string "m/s");
   (bytes_of_string "meters", bytes_of_string "m");
   (bytes_of_string "deg", [194; 176]);
   (bytes_of_string "degrees", [194; 176]);
   (bytes_of_string "radians", bytes_of_string "rad")].
Definition siunits_spec (f : file) : list diagnostic :=
  per_message (f_defs f) (fun m =>
    flat_map (fun s => match lookup (sg_unit s) non_si_units with
                       | Some si => [diag (sg_pos s) (MSiUnit (sg_unit s) si)]
                       | None => []
                       end) (m_signals m)).
Definition siunits_rule (f : file) : Prop :=
  forall m s, In (DMessage m) (f_defs f) -> In s (m_signals m) -> ~ In (sg_unit s) (map fst non_si_units).

(* ------------------------------------------------------------------------------------------ *)
(** * uniquemessageids *)
Definition uniquemessageids_spec (f : file) : list diagnostic :=
  later_duplicates (fun m m' => m_id m' =? m_id m) (fun m => diag (m_pos m) MDupMessageID)
                   (real_messages (f_defs f)).
Definition uniquemessageids_rule (f : file) : Prop := NoDup (map m_id (real_messages (f_defs f))).

(* ------------------------------------------------------------------------------------------ *)
(** * uniquenodenames *)
(** every node-name occurrence of the file with the position of its BU_ *)
Definition node_occurrences (defs : list def) : list (position * bytes) :=
  flat_map (fun d => match d with DNodes p names => map (pair p) names | _ => [] end) defs.
Definition uniquenodenames_spec (f : file) : list diagnostic :=
  later_duplicates (fun o o' => bytes_eqb (snd o) (snd o')) (fun o => diag (fst o) MDupNodeName)
                   (node_occurrences (f_defs f)).
Definition uniquenodenames_rule (f : file) : Prop := NoDup (map snd (node_occurrences (f_defs f))).

(* ------------------------------------------------------------------------------------------ *)
(** * uniquesignalnames *)
Definition uniquesignalnames_spec (f : file) : list diagnostic :=
  per_message (f_defs f) (fun m =>
    if pseudo m then []
    else later_duplicates (fun s s' => bytes_eqb (sg_name s) (sg_name s'))
                          (fun s => diag (sg_pos s) MDupSignalName) (m_signals m)).
Definition uniquesignalnames_rule (f : file) : Prop :=
  forall m, In (DMessage m) (f_defs f) -> pseudo m = false -> NoDup (map sg_name (m_signals m)).

(* ------------------------------------------------------------------------------------------ *)
(** * unitsuffixes *)
Definition suffix_of_unit : list (bytes * bytes) := Eval compute in
  [([194; 176], bytes_of_string "Degrees");
   (bytes_of_string "rad", bytes_of_string "Radians");
   (bytes_of_string "%", bytes_of_string "Percent");
   (bytes_of_string "km/h", bytes_of_string "Kph");
   (bytes_of_string "m/s", bytes_of_string "Mps")].
Definition unitsuffixes_spec (f : file) : list diagnostic :=
  per_message (f_defs f) (fun m =>
    flat_map (fun s => match lookup (sg_unit s) suffix_of_unit with
                       | Some suffix => if has_suffix suffix (sg_name s) then []
                                        else [diag (sg_pos s) (MUnitSuffix (sg_unit s) suffix)]
                       | None => []
                       end) (m_signals m)).
Definition unitsuffixes_rule (f : file) : Prop :=
  forall m s suffix, In (DMessage m) (f_defs f) -> In s (m_signals m) ->
    In (sg_unit s, suffix) suffix_of_unit -> ends_with suffix (sg_name s).

(* ------------------------------------------------------------------------------------------ *)
(** * version *)
Definition version_spec (f : file) : list diagnostic :=
  flat_map (fun d => match d with
                     | DVersion p (_ :: _) => [diag p MVersion]
                     | _ => []
                     end) (f_defs f).
Definition version_rule (f : file) : Prop := forall p v, In (DVersion p v) (f_defs f) -> v = [].

(* ------------------------------------------------------------------------------------------ *)
(** * all analyzers *)
Definition spec_diagnostics (uni_digit : Z -> bool) (a : analyzer) (f : file) : list diagnostic :=
  match a with
  | ABoolPrefix => boolprefix_spec f
  | ADefinitionTypeOrder => definitiontypeorder_spec f
  | AIntervals => intervals_spec f
  | ALineEndings => lineendings_spec f
  | AMessageNames => messagenames_spec uni_digit f
  | AMultiplexedSignals => multiplexedsignals_spec f
  | ANewSymbols => newsymbols_spec f
  | ANodeReferences => nodereferences_spec f
  | ANoReservedSignals => noreservedsignals_spec f
  | ARequiredDefinitions => requireddefinitions_spec f
  | ASignalBounds => signalbounds_spec f
  | ASignalNames => signalnames_spec uni_digit f
  | ASingletonDefinitions => singletondefinitions_spec f
  | ASiUnits => siunits_spec f
  | AUniqueMessageIDs => uniquemessageids_spec f
  | AUniqueNodeNames => uniquenodenames_spec f
  | AUniqueSignalNames => uniquesignalnames_spec f
  | AUnitSuffixes => unitsuffixes_spec f
  | AValueDescriptions => valuedescriptions_spec uni_digit f
  | AVersion => version_spec f
  end.

Definition rule (uni_digit : Z -> bool) (a : analyzer) (f : file) : Prop :=
  match a with
  | ABoolPrefix => boolprefix_rule f
  | ADefinitionTypeOrder => definitiontypeorder_rule f
  | AIntervals => intervals_rule f
  | ALineEndings => lineendings_rule f
  | AMessageNames => messagenames_rule uni_digit f
  | AMultiplexedSignals => multiplexedsignals_rule f
  | ANewSymbols => newsymbols_rule f
  | ANodeReferences => nodereferences_rule f
  | ANoReservedSignals => noreservedsignals_rule f
  | ARequiredDefinitions => requireddefinitions_rule f
  | ASignalBounds => signalbounds_rule f
  | ASignalNames => signalnames_rule uni_digit f
  | ASingletonDefinitions => singletondefinitions_rule f
  | ASiUnits => siunits_rule f
  | AUniqueMessageIDs => uniquemessageids_rule f
  | AUniqueNodeNames => uniquenodenames_rule f
  | AUniqueSignalNames => uniquesignalnames_rule f
  | AUnitSuffixes => unitsuffixes_rule f
  | AValueDescriptions => valuedescriptions_rule uni_digit f
  | AVersion => version_rule f
  end.

(** the empty file (no bytes, no definitions) *)
Definition empty_file : file := {| f_data := []; f_defs := [] |}.
