(** The decimal -> binary64 conversion of Dbc/DecFloat.v is the correctly rounded one: link of
    [dec_to_spec] / [bin_to_spec] (written with Coq's Floats.SpecFloat operations) to Flocq's
    rounding operator on the reals. *)
From Coq Require Import ZArith Reals Lia Floats.SpecFloat.
From Flocq Require Import Core.Core IEEE754.BinarySingleNaN IEEE754.PrimFloat.
From Flocq Require IEEE754.Binary IEEE754.Bits.
From CanVerif Require Import Dbc.DecFloat.

Local Open Scope R_scope.

Definition radix10 : radix := Build_radix 10 (refl_equal true).

(** round to nearest, ties to even, in binary64 with gradual underflow (emin = -1074) *)
Definition rnd64 (x : R) : R := round radix2 (FLT_exp (-1074) 53) ZnearestE x.

Local Instance Hprec64 : FLX.Prec_gt_0 53 := eq_refl _.
Local Instance Hmax64 : Prec_lt_emax 53 1024 := eq_refl _.

Lemma fexp64 : SpecFloat.fexp 53 1024 = FLT_exp (-1074) 53.
Proof. reflexivity. Qed.


Lemma bpow10_nonneg : forall e, (0 <= e)%Z -> bpow radix10 e = IZR (10 ^ e).
Proof. intros e He. rewrite <- (IZR_Zpower radix10 e He). reflexivity. Qed.

Lemma bpow10_neg : forall e, (e < 0)%Z -> bpow radix10 e = / IZR (10 ^ (- e)).
Proof.
  intros e He. replace e with (- (- e))%Z at 1 by lia. rewrite bpow_opp.
  rewrite <- (IZR_Zpower radix10 (- e)) by lia. reflexivity.
Qed.

Lemma overflow_NE : forall s, binary_overflow 53 1024 mode_NE s = S754_infinity s.
Proof. reflexivity. Qed.

(** [dec_to_spec m e] is the binary64 nearest (ties to even) to m * 10^e; it is infinite exactly
    when that rounded value reaches 2^1024 *)
Theorem dec_to_spec_correct : forall (m : positive) (e : Z),
  let x := IZR (Zpos m) * bpow radix10 e in
  if Rlt_bool (Rabs (rnd64 x)) (bpow radix2 1024) then
    SF2R radix2 (dec_to_spec m e) = rnd64 x /\ is_finite_SF (dec_to_spec m e) = true
  else dec_to_spec m e = S754_infinity false.
Proof.
  intros m e x. unfold dec_to_spec. destruct (0 <=? e)%Z eqn:Ee.
  - apply Z.leb_le in Ee.
    change (SpecFloat.binary_normalize 53 1024 (Z.pos m * 10 ^ e) 0 false)
      with (SpecFloat.binary_normalize FloatOps.prec FloatOps.emax (Z.pos m * 10 ^ e) 0 false).
    rewrite binary_normalize_equiv.
    pose proof (binary_normalize_correct 53 1024 Hprec Hmax mode_NE (Z.pos m * 10 ^ e) 0 false) as H.
    cbv zeta in H.
    assert (Ex : F2R (Float radix2 (Z.pos m * 10 ^ e) 0) = x).
    { unfold F2R, x. cbn [Fnum Fexp bpow]. rewrite Rmult_1_r, mult_IZR, bpow10_nonneg by assumption. reflexivity. }
    rewrite Ex in H. change (round radix2 (fexp 53 1024) (round_mode mode_NE) x) with (rnd64 x) in H.
    destruct (Rlt_bool (Rabs (rnd64 x)) (bpow radix2 1024)).
    + destruct H as (H1 & H2 & _). split.
      * rewrite <- H1. unfold B2R. destruct (binary_normalize _ _ _ _ _ _ _ _); reflexivity.
      * rewrite <- H2. destruct (binary_normalize _ _ _ _ _ _ _ _); reflexivity.
    + change FloatOps.prec with 53%Z. change FloatOps.emax with 1024%Z. rewrite H, overflow_NE. f_equal.
      apply Rlt_bool_false. unfold x. apply Rmult_le_pos; [apply IZR_le; lia|apply bpow_ge_0].
  - apply Z.leb_gt in Ee.
    assert (Hp : exists p, (10 ^ (- e))%Z = Z.pos p).
    { assert (0 < 10 ^ (- e))%Z by (apply Z.pow_pos_nonneg; lia). destruct (10 ^ (- e))%Z; try lia. eexists; reflexivity. }
    destruct Hp as (p & Hp). rewrite Hp.
    pose proof (Bdiv_correct_aux 53 1024 Hprec Hmax mode_NE false m 0 false p 0) as H. cbv zeta in H.
    destruct (SFdiv_core_binary 53 1024 (Z.pos m) 0 (Z.pos p) 0) as [[q e'] l].
    change (SpecFloat.binary_round_aux 53 1024 false q e' l)
      with (SpecFloat.binary_round_aux FloatOps.prec FloatOps.emax false q e' l).
    rewrite binary_round_aux_equiv. change FloatOps.prec with 53%Z. change FloatOps.emax with 1024%Z.
    cbn [xorb cond_Zopp] in H.
    assert (Ex : F2R (Float radix2 (Z.pos m) 0) / F2R (Float radix2 (Z.pos p) 0) = x).
    { unfold F2R, x, Rdiv. cbn [Fnum Fexp bpow]. rewrite !Rmult_1_r, bpow10_neg, Hp by assumption. reflexivity. }
    rewrite Ex in H. change (round radix2 (fexp 53 1024) (round_mode mode_NE) x) with (rnd64 x) in H.
    destruct H as (_ & H). destruct (Rlt_bool (Rabs (rnd64 x)) (bpow radix2 1024)).
    + destruct H as (H1 & H2 & _). split; assumption.
    + rewrite H. apply overflow_NE.
Qed.

(** the same for hexadecimal literals: [bin_to_spec m e] is the binary64 nearest to m * 2^e *)
Theorem bin_to_spec_correct : forall (m : positive) (e : Z),
  let x := IZR (Zpos m) * bpow radix2 e in
  if Rlt_bool (Rabs (rnd64 x)) (bpow radix2 1024) then
    SF2R radix2 (bin_to_spec m e) = rnd64 x /\ is_finite_SF (bin_to_spec m e) = true
  else bin_to_spec m e = S754_infinity false.
Proof.
  intros m e x. unfold bin_to_spec.
  change (SpecFloat.binary_normalize 53 1024 (Z.pos m) e false)
    with (SpecFloat.binary_normalize FloatOps.prec FloatOps.emax (Z.pos m) e false).
  rewrite binary_normalize_equiv.
  pose proof (binary_normalize_correct 53 1024 Hprec Hmax mode_NE (Z.pos m) e false) as H.
  cbv zeta in H. change (F2R (Float radix2 (Z.pos m) e)) with x in H.
  change (round radix2 (fexp 53 1024) (round_mode mode_NE) x) with (rnd64 x) in H.
  destruct (Rlt_bool (Rabs (rnd64 x)) (bpow radix2 1024)).
  - destruct H as (H1 & H2 & _). split.
    + rewrite <- H1. unfold B2R. destruct (binary_normalize _ _ _ _ _ _ _ _); reflexivity.
    + rewrite <- H2. destruct (binary_normalize _ _ _ _ _ _ _ _); reflexivity.
  - change FloatOps.prec with 53%Z. change FloatOps.emax with 1024%Z. rewrite H, overflow_NE. f_equal.
    apply Rlt_bool_false. unfold x. apply Rmult_le_pos; [apply IZR_le; lia|apply bpow_ge_0].
Qed.

(** the bit pattern computed by [b64_bits_of_spec] is the IEEE-754 binary64 encoding (Flocq's
    [bits_of_binary_float 52 11]) *)
Theorem b64_bits_of_spec_encoding : forall s m e (H : SpecFloat.bounded 53 1024 m e = true),
  b64_bits_of_spec (S754_finite s m e)
  = Some (Bits.bits_of_binary_float 52 11 (Binary.B754_finite 53 1024 s m e H)).
Proof.
  intros s m e H. unfold b64_bits_of_spec, Bits.bits_of_binary_float, Bits.join_bits. f_equal.
  change (Zpower 2 52) with two52. change (Zpower 2 11) with 2048%Z.
  change (emin (52 + 1) (2 ^ (11 - 1))) with (-1074)%Z. rewrite !Z.shiftl_mul_pow2 by lia.
  change (2 ^ 52)%Z with two52.
  destruct (two52 <=? Z.pos m)%Z eqn:E.
  - assert (E' : Zle_bool 0 (Z.pos m - two52) = true) by (apply Z.leb_le; apply Z.leb_le in E; lia). rewrite E'.
    destruct s; unfold two63, two52; lia.
  - assert (E' : Zle_bool 0 (Z.pos m - two52) = false) by (apply Z.leb_gt; apply Z.leb_gt in E; lia). rewrite E'.
    destruct s; unfold two63, two52; lia.
Qed.
