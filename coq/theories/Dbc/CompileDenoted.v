(** Proofs for C05, part 2: in the compile class the database built by
    collectDescriptors + addMetadata is, object by object and field by field, the denoted
    database [denoted_db] (source order, before sorting), and the warnings are [spec_warnings]. *)
From Coq Require Import ZArith List Bool Permutation Sorted Lia.
From CanVerif Require Can.Data.
From CanVerif Require Import Base.Sort Dbc.Ast Descriptor.Types Dbc.Compile Dbc.CompileSpec
  Dbc.CompileLemmas Dbc.CompileStep.
Import ListNotations.
Open Scope Z_scope.

(** * collectDescriptors *)
Definition mk_node (n : bytes) : node := {| node_name := n; node_description := [] |}.

Lemma collect_fold : forall defs db,
  fold_left collect_step defs db =
  {| db_source_file := db_source_file db;
     db_version := pick_last sel_version defs (db_version db);
     db_messages := db_messages db ++ map collect_message (message_defs defs);
     db_nodes := db_nodes db ++ map mk_node (declared_nodes defs) |}.
Proof.
  induction defs as [|d defs IH]; intros db.
  - cbn. rewrite !app_nil_r. now destruct db.
  - cbn [fold_left]. rewrite IH. unfold pick_last. cbn [fold_left message_defs declared_nodes flat_map].
    destruct d; cbn; rewrite ?app_nil_r; try reflexivity.
    + (* BU_ *) rewrite map_app, app_assoc. reflexivity.
    + (* BO_ *) destruct (m_id m =? msgid_independent); cbn; [reflexivity|]. now rewrite <- app_assoc.
Qed.

Lemma collect_eq : forall src defs,
  collect src defs =
  {| db_source_file := src;
     db_version := pick_last sel_version defs [];
     db_messages := map collect_message (message_defs defs);
     db_nodes := map mk_node (declared_nodes defs) |}.
Proof. intros. unfold collect. rewrite collect_fold. reflexivity. Qed.

(** * Machine arithmetic inside the class *)
Lemma wrap64_id : forall z, - two63 <= z < two63 -> wrap64 z = z.
Proof.
  intros z H. unfold wrap64, two63, two64 in *.
  rewrite Z.mod_small; lia.
Qed.
Lemma uint8_id : forall z, 0 <= z < 256 -> uint8 z = z.
Proof. intros z H. unfold uint8. now apply Z.mod_small. Qed.
Lemma uint_id : forall z, 0 <= z < two64 -> uint_of_u64 z = z.
Proof. intros z H. unfold uint_of_u64. now apply Z.mod_small. Qed.

(** * One iteration in terms of the selectors *)
Definition sig_spec_step (id : Z) (s : signal) (d : def) : signal :=
  {| s_name := s_name s; s_start := s_start s; s_length := s_length s; s_big_endian := s_big_endian s;
     s_signed := s_signed s;
     s_float := match sel_float id (s_name s) (s_length s) d with Some v => v | None => s_float s end;
     s_multiplexer := s_multiplexer s; s_multiplexed := s_multiplexed s;
     s_mux_value := s_mux_value s; s_offset := s_offset s; s_scale := s_scale s; s_min := s_min s; s_max := s_max s;
     s_unit := s_unit s;
     s_description := match sel_sig_comment id (s_name s) d with Some v => v | None => s_description s end;
     s_value_descriptions :=
       s_value_descriptions s ++
       match sel_values id (s_name s) d with Some v => map vdesc_of_def v | None => [] end;
     s_receivers := s_receivers s;
     s_default := match sel_start_value id (s_name s) d with Some v => v | None => s_default s end |}.

Ltac case_conds :=
  repeat match goal with
         | |- context [if ?b then _ else _] => destruct b eqn:?
         end.

Lemma sig_one_step : forall d id s, def_ok d = true ->
  sig_apply (meta_action d) id s = sig_spec_step id s d.
Proof.
  intros d id s Hok. unfold sig_spec_step.
  destruct d; cbn;
    try (destruct s; cbn; rewrite ?app_nil_r; reflexivity).
  - (* SIG_VALTYPE_ *)
    destruct ((msgid_to_can message_id =? id) && bytes_eqb signal (s_name s)); cbn;
      [|destruct s; cbn; rewrite ?app_nil_r; reflexivity].
    destruct (value_type =? 0); cbn; [destruct s; cbn; rewrite ?app_nil_r; reflexivity|].
    destruct (value_type =? 1); cbn; [|destruct s; cbn; rewrite ?app_nil_r; reflexivity].
    destruct (s_length s =? 32); cbn; destruct s; cbn; rewrite ?app_nil_r; reflexivity.
  - (* VAL_ *)
    destruct (vs_message_id v =? msgid_independent); cbn;
      [destruct (vs_object v); destruct s; cbn; rewrite ?app_nil_r; reflexivity|].
    destruct (vs_object v); cbn; try (destruct s; cbn; rewrite ?app_nil_r; reflexivity).
    destruct ((msgid_to_can (vs_message_id v) =? id) && bytes_eqb (vs_signal v) (s_name s)); cbn;
      destruct s; cbn; rewrite ?app_nil_r; reflexivity.
  - (* CM_ *)
    destruct (cm_object c); cbn; try (destruct s; cbn; rewrite ?app_nil_r; reflexivity).
    + destruct (cm_message_id c =? msgid_independent); cbn; destruct s; cbn; rewrite ?app_nil_r; reflexivity.
    + destruct (cm_message_id c =? msgid_independent); cbn; [destruct s; cbn; rewrite ?app_nil_r; reflexivity|].
      destruct ((msgid_to_can (cm_message_id c) =? id) && bytes_eqb (cm_signal c) (s_name s)); cbn;
        destruct s; cbn; rewrite ?app_nil_r; reflexivity.
  - (* BA_ *)
    unfold sel_start_value, sel_sig_attr.
    destruct (av_object a) eqn:Eo; cbn; try (destruct s; cbn; rewrite ?app_nil_r; reflexivity).
    destruct ((msgid_to_can (av_message_id a) =? id) && bytes_eqb (av_signal a) (s_name s)); cbn;
      [|destruct s; cbn; rewrite ?app_nil_r; reflexivity].
    destruct (bytes_eqb (av_name a) attr_start_value); cbn; [|destruct s; cbn; rewrite ?app_nil_r; reflexivity].
    cbn in Hok. apply andb_true_iff in Hok as [Hok _]. apply andb_true_iff in Hok as [Hok _].
    apply andb_true_iff in Hok as [H1 H2]. apply Z.leb_le in H1. apply Z.ltb_lt in H2.
    unfold int_of_i64. rewrite wrap64_id by (unfold two63 in *; lia).
    destruct s; cbn; rewrite ?app_nil_r; reflexivity.
Qed.

Definition msg_spec_step (m : message) (d : def) : message :=
  {| msg_name := msg_name m; msg_id := msg_id m; msg_extended := msg_extended m; msg_length := msg_length m;
     msg_send_type := match sel_send_type (msg_id m) d with Some v => v | None => msg_send_type m end;
     msg_description := match sel_msg_comment (msg_id m) d with Some v => v | None => msg_description m end;
     msg_signals := map (fun s => sig_spec_step (msg_id m) s d) (msg_signals m);
     msg_sender := msg_sender m;
     msg_cycle_time := match sel_cycle_time (msg_id m) d with Some v => v | None => msg_cycle_time m end;
     msg_delay_time := match sel_delay_time (msg_id m) d with Some v => v | None => msg_delay_time m end |}.

Lemma attr_names_distinct :
  bytes_eqb attr_send_type attr_cycle_time = false /\ bytes_eqb attr_send_type attr_delay_time = false /\
  bytes_eqb attr_cycle_time attr_delay_time = false /\ bytes_eqb attr_cycle_time attr_send_type = false /\
  bytes_eqb attr_delay_time attr_send_type = false /\ bytes_eqb attr_delay_time attr_cycle_time = false.
Proof. repeat split; reflexivity. Qed.

Lemma msg_one_step : forall d m, def_ok d = true ->
  msg_apply (meta_action d) m = msg_spec_step m d.
Proof.
  intros d m Hok. unfold msg_spec_step.
  erewrite (map_ext (fun s => sig_spec_step (msg_id m) s d)) by (intro s; symmetry; now apply sig_one_step).
  destruct d; cbn;
    try (rewrite map_id; destruct m; reflexivity);
    try (destruct m; reflexivity).
  - (* VAL_ *)
    destruct (vs_message_id v =? msgid_independent); cbn; [rewrite map_id; now destruct m|].
    destruct (vs_object v); cbn; try (rewrite map_id; now destruct m). now destruct m.
  - (* CM_ *)
    destruct (cm_object c); cbn; try (rewrite map_id; now destruct m).
    + destruct (cm_message_id c =? msgid_independent); cbn; [rewrite map_id; now destruct m|].
      rewrite map_id. destruct (msgid_to_can (cm_message_id c) =? msg_id m); now destruct m.
    + destruct (cm_message_id c =? msgid_independent); cbn; [rewrite map_id; now destruct m|]. now destruct m.
  - (* BA_ *)
    unfold sel_send_type, sel_cycle_time, sel_delay_time, sel_msg_attr.
    destruct (av_object a) eqn:Eo; cbn; try (rewrite map_id; now destruct m); try (now destruct m).
    rewrite map_id.
    destruct (msgid_to_can (av_message_id a) =? msg_id m); cbn; [|now destruct m].
    cbn in Hok. apply andb_true_iff in Hok as [Hok _]. apply andb_true_iff in Hok as [_ Hr].
    destruct attr_names_distinct as (D1 & D2 & D3 & D4 & D5 & D6).
    destruct (bytes_eqb (av_name a) attr_send_type) eqn:E1.
    { apply bytes_eqb_eq in E1. rewrite E1, D1, D2. now destruct m. }
    destruct (bytes_eqb (av_name a) attr_cycle_time) eqn:E2.
    { apply bytes_eqb_eq in E2. rewrite E2, D3. cbn in Hr.
      apply andb_true_iff in Hr as [H1 H2]. apply Z.leb_le in H1. apply Z.ltb_lt in H2.
      unfold duration_ms. rewrite wrap64_id by (unfold two63 in *; lia). cbn. now destruct m. }
    destruct (bytes_eqb (av_name a) attr_delay_time) eqn:E3.
    { rewrite orb_true_r in Hr.
      apply andb_true_iff in Hr as [H1 H2]. apply Z.leb_le in H1. apply Z.ltb_lt in H2.
      unfold duration_ms. rewrite wrap64_id by (unfold two63 in *; lia). cbn. now destruct m. }
    now destruct m.
Qed.

Definition node_spec_step (n : node) (d : def) : node :=
  {| node_name := node_name n;
     node_description := match sel_node_comment (node_name n) d with Some v => v | None => node_description n end |}.

Lemma node_one_step : forall d n, node_apply (meta_action d) n = node_spec_step n d.
Proof.
  intros d n. unfold node_spec_step. destruct d; cbn; try (now destruct n).
  - destruct (vs_message_id v =? msgid_independent); [now destruct n|]. destruct (vs_object v); now destruct n.
  - destruct (cm_object c); cbn; try (now destruct n).
    + destruct (bytes_eqb (cm_node c) (node_name n)); now destruct n.
    + destruct (cm_message_id c =? msgid_independent); now destruct n.
    + destruct (cm_message_id c =? msgid_independent); now destruct n.
  - destruct (av_object a); now destruct n.
Qed.

(** * The whole loop, field by field *)
Lemma fold_left_ext_in : forall {A B} (f g : A -> B -> A) l a,
  (forall a b, In b l -> f a b = g a b) -> fold_left f l a = fold_left g l a.
Proof.
  induction l as [|b l IH]; intros a H; cbn; [reflexivity|].
  rewrite H by now left. apply IH. intros a' b' Hb'. apply H. now right.
Qed.

Definition all_values (id : Z) (name : bytes) (defs : list def) : list value_description :=
  flat_map (fun d => match sel_values id name d with Some v => map vdesc_of_def v | None => [] end) defs.

Lemma sig_fold_eq : forall id defs s,
  fold_left (sig_spec_step id) defs s =
  {| s_name := s_name s; s_start := s_start s; s_length := s_length s; s_big_endian := s_big_endian s;
     s_signed := s_signed s;
     s_float := pick_last (sel_float id (s_name s) (s_length s)) defs (s_float s);
     s_multiplexer := s_multiplexer s; s_multiplexed := s_multiplexed s;
     s_mux_value := s_mux_value s; s_offset := s_offset s; s_scale := s_scale s; s_min := s_min s; s_max := s_max s;
     s_unit := s_unit s;
     s_description := pick_last (sel_sig_comment id (s_name s)) defs (s_description s);
     s_value_descriptions := s_value_descriptions s ++ all_values id (s_name s) defs;
     s_receivers := s_receivers s;
     s_default := pick_last (sel_start_value id (s_name s)) defs (s_default s) |}.
Proof.
  intros id. induction defs as [|d defs IH]; intros s.
  - cbn. rewrite app_nil_r. now destruct s.
  - cbn [fold_left]. rewrite IH. unfold pick_last, all_values. cbn [fold_left flat_map sig_spec_step
      s_name s_start s_length s_big_endian s_signed s_float s_multiplexer s_multiplexed s_mux_value s_offset
      s_scale s_min s_max s_unit s_description s_value_descriptions s_receivers s_default].
    rewrite <- app_assoc. reflexivity.
Qed.

Lemma msg_fold_eq : forall defs m,
  fold_left msg_spec_step defs m =
  {| msg_name := msg_name m; msg_id := msg_id m; msg_extended := msg_extended m; msg_length := msg_length m;
     msg_send_type := pick_last (sel_send_type (msg_id m)) defs (msg_send_type m);
     msg_description := pick_last (sel_msg_comment (msg_id m)) defs (msg_description m);
     msg_signals := map (fun s => fold_left (sig_spec_step (msg_id m)) defs s) (msg_signals m);
     msg_sender := msg_sender m;
     msg_cycle_time := pick_last (sel_cycle_time (msg_id m)) defs (msg_cycle_time m);
     msg_delay_time := pick_last (sel_delay_time (msg_id m)) defs (msg_delay_time m) |}.
Proof.
  induction defs as [|d defs IH]; intros m.
  - cbn. rewrite map_id. now destruct m.
  - cbn [fold_left]. rewrite IH. unfold pick_last. cbn [fold_left msg_spec_step
      msg_name msg_id msg_extended msg_length msg_send_type msg_description msg_signals msg_sender
      msg_cycle_time msg_delay_time].
    rewrite map_map. reflexivity.
Qed.

Lemma node_fold_eq : forall defs n,
  fold_left node_spec_step defs n =
  {| node_name := node_name n;
     node_description := pick_last (sel_node_comment (node_name n)) defs (node_description n) |}.
Proof.
  induction defs as [|d defs IH]; intros n.
  - now destruct n.
  - cbn [fold_left]. rewrite IH. reflexivity.
Qed.

(** * At most one resolving line per key *)
Definition somes {B} (sel : def -> option B) (defs : list def) : list B :=
  flat_map (fun d => match sel d with Some v => [v] | None => [] end) defs.

Lemma last_cons_indep : forall {B} (l : list B) a d d', last (a :: l) d = last (a :: l) d'.
Proof.
  induction l as [|b l IH]; intros a d d'; [reflexivity|].
  change (last (a :: b :: l) d) with (last (b :: l) d). change (last (a :: b :: l) d') with (last (b :: l) d').
  apply IH.
Qed.

Lemma pick_last_somes : forall {B} (sel : def -> option B) defs dflt,
  pick_last sel defs dflt = last (somes sel defs) dflt.
Proof.
  intros B sel. unfold pick_last, somes.
  induction defs as [|d defs IH]; intros dflt; cbn; [reflexivity|].
  rewrite IH. destruct (sel d) as [v|]; cbn; [|reflexivity].
  destruct (flat_map _ defs); [reflexivity|apply last_cons_indep].
Qed.

Lemma somes_nil : forall {B} (sel : def -> option B) defs,
  (forall d, In d defs -> sel d = None) -> somes sel defs = [].
Proof.
  intros B sel. induction defs as [|d defs IH]; intros H; cbn; [reflexivity|].
  rewrite (H d) by now left. apply IH. intros d' Hd'. apply H. now right.
Qed.

Lemma somes_le1 : forall {B} (sel : def -> option B) (k : key) defs,
  NoDup (flat_map meta_key defs) -> (forall d v, sel d = Some v -> meta_key d = [k]) ->
  (length (somes sel defs) <= 1)%nat.
Proof.
  intros B sel k. induction defs as [|d defs IH]; intros Hn Hk; [cbn; lia|].
  change (somes sel (d :: defs)) with ((match sel d with Some v => [v] | None => [] end) ++ somes sel defs).
  cbn in Hn. destruct (sel d) as [v|] eqn:E.
  - rewrite (Hk _ _ E) in Hn. cbn in Hn. inversion Hn as [|? ? Hnot Hn']; subst.
    rewrite somes_nil; [cbn; lia|]. intros d' Hd'. destruct (sel d') as [v'|] eqn:E'; [|reflexivity].
    exfalso. apply Hnot. apply in_flat_map. exists d'. split; [exact Hd'|]. rewrite (Hk _ _ E'). now left.
  - cbn. apply IH; [|exact Hk]. now apply NoDup_app_r in Hn.
Qed.

Lemma flat_map_somes : forall {B C} (sel : def -> option B) (g : B -> list C) defs,
  flat_map (fun d => match sel d with Some v => g v | None => [] end) defs = flat_map g (somes sel defs).
Proof.
  intros B C sel g. induction defs as [|d defs IH]; cbn; [reflexivity|].
  rewrite IH. destruct (sel d); reflexivity.
Qed.

(** which key a selected line has *)
Lemma sel_node_comment_key : forall name d v, sel_node_comment name d = Some v -> meta_key d = [(0, 0, name, [])].
Proof.
  intros name d v. destruct d; cbn; try discriminate. destruct (cm_object c); try discriminate.
  destruct (bytes_eqb (cm_node c) name) eqn:E; [|discriminate]. apply bytes_eqb_eq in E. now subst.
Qed.
Lemma sel_msg_comment_key : forall id d v, sel_msg_comment id d = Some v -> meta_key d = [(1, id, [], [])].
Proof.
  intros id d v. destruct d; cbn; try discriminate. destruct (cm_object c); try discriminate.
  destruct (cm_message_id c =? msgid_independent); cbn; [discriminate|].
  destruct (msgid_to_can (cm_message_id c) =? id) eqn:E; [|discriminate]. apply Z.eqb_eq in E. now subst.
Qed.
Lemma sel_sig_comment_key : forall id name d v, sel_sig_comment id name d = Some v -> meta_key d = [(2, id, name, [])].
Proof.
  intros id name d v. destruct d; cbn; try discriminate. destruct (cm_object c); try discriminate.
  destruct (cm_message_id c =? msgid_independent); cbn; [discriminate|].
  destruct (msgid_to_can (cm_message_id c) =? id) eqn:E; cbn; [|discriminate].
  destruct (bytes_eqb (cm_signal c) name) eqn:E2; [|discriminate].
  apply Z.eqb_eq in E. apply bytes_eqb_eq in E2. now subst.
Qed.
Lemma sel_float_key : forall id name len d v, sel_float id name len d = Some v -> meta_key d = [(3, id, name, [])].
Proof.
  intros id name len d v. destruct d; cbn; try discriminate.
  destruct (msgid_to_can message_id =? id) eqn:E; cbn; [|discriminate].
  destruct (bytes_eqb signal name) eqn:E2; [|discriminate].
  apply Z.eqb_eq in E. apply bytes_eqb_eq in E2. now subst.
Qed.
Lemma sel_values_key : forall id name d v, sel_values id name d = Some v -> meta_key d = [(4, id, name, [])].
Proof.
  intros id name d v. destruct d; cbn; try discriminate. destruct (vs_object v0); try discriminate.
  destruct (vs_message_id v0 =? msgid_independent); cbn; [discriminate|].
  destruct (msgid_to_can (vs_message_id v0) =? id) eqn:E; cbn; [|discriminate].
  destruct (bytes_eqb (vs_signal v0) name) eqn:E2; [|discriminate].
  apply Z.eqb_eq in E. apply bytes_eqb_eq in E2. now subst.
Qed.
Lemma sel_msg_attr_key : forall attr id d v, sel_msg_attr attr id d = Some v -> meta_key d = [(5, id, [], attr)].
Proof.
  intros attr id d v. destruct d; cbn; try discriminate. destruct (av_object a); try discriminate.
  destruct (msgid_to_can (av_message_id a) =? id) eqn:E; cbn; [|discriminate].
  destruct (bytes_eqb (av_name a) attr) eqn:E2; [|discriminate].
  apply Z.eqb_eq in E. apply bytes_eqb_eq in E2. now subst.
Qed.
Lemma sel_sig_attr_key : forall attr id name d v,
  sel_sig_attr attr id name d = Some v -> meta_key d = [(6, id, name, attr)].
Proof.
  intros attr id name d v. destruct d; cbn; try discriminate. destruct (av_object a); try discriminate.
  destruct (msgid_to_can (av_message_id a) =? id) eqn:E; cbn; [|discriminate].
  destruct (bytes_eqb (av_signal a) name) eqn:E2; cbn; [|discriminate].
  destruct (bytes_eqb (av_name a) attr) eqn:E3; [|discriminate].
  apply Z.eqb_eq in E. apply bytes_eqb_eq in E2, E3. now subst.
Qed.
Lemma option_map_key : forall {B C} (g : B -> C) (sel : def -> option B) k,
  (forall d v, sel d = Some v -> meta_key d = [k]) ->
  forall d v, option_map g (sel d) = Some v -> meta_key d = [k].
Proof. intros B C g sel k H d v E. destruct (sel d) eqn:E'; [|discriminate]. eapply H; eassumption. Qed.

(** * The class, as propositions *)
Record class_facts (defs : list def) : Prop := {
  cf_nodes : NoDup (declared_nodes defs);
  cf_ids : NoDup (map can_id (message_defs defs));
  cf_msgs : Forall (fun md => message_ok md = true) (message_defs defs);
  cf_keys : NoDup (flat_map meta_key defs);
  cf_defs : Forall (fun d => def_ok d = true) defs }.

Lemma in_class_facts : forall defs, in_class defs = true <-> class_facts defs.
Proof.
  intros defs. unfold in_class. rewrite !andb_true_iff.
  rewrite (nodupb_NoDup bytes_eqb bytes_eqb_eq), (nodupb_NoDup Z.eqb Z.eqb_eq),
    (nodupb_NoDup key_eqb key_eqb_eq), !forallb_forall, <- !Forall_forall.
  split.
  - intros [[[[H1 H2] H3] H4] H5]. now constructor.
  - intros [H1 H2 H3 H4 H5]. auto.
Qed.

Record message_facts (md : message_def) : Prop := {
  mf_size : 0 <= m_size md <= 8;
  mf_sigs : Forall (fun sd => 0 <= sg_start sd < 64 /\ 1 <= sg_size sd <= 64 /\ 0 <= sg_mux_value sd < two64)
                   (m_signals md);
  mf_names : NoDup (map sg_name (m_signals md));
  mf_keys : NoDup (map (fun s => (sg_start s, sg_mux_value s)) (m_signals md)) }.

Lemma message_ok_facts : forall md, message_ok md = true -> message_facts md.
Proof.
  intros md H. unfold message_ok in H. rewrite !andb_true_iff in H.
  destruct H as [[[[[[[H1 H2] _] _] _] H3] H4] H5].
  apply Z.leb_le in H1, H2.
  rewrite (nodupb_NoDup bytes_eqb bytes_eqb_eq) in H4. rewrite (nodupb_NoDup pair_eqb pair_eqb_eq) in H5.
  constructor; [lia| |assumption|assumption].
  rewrite forallb_forall in H3. apply Forall_forall. intros sd Hsd. specialize (H3 sd Hsd).
  unfold signal_ok in H3. rewrite !andb_true_iff in H3.
  destruct H3 as [[[[[[A1 A2] A3] A4] _] A5] A6].
  apply Z.leb_le in A1, A3, A4, A5. apply Z.ltb_lt in A2, A6. lia.
Qed.

(** * collect + addMetadata = the denoted database (source order) *)
Lemma collect_inv : forall src defs, class_facts defs -> db_inv (collect src defs).
Proof.
  intros src defs CF. rewrite collect_eq. unfold db_inv. cbn. repeat split.
  - rewrite map_map. cbn. exact (cf_ids _ CF).
  - apply Forall_forall. intros m Hm. apply in_map_iff in Hm as [md [<- Hmd]]. cbn.
    rewrite map_map. cbn.
    pose proof (cf_msgs _ CF) as Hok. rewrite Forall_forall in Hok.
    exact (mf_names _ (message_ok_facts _ (Hok _ Hmd))).
  - rewrite map_map. cbn. rewrite map_id. exact (cf_nodes _ CF).
Qed.

Lemma denoted_signal_eq : forall defs id sd, class_facts defs ->
  0 <= sg_start sd < 64 /\ 1 <= sg_size sd <= 64 /\ 0 <= sg_mux_value sd < two64 ->
  fold_left (sig_spec_step id) defs (collect_signal sd) = denoted_signal defs id sd.
Proof.
  intros defs id sd CF (Hs & Hl & Hm). rewrite sig_fold_eq. unfold denoted_signal. cbn.
  rewrite !uint8_id, uint_id by lia.
  f_equal.
  unfold all_values. rewrite flat_map_somes.
  pose proof (somes_le1 (sel_values id (sg_name sd)) _ defs (cf_keys _ CF) (sel_values_key id (sg_name sd))) as Hle.
  rewrite pick_last_somes.
  destruct (somes (sel_values id (sg_name sd)) defs) as [|v [|v' l]]; cbn in *; [reflexivity|now rewrite app_nil_r|lia].
Qed.

Lemma denoted_message_eq : forall defs md, class_facts defs -> message_ok md = true ->
  msg_fold defs (collect_message md) = denoted_message defs md.
Proof.
  intros defs md CF Hok. unfold msg_fold.
  rewrite (fold_left_ext_in _ msg_spec_step).
  2:{ intros m d Hd. apply msg_one_step. pose proof (cf_defs _ CF) as H. rewrite Forall_forall in H. now apply H. }
  rewrite msg_fold_eq. unfold denoted_message. cbn.
  pose proof (message_ok_facts _ Hok) as MF.
  rewrite uint8_id by (destruct (mf_size _ MF); lia).
  f_equal. rewrite map_map. apply map_ext_in. intros sd Hsd.
  apply denoted_signal_eq; [exact CF|].
  pose proof (mf_sigs _ MF) as H. rewrite Forall_forall in H. now apply H.
Qed.

Lemma denoted_node_eq : forall defs n, node_fold defs (mk_node n) = denoted_node defs n.
Proof.
  intros defs n. unfold node_fold.
  rewrite (fold_left_ext_in _ node_spec_step) by (intros; apply node_one_step).
  rewrite node_fold_eq. reflexivity.
Qed.

Theorem add_metadata_denoted : forall src defs, in_class defs = true ->
  fst (add_metadata defs (collect src defs)) = denoted_db src defs.
Proof.
  intros src defs Hc. apply in_class_facts in Hc.
  unfold add_metadata. rewrite add_metadata_fst. cbn [fst].
  rewrite fold_db_step by now apply collect_inv.
  rewrite collect_eq. unfold db_map, denoted_db. cbn. f_equal.
  - rewrite map_map. apply map_ext_in. intros md Hmd. apply denoted_message_eq; [exact Hc|].
    pose proof (cf_msgs _ Hc) as H. rewrite Forall_forall in H. now apply H.
  - rewrite map_map. apply map_ext. intro n. apply denoted_node_eq.
Qed.

(** * Warnings *)
Lemma existsb_find : forall {A} (p : A -> bool) l, existsb p l = match find p l with Some _ => true | None => false end.
Proof. induction l as [|a l IH]; cbn; [reflexivity|]. destruct (p a); [reflexivity|exact IH]. Qed.

Lemma find_unique_prop : forall {A K} (key : A -> K) (p q : A -> bool) l k,
  NoDup (map key l) -> (forall a, p a = true <-> key a = k) ->
  existsb (fun a => p a && q a) l = match find p l with Some a => q a | None => false end.
Proof.
  intros A K key p q l k Hn Hp. induction l as [|a l IH]; cbn; [reflexivity|].
  cbn in Hn. inversion Hn as [|? ? Ha Hn']; subst.
  destruct (p a) eqn:Hpa; cbn.
  - destruct (q a); [reflexivity|].
    destruct (existsb (fun a => p a && q a) l) eqn:E; [|reflexivity].
    apply existsb_exists in E as [x [Hx Hpx]]. apply andb_true_iff in Hpx as [Hpx _].
    exfalso. apply Ha. apply Hp in Hpa, Hpx. rewrite Hpa, <- Hpx. now apply in_map.
  - now apply IH.
Qed.

Lemma spec_warning_eq : forall src defs d, class_facts defs ->
  warn_of (collect src defs) (meta_action d) = spec_warning defs d.
Proof.
  intros src defs d CF. rewrite collect_eq.
  assert (Hmsg : forall id,
    find (fun m => msg_id m =? id) (map collect_message (message_defs defs)) =
    option_map collect_message (find (fun md => can_id md =? id) (message_defs defs))).
  { intro id. now rewrite find_map. }
  assert (Hsig : forall md name,
    find (fun s => bytes_eqb (s_name s) name) (map collect_signal (m_signals md)) =
    option_map collect_signal (find (fun sd => bytes_eqb (sg_name sd) name) (m_signals md))).
  { intros md name. now rewrite find_map. }
  assert (Hdm : forall id, declares_message defs id =
                           match find (fun md => can_id md =? id) (message_defs defs) with Some _ => true | None => false end).
  { intro id. unfold declares_message. apply existsb_find. }
  assert (Hds : forall id name, declares_signal defs id name =
            match find (fun md => can_id md =? id) (message_defs defs) with
            | Some md => match find (fun sd => bytes_eqb (sg_name sd) name) (m_signals md) with Some _ => true | None => false end
            | None => false end).
  { intros id name. unfold declares_signal.
    rewrite (find_unique_prop can_id (fun md => can_id md =? id) _ _ id (cf_ids _ CF)) by (intro; apply Z.eqb_eq).
    destruct (find _ (message_defs defs)); [apply existsb_find|reflexivity]. }
  destruct d; cbn [meta_action warn_of spec_warning db_messages db_nodes]; try reflexivity.
  - (* SIG_VALTYPE_ *)
    rewrite Hmsg, Hds.
    destruct (find (fun md => can_id md =? msgid_to_can message_id) (message_defs defs)) as [md|] eqn:Em; cbn; [|reflexivity].
    rewrite Hsig.
    destruct (find (fun sd => bytes_eqb (sg_name sd) signal) (m_signals md)) as [sd|] eqn:Es; cbn; [|reflexivity].
    destruct (value_type =? 0); [reflexivity|]. destruct (value_type =? 1); [|reflexivity].
    assert (Hmd : In md (message_defs defs)) by (apply find_some in Em; tauto).
    pose proof (cf_msgs _ CF) as Hok. rewrite Forall_forall in Hok.
    pose proof (message_ok_facts _ (Hok _ Hmd)) as MF.
    assert (Hsd : In sd (m_signals md)) by (apply find_some in Es; tauto).
    pose proof (mf_sigs _ MF) as Hsg. rewrite Forall_forall in Hsg. specialize (Hsg _ Hsd).
    rewrite uint8_id by lia.
    unfold declares_signal_len.
    rewrite (find_unique_prop can_id (fun md => can_id md =? msgid_to_can message_id) _ _ _ (cf_ids _ CF))
      by (intro; apply Z.eqb_eq).
    rewrite Em.
    rewrite (find_unique_prop sg_name (fun sd => bytes_eqb (sg_name sd) signal) _ _ signal (mf_names _ MF))
      by (intro; apply bytes_eqb_eq).
    rewrite Es. destruct (sg_size sd =? 32); reflexivity.
  - (* VAL_ *)
    destruct (vs_message_id v =? msgid_independent); cbn; [reflexivity|].
    destruct (vs_object v); cbn; try reflexivity.
    rewrite Hmsg, Hds.
    destruct (find (fun md => can_id md =? _) (message_defs defs)) as [md|]; cbn; [|reflexivity].
    rewrite Hsig. destruct (find _ (m_signals md)); reflexivity.
  - (* CM_ *)
    destruct (cm_object c); cbn; try reflexivity.
    + unfold declares_node. rewrite existsb_find, find_map. cbn. change Types.bytes with Ast.bytes.
      destruct (find (fun x : Ast.bytes => bytes_eqb x (cm_node c)) (declared_nodes defs)); reflexivity.
    + destruct (cm_message_id c =? msgid_independent); cbn; [reflexivity|].
      rewrite Hmsg, Hdm. destruct (find _ (message_defs defs)); reflexivity.
    + destruct (cm_message_id c =? msgid_independent); cbn; [reflexivity|].
      rewrite Hmsg, Hds.
      destruct (find (fun md => can_id md =? _) (message_defs defs)) as [md|]; cbn; [|reflexivity].
      rewrite Hsig. destruct (find _ (m_signals md)); reflexivity.
  - (* BA_ *)
    destruct (av_object a); cbn; try reflexivity.
    + rewrite Hmsg, Hdm. destruct (find _ (message_defs defs)); reflexivity.
    + rewrite Hmsg, Hds.
      destruct (find (fun md => can_id md =? _) (message_defs defs)) as [md|]; cbn; [|reflexivity].
      rewrite Hsig. destruct (find _ (m_signals md)); reflexivity.
Qed.

Theorem add_metadata_warnings : forall src defs, in_class defs = true ->
  snd (add_metadata defs (collect src defs)) = spec_warnings defs.
Proof.
  intros src defs Hc. apply in_class_facts in Hc.
  unfold add_metadata. rewrite add_metadata_snd by now apply collect_inv.
  cbn. unfold spec_warnings. apply flat_map_ext. intro d. unfold def_warnings.
  now rewrite (spec_warning_eq src defs d Hc).
Qed.
