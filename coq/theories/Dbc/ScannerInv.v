(** Invariants of the scanner model (Dbc/Scanner.v): offsets stay inside the input, every call of
    [sc_next] that returns a character consumes input, the loops never run out of fuel when the
    fuel exceeds the length of the unread input, a non-EOF token has a non-empty text and ends
    strictly after it starts.  Used by Dbc/Totality.v. *)
From Coq Require Import ZArith List Bool Lia.
From CanVerif Require Import Dbc.Ast Dbc.Scanner.
Import ListNotations.
Open Scope Z_scope.

Definition byte (b : Z) : Prop := 0 <= b < 256.

Lemma blen_nonneg : forall b, 0 <= blen b.
Proof. intros. unfold blen. lia. Qed.

Lemma blen_app : forall a b, blen (a ++ b) = blen a + blen b.
Proof. intros. unfold blen. rewrite app_length. lia. Qed.

Lemma blen_cons : forall x b, blen (x :: b) = 1 + blen b.
Proof. intros. unfold blen. cbn [length]. lia. Qed.

Lemma blen_nil : blen [] = 0.
Proof. reflexivity. Qed.

(** utf8_decode returns a non-negative rune and a width between 1 and the available bytes *)
Lemma lor_nonneg : forall a b, 0 <= a -> 0 <= b -> 0 <= Z.lor a b.
Proof. intros. apply Z.lor_nonneg. split; assumption. Qed.

Lemma shl_land_nonneg : forall a m k, 0 <= m -> 0 <= k -> 0 <= Z.shiftl (Z.land a m) k.
Proof. intros. apply Z.shiftl_nonneg. apply Z.land_nonneg. right. assumption. Qed.

Lemma land_nonneg' : forall a m, 0 <= m -> 0 <= Z.land a m.
Proof. intros. apply Z.land_nonneg. right. assumption. Qed.

Lemma utf8_decode_spec : forall b0 t r w,
  0 <= b0 -> utf8_decode (b0 :: t) = (r, w) -> 0 <= r /\ 1 <= w <= blen (b0 :: t).
Proof.
  intros b0 t r w Hb H. unfold utf8_decode in H.
  assert (Hre : 0 <= rune_error) by (unfold rune_error; lia).
  assert (H1 : 1 <= blen (b0 :: t)) by (rewrite blen_cons; pose proof (blen_nonneg t); lia).
  destruct (b0 <? 128). { injection H as ? ?; subst. lia. }
  destruct (b0 <? 194). { injection H as ? ?; subst. lia. }
  destruct (b0 <? 224).
  { destruct t as [|b1 t']. { injection H as ? ?; subst; lia. }
    destruct (is_cont b1); injection H as ? ?; subst; try lia.
    split. { unfold rune2. apply lor_nonneg; [apply shl_land_nonneg | apply land_nonneg']; lia. }
    rewrite !blen_cons. pose proof (blen_nonneg t'). lia. }
  destruct (b0 <? 240).
  { destruct t as [|b1 [|b2 t']]; try (injection H as ? ?; subst; lia).
    match type of H with (if ?c then _ else _) = _ => destruct c end; injection H as ? ?; subst; try lia.
    split. { unfold rune3, rune4. repeat apply lor_nonneg; try apply shl_land_nonneg; try apply land_nonneg'; lia. }
    rewrite !blen_cons. pose proof (blen_nonneg t'). lia. }
  destruct (b0 <? 245).
  { destruct t as [|b1 [|b2 [|b3 t']]]; try (injection H as ? ?; subst; lia).
    match type of H with (if ?c then _ else _) = _ => destruct c end; injection H as ? ?; subst; try lia.
    split. { unfold rune3, rune4. repeat apply lor_nonneg; try apply shl_land_nonneg; try apply land_nonneg'; lia. }
    rewrite !blen_cons. pose proof (blen_nonneg t'). lia. }
  injection H as ? ?; subst. lia.
Qed.

Lemma firstn_blen : forall (l : bytes) w, 0 <= w <= blen l -> blen (firstn (Z.to_nat w) l) = w.
Proof. intros. unfold blen in *. rewrite firstn_length. lia. Qed.

Lemma skipn_blen : forall (l : bytes) w, 0 <= w <= blen l -> blen (skipn (Z.to_nat w) l) = blen l - w.
Proof. intros. unfold blen in *. rewrite skipn_length. lia. Qed.

Section Inv.
  Variable N : Z.   (* length of the whole input *)
  Variable L : Z.   (* lower bound of all offsets considered (0 for totality; the start of a definition for locality) *)
  Hypothesis HL : 0 <= L.
  Variable il id : Z -> bool.   (* non-ASCII classification *)
  Variable F : nat.             (* fuel *)

  Definition okpos (p : position) : Prop := L <= p_offset p <= N.

  (** offset of the character read last (Go: srcBufOffset + srcPos - lastCharLen) *)
  Definition tokoff (s : sstate) : Z := s_pos s - blen (s_last s).

  (** [ch] is the character read last *)
  Definition chk (ch : Z) (s : sstate) : Prop :=
    (ch = EOF /\ s_last s = []) \/ (ch <> EOF /\ ch <> NOCHAR /\ 1 <= blen (s_last s)).

  Definition core (s : sstate) : Prop :=
    s_pos s + blen (s_rest s) = N /\ Forall byte (s_rest s) /\ L <= tokoff s.

  Definition ext (s s' : sstate) : Prop :=
    core s' /\ tokoff s <= tokoff s' /\ s_ws s' = s_ws s /\ (length (s_rest s') <= length (s_rest s))%nat.

  Definition sinv (s : sstate) : Prop := core s /\ (s_ch s = NOCHAR \/ chk (s_ch s) s).

  Lemma core_bounds : forall s, core s -> L <= tokoff s <= N.
  Proof.
    intros s (H1 & _ & H3). unfold tokoff in *. pose proof (blen_nonneg (s_rest s)).
    pose proof (blen_nonneg (s_last s)). lia.
  Qed.

  Lemma sc_pos_offset : forall s, p_offset (sc_pos s) = tokoff s.
  Proof. intros. unfold sc_pos. destruct (0 <? s_col s); [|destruct (0 <? s_lastlinelen s)]; reflexivity. Qed.

  Lemma okpos_sc_pos : forall s, core s -> okpos (sc_pos s).
  Proof. intros. unfold okpos. rewrite sc_pos_offset. apply core_bounds; assumption. Qed.

  Lemma ext_refl : forall s, core s -> ext s s.
  Proof. intros. unfold ext. split; [assumption|]. split; [lia|]. split; [reflexivity|lia]. Qed.

  Lemma ext_trans : forall a b c, ext a b -> ext b c -> ext a c.
  Proof.
    unfold ext. intros a b c (?&?&?&?) (Hc&?&?&?). split; [exact Hc|]. split; [lia|]. split; [congruence|lia].
  Qed.

  Lemma ext_set_ch : forall s s' c, ext s s' -> ext s (set_ch s' c).
  Proof. intros. exact H. Qed.

  (** what a result of a scanner step has to satisfy *)
  Definition sres_ok {A} (m : sres A) (Post : A -> Prop) : Prop :=
    match m with
    | SOk a => Post a
    | SErr p _ => okpos p
    | SFuel => False
    end.

  Lemma sres_ok_bind : forall A B (m : sres A) (f : A -> sres B) P Q,
    sres_ok m P -> (forall a, P a -> sres_ok (f a) Q) -> sres_ok (sbind m f) Q.
  Proof. intros. destruct m; cbn in *; auto. Qed.

  Lemma sres_ok_weaken : forall A (m : sres A) (P Q : A -> Prop),
    sres_ok m P -> (forall a, P a -> Q a) -> sres_ok m Q.
  Proof. intros. destruct m; cbn in *; auto. Qed.

  (** one character *)
  Definition next_post (s : sstate) (r : Z * sstate) : Prop :=
    let '(c, s') := r in
    ext s s' /\ chk c s' /\ tokoff s' = tokoff s + blen (s_last s) /\ s_ch s' = s_ch s
    /\ (c <> EOF -> (length (s_rest s') < length (s_rest s))%nat).

  Lemma sc_next_spec : forall s, core s -> sres_ok (sc_next s) (next_post s).
  Proof.
    intros s Hc. pose proof Hc as (Hn & Hb & Ht). unfold sc_next.
    destruct (s_rest s) as [|b0 t] eqn:Hr.
    - cbn [sres_ok next_post]. unfold tokoff in Ht. pose proof (blen_nonneg (s_last s)) as Hl.
      split; [|split; [|split; [|split]]].
      + unfold ext, core, tokoff. cbn [s_rest s_last s_pos s_ws]. rewrite Hr in *. rewrite blen_nil in *.
        split; [|split; [|split]]; try reflexivity; try lia. split; [lia|]. split; [constructor|lia].
      + left. split; reflexivity.
      + unfold tokoff. cbn [s_last s_pos]. rewrite blen_nil. lia.
      + reflexivity.
      + intros HH. exfalso. apply HH. reflexivity.
    - assert (Hb0 : 0 <= b0 < 256) by (inversion Hb; assumption).
      destruct (if b0 <? 128 then (b0, 1) else utf8_decode (b0 :: t)) as [ch w] eqn:Hd.
      assert (Hw : 0 <= ch /\ 1 <= w <= blen (b0 :: t)).
      { destruct (b0 <? 128) eqn:E.
        - inversion Hd; subst. rewrite blen_cons. pose proof (blen_nonneg t). lia.
        - apply (utf8_decode_spec b0 t); [lia | assumption]. }
      destruct Hw as (Hch & Hw).
      set (s1 := {| s_rest := skipn (Z.to_nat w) (b0 :: t); s_last := firstn (Z.to_nat w) (b0 :: t);
                    s_pos := s_pos s + w; s_line := s_line s; s_col := s_col s + 1;
                    s_lastlinelen := s_lastlinelen s; s_ch := s_ch s; s_ws := s_ws s |}).
      assert (Hl1 : blen (s_last s1) = w) by (apply firstn_blen; lia).
      assert (Hr1 : blen (s_rest s1) = blen (b0 :: t) - w) by (apply skipn_blen; lia).
      assert (Hc1 : core s1).
      { unfold core, tokoff. rewrite Hl1, Hr1. cbn [s_pos s_rest s1]. repeat split; try lia.
        - rewrite <- (firstn_skipn (Z.to_nat w) (b0 :: t)) in Hb. apply Forall_app in Hb. apply Hb.
        - unfold tokoff in Ht. pose proof (blen_nonneg (s_last s)). lia. }
      assert (Hlen : (length (s_rest s1) < length (b0 :: t))%nat).
      { cbn [s_rest s1]. rewrite skipn_length. cbn [length]. lia. }
      assert (Hto : tokoff s1 = tokoff s + blen (s_last s)).
      { unfold tokoff. rewrite Hl1. cbn [s_pos s1]. lia. }
      assert (Hext : ext s s1).
      { unfold ext. repeat split; try apply Hc1; try reflexivity.
        - rewrite Hto. pose proof (blen_nonneg (s_last s)). lia.
        - rewrite Hr. lia. }
      assert (Hchk : chk ch s1).
      { right. unfold EOF, NOCHAR. repeat split; lia. }
      destruct ((ch =? rune_error) && (w =? 1)). { cbn. apply okpos_sc_pos. assumption. }
      destruct (ch =? 0). { cbn. apply okpos_sc_pos. assumption. }
      destruct (ch =? 10).
      + cbn [sres_ok next_post]. split; [exact Hext|]. split; [exact Hchk|]. split; [exact Hto|].
        split; [reflexivity|]. intros _. rewrite Hr. exact Hlen.
      + cbn [sres_ok next_post]. split; [exact Hext|]. split; [exact Hchk|]. split; [exact Hto|].
        split; [reflexivity|]. intros _. rewrite Hr. exact Hlen.
  Qed.

  (** unread characters, counting the pending one *)
  Definition smeasure (s : sstate) : nat := (length (s_rest s) + (if (s_ch s =? EOF)%Z then 0 else 1))%nat.

  (** Peek *)
  Definition peek_post (s : sstate) (r : Z * sstate) : Prop :=
    let '(c, s') := r in ext s s' /\ chk c s' /\ s_ch s' = c /\ (s_ch s = EOF -> c = EOF)
                         /\ (smeasure s' <= smeasure s)%nat.

  Lemma sc_peek_spec : forall s, sinv s -> sres_ok (sc_peek s) (peek_post s).
  Proof.
    intros s (Hc & Hch). unfold sc_peek. destruct (s_ch s =? NOCHAR) eqn:E.
    - apply Z.eqb_eq in E.
      assert (Hm : forall c s1, (length (s_rest s1) <= length (s_rest s))%nat ->
                                (c <> EOF -> (length (s_rest s1) < length (s_rest s))%nat) ->
                                (smeasure (set_ch s1 c) <= smeasure s)%nat).
      { intros c s1 Hle Hlt. unfold smeasure. cbn [s_rest s_ch set_ch]. rewrite E.
        change (NOCHAR =? EOF) with false. destruct (c =? EOF) eqn:Ec; [lia|].
        apply Z.eqb_neq in Ec. specialize (Hlt Ec). lia. }
      eapply sres_ok_bind. { apply sc_next_spec; assumption. }
      intros [c s1] (He1 & Hk1 & _ & _ & Hlen1). destruct (c =? 65279).
      + eapply sres_ok_bind. { apply sc_next_spec. apply He1. }
        intros [c2 s2] (He2 & Hk2 & _ & _ & Hlen2). cbn [sres_ok peek_post].
        split; [|split; [|split; [|split]]].
        * apply (ext_trans s s1); [exact He1 | exact He2].
        * exact Hk2.
        * reflexivity.
        * intros HE. rewrite HE in E. discriminate.
        * destruct He1 as (_ & _ & _ & Hl1). destruct He2 as (_ & _ & _ & Hl2). cbn [s_rest set_ch] in *.
          apply Hm; [lia|]. intros Hc2. specialize (Hlen2 Hc2). cbn [s_rest set_ch] in *. lia.
      + cbn [sres_ok peek_post]. split; [exact He1|]. split; [exact Hk1|]. split; [reflexivity|].
        split. { intros HE. rewrite HE in E. discriminate. }
        apply Hm; [apply He1 | exact Hlen1].
    - cbn [sres_ok peek_post]. apply Z.eqb_neq in E. split; [|split; [|split; [|split]]].
      + apply ext_refl; assumption.
      + destruct Hch; [contradiction | assumption].
      + reflexivity.
      + auto.
      + lia.
  Qed.

  (** Next: returns the current character and reads one more; strictly advances unless at EOF *)
  Definition Next_post (s : sstate) (r : Z * sstate) : Prop :=
    let '(c, s') := r in
    ext s s' /\ chk (s_ch s') s' /\
    (smeasure s' <= smeasure s)%nat /\
    (c <> EOF -> tokoff s < tokoff s' /\ (smeasure s' < smeasure s)%nat).

  Lemma sc_Next_spec : forall s, sinv s -> sres_ok (sc_Next s) (Next_post s).
  Proof.
    intros s Hs. unfold sc_Next. eapply sres_ok_bind. { apply sc_peek_spec; assumption. }
    intros [ch s1] (He1 & Hk1 & Hch1 & Heof & Hm1). destruct (ch =? EOF) eqn:E.
    - cbn [sres_ok Next_post]. apply Z.eqb_eq in E. split; [exact He1|]. split.
      + rewrite Hch1. assumption.
      + split; [exact Hm1|]. intros HH. exfalso. apply HH. exact E.
    - apply Z.eqb_neq in E. eapply sres_ok_bind. { apply sc_next_spec. apply He1. }
      intros [c2 s2] (He2 & Hk2 & Hto & _ & Hlen). cbn [sres_ok Next_post s_ch set_ch].
      assert (Hlt : (smeasure (set_ch s2 c2) < smeasure s1)%nat).
      { unfold smeasure. cbn [s_rest s_ch set_ch]. rewrite Hch1.
        destruct (ch =? EOF) eqn:E1; [apply Z.eqb_eq in E1; contradiction|].
        destruct (c2 =? EOF) eqn:E2.
        - destruct He2 as (_ & _ & _ & Hl2). lia.
        - apply Z.eqb_neq in E2. specialize (Hlen E2). lia. }
      split; [|split; [|split; [|intros _; split]]].
      + apply (ext_trans s s1); eassumption.
      + assumption.
      + lia.
      + destruct Hk1 as [[? _]|(_ & _ & Hl)]; [contradiction|].
        destruct He1 as (_ & ? & _). change (tokoff (set_ch s2 c2)) with (tokoff s2). lia.
      + lia.
  Qed.

  (** ------------------------------------------------------------ loops *)

  Definition loop_post (s : sstate) (r : Z * sstate) : Prop := let '(c, s') := r in ext s s' /\ chk c s'.

  Definition enough (f : nat) (ch : Z) (s : sstate) : Prop := (length (s_rest s) < f)%nat \/ ch = EOF.

  Lemma enough_next : forall f c s s1,
    enough (S f) c s -> (c <> EOF -> True) ->
    forall c1, (c1 <> EOF -> (length (s_rest s1) < length (s_rest s))%nat) ->
    (length (s_rest s1) <= length (s_rest s))%nat -> c <> EOF -> enough f c1 s1.
  Proof.
    intros f c s s1 [H|H] _ c1 Hlt Hle Hc; [|contradiction].
    destruct (Z.eq_dec c1 EOF); [right; assumption|left]. specialize (Hlt n). lia.
  Qed.

  Lemma skip_ws_spec : forall f ch s, core s -> chk ch s -> enough f ch s ->
    sres_ok (skip_ws f ch s) (loop_post s).
  Proof.
    induction f; intros ch s Hc Hk Hf; cbn [skip_ws]; destruct (is_ws (s_ws s) ch) eqn:E;
      try (cbn [sres_ok loop_post]; split; [apply ext_refl; assumption | assumption]).
    - destruct Hf as [Hf|Hf]; [lia|]. subst ch. discriminate E.
    - assert (Hne : ch <> EOF) by (intros ->; discriminate E).
      eapply sres_ok_bind; [apply sc_next_spec; assumption|]. intros [c s1] (He & Hk1 & _ & _ & Hlen).
      eapply sres_ok_weaken.
      + apply IHf; [apply He | assumption |]. eapply enough_next; try eassumption; auto. apply He.
      + intros [c' s'] (He' & Hk'). split; [apply (ext_trans s s1); assumption | assumption].
  Qed.

  Lemma ident_rune_eof : forall b, is_ident_rune il id EOF b = false.
  Proof. intros. reflexivity. Qed.

  Lemma scan_ident_loop_spec : forall f ch s, core s -> chk ch s -> enough f ch s ->
    sres_ok (scan_ident_loop il id f ch s) (loop_post s).
  Proof.
    induction f; intros ch s Hc Hk Hf; cbn [scan_ident_loop]; destruct (is_ident_rune il id ch true) eqn:E;
      try (cbn [sres_ok loop_post]; split; [apply ext_refl; assumption | assumption]).
    - destruct Hf as [Hf|Hf]; [lia|]. subst ch. rewrite ident_rune_eof in E. discriminate E.
    - assert (Hne : ch <> EOF) by (intros ->; rewrite ident_rune_eof in E; discriminate E).
      eapply sres_ok_bind; [apply sc_next_spec; assumption|]. intros [c s1] (He & Hk1 & _ & _ & Hlen).
      eapply sres_ok_weaken.
      + apply IHf; [apply He | assumption |]. eapply enough_next; try eassumption; auto. apply He.
      + intros [c' s'] (He' & Hk'). split; [apply (ext_trans s s1); assumption | assumption].
  Qed.

  Definition digits_post (ch : Z) (s : sstate) (r : Z * Z * Z * sstate) : Prop :=
    let '(c, _, _, s') := r in
    ext s s' /\ chk c s' /\ (is_decimal ch = true -> tokoff s + blen (s_last s) <= tokoff s').

  Definition digits_continue (ch base : Z) : bool :=
    if base <=? 10 then is_decimal ch || (ch =? 95) else is_hex ch || (ch =? 95).

  Lemma digits_continue_eof : forall base, digits_continue EOF base = false.
  Proof. intros. unfold digits_continue. destruct (base <=? 10); reflexivity. Qed.

  Lemma digits_continue_decimal : forall ch base, is_decimal ch = true -> digits_continue ch base = true.
  Proof. intros. unfold digits_continue, is_hex. rewrite H. destruct (base <=? 10); reflexivity. Qed.

  Lemma digits_spec : forall f ch base inv ds s, core s -> chk ch s -> enough f ch s ->
    sres_ok (digits f ch base inv ds s) (digits_post ch s).
  Proof.
    induction f; intros ch base inv ds s Hc Hk Hf; cbn [digits]; fold (digits_continue ch base);
      destruct (digits_continue ch base) eqn:E.
    - destruct Hf as [Hf|Hf]; [lia|]. subst ch. rewrite digits_continue_eof in E. discriminate E.
    - cbn [sres_ok digits_post]. split; [apply ext_refl; assumption|]. split; [assumption|].
      intros Hd. rewrite (digits_continue_decimal _ _ Hd) in E. discriminate E.
    - assert (Hne : ch <> EOF) by (intros ->; rewrite digits_continue_eof in E; discriminate E).
      eapply sres_ok_bind; [apply sc_next_spec; assumption|]. intros [c s1] (He & Hk1 & Hto & _ & Hlen).
      eapply sres_ok_weaken.
      + apply IHf; [apply He | assumption |]. eapply enough_next; try eassumption; auto. apply He.
      + intros [[[c' ds'] inv'] s'] (He' & Hk' & _). split; [apply (ext_trans s s1); assumption|].
        split; [assumption|]. intros _. destruct He' as (_ & Hm & _). lia.
    - cbn [sres_ok digits_post]. split; [apply ext_refl; assumption|]. split; [assumption|].
      intros Hd. rewrite (digits_continue_decimal _ _ Hd) in E. discriminate E.
  Qed.

  (** ------------------------------------------------------------ numbers *)

  (** [s] is reachable from the token start [s0] and at least the first character was consumed *)
  Definition strict (s0 s : sstate) : Prop := tokoff s0 + blen (s_last s0) <= tokoff s.
  Definition St (s0 : sstate) (ch : Z) (s : sstate) : Prop := ext s0 s /\ chk ch s /\ strict s0 s.

  Lemma fuel_ext : forall s0 s c, (length (s_rest s0) < F)%nat -> ext s0 s -> enough F c s.
  Proof. intros s0 s c H (_ & _ & _ & Hl). left. lia. Qed.

  Lemma next_St : forall s0 s, ext s0 s -> strict s0 s \/ s = s0 ->
    sres_ok (sc_next s) (fun r => St s0 (fst r) (snd r)).
  Proof.
    intros s0 s He Hs. eapply sres_ok_weaken; [apply sc_next_spec; apply He|].
    intros [c s1] (He1 & Hk1 & Hto & _ & _). cbn [fst snd]. split; [apply (ext_trans s0 s); assumption|].
    split; [assumption|]. unfold strict in *. pose proof (blen_nonneg (s_last s)).
    destruct Hs as [Hs | ->]; lia.
  Qed.

  Lemma digits_St : forall s0 s ch base inv ds, (length (s_rest s0) < F)%nat ->
    ext s0 s -> chk ch s -> strict s0 s \/ (s = s0 /\ is_decimal ch = true) ->
    sres_ok (digits F ch base inv ds s) (fun r => let '(c, _, _, s') := r in St s0 c s').
  Proof.
    intros s0 s ch base inv ds Hf He Hk Hs. eapply sres_ok_weaken.
    - apply digits_spec; [apply He | assumption | eapply fuel_ext; eassumption].
    - intros [[[c ds'] inv'] s'] (He' & Hk' & Hd). split; [apply (ext_trans s0 s); assumption|].
      split; [assumption|]. unfold strict in *. destruct Hs as [Hs | [-> Hdec]].
      + destruct He' as (_ & Hm & _). lia.
      + apply Hd. assumption.
  Qed.

  Definition number_post (s0 : sstate) (r : Z * Z * sstate) : Prop :=
    let '(tok, ch, s) := r in St s0 ch s /\ (tok = TInt \/ tok = TFloat).

  Lemma scan_number_spec : forall src0 tokpos ch0 sd s0,
    core s0 -> chk ch0 s0 -> is_decimal ch0 = true -> (length (s_rest s0) < F)%nat ->
    sres_ok (scan_number F src0 tokpos ch0 sd s0) (number_post s0).
  Proof.
    intros src0 tokpos ch0 sd s0 Hc Hk Hd Hfuel. unfold scan_number, scan_intpart, scan_fraction, scan_exponent.
    pose proof (ext_refl s0 Hc) as He0.
    (* phase 1 *)
    eapply sres_ok_bind with
      (P := fun r => let '(_, _, _, _, ch, sd', s) := r in
                     ext s0 s /\ chk ch s /\ (strict s0 s \/ (s = s0 /\ is_decimal ch = true /\ sd' = true))).
    { destruct sd.
      - cbn [sres_ok]. split; [assumption|]. split; [assumption|]. right. auto.
      - eapply sres_ok_bind with
          (P := fun r => let '(_, _, _, ch, s) := r in
                         ext s0 s /\ chk ch s /\ (strict s0 s \/ (s = s0 /\ is_decimal ch = true))).
        { destruct (ch0 =? 48).
          - eapply sres_ok_bind; [apply (next_St s0 s0); auto|]. intros [c1 s1] (He1 & Hk1 & Hs1). cbn [fst snd] in *.
            destruct (lower c1 =? 120); [|destruct (lower c1 =? 111); [|destruct (lower c1 =? 98)]];
              try (eapply sres_ok_bind; [apply (next_St s0 s1); auto|]; intros [c2 s2] (He2 & Hk2 & Hs2);
                   cbn [fst snd sres_ok] in *; auto).
            cbn [sres_ok]. auto.
          - cbn [sres_ok]. auto. }
        intros [[[[base prefix] digsep] ch] s] (He & Hk' & Hs). cbv beta iota.
        eapply sres_ok_bind; [apply (digits_St s0 s); assumption|].
        intros [[[c ds] inv] s1] (He1 & Hk1 & Hs1). cbv beta iota.
        destruct (c =? 46).
        + eapply sres_ok_bind; [apply (next_St s0 s1); auto|]. intros [c2 s2] (He2 & Hk2 & Hs2).
          cbn [fst snd sres_ok] in *. auto.
        + cbn [sres_ok]. auto. }
    intros [[[[[[base prefix] digsep] invalid] ch] sd'] s] (He & Hk' & Hs). cbv beta iota.
    (* phase 2 *)
    eapply sres_ok_bind with
      (P := fun r => let '(tok, _, _, ch, s) := r in St s0 ch s /\ (tok = TInt \/ tok = TFloat)).
    { destruct sd'.
      - destruct ((prefix =? 111) || (prefix =? 98)). { cbn [sres_ok]. apply okpos_sc_pos. apply He. }
        eapply sres_ok_bind.
        { apply (digits_St s0 s); try assumption. destruct Hs as [Hs | (? & ? & ?)]; auto. }
        intros [[[c ds] inv] s1] HSt. cbn [sres_ok]. auto.
      - cbn [sres_ok]. destruct Hs as [Hs | (_ & _ & Hf)]; [|discriminate Hf]. unfold St. auto. }
    intros [[[[tok digsep2] invalid2] ch2] s2] ((He2 & Hk2 & Hs2) & Htok). cbv beta iota.
    destruct (Z.land digsep2 1 =? 0). { cbn [sres_ok]. apply okpos_sc_pos. apply He2. }
    (* exponent *)
    eapply sres_ok_bind with
      (P := fun r => let '(tok, _, ch, s) := r in St s0 ch s /\ (tok = TInt \/ tok = TFloat)).
    { destruct ((lower ch2 =? 101) || (lower ch2 =? 112)).
      - destruct ((lower ch2 =? 101) && negb (prefix =? 0) && negb (prefix =? 48)).
        { cbn [sres_ok]. apply okpos_sc_pos. apply He2. }
        destruct ((lower ch2 =? 112) && negb (prefix =? 120)).
        { cbn [sres_ok]. apply okpos_sc_pos. apply He2. }
        eapply sres_ok_bind; [apply (next_St s0 s2); auto|]. intros [c3 s3] (He3 & Hk3 & Hs3). cbn [fst snd] in *.
        eapply sres_ok_bind with (P := fun r => St s0 (fst r) (snd r)).
        { destruct ((c3 =? 43) || (c3 =? 45)).
          - apply (next_St s0 s3); auto.
          - cbn [sres_ok fst snd]. unfold St. auto. }
        intros [c4 s4] (He4 & Hk4 & Hs4). cbn [fst snd] in *.
        eapply sres_ok_bind; [apply (digits_St s0 s4); auto|].
        intros [[[c5 ds5] inv5] s5] (He5 & Hk5 & Hs5). cbv beta iota.
        destruct (Z.land ds5 1 =? 0). { cbn [sres_ok]. apply okpos_sc_pos. apply He5. }
        cbn [sres_ok]. unfold St. auto.
      - destruct ((prefix =? 120) && (tok =? TFloat)). { cbn [sres_ok]. apply okpos_sc_pos. apply He2. }
        cbn [sres_ok]. unfold St. auto. }
    intros [[[tok3 digsep3] ch3] s3] ((He3 & Hk3 & Hs3) & Htok3). cbv beta iota.
    destruct ((tok3 =? TInt) && negb (invalid2 =? 0)). { cbn [sres_ok]. apply okpos_sc_pos. apply He3. }
    match goal with |- sres_ok (if ?c then _ else _) _ => destruct c end.
    { cbn [sres_ok]. apply okpos_sc_pos. apply He3. }
    cbn [sres_ok number_post]. unfold St. auto.
  Qed.

  (** ------------------------------------------------------------ Scan *)

  Definition tok_ok (t : token) : Prop := okpos (t_pos t) /\ (t_typ t <> EOF -> t_txt t <> []).

  Definition scan_post (s : sstate) (r : token * sstate) : Prop :=
    let '(t, s') := r in
    sinv s' /\ s_ws s' = s_ws s /\ tok_ok t
    /\ tokoff s <= p_offset (t_pos t) <= tokoff s'
    /\ (t_typ t <> EOF -> p_offset (t_pos t) < tokoff s')
    /\ (length (s_rest s') <= length (s_rest s))%nat.

  Lemma firstn_nonempty : forall (a b : bytes) d, 1 <= blen a -> 1 <= d -> firstn (Z.to_nat d) (a ++ b) <> [].
  Proof.
    intros a b d Ha Hd. destruct a as [|x a']. { rewrite blen_nil in Ha. lia. }
    destruct (Z.to_nat d) eqn:E; [lia|]. cbn. discriminate.
  Qed.

  Lemma is_decimal_eof : is_decimal EOF = false.
  Proof. reflexivity. Qed.

  Lemma sc_scan_spec : forall s, sinv s -> (length (s_rest s) < F)%nat ->
    sres_ok (sc_scan il id F s) (scan_post s).
  Proof.
    intros s Hs Hfuel. unfold sc_scan.
    eapply sres_ok_bind; [apply sc_peek_spec; assumption|]. intros [ch1 s1] (He1 & Hk1 & _ & _ & _).
    eapply sres_ok_bind.
    { apply skip_ws_spec; [apply He1 | assumption | eapply fuel_ext; eassumption]. }
    intros [ch2 s2] (He2 & Hk2). cbv beta iota zeta.
    assert (He02 : ext s s2) by (apply (ext_trans s s1); assumption).
    assert (Hf2 : (length (s_rest s2) < F)%nat) by (destruct He02 as (_ & _ & _ & ?); lia).
    assert (Hc2 : core s2) by apply He2.
    eapply sres_ok_bind with
      (P := fun r => let '(tok, ch', s') := r in
                     ext s2 s' /\ chk ch' s' /\ ((tok <> EOF /\ strict s2 s' /\ ch2 <> EOF) \/ (tok = EOF /\ s' = s2))).
    { destruct (is_ident_rune il id ch2 false) eqn:Eid.
      { assert (ch2 <> EOF) by (intros ->; rewrite ident_rune_eof in Eid; discriminate).
        unfold scan_identifier.
        eapply sres_ok_bind with (P := fun r => St s2 (fst r) (snd r)).
        { eapply sres_ok_bind; [apply (next_St s2 s2); [apply ext_refl; assumption | auto]|].
          intros [c3 s3] (He3 & Hk3 & Hs3). cbn [fst snd] in *.
          eapply sres_ok_weaken.
          - apply scan_ident_loop_spec; [apply He3 | assumption | eapply fuel_ext; eassumption].
          - intros [c4 s4] (He4 & Hk4). cbn [fst snd]. split; [eapply ext_trans; eassumption|].
            split; [assumption|]. unfold strict in *. destruct He4 as (_ & ? & _). lia. }
        intros [c4 s4] (He4 & Hk4 & Hs4). cbn [sres_ok fst snd] in *. split; [assumption|].
        split; [assumption|]. left. split; [unfold TIdent, EOF; lia|]. split; assumption. }
      destruct (is_decimal ch2) eqn:Edec.
      { assert (ch2 <> EOF) by (intros ->; discriminate).
        eapply sres_ok_weaken; [apply scan_number_spec; assumption|].
        intros [[tok ch'] s'] ((He & Hk & Hst) & Htok). split; [assumption|]. split; [assumption|]. left.
        split; [unfold TInt, TFloat, EOF in *; lia | auto]. }
      destruct (ch2 =? EOF) eqn:Eeof.
      { apply Z.eqb_eq in Eeof. cbn [sres_ok]. split; [apply ext_refl; assumption|]. split; [assumption|]. right. auto. }
      apply Z.eqb_neq in Eeof.
      destruct (ch2 =? 46) eqn:Edot.
      { eapply sres_ok_bind; [apply (next_St s2 s2); [apply ext_refl; assumption | auto]|].
        intros [c3 s3] (He3 & Hk3 & Hs3). cbn [fst snd] in *. destruct (is_decimal c3) eqn:Ed3.
        - eapply sres_ok_weaken.
          + apply scan_number_spec; [apply He3 | assumption | assumption |]. destruct He3 as (_ & _ & _ & ?). lia.
          + intros [[tok ch'] s'] ((He & Hk & Hst) & Htok). split; [eapply ext_trans; eassumption|].
            split; [assumption|]. left. split; [unfold TInt, TFloat, EOF in *; lia|]. split; [|assumption].
            unfold strict in *. destruct He as (_ & ? & _). lia.
        - cbn [sres_ok]. split; [assumption|]. split; [assumption|]. left. auto. }
      eapply sres_ok_bind; [apply (next_St s2 s2); [apply ext_refl; assumption | auto]|].
      intros [c3 s3] (He3 & Hk3 & Hs3). cbn [fst snd sres_ok] in *. split; [assumption|]. split; [assumption|]. left. auto. }
    intros [[tok ch'] s'] (He' & Hk' & Hcase). cbv beta iota. cbn [sres_ok scan_post t_typ t_pos t_txt].
    assert (Hoff : p_offset (if 0 <? s_col s2
                             then {| p_line := s_line s2; p_column := s_col s2; p_offset := s_pos s2 - blen (s_last s2) |}
                             else {| p_line := s_line s2 - 1; p_column := s_lastlinelen s2; p_offset := s_pos s2 - blen (s_last s2) |})
                   = tokoff s2) by (destruct (0 <? s_col s2); reflexivity).
    rewrite Hoff. change (tokoff (set_ch s' ch')) with (tokoff s').
    change (s_rest (set_ch s' ch')) with (s_rest s'). change (s_ws (set_ch s' ch')) with (s_ws s').
    pose proof (core_bounds s2 Hc2) as Hb2.
    destruct He02 as (_ & Hm02 & Hws02 & Hl02). destruct He' as (Hc' & Hm' & Hws' & Hl').
    split. { split; [exact Hc'|]. right. exact Hk'. }
    split. { congruence. }
    split.
    { unfold tok_ok. cbn [t_typ t_pos t_txt]. split. { unfold okpos. rewrite Hoff. exact Hb2. }
      intros Hne. destruct Hcase as [(_ & Hst & Hch2) | (Heq & _)]; [|contradiction].
      destruct Hk2 as [(? & _) | (_ & _ & Hl2)]; [contradiction|].
      apply firstn_nonempty; [assumption|]. unfold strict, tokoff in *. lia. }
    split. { lia. }
    split.
    { intros Hne. destruct Hcase as [(_ & Hst & Hch2) | (Heq & _)]; [|contradiction].
      destruct Hk2 as [(? & _) | (_ & _ & Hl2)]; [contradiction|]. unfold strict in Hst. lia. }
    lia.
  Qed.
End Inv.
