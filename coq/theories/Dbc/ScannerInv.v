(** Invariants of the scanner model (Dbc/Scanner.v): offsets stay inside the input, every call of
    [sc_next] that returns a character consumes input, the loops never run out of fuel when the
    fuel exceeds the length of the unread input, a non-EOF token has a non-empty text and ends
    strictly after it starts.  Used by Dbc/Totality.v. *)
From Coq Require Import ZArith List Bool Lia.
From CanVerif Require Import Dbc.Ast Dbc.Scanner.
Import ListNotations.
Open Scope Z_scope.

Definition byte (b : Z) : Prop := 0 <= b < 256.

Lemma blen_nonneg : forall b, 0 <= blen b.
Proof. intros. unfold blen. lia. Qed.

Lemma blen_app : forall a b, blen (a ++ b) = blen a + blen b.
Proof. intros. unfold blen. rewrite app_length. lia. Qed.

Lemma blen_cons : forall x b, blen (x :: b) = 1 + blen b.
Proof. intros. unfold blen. cbn [length]. lia. Qed.

Lemma blen_nil : blen [] = 0.
Proof. reflexivity. Qed.

(** utf8_decode returns a non-negative rune and a width between 1 and the available bytes *)
Lemma lor_nonneg : forall a b, 0 <= a -> 0 <= b -> 0 <= Z.lor a b.
Proof. intros. apply Z.lor_nonneg. split; assumption. Qed.

Lemma shl_land_nonneg : forall a m k, 0 <= m -> 0 <= k -> 0 <= Z.shiftl (Z.land a m) k.
Proof. intros. apply Z.shiftl_nonneg. apply Z.land_nonneg. right. assumption. Qed.

Lemma land_nonneg' : forall a m, 0 <= m -> 0 <= Z.land a m.
Proof. intros. apply Z.land_nonneg. right. assumption. Qed.

Lemma utf8_decode_spec : forall b0 t r w,
  0 <= b0 -> utf8_decode (b0 :: t) = (r, w) -> 0 <= r /\ 1 <= w <= blen (b0 :: t).
Proof.
  intros b0 t r w Hb H. unfold utf8_decode in H.
  assert (Hre : 0 <= rune_error) by (unfold rune_error; lia).
  assert (H1 : 1 <= blen (b0 :: t)) by (rewrite blen_cons; pose proof (blen_nonneg t); lia).
  destruct (b0 <? 128). { injection H as ? ?; subst. lia. }
  destruct (b0 <? 194). { injection H as ? ?; subst. lia. }
  destruct (b0 <? 224).
  { destruct t as [|b1 t']. { injection H as ? ?; subst; lia. }
    destruct (is_cont b1); injection H as ? ?; subst; try lia.
    split. { unfold rune2. apply lor_nonneg; [apply shl_land_nonneg | apply land_nonneg']; lia. }
    rewrite !blen_cons. pose proof (blen_nonneg t'). lia. }
  destruct (b0 <? 240).
  { destruct t as [|b1 [|b2 t']]; try (injection H as ? ?; subst; lia).
    match type of H with (if ?c then _ else _) = _ => destruct c end; injection H as ? ?; subst; try lia.
    split. { unfold rune3, rune4. repeat apply lor_nonneg; try apply shl_land_nonneg; try apply land_nonneg'; lia. }
    rewrite !blen_cons. pose proof (blen_nonneg t'). lia. }
  destruct (b0 <? 245).
  { destruct t as [|b1 [|b2 [|b3 t']]]; try (injection H as ? ?; subst; lia).
    match type of H with (if ?c then _ else _) = _ => destruct c end; injection H as ? ?; subst; try lia.
    split. { unfold rune3, rune4. repeat apply lor_nonneg; try apply shl_land_nonneg; try apply land_nonneg'; lia. }
    rewrite !blen_cons. pose proof (blen_nonneg t'). lia. }
  injection H as ? ?; subst. lia.
Qed.

Lemma firstn_blen : forall (l : bytes) w, 0 <= w <= blen l -> blen (firstn (Z.to_nat w) l) = w.
Proof. intros. unfold blen in *. rewrite firstn_length. lia. Qed.

Lemma skipn_blen : forall (l : bytes) w, 0 <= w <= blen l -> blen (skipn (Z.to_nat w) l) = blen l - w.
Proof. intros. unfold blen in *. rewrite skipn_length. lia. Qed.

Section Inv.
  Variable N : Z.   (* length of the whole input *)

  Definition okpos (p : position) : Prop := 0 <= p_offset p <= N.

  (** offset of the character read last (Go: srcBufOffset + srcPos - lastCharLen) *)
  Definition tokoff (s : sstate) : Z := s_pos s - blen (s_last s).

  (** [ch] is the character read last *)
  Definition chk (ch : Z) (s : sstate) : Prop :=
    (ch = EOF /\ s_last s = []) \/ (ch <> EOF /\ ch <> NOCHAR /\ 1 <= blen (s_last s)).

  Definition core (s : sstate) : Prop :=
    s_pos s + blen (s_rest s) = N /\ Forall byte (s_rest s) /\ 0 <= tokoff s.

  Definition ext (s s' : sstate) : Prop :=
    core s' /\ tokoff s <= tokoff s' /\ s_ws s' = s_ws s /\ (length (s_rest s') <= length (s_rest s))%nat.

  Definition sinv (s : sstate) : Prop := core s /\ (s_ch s = NOCHAR \/ chk (s_ch s) s).

  Lemma core_bounds : forall s, core s -> 0 <= tokoff s <= N.
  Proof.
    intros s (H1 & _ & H3). unfold tokoff in *. pose proof (blen_nonneg (s_rest s)).
    pose proof (blen_nonneg (s_last s)). lia.
  Qed.

  Lemma sc_pos_offset : forall s, p_offset (sc_pos s) = tokoff s.
  Proof. intros. unfold sc_pos. destruct (0 <? s_col s); [|destruct (0 <? s_lastlinelen s)]; reflexivity. Qed.

  Lemma okpos_sc_pos : forall s, core s -> okpos (sc_pos s).
  Proof. intros. unfold okpos. rewrite sc_pos_offset. apply core_bounds; assumption. Qed.

  Lemma ext_refl : forall s, core s -> ext s s.
  Proof. intros. unfold ext. split; [assumption|]. split; [lia|]. split; [reflexivity|lia]. Qed.

  Lemma ext_trans : forall a b c, ext a b -> ext b c -> ext a c.
  Proof.
    unfold ext. intros a b c (?&?&?&?) (Hc&?&?&?). split; [exact Hc|]. split; [lia|]. split; [congruence|lia].
  Qed.

  Lemma ext_set_ch : forall s s' c, ext s s' -> ext s (set_ch s' c).
  Proof. intros. exact H. Qed.

  (** what a result of a scanner step has to satisfy *)
  Definition sres_ok {A} (m : sres A) (Post : A -> Prop) : Prop :=
    match m with
    | SOk a => Post a
    | SErr p _ => okpos p
    | SFuel => False
    end.

  Lemma sres_ok_bind : forall A B (m : sres A) (f : A -> sres B) P Q,
    sres_ok m P -> (forall a, P a -> sres_ok (f a) Q) -> sres_ok (sbind m f) Q.
  Proof. intros. destruct m; cbn in *; auto. Qed.

  Lemma sres_ok_weaken : forall A (m : sres A) (P Q : A -> Prop),
    sres_ok m P -> (forall a, P a -> Q a) -> sres_ok m Q.
  Proof. intros. destruct m; cbn in *; auto. Qed.

  (** one character *)
  Definition next_post (s : sstate) (r : Z * sstate) : Prop :=
    let '(c, s') := r in
    ext s s' /\ chk c s' /\ tokoff s' = tokoff s + blen (s_last s) /\ s_ch s' = s_ch s
    /\ (c <> EOF -> (length (s_rest s') < length (s_rest s))%nat).

  Lemma sc_next_spec : forall s, core s -> sres_ok (sc_next s) (next_post s).
  Proof.
    intros s Hc. pose proof Hc as (Hn & Hb & Ht). unfold sc_next.
    destruct (s_rest s) as [|b0 t] eqn:Hr.
    - cbn [sres_ok next_post]. unfold tokoff in Ht. pose proof (blen_nonneg (s_last s)) as Hl.
      split; [|split; [|split; [|split]]].
      + unfold ext, core, tokoff. cbn [s_rest s_last s_pos s_ws]. rewrite Hr in *. rewrite blen_nil in *.
        split; [|split; [|split]]; try reflexivity; try lia. split; [lia|]. split; [constructor|lia].
      + left. split; reflexivity.
      + unfold tokoff. cbn [s_last s_pos]. rewrite blen_nil. lia.
      + reflexivity.
      + intros HH. exfalso. apply HH. reflexivity.
    - assert (Hb0 : 0 <= b0 < 256) by (inversion Hb; assumption).
      destruct (if b0 <? 128 then (b0, 1) else utf8_decode (b0 :: t)) as [ch w] eqn:Hd.
      assert (Hw : 0 <= ch /\ 1 <= w <= blen (b0 :: t)).
      { destruct (b0 <? 128) eqn:E.
        - inversion Hd; subst. rewrite blen_cons. pose proof (blen_nonneg t). lia.
        - apply (utf8_decode_spec b0 t); [lia | assumption]. }
      destruct Hw as (Hch & Hw).
      set (s1 := {| s_rest := skipn (Z.to_nat w) (b0 :: t); s_last := firstn (Z.to_nat w) (b0 :: t);
                    s_pos := s_pos s + w; s_line := s_line s; s_col := s_col s + 1;
                    s_lastlinelen := s_lastlinelen s; s_ch := s_ch s; s_ws := s_ws s |}).
      assert (Hl1 : blen (s_last s1) = w) by (apply firstn_blen; lia).
      assert (Hr1 : blen (s_rest s1) = blen (b0 :: t) - w) by (apply skipn_blen; lia).
      assert (Hc1 : core s1).
      { unfold core, tokoff. rewrite Hl1, Hr1. cbn [s_pos s_rest s1]. repeat split; try lia.
        - lia.
        - rewrite <- (firstn_skipn (Z.to_nat w) (b0 :: t)) in Hb. apply Forall_app in Hb. apply Hb.
        - unfold tokoff in Ht. pose proof (blen_nonneg (s_last s)). lia. }
      assert (Hlen : (length (s_rest s1) < length (b0 :: t))%nat).
      { cbn [s_rest s1]. rewrite skipn_length. cbn [length]. lia. }
      assert (Hto : tokoff s1 = tokoff s + blen (s_last s)).
      { unfold tokoff. rewrite Hl1. cbn [s_pos s1]. lia. }
      assert (Hext : ext s s1).
      { unfold ext. repeat split; try apply Hc1; try reflexivity.
        - rewrite Hto. pose proof (blen_nonneg (s_last s)). lia.
        - rewrite Hr. lia. }
      assert (Hchk : chk ch s1).
      { right. unfold EOF, NOCHAR. repeat split; lia. }
      destruct ((ch =? rune_error) && (w =? 1)). { cbn. apply okpos_sc_pos. assumption. }
      destruct (ch =? 0). { cbn. apply okpos_sc_pos. assumption. }
      destruct (ch =? 10).
      + cbn. unfold ext, core, chk, tokoff in *. cbn [s_rest s_last s_pos s_ws s_ch s1] in *.
        rewrite Hr. repeat split; try tauto; try lia. apply Hc1.
      + cbn. rewrite Hr. repeat split; try assumption. intros; assumption.
  Qed.

  (** Peek *)
  Definition peek_post (s : sstate) (r : Z * sstate) : Prop :=
    let '(c, s') := r in ext s s' /\ chk c s' /\ s_ch s' = c /\ (s_ch s = EOF -> c = EOF).

  Lemma sc_peek_spec : forall s, sinv s -> sres_ok (sc_peek s) (peek_post s).
  Proof.
    intros s (Hc & Hch). unfold sc_peek. destruct (s_ch s =? NOCHAR) eqn:E.
    - eapply sres_ok_bind. { apply sc_next_spec; assumption. }
      intros [c s1] (He1 & Hk1 & _ & _ & _). destruct (c =? 65279).
      + eapply sres_ok_bind. { apply sc_next_spec. apply He1. }
        intros [c2 s2] (He2 & Hk2 & _ & _ & _). cbn. apply Z.eqb_eq in E. repeat split.
        * eapply ext_trans; [exact He1 | exact He2].
        * exact Hk2.
        * intros HE. rewrite HE in E. discriminate.
      + cbn. apply Z.eqb_eq in E. repeat split; try assumption. intros HE. rewrite HE in E. discriminate.
    - cbn. apply Z.eqb_neq in E. repeat split.
      + apply ext_refl; assumption.
      + destruct Hch; [contradiction | assumption].
      + auto.
  Qed.

  (** Next: returns the current character and reads one more; strictly advances unless at EOF *)
  Definition Next_post (s : sstate) (r : Z * sstate) : Prop :=
    let '(c, s') := r in
    ext s s' /\ chk (s_ch s') s' /\
    (c <> EOF -> tokoff s < tokoff s' /\
                 (length (s_rest s') + (if s_ch s' =? EOF then 0 else 1) <
                  length (s_rest s) + (if s_ch s =? EOF then 0 else 1))%nat).

  Lemma sc_Next_spec : forall s, sinv s -> sres_ok (sc_Next s) (Next_post s).
  Proof.
    intros s Hs. unfold sc_Next. eapply sres_ok_bind. { apply sc_peek_spec; assumption. }
    intros [ch s1] (He1 & Hk1 & Hch1 & Heof). destruct (ch =? EOF) eqn:E.
    - cbn. apply Z.eqb_eq in E. subst ch. repeat split; try assumption.
      + rewrite Hch1. assumption.
      + intros; congruence.
    - apply Z.eqb_neq in E. eapply sres_ok_bind. { apply sc_next_spec. apply He1. }
      intros [c2 s2] (He2 & Hk2 & Hto & _ & Hlen). cbn. repeat split.
      + eapply ext_trans; eassumption.
      + assumption.
      + destruct Hk1 as [[? _]|(_ & _ & Hl)]; [contradiction|].
        destruct He1 as (_ & ? & _). lia.
      + destruct He1 as (_ & _ & _ & Hl1).
        assert (Hs0 : (s_ch s =? EOF) = false).
        { destruct (s_ch s =? EOF) eqn:E0; [|reflexivity]. apply Z.eqb_eq in E0. apply Heof in E0. contradiction. }
        rewrite Hs0. destruct (c2 =? EOF) eqn:E2.
        * destruct He2 as (_ & _ & _ & Hl2). lia.
        * apply Z.eqb_neq in E2. specialize (Hlen E2). lia.
  Qed.
End Inv.
