(** Parser.int after the fix F12: the conversion of a decimal integer token is EXACT (saturating at the
    int64 limits), for digit strings of any length; and the conversion as it was ([int_of_token_old],
    through float64) is not.  PROOFS about [DecFloat.int_of_token] / [Printer.num_int].

    [uint_value ds] (Dbc/Printer.v) is the base-ten value of a digit string; [itoa] (Base/Dec.v) is
    strconv.Itoa / FormatInt(_, 10). *)
From Coq Require Import String ZArith List Bool Lia.
From CanVerif Require Import Base.Dec Dbc.Ast Dbc.Scanner Dbc.DecFloat Dbc.Parser Dbc.ScanLemmas Dbc.Printer.
Import ListNotations.
Open Scope Z_scope.

Definition digit_string (ds : bytes) : Prop := ds <> [] /\ Forall (fun a => is_decimal a = true) ds.

Lemma fold_digits_ge : forall s acc, 0 <= acc -> Forall (fun a => is_decimal a = true) s ->
  acc <= fold_left (fun a c => a * 10 + (c - 48)) s acc.
Proof.
  induction s as [|c s IH]; intros acc Ha Hs; cbn [fold_left]; [lia|].
  inversion Hs as [|? ? Hc Hs']; subst. unfold is_decimal in Hc. apply andb_true_iff in Hc. destruct Hc as [H1 H2].
  apply Z.leb_le in H1, H2.
  assert (H0 : 0 <= acc * 10 + (c - 48)) by lia. specialize (IH _ H0 Hs'). lia.
Qed.

(** ParseUint(s, 10, 64) on digits: the value when it is below 2^64, ErrRange otherwise *)
Lemma uint_loop_r_digits : forall s acc, 0 <= acc < two64 -> Forall (fun a => is_decimal a = true) s ->
  uint_loop_r s acc =
  let v := fold_left (fun a c => a * 10 + (c - 48)) s acc in if two64 <=? v then URange else UOk v.
Proof.
  induction s as [|c s IH]; intros acc Ha Hs; cbn [fold_left uint_loop_r]; cbv zeta.
  - destruct (Z.leb_spec two64 acc); [lia|reflexivity].
  - inversion Hs as [|? ? Hc Hs']; subst. unfold dig. fold (is_decimal c). rewrite Hc.
    pose proof Hc as Hc'. unfold is_decimal in Hc'. apply andb_true_iff in Hc'. destruct Hc' as [H1 H2].
    apply Z.leb_le in H1, H2.
    assert (H0 : 0 <= acc * 10 + (c - 48)) by lia.
    pose proof (fold_digits_ge s _ H0 Hs') as Hge.
    destruct (Z.leb_spec two64 (acc * 10 + (c - 48))) as [Hov|Hok].
    + destruct (Z.leb_spec two64 (fold_left (fun a c0 => a * 10 + (c0 - 48)) s (acc * 10 + (c - 48)))); [reflexivity|lia].
    + rewrite IH by (try assumption; lia). reflexivity.
Qed.

Lemma parse_uint_r_digits : forall ds, digit_string ds ->
  parse_uint_r ds = if two64 <=? uint_value ds then URange else UOk (uint_value ds).
Proof.
  intros ds (Hne & Hd). unfold parse_uint_r, uint_value. destruct ds as [|c t]; [contradiction|].
  apply (uint_loop_r_digits (c :: t) 0); [unfold two64; lia|exact Hd].
Qed.

Lemma uint_value_nonneg : forall ds, Forall (fun a => is_decimal a = true) ds -> 0 <= uint_value ds.
Proof. intros ds H. exact (fold_digits_ge ds 0 ltac:(lia) H). Qed.

Lemma int_of_uint_sat : forall neg u, 0 <= u -> int_of_uint neg u = sat64 (if neg then - u else u).
Proof.
  intros neg u Hu. unfold int_of_uint, sat64, two63. change (2 ^ 63) with 9223372036854775808.
  destruct neg; destruct (Z.leb_spec 9223372036854775808 u); lia.
Qed.

Lemma int_of_uint_big : forall neg u, two64 <= u -> int_of_uint neg (two64 - 1) = sat64 (if neg then - u else u).
Proof.
  intros neg u Hu. unfold int_of_uint, sat64, two63, two64 in *. change (2 ^ 63) with 9223372036854775808.
  cbn [Z.leb Z.sub Z.compare Z.add Z.opp Z.pos_sub Pos.compare Pos.compare_cont Z.succ_double Z.pred_double Z.double Pos.pred_double].
  destruct neg; lia.
Qed.

(** THE EXACTNESS STATEMENT: a scanner.Int token made of decimal digits (any length, leading zeros
    allowed) is converted to its value with the sign applied, saturated at the int64 limits *)
Theorem int_of_token_digits : forall neg ds, digit_string ds ->
  int_of_token true neg ds = Some (sat64 (if neg then - uint_value ds else uint_value ds)).
Proof.
  intros neg ds Hd. unfold int_of_token. rewrite (parse_uint_r_digits ds Hd).
  pose proof (uint_value_nonneg ds (proj2 Hd)) as H0.
  destruct (Z.leb_spec two64 (uint_value ds)) as [Hbig|Hsmall].
  - rewrite (int_of_uint_big neg (uint_value ds) Hbig). reflexivity.
  - rewrite (int_of_uint_sat neg _ H0). reflexivity.
Qed.

(** ... hence exactly the value whenever that is an int64 *)
Corollary int_of_token_exact : forall (neg : bool) ds, digit_string ds ->
  - 2 ^ 63 <= (if neg then - uint_value ds else uint_value ds) < 2 ^ 63 ->
  int_of_token true neg ds = Some (if neg then - uint_value ds else uint_value ds).
Proof.
  intros neg ds Hd Hr. rewrite (int_of_token_digits neg ds Hd). unfold sat64. f_equal. lia.
Qed.

(** the printed form of a non-negative number is a digit string with that value *)
Lemma uint_value_map : forall ds acc,
  fold_left (fun a c => a * 10 + (c - 48)) ds acc = value_from 10 (map (fun c => c - 48) ds) acc.
Proof. induction ds as [|c t IH]; intros acc; cbn [fold_left map value_from]; [reflexivity|]. unfold value_from in *. cbn [fold_left]. apply IH. Qed.

Lemma itoa_digit_string : forall n, 0 <= n -> digit_string (itoa n) /\ uint_value (itoa n) = n.
Proof.
  intros n Hn. split; [split|].
  - destruct (itoa_shape n Hn) as [E|(c & r & E & _)]; rewrite E; discriminate.
  - pose proof (itoa_digits n Hn) as H. eapply Forall_impl; [|exact H]. intros a Ha. cbv beta in Ha. unfold is_decimal.
    apply andb_true_iff. split; apply Z.leb_le; lia.
  - unfold uint_value. rewrite uint_value_map. exact (itoa_value n Hn).
Qed.

(** every int64, written the way strconv.FormatInt writes it ('-' as its own token, then the digits
    of the magnitude), is read back exactly *)
Theorem int_of_token_itoa : forall z, - 2 ^ 63 <= z < 2 ^ 63 ->
  int_of_token true (z <? 0) (itoa (Z.abs z)) = Some z.
Proof.
  intros z Hz. destruct (itoa_digit_string (Z.abs z) (Z.abs_nonneg z)) as (Hd & Hv).
  rewrite (int_of_token_exact (z <? 0) _ Hd); rewrite Hv.
  - destruct (Z.ltb_spec z 0); f_equal; lia.
  - destruct (Z.ltb_spec z 0); lia.
Qed.

(** one beyond either limit saturates *)
Lemma int_of_token_beyond :
  int_of_token true false (itoa (2 ^ 63)) = Some (2 ^ 63 - 1) /\ int_of_token true true (itoa (2 ^ 63 + 1)) = Some (- 2 ^ 63)
  /\ int_of_token true false (itoa (2 ^ 64)) = Some (2 ^ 63 - 1) /\ int_of_token true true (itoa (2 ^ 64)) = Some (- 2 ^ 63).
Proof. repeat split; vm_compute; reflexivity. Qed.

(** ------------------------------------------------------------------ the code as it was (F12) *)

Definition lit_maxint64 : bytes := Eval compute in bytes_of_string "9223372036854775807"%string.
Definition lit_2p53_1 : bytes := Eval compute in bytes_of_string "9007199254740993"%string.

(** through float64, 2^63 - 1 rounds to 2^63, passes the test [f > MaxInt64] and converts to MinInt64;
    2^53 + 1 loses its last bit *)
Lemma int_of_token_old_maxint64 : int_of_token_old false lit_maxint64 = Some (- 2 ^ 63).
Proof. vm_compute. reflexivity. Qed.

Lemma int_of_token_old_2p53_1 : int_of_token_old false lit_2p53_1 = Some (2 ^ 53).
Proof. vm_compute. reflexivity. Qed.

Lemma int_of_token_new_witnesses :
  int_of_token true false lit_maxint64 = Some (2 ^ 63 - 1) /\ int_of_token true false lit_2p53_1 = Some (2 ^ 53 + 1).
Proof. split; vm_compute; reflexivity. Qed.

(** ------------------------------------------------------------------ the denotation [num_int] *)

(** what [num_int] says for decimal integers, and that it is the written value inside int64 *)
Lemma num_int_int_lit : forall n, is_int_lit n = true ->
  num_int n = sat64 (if n_neg n then - uint_value (n_digits n) else uint_value (n_digits n)).
Proof. intros n H. unfold num_int. rewrite H. reflexivity. Qed.

Lemma num_int_exact : forall n, is_int_lit n = true ->
  - 2 ^ 63 <= (if n_neg n then - uint_value (n_digits n) else uint_value (n_digits n)) < 2 ^ 63 ->
  num_int n = (if n_neg n then - uint_value (n_digits n) else uint_value (n_digits n)).
Proof. intros n H Hr. rewrite (num_int_int_lit n H). unfold sat64. lia. Qed.

Lemma num_int_written : forall n, n_frac n = None -> n_exp n = None ->
  - 2 ^ 63 <= (if n_neg n then - uint_value (n_digits n) else uint_value (n_digits n)) < 2 ^ 63 ->
  num_int n = (if n_neg n then - uint_value (n_digits n) else uint_value (n_digits n)).
Proof. intros n H1 H2. apply num_int_exact. unfold is_int_lit. rewrite H1, H2. reflexivity. Qed.

(** the conversion of the token the scanner delivers for a printed number: scanner.Int exactly for
    the decimal integers *)
Lemma int_of_token_num : forall n, wf_num n ->
  int_of_token (is_int_lit n) (n_neg n) (num_lit n) = Some (num_int n).
Proof.
  intros n ((d0 & t0 & Ed & Hd & Ht & Hz) & Hf & He & Hp). unfold num_int.
  destruct (is_int_lit n) eqn:Ei.
  - unfold is_int_lit in Ei. unfold num_lit. destruct (n_frac n); [discriminate|]. destruct (n_exp n); [discriminate|].
    cbn [frac_text exp_text]. rewrite !app_nil_r. apply int_of_token_digits. rewrite Ed. split; [discriminate|].
    constructor; assumption.
  - unfold int_of_token, int_of_float_text. destruct (parse_float (num_lit n)); [reflexivity|contradiction Hp; reflexivity].
Qed.
